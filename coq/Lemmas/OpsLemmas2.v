(* More lemmas about Model/Ops.v: exponentiation loop, exactness of / and %,
   range of the bitwise operators, closure of i64 under every scalar operator,
   and the float operators restated through Flocq's correctness theorems. *)
From SSL.Model Require Import Base Ty Float Value Ops.
From SSL.Lemmas Require Import OpsLemmas.
From Coq Require Import ZArith Lia Bool Zpow_facts Reals Lra.
From Flocq Require Import Core.Core IEEE754.Binary IEEE754.Bits IEEE754.BinarySingleNaN.
Local Open Scope Z_scope.

Arguments pow_loop : simpl never.

(* ------------------------------------------------------------------ *)
(* congruence modulo 2^64                                             *)
(* ------------------------------------------------------------------ *)

Definition cong64 (x y : Z) : Prop := x mod two64 = y mod two64.

Lemma two64_neq0 : two64 <> 0. Proof. discriminate. Qed.

Lemma cong64_refl x : cong64 x x. Proof. reflexivity. Qed.
Lemma cong64_sym x y : cong64 x y -> cong64 y x.
Proof. unfold cong64; intros H; symmetry; exact H. Qed.
Lemma cong64_trans x y z : cong64 x y -> cong64 y z -> cong64 x z.
Proof. unfold cong64; intros H1 H2; rewrite H1; exact H2. Qed.

Lemma cong64_mul a a' b b' : cong64 a a' -> cong64 b b' -> cong64 (a * b) (a' * b').
Proof.
  unfold cong64. intros Ha Hb.
  rewrite (Z.mul_mod a b), (Z.mul_mod a' b') by exact two64_neq0.
  rewrite Ha, Hb. reflexivity.
Qed.

Lemma cong64_pow a a' n : cong64 a a' -> cong64 (a ^ n) (a' ^ n).
Proof.
  unfold cong64. intros Ha.
  rewrite (Zpower_mod a n two64), (Zpower_mod a' n two64) by exact two64_pos.
  rewrite Ha. reflexivity.
Qed.

Lemma wrap64_cong64 x : cong64 (wrap64 x) x.
Proof.
  unfold cong64, wrap64.
  replace ((x + two63) mod two64 - two63) with ((x + two63) mod two64 + (- two63)) by lia.
  rewrite Z.add_mod, Z.mod_mod by exact two64_neq0.
  rewrite <- Z.add_mod by exact two64_neq0.
  f_equal. lia.
Qed.

Lemma cong64_wrap64 x y : cong64 x y -> wrap64 x = wrap64 y.
Proof.
  unfold cong64, wrap64. intros H.
  rewrite (Z.add_mod x), (Z.add_mod y) by exact two64_neq0.
  rewrite H. reflexivity.
Qed.

Lemma wrap64_eq_iff x y : wrap64 x = wrap64 y <-> (x - y) mod two64 = 0.
Proof.
  split.
  - intros H.
    assert (Hc : cong64 x y).
    { apply cong64_trans with (wrap64 x); [apply cong64_sym, wrap64_cong64|].
      rewrite H. apply wrap64_cong64. }
    unfold cong64 in Hc. rewrite Zminus_mod, Hc, Z.sub_diag. reflexivity.
  - intros H. apply cong64_wrap64. unfold cong64.
    replace x with ((x - y) + y) at 1 by lia.
    rewrite Z.add_mod, H by exact two64_neq0. cbn [Z.add].
    apply Z.mod_mod. exact two64_neq0.
Qed.

Lemma wrap64_idem x : wrap64 (wrap64 x) = wrap64 x.
Proof. apply wrap64_id, wrap64_range. Qed.

Lemma wrap64_mul_l x y : wrap64 (wrap64 x * y) = wrap64 (x * y).
Proof. apply cong64_wrap64, cong64_mul; [apply wrap64_cong64|apply cong64_refl]. Qed.
Lemma wrap64_mul_r x y : wrap64 (x * wrap64 y) = wrap64 (x * y).
Proof. apply cong64_wrap64, cong64_mul; [apply cong64_refl|apply wrap64_cong64]. Qed.

Lemma wrap64_1 : wrap64 1 = 1. Proof. reflexivity. Qed.
Lemma in_i64_1 : in_i64 1. Proof. unfold in_i64, MIN_INT, MAX_INT, two63. lia. Qed.

(* ------------------------------------------------------------------ *)
(* the square-and-multiply loop                                       *)
(* ------------------------------------------------------------------ *)

Lemma pow_loop_0 base exp acc : pow_loop 0 base exp acc = acc.
Proof. reflexivity. Qed.

Lemma pow_loop_S fuel base exp acc :
  pow_loop (S fuel) base exp acc =
  if exp <=? 0 then acc
  else pow_loop fuel (rs_wrapping_mul base base) (Z.shiftr exp 1)
         (if Z.odd exp then rs_wrapping_mul acc base else acc).
Proof. reflexivity. Qed.

Lemma pow_loop_in_range fuel : forall base exp acc,
  in_i64 acc -> in_i64 (pow_loop fuel base exp acc).
Proof.
  induction fuel as [|fuel IH]; intros base exp acc Hacc.
  - rewrite pow_loop_0. exact Hacc.
  - rewrite pow_loop_S. destruct (exp <=? 0); [exact Hacc|].
    apply IH. destruct (Z.odd exp); [apply wrap64_range|exact Hacc].
Qed.

Lemma exp_split e : 0 <= e -> e = 2 * (e / 2) + (if Z.odd e then 1 else 0).
Proof. intros _. rewrite <- Zmod_odd. apply Z.div_mod. discriminate. Qed.

Lemma pow_sq_half base e : 0 <= e ->
  base ^ e = (base * base) ^ (e / 2) * (if Z.odd e then base else 1).
Proof.
  intros He.
  assert (Hh : 0 <= e / 2) by (apply Z.div_pos; lia).
  rewrite (exp_split e He) at 1.
  rewrite Z.pow_add_r by (try destruct (Z.odd e); lia).
  rewrite Z.pow_mul_r by lia.
  rewrite Z.pow_2_r.
  destruct (Z.odd e); [rewrite Z.pow_1_r|rewrite Z.pow_0_r]; reflexivity.
Qed.

Lemma pow_loop_cong fuel : forall base exp acc,
  0 <= exp < 2 ^ Z.of_nat fuel ->
  cong64 (pow_loop fuel base exp acc) (acc * base ^ exp).
Proof.
  induction fuel as [|fuel IH]; intros base exp acc Hexp.
  - rewrite pow_loop_0. change (2 ^ Z.of_nat 0) with 1 in Hexp.
    assert (E : exp = 0) by lia. subst exp.
    rewrite Z.pow_0_r, Z.mul_1_r. apply cong64_refl.
  - rewrite pow_loop_S.
    destruct (exp <=? 0) eqn:E0.
    + apply Z.leb_le in E0. assert (E : exp = 0) by lia. subst exp.
      rewrite Z.pow_0_r, Z.mul_1_r. apply cong64_refl.
    + apply Z.leb_gt in E0.
      rewrite Nat2Z.inj_succ, Z.pow_succ_r in Hexp by lia.
      rewrite Z.shiftr_div_pow2 by lia. rewrite Z.pow_1_r.
      assert (Hhalf : 0 <= exp / 2 < 2 ^ Z.of_nat fuel).
      { split; [apply Z.div_pos; lia|apply Z.div_lt_upper_bound; lia]. }
      eapply cong64_trans; [apply IH; exact Hhalf|].
      rewrite (pow_sq_half base exp) by lia.
      unfold rs_wrapping_mul.
      destruct (Z.odd exp).
      * replace (acc * ((base * base) ^ (exp / 2) * base))
          with ((acc * base) * (base * base) ^ (exp / 2)) by ring.
        apply cong64_mul; [apply wrap64_cong64|apply cong64_pow, wrap64_cong64].
      * rewrite Z.mul_1_r.
        apply cong64_mul; [apply cong64_refl|apply cong64_pow, wrap64_cong64].
Qed.

Lemma two64_pow : 2 ^ Z.of_nat 64 = two64. Proof. reflexivity. Qed.

Lemma wrapping_pow_u64_spec b e : 0 <= e < two64 ->
  rs_wrapping_pow_u64 b e = wrap64 (b ^ e).
Proof.
  intros He. unfold rs_wrapping_pow_u64.
  rewrite <- (wrap64_id (pow_loop 64 b e 1)) by (apply pow_loop_in_range, in_i64_1).
  apply cong64_wrap64.
  eapply cong64_trans; [apply pow_loop_cong; rewrite two64_pow; exact He|].
  rewrite Z.mul_1_l. apply cong64_refl.
Qed.

Lemma as_u64_nonneg e : 0 <= e -> in_i64 e -> rs_as_u64 e = e.
Proof.
  unfold in_i64, MIN_INT, MAX_INT, rs_as_u64. intros H0 H.
  apply Z.mod_small. unfold two63, two64 in *. lia.
Qed.

(* wrap64 (2^n) = 0 as soon as 2^64 divides 2^n; n stays abstract *)
Lemma wrap64_pow2_big n : 64 <= n -> wrap64 (2 ^ n) = 0.
Proof.
  intros Hn.
  replace n with ((n - 64) + 64) by lia.
  rewrite Z.pow_add_r by lia.
  change (2 ^ 64) with two64.
  unfold wrap64. rewrite Z.add_comm, Z.mod_add by exact two64_neq0.
  reflexivity.
Qed.

Lemma pow_u32trunc_wrong_at n : 64 <= n -> n mod 4294967296 = 0 ->
  rs_wrapping_pow_u32trunc 2 n <> wrap64 (2 ^ n).
Proof.
  intros Hn Hm. rewrite (wrap64_pow2_big n Hn).
  unfold rs_wrapping_pow_u32trunc, rs_as_u32. rewrite Hm.
  rewrite Z.pow_0_r, wrap64_1. discriminate.
Qed.

Lemma pow_u32trunc_refuted :
  exists b e, 0 <= e /\ in_i64 b /\ in_i64 e /\ rs_wrapping_pow_u32trunc b e <> wrap64 (b ^ e).
Proof.
  exists 2, 4294967296.
  split; [discriminate|].
  split; [split; discriminate|].
  split; [split; discriminate|].
  apply pow_u32trunc_wrong_at; [discriminate|reflexivity].
Qed.

(* ------------------------------------------------------------------ *)
(* quotient range, bit operators, shifts                              *)
(* ------------------------------------------------------------------ *)

Lemma quot_in_range a b :
  in_i64 a -> in_i64 b -> b <> 0 -> ~ (a = MIN_INT /\ b = -1) -> in_i64 (Z.quot a b).
Proof.
  unfold in_i64, MIN_INT, MAX_INT, two63. intros Ha Hb Hb0 Hex.
  assert (Habs : Z.abs (Z.quot a b) <= Z.abs a).
  { rewrite <- Z.quot_abs by exact Hb0.
    apply Z.quot_le_upper_bound; [lia|]. nia. }
  destruct (Z.eq_dec b (-1)) as [E|Hm1].
  - subst b. change (-1) with (Z.opp 1).
    rewrite Z.quot_opp_r, Z.quot_1_r by discriminate. lia.
  - destruct (Z.eq_dec b 1) as [E|H1].
    + subst b. rewrite Z.quot_1_r. lia.
    + assert (Habs2 : Z.abs (Z.quot a b) <= 4611686018427387904).
      { rewrite <- Z.quot_abs by exact Hb0.
        apply Z.quot_le_upper_bound; [lia|]. lia. }
      lia.
Qed.

(* z is an i64 iff its bits from 63 upwards are all equal: z >> 63 is 0 or -1 *)
Lemma in_i64_shiftr z : in_i64 z <-> (Z.shiftr z 63 = 0 \/ Z.shiftr z 63 = -1).
Proof.
  rewrite Z.shiftr_div_pow2 by discriminate.
  change (2 ^ 63) with two63.
  unfold in_i64, MIN_INT, MAX_INT.
  pose proof (Z.div_mod z two63) as Hdm.
  pose proof (Z.mod_pos_bound z two63) as Hb.
  unfold two63 in *. split.
  - intros H. lia.
  - intros [H|H]; rewrite H in Hdm; lia.
Qed.

Lemma land_in_range a b : in_i64 a -> in_i64 b -> in_i64 (Z.land a b).
Proof.
  rewrite !in_i64_shiftr, Z.shiftr_land.
  intros [-> | ->] [-> | ->]; cbn; auto.
Qed.
Lemma lor_in_range a b : in_i64 a -> in_i64 b -> in_i64 (Z.lor a b).
Proof.
  rewrite !in_i64_shiftr, Z.shiftr_lor.
  intros [-> | ->] [-> | ->]; cbn; auto.
Qed.
Lemma lxor_in_range a b : in_i64 a -> in_i64 b -> in_i64 (Z.lxor a b).
Proof.
  rewrite !in_i64_shiftr, Z.shiftr_lxor.
  intros [-> | ->] [-> | ->]; cbn; auto.
Qed.

Lemma bit_range a b : in_i64 a -> in_i64 b ->
  in_i64 (Z.land a b) /\ in_i64 (Z.lor a b) /\ in_i64 (Z.lxor a b).
Proof.
  intros Ha Hb.
  split; [apply land_in_range|split; [apply lor_in_range|apply lxor_in_range]]; assumption.
Qed.

Lemma lnot_range a : in_i64 a -> in_i64 (Z.lnot a).
Proof.
  unfold in_i64, MIN_INT, MAX_INT, two63, Z.lnot. intros H.
  rewrite <- Z.sub_1_r. lia.
Qed.

Lemma shr_range a s : in_i64 a -> 0 <= s -> in_i64 (a / 2 ^ s).
Proof.
  unfold in_i64, MIN_INT, MAX_INT, two63. intros Ha Hs.
  assert (Hd : 0 < 2 ^ s) by (apply Z.pow_pos_nonneg; lia).
  remember (2 ^ s) as d eqn:Ed. clear Ed Hs s.
  split.
  - apply Z.div_le_lower_bound; [exact Hd|]. nia.
  - assert (H : a / d < 9223372036854775808); [|lia].
    apply Z.div_lt_upper_bound; [exact Hd|]. nia.
Qed.

Section WithPowf.
Variable powf : fbits -> fbits -> fbits.
Notation op := (op_exec powf).

Lemma pow_spec b e : 0 <= e -> in_i64 e ->
  op Pow (VInt b) (VInt e) = Ok (VInt (wrap64 (b ^ e))).
Proof.
  intros He Hr. cbn [op_exec].
  assert (E : (e <? 0) = false) by (apply Z.ltb_ge; exact He).
  rewrite E, (as_u64_nonneg e He Hr).
  rewrite wrapping_pow_u64_spec; [reflexivity|].
  unfold in_i64, MIN_INT, MAX_INT, two63 in Hr. unfold two64. lia.
Qed.

Lemma pow_zero_exp b : op Pow (VInt b) (VInt 0) = Ok (VInt 1).
Proof. reflexivity. Qed.

Lemma div_exact a b :
  in_i64 a -> in_i64 b -> b <> 0 -> ~ (a = MIN_INT /\ b = -1) ->
  op Divide (VInt a) (VInt b) = Ok (VInt (Z.quot a b)).
Proof.
  intros Ha Hb Hb0 Hex. rewrite (div_nonzero powf a b Hb0).
  rewrite wrap64_id; [reflexivity|]. apply quot_in_range; assumption.
Qed.

Lemma rem_exact a b :
  in_i64 a -> in_i64 b -> b <> 0 ->
  op Modulo (VInt a) (VInt b) = Ok (VInt (Z.rem a b)).
Proof.
  intros Ha Hb Hb0. rewrite (mod_nonzero powf a b Hb0).
  rewrite wrap64_id; [reflexivity|]. apply rem_in_range; assumption.
Qed.

Lemma results_in_range o a b r :
  scalar_binop o = true -> in_i64 a -> in_i64 b ->
  op o (VInt a) (VInt b) = Ok (VInt r) -> in_i64 r.
Proof.
  intros Ho Ha Hb.
  destruct o; cbn [scalar_binop] in Ho; try discriminate Ho; cbn [op_exec].
  - intros H; inversion H; apply wrap64_range.
  - intros H; inversion H; apply wrap64_range.
  - intros H; inversion H; apply wrap64_range.
  - destruct b; intros H; inversion H; apply wrap64_range.
  - destruct b; intros H; inversion H; apply wrap64_range.
  - destruct (b <? 0); intros H; inversion H.
    unfold rs_wrapping_pow_u64. apply pow_loop_in_range, in_i64_1.
  - discriminate.
  - discriminate.
  - discriminate.
  - discriminate.
  - discriminate.
  - discriminate.
  - intros H; inversion H; apply land_in_range; assumption.
  - intros H; inversion H; apply lor_in_range; assumption.
  - intros H; inversion H; apply lxor_in_range; assumption.
  - destruct ((0 <=? b) && (b <=? 63)); intros H; inversion H. apply wrap64_range.
  - destruct (0 <=? b) eqn:E1; cbn [andb]; [|discriminate].
    destruct (b <=? 63); intros H; inversion H.
    apply Z.leb_le in E1. unfold rs_shr.
    rewrite Z.shiftr_div_pow2 by exact E1. apply shr_range; assumption.
Qed.

Lemma unop_results_in_range u a r :
  in_i64 a -> unop_exec u (VInt a) = Ok (VInt r) -> in_i64 r.
Proof.
  intros Ha. destruct u; cbn [unop_exec]; try discriminate.
  - intros H; inversion H. apply lnot_range; exact Ha.
  - intros H; inversion H. apply wrap64_range.
Qed.

End WithPowf.

(* ------------------------------------------------------------------ *)
(* floats: the model's operations are Flocq's binary64 operations      *)
(* ------------------------------------------------------------------ *)

Definition f_finite (x : fbits) : bool := Binary.is_finite 53 1024 (f_of_bits x).
Definition f_real (x : fbits) : R := Binary.B2R 53 1024 (f_of_bits x).
Definition f_sign (x : fbits) : bool := Binary.Bsign 53 1024 (f_of_bits x).
(* round to nearest, ties to even, in the binary64 format *)
Definition RN64 (r : R) : R := round radix2 (FLT_exp (-1074) 53) ZnearestE r.
Definition F64_MAX_BOUND : R := bpow radix2 1024.

Lemma canon_nan_is_nan : Binary.is_nan 53 1024 (f_of_bits CANON_NAN) = true.
Proof. vm_compute. reflexivity. Qed.

Lemma f_of_bits_of_f (f : binary64) :
  Binary.is_nan 53 1024 f = false -> f_of_bits (bits_of_f f) = f.
Proof.
  intros H. unfold f_of_bits, bits_of_f. rewrite H.
  exact (binary_float_of_bits_of_binary_float 52 11 eq_refl eq_refl eq_refl f).
Qed.

Lemma bits_of_f_range (f : binary64) : 0 <= bits_of_f f < two64.
Proof.
  unfold bits_of_f. destruct (Binary.is_nan 53 1024 f).
  - unfold CANON_NAN, two64. lia.
  - change two64 with (2 ^ (52 + 11 + 1)).
    exact (bits_of_binary_float_range 52 11 eq_refl eq_refl f).
Qed.

Lemma bits_of_f_of_bits x : 0 <= x < two64 -> f_is_nan x = false -> fcanon x = x.
Proof.
  intros Hx Hn. unfold fcanon, bits_of_f. unfold f_is_nan in Hn. rewrite Hn.
  exact (bits_of_binary_float_of_bits 52 11 eq_refl eq_refl eq_refl x Hx).
Qed.

Lemma is_nan_round_trip (f : binary64) :
  Binary.is_nan 53 1024 (f_of_bits (bits_of_f f)) = Binary.is_nan 53 1024 f.
Proof.
  destruct (Binary.is_nan 53 1024 f) eqn:E.
  - unfold bits_of_f. rewrite E. apply canon_nan_is_nan.
  - rewrite f_of_bits_of_f by exact E. exact E.
Qed.

Lemma nan_not_finite (f : binary64) :
  Binary.is_nan 53 1024 f = true -> Binary.is_finite 53 1024 f = false /\ Binary.B2R 53 1024 f = 0%R.
Proof. destruct f; try discriminate; auto. Qed.

Lemma is_finite_round_trip (f : binary64) :
  Binary.is_finite 53 1024 (f_of_bits (bits_of_f f)) = Binary.is_finite 53 1024 f.
Proof.
  destruct (Binary.is_nan 53 1024 f) eqn:E.
  - pose proof (is_nan_round_trip f) as H. rewrite E in H.
    destruct (nan_not_finite _ H) as [-> _]. destruct (nan_not_finite _ E) as [-> _]. reflexivity.
  - rewrite f_of_bits_of_f by exact E. reflexivity.
Qed.

Lemma B2R_round_trip (f : binary64) :
  Binary.B2R 53 1024 (f_of_bits (bits_of_f f)) = Binary.B2R 53 1024 f.
Proof.
  destruct (Binary.is_nan 53 1024 f) eqn:E.
  - pose proof (is_nan_round_trip f) as H. rewrite E in H.
    destruct (nan_not_finite _ H) as [_ ->]. destruct (nan_not_finite _ E) as [_ ->]. reflexivity.
  - rewrite f_of_bits_of_f by exact E. reflexivity.
Qed.

(* every arithmetic result is a valid bit pattern *)
Lemma float_results_valid x y :
  0 <= fadd x y < two64 /\ 0 <= fsub x y < two64 /\ 0 <= fmul x y < two64 /\
  0 <= fdiv x y < two64 /\ 0 <= fneg x < two64 /\ 0 <= fcanon x < two64.
Proof. repeat split; apply bits_of_f_range. Qed.

Lemma fadd_correct x y :
  f_finite x = true -> f_finite y = true ->
  (Rabs (RN64 (f_real x + f_real y)) < F64_MAX_BOUND)%R ->
  f_real (fadd x y) = RN64 (f_real x + f_real y) /\ f_finite (fadd x y) = true.
Proof.
  unfold f_finite, f_real, fadd, RN64, F64_MAX_BOUND. intros Hx Hy Hb.
  rewrite B2R_round_trip, is_finite_round_trip.
  pose proof (Binary.Bplus_correct 53 1024 eq_refl eq_refl binop_nan_pl64 mode_NE
                (f_of_bits x) (f_of_bits y) Hx Hy) as H.
  change (SpecFloat.fexp 53 1024) with (FLT_exp (-1074) 53) in H.
  change (round_mode mode_NE) with ZnearestE in H.
  rewrite (Rlt_bool_true _ _ Hb) in H.
  destruct H as [H1 [H2 _]]. split; [exact H1|exact H2].
Qed.

Lemma fsub_correct x y :
  f_finite x = true -> f_finite y = true ->
  (Rabs (RN64 (f_real x - f_real y)) < F64_MAX_BOUND)%R ->
  f_real (fsub x y) = RN64 (f_real x - f_real y) /\ f_finite (fsub x y) = true.
Proof.
  unfold f_finite, f_real, fsub, RN64, F64_MAX_BOUND. intros Hx Hy Hb.
  rewrite B2R_round_trip, is_finite_round_trip.
  pose proof (Binary.Bminus_correct 53 1024 eq_refl eq_refl binop_nan_pl64 mode_NE
                (f_of_bits x) (f_of_bits y) Hx Hy) as H.
  change (SpecFloat.fexp 53 1024) with (FLT_exp (-1074) 53) in H.
  change (round_mode mode_NE) with ZnearestE in H.
  rewrite (Rlt_bool_true _ _ Hb) in H.
  destruct H as [H1 [H2 _]]. split; [exact H1|exact H2].
Qed.

Lemma fmul_correct x y :
  (Rabs (RN64 (f_real x * f_real y)) < F64_MAX_BOUND)%R ->
  f_real (fmul x y) = RN64 (f_real x * f_real y) /\
  f_finite (fmul x y) = f_finite x && f_finite y.
Proof.
  unfold f_finite, f_real, fmul, RN64, F64_MAX_BOUND. intros Hb.
  rewrite B2R_round_trip, is_finite_round_trip.
  pose proof (Binary.Bmult_correct 53 1024 eq_refl eq_refl binop_nan_pl64 mode_NE
                (f_of_bits x) (f_of_bits y)) as H.
  change (SpecFloat.fexp 53 1024) with (FLT_exp (-1074) 53) in H.
  change (round_mode mode_NE) with ZnearestE in H.
  rewrite (Rlt_bool_true _ _ Hb) in H.
  destruct H as [H1 [H2 _]]. split; [exact H1|exact H2].
Qed.

Lemma fdiv_correct x y :
  f_real y <> 0%R ->
  (Rabs (RN64 (f_real x / f_real y)) < F64_MAX_BOUND)%R ->
  f_real (fdiv x y) = RN64 (f_real x / f_real y) /\
  f_finite (fdiv x y) = f_finite x.
Proof.
  unfold f_finite, f_real, fdiv, RN64, F64_MAX_BOUND. intros Hy Hb.
  rewrite B2R_round_trip, is_finite_round_trip.
  pose proof (Binary.Bdiv_correct 53 1024 eq_refl eq_refl binop_nan_pl64 mode_NE
                (f_of_bits x) (f_of_bits y) Hy) as H.
  change (SpecFloat.fexp 53 1024) with (FLT_exp (-1074) 53) in H.
  change (round_mode mode_NE) with ZnearestE in H.
  rewrite (Rlt_bool_true _ _ Hb) in H.
  destruct H as [H1 [H2 _]]. split; [exact H1|exact H2].
Qed.

Lemma fneg_correct x :
  f_real (fneg x) = (- f_real x)%R /\ f_finite (fneg x) = f_finite x /\
  (f_is_nan x = false -> f_sign (fneg x) = negb (f_sign x)) /\
  (f_is_nan x = true -> fneg x = CANON_NAN).
Proof.
  unfold f_finite, f_real, f_sign, fneg, f_is_nan.
  rewrite B2R_round_trip, is_finite_round_trip.
  split; [apply Binary.B2R_Bopp|]. split; [apply Binary.is_finite_Bopp|]. split.
  - intros Hn. rewrite f_of_bits_of_f.
    + apply Binary.Bsign_Bopp. exact Hn.
    + destruct (f_of_bits x); try discriminate Hn; reflexivity.
  - intros Hn. unfold bits_of_f.
    destruct (f_of_bits x); try discriminate Hn. reflexivity.
Qed.

Lemma fcmp_finite x y : f_finite x = true -> f_finite y = true ->
  fcmp x y = Some (Rcompare (f_real x) (f_real y)).
Proof. intros Hx Hy. apply Binary.Bcompare_correct; assumption. Qed.

Lemma fcmp_nan x y : f_is_nan x = true \/ f_is_nan y = true -> fcmp x y = None.
Proof.
  unfold f_is_nan, fcmp, b64_compare, Binary.Bcompare, BinarySingleNaN.Bcompare.
  intros [H|H].
  - destruct (f_of_bits x); try discriminate H. reflexivity.
  - destruct (f_of_bits y); try discriminate H.
    destruct (f_of_bits x); reflexivity.
Qed.

Lemma feq_not_nan x y : feq x y = true -> f_is_nan x = false /\ f_is_nan y = false.
Proof.
  unfold feq. intros H.
  destruct (f_is_nan x) eqn:Ex.
  - rewrite (fcmp_nan x y (or_introl Ex)) in H. discriminate H.
  - destruct (f_is_nan y) eqn:Ey; [|auto].
    rewrite (fcmp_nan x y (or_intror Ey)) in H. discriminate H.
Qed.

Lemma feq_nan_irrefl x : f_is_nan x = true -> feq x x = false.
Proof. intros H. unfold feq. rewrite (fcmp_nan x x (or_introl H)). reflexivity. Qed.

Lemma nan_compares_false x y : f_is_nan x = true \/ f_is_nan y = true ->
  feq x y = false /\ flt x y = false /\ fle x y = false /\ fgt x y = false /\ fge x y = false.
Proof. intros H. unfold feq, flt, fle, fgt, fge. rewrite (fcmp_nan x y H). auto. Qed.

Lemma feq_zero_negzero : feq F_ZERO (fneg F_ZERO) = true.
Proof. vm_compute. reflexivity. Qed.
Lemma negzero_bits : fneg F_ZERO = 9223372036854775808.
Proof. vm_compute. reflexivity. Qed.

Lemma fcmp_real x y : f_finite x = true -> f_finite y = true ->
  (feq x y = true <-> f_real x = f_real y) /\
  (flt x y = true <-> (f_real x < f_real y)%R) /\
  (fle x y = true <-> (f_real x <= f_real y)%R) /\
  (fgt x y = true <-> (f_real x > f_real y)%R) /\
  (fge x y = true <-> (f_real x >= f_real y)%R).
Proof.
  intros Hx Hy. unfold feq, flt, fle, fgt, fge. rewrite (fcmp_finite x y Hx Hy).
  destruct (Rcompare_spec (f_real x) (f_real y)) as [H|H|H];
    repeat split; intros H'; try discriminate H'; try reflexivity; try lra.
Qed.

(* Sound6.v — layer 3, stage 6: the iterator operators.
   `it $]` (collect), `it $init f` (reduce), `it ? T` (type filter), `it \ p` (partition).
   An iterator is a function value () -> (bool, E): a call yields (true, x) with x : E or
   an end marker (false, _).  The loops of the interpreter ([pull_def], [reduce_def]) call it
   through [call_def]; Sound4.call_sound types every such call.
   `$+` / `$*` are planted as calls of the reducer closures by the checker (T_Call / T_Match). *)
From SSL.Model Require Import Base Ty Float Value Ops Seq Syntax Rt Recreate Exec Check.
From SSL.Lemmas Require Import TyLemmas ValueLemmas SeqLemmas ExecLemmas SoundLemmas CellLemmas
  SoundDefs SoundVals SoundTyping Sound1 Sound2 Sound3 Sound4 Sound5 SoundRec1.

Arguments matches : simpl never.
Arguments ty_eqb : simpl never.
Arguments concat : simpl never.

Local Open Scope Z_scope.

(* ---- iterator values ---- *)
Lemma iter_value_shape W v T E :
  gv W v T -> matches T (it_of E) = true ->
  exists fid r', v = VFun fid [] r' /\ matches r' (TTup [TBool; E]) = true /\ vgood W v.
Proof.
  intros Hv M. apply (gv_sub W v T (it_of E)) in Hv; [|exact M]. destruct Hv as [Hv Hg].
  pose proof (has_type_content _ _ Hv) as Cn. unfold it_of in Cn.
  destruct v; try discriminate Cn. rewrite content_in_fun, matches_fun in Cn.
  apply andb_true_iff in Cn. destruct Cn as [Cp Cr]. destruct ps; [|discriminate Cp].
  exists id, r. auto.
Qed.

Lemma pair_value W w E :
  gv W w (TTup [TBool; E]) -> exists b x, w = VTup [VBool b; x] /\ gv W x E.
Proof.
  intros [Hw Hg]. pose proof (has_type_content _ _ Hw) as Cn. destruct w; try discriminate Cn.
  rewrite tuple_typed in Hw. pose proof (all2_length _ _ _ Hw) as Hl.
  destruct vs as [|c [|x [|y vs]]]; try discriminate Hl. cbn [all2] in Hw.
  apply andb_true_iff in Hw. destruct Hw as [Hc Hx]. rewrite andb_true_r in Hx.
  destruct (in_TBool c Hc) as [b ->]. exists b, x. split; [reflexivity|]. split; [exact Hx|].
  rewrite vgood_tup in Hg. inversion Hg as [|? ? _ Hg']; subst. inversion Hg'; subst. assumption.
Qed.

Lemma gv_arr_of W vs E : Forall (fun x => gv W x E) vs -> gv W (arr_of vs) (TArr E).
Proof.
  intros H. rewrite Forall_forall in H. split.
  - apply has_type_intro.
    + apply arr_of_tag_below. intros x Hx. apply (H x Hx).
    + unfold arr_of. rewrite content_in_arr. apply forallb_forall. intros x Hx.
      apply has_type_content. apply (H x Hx).
  - apply vgood_arr_of. apply Forall_forall. intros x Hx. apply (H x Hx).
Qed.

Lemma is_false_bool b : is_false (VBool b) = negb b.
Proof. destruct b; reflexivity. Qed.

Section WithFlag.
Context {FL : Policy}.

(* ---- Variable::of_type at run time: the default value of a type is a good value of it;
        the fresh closures have the typed body `return <good constant>`, the fresh cells hold
        good values of their declared content type ---- *)
Lemma map_snd_default_params ps : map snd (default_params ps) = ps.
Proof.
  unfold default_params. generalize O. induction ps as [|p ps IH]; intros i; [reflexivity|].
  cbn [map snd]. rewrite IH. reflexivity.
Qed.

Lemma nodup_keys_fst {A B} (l : list (ident * A)) (l' : list (ident * B)) :
  map fst l = map fst l' -> nodup_keys l = nodup_keys l'.
Proof.
  revert l'. induction l as [|[k a] l IH]; intros [|[k' b] l'] H; try discriminate H; [reflexivity|].
  cbn [map fst] in H. injection H as <- H. cbn [nodup_keys]. rewrite (IH l' H). f_equal. f_equal.
  clear IH. revert l' H. induction l as [|[k1 a1] l IH]; intros [|[k2 b2] l'] H; try discriminate H;
    [reflexivity|].
  cbn [map fst] in H. injection H as <- H. cbn [existsb fst]. rewrite (IH l' H). reflexivity.
Qed.

Lemma assoc_aligned {A B} (P : A -> B -> Prop) (l : list (ident * A)) (l' : list (ident * B)) k b :
  Forall2 (fun x y => fst x = fst y /\ P (snd x) (snd y)) l l' ->
  nodup_keys l' = true -> In (k, b) l' -> exists a, assoc k l = Some a /\ P a b.
Proof.
  intros H. induction H as [|[k1 a1] [k2 b2] l l' [Hk Hp] _ IH]; intros Hn Hin; [destruct Hin|].
  cbn [fst snd] in *. subst k2. cbn [nodup_keys] in Hn. apply andb_true_iff in Hn.
  destruct Hn as [Hn1 Hn2]. destruct Hin as [Heq|Hin].
  - injection Heq as <- <-. exists a1. cbn [assoc]. rewrite ident_eqb_refl. auto.
  - cbn [assoc]. destruct (ident_eqb k k1) eqn:Ek.
    + exfalso. apply ident_eqb_eq in Ek. subst k1. apply negb_true_iff in Hn1.
      assert (Hex : existsb (fun kv : ident * B => ident_eqb k (fst kv)) l' = true).
      { apply existsb_exists. exists (k, b). split; [exact Hin|]. cbn [fst]. apply ident_eqb_refl. }
      rewrite Hex in Hn1. discriminate Hn1.
    + apply IH; assumption.
Qed.

Theorem alloc_default_sound : forall t W st d st',
  wf_ty t = true -> store_ok W st -> alloc_default t st = Some (d, st') ->
  exists W', ext W W' /\ store_ok W' st' /\ gv W' d t.
Proof.
  induction t as [t IH] using ty_size_ind. intros W st d st' Wt HS H.
  assert (Triv : forall v, has_type v t = true -> vgood W v -> Some (v, st) = Some (d, st') ->
                   exists W', ext W W' /\ store_ok W' st' /\ gv W' d t).
  { intros v Hv Hg E. injection E as <- <-. exists W. split; [apply ext_refl|]. split; [exact HS|].
    split; assumption. }
  destruct t as [| | | | | | |ps r|e|ts|ms|e|fs]; cbn [alloc_default] in H;
    try (refine (Triv _ _ _ H); [reflexivity|exact I]); try discriminate H.
  - (* function *)
    destruct (alloc_default r st) as [[d0 st0]|] eqn:Hr; [|discriminate H].
    destruct (wf_fun_parts _ _ Wt) as [Wps Wr].
    destruct (IH r ltac:(szs) W st d0 st0 Wr HS Hr) as [W1 [HE1 [HS1 [Hd Hg]]]].
    pose proof (closure_alloc_sound W1 st0 None (default_params ps) [IUn UReturn (IVar d0)] r
                  (closure_env None (default_params ps) r) [TNever] HS1) as C.
    rewrite map_snd_default_params in C. specialize (C Wt).
    destruct C as [HE2 [HS2 Hv]].
    + apply TL_cons with (G1 := closure_env None (default_params ps) r); [|apply TL_nil].
      apply Ln_stm. apply (T_Return W1 _ _ (IVar d0) (as_type d0) r);
        [apply T_Var; exact Hg|reflexivity|apply (has_type_tag _ _ Hd)].
    + right. left. reflexivity.
    + destruct (alloc_fun st0 _) as [st2 id]. cbn [fst snd] in *. injection H as <- <-.
      eexists. split; [apply (ext_trans W W1 _ HE1 HE2)|]. split; [exact HS2|exact Hv].
  - (* array *)
    apply (Triv (VArr e [])); [|rewrite vgood_arr; split; [exact Wt|constructor]|exact H].
    apply has_type_intro; [cbn [as_type]; apply matches_refl; exact Wt|reflexivity].
  - (* tuple *)
    assert (Go : forall ts0, (forall t0, In t0 ts0 -> In t0 ts) -> forall W st vs st',
              store_ok W st ->
              (fix go (ts : list ty) (st : store) : option (list value * store) :=
                 match ts with
                 | [] => Some ([], st)
                 | t :: ts => match alloc_default t st with
                              | Some (v, st) => match go ts st with
                                                | Some (vs, st) => Some (v :: vs, st) | None => None end
                              | None => None
                              end
                 end) ts0 st = Some (vs, st') ->
              exists W', ext W W' /\ store_ok W' st' /\ Forall2 (gv W') vs ts0).
    { induction ts0 as [|t0 ts0 IHts]; intros Hsub W1 st1 vs st1' HS1 Hgo.
      - injection Hgo as <- <-. exists W1. split; [apply ext_refl|]. split; [exact HS1|constructor].
      - destruct (alloc_default t0 st1) as [[v st2]|] eqn:H0; [|discriminate Hgo].
        assert (Hin : In t0 ts) by (apply Hsub; left; reflexivity).
        assert (W0t : wf_ty t0 = true).
        { cbn [wf_ty] in Wt. rewrite forallb_forall in Wt. apply Wt. exact Hin. }
        destruct (IH t0 ltac:(szs) W1 st1 v st2 W0t HS1 H0) as [W2 [HE2 [HS2 Hv]]].
        match type of Hgo with match ?X with _ => _ end = _ => destruct X as [[vs' st3]|] eqn:Hr end;
          [|discriminate Hgo].
        injection Hgo as <- <-.
        destruct (IHts (fun t1 H1 => Hsub t1 (or_intror H1)) W2 st2 vs' st3 HS2 Hr)
          as [W3 [HE3 [HS3 Hvs]]].
        exists W3. split; [apply (ext_trans W1 W2 W3); assumption|]. split; [exact HS3|].
        constructor; [apply (gv_mono W2 W3); assumption|exact Hvs]. }
    match type of H with match ?X with _ => _ end = _ => destruct X as [[vs st1]|] eqn:Hgo end;
      [|discriminate H].
    injection H as <- <-.
    destruct (Go ts (fun t0 H0 => H0) W st vs st1 HS Hgo) as [W1 [HE1 [HS1 Hvs]]].
    exists W1. split; [exact HE1|]. split; [exact HS1|]. split.
    + rewrite tuple_typed. apply (Forall2_gv_all2 W1). exact Hvs.
    + rewrite vgood_tup. apply (Forall2_gv_good W1 vs ts). exact Hvs.
  - (* union: the first member *)
    destruct ms as [|m ms]; [discriminate H|].
    destruct (wf_multi_inv _ Wt) as [_ [_ [Wm _]]].
    destruct (IH m ltac:(cbn [size sizes_with fold_right]; lia) W st d st'
                (Wm m (or_introl eq_refl)) HS H) as [W1 [HE1 [HS1 [Hd Hg]]]].
    exists W1. split; [exact HE1|]. split; [exact HS1|]. split; [|exact Hg].
    apply (has_type_multi_intro d m); [left; reflexivity|exact Hd].
  - (* cell *)
    destruct (alloc_default e st) as [[d0 st0]|] eqn:He; [|discriminate H].
    cbn [wf_ty] in Wt.
    destruct (IH e ltac:(szs) W st d0 st0 Wt HS He) as [W1 [HE1 [HS1 Hd]]].
    destruct (store_ok_alloc W1 st0 d0 e HS1 Hd Wt) as [HS2 Hv].
    destruct (alloc_cell st0 d0) as [st2 loc]. cbn [fst snd] in *. injection H as <- <-.
    exists (W_alloc W1 e). split; [apply (ext_trans W W1 _ HE1 (ext_alloc W1 e))|].
    split; [exact HS2|exact Hv].
  - (* struct *)
    assert (Go : forall fs0, (forall kt, In kt fs0 -> In kt fs) -> forall W st vs st',
              store_ok W st ->
              (fix go (fs : list (ident * ty)) (st : store) : option (list (ident * value) * store) :=
                 match fs with
                 | [] => Some ([], st)
                 | (k, t) :: fs => match alloc_default t st with
                                   | Some (v, st) => match go fs st with
                                                     | Some (vs, st) => Some ((k, v) :: vs, st) | None => None end
                                   | None => None
                                   end
                 end) fs0 st = Some (vs, st') ->
              exists W', ext W W' /\ store_ok W' st' /\
                Forall2 (fun x y => fst x = fst y /\ gv W' (snd x) (snd y)) vs fs0).
    { induction fs0 as [|[k0 t0] fs0 IHfs]; intros Hsub W1 st1 vs st1' HS1 Hgo.
      - injection Hgo as <- <-. exists W1. split; [apply ext_refl|]. split; [exact HS1|constructor].
      - destruct (alloc_default t0 st1) as [[v st2]|] eqn:H0; [|discriminate Hgo].
        assert (Hin : In (k0, t0) fs) by (apply Hsub; left; reflexivity).
        assert (W0t : wf_ty t0 = true).
        { cbn [wf_ty] in Wt. apply andb_true_iff in Wt. destruct Wt as [_ Wt].
          rewrite forallb_forall in Wt. apply (Wt (k0, t0) Hin). }
        destruct (IH t0 ltac:(szs) W1 st1 v st2 W0t HS1 H0) as [W2 [HE2 [HS2 Hv]]].
        match type of Hgo with match ?X with _ => _ end = _ => destruct X as [[vs' st3]|] eqn:Hr end;
          [|discriminate Hgo].
        injection Hgo as <- <-.
        destruct (IHfs (fun kt H1 => Hsub kt (or_intror H1)) W2 st2 vs' st3 HS2 Hr)
          as [W3 [HE3 [HS3 Hvs]]].
        exists W3. split; [apply (ext_trans W1 W2 W3); assumption|]. split; [exact HS3|].
        constructor; [split; [reflexivity|apply (gv_mono W2 W3); assumption]|exact Hvs]. }
    match type of H with match ?X with _ => _ end = _ => destruct X as [[vs st1]|] eqn:Hgo end;
      [|discriminate H].
    injection H as <- <-.
    destruct (Go fs (fun kt H0 => H0) W st vs st1 HS Hgo) as [W1 [HE1 [HS1 Hvs]]].
    pose proof Wt as Wt'. cbn [wf_ty] in Wt'. apply andb_true_iff in Wt'. destruct Wt' as [Hnd _].
    assert (Hkeys : map fst vs = map fst fs).
    { clear - Hvs. induction Hvs as [|x y l l' [Hk _] _ IHl]; [reflexivity|].
      cbn [map]. rewrite Hk, IHl. reflexivity. }
    exists W1. split; [exact HE1|]. split; [exact HS1|]. split.
    + rewrite has_type_struct. apply forallb_forall. intros [k t] Hkt. cbn [fst snd].
      destruct (assoc_aligned (gv W1) vs fs k t Hvs Hnd Hkt) as [x [Hx [Hxt _]]].
      rewrite Hx. exact Hxt.
    + rewrite vgood_struct. split; [rewrite (nodup_keys_fst vs fs Hkeys); exact Hnd|].
      clear - Hvs. induction Hvs as [|x y l l' [_ [_ Hg]] _ IHl]; constructor; assumption.
Qed.

(* definedness agrees with the pure [of_type] the checker tests *)
Lemma alloc_default_defined : forall t st, of_type t <> None -> alloc_default t st <> None.
Proof.
  induction t as [t IH] using ty_size_ind. intros st H.
  destruct t as [| | | | | | |ps r|e|ts|ms|e|fs]; cbn [alloc_default]; try discriminate;
    try (exfalso; apply H; reflexivity).
  - cbn [of_type] in H. destruct (of_type r) eqn:Er; [|exfalso; apply H; reflexivity].
    pose proof (IH r ltac:(szs) st ltac:(rewrite Er; discriminate)) as Hr.
    destruct (alloc_default r st) as [[d st0]|]; [|exfalso; apply Hr; reflexivity].
    destruct (alloc_fun st0 _). discriminate.
  - rewrite of_type_tup in H. destruct (of_types ts) as [vs0|] eqn:Eo; [|exfalso; apply H; reflexivity].
    assert (Go : forall ts0, (forall t0, In t0 ts0 -> In t0 ts) -> forall vs0, of_types ts0 = Some vs0 ->
              forall st,
              (fix go (ts : list ty) (st : store) : option (list value * store) :=
                 match ts with
                 | [] => Some ([], st)
                 | t :: ts => match alloc_default t st with
                              | Some (v, st) => match go ts st with
                                                | Some (vs, st) => Some (v :: vs, st) | None => None end
                              | None => None
                              end
                 end) ts0 st <> None).
    { induction ts0 as [|t0 ts0 IHts]; intros Hsub vs1 Hof st1; [discriminate|].
      cbn [of_types] in Hof. destruct (of_type t0) as [v0|] eqn:E0; [|discriminate Hof].
      destruct (of_types ts0) as [vs2|] eqn:E1; [|discriminate Hof].
      assert (Hin : In t0 ts) by (apply Hsub; left; reflexivity).
      pose proof (IH t0 ltac:(szs) st1 ltac:(rewrite E0; discriminate)) as H0. simpl.
      destruct (alloc_default t0 st1) as [[v st2]|]; [|exfalso; apply H0; reflexivity].
      pose proof (IHts (fun t1 H1 => Hsub t1 (or_intror H1)) vs2 eq_refl st2) as H1.
      match goal with |- match ?X with _ => _ end <> _ => destruct X as [[? ?]|] end;
        [discriminate|exfalso; apply H1; reflexivity]. }
    pose proof (Go ts (fun t0 H0 => H0) vs0 Eo st) as G1.
    match goal with |- match ?X with _ => _ end <> _ => destruct X as [[? ?]|] end;
      [discriminate|exfalso; apply G1; reflexivity].
  - cbn [of_type] in H. destruct ms as [|m ms]; [exfalso; apply H; reflexivity|].
    apply IH; [cbn [size sizes_with fold_right]; lia|exact H].
  - cbn [of_type] in H. destruct (of_type e) eqn:Ee; [|exfalso; apply H; reflexivity].
    pose proof (IH e ltac:(szs) st ltac:(rewrite Ee; discriminate)) as He.
    destruct (alloc_default e st) as [[d st0]|]; [|exfalso; apply He; reflexivity].
    destruct (alloc_cell st0 d). discriminate.
  - rewrite of_type_struct in H. destruct (of_fields fs) as [vs0|] eqn:Eo; [|exfalso; apply H; reflexivity].
    assert (Go : forall fs0, (forall kt, In kt fs0 -> In kt fs) -> forall vs0, of_fields fs0 = Some vs0 ->
              forall st,
              (fix go (fs : list (ident * ty)) (st : store) : option (list (ident * value) * store) :=
                 match fs with
                 | [] => Some ([], st)
                 | (k, t) :: fs => match alloc_default t st with
                                   | Some (v, st) => match go fs st with
                                                     | Some (vs, st) => Some ((k, v) :: vs, st) | None => None end
                                   | None => None
                                   end
                 end) fs0 st <> None).
    { induction fs0 as [|[k0 t0] fs0 IHfs]; intros Hsub vs1 Hof st1; [discriminate|].
      cbn [of_fields] in Hof. destruct (of_type t0) as [v0|] eqn:E0; [|discriminate Hof].
      destruct (of_fields fs0) as [vs2|] eqn:E1; [|discriminate Hof].
      assert (Hin : In (k0, t0) fs) by (apply Hsub; left; reflexivity).
      pose proof (IH t0 ltac:(szs) st1 ltac:(rewrite E0; discriminate)) as H0. simpl.
      destruct (alloc_default t0 st1) as [[v st2]|]; [|exfalso; apply H0; reflexivity].
      pose proof (IHfs (fun kt H1 => Hsub kt (or_intror H1)) vs2 eq_refl st2) as H1.
      match goal with |- match ?X with _ => _ end <> _ => destruct X as [[? ?]|] end;
        [discriminate|exfalso; apply H1; reflexivity]. }
    pose proof (Go fs (fun kt H0 => H0) vs0 Eo st) as G1.
    match goal with |- match ?X with _ => _ end <> _ => destruct X as [[? ?]|] end;
      [discriminate|exfalso; apply G1; reflexivity].
Qed.

Section Sound.
Variable powf : fbits -> fbits -> fbits.
Variable pre : prelude.
Notation E := (exec powf pre).
Notation sound_at := (sound_at powf pre).
Notation sound_line_at := (sound_line_at powf pre).

Definition K0 : kctx := mkK false None.

(* one call of an iterator: a pair (flag, element), an error, or out of fuel *)
Lemma iter_call n (IHl : sound_line_at n) W st sc fid r' El :
  store_ok W st -> vgood W (VFun fid [] r') -> matches r' (TTup [TBool; El]) = true ->
  let r := call_def (E n) fid [] st sc in
  scs r = sc /\ exists W', ext W W' /\ store_ok W' (sto r) /\
    match sig r with
    | SVal w => exists b x, w = VTup [VBool b; x] /\ gv W' x El
    | SError e => doc_err e
    | SFuel => True
    | _ => False
    end.
Proof.
  intros HS Hg M r.
  destruct (call_sound powf pre n IHl W K0 (TTup [TBool; El]) st sc fid [] r' [] HS Hg
              (Forall2_nil _) M) as [Hsc [W' [HE [HS' Hs]]]].
  split; [exact Hsc|]. exists W'. split; [exact HE|]. split; [exact HS'|].
  fold r in Hs. destruct (sig r); cbn [sig_ok K0 in_loop ret] in Hs; try discriminate Hs;
    try exact Hs; try exact I.
  - apply pair_value. exact Hs.
  - destruct Hs as [Tr [Er _]]. discriminate Er.
Qed.

(* ---- it $] ---- *)
Lemma pull_sound n (IHl : sound_line_at n) K sc fid r' El : forall m W st acc,
  store_ok W st -> vgood W (VFun fid [] r') -> matches r' (TTup [TBool; El]) = true ->
  Forall (fun x => gv W x El) acc ->
  match pull_def (E n) m (VFun fid [] r') st sc acc with
  | (st', sc', o, s) =>
      sc' = sc /\ exists W', ext W W' /\ store_ok W' st' /\
        match o with
        | Ok vs => Forall (fun x => gv W' x El) vs
        | _ => nonval s /\ sig_ok W' K TNever s
        end
  end.
Proof.
  induction m as [|m IHm]; intros W st acc HS Hg M Hacc.
  - cbn [pull_def]. split; [reflexivity|]. exists W. split; [apply ext_refl|]. split; [exact HS|].
    split; exact I.
  - rewrite pull_def_S. cbn [call_v_def].
    destruct (iter_call n IHl W st sc fid r' El HS Hg M) as [Hsc [W1 [HE [HS1 Hs]]]].
    destruct (call_def (E n) fid [] st sc) as [[st1 sc1] s1]. unfold scs, sto, sig in *.
    cbn [fst snd] in *. subst sc1.
    destruct s1; try contradiction;
      try (split; [reflexivity|]; exists W1; split; [exact HE|]; split; [exact HS1|];
           split; [exact I|first [exact Hs|exact I]]).
    destruct Hs as [b [x [-> Hx]]]. rewrite is_false_bool. destruct b; cbn [negb].
    + assert (Hacc1 : Forall (fun y => gv W1 y El) (x :: acc)).
      { constructor; [exact Hx|]. eapply Forall_impl; [|exact Hacc]. intros y Hy.
        apply (gv_mono W W1); assumption. }
      specialize (IHm W1 st1 (x :: acc) HS1 (vgood_mono W W1 _ HE Hg) M Hacc1).
      destruct (pull_def (E n) m (VFun fid [] r') st1 sc (x :: acc)) as [[[st2 sc2] o] s2].
      destruct IHm as [Hsc2 [W2 [HE2 [HS2 Ho]]]]. split; [exact Hsc2|]. exists W2.
      split; [apply (ext_trans W W1 W2); assumption|]. split; [exact HS2|exact Ho].
    + split; [reflexivity|]. exists W1. split; [exact HE|]. split; [exact HS1|].
      apply Forall_rev. eapply Forall_impl; [|exact Hacc]. intros y Hy. apply (gv_mono W W1); assumption.
Qed.

Lemma case_collect n (IH : sound_at n) (IHl : sound_line_at n) W0 G K x T W st sc :
  typed W0 G K x T -> matches T (it_of (ielem T)) = true -> ctx_ok W0 W st sc G ->
  concl W K (TArr (ielem T)) sc (E (S n) st sc (IUn UCollect x)).
Proof.
  intros Hx Hm HC. rewrite exec_S_IUn.
  apply (with_val_sound powf pre n IH W0 G K x T); [exact Hx|exact HC|].
  intros W1 st1 v HE1 HC1 Hv. cbn [un_dispatch].
  destruct (iter_value_shape W1 v T _ Hv Hm) as [fid [r' [-> [Mr Hg]]]].
  pose proof (pull_sound n IHl K sc fid r' (ielem T) n W1 st1 [] (ctx_store _ _ _ _ _ HC1) Hg Mr
                (Forall_nil _)) as C.
  destruct (pull_def (E n) n (VFun fid [] r') st1 sc []) as [[[st2 sc2] o] s2].
  destruct C as [Hsc [W2 [HE2 [HS2 Ho]]]]. subst sc2.
  apply (concl_ext W1 W2); [exact HE2|].
  destruct o as [vs|e| |]; try (destruct Ho as [N Hs]; apply concl_intro; [exact HS2|];
                                apply (sig_ok_nonval W2 K TNever); assumption).
  apply concl_val; [exact HS2|]. apply gv_arr_of. exact Ho.
Qed.

(* ---- it $init f ---- *)
Lemma fun2_value_shape W v Tf A B R :
  gv W v Tf -> matches Tf (TFun [A; B] R) = true ->
  exists gid p1 p2 r', v = VFun gid [p1; p2] r' /\ matches A p1 = true /\ matches B p2 = true /\
                       matches r' R = true /\ vgood W v.
Proof.
  intros Hv M. apply (gv_sub W v Tf (TFun [A; B] R)) in Hv; [|exact M]. destruct Hv as [Hv Hg].
  pose proof (has_type_content _ _ Hv) as Cn. destruct v; try discriminate Cn.
  rewrite content_in_fun, matches_fun in Cn. apply andb_true_iff in Cn. destruct Cn as [Cp Cr].
  pose proof (all2_length _ _ _ Cp) as Hl.
  destruct ps as [|p1 [|p2 [|p3 ps]]]; try discriminate Hl. cbn [all2] in Cp.
  apply andb_true_iff in Cp. destruct Cp as [C1 C2]. rewrite andb_true_r in C2.
  exists id, p1, p2, r. auto 6.
Qed.

Lemma reduce_sound n (IHl : sound_line_at n) K sc fid r' El gid p1 p2 r2 TA :
  matches r' (TTup [TBool; El]) = true -> matches TA p1 = true -> matches El p2 = true ->
  matches r2 TA = true ->
  forall m W st acc,
  store_ok W st -> vgood W (VFun fid [] r') -> vgood W (VFun gid [p1; p2] r2) -> gv W acc TA ->
  concl W K TA sc (reduce_def (E n) (VFun fid [] r') (VFun gid [p1; p2] r2) m st sc acc).
Proof.
  intros Mr M1 M2 Mr2. induction m as [|m IHm]; intros W st acc HS Hg Hf Hacc.
  - cbn [reduce_def]. apply concl_intro; [exact HS|exact I].
  - rewrite reduce_def_S. cbn [call_v_def].
    destruct (iter_call n IHl W st sc fid r' El HS Hg Mr) as [Hsc [W1 [HE [HS1 Hs]]]].
    destruct (call_def (E n) fid [] st sc) as [[st1 sc1] s1]. unfold scs, sto, sig in *.
    cbn [fst snd] in *. subst sc1. apply (concl_ext W W1); [exact HE|].
    destruct s1; try contradiction; try (apply concl_intro; [exact HS1|first [exact Hs|exact I]]).
    destruct Hs as [b [x [-> Hx]]]. rewrite is_false_bool. destruct b; cbn [negb].
    + assert (Hargs : Forall2 (gv W1) [acc; x] [p1; p2]).
      { constructor; [apply (gv_sub W1 acc TA p1); [apply (gv_mono W W1); assumption|exact M1]|].
        constructor; [apply (gv_sub W1 x El p2); assumption|constructor]. }
      pose proof (call_sound powf pre n IHl W1 K0 TA st1 sc gid [p1; p2] r2 [acc; x] HS1
                    (vgood_mono W W1 _ HE Hf) Hargs Mr2) as C.
      destruct (call_def (E n) gid [acc; x] st1 sc) as [[st2 sc2] s2].
      destruct C as [Hsc2 [W2 [HE2 [HS2 Hs2]]]]. unfold scs, sto, sig in *. cbn [fst snd] in *.
      subst sc2. apply (concl_ext W1 W2); [exact HE2|].
      destruct s2; cbn [sig_ok K0 in_loop ret] in Hs2; try discriminate Hs2; try contradiction;
        try (apply concl_intro; [exact HS2|first [exact Hs2|exact I]]).
      * apply IHm; try assumption.
        -- apply (vgood_mono W W2); [apply (ext_trans W W1 W2); assumption|exact Hg].
        -- apply (vgood_mono W W2); [apply (ext_trans W W1 W2); assumption|exact Hf].
      * destruct Hs2 as [Tr [Er _]]. discriminate Er.
    + apply concl_val; [exact HS1|apply (gv_mono W W1); assumption].
Qed.

Lemma case_reduce n (IH : sound_at n) (IHl : sound_line_at n) W0 G K it init f Ti T0 Tf El R W st sc :
  typed W0 G K it Ti -> typed W0 G K init T0 -> typed W0 G K f Tf ->
  wf_ty El = true -> matches Ti (it_of El) = true -> fn_return_type Tf = Some R ->
  matches Tf (TFun [concat (concat T0 El) R; El] R) = true -> ctx_ok W0 W st sc G ->
  concl W K (concat R T0) sc (E (S n) st sc (IReduce it init f)).
Proof.
  intros Hit Hin Hf WEl Mi HR Mf HC. rewrite exec_S_IReduce.
  pose proof (typed_wf _ _ _ _ _ Hin (ctx_wf _ _ _ _ _ HC)) as W0t.
  pose proof (typed_wf _ _ _ _ _ Hf (ctx_wf _ _ _ _ _ HC)) as Wft.
  pose proof (fn_return_type_wf _ _ Wft HR) as WR.
  apply (with_val_sound powf pre n IH W0 G K it Ti); [exact Hit|exact HC|].
  intros W1 st1 itv HE1 HC1 Hitv.
  apply (with_val_sound powf pre n IH W0 G K init T0); [exact Hin|exact HC1|].
  intros W2 st2 initv HE2 HC2 Hinitv.
  apply (with_val_sound powf pre n IH W0 G K f Tf); [exact Hf|exact HC2|].
  intros W3 st3 fv HE3 HC3 Hfv.
  assert (HE13 : ext W1 W3) by (apply (ext_trans W1 W2 W3); assumption).
  apply (gv_mono W1 W3) in Hitv; [|exact HE13]. apply (gv_mono W2 W3) in Hinitv; [|exact HE3].
  destruct (iter_value_shape W3 itv Ti El Hitv Mi) as [fid [r' [-> [Mr Hg]]]].
  destruct (fun2_value_shape W3 fv Tf _ _ _ Hfv Mf) as [gid [p1 [p2 [r2 [-> [M1 [M2 [Mr2 Hgf]]]]]]]].
  (* accumulator type: R | T0, below the first parameter *)
  assert (MA : matches (concat R T0) (concat (concat T0 El) R) = true).
  { rewrite concat_least. apply andb_true_iff. split.
    - apply concat_upper_r. exact WR.
    - apply (matches_trans _ (concat T0 El)); [apply concat_upper_l; exact W0t|].
      apply concat_upper_l. apply concat_wf; assumption. }
  apply (reduce_sound n IHl K sc fid r' El gid p1 p2 r2 (concat R T0)); try assumption.
  - apply (matches_trans _ _ _ MA M1).
  - apply (matches_trans _ _ _ Mr2). apply concat_upper_l. exact WR.
  - apply (ctx_store _ _ _ _ _ HC3).
  - apply (gv_sub W3 initv T0); [exact Hinitv|]. apply concat_upper_r. exact W0t.
Qed.

(* ---- it ? T : a new closure running the template of type_filter.rs ---- *)
Lemma type_filter_body_typed W fid r' d t :
  vgood W (VFun fid [] r') -> matches r' (TTup [TBool; TAny]) = true ->
  wf_ty t = true -> gv W d t ->
  exists G'' Ts, typed_list W (closure_env None [] (TTup [TBool; t]))
                   (mkK false (Some (TTup [TBool; t]))) (type_filter_body (VFun fid [] r') d t) G'' Ts /\
                 (matches TVoid (TTup [TBool; t]) = true \/ In TNever Ts).
Proof.
  intros Hg Mr Wt [Hdt Hgd]. destruct Hg as [Wf Hsig].
  assert (Wr : wf_ty r' = true) by (cbn [wf_ty forallb] in Wf; exact Wf).
  assert (Mdt : matches (TTup [TBool; as_type d]) (TTup [TBool; t]) = true).
  { rewrite matches_tup. cbn [all2]. rewrite (has_type_tag _ _ Hdt). reflexivity. }
  (* the two component types the template reads off the iterator's result type *)
  assert (Sh : exists t0 t1,
            (flatten_tuple r' = Some [t0; t1] \/ (r' = TNever /\ t0 = TNever /\ t1 = TNever)) /\
            matches t0 TBool = true).
  { destruct (flatten_mono r' (TTup [TBool; TAny]) [TBool; TAny] Wr eq_refl Mr eq_refl)
      as [->|[ts' [Hf Ms]]].
    - exists TNever, TNever. split; [right; auto|reflexivity].
    - pose proof (all2_length _ _ _ Ms) as Hl. destruct ts' as [|t0 [|t1 [|t2 ts']]]; try discriminate Hl.
      cbn [all2] in Ms. apply andb_true_iff in Ms. destruct Ms as [M0 _].
      exists t0, t1. split; [left; exact Hf|exact M0]. }
  destruct Sh as [t0 [t1 [Hsh M0]]].
  assert (Ets : match flatten_tuple r' with Some ts => ts | None => [] end = [t0; t1] \/
                (r' = TNever /\ t0 = TNever /\ t1 = TNever)).
  { destruct Hsh as [Hf|H]; [left; rewrite Hf; reflexivity|right; exact H]. }
  set (Kf := mkK false (Some (TTup [TBool; t]))).
  set (Kl := mkK true (ret Kf)).
  set (itv := VFun fid [] r').
  set (G1 := [(n_res, r')]).
  set (G2 := [(n_value, t1); (n_con, t0); (n_res, r')]).
  assert (Hitv : typed W G1 Kl (IVar itv) (TFun [] r') /\ typed W [] Kl (IVar itv) (TFun [] r')).
  { split; apply (T_Var W _ Kl itv); split; assumption. }
  assert (Hcall : typed W [] Kl (IBin FunctionCall (IVar itv) (IVar (VTup []))) r').
  { apply (T_Call W [] Kl (IVar itv) (IVar (VTup [])) (TFun [] r') [] r'); [apply Hitv|reflexivity| |].
    - apply (T_Var W [] Kl (VTup [])). exact I.
    - left. split; reflexivity. }
  assert (Hret_end : forall G K', ret K' = Some (TTup [TBool; t]) ->
            typed W G K' (IUn UReturn (ITuple [IVar (VBool false); IVar d])) TNever).
  { intros G K' HK. apply (T_Return W G K' _ (TTup [TBool; as_type d]) (TTup [TBool; t])); [|exact HK|exact Mdt].
    apply T_Tuple. constructor; [apply (T_Var W G K' (VBool false)); exact I|].
    constructor; [apply T_Var; exact Hgd|constructor]. }
  (* the component types as the template computes them *)
  assert (Econ : nth 0 (match flatten_tuple r' with Some ts => ts | None => [] end) TNever = t0 /\
                 nth 1 (match flatten_tuple r' with Some ts => ts | None => [] end) TNever = t1).
  { destruct Ets as [->|[-> [-> ->]]]; split; reflexivity. }
  destruct Econ as [Econ Eval].
  exists [], [TVoid; TNever]. split; [|right; right; left; reflexivity].
  unfold type_filter_body, itv. cbn [as_type fn_return_type]. fold itv. rewrite Econ, Eval.
  cbn [closure_env fold_left].
  eapply TL_cons; [apply Ln_stm|eapply TL_cons; [apply Ln_stm|apply TL_nil]].
  - (* the loop *)
    apply (T_Loop W [] Kf _ (last [r'; r'; concat TNever TVoid; concat TNever TVoid] TVoid)).
    apply (T_Block W [] Kl _ G2).
    eapply TL_cons; [apply Ln_set; exact Hcall|].
    eapply TL_cons.
    { apply (Ln_destruct W G1 Kl [n_con; n_value] _ r' [t0; t1]).
      - apply (T_Local W G1 Kl n_res (LOther r')); reflexivity.
      - destruct Hsh as [Hf|[-> [-> ->]]]; [left; split; [exact Hf|reflexivity]|right; split; reflexivity]. }
    cbn [bind_tys]. fold G1. fold G2.
    eapply TL_cons.
    { apply Ln_stm. apply (T_If W G2 Kl _ _ _ t0 TNever TVoid).
      - apply (T_Not W G2 Kl _ t0); [apply (T_Local W G2 Kl n_con (LOther t0)); reflexivity|].
        apply (matches_trans _ TBool); [exact M0|reflexivity].
      - exact M0.
      - apply Hret_end. reflexivity.
      - apply (T_Var W G2 Kl VVoid). exact I. }
    eapply TL_cons; [|apply TL_nil].
    apply Ln_stm. apply (T_SetIf W G2 Kl n_value t _ _ _ t1 TNever TVoid Wt).
    + apply (T_Local W G2 Kl n_value (LOther t1)); reflexivity.
    + apply (T_Return W _ Kl _ (TTup [TBool; t]) (TTup [TBool; t])); [|reflexivity|].
      * apply T_Tuple. constructor; [apply (T_Var W _ Kl (VBool true)); exact I|].
        constructor; [apply (T_Local W _ Kl n_value (LOther t)); reflexivity|constructor].
      * apply matches_refl. cbn [wf_ty forallb]. rewrite Wt. reflexivity.
    + apply (T_Var W G2 Kl VVoid). exact I.
  - (* the final return *)
    apply (T_Return W [] Kf _ (TTup [TBool; as_type d]) (TTup [TBool; t])); [|reflexivity|exact Mdt].
    apply (T_Var W [] Kf (VTup [VBool false; d])). rewrite vgood_tup.
    constructor; [exact I|constructor; [exact Hgd|constructor]].
Qed.

Lemma case_type_filter n (IH : sound_at n) W0 G K x t T d W st sc :
  typed W0 G K x T -> wf_ty t = true -> is_iterator T = true ->
  of_type t = Some d -> ctx_ok W0 W st sc G ->
  concl W K (it_of t) sc (E (S n) st sc (ITypeFilter x t)).
Proof.
  intros Hx Wt Hit Hd HC. rewrite exec_S_ITypeFilter.
  apply (with_val_sound powf pre n IH W0 G K x T); [exact Hx|exact HC|].
  intros W1 st1 v HE1 HC1 Hv.
  pose proof (alloc_default_defined t st1 ltac:(rewrite Hd; discriminate)) as Hdef.
  destruct (alloc_default t st1) as [[d1 st1']|] eqn:Ha; [|exfalso; apply Hdef; reflexivity].
  destruct (alloc_default_sound t W1 st1 d1 st1' Wt (ctx_store _ _ _ _ _ HC1) Ha)
    as [W1' [HE1' [HS1' Hd1]]].
  apply (concl_ext W1 W1'); [exact HE1'|].
  apply (gv_mono W1 W1') in Hv; [|exact HE1'].
  unfold is_iterator, ITERATOR_TYPE in Hit. change (TFun [] (TTup [TBool; TAny])) with (it_of TAny) in Hit.
  destruct (iter_value_shape W1' v T TAny Hv Hit) as [fid [r' [-> [Mr Hg]]]].
  destruct (type_filter_body_typed W1' fid r' d1 t Hg Mr Wt Hd1) as [G'' [Ts [Hb Hend]]].
  assert (Wf : wf_ty (TFun (map snd (@nil (name * ty))) (TTup [TBool; t])) = true)
    by (cbn [map wf_ty forallb]; rewrite Wt; reflexivity).
  destruct (closure_alloc_sound W1' st1' None [] _ (TTup [TBool; t]) G'' Ts HS1' Wf Hb Hend)
    as [HE [HS Hgv]].
  destruct (alloc_fun st1' _) as [st2 id]. cbn [fst snd map] in *.
  apply (concl_ext W1' _ K _ sc _ HE). apply concl_val; assumption.
Qed.

(* ---- it \ p (partition): ([yes], [no]) ---- *)
Lemma below_bool_inhabited t c :
  wf_ty t = true -> matches t TBool = true -> has_type c t = true -> t = TBool.
Proof.
  intros W M Hc. destruct (wf_members t TBool W M eq_refl) as [->|[S|[ms [-> [L H]]]]].
  - rewrite has_type_never in Hc. discriminate Hc.
  - pose proof (matches_simple_kind t TBool S eq_refl M) as Kd.
    destruct t; try discriminate Kd. reflexivity.
  - exfalso. destruct ms as [|a [|b ms]]; try (cbn in L; lia).
    assert (Ea : a = TBool).
    { destruct (H a) as [S [_ Ma]]; [left; reflexivity|].
      pose proof (matches_simple_kind a TBool S eq_refl Ma) as Kd.
      destruct a; try discriminate Kd. reflexivity. }
    assert (Eb : b = TBool).
    { destruct (H b) as [S [_ Mb]]; [right; left; reflexivity|].
      pose proof (matches_simple_kind b TBool S eq_refl Mb) as Kd.
      destruct b; try discriminate Kd. reflexivity. }
    subst. destruct (wf_multi_inv _ W) as [_ [_ [_ P]]].
    cbn [pairwise_neq mem_ty existsb] in P.
    replace (ty_eqb TBool TBool) with true in P by reflexivity. discriminate P.
Qed.

(* a value an iterator of run-time result type r' returned: the element type the interpreter
   reads off r' exists, lies below the static one, and the element inhabits it *)
Lemma run_elem W r' El w :
  wf_ty r' = true -> wf_ty El = true -> matches r' (TTup [TBool; El]) = true -> gv W w r' ->
  exists b x et, w = VTup [VBool b; x] /\ iter_element (TFun [] r') = Some et /\
                 matches et El = true /\ wf_ty et = true /\ gv W x et.
Proof.
  intros Wr WEl Mr [Hw Hg].
  assert (WT : wf_ty (TTup [TBool; El]) = true) by (cbn [wf_ty forallb]; rewrite WEl; reflexivity).
  destruct (flatten_mono r' (TTup [TBool; El]) [TBool; El] Wr WT Mr eq_refl) as [->|[ts' [Hf Ms]]].
  { rewrite has_type_never in Hw. discriminate Hw. }
  pose proof (all2_length _ _ _ Ms) as Hl.
  destruct ts' as [|t0 [|t1 [|t2 ts']]]; try discriminate Hl.
  cbn [all2] in Ms. apply andb_true_iff in Ms. destruct Ms as [M0 M1]. rewrite andb_true_r in M1.
  pose proof (flatten_tuple_wf _ _ Wr Hf) as Wts. cbn [forallb] in Wts.
  apply andb_true_iff in Wts. destruct Wts as [W0t Wts]. apply andb_true_iff in Wts.
  destruct Wts as [W1t _].
  destruct (flatten_sound r' w [t0; t1] Wr Hw Hf) as [vs [-> Hvs]].
  pose proof (all2_length _ _ _ Hvs) as Hl2.
  destruct vs as [|c [|x [|y vs]]]; try discriminate Hl2.
  cbn [all2] in Hvs. apply andb_true_iff in Hvs. destruct Hvs as [Hc Hx]. rewrite andb_true_r in Hx.
  pose proof (below_bool_inhabited t0 c W0t M0 Hc) as ->.
  destruct (in_TBool c Hc) as [b ->].
  exists b, x, t1. split; [reflexivity|]. split.
  { cbn [iter_element]. rewrite Hf. replace (ty_eqb TBool TBool) with true by reflexivity. reflexivity. }
  split; [exact M1|]. split; [exact W1t|]. split; [exact Hx|].
  rewrite vgood_tup in Hg. inversion Hg as [|? ? _ Hg']; subst. inversion Hg'; subst. assumption.
Qed.

Lemma gv_arr W et El xs :
  wf_ty et = true -> matches et El = true -> Forall (fun x => gv W x et) xs ->
  gv W (VArr et xs) (TArr El).
Proof.
  intros We M H. rewrite Forall_forall in H. split.
  - apply has_type_intro.
    + cbn [as_type]. rewrite matches_arr. exact M.
    + rewrite content_in_arr. apply forallb_forall. intros x Hx. apply has_type_content.
      apply (gv_sub W x et El); [apply (H x Hx)|exact M].
  - rewrite vgood_arr. split; [exact We|]. apply Forall_forall. intros x Hx. apply (H x Hx).
Qed.

Lemma fun1_value_shape W v Tf A R :
  gv W v Tf -> matches Tf (TFun [A] R) = true ->
  exists gid p r', v = VFun gid [p] r' /\ matches A p = true /\ vgood W v.
Proof.
  intros Hv M. apply (gv_sub W v Tf (TFun [A] R)) in Hv; [|exact M]. destruct Hv as [Hv Hg].
  pose proof (has_type_content _ _ Hv) as Cn. destruct v; try discriminate Cn.
  rewrite content_in_fun, matches_fun in Cn. apply andb_true_iff in Cn. destruct Cn as [Cp Cr].
  pose proof (all2_length _ _ _ Cp) as Hl.
  destruct ps as [|p1 [|p2 ps]]; try discriminate Hl. cbn [all2] in Cp.
  rewrite andb_true_r in Cp. exists id, p1, r. auto.
Qed.

Lemma part_sound n (IHl : sound_line_at n) K sc fid r' El gid p r2 :
  wf_ty r' = true -> wf_ty El = true -> matches r' (TTup [TBool; El]) = true ->
  matches El p = true ->
  wf_ty r2 = true ->
  forall m W st yes no,
  store_ok W st -> vgood W (VFun fid [] r') -> vgood W (VFun gid [p] r2) ->
  Forall (fun x => gv W x (ielem (TFun [] r'))) yes ->
  Forall (fun x => gv W x (ielem (TFun [] r'))) no ->
  concl W K (TTup [TArr El; TArr El]) sc
    (part_def (E n) (VFun fid [] r') (VFun gid [p] r2) m st sc yes no).
Proof.
  intros Wr WEl Mr Mp Wr2. induction m as [|m IHm]; intros W st yes no HS Hg Hf Hyes Hno.
  - cbn [part_def]. apply concl_intro; [exact HS|exact I].
  - rewrite part_def_S. cbn [call_v_def].
    pose proof (call_sound powf pre n IHl W K0 r' st sc fid [] r' [] HS Hg (Forall2_nil _)
                  (matches_refl r' Wr)) as C.
    destruct (call_def (E n) fid [] st sc) as [[st1 sc1] s1].
    destruct C as [Hsc [W1 [HE [HS1 Hs]]]]. unfold scs, sto, sig in *. cbn [fst snd] in *. subst sc1.
    apply (concl_ext W W1); [exact HE|].
    destruct s1; cbn [sig_ok K0 in_loop ret] in Hs; try discriminate Hs; try contradiction;
      try (apply concl_intro; [exact HS1|first [exact Hs|exact I]]).
    2:{ destruct Hs as [Tr [Er _]]. discriminate Er. }
    destruct (run_elem W1 r' El v Wr WEl Mr Hs) as [b [x [et [-> [Hie [Met [Wet Hx]]]]]]].
    assert (Hyes1 : Forall (fun y => gv W1 y et) yes).
    { eapply Forall_impl; [|exact Hyes]. intros y Hy. unfold ielem in Hy. rewrite Hie in Hy.
      apply (gv_mono W W1); assumption. }
    assert (Hno1 : Forall (fun y => gv W1 y et) no).
    { eapply Forall_impl; [|exact Hno]. intros y Hy. unfold ielem in Hy. rewrite Hie in Hy.
      apply (gv_mono W W1); assumption. }
    rewrite is_false_bool. destruct b; cbn [negb].
    + (* an element: ask the predicate *)
      assert (Hargs : Forall2 (gv W1) [x] [p]).
      { constructor; [|constructor]. apply (gv_sub W1 x et p); [exact Hx|].
        apply (matches_trans _ _ _ Met Mp). }
      pose proof (call_sound powf pre n IHl W1 K0 r2 st1 sc gid [p] r2 [x] HS1
                    (vgood_mono W W1 _ HE Hf) Hargs (matches_refl r2 Wr2)) as C.
      destruct (call_def (E n) gid [x] st1 sc) as [[st2 sc2] s2].
      destruct C as [Hsc2 [W2 [HE2 [HS2 Hs2]]]]. unfold scs, sto, sig in *. cbn [fst snd] in *.
      subst sc2. apply (concl_ext W1 W2); [exact HE2|].
      assert (HE02 : ext W W2) by (apply (ext_trans W W1 W2); assumption).
      assert (Hx2 : gv W2 x (ielem (TFun [] r'))).
      { unfold ielem. rewrite Hie. apply (gv_mono W1 W2); assumption. }
      assert (Hyes2 : Forall (fun y => gv W2 y (ielem (TFun [] r'))) yes).
      { eapply Forall_impl; [|exact Hyes]. intros y Hy. apply (gv_mono W W2); assumption. }
      assert (Hno2 : Forall (fun y => gv W2 y (ielem (TFun [] r'))) no).
      { eapply Forall_impl; [|exact Hno]. intros y Hy. apply (gv_mono W W2); assumption. }
      destruct s2; cbn [sig_ok K0 in_loop ret] in Hs2; try discriminate Hs2; try contradiction;
        try (apply concl_intro; [exact HS2|first [exact Hs2|exact I]]).
      2:{ destruct Hs2 as [Tr [Er _]]. discriminate Er. }
      assert (Go : forall yes' no',
                Forall (fun y => gv W2 y (ielem (TFun [] r'))) yes' ->
                Forall (fun y => gv W2 y (ielem (TFun [] r'))) no' ->
                concl W2 K (TTup [TArr El; TArr El]) sc
                  (part_def (E n) (VFun fid [] r') (VFun gid [p] r2) m st2 sc yes' no')).
      { intros yes' no' Hy' Hn'. apply IHm; try assumption.
        - apply (vgood_mono W W2); assumption.
        - apply (vgood_mono W W2); assumption. }
      destruct v; try (apply Go; [exact Hyes2|constructor; assumption]).
      match goal with |- context [if ?b0 then _ else _] => destruct b0 end;
        apply Go; try assumption; constructor; assumption.
    + (* the end marker *)
      cbn [as_type]. rewrite Hie. apply concl_val; [exact HS1|].
      assert (Hy : gv W1 (VArr et (rev yes)) (TArr El)) by (apply gv_arr; [exact Wet|exact Met|apply Forall_rev; exact Hyes1]).
      assert (Hn : gv W1 (VArr et (rev no)) (TArr El)) by (apply gv_arr; [exact Wet|exact Met|apply Forall_rev; exact Hno1]).
      split.
      * rewrite tuple_typed. cbn [all2]. rewrite (proj1 Hy), (proj1 Hn). reflexivity.
      * rewrite vgood_tup. constructor; [apply Hy|]. constructor; [apply Hn|constructor].
Qed.

Lemma case_partition n (IH : sound_at n) (IHl : sound_line_at n) W0 G K l r Tl Tr e W st sc :
  typed W0 G K l Tl -> typed W0 G K r Tr ->
  iter_element Tl = Some e -> matches Tl (it_of e) = true -> matches Tr (TFun [e] TBool) = true ->
  ctx_ok W0 W st sc G ->
  concl W K (TTup [TArr e; TArr e]) sc (E (S n) st sc (IBin Partition l r)).
Proof.
  intros Hl Hr He Ml Mr HC. rewrite exec_S_IBin by discriminate.
  pose proof (typed_wf _ _ _ _ _ Hl (ctx_wf _ _ _ _ _ HC)) as Wl.
  pose proof (iter_element_wf _ _ Wl He) as We.
  apply (with_val_sound powf pre n IH W0 G K l Tl); [exact Hl|exact HC|].
  intros W1 st1 lv HE1 HC1 Hlv.
  apply (with_val_sound powf pre n IH W0 G K r Tr); [exact Hr|exact HC1|].
  intros W2 st2 rv HE2 HC2 Hrv.
  apply (gv_mono W1 W2) in Hlv; [|exact HE2].
  destruct (iter_value_shape W2 lv Tl e Hlv Ml) as [fid [r' [-> [Mr' Hg]]]].
  destruct (fun1_value_shape W2 rv Tr e TBool Hrv Mr) as [gid [p [r2 [-> [Mp Hgf]]]]].
  cbn [bin_dispatch].
  assert (Wr' : wf_ty r' = true).
  { destruct Hg as [Wf _]. cbn [wf_ty forallb] in Wf. exact Wf. }
  assert (Wr2 : wf_ty r2 = true).
  { destruct Hgf as [Wf _]. cbn [wf_ty] in Wf. apply andb_true_iff in Wf. apply Wf. }
  apply (part_sound n IHl K sc fid r' e gid p r2 Wr' We Mr' Mp Wr2); try assumption.
  - apply (ctx_store _ _ _ _ _ HC2).
  - constructor.
  - constructor.
Qed.

End Sound.
End WithFlag.

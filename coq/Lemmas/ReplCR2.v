(* ReplCR2.v — two checker runs, one pass: the induction over the checker.

   Run A: [check_x red n scA eA], run B: [check_x red n scB eB], on the SAME source; the pass
   in creating scopes sc and environment e2.  [cons3 eA eB e2]: for every name, what run A and
   run B resolve it to (a constant or a local-variable node) has the same static type, and the
   pass resolves both to the same thing.  Then ([CR_all]) for every expression, statement and
   line list of the fragment (ReplFrag.v, here without destructuring lines) that BOTH runs
   accept, the two instructions are [req]-related: same static type, same result of the pass.
   The relation is maintained through every binder (`x := e` with the three environments
   extended by what each run knows of x, blocks, function literals, if-set, match arms). *)
From SSL.Model Require Import Base Ty Float Value Ops Seq Syntax Rt Recreate Exec Check.
From SSL.Lemmas Require Import CheckUnfold RecrUnfold RecrMono RecrDefs RecrSim1 RecrSim2 RecrSyn ReplFrag
  CheckWfi ReplCR1.

Arguments matches : simpl never.

Section CR.
Variable powf : fbits -> fbits -> fbits.
Variable red : reducers.
Variable sc scA scB : scopes.
Notation RC g := (recreate powf g sc).
Notation req := (req powf sc).
Notation lreq := (lreq powf sc).

(* what the checker makes of a name *)
Definition leaf_of (n : name) (lv : lvar) : instr :=
  match lv with LVariable v => IVar v | _ => ILocal n lv end.
Definition res1 (scX : scopes) (eX : lenv) (n : name) : option instr :=
  match lenv_get n eX with
  | Some lv => Some (leaf_of n lv)
  | None => option_map IVar (scopes_get n scX)
  end.

Lemma check_ident k scX eX n :
  check_x red (S k) scX eX (XIdent n) = match res1 scX eX n with Some i => Ok i | None => reject end.
Proof.
  rewrite check_x_S. cbn [x_body]. unfold res1.
  destruct (lenv_get n eX) as [[ps r|v|t]|]; try reflexivity. destruct (scopes_get n scX); reflexivity.
Qed.

(* what the pass makes of such a leaf *)
Definition lres (e2 : lenv) (i : instr) : outcome instr :=
  match i with
  | IVar v => Ok (IVar v)
  | ILocal n _ => resolve_name sc e2 n
  | _ => Panic
  end.
Definition is_leaf (i : instr) : Prop := match i with IVar _ | ILocal _ _ => True | _ => False end.

Lemma RC_leaf g e2 i : is_leaf i -> RC (S g) e2 i = obind (lres e2 i) (fun i' => Ok (i', e2)).
Proof. destruct i; intros H; try contradiction; [apply recreate_S_ILocal|apply recreate_S_IVar]. Qed.

Lemma leaf_of_leaf n lv : is_leaf (leaf_of n lv).
Proof. destruct lv; exact I. Qed.
Lemma res1_leaf scX eX n i : res1 scX eX n = Some i -> is_leaf i.
Proof.
  unfold res1. destruct (lenv_get n eX) as [lv|]; [intros H; injection H as <-; apply leaf_of_leaf|].
  destruct (scopes_get n scX); intros H; [injection H as <-; exact I|discriminate H].
Qed.

Lemma resolve_leq e2 e2' n : leq e2' e2 -> resolve_name sc e2' n = resolve_name sc e2 n.
Proof. intros L. unfold resolve_name. rewrite (L n). reflexivity. Qed.
Lemma lres_leq e2 e2' i : leq e2' e2 -> lres e2' i = lres e2 i.
Proof. intros L. destruct i; try reflexivity. apply resolve_leq. exact L. Qed.

Definition cons3 (eA eB e2 : lenv) : Prop :=
  forall n iA iB, res1 scA eA n = Some iA -> res1 scB eB n = Some iB ->
    rt iA = rt iB /\ lres e2 iA = lres e2 iB.

Lemma cons3_req eA eB e2 n iA iB : cons3 eA eB e2 ->
  res1 scA eA n = Some iA -> res1 scB eB n = Some iB -> req e2 iA iB.
Proof.
  intros C HA HB. destruct (C n iA iB HA HB) as [Hrt Hl]. split; [exact Hrt|].
  intros [|g]; [reflexivity|].
  rewrite !RC_leaf by (eapply res1_leaf; eassumption). rewrite Hl. reflexivity.
Qed.

Lemma res1_leq scX e e' n : leq e' e -> res1 scX e' n = res1 scX e n.
Proof. intros L. unfold res1. rewrite (L n). reflexivity. Qed.

Lemma cons3_leq eA eB e2 eA' eB' e2' :
  leq eA' eA -> leq eB' eB -> leq e2' e2 -> cons3 eA eB e2 -> cons3 eA' eB' e2'.
Proof.
  intros LA LB L2 C n iA iB HA HB. rewrite (res1_leq _ _ _ _ LA) in HA. rewrite (res1_leq _ _ _ _ LB) in HB.
  destruct (C n iA iB HA HB) as [Hrt Hl]. split; [exact Hrt|]. rewrite !(lres_leq e2 e2' _ L2). exact Hl.
Qed.

Lemma leq_push e : leq (lenv_push e) e.
Proof. intros n. reflexivity. Qed.
Lemma leq_sym e1 e2 : leq e1 e2 -> leq e2 e1.
Proof. intros H n. symmetry. apply H. Qed.
Lemma leq_insert n lv e1 e2 : leq e1 e2 -> leq (lenv_insert n lv e1) (lenv_insert n lv e2).
Proof.
  intros H m. destruct (ident_eq_dec m n) as [->|Hne].
  - rewrite !lget_insert_same. reflexivity.
  - rewrite !lget_insert_other by exact Hne. apply H.
Qed.

Lemma cons3_push eA eB e2 : cons3 eA eB e2 -> cons3 (lenv_push eA) (lenv_push eB) (lenv_push e2).
Proof. apply cons3_leq; apply leq_push. Qed.

(* a binder: what run A, run B and the pass know of the new name *)
Definition rel3 (lvA lvB lv2 : lvar) : Prop :=
  lvar_type lvA = lvar_type lvB /\
  (forall v, lvA = LVariable v -> lv2 = LVariable v) /\
  (forall v, lvB = LVariable v -> lv2 = LVariable v).

Lemma rt_leaf_of n lv : rt (leaf_of n lv) = Ok (lvar_type lv).
Proof. destruct lv; reflexivity. Qed.

Lemma lres_insert_same e2 n lvX lv2 : (forall v, lvX = LVariable v -> lv2 = LVariable v) ->
  lres (lenv_insert n lv2 e2) (leaf_of n lvX) = Ok (leaf_of n lv2).
Proof.
  intros H. destruct lvX as [ps r|v|t]; cbn [leaf_of lres].
  - unfold resolve_name. rewrite lget_insert_same. destruct lv2; reflexivity.
  - rewrite (H v eq_refl). reflexivity.
  - unfold resolve_name. rewrite lget_insert_same. destruct lv2; reflexivity.
Qed.

Lemma res1_insert_same scX e n lv : res1 scX (lenv_insert n lv e) n = Some (leaf_of n lv).
Proof. unfold res1. rewrite lget_insert_same. reflexivity. Qed.
Lemma res1_insert_other scX e n m lv : m <> n -> res1 scX (lenv_insert n lv e) m = res1 scX e m.
Proof. intros H. unfold res1. rewrite lget_insert_other by exact H. reflexivity. Qed.

Lemma lres_insert_other e2 n lv2 i m : (forall lv, i = ILocal m lv -> m <> n) ->
  (match i with ILocal k _ => k = m | _ => True end) ->
  lres (lenv_insert n lv2 e2) i = lres e2 i.
Proof.
  intros H Hk. destruct i; try reflexivity. cbn [lres]. subst n0. unfold resolve_name.
  rewrite lget_insert_other by (apply (H lv eq_refl)). reflexivity.
Qed.

Lemma res1_name scX eX m i : res1 scX eX m = Some i -> match i with ILocal k _ => k = m | _ => True end.
Proof.
  unfold res1. destruct (lenv_get m eX) as [lv|].
  - intros H. injection H as <-. destruct lv; reflexivity.
  - destruct (scopes_get m scX); intros H; [injection H as <-; exact I|discriminate H].
Qed.

Lemma cons3_insert eA eB e2 n lvA lvB lv2 : rel3 lvA lvB lv2 -> cons3 eA eB e2 ->
  cons3 (lenv_insert n lvA eA) (lenv_insert n lvB eB) (lenv_insert n lv2 e2).
Proof.
  intros [Ht [HA HB]] C m iA iB RA RB. destruct (ident_eq_dec m n) as [->|Hne].
  - rewrite res1_insert_same in RA, RB. injection RA as <-. injection RB as <-.
    split; [rewrite !rt_leaf_of, Ht; reflexivity|].
    rewrite (lres_insert_same e2 n lvA lv2 HA), (lres_insert_same e2 n lvB lv2 HB). reflexivity.
  - rewrite res1_insert_other in RA, RB by exact Hne.
    destruct (C m iA iB RA RB) as [Hrt Hl]. split; [exact Hrt|].
    rewrite (lres_insert_other e2 n lv2 iA m), (lres_insert_other e2 n lv2 iB m);
      [exact Hl| | | |]; try (intros lv _; exact Hne);
      [apply (res1_name _ _ _ _ RB)|apply (res1_name _ _ _ _ RA)].
Qed.

Lemma cons3_bind eA eB e2 n t : cons3 eA eB e2 ->
  cons3 (lenv_insert n (LOther t) (lenv_push eA)) (lenv_insert n (LOther t) (lenv_push eB))
        (lenv_insert n (LOther t) (lenv_push e2)).
Proof.
  intros C. apply cons3_insert; [|apply cons3_push; exact C].
  split; [reflexivity|]. split; intros v E; discriminate E.
Qed.

Lemma cons3_push_fn eA eB e2 vars fA fB f2 rA rB r2 : cons3 eA eB e2 ->
  cons3 (lenv_push_fn vars fA rA eA) (lenv_push_fn vars fB rB eB) (lenv_push_fn vars f2 r2 e2).
Proof.
  intros C m iA iB RA RB. unfold res1 in RA, RB. rewrite lenv_get_push_fn in RA, RB.
  destruct (assoc m vars) as [lv|] eqn:Ev.
  - injection RA as <-. injection RB as <-. split; reflexivity.
  - assert (RA' : res1 scA eA m = Some iA) by exact RA.
    assert (RB' : res1 scB eB m = Some iB) by exact RB.
    destruct (C m iA iB RA' RB') as [Hrt Hl]. split; [exact Hrt|].
    assert (G : forall i, match i with ILocal k _ => k = m | _ => True end ->
                          lres (lenv_push_fn vars f2 r2 e2) i = lres e2 i).
    { intros i Hk. destruct i; try reflexivity. cbn [lres]. subst n. unfold resolve_name.
      rewrite lenv_get_push_fn, Ev. reflexivity. }
    rewrite (G iA (res1_name _ _ _ _ RA')), (G iB (res1_name _ _ _ _ RB')). exact Hl.
Qed.

(* ---- facts about single checker runs (CheckWfi) ---- *)
Lemma cx_wfi n scX eX x i : rfx x = true -> check_x red n scX eX x = Ok i -> wfi true false i = true.
Proof. intros F H. apply (proj1 (check_wfi_all red n) _ _ _ _ F H). Qed.
Lemma cx_nc1 n scX eX x i : rfx x = true -> check_x red n scX eX x = Ok i -> nc1 i.
Proof. intros F H. apply (proj1 (check_wfi_all red n) _ _ _ _ F H). Qed.
Lemma cs_wfi n scX eX s i e' : rfs s = true -> check_s red n scX eX s = Ok (i, e') -> wfi true false i = true.
Proof. intros F H. apply (proj1 (proj2 (check_wfi_all red n)) _ _ _ _ _ F H). Qed.
Lemma cs_nc1 n scX eX s i e' : rfs s = true -> check_s red n scX eX s = Ok (i, e') -> nc1 i.
Proof. intros F H. apply (proj1 (proj2 (check_wfi_all red n)) _ _ _ _ _ F H). Qed.
Lemma cs_leq n scX eX s i e' : rfs s = true -> check_s red n scX eX s = Ok (i, e') -> leq e' eX.
Proof. intros F H. apply (proj1 (proj2 (check_wfi_all red n)) _ _ _ _ _ F H). Qed.
Lemma cl_wfi n scX eX l is e' : forallb rfl l = true -> check_lines red n scX eX l = Ok (is, e') ->
  forallb (wfi true true) is = true.
Proof. intros F H. apply (proj2 (proj2 (check_wfi_all red n)) _ _ _ _ _ F H). Qed.


(* the part of [cons3] that does not mention the pass: same static types *)
Definition consT (eA eB : lenv) : Prop :=
  forall n iA iB, res1 scA eA n = Some iA -> res1 scB eB n = Some iB -> rt iA = rt iB.

Lemma cons3_T eA eB e2 : cons3 eA eB e2 -> consT eA eB.
Proof. intros C n iA iB HA HB. apply (C n iA iB HA HB). Qed.

Lemma consT_leq eA eB eA' eB' : leq eA' eA -> leq eB' eB -> consT eA eB -> consT eA' eB'.
Proof.
  intros LA LB C n iA iB HA HB. rewrite (res1_leq _ _ _ _ LA) in HA. rewrite (res1_leq _ _ _ _ LB) in HB.
  apply (C n iA iB HA HB).
Qed.

Lemma consT_push eA eB : consT eA eB -> consT (lenv_push eA) (lenv_push eB).
Proof. apply consT_leq; apply leq_push. Qed.

Lemma consT_insert eA eB n lvA lvB : lvar_type lvA = lvar_type lvB -> consT eA eB ->
  consT (lenv_insert n lvA eA) (lenv_insert n lvB eB).
Proof.
  intros Ht C m iA iB RA RB. destruct (ident_eq_dec m n) as [->|Hne].
  - rewrite res1_insert_same in RA, RB. injection RA as <-. injection RB as <-.
    rewrite !rt_leaf_of, Ht. reflexivity.
  - rewrite res1_insert_other in RA, RB by exact Hne. apply (C m iA iB RA RB).
Qed.

Lemma consT_bind eA eB n t : consT eA eB ->
  consT (lenv_insert n (LOther t) (lenv_push eA)) (lenv_insert n (LOther t) (lenv_push eB)).
Proof. intros C. apply consT_insert; [reflexivity|apply consT_push; exact C]. Qed.

Lemma consT_push_fn eA eB vars fA fB rA rB : consT eA eB ->
  consT (lenv_push_fn vars fA rA eA) (lenv_push_fn vars fB rB eB).
Proof.
  intros C m iA iB RA RB. unfold res1 in RA, RB. rewrite lenv_get_push_fn in RA, RB.
  destruct (assoc m vars) as [lv|] eqn:Ev.
  - injection RA as <-. injection RB as <-. reflexivity.
  - apply (C m iA iB RA RB).
Qed.

End CR.

(* PrattTables.v — finite facts about SimpleSL's operator tables, by computation over the
   regenerated data (Gen/GenPratt.v, GenDocPrec.v, GenOpMap.v): the table in the code is the
   documented one; associativity per level; operator maps total/injective; longest-token-first
   order of the grammar's choices. *)
From SSL.Model Require Import Base Pratt.
From SSL.Lemmas Require Import PrattLemmas.
From Coq Require Import NArith Lia.

(* ================================================================================== *)
(* Part 2: SimpleSL's tables (finite facts, by computation over the regenerated data)  *)
(* ================================================================================== *)
From SSL.Gen Require GenPratt GenDocPrec GenOpMap.
Import GenOpMap.

(* ---- tables built by .op() have positive precedences, whatever the chain ---- *)
Lemma tlookup_in : forall (tbl : table) o e, tlookup tbl o = Some e -> In (o, e) tbl.
Proof.
  induction tbl as [|[o' e'] tbl IH]; cbn; intros o e H; [discriminate|].
  destruct (N.eqb o o') eqn:Eo.
  - apply N.eqb_eq in Eo. injection H as ->. subst. left. reflexivity.
  - right. apply IH. exact H.
Qed.

Definition entries_ge (k : nat) (tb : table) : Prop := Forall (fun e => k <= snd (snd e)) tb.

Lemma add_ops_ge : forall k prec lv tb, k <= prec -> entries_ge k tb ->
  entries_ge k (fold_left (fun tb (oa : N * affix) => (fst oa, (snd oa, prec)) :: tb) lv tb).
Proof.
  intros k prec. induction lv as [|oa lv IH]; cbn; intros tb Hk H; [exact H|].
  apply IH; [exact Hk|]. constructor; [cbn; exact Hk|exact H].
Qed.

Lemma fold_levels_ge : forall lvls c tb, entries_ge (2 * PREC_STEP) tb -> PREC_STEP <= c ->
  entries_ge (2 * PREC_STEP) (snd (fold_left add_level lvls (c, tb))).
Proof.
  induction lvls as [|lv lvls IH]; intros c tb H Hc; cbn [fold_left]; [exact H|].
  unfold add_level at 2. cbn [fst snd]. apply IH.
  - apply add_ops_ge; [unfold PREC_STEP in *; lia|exact H].
  - unfold PREC_STEP in *. lia.
Qed.

Lemma table_of_levels_ge : forall lvls o af p,
  tlookup (table_of_levels lvls) o = Some (af, p) -> 2 * PREC_STEP <= p.
Proof.
  intros lvls o af p H. apply tlookup_in in H.
  assert (G : entries_ge (2 * PREC_STEP) (table_of_levels lvls)).
  { unfold table_of_levels. apply fold_levels_ge; [constructor|lia]. }
  unfold entries_ge in G. rewrite Forall_forall in G. apply G in H. exact H.
Qed.

Lemma table_of_levels_pos : forall lvls, table_pos (table_of_levels lvls).
Proof.
  intros lvls o af p H. apply table_of_levels_ge in H. unfold PREC_STEP in H. lia.
Qed.

(* ---- the table in the code ---- *)
Definition the_table : table := table_of_levels GenPratt.pratt_levels.
Definition the_info := tlookup the_table.

Lemma the_table_pos : table_pos the_table.
Proof. apply table_of_levels_pos. Qed.

Lemma prec_step_is_model : GenPratt.prec_step = PREC_STEP.
Proof. reflexivity. Qed.

Lemma op_names_shared :
  GenPratt.op_names = GenOpMap.op_names /\ GenDocPrec.op_names = GenOpMap.op_names.
Proof. split; reflexivity. Qed.

(* ---- the grammar's operator rules are exactly the table's, with the right affix ---- *)
Definition ops_left : list N := prefix_alts ++ bin_alts.     (* stand left of an operand *)
Definition ops_right : list N := bin_alts ++ postfix_alts.   (* stand right of an operand *)
Definition all_ops : list N := bin_alts ++ prefix_alts ++ postfix_alts.

Definition memN (o : N) (l : list N) : bool := existsb (N.eqb o) l.

Lemma memN_In : forall o l, memN o l = true <-> In o l.
Proof.
  intros o l. unfold memN. rewrite existsb_exists. split.
  - intros (x & Hx & E). apply N.eqb_eq in E. subst. exact Hx.
  - intros H. exists o. split; [exact H|apply N.eqb_refl].
Qed.

Definition covers_b : bool :=
  forallb (fun o => is_infix the_info o) bin_alts &&
  forallb (fun o => is_prefix the_info o) prefix_alts &&
  forallb (fun o => is_postfix the_info o) postfix_alts &&
  forallb (fun e => memN (fst e) all_ops) the_table &&
  (length the_table =? length all_ops)%nat.

Lemma covers_b_true : ltac:(let t := eval unfold covers_b in (covers_b = true) in exact t).
Proof. vm_compute. reflexivity. Qed.

Lemma pratt_covers_grammar :
  (forall o, In o bin_alts -> is_infix the_info o = true) /\
  (forall o, In o prefix_alts -> is_prefix the_info o = true) /\
  (forall o, In o postfix_alts -> is_postfix the_info o = true) /\
  (forall o e, In (o, e) the_table -> In o all_ops) /\
  length the_table = length all_ops.
Proof.
  pose proof covers_b_true as H.
  do 4 (apply andb_prop in H; destruct H as [H ?]).
  repeat split.
  - apply forallb_forall. assumption.
  - apply forallb_forall. assumption.
  - apply forallb_forall. assumption.
  - intros o e Hin. rewrite forallb_forall in H1. apply H1 in Hin. apply memN_In in Hin. exact Hin.
Qed.

(* ---- the documented table ---- *)
Import GenDocPrec.

(* READING: a blank Associativity cell takes the value of the nearest level above that has
   one (the first level has a value) *)
Fixpoint fill_assoc (prev : dassoc) (l : list (N * option dassoc * list (list Z * N)))
  : list (N * dassoc * list N) :=
  match l with
  | [] => []
  | (n, a, rows) :: l' =>
    let a' := match a with Some x => x | None => prev end in
    (n, a', map snd rows) :: fill_assoc a' l'
  end.

(* operators the markdown table omits, at the levels the property text gives them:
   `$]` with the postfix reducers (level 3); slicing, tuple access and field access with
   indexing (level 1) *)
Definition doc_extra : list (N * N) :=
  [(3, r_collect); (1, r_slicing); (1, r_tuple_access); (1, r_field_access)]%N.

Definition doc_levels_completed : list (N * dassoc * list N) :=
  map (fun e => match e with
                | (n, a, ops) => (n, a, ops ++ map snd (filter (fun x => N.eqb (fst x) n) doc_extra))
                end)
      (fill_assoc LeftToRight doc_levels).

Fixpoint doc_level_of (l : list (N * dassoc * list N)) (o : N) : option (N * dassoc) :=
  match l with
  | [] => None
  | (n, a, ops) :: l' => if memN o ops then Some (n, a) else doc_level_of l' o
  end.

(* the documented answer to "which of two adjacent operators groups first": the one on the
   tighter (smaller-numbered) level; on one level, the left one iff the level is left-to-right *)
Definition doc_left_first (o1 o2 : N) : option bool :=
  match doc_level_of doc_levels_completed o1, doc_level_of doc_levels_completed o2 with
  | Some (l1, a1), Some (l2, _) =>
    if (l1 <? l2)%N then Some true
    else if (l2 <? l1)%N then Some false
    else Some (match a1 with LeftToRight => true | RightToLeft => false end)
  | _, _ => None
  end.

Definition opt_bool_eqb (a b : option bool) : bool :=
  match a, b with
  | Some x, Some y => Bool.eqb x y
  | None, None => true
  | _, _ => false
  end.

Lemma opt_bool_eqb_eq : forall a b, opt_bool_eqb a b = true -> a = b.
Proof. intros [[|]|] [[|]|]; cbn; intros H; try discriminate; reflexivity. Qed.

Definition table_is_doc_b : bool :=
  forallb (fun o1 => forallb (fun o2 =>
     opt_bool_eqb (doc_left_first o1 o2) (Some (left_first the_info o1 o2))) ops_right) ops_left.

Lemma table_is_doc_b_true : ltac:(let t := eval unfold table_is_doc_b in (table_is_doc_b = true) in exact t).
Proof. vm_compute. reflexivity. Qed.

Lemma table_is_doc : forall o1 o2, In o1 ops_left -> In o2 ops_right ->
  doc_left_first o1 o2 = Some (left_first the_info o1 o2).
Proof.
  intros o1 o2 H1 H2. pose proof table_is_doc_b_true as H.
  rewrite forallb_forall in H. specialize (H o1 H1). rewrite forallb_forall in H.
  apply opt_bool_eqb_eq. apply H. exact H2.
Qed.

(* every documented level is met by the domain, and the documented operators are the grammar's *)
Definition doc_ops : list N := concat (map (fun e => snd e) doc_levels_completed).

Fixpoint listN_eqb (a b : list N) : bool :=
  match a, b with
  | [], [] => true
  | x :: a, y :: b => N.eqb x y && listN_eqb a b
  | _, _ => false
  end.

Definition doc_domain_b : bool :=
  forallb (fun o => memN o doc_ops) all_ops && forallb (fun o => memN o all_ops) doc_ops &&
  (length doc_ops =? length all_ops)%nat &&
  listN_eqb (map (fun e => fst (fst e)) doc_levels) [1;2;3;4;5;6;7;8;9;10;11;12;13;14]%N.

Lemma doc_domain_b_true : ltac:(let t := eval unfold doc_domain_b in (doc_domain_b = true) in exact t).
Proof. vm_compute. reflexivity. Qed.

(* each operator of the grammar is documented exactly once (after completion), and nothing else is *)
Lemma doc_domain :
  (forall o, In o all_ops -> In o doc_ops) /\ (forall o, In o doc_ops -> In o all_ops) /\
  length doc_ops = length all_ops.
Proof.
  pose proof doc_domain_b_true as H.
  do 3 (apply andb_prop in H; destruct H as [H ?]).
  repeat split.
  - intros o Ho. rewrite forallb_forall in H. apply memN_In. apply H. exact Ho.
  - intros o Ho. rewrite forallb_forall in H2. apply memN_In. apply H2. exact Ho.
Qed.

(* the written Associativity cells: levels 1, 3 left-to-right, 2 and 14 right-to-left, the rest blank *)
Lemma doc_assoc_cells :
  map (fun e => (fst (fst e), snd (fst e))) doc_levels =
  [(1, Some LeftToRight); (2, Some RightToLeft); (3, Some LeftToRight); (4, None); (5, None);
   (6, None); (7, None); (8, None); (9, None); (10, None); (11, None); (12, None); (13, None);
   (14, Some RightToLeft)]%N.
Proof. reflexivity. Qed.

(* ---- what the documented relation means for the parser: two adjacent operators ---- *)
Definition doc_lf (o1 o2 : N) : bool :=
  match doc_left_first o1 o2 with Some b => b | None => false end.

Lemma doc_lf_is_left_first : forall o1 o2, In o1 ops_left -> In o2 ops_right ->
  doc_lf o1 o2 = left_first the_info o1 o2.
Proof. intros o1 o2 H1 H2. unfold doc_lf. rewrite (table_is_doc o1 o2 H1 H2). reflexivity. Qed.

Lemma in_left_bin : forall o, In o bin_alts -> In o ops_left.
Proof. intros o H. unfold ops_left. apply in_or_app. right. exact H. Qed.
Lemma in_left_pre : forall o, In o prefix_alts -> In o ops_left.
Proof. intros o H. unfold ops_left. apply in_or_app. left. exact H. Qed.
Lemma in_right_bin : forall o, In o bin_alts -> In o ops_right.
Proof. intros o H. unfold ops_right. apply in_or_app. left. exact H. Qed.
Lemma in_right_post : forall o, In o postfix_alts -> In o ops_right.
Proof. intros o H. unfold ops_right. apply in_or_app. right. exact H. Qed.

Lemma doc_grouping_infix_infix : forall o1 o2 a b c, In o1 bin_alts -> In o2 bin_alts ->
  tpratt_parse the_table [TAtom a; TOp o1; TAtom b; TOp o2; TAtom c] =
  Some (if doc_lf o1 o2 then PIn o2 (PIn o1 (PAtom a) (PAtom b)) (PAtom c)
        else PIn o1 (PAtom a) (PIn o2 (PAtom b) (PAtom c))).
Proof.
  intros o1 o2 a b c H1 H2. destruct pratt_covers_grammar as (Hi & _).
  rewrite doc_lf_is_left_first by (auto using in_left_bin, in_right_bin).
  apply (left_first_infix_infix N N the_info the_table_pos); auto.
Qed.

Lemma doc_grouping_prefix_infix : forall o1 o2 a b, In o1 prefix_alts -> In o2 bin_alts ->
  tpratt_parse the_table [TOp o1; TAtom a; TOp o2; TAtom b] =
  Some (if doc_lf o1 o2 then PIn o2 (PPre o1 (PAtom a)) (PAtom b)
        else PPre o1 (PIn o2 (PAtom a) (PAtom b))).
Proof.
  intros o1 o2 a b H1 H2. destruct pratt_covers_grammar as (Hi & Hp & _).
  rewrite doc_lf_is_left_first by (auto using in_left_pre, in_right_bin).
  apply (left_first_prefix_infix N N the_info the_table_pos); auto.
Qed.

Lemma doc_grouping_infix_postfix : forall o1 o2 a b, In o1 bin_alts -> In o2 postfix_alts ->
  tpratt_parse the_table [TAtom a; TOp o1; TAtom b; TOp o2] =
  Some (if doc_lf o1 o2 then PPost o2 (PIn o1 (PAtom a) (PAtom b))
        else PIn o1 (PAtom a) (PPost o2 (PAtom b))).
Proof.
  intros o1 o2 a b H1 H2. destruct pratt_covers_grammar as (Hi & _ & Hq & _).
  rewrite doc_lf_is_left_first by (auto using in_left_bin, in_right_post).
  apply (left_first_infix_postfix N N the_info the_table_pos); auto.
Qed.

Lemma doc_grouping_prefix_postfix : forall o1 o2 a, In o1 prefix_alts -> In o2 postfix_alts ->
  tpratt_parse the_table [TOp o1; TAtom a; TOp o2] =
  Some (if doc_lf o1 o2 then PPost o2 (PPre o1 (PAtom a)) else PPre o1 (PPost o2 (PAtom a))).
Proof.
  intros o1 o2 a H1 H2. destruct pratt_covers_grammar as (_ & Hp & Hq & _).
  rewrite doc_lf_is_left_first by (auto using in_left_pre, in_right_post).
  apply (left_first_prefix_postfix N N the_info the_table_pos); auto.
Qed.

(* ---- associativity and the order of the levels in the code ---- *)
Definition iter_level_ops : list N :=
  [r_map; r_filter; r_partition; r_reduce; r_sum; r_product; r_all; r_reduce_any;
   r_bitand_reduce; r_bitor_reduce; r_collect; r_iter].
Definition tight_postfix_ops : list N :=
  [r_at; r_slicing; r_type_filter; r_function_call; r_tuple_access; r_field_access].

Definition affix_eqb (a b : affix) : bool :=
  match a, b with
  | Prefix, Prefix | Postfix, Postfix | InfixL, InfixL | InfixR, InfixR => true
  | _, _ => false
  end.

Lemma affix_eqb_eq : forall a b, affix_eqb a b = true -> a = b.
Proof. intros [] []; cbn; intros H; try discriminate; reflexivity. Qed.

Definition opt_affix_eqb (a : option affix) (b : affix) : bool :=
  match a with Some x => affix_eqb x b | None => false end.

Definition levels_assoc_b : bool :=
  (* binary operators: right-associative exactly for the alternatives of `assigns` *)
  forallb (fun o => opt_affix_eqb (affix_of the_info o)
                      (if memN o assigns_alts then InfixR else InfixL)) bin_alts &&
  forallb (fun o => memN o bin_alts) assigns_alts &&
  (* assignments form the loosest level *)
  forallb (fun o => forallb (fun o' =>
     if memN o' assigns_alts then prec_of the_info o' =? prec_of the_info o
     else prec_of the_info o <? prec_of the_info o') all_ops) assigns_alts &&
  (* prefix operators bind tighter than every operator of the iterator level ... *)
  forallb (fun p => forallb (fun q => prec_of the_info q <? prec_of the_info p) iter_level_ops) prefix_alts &&
  (* ... which binds tighter than every other binary operator *)
  forallb (fun q => forallb (fun o => memN o iter_level_ops || (prec_of the_info o <? prec_of the_info q))
                      bin_alts) iter_level_ops &&
  (* indexing, slicing, `? type`, call, tuple and field access bind tightest *)
  forallb (fun q => forallb (fun o =>
     if memN o tight_postfix_ops then prec_of the_info o =? prec_of the_info q
     else prec_of the_info o <? prec_of the_info q) all_ops) tight_postfix_ops &&
  forallb (fun q => memN q postfix_alts) tight_postfix_ops.

Lemma levels_assoc_b_true : ltac:(let t := eval unfold levels_assoc_b in (levels_assoc_b = true) in exact t).
Proof. vm_compute. reflexivity. Qed.

Lemma levels_left_assoc_except_assign :
  (forall o, In o bin_alts ->
     affix_of the_info o = Some (if memN o assigns_alts then InfixR else InfixL)) /\
  (forall o o', In o assigns_alts -> In o' all_ops -> ~ In o' assigns_alts ->
     prec_of the_info o < prec_of the_info o') /\
  (forall p q, In p prefix_alts -> In q iter_level_ops -> prec_of the_info q < prec_of the_info p) /\
  (forall q o, In q iter_level_ops -> In o bin_alts -> ~ In o iter_level_ops ->
     prec_of the_info o < prec_of the_info q) /\
  (forall q o, In q tight_postfix_ops -> In o all_ops -> ~ In o tight_postfix_ops ->
     prec_of the_info o < prec_of the_info q) /\
  (forall q, In q tight_postfix_ops -> In q postfix_alts).
Proof.
  pose proof levels_assoc_b_true as H.
  do 6 (apply andb_prop in H; destruct H as [H ?]).
  repeat split.
  - intros o Ho. rewrite forallb_forall in H. specialize (H o Ho). clear - H.
    unfold opt_affix_eqb in H. destruct (affix_of the_info o); [|discriminate].
    apply affix_eqb_eq in H. congruence.
  - intros o o' Ho Ho' Hn. rewrite forallb_forall in H4. specialize (H4 o Ho).
    rewrite forallb_forall in H4. specialize (H4 o' Ho').
    destruct (memN o' assigns_alts) eqn:E; [apply memN_In in E; contradiction|].
    apply Nat.ltb_lt. exact H4.
  - intros p q Hp Hq. rewrite forallb_forall in H3. specialize (H3 p Hp).
    rewrite forallb_forall in H3. apply Nat.ltb_lt. apply H3. exact Hq.
  - intros q o Hq Ho Hn. rewrite forallb_forall in H2. specialize (H2 q Hq).
    rewrite forallb_forall in H2. specialize (H2 o Ho).
    destruct (memN o iter_level_ops) eqn:E; [apply memN_In in E; contradiction|].
    cbn in H2. apply Nat.ltb_lt. exact H2.
  - intros q o Hq Ho Hn. rewrite forallb_forall in H1. specialize (H1 q Hq).
    rewrite forallb_forall in H1. specialize (H1 o Ho).
    destruct (memN o tight_postfix_ops) eqn:E; [apply memN_In in E; contradiction|].
    apply Nat.ltb_lt. exact H1.
  - intros q Hq. rewrite forallb_forall in H0. apply memN_In. apply H0. exact Hq.
Qed.

(* ---- operator maps ---- *)
Fixpoint str_eqb (a b : list Z) : bool :=
  match a, b with
  | [], [] => true
  | x :: a, y :: b => Z.eqb x y && str_eqb a b
  | _, _ => false
  end.

Lemma str_eqb_eq : forall a b, str_eqb a b = true <-> a = b.
Proof.
  induction a as [|x a IH]; destruct b as [|y b]; cbn; split; intros H; try discriminate; auto.
  - apply andb_prop in H. destruct H as [H1 H2]. apply Z.eqb_eq in H1. apply IH in H2. congruence.
  - injection H as -> ->. rewrite Z.eqb_refl. cbn. apply IH. reflexivity.
Qed.

Fixpoint nodupb {X} (eqb : X -> X -> bool) (l : list X) : bool :=
  match l with
  | [] => true
  | x :: l => negb (existsb (eqb x) l) && nodupb eqb l
  end.

Definition opmap_b : bool :=
  (* total: every alternative of bin_op is an arm of From<Rule> or handled before it *)
  forallb (fun o => memN o (map fst binop_map) || memN o infix_special) bin_alts &&
  (* no arm is dead, none is given twice, and no two rules give the same operator *)
  forallb (fun o => memN o bin_alts && negb (memN o infix_special)) (map fst binop_map) &&
  nodupb N.eqb (map fst binop_map) && nodupb str_eqb (map snd binop_map) &&
  forallb (fun o => memN o bin_alts) infix_special &&
  (* the postfix and prefix dispatches cover exactly their grammar choices *)
  forallb (fun o => memN o (map fst postfix_map)) postfix_alts &&
  forallb (fun o => memN o postfix_alts) (map fst postfix_map) &&
  nodupb N.eqb (map fst postfix_map) && nodupb str_eqb (map snd postfix_map) &&
  forallb (fun o => memN o (map fst prefix_map)) prefix_alts &&
  forallb (fun o => memN o prefix_alts) (map fst prefix_map) &&
  nodupb N.eqb (map fst prefix_map) && nodupb str_eqb (map snd prefix_map).

Lemma opmap_b_true : ltac:(let t := eval unfold opmap_b in (opmap_b = true) in exact t).
Proof. vm_compute. reflexivity. Qed.

Fixpoint assocN {V} (o : N) (l : list (N * V)) : option V :=
  match l with
  | [] => None
  | (k, v) :: l => if N.eqb o k then Some v else assocN o l
  end.

Lemma assocN_mem : forall V (l : list (N * V)) o, memN o (map fst l) = true -> exists v, assocN o l = Some v.
Proof.
  induction l as [|[k v] l IH]; cbn; intros o H; [discriminate|].
  destruct (N.eqb o k); [eauto|]. cbn in H. apply IH. exact H.
Qed.

Lemma assocN_in : forall V (l : list (N * V)) o v, assocN o l = Some v -> In (o, v) l.
Proof.
  induction l as [|[k v'] l IH]; cbn; intros o v H; [discriminate|].
  destruct (N.eqb o k) eqn:E.
  - apply N.eqb_eq in E. injection H as ->. subst. auto.
  - right. apply IH. exact H.
Qed.

Lemma nodupb_snd_inj : forall (l : list (N * list Z)),
  nodupb N.eqb (map fst l) = true -> nodupb str_eqb (map snd l) = true ->
  forall o1 o2 c, In (o1, c) l -> In (o2, c) l -> o1 = o2.
Proof.
  induction l as [|[k v] l IH]; cbn; intros Hk Hv o1 o2 c H1 H2; [contradiction|].
  apply andb_prop in Hk. destruct Hk as [Hk1 Hk2].
  apply andb_prop in Hv. destruct Hv as [Hv1 Hv2].
  assert (Hnot : forall o, In (o, v) l -> False).
  { intros o Ho. apply negb_true_iff in Hv1.
    assert (existsb (str_eqb v) (map snd l) = true); [|congruence].
    apply existsb_exists. exists v. split; [|apply str_eqb_eq; reflexivity].
    change v with (snd (o, v)). apply in_map. exact Ho. }
  destruct H1 as [H1|H1]; destruct H2 as [H2|H2].
  - congruence.
  - injection H1 as <- <-. exfalso. eapply Hnot. exact H2.
  - injection H2 as <- <-. exfalso. eapply Hnot. exact H1.
  - eapply IH; eauto.
Qed.

Lemma opmap_total_injective :
  (* total *)
  (forall o, In o bin_alts -> (exists c, assocN o binop_map = Some c) \/ In o infix_special) /\
  (* injective *)
  (forall o1 o2 c, In (o1, c) binop_map -> In (o2, c) binop_map -> o1 = o2) /\
  (* nothing but bin_op alternatives is mapped, and the special cases are not also mapped *)
  (forall o c, In (o, c) binop_map -> In o bin_alts /\ ~ In o infix_special) /\
  (* postfix / prefix dispatch *)
  (forall o, In o postfix_alts -> exists c, assocN o postfix_map = Some c) /\
  (forall o, In o prefix_alts -> exists c, assocN o prefix_map = Some c) /\
  (forall o1 o2 c, In (o1, c) postfix_map -> In (o2, c) postfix_map -> o1 = o2) /\
  (forall o1 o2 c, In (o1, c) prefix_map -> In (o2, c) prefix_map -> o1 = o2).
Proof.
  pose proof opmap_b_true as H.
  do 12 (apply andb_prop in H; destruct H as [H ?]).
  repeat split.
  - intros o Ho. rewrite forallb_forall in H. specialize (H o Ho).
    apply orb_prop in H. destruct H as [H|H].
    + left. apply assocN_mem. exact H.
    + right. apply memN_In. exact H.
  - apply nodupb_snd_inj; assumption.
  - rewrite forallb_forall in H11. specialize (H11 o).
    assert (Hin : In o (map fst binop_map)) by (change o with (fst (o, c)); apply in_map; assumption).
    apply H11 in Hin. apply andb_prop in Hin. destruct Hin as [Hin _]. apply memN_In. exact Hin.
  - intros Hs. rewrite forallb_forall in H11. specialize (H11 o).
    assert (Hin : In o (map fst binop_map)) by (change o with (fst (o, c)); apply in_map; assumption).
    apply H11 in Hin. apply andb_prop in Hin. destruct Hin as [_ Hin].
    apply negb_true_iff in Hin. apply memN_In in Hs. congruence.
  - intros o Ho. rewrite forallb_forall in H7. apply assocN_mem. apply H7. exact Ho.
  - intros o Ho. rewrite forallb_forall in H3. apply assocN_mem. apply H3. exact Ho.
  - apply nodupb_snd_inj; assumption.
  - apply nodupb_snd_inj; assumption.
Qed.

(* ---- spellings: documented spelling <-> token rule ---- *)
Definition lit_of (o : N) : list Z :=
  match assocN o op_lit with Some (s, _) => s | None => [] end.
Definition simple_of (o : N) : bool :=
  match assocN o op_lit with Some (_, b) => b | None => false end.

Fixpoint is_prefix_of (a b : list Z) : bool :=
  match a, b with
  | [], _ => true
  | x :: a', y :: b' => Z.eqb x y && is_prefix_of a' b'
  | _ :: _, [] => false
  end.
Definition is_proper_prefix_of (a b : list Z) : bool :=
  is_prefix_of a b && negb (length a =? length b).

(* the choice an operator rule belongs to: true = tried after an operand (postfix_op, bin_op),
   false = tried at the start of an operand (prefix_op) *)
Definition class_of (o : N) : list N :=
  if memN o after_operand_alts then after_operand_alts else operand_start_alts.

(* the rules the documentation spells other than by their literal text *)
Definition structured_ops : list N := [r_at; r_type_filter; r_function_call; r_reduce].

Definition doc_rows : list (list Z * N) := concat (map (fun e => snd e) doc_levels).

(* for a documented row (spelling, rule): the rule is that literal and no other rule tried at
   the same position has the same literal — or the row is one of the four structured spellings,
   whose rule starts with the first character of the spelling *)
Definition doc_spelling_ok (row : list Z * N) : bool :=
  let (sp, o) := row in
  if memN o structured_ops then
    negb (simple_of o) && is_proper_prefix_of (lit_of o) sp
  else
    simple_of o && str_eqb (lit_of o) sp &&
    (length (filter (fun o' => simple_of o' && str_eqb (lit_of o') sp) (class_of o)) =? 1).

Definition doc_spellings_b : bool :=
  forallb doc_spelling_ok doc_rows &&
  forallb (fun o => memN o (map fst op_lit)) all_ops &&
  nodupb N.eqb (map snd doc_rows).

Lemma doc_spellings_b_true : ltac:(let t := eval unfold doc_spellings_b in (doc_spellings_b = true) in exact t).
Proof. vm_compute. reflexivity. Qed.

Lemma doc_spellings : forall sp o, In (sp, o) doc_rows -> doc_spelling_ok (sp, o) = true.
Proof.
  intros sp o H. pose proof doc_spellings_b_true as B.
  do 2 (apply andb_prop in B; destruct B as [B ?]).
  rewrite forallb_forall in B. apply B. exact H.
Qed.

(* ---- multi-character operators are not split: order of the grammar's choices ---- *)
(* PEG ordered choice: an earlier alternative that is a plain literal wins whenever the input
   starts with that literal.  So a longer operator is reachable only if no EARLIER alternative
   of the same choice is a plain literal that is a prefix of it. *)
Fixpoint ordered_ok (strict : bool) (alts : list N) : bool :=
  match alts with
  | [] => true
  | e :: later =>
    forallb (fun l =>
       if simple_of e then negb (is_prefix_of (lit_of e) (lit_of l))
       else if strict then negb (is_proper_prefix_of (lit_of e) (lit_of l)) else true) later &&
    ordered_ok strict later
  end.

Definition tokens_not_split_b : bool :=
  ordered_ok false after_operand_alts && ordered_ok false operand_start_alts.
(* stronger (also holds today): not even a structured earlier alternative such as `"$" ~ expr`
   or `"?" ~ type` starts with a proper prefix of a later operator *)
Definition tokens_not_split_strict_b : bool :=
  ordered_ok true after_operand_alts && ordered_ok true operand_start_alts.

Lemma tokens_not_split_b_true : ltac:(let t := eval unfold tokens_not_split_b in (tokens_not_split_b = true) in exact t).
Proof. vm_compute. reflexivity. Qed.
Lemma tokens_not_split_strict_b_true : ltac:(let t := eval unfold tokens_not_split_strict_b in (tokens_not_split_strict_b = true) in exact t).
Proof. vm_compute. reflexivity. Qed.

Fixpoint index_of (o : N) (l : list N) : nat :=
  match l with
  | [] => 0
  | x :: l => if N.eqb o x then 0 else S (index_of o l)
  end.

(* the pairs named by the property, as spellings *)
Definition Zs (l : list Z) := l.
Definition split_pairs : list (list Z * list Z) :=
  let star := 42%Z in let lt := 60%Z in let gt := 62%Z in let amp := 38%Z in let bar := 124%Z in
  let eq := 61%Z in let bang := 33%Z in let minus := 45%Z in let plus := 43%Z in let slash := 47%Z in
  let pct := 37%Z in let caret := 94%Z in let dollar := 36%Z in let rbr := 93%Z in
  [ ([star], [star; star]); ([star], [star; star; eq]); ([star; star], [star; star; eq]); ([star], [star; eq]);
    ([lt], [lt; lt]); ([lt], [lt; lt; eq]); ([lt; lt], [lt; lt; eq]); ([lt], [lt; eq]);
    ([gt], [gt; gt]); ([gt], [gt; gt; eq]); ([gt; gt], [gt; gt; eq]); ([gt], [gt; eq]);
    ([amp], [amp; amp]); ([amp], [amp; eq]);
    ([bar], [bar; bar]); ([bar], [bar; eq]);
    ([eq], [eq; eq]); ([bang], [bang; eq]); ([minus], [minus; eq]); ([plus], [plus; eq]);
    ([slash], [slash; eq]); ([pct], [pct; eq]); ([caret], [caret; eq]);
    ([dollar], [dollar; plus]); ([dollar], [dollar; star]); ([dollar], [dollar; amp; amp]);
    ([dollar], [dollar; bar; bar]); ([dollar], [dollar; amp]); ([dollar], [dollar; bar]);
    ([dollar], [dollar; rbr]);
    ([dollar; amp], [dollar; amp; amp]); ([dollar; bar], [dollar; bar; bar]) ].

(* rules whose token text begins with exactly this literal as their (leading) literal *)
Definition rules_spelled (s : list Z) (alts : list N) : list N :=
  filter (fun o => str_eqb (lit_of o) s) alts.

(* for a pair (s1, s2): the longer spelling exists as a plain token, and wherever a rule spelled
   s1 is tried in the same choice as a rule spelled s2, the one spelled s2 is tried first *)
Definition pair_ok (alts : list N) (pr : list Z * list Z) : bool :=
  let (s1, s2) := pr in
  forallb (fun r2 => forallb (fun r1 => index_of r2 alts <? index_of r1 alts)
                       (rules_spelled s1 alts)) (rules_spelled s2 alts).

Definition split_pairs_b : bool :=
  forallb (fun pr => is_proper_prefix_of (fst pr) (snd pr)) split_pairs &&
  forallb (fun pr => negb (length (filter simple_of (rules_spelled (snd pr) all_ops)) =? 0)) split_pairs &&
  forallb (pair_ok after_operand_alts) split_pairs &&
  forallb (pair_ok operand_start_alts) split_pairs &&
  (* a prefix operator and an operator tried after an operand are never tried at the same place *)
  forallb (fun o => negb (memN o after_operand_alts)) operand_start_alts.

Lemma split_pairs_b_true : ltac:(let t := eval unfold split_pairs_b in (split_pairs_b = true) in exact t).
Proof. vm_compute. reflexivity. Qed.

(* every pair of operator literals where one is a proper prefix of the other is in split_pairs
   (so the list above is the whole story, not a sample) *)
Definition all_prefix_pairs : list (list Z * list Z) :=
  concat (map (fun o1 => concat (map (fun o2 =>
     if is_proper_prefix_of (lit_of o1) (lit_of o2) then [(lit_of o1, lit_of o2)] else [])
     all_ops)) all_ops).

Definition pair_eqb (a b : list Z * list Z) : bool :=
  str_eqb (fst a) (fst b) && str_eqb (snd a) (snd b).

Definition split_pairs_complete_b : bool :=
  forallb (fun pr => existsb (pair_eqb pr) split_pairs) all_prefix_pairs.

Lemma split_pairs_complete_b_true : ltac:(let t := eval unfold split_pairs_complete_b in (split_pairs_complete_b = true) in exact t).
Proof. vm_compute. reflexivity. Qed.

(* ---- the flip side of longest-token-first: two adjacent operators that read as one ---- *)
(* (r1, x, r2): r1 is tried after an operand, x may directly follow r1 (a prefix operator after
   a binary operator, or any after-operand operator after a postfix operator), and the text of
   r1 followed by the text of x starts with the longer plain token r2, which is tried before r1
   and therefore wins: `a * *p` must be written with the space, `a **p` is a power *)
Definition fusions : list (N * N * N) :=
  concat (map (fun r1 =>
    concat (map (fun x =>
      concat (map (fun r2 =>
        if simple_of r1 || memN r1 [r_reduce] then
          if simple_of x && simple_of r2 &&
             is_proper_prefix_of (lit_of r1) (lit_of r2) &&
             is_prefix_of (lit_of r2) (lit_of r1 ++ lit_of x)
          then [(r1, x, r2)] else []
        else []) after_operand_alts))
      (if memN r1 bin_alts then prefix_alts else after_operand_alts)))
    after_operand_alts).

Lemma fusions_listed :
  fusions = [ (r_bitand_reduce, r_assign_bitwise_and, r_all); (r_bitand_reduce, r_and, r_all);
              (r_bitand_reduce, r_bitwise_and, r_all);
              (r_bitor_reduce, r_assign_bitwise_or, r_reduce_any); (r_bitor_reduce, r_or, r_reduce_any);
              (r_bitor_reduce, r_bitwise_or, r_reduce_any);
              (r_multiply, r_indirection, r_pow);
              (r_reduce, r_indirection, r_product) ].
Proof. vm_compute. reflexivity. Qed.

(* ---- lifted forms ---- *)
Lemma ordered_ok_before : forall strict pre e mid l post,
  ordered_ok strict (pre ++ e :: mid ++ l :: post) = true ->
  simple_of e = true -> is_prefix_of (lit_of e) (lit_of l) = false.
Proof.
  intros strict. induction pre as [|x pre IH]; intros e mid l post H Hs.
  - cbn [app ordered_ok] in H. apply andb_prop in H. destruct H as [H _].
    rewrite forallb_forall in H. specialize (H l).
    rewrite Hs in H. apply negb_true_iff. apply H. apply in_or_app. right. left. reflexivity.
  - cbn [app ordered_ok] in H. apply andb_prop in H. destruct H as [_ H].
    eapply IH; eauto.
Qed.

(* In each of the two places where an operator can start — after an operand (postfix_op, then
   bin_op) and at the start of an operand (prefix_op) — an alternative that is a plain literal
   never stands before an alternative whose text starts with that literal: the longer operator
   is always tried first, so it is never read as the shorter one followed by something else. *)
Lemma tokens_not_split : forall alts, alts = after_operand_alts \/ alts = operand_start_alts ->
  forall pre e mid l post, alts = pre ++ e :: mid ++ l :: post ->
  simple_of e = true -> is_prefix_of (lit_of e) (lit_of l) = false.
Proof.
  intros alts Halts pre e mid l post Heq Hs.
  pose proof tokens_not_split_b_true as B.
  apply andb_prop in B. destruct B as [B1 B2].
  destruct Halts as [-> | ->].
  - rewrite Heq in B1. eapply ordered_ok_before; eauto.
  - rewrite Heq in B2. eapply ordered_ok_before; eauto.
Qed.

Lemma rules_spelled_In : forall s alts o, In o alts -> lit_of o = s -> In o (rules_spelled s alts).
Proof.
  intros s alts o Ho Hl. unfold rules_spelled. apply filter_In. split; [exact Ho|].
  apply str_eqb_eq. exact Hl.
Qed.

Lemma rules_spelled_inv : forall s alts o, In o (rules_spelled s alts) -> In o alts /\ lit_of o = s.
Proof.
  intros s alts o H. unfold rules_spelled in H. apply filter_In in H. destruct H as [H1 H2].
  apply str_eqb_eq in H2. auto.
Qed.

Lemma nonempty_ex : forall X (l : list X), negb (length l =? 0) = true -> exists x, In x l.
Proof. intros X [|x l]; cbn; intros H; [discriminate|]. exists x. left. reflexivity. Qed.

Lemma split_pairs_ordered : forall s1 s2, In (s1, s2) split_pairs ->
  is_proper_prefix_of s1 s2 = true /\
  (exists r2, In r2 all_ops /\ lit_of r2 = s2 /\ simple_of r2 = true) /\
  forall alts, alts = after_operand_alts \/ alts = operand_start_alts ->
  forall r1 r2, In r1 alts -> In r2 alts -> lit_of r1 = s1 -> lit_of r2 = s2 ->
    index_of r2 alts < index_of r1 alts.
Proof.
  intros s1 s2 Hin. pose proof split_pairs_b_true as B.
  do 4 (apply andb_prop in B; destruct B as [B ?]).
  split; [|split].
  - rewrite forallb_forall in B. apply (B (s1, s2)). exact Hin.
  - rewrite forallb_forall in H2. specialize (H2 (s1, s2) Hin). cbn [snd] in H2. clear - H2.
    apply nonempty_ex in H2. destruct H2 as [r2 Hr].
    apply filter_In in Hr. destruct Hr as [Hr Hsim].
    apply rules_spelled_inv in Hr. destruct Hr as [Hr Hl].
    exists r2. split; [exact Hr|]. split; [exact Hl|exact Hsim].
  - intros alts Halts r1 r2 Hr1 Hr2 Hl1 Hl2.
    assert (P : pair_ok alts (s1, s2) = true).
    { destruct Halts as [-> | ->].
      - rewrite forallb_forall in H1. apply H1. exact Hin.
      - rewrite forallb_forall in H0. apply H0. exact Hin. }
    unfold pair_ok in P. rewrite forallb_forall in P.
    specialize (P r2 (rules_spelled_In _ _ _ Hr2 Hl2)). rewrite forallb_forall in P.
    specialize (P r1 (rules_spelled_In _ _ _ Hr1 Hl1)). apply Nat.ltb_lt. exact P.
Qed.

Lemma split_pairs_complete : forall o1 o2, In o1 all_ops -> In o2 all_ops ->
  is_proper_prefix_of (lit_of o1) (lit_of o2) = true -> In (lit_of o1, lit_of o2) split_pairs.
Proof.
  intros o1 o2 H1 H2 Hp. pose proof split_pairs_complete_b_true as B.
  rewrite forallb_forall in B.
  assert (Hin : In (lit_of o1, lit_of o2) all_prefix_pairs).
  { unfold all_prefix_pairs. apply in_concat. eexists. split.
    - apply in_map_iff. exists o1. split; [reflexivity|exact H1].
    - apply in_concat. eexists. split.
      + apply in_map_iff. exists o2. split; [reflexivity|exact H2].
      + rewrite Hp. left. reflexivity. }
  apply B in Hin. apply existsb_exists in Hin. destruct Hin as ([a b] & Hab & E).
  unfold pair_eqb in E. cbn [fst snd] in E. apply andb_prop in E. destruct E as [E1 E2].
  apply str_eqb_eq in E1. apply str_eqb_eq in E2. subst. exact Hab.
Qed.

Lemma prefix_and_after_disjoint : forall o, In o operand_start_alts -> ~ In o after_operand_alts.
Proof.
  intros o Ho Ha. pose proof split_pairs_b_true as B.
  do 4 (apply andb_prop in B; destruct B as [B ?]).
  rewrite forallb_forall in H. specialize (H o Ho). apply negb_true_iff in H.
  apply memN_In in Ha. congruence.
Qed.

(* RecrEnd.v — END TO END: for every program the checker accepts, constant folding and
   propagation are unobservable — no side condition left.

   Code::parse checks each top-level line and then recreates it ([Top.parse_top]);
   [RecrTop.parse_both] returns both the instructions as checked (is, nothing folded) and as
   recreated (is', what parse_top returns).  For programs in the fragment of the bridge
   (Lemmas/Bridge1.v, Bridge2.v: everything except the iterator operators, `for`, modules and
   top-level destructuring), with typed store and scopes that agree with the environment:
     - for EVERY fuel n, if running is finishes, running is' finishes with the same fuel and
       literally the same result (value / error, cells, closures, effect log, scopes);
     - if running is' finishes with fuel n, running is finishes with fuel n + fuel and the
       same result.
   Typing gives the binder and arity disciplines ([wfi], [dok]) and excludes panics
   (Soundness); the pass preserves typing (SoundRec3). *)
From SSL.Model Require Import Base Ty Float Value Ops Seq Syntax Rt Recreate Exec Check Top.
From SSL.Lemmas Require Import TyLemmas ValueLemmas SeqLemmas ExecLemmas SoundLemmas CellLemmas
  SoundDefs SoundVals SoundTyping Sound1 Sound5 Soundness SoundRec2 SoundRec3
  CheckUnfold CheckBase CheckTotal RecreateTotal Bridge1 Bridge2
  RecrUnfold RecrMono RecrDefs RecrMain RecrTop RecrClos RecrBack1 RecrBack2 RecrTyped RecrTyped2.

Arguments matches : simpl never.

Section EndToEnd.
Existing Instance all_policy.
Variable powf : fbits -> fbits -> fbits.
Variable pre : prelude.
Variable red : reducers.
Variable W : sty.
Variable fuel : nat.
Notation E := (exec powf pre).

Lemma sgood_nil : sgood W [].
Proof. intros n v H. discriminate H. Qed.

Notation tinv := (tinv W []).

(* the checked line, the recreated line, and their typings *)
Inductive paired : genv -> lenv -> list instr -> list instr -> Prop :=
| P_nil G e : paired G e [] []
| P_cons G e i i' e' T G1 T' G' is is' :
    typed_line W G KT i T G1 -> recreate powf fuel [] e i = Ok (i', e') ->
    typed_line W G KT i' T' G' -> paired G' e' is is' ->
    paired G e (i :: is) (i' :: is').

Theorem parse_both_paired : forall l e G is is' e',
  tinv e G -> forallb wf_sline l = true -> forallb blfrag l = true -> forallb top_ok l = true ->
  parse_both powf red fuel [] e l = Ok (is, is', e') -> paired G e is is'.
Proof.
  induction l as [|ln l IH]; intros e G is is' e' TI Wl Fl Tl H.
  - injection H as <- <- <-. constructor.
  - cbn [forallb] in Wl, Fl, Tl. andb_split Wl. andb_split Fl. andb_split Tl.
    cbn [parse_both] in H. apply obind_ok in H. destruct H as [[is0 e1] [Ec H]].
    pose proof TI as [HC [HK _]].
    destruct (@check_line_typed all_policy (apol) W red fuel [] (lenv_push e) G ln is0 e1 sgood_nil
                (cenv_leq W _ e G (leq_push e) HC) Wl Fl Ec) as [i0 [T [G1 [E0 [Hl _]]]]].
    rewrite kof_push, HK in Hl.
    destruct (top_line powf red W [] sgood_nil fuel e G ln is0 e1 TI Wl Fl Tl Ec) as [i [-> R]].
    injection E0 as <-.
    apply obind_ok in H. destruct H as [[i' e2] [Er H]].
    apply obind_ok in H. destruct H as [[[a b] e3] [Ep H]]. injection H as <- <- <-.
    rewrite Er in R. destruct R as [T' [G' [Hl' TI']]]. cbn [fst snd].
    apply (P_cons G e i i' e2 T G1 T' G' a b Hl Er Hl'). apply (IH _ _ _ _ _ TI' Wl0 Fl0 Tl0 Ep).
Qed.

Lemma line_no_panic n G i T G' W1 st sc :
  typed_line W G KT i T G' -> ext W W1 -> store_ok W1 st -> env_ok W1 sc G ->
  sig (E n st sc i) <> SPanic.
Proof. apply (typed_line_no_panic powf pre n W G KT i T G' W1 st sc). Qed.

Theorem paired_run : forall G e is is', paired G e is is' ->
  forall W1 st sc last, ext W W1 -> store_ok W1 st -> env_ok W1 sc G -> agree e sc ->
  forall n,
    (sig (run_code powf pre n st sc is last) <> SFuel ->
     run_code powf pre n st sc is' last = run_code powf pre n st sc is last) /\
    (sig (run_code powf pre n st sc is' last) <> SFuel ->
     run_code powf pre (n + fuel) st sc is last = run_code powf pre n st sc is' last).
Proof.
  induction 1 as [G e|G e i i' e' T G1 T' G' is is' Hl Er Hl' _ IH];
    intros W1 st sc last HE HS HG Ha n; [split; intros _; reflexivity|].
  pose proof (typed_line_wfi true (cl_all) W G KT i T G1 Hl) as Wi.
  pose proof (typed_line_dok W G KT i' T' G' Hl') as Di.
  destruct (sim_line1 powf pre fuel e i i' e' Er Wi Di sc Ha) as [Sf Pf].
  cbn [run_code]. split.
  - (* forward *)
    specialize (Sf n st). specialize (Pf n st).
    pose proof (line_no_panic n G i T G1 W1 st sc Hl HE HS HG) as NP.
    destruct (E n st sc i) as [[st1 sc1] s1] eqn:Ex.
    destruct (fuel_dec s1) as [->|NF]; [intros C; exfalso; apply C; reflexivity|].
    rewrite Sf by (split; [exact NF|exact NP]).
    destruct s1; try (intros _; reflexivity).
    assert (Ex' : E n st sc i' = (st1, sc1, SVal v)) by (rewrite Sf; [reflexivity|split; [exact NF|exact NP]]).
    destruct (exec_sound_line powf pre (recreate_ok_all powf) n W G KT i' T' G' W1 st sc st1 sc1 (SVal v)
                Hl' HE HS HG Ex') as [W2 [HE2 [HS2 [_ HG2]]]].
    apply (proj1 (IH W2 st1 sc1 v (ext_trans _ _ _ HE HE2) HS2 (HG2 v eq_refl) (Pf _ _ _ eq_refl) n)).
  - (* backward *)
    pose proof (back_line1 powf pre fuel e i i' e' Er Wi Di sc Ha n (n + fuel) st ltac:(lia)) as B.
    pose proof (line_no_panic (n + fuel) G i T G1 W1 st sc Hl HE HS HG) as NP.
    specialize (Pf (n + fuel) st).
    destruct (E n st sc i') as [[st1 sc1] s1] eqn:Ex'.
    destruct (fuel_dec s1) as [->|NF]; [intros C; exfalso; apply C; reflexivity|].
    destruct (B NF) as [P|P]; [exfalso; exact (NP P)|]. rewrite P in Pf |- *.
    destruct s1; try (intros _; reflexivity).
    destruct (exec_sound_line powf pre (recreate_ok_all powf) n W G KT i' T' G' W1 st sc st1 sc1 (SVal v)
                Hl' HE HS HG Ex') as [W2 [HE2 [HS2 [_ HG2]]]].
    apply (proj2 (IH W2 st1 sc1 v (ext_trans _ _ _ HE HE2) HS2 (HG2 v eq_refl) (Pf _ _ _ eq_refl) n)).
Qed.

(* END TO END *)
Theorem checked_fold_unobservable l e G is is' e' :
  tinv e G -> forallb wf_sline l = true -> forallb blfrag l = true -> forallb top_ok l = true ->
  parse_both powf red fuel [] e l = Ok (is, is', e') ->
  parse_top powf red fuel [] e l = Ok (is', e') /\
  forall W1 st sc last, ext W W1 -> store_ok W1 st -> env_ok W1 sc G -> agree e sc ->
  forall n,
    (sig (run_code powf pre n st sc is last) <> SFuel ->
     run_code powf pre n st sc is' last = run_code powf pre n st sc is last) /\
    (sig (run_code powf pre n st sc is' last) <> SFuel ->
     run_code powf pre (n + fuel) st sc is last = run_code powf pre n st sc is' last).
Proof.
  intros TI Wl Fl Tl H. split; [rewrite parse_both_top, H; reflexivity|].
  apply (paired_run G e is is' (parse_both_paired l e G is is' e' TI Wl Fl Tl H)).
Qed.

End EndToEnd.

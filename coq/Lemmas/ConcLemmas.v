(* ConcLemmas.v — proofs about Model/Conc.v (C16). *)
From Coq Require Import List ZArith Bool Arith Lia.
Import ListNotations.
From SSL.Model Require Import Conc.

(* ---------- cells ---------- *)
Lemma get_nil : forall c, get c [] = 0%Z.
Proof. intros [| c]; reflexivity. Qed.

Lemma get_upd_same : forall c v m, get c (upd c v m) = v.
Proof.
  intros c v; induction c as [| c IH]; intros [| h t]; unfold get in *; simpl; try reflexivity; apply IH.
Qed.

Lemma get_upd_other : forall c c' v m, c <> c' -> get c' (upd c v m) = get c' m.
Proof.
  intros c; induction c as [| c IH]; intros [| c'] v [| h t] Hne; unfold get in *; simpl;
    try congruence; try reflexivity.
  - destruct c'; reflexivity.
  - rewrite IH by congruence. destruct c'; reflexivity.
  - apply IH; congruence.
Qed.

Lemma get_step_mem : forall s c m,
  get c (step_mem s m) = if Nat.eqb c (step_cell s) then step_val s (get c m) else get c m.
Proof.
  intros s c m. destruct (Nat.eqb_spec c (step_cell s)) as [E | E].
  - subst c. destruct s as [c f | c | c v]; simpl; try apply get_upd_same; reflexivity.
  - destruct s as [c0 f | c0 | c0 v]; simpl in *; try reflexivity; apply get_upd_other; congruence.
Qed.

Lemma step_mem_other : forall s c m, c <> step_cell s -> get c (step_mem s m) = get c m.
Proof.
  intros s c m Hne. rewrite get_step_mem.
  destruct (Nat.eqb_spec c (step_cell s)); [contradiction | reflexivity].
Qed.

Lemma cells_eq_refl : forall m, cells_eq m m.
Proof. intros m c; reflexivity. Qed.
Lemma cells_eq_sym : forall m m', cells_eq m m' -> cells_eq m' m.
Proof. intros m m' H c; symmetry; apply H. Qed.
Lemma cells_eq_trans : forall m1 m2 m3, cells_eq m1 m2 -> cells_eq m2 m3 -> cells_eq m1 m3.
Proof. intros m1 m2 m3 H1 H2 c; rewrite H1; apply H2. Qed.

Lemma step_mem_ext : forall s m m', cells_eq m m' -> cells_eq (step_mem s m) (step_mem s m').
Proof. intros s m m' H c. rewrite !get_step_mem, (H c). reflexivity. Qed.

Lemma step_commute : forall s s' m,
  step_cell s <> step_cell s' ->
  cells_eq (step_mem s (step_mem s' m)) (step_mem s' (step_mem s m)).
Proof.
  intros s s' m Hne c. rewrite !get_step_mem.
  destruct (Nat.eqb_spec c (step_cell s)) as [E1 | E1];
    destruct (Nat.eqb_spec c (step_cell s')) as [E2 | E2]; try reflexivity.
  exfalso; apply Hne; congruence.
Qed.

(* ---------- set_nth ---------- *)
Lemma set_nth_length : forall A n (x : A) l, length (set_nth n x l) = length l.
Proof. intros A n x; induction n as [| n IH]; intros [| h t]; simpl; try reflexivity. rewrite IH; reflexivity. Qed.

Lemma nth_set_nth_same : forall A n (x d : A) l, n < length l -> nth n (set_nth n x l) d = x.
Proof.
  intros A n x d; induction n as [| n IH]; intros [| h t] Hl; simpl in *; try lia; try reflexivity.
  apply IH; lia.
Qed.

Lemma nth_set_nth_other : forall A n u (x d : A) l, u <> n -> nth u (set_nth n x l) d = nth u l d.
Proof.
  intros A n; induction n as [| n IH]; intros [| u] x d [| h t] Hne; simpl; try congruence; try reflexivity.
  apply IH; congruence.
Qed.

Lemma Forall_set_nth : forall A (Q : A -> Prop) n x l, Forall Q l -> Q x -> Forall Q (set_nth n x l).
Proof.
  intros A Q n x; induction n as [| n IH]; intros [| h t] Hl Hx; simpl; try constructor;
    inversion Hl; subst; auto.
Qed.

Lemma nth_error_nth' : forall A (l : list A) n x d, nth_error l n = Some x -> nth n l d = x.
Proof. intros A l; induction l as [| h t IH]; intros [| n] x d H; simpl in *; try discriminate; [congruence | apply IH; exact H]. Qed.

Lemma nth_error_lt : forall A (l : list A) n x, nth_error l n = Some x -> n < length l.
Proof. intros A l n x H. apply nth_error_Some. congruence. Qed.

(* ---------- pick / run ---------- *)
Lemma pick_some : forall t m ths s rest,
  nth_error ths t = Some (s :: rest) ->
  pick t (m, ths) = Some ((step_mem s m, set_nth t rest ths), step_ev t s m).
Proof. intros t m ths s rest H. unfold pick; cbn [fst snd]. rewrite H. reflexivity. Qed.

Lemma pick_inv : forall t m ths cfg' e,
  pick t (m, ths) = Some (cfg', e) ->
  exists s rest, nth_error ths t = Some (s :: rest) /\
                 cfg' = (step_mem s m, set_nth t rest ths) /\ e = step_ev t s m.
Proof.
  intros t m ths cfg' e H. unfold pick in H; cbn [fst snd] in H.
  destruct (nth_error ths t) as [[| s rest] |] eqn:En; try discriminate.
  inversion H; subst. exists s, rest. auto.
Qed.

Lemma pick_none : forall t m ths,
  pick t (m, ths) = None -> nth t ths [] = [].
Proof.
  intros t m ths H. unfold pick in H; cbn [fst snd] in H.
  destruct (nth_error ths t) as [[| s rest] |] eqn:En; try discriminate.
  - apply nth_error_nth'; exact En.
  - apply nth_overflow. apply nth_error_None; exact En.
Qed.

(* a step of an unfinished thread is always enabled: nothing ever waits *)
Lemma pick_enabled : forall t m ths s rest,
  nth_error ths t = Some (s :: rest) -> exists cfg' e, pick t (m, ths) = Some (cfg', e).
Proof. intros t m ths s rest H. rewrite (pick_some _ _ _ _ _ H). eauto. Qed.

Lemma run_invariant : forall (P : config -> Prop),
  (forall t cfg cfg' e, P cfg -> pick t cfg = Some (cfg', e) -> P cfg') ->
  forall sched cfg, P cfg -> P (fst (run sched cfg)).
Proof.
  intros P Hstep sched; induction sched as [| t sched IH]; intros cfg HP; simpl; [exact HP |].
  destruct (pick t cfg) as [[cfg' e] |] eqn:Ep.
  - specialize (IH cfg' (Hstep _ _ _ _ HP Ep)). destruct (run sched cfg') as [cfg'' es]. exact IH.
  - apply IH; exact HP.
Qed.

(* ---------- 1. no lost update ---------- *)
Lemma total_delta_set_nth : forall ths t s rest,
  nth_error ths t = Some (s :: rest) ->
  (total_delta (set_nth t rest ths) + step_delta s = total_delta ths)%Z.
Proof.
  intros ths; induction ths as [| th ths IH]; intros [| t] s rest H; simpl in *; try discriminate.
  - inversion H; subst. simpl. lia.
  - specialize (IH _ _ _ H). lia.
Qed.

Lemma add_only_step : forall c s m, add_only c s -> get c (step_mem s m) = (get c m + step_delta s)%Z.
Proof.
  intros c [c' f | c' | c' v] m H; simpl in H; try contradiction.
  destruct H as [E Hf]; subst c'. simpl. rewrite get_upd_same. apply Hf.
Qed.

Lemma rmw_sum_inv : forall c sched m ths m' ths' tr,
  Forall (Forall (add_only c)) ths ->
  run sched (m, ths) = ((m', ths'), tr) ->
  (get c m' + total_delta ths' = get c m + total_delta ths)%Z /\ Forall (Forall (add_only c)) ths'.
Proof.
  intros c sched m ths m' ths' tr Hall Hrun.
  pose (P := fun cfg : config =>
    (get c (fst cfg) + total_delta (snd cfg) = get c m + total_delta ths)%Z /\
    Forall (Forall (add_only c)) (snd cfg)).
  assert (HP : P (fst (run sched (m, ths)))).
  { apply run_invariant.
    - intros t [m1 ths1] cfg' e [Hsum Hf] Hp. apply pick_inv in Hp as [s [rest [Hn [E _]]]]. subst cfg'.
      unfold P in *; simpl in *.
      assert (Hsr : Forall (add_only c) (s :: rest)).
      { rewrite Forall_forall in Hf. apply Hf. eapply nth_error_In; exact Hn. }
      inversion Hsr as [| s0 r0 Hs Hr]; subst. split.
      + rewrite (add_only_step c s m1 Hs). pose proof (total_delta_set_nth _ _ _ _ Hn). lia.
      + apply Forall_set_nth; assumption.
    - unfold P; simpl. auto. }
  rewrite Hrun in HP. exact HP.
Qed.

Lemma finished_total_delta : forall ths, finished ths -> total_delta ths = 0%Z.
Proof. intros ths H; induction H as [| th ths E _ IH]; simpl; [reflexivity |]. subst th. simpl. lia. Qed.

Lemma rmw_sum : forall c sched m ths m' ths' tr,
  Forall (Forall (add_only c)) ths ->
  run sched (m, ths) = ((m', ths'), tr) -> finished ths' ->
  get c m' = (get c m + total_delta ths)%Z.
Proof.
  intros c sched m ths m' ths' tr Hall Hrun Hfin.
  destruct (rmw_sum_inv _ _ _ _ _ _ _ Hall Hrun) as [H _].
  rewrite (finished_total_delta _ Hfin) in H. lia.
Qed.

Lemma thread_delta_incr : forall c K, thread_delta (repeat (incr c) K) = Z.of_nat K.
Proof.
  intros c K; induction K as [| K IH]; [reflexivity |].
  change (thread_delta (repeat (incr c) (S K))) with (step_delta (incr c) + thread_delta (repeat (incr c) K))%Z.
  rewrite IH. change (step_delta (incr c)) with 1%Z. lia.
Qed.

Lemma total_delta_repeat : forall th T, total_delta (repeat th T) = (Z.of_nat T * thread_delta th)%Z.
Proof.
  intros th T; induction T as [| T IH]; [reflexivity |].
  change (total_delta (repeat th (S T))) with (thread_delta th + total_delta (repeat th T))%Z.
  rewrite IH. lia.
Qed.

Lemma add_only_incr : forall c, add_only c (incr c).
Proof. intros c; simpl. split; [reflexivity | intros x; lia]. Qed.

Lemma rmw_counts : forall c T K sched m m' ths' tr,
  run sched (m, repeat (repeat (incr c) K) T) = ((m', ths'), tr) -> finished ths' ->
  get c m' = (get c m + Z.of_nat T * Z.of_nat K)%Z.
Proof.
  intros c T K sched m m' ths' tr Hrun Hfin.
  assert (Hall : Forall (Forall (add_only c)) (repeat (repeat (incr c) K) T)).
  2: { rewrite (rmw_sum c _ _ _ _ _ _ Hall Hrun Hfin).
       rewrite total_delta_repeat, thread_delta_incr. reflexivity. }
  apply Forall_forall. intros th Hin. apply repeat_spec in Hin. subst th.
  apply Forall_forall. intros s Hs. apply repeat_spec in Hs. subst s. apply add_only_incr.
Qed.

(* ---------- 3. no deadlock: progress and termination ---------- *)
Lemma finished_nth : forall ths, (forall t, t < length ths -> nth t ths [] = []) -> finished ths.
Proof.
  intros ths H. apply Forall_forall. intros th Hin.
  destruct (In_nth _ _ [] Hin) as [n [Hn E]]. rewrite <- E. apply H; exact Hn.
Qed.

Lemma run_fair : forall sched m ths,
  enough sched ths -> finished (snd (fst (run sched (m, ths)))).
Proof.
  intros sched; induction sched as [| t sched IH]; intros m ths Hen; simpl.
  - apply finished_nth. intros t Ht. specialize (Hen t Ht). simpl in Hen.
    destruct (nth t ths []); [reflexivity | simpl in Hen; lia].
  - destruct (pick t (m, ths)) as [[cfg' e] |] eqn:Ep.
    + apply pick_inv in Ep as [s [rest [Hn [E _]]]]. subst cfg'.
      assert (Hen' : enough sched (set_nth t rest ths)).
      { intros u Hu. rewrite set_nth_length in Hu. specialize (Hen u Hu). simpl in Hen.
        destruct (Nat.eq_dec t u) as [E | E].
        - subst u. rewrite nth_set_nth_same by exact Hu.
          rewrite (nth_error_nth' _ _ _ _ [] Hn) in Hen. simpl in Hen. lia.
        - rewrite nth_set_nth_other by congruence. exact Hen. }
      specialize (IH (step_mem s m) _ Hen').
      destruct (run sched (step_mem s m, set_nth t rest ths)) as [cfg'' es]. exact IH.
    + apply IH. intros u Hu. specialize (Hen u Hu). simpl in Hen.
      destruct (Nat.eq_dec t u) as [E | E]; [| exact Hen].
      subst u. rewrite (pick_none _ _ _ Ep). simpl. lia.
Qed.

Lemma total_steps_set_nth : forall ths t (s : step) rest,
  nth_error ths t = Some (s :: rest) -> S (total_steps (set_nth t rest ths)) = total_steps ths.
Proof.
  intros ths; induction ths as [| th ths IH]; intros [| t] s rest H; simpl in H; try discriminate.
  - inversion H; subst. reflexivity.
  - specialize (IH _ _ _ H). simpl set_nth.
    change (total_steps (th :: set_nth t rest ths)) with (length th + total_steps (set_nth t rest ths)).
    change (total_steps (th :: ths)) with (length th + total_steps ths). lia.
Qed.

Lemma run_steps : forall sched m ths,
  length (snd (run sched (m, ths))) + total_steps (snd (fst (run sched (m, ths)))) = total_steps ths.
Proof.
  intros sched; induction sched as [| t sched IH]; intros m ths; simpl; [reflexivity |].
  destruct (pick t (m, ths)) as [[cfg' e] |] eqn:Ep.
  - apply pick_inv in Ep as [s [rest [Hn [E _]]]]. subst cfg'.
    specialize (IH (step_mem s m) (set_nth t rest ths)).
    destruct (run sched (step_mem s m, set_nth t rest ths)) as [cfg'' es]. simpl in *.
    pose proof (total_steps_set_nth _ _ _ _ Hn). lia.
  - apply IH.
Qed.

Lemma finished_total_steps : forall ths, finished ths -> total_steps ths = 0.
Proof. intros ths H; induction H as [| th ths E _ IH]; simpl; [reflexivity |]. subst th. exact IH. Qed.

Lemma no_deadlock : forall sched m ths m' ths' tr,
  enough sched ths -> run sched (m, ths) = ((m', ths'), tr) ->
  finished ths' /\ length tr = total_steps ths.
Proof.
  intros sched m ths m' ths' tr Hen Hrun.
  pose proof (run_fair sched m ths Hen) as Hfin. pose proof (run_steps sched m ths) as Hst.
  rewrite Hrun in Hfin, Hst; simpl in Hfin, Hst.
  split; [exact Hfin |]. rewrite (finished_total_steps _ Hfin) in Hst. lia.
Qed.

(* a schedule that suffices always exists: round after round, or thread after thread *)
Lemma count_occ_repeat_other : forall (t u n : nat), t <> u -> count_occ Nat.eq_dec (repeat t n) u = 0.
Proof. intros t u n Hne; induction n as [| n IH]; simpl; [reflexivity |]. destruct (Nat.eq_dec t u); [contradiction | exact IH]. Qed.
Lemma count_occ_repeat_same : forall (t n : nat), count_occ Nat.eq_dec (repeat t n) t = n.
Proof. intros t n; induction n as [| n IH]; simpl; [reflexivity |]. destruct (Nat.eq_dec t t); [rewrite IH; reflexivity | contradiction]. Qed.

Lemma one_by_one_count : forall ths t u, u < length ths ->
  length (nth u ths []) <= count_occ Nat.eq_dec (one_by_one t ths) (t + u).
Proof.
  intros ths; induction ths as [| th ths IH]; intros t u Hu; simpl in *; [lia |].
  rewrite count_occ_app. destruct u as [| u].
  - rewrite Nat.add_0_r, count_occ_repeat_same. lia.
  - specialize (IH (S t) u ltac:(lia)). replace (t + S u) with (S t + u) by lia. lia.
Qed.

Lemma one_by_one_enough : forall ths, enough (one_by_one 0 ths) ths.
Proof. intros ths u Hu. exact (one_by_one_count ths 0 u Hu). Qed.

(* ---------- 4. frame ---------- *)
Lemma mem_after_ext : forall th m m', cells_eq m m' -> cells_eq (mem_after th m) (mem_after th m').
Proof. intros th; induction th as [| s th IH]; intros m m' H; simpl; [exact H |]. apply IH, step_mem_ext, H. Qed.

Lemma mem_after_commute_step : forall th s m,
  ~ In (step_cell s) (footprint th) ->
  cells_eq (mem_after th (step_mem s m)) (step_mem s (mem_after th m)).
Proof.
  intros th; induction th as [| s' th IH]; intros s m Hni; simpl; [apply cells_eq_refl |].
  simpl in Hni. eapply cells_eq_trans.
  - apply mem_after_ext. apply step_commute. intro E; apply Hni; left; exact E.
  - apply IH. intro Hin; apply Hni; right; exact Hin.
Qed.

Lemma mem_after_all_ext : forall ths m m', cells_eq m m' -> cells_eq (mem_after_all ths m) (mem_after_all ths m').
Proof. intros ths; induction ths as [| th ths IH]; intros m m' H; simpl; [exact H |]. apply IH, mem_after_ext, H. Qed.

Lemma disjoint_sym : forall a b, disjoint a b -> disjoint b a.
Proof. intros a b H c H1 H2. exact (H c H2 H1). Qed.

Lemma disjoint_tail_r : forall a s rest, disjoint a (s :: rest) -> disjoint a rest.
Proof. intros a s rest H c H1 H2. apply (H c H1). simpl. right; exact H2. Qed.
Lemma disjoint_tail_l : forall a s rest, disjoint (s :: rest) a -> disjoint rest a.
Proof. intros a s rest H. apply disjoint_sym, (disjoint_tail_r a s), disjoint_sym, H. Qed.

Lemma pairwise_set_nth : forall ths t s rest,
  pairwise_disjoint ths -> nth_error ths t = Some (s :: rest) ->
  pairwise_disjoint (set_nth t rest ths).
Proof.
  intros ths; induction ths as [| th ths IH]; intros [| t] s rest Hp Hn; simpl in *; try discriminate;
    destruct Hp as [Hf Hp].
  - inversion Hn; subst. split; [| exact Hp].
    eapply Forall_impl; [| exact Hf]. intros a Ha. eapply disjoint_tail_l; exact Ha.
  - split; [| eapply IH; eassumption].
    apply Forall_set_nth; [exact Hf |].
    rewrite Forall_forall in Hf. eapply disjoint_tail_r. apply Hf. eapply nth_error_In; exact Hn.
Qed.

Lemma pairwise_nth : forall ths t u a b,
  pairwise_disjoint ths -> t <> u ->
  nth_error ths t = Some a -> nth_error ths u = Some b -> disjoint a b.
Proof.
  intros ths; induction ths as [| th ths IH]; intros [| t] [| u] a b Hp Hne Ha Hb; simpl in *;
    try discriminate; try congruence; destruct Hp as [Hf Hp]; rewrite Forall_forall in Hf.
  - inversion Ha; subst. apply Hf. eapply nth_error_In; exact Hb.
  - inversion Hb; subst. apply disjoint_sym, Hf. eapply nth_error_In; exact Ha.
  - eapply (IH t u); eauto.
Qed.

Lemma pick_preserves_all : forall ths t s rest m,
  pairwise_disjoint ths -> nth_error ths t = Some (s :: rest) ->
  cells_eq (mem_after_all (set_nth t rest ths) (step_mem s m)) (mem_after_all ths m).
Proof.
  intros ths; induction ths as [| th ths IH]; intros [| t] s rest m Hp Hn; simpl in *; try discriminate;
    destruct Hp as [Hf Hp].
  - inversion Hn; subst. simpl. apply cells_eq_refl.
  - eapply cells_eq_trans.
    + apply mem_after_all_ext. apply mem_after_commute_step.
      rewrite Forall_forall in Hf. intro Hin.
      apply (Hf (s :: rest) (nth_error_In _ _ Hn) (step_cell s) Hin). simpl. left; reflexivity.
    + apply IH; assumption.
Qed.

Lemma frame_inv : forall sched m ths m' ths' tr,
  pairwise_disjoint ths -> run sched (m, ths) = ((m', ths'), tr) ->
  cells_eq (mem_after_all ths' m') (mem_after_all ths m) /\ pairwise_disjoint ths'.
Proof.
  intros sched m ths m' ths' tr Hp Hrun.
  pose (P := fun cfg : config =>
    cells_eq (mem_after_all (snd cfg) (fst cfg)) (mem_after_all ths m) /\ pairwise_disjoint (snd cfg)).
  assert (HP : P (fst (run sched (m, ths)))).
  { apply run_invariant.
    - intros t [m1 ths1] cfg' e [Heq Hpd] Hpk. apply pick_inv in Hpk as [s [rest [Hn [E _]]]]. subst cfg'.
      unfold P in *; simpl in *. split.
      + eapply cells_eq_trans; [apply pick_preserves_all; eassumption | exact Heq].
      + eapply pairwise_set_nth; eassumption.
    - unfold P; simpl. split; [apply cells_eq_refl | exact Hp]. }
  rewrite Hrun in HP. exact HP.
Qed.

Lemma mem_after_all_finished : forall ths m, finished ths -> mem_after_all ths m = m.
Proof. intros ths m H; revert m; induction H as [| th ths E _ IH]; intros m; simpl; [reflexivity |]. subst th. apply IH. Qed.

Lemma disjoint_commute : forall sched m ths m' ths' tr,
  pairwise_disjoint ths -> run sched (m, ths) = ((m', ths'), tr) -> finished ths' ->
  cells_eq m' (mem_after_all ths m).
Proof.
  intros sched m ths m' ths' tr Hp Hrun Hfin.
  destruct (frame_inv _ _ _ _ _ _ Hp Hrun) as [H _].
  rewrite (mem_after_all_finished _ _ Hfin) in H. exact H.
Qed.

(* hence any two complete schedules agree *)
Lemma disjoint_schedule_independent : forall s1 s2 m ths m1 ths1 tr1 m2 ths2 tr2,
  pairwise_disjoint ths ->
  run s1 (m, ths) = ((m1, ths1), tr1) -> finished ths1 ->
  run s2 (m, ths) = ((m2, ths2), tr2) -> finished ths2 ->
  cells_eq m1 m2.
Proof.
  intros s1 s2 m ths m1 ths1 tr1 m2 ths2 tr2 Hp H1 F1 H2 F2.
  eapply cells_eq_trans; [eapply disjoint_commute; eassumption |].
  apply cells_eq_sym. eapply disjoint_commute; eassumption.
Qed.

Lemma mem_after_commute_thread : forall b a m,
  disjoint a b -> cells_eq (mem_after a (mem_after b m)) (mem_after b (mem_after a m)).
Proof.
  intros b; induction b as [| s b IH]; intros a m Hd; simpl; [apply cells_eq_refl |].
  eapply cells_eq_trans; [apply IH; eapply disjoint_tail_r; exact Hd |].
  apply mem_after_ext. apply mem_after_commute_step.
  intro Hin. apply (Hd (step_cell s) Hin). simpl; left; reflexivity.
Qed.

Lemma disjoint_commute2 : forall sched m a b m' ths' tr,
  disjoint a b -> run sched (m, [a; b]) = ((m', ths'), tr) -> finished ths' ->
  cells_eq m' (mem_after b (mem_after a m)) /\ cells_eq m' (mem_after a (mem_after b m)).
Proof.
  intros sched m a b m' ths' tr Hd Hrun Hfin.
  assert (Hp : pairwise_disjoint [a; b]) by (simpl; repeat split; auto).
  pose proof (disjoint_commute _ _ _ _ _ _ Hp Hrun Hfin) as H. simpl in H.
  split; [exact H |]. eapply cells_eq_trans; [exact H |].
  apply cells_eq_sym, mem_after_commute_thread, Hd.
Qed.

(* what a thread observes *)
Lemma step_ev_agree : forall t s m m', get (step_cell s) m = get (step_cell s) m' -> step_ev t s m = step_ev t s m'.
Proof. intros t [c f | c | c v] m m' H; simpl in *; rewrite ?H; reflexivity. Qed.

Lemma seq_trace_agree : forall t th m m',
  (forall c, In c (footprint th) -> get c m = get c m') -> seq_trace t th m = seq_trace t th m'.
Proof.
  intros t th; induction th as [| s th IH]; intros m m' H; simpl; [reflexivity |].
  f_equal.
  - apply step_ev_agree. apply H. simpl; left; reflexivity.
  - apply IH. intros c Hc. rewrite !get_step_mem.
    destruct (Nat.eqb_spec c (step_cell s)) as [E | E].
    + rewrite (H c); [reflexivity | simpl; left; congruence].
    + apply H. simpl; right; exact Hc.
Qed.

Lemma seq_trace_frame : forall t th s m,
  ~ In (step_cell s) (footprint th) -> seq_trace t th (step_mem s m) = seq_trace t th m.
Proof.
  intros t th s m Hni. apply seq_trace_agree. intros c Hc. apply step_mem_other.
  intro E; subst c; contradiction.
Qed.

Lemma ev_thread_step_ev : forall t s m, ev_thread (step_ev t s m) = t.
Proof. intros t [c f | c | c v] m; reflexivity. Qed.

Lemma frame_reads_inv : forall sched m ths m' ths' tr t,
  pairwise_disjoint ths -> run sched (m, ths) = ((m', ths'), tr) ->
  proj t tr ++ seq_trace t (nth t ths' []) m' = seq_trace t (nth t ths []) m.
Proof.
  intros sched; induction sched as [| u sched IH]; intros m ths m' ths' tr t Hp Hrun; simpl in Hrun.
  - inversion Hrun; subst. reflexivity.
  - destruct (pick u (m, ths)) as [[cfg' e] |] eqn:Ep; [| eapply IH; eassumption].
    apply pick_inv in Ep as [s [rest [Hn [E1 E2]]]]. subst cfg' e.
    destruct (run sched (step_mem s m, set_nth u rest ths)) as [cfg'' es] eqn:Er.
    inversion Hrun; subst cfg'' tr.
    pose proof (pairwise_set_nth _ _ _ _ Hp Hn) as Hp'.
    specialize (IH _ _ _ _ _ t Hp' Er).
    unfold proj in *. simpl filter. rewrite ev_thread_step_ev.
    destruct (Nat.eqb_spec u t) as [E | E].
    + subst u. simpl. rewrite IH.
      rewrite nth_set_nth_same by (eapply nth_error_lt; exact Hn).
      rewrite (nth_error_nth' _ _ _ _ [] Hn). reflexivity.
    + rewrite IH. rewrite nth_set_nth_other by congruence.
      destruct (nth_error ths t) as [a |] eqn:Ea.
      * rewrite (nth_error_nth' _ _ _ _ [] Ea). apply seq_trace_frame.
        intro Hin. apply (pairwise_nth _ _ _ _ _ Hp (not_eq_sym E) Ea Hn (step_cell s) Hin).
        simpl; left; reflexivity.
      * rewrite (nth_overflow ths []) by (apply nth_error_None; exact Ea). reflexivity.
Qed.

Lemma frame_reads : forall sched m ths m' ths' tr t,
  pairwise_disjoint ths -> run sched (m, ths) = ((m', ths'), tr) -> finished ths' ->
  proj t tr = seq_trace t (nth t ths []) m.
Proof.
  intros sched m ths m' ths' tr t Hp Hrun Hfin.
  rewrite <- (frame_reads_inv _ _ _ _ _ _ t Hp Hrun).
  assert (E : nth t ths' [] = []).
  { destruct (nth_in_or_default t ths' []) as [Hin | E]; [| exact E].
    unfold finished in Hfin. rewrite Forall_forall in Hfin. apply Hfin; exact Hin. }
  rewrite E. simpl. rewrite app_nil_r. reflexivity.
Qed.

(* ---------- 5. the trace is a legal linear history ---------- *)
Lemma apply_step_ev : forall t s m, apply_ev (step_ev t s m) m = step_mem s m.
Proof. intros t [c f | c | c v] m; reflexivity. Qed.

Lemma run_legal : forall sched m ths m' ths' tr,
  run sched (m, ths) = ((m', ths'), tr) -> legal m tr /\ replay m tr = m'.
Proof.
  intros sched; induction sched as [| u sched IH]; intros m ths m' ths' tr Hrun; simpl in Hrun.
  - inversion Hrun; subst. simpl. auto.
  - destruct (pick u (m, ths)) as [[cfg' e] |] eqn:Ep; [| eapply IH; eassumption].
    apply pick_inv in Ep as [s [rest [Hn [E1 E2]]]]. subst cfg' e.
    destruct (run sched (step_mem s m, set_nth u rest ths)) as [cfg'' es] eqn:Er.
    inversion Hrun; subst cfg'' tr.
    destruct (IH _ _ _ _ _ Er) as [Hl Hr]. simpl. rewrite apply_step_ev.
    split; [split; [destruct s; simpl; auto | exact Hl] | exact Hr].
Qed.

Lemma legal_read : forall pre m t c v post,
  legal m (pre ++ EvRead t c v :: post) -> v = get c (replay m pre).
Proof.
  intros pre; induction pre as [| e pre IH]; intros m t c v post Hl; simpl in *.
  - destruct Hl as [H _]; exact H.
  - destruct Hl as [_ Hl]. eapply IH; exact Hl.
Qed.

Lemma legal_rmw : forall pre m t c old new post,
  legal m (pre ++ EvRmw t c old new :: post) -> old = get c (replay m pre).
Proof.
  intros pre; induction pre as [| e pre IH]; intros m t c old new post Hl; simpl in *.
  - destruct Hl as [H _]; exact H.
  - destruct Hl as [_ Hl]. eapply IH; exact Hl.
Qed.

Lemma reads_see_a_linearised_value : forall sched m ths m' ths' pre t c v post,
  run sched (m, ths) = ((m', ths'), pre ++ EvRead t c v :: post) ->
  v = get c (replay m pre).
Proof.
  intros sched m ths m' ths' pre t c v post Hrun.
  destruct (run_legal _ _ _ _ _ _ Hrun) as [Hl _]. eapply legal_read; exact Hl.
Qed.

Lemma rmw_reads_latest : forall sched m ths m' ths' pre t c old new post,
  run sched (m, ths) = ((m', ths'), pre ++ EvRmw t c old new :: post) ->
  old = get c (replay m pre).
Proof.
  intros sched m ths m' ths' pre t c old new post Hrun.
  destruct (run_legal _ _ _ _ _ _ Hrun) as [Hl _]. eapply legal_rmw; exact Hl.
Qed.

Lemma reads_in_history : forall sched m ths m' ths' tr t c v,
  run sched (m, ths) = ((m', ths'), tr) -> In (EvRead t c v) tr ->
  exists pre post, tr = pre ++ EvRead t c v :: post /\ v = get c (replay m pre).
Proof.
  intros sched m ths m' ths' tr t c v Hrun Hin.
  destruct (in_split _ _ Hin) as [pre [post E]]. subst tr.
  exists pre, post. split; [reflexivity |]. eapply reads_see_a_linearised_value; exact Hrun.
Qed.

(* ---------- 2. the broken discipline loses updates ---------- *)
Lemma split_rmw_lost : forall init,
  brun [0; 1; 0; 1] ([init], [(0%Z, split_incr 0); (0%Z, split_incr 0)])
  = ([(init + 1)%Z], [(init, []); (init, [])]).
Proof. intros init. reflexivity. Qed.

Lemma split_rmw_sequential : forall init,
  brun [0; 0; 1; 1] ([init], [(0%Z, split_incr 0); (0%Z, split_incr 0)])
  = ([(init + 1 + 1)%Z], [(init, []); ((init + 1)%Z, [])]).
Proof. intros init. reflexivity. Qed.

Lemma split_rmw_refuted : forall init,
  exists sched m' ths',
    brun sched ([init], [(0%Z, split_incr 0); (0%Z, split_incr 0)]) = (m', ths') /\
    Forall (fun th => snd th = []) ths' /\
    get 0 m' = (init + 1)%Z /\ get 0 m' <> (init + 2)%Z.
Proof.
  intros init. exists [0; 1; 0; 1], [(init + 1)%Z], [(init, []); (init, [])].
  split; [apply split_rmw_lost |]. split; [repeat constructor |].
  unfold get; simpl. split; [reflexivity | lia].
Qed.

(* the same two increments as atomic steps: init + 2 under every schedule *)
Lemma atomic_two : forall init sched m' ths' tr,
  run sched ([init], [[incr 0]; [incr 0]]) = ((m', ths'), tr) -> finished ths' ->
  get 0 m' = (init + 2)%Z.
Proof.
  intros init sched m' ths' tr Hrun Hfin.
  pose proof (rmw_counts 0 2 1 sched [init] m' ths' tr Hrun Hfin) as H. exact H.
Qed.

(* Lemmas about Model/Ty.v *)
From SSL.Model Require Import Base Ty.

Lemma matches_never_l b : matches TNever b = true.
Proof. unfold matches. cbn [size Nat.add matches_f]. reflexivity. Qed.

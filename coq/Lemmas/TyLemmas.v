(* Lemmas about Model/Ty.v — umbrella file.
   TyFuel    : sizes, list extensionality, fuel irrelevance, *_unfold equations
   TyEq      : ty_eqb is an equivalence; keys_ok
   TyMatches : matches is a preorder with bottom/top, variance equations
   TyJoin    : concat is the join, conjoin a lower bound; wf preservation
   TyQuery   : the Option-returning queries preserve wf_ty
   TyCompat  : concat respects ty_eqb; commutative / associative up to ty_eqb *)
From SSL.Model Require Import Base Ty.
From SSL.Lemmas Require Export TyFuel TyEq TyMatches TyJoin TyQuery TyCompat.

(* [matches_never_l] lives in TyMatches and is re-exported here. *)
Definition matches_never_l_reexport : forall b, matches TNever b = true := matches_never_l.

(* RecrSyn.v — syntactic facts about [recreate], for ANY creating scopes:
     [rec_same_env]   an instruction in expression position leaves the environment alone;
     [rec_noconst]    the result never is a local-variable node carrying a constant (nor a
                      tuple literal with such a component);
     [rec_list_consts] constants are left as they are;
   and the size measure [isize] unfolded. *)
From SSL.Model Require Import Base Ty Float Value Ops Seq Syntax Rt Recreate Exec Check.
From SSL.Lemmas Require Import ExecLemmas FoldLemmas RecrUnfold RecrMono RecrDefs RecrKeeps RecrSim1.

Arguments matches : simpl never.
Local Open Scope Z_scope.

(* ---- sizes ---- *)
Lemma isize_pos i : (1 <= isize i)%nat.
Proof. destruct i; cbn [isize]; lia. Qed.

Lemma list_isize_cons x l : list_isize (x :: l) = (isize x + list_isize l)%nat.
Proof. reflexivity. Qed.

Lemma isize_ls l :
  (fix ls (l : list instr) : nat := match l with [] => 0%nat | x :: l => (isize x + ls l)%nat end) l
  = list_isize l.
Proof. induction l as [|x l IH]; [reflexivity|]. cbn [list_isize]. rewrite <- IH. reflexivity. Qed.

Lemma isize_IBlock b : isize (IBlock b) = S (list_isize b).
Proof. cbn [isize]. rewrite isize_ls. reflexivity. Qed.
Lemma isize_IArray b t : isize (IArray b t) = S (list_isize b).
Proof. cbn [isize]. rewrite isize_ls. reflexivity. Qed.
Lemma isize_ITuple b : isize (ITuple b) = S (list_isize b).
Proof. cbn [isize]. rewrite isize_ls. reflexivity. Qed.
Lemma isize_IAnonFn ps b r : isize (IAnonFn ps b r) = S (list_isize b).
Proof. cbn [isize]. rewrite isize_ls. reflexivity. Qed.
Lemma isize_IFnDecl n ps b r : isize (IFnDecl n ps b r) = S (list_isize b).
Proof. cbn [isize]. rewrite isize_ls. reflexivity. Qed.

Definition opt_isize (o : option instr) : nat := match o with None => 0%nat | Some x => isize x end.
Lemma isize_ISlicing l a b c :
  isize (ISlicing l a b c) = S (isize l + opt_isize a + opt_isize b + opt_isize c).
Proof. reflexivity. Qed.

Fixpoint fields_isize (l : list (name * instr)) : nat :=
  match l with [] => 0%nat | (_, x) :: l => (isize x + fields_isize l)%nat end.
Lemma isize_IStruct fs : isize (IStruct fs) = S (fields_isize fs).
Proof.
  reflexivity.
Qed.

Definition arm_isize (a : arm) : nat :=
  match a with
  | ArmType _ _ b | ArmOther b => S (isize b)
  | ArmValue vs b => S (list_isize vs + isize b)
  end.
Fixpoint arms_isize (l : list arm) : nat :=
  match l with [] => 0%nat | a :: l => (arm_isize a + arms_isize l)%nat end.
Lemma isize_IMatch x arms : isize (IMatch x arms) = S (isize x + arms_isize arms).
Proof.
  cbn [isize]. f_equal. f_equal. induction arms as [|a arms IH]; [reflexivity|].
  cbn [arms_isize]. rewrite <- IH. destruct a; cbn [arm_isize]; rewrite ?isize_ls; reflexivity.
Qed.

Section Syn.
Variable powf : fbits -> fbits -> fbits.
Variable sc : scopes.
Variable cl : bool.
Notation RC f := (recreate powf f sc).

(* ================================================================= *)
(* expressions leave the environment alone                            *)
(* ================================================================= *)
Definition same_env (f : nat) : Prop := forall e i i' e',
  RC f e i = Ok (i', e') -> wfi cl false i = true -> e' = e.

Lemma same_env_list f (IH : same_env f) : forall l e l' e',
  rec_list_def (RC f) l e = Ok (l', e') -> forallb (wfi cl false) l = true -> e' = e.
Proof.
  induction l as [|x l IHl]; intros e l' e' H W; [injection H as _ <-; reflexivity|].
  cbn [rec_list_def] in H. fold (rec_list_def (RC f)) in H.
  inv_bind H p Hp. destruct p as [x' e1]. inv_bind H q Hq. destruct q as [l1 e2]. injection H as _ <-.
  cbn [forallb] in W. apply andb_true_iff in W. destruct W as [Wx Wl].
  rewrite (IHl _ _ _ Hq Wl). apply (IH _ _ _ _ Hp Wx).
Qed.

Lemma same_env_opt f (IH : same_env f) o e o' e' :
  rec_opt_def (RC f) o e = Ok (o', e') -> wf_opt cl o = true -> e' = e.
Proof.
  destruct o as [x|]; cbn [rec_opt_def]; intros H W; [|injection H as _ <-; reflexivity].
  inv_bind H p Hp. destruct p as [x' e1]. injection H as _ <-. apply (IH _ _ _ _ Hp W).
Qed.

Lemma same_env_fields f (IH : same_env f) : forall l e l' e',
  rec_fields_def (RC f) l e = Ok (l', e') ->
  forallb (fun kv => wfi cl false (snd kv)) l = true -> e' = e.
Proof.
  induction l as [|[k x] l IHl]; intros e l' e' H W; [injection H as _ <-; reflexivity|].
  cbn [rec_fields_def] in H. fold (rec_fields_def (RC f)) in H.
  inv_bind H p Hp. destruct p as [x' e1]. inv_bind H q Hq. destruct q as [l1 e2]. injection H as _ <-.
  cbn [forallb snd] in W. apply andb_true_iff in W. destruct W as [Wx Wl].
  rewrite (IHl _ _ _ Hq Wl). apply (IH _ _ _ _ Hp Wx).
Qed.

Lemma same_env_arm f (IH : same_env f) a e a' e' :
  rec_arm_def (RC f) a e = Ok (a', e') -> wf_arm cl a = true -> e' = e.
Proof.
  destruct a as [n t b|cs b|b]; cbn [rec_arm_def wf_arm]; intros H W.
  - inv_bind H p Hp. destruct p. injection H as _ <-. reflexivity.
  - inv_bind H p Hp. destruct p as [cs' e1]. inv_bind H q Hq. destruct q as [b' e2]. injection H as _ <-.
    apply andb_true_iff in W. destruct W as [Wc Wb].
    rewrite (IH _ _ _ _ Hq Wb). apply (same_env_list f IH _ _ _ _ Hp Wc).
  - inv_bind H p Hp. destruct p as [b' e1]. injection H as _ <-. apply (IH _ _ _ _ Hp W).
Qed.

Lemma same_env_arms f (IH : same_env f) : forall l e l' e',
  rec_arms_def (RC f) l e = Ok (l', e') -> forallb (wf_arm cl) l = true -> e' = e.
Proof.
  induction l as [|a l IHl]; intros e l' e' H W; [injection H as _ <-; reflexivity|].
  cbn [rec_arms_def] in H. fold (rec_arms_def (RC f)) in H.
  inv_bind H p Hp. destruct p as [a' e1]. inv_bind H q Hq. destruct q as [l1 e2]. injection H as _ <-.
  cbn [forallb] in W. apply andb_true_iff in W. destruct W as [Wa Wl].
  rewrite (IHl _ _ _ Hq Wl). apply (same_env_arm f IH _ _ _ _ Hp Wa).
Qed.

Lemma same_env_S f : same_env f -> same_env (S f).
Proof.
  intros IH e i i' e' H W.
  destruct i; cbn [wfi] in W; repeat rewrite andb_true_iff in W.
  - rewrite recreate_S_IAnonFn in H. inv_bind H p Hp. destruct p. injection H as _ <-. reflexivity.
  - rewrite recreate_S_IArray in H. inv_bind H p Hp. destruct p as [es' e1].
    pose proof (same_env_list f IH _ _ _ _ Hp W) as ->.
    destruct (all_vars es'); injection H as _ <-; reflexivity.
  - destruct W as [Wa Wb]. rewrite recreate_S_IArrayRepeat in H.
    inv_bind H p Hp. destruct p as [v' e1]. inv_bind H q Hq. destruct q as [l' e2].
    inv_bind H r Hr. injection H as _ <-. rewrite (IH _ _ _ _ Hq Wb). apply (IH _ _ _ _ Hp Wa).
  - rewrite recreate_S_IBlock in H. inv_bind H p Hp. destruct p. injection H as _ <-. reflexivity.
  - rewrite recreate_S_IBreak in H. injection H as _ <-. reflexivity.
  - rewrite recreate_S_IContinue in H. injection H as _ <-. reflexivity.
  - destruct W as [C _]. discriminate C.
  - rewrite recreate_S_IFieldAccess in H. inv_bind H p Hp. destruct p as [x' e1]. injection H as _ <-.
    apply (IH _ _ _ _ Hp W).
  - destruct W as [[C _] _]. discriminate C.
  - destruct W as [[Wc Wt] Wf]. rewrite recreate_S_IIfElse in H.
    inv_bind H p Hp. destruct p as [c' e1]. pose proof (IH _ _ _ _ Hp Wc) as ->.
    assert (G : forall H' : obind (RC f e i2) (fun '(t', e) => obind (RC f e i3) (fun '(f', e0) =>
                  Ok (IIfElse c' t' f', e0))) = Ok (i', e'), e' = e).
    { intros H'. inv_bind H' q Hq. destruct q as [t' e2]. inv_bind H' r Hr. destruct r as [f' e3].
      injection H' as _ <-. rewrite (IH _ _ _ _ Hr Wf). apply (IH _ _ _ _ Hq Wt). }
    destruct c'; try exact (G H). destruct v; try exact (G H).
    destruct b; [apply (IH _ _ _ _ H Wt)|apply (IH _ _ _ _ H Wf)].
  - rewrite recreate_S_ILocal in H. inv_bind H r Hr. injection H as _ <-. reflexivity.
  - rewrite recreate_S_ILoop in H. inv_bind H p Hp. destruct p as [b' e1]. injection H as _ <-.
    apply (IH _ _ _ _ Hp W).
  - destruct W as [Wx Wa]. rewrite recreate_S_IMatch in H.
    inv_bind H p Hp. destruct p as [x' e1]. inv_bind H q Hq. destruct q as [arms' e2]. injection H as _ <-.
    rewrite (same_env_arms f IH _ _ _ _ Hq Wa). apply (IH _ _ _ _ Hp Wx).
  - rewrite recreate_S_IMut in H. inv_bind H p Hp. destruct p as [x' e1]. injection H as _ <-.
    apply (IH _ _ _ _ Hp W).
  - destruct W as [[Wa Wb] Wc].
    change (RC (S f) e (IReduce i1 i2 i3)) with
      (obind (RC f e i1) (fun '(it', e) => obind (RC f e i2) (fun '(init', e) =>
       obind (RC f e i3) (fun '(f', e) => Ok (IReduce it' init' f', e))))) in H.
    inv_bind H p Hp. destruct p as [a' e1]. inv_bind H q Hq. destruct q as [b' e2].
    inv_bind H r Hr. destruct r as [c' e3]. injection H as _ <-.
    rewrite (IH _ _ _ _ Hr Wc), (IH _ _ _ _ Hq Wb). apply (IH _ _ _ _ Hp Wa).
  - destruct W as [C _]. discriminate C.
  - destruct W as [[Wx Wa] Wb]. rewrite recreate_S_ISetIfElse in H.
    inv_bind H p Hp. destruct p as [x' e1]. inv_bind H q Hq. destruct q as [a' e2].
    inv_bind H r Hr. destruct r as [b' e3]. injection H as _ <-.
    rewrite (IH _ _ _ _ Hr Wb). apply (IH _ _ _ _ Hp Wx).
  - destruct W as [[[Wl Wa] Wb] Wc]. rewrite recreate_S_ISlicing in H.
    inv_bind H p Hp. destruct p as [l' e1]. inv_bind H qa Ha. destruct qa as [a' e2].
    inv_bind H qb Hb. destruct qb as [b' e3]. inv_bind H qc Hc. destruct qc as [c' e4]. injection H as _ <-.
    rewrite (same_env_opt f IH _ _ _ _ Hc Wc), (same_env_opt f IH _ _ _ _ Hb Wb),
      (same_env_opt f IH _ _ _ _ Ha Wa). apply (IH _ _ _ _ Hp Wl).
  - rewrite recreate_S_IStruct in H. inv_bind H p Hp. destruct p as [fs' e1]. injection H as _ <-.
    apply (same_env_fields f IH _ _ _ _ Hp W).
  - rewrite recreate_S_ITuple in H. inv_bind H p Hp. destruct p as [es' e1].
    pose proof (same_env_list f IH _ _ _ _ Hp W) as ->.
    destruct (all_vars es'); injection H as _ <-; reflexivity.
  - rewrite recreate_S_ITupleAccess in H. inv_bind H p Hp. destruct p as [x' e1]. injection H as _ <-.
    apply (IH _ _ _ _ Hp W).
  - change (RC (S f) e (ITypeFilter i t)) with
      (obind (RC f e i) (fun '(x', e) => Ok (ITypeFilter x' t, e))) in H.
    inv_bind H p Hp. destruct p as [x' e1]. injection H as _ <-. apply (IH _ _ _ _ Hp W).
  - rewrite recreate_S_IVar in H. injection H as _ <-. reflexivity.
  - destruct W as [Wa Wb].
    destruct (binop_eq_dec op And) as [->|NA].
    { rewrite recreate_S_And in H. inv_bind H p Hp. destruct p as [l' e1].
      pose proof (IH _ _ _ _ Hp Wa) as ->.
      assert (G : forall H' : obind (RC f e i2) (fun '(r', e) => Ok (IBin And l' r', e)) = Ok (i', e'), e' = e).
      { intros H'. inv_bind H' q Hq. destruct q as [r' e2]. injection H' as _ <-. apply (IH _ _ _ _ Hq Wb). }
      destruct l'; try exact (G H). destruct v; try (injection H as _ <-; reflexivity).
      destruct b; [apply (IH _ _ _ _ H Wb)|injection H as _ <-; reflexivity]. }
    destruct (binop_eq_dec op Or) as [->|NO].
    { rewrite recreate_S_Or in H. inv_bind H p Hp. destruct p as [l' e1].
      pose proof (IH _ _ _ _ Hp Wa) as ->.
      assert (G : forall H' : obind (RC f e i2) (fun '(r', e) => Ok (IBin Or l' r', e)) = Ok (i', e'), e' = e).
      { intros H'. inv_bind H' q Hq. destruct q as [r' e2]. injection H' as _ <-. apply (IH _ _ _ _ Hq Wb). }
      destruct l'; try exact (G H). destruct v; try apply (IH _ _ _ _ H Wb).
      destruct b; [injection H as _ <-; reflexivity|apply (IH _ _ _ _ H Wb)]. }
    rewrite recreate_S_IBin in H by assumption.
    inv_bind H p Hp. destruct p as [l' e1]. inv_bind H q Hq. destruct q as [r' e2].
    inv_bind H x Hx. injection H as _ <-. rewrite (IH _ _ _ _ Hq Wb). apply (IH _ _ _ _ Hp Wa).
  - destruct W as [Wo Wx]. rewrite recreate_S_IUn in H.
    inv_bind H p Hp. destruct p as [x' e1]. inv_bind H r Hr. injection H as _ <-. apply (IH _ _ _ _ Hp Wx).
Qed.

Theorem rec_same_env : forall f, same_env f.
Proof.
  induction f as [|f IH]; [intros e i i' e' H; rewrite recreate_O in H; discriminate H|].
  apply same_env_S. exact IH.
Qed.

(* ================================================================= *)
(* no local-variable node carrying a constant at the top of a result  *)
(* ================================================================= *)
Definition ncres (f : nat) : Prop := forall e i i' e', RC f e i = Ok (i', e') -> noconst i'.

Lemma ncres_list f (IH : ncres f) : forall l e l' e',
  rec_list_def (RC f) l e = Ok (l', e') -> Forall nc1 l'.
Proof.
  induction l as [|x l IHl]; intros e l' e' H; [injection H as <- _; constructor|].
  cbn [rec_list_def] in H. fold (rec_list_def (RC f)) in H.
  inv_bind H p Hp. destruct p as [x' e1]. inv_bind H q Hq. destruct q as [l1 e2]. injection H as <- _.
  constructor; [apply (IH _ _ _ _ Hp)|apply (IHl _ _ _ Hq)].
Qed.

Lemma ncres_S f : ncres f -> ncres (S f).
Proof.
  intros IH e i i' e' H. destruct i.
  - rewrite recreate_S_IAnonFn in H. inv_bind H p Hp. destruct p. injection H as <- _. nc.
  - rewrite recreate_S_IArray in H. inv_bind H p Hp. destruct p as [es' e1].
    destruct (all_vars es'); injection H as <- _; nc.
  - rewrite recreate_S_IArrayRepeat in H.
    inv_bind H p Hp. destruct p as [v' e1]. inv_bind H q Hq. destruct q as [l' e2].
    inv_bind H r Hr. injection H as <- _.
    destruct (fold_repeat_cases _ _ _ Hr) as [[x [n [_ [_ [_ ->]]]]]| ->]; nc.
  - rewrite recreate_S_IBlock in H. inv_bind H p Hp. destruct p. injection H as <- _. nc.
  - rewrite recreate_S_IBreak in H. injection H as <- _. nc.
  - rewrite recreate_S_IContinue in H. injection H as <- _. nc.
  - rewrite recreate_S_IDestruct in H. inv_bind H p Hp. destruct p as [x' e1].
    inv_bind H e2 He2. injection H as <- _. nc.
  - rewrite recreate_S_IFieldAccess in H. inv_bind H p Hp. destruct p. injection H as <- _. nc.
  - rewrite recreate_S_IFnDecl in H. inv_bind H p Hp. destruct p. injection H as <- _. nc.
  - rewrite recreate_S_IIfElse in H. inv_bind H p Hp. destruct p as [c' e1].
    assert (G : forall H' : obind (RC f e1 i2) (fun '(t', e) => obind (RC f e i3) (fun '(f', e0) =>
                  Ok (IIfElse c' t' f', e0))) = Ok (i', e'), noconst i').
    { intros H'. inv_bind H' q Hq. destruct q as [t' e2]. inv_bind H' r Hr. destruct r as [f' e3].
      injection H' as <- _. nc. }
    destruct c'; try exact (G H). destruct v; try exact (G H).
    destruct b; apply (IH _ _ _ _ H).
  - rewrite recreate_S_ILocal in H. unfold resolve_name in H.
    destruct (lenv_get n e) as [[ | | ]|]; cbn [obind] in H; try (injection H as <- _; nc).
    destruct (scopes_get n sc); cbn [obind] in H; [injection H as <- _; nc|discriminate H].
  - rewrite recreate_S_ILoop in H. inv_bind H p Hp. destruct p. injection H as <- _. nc.
  - rewrite recreate_S_IMatch in H. inv_bind H p Hp. destruct p as [x' e1].
    inv_bind H q Hq. destruct q. injection H as <- _. nc.
  - rewrite recreate_S_IMut in H. inv_bind H p Hp. destruct p. injection H as <- _. nc.
  - change (RC (S f) e (IReduce i1 i2 i3)) with
      (obind (RC f e i1) (fun '(it', e) => obind (RC f e i2) (fun '(init', e) =>
       obind (RC f e i3) (fun '(f', e) => Ok (IReduce it' init' f', e))))) in H.
    inv_bind H p Hp. destruct p as [a' e1]. inv_bind H q Hq. destruct q as [b' e2].
    inv_bind H r Hr. destruct r as [c' e3]. injection H as <- _. nc.
  - rewrite recreate_S_ISet in H. inv_bind H p Hp. destruct p as [x' e1].
    inv_bind H lv Hlv. injection H as <- _. nc.
  - rewrite recreate_S_ISetIfElse in H.
    inv_bind H p Hp. destruct p as [x' e1]. inv_bind H q Hq. destruct q as [a' e2].
    inv_bind H r Hr. destruct r as [b' e3]. injection H as <- _. nc.
  - rewrite recreate_S_ISlicing in H.
    inv_bind H p Hp. destruct p as [l' e1]. inv_bind H qa Ha. destruct qa as [a' e2].
    inv_bind H qb Hb. destruct qb as [b' e3]. inv_bind H qc Hc. destruct qc as [c' e4]. injection H as <- _. nc.
  - rewrite recreate_S_IStruct in H. inv_bind H p Hp. destruct p. injection H as <- _. nc.
  - rewrite recreate_S_ITuple in H. inv_bind H p Hp. destruct p as [es' e1].
    destruct (all_vars es'); injection H as <- _; [nc|].
    split; [exact I|apply (ncres_list f IH _ _ _ _ Hp)].
  - rewrite recreate_S_ITupleAccess in H. inv_bind H p Hp. destruct p. injection H as <- _. nc.
  - change (RC (S f) e (ITypeFilter i t)) with
      (obind (RC f e i) (fun '(x', e) => Ok (ITypeFilter x' t, e))) in H.
    inv_bind H p Hp. destruct p. injection H as <- _. nc.
  - rewrite recreate_S_IVar in H. injection H as <- _. nc.
  - destruct (binop_eq_dec op And) as [->|NA].
    { rewrite recreate_S_And in H. inv_bind H p Hp. destruct p as [l' e1].
      assert (G : forall H' : obind (RC f e1 i2) (fun '(r', e) => Ok (IBin And l' r', e)) = Ok (i', e'), noconst i').
      { intros H'. inv_bind H' q Hq. destruct q as [r' e2]. injection H' as <- _. nc. }
      destruct l'; try exact (G H). destruct v; try (injection H as <- _; nc).
      destruct b; [apply (IH _ _ _ _ H)|injection H as <- _; nc]. }
    destruct (binop_eq_dec op Or) as [->|NO].
    { rewrite recreate_S_Or in H. inv_bind H p Hp. destruct p as [l' e1].
      assert (G : forall H' : obind (RC f e1 i2) (fun '(r', e) => Ok (IBin Or l' r', e)) = Ok (i', e'), noconst i').
      { intros H'. inv_bind H' q Hq. destruct q as [r' e2]. injection H' as <- _. nc. }
      destruct l'; try exact (G H). destruct v; try apply (IH _ _ _ _ H).
      destruct b; [injection H as <- _; nc|apply (IH _ _ _ _ H)]. }
    rewrite recreate_S_IBin in H by assumption.
    inv_bind H p Hp. destruct p as [l' e1]. inv_bind H q Hq. destruct q as [r' e2].
    inv_bind H x Hx. injection H as <- _.
    destruct (fold_bin_cases _ _ _ _ _ Hx) as [[a [b [v [_ [_ [_ [_ ->]]]]]]]| ->]; nc.
  - rewrite recreate_S_IUn in H. inv_bind H p Hp. destruct p as [x' e1].
    inv_bind H r Hr. injection H as <- _.
    destruct (fold_un_cases _ _ _ Hr) as [[v [w [_ [_ [_ ->]]]]]| ->]; nc.
Qed.

Theorem rec_noconst : forall f, ncres f.
Proof.
  induction f as [|f IH]; [intros e i i' e' H; rewrite recreate_O in H; discriminate H|].
  apply ncres_S. exact IH.
Qed.

(* ================================================================= *)
(* constants                                                          *)
(* ================================================================= *)
Lemma rec_const f e v : RC (S f) e (IVar v) = Ok (IVar v, e).
Proof. apply recreate_S_IVar. Qed.

Lemma rec_list_consts f vs e :
  rec_list_def (RC (S f)) (map IVar vs) e = Ok (map IVar vs, e).
Proof.
  induction vs as [|v vs IH]; [reflexivity|]. cbn [map rec_list_def]. fold (rec_list_def (RC (S f))).
  rewrite recreate_S_IVar. cbn [obind]. rewrite IH. reflexivity.
Qed.

Lemma all_vars_consts vs : all_vars (map IVar vs) = Some vs.
Proof.
  induction vs as [|v vs IH]; [reflexivity|]. cbn [map all_vars fold_right]. fold (all_vars (map IVar vs)).
  rewrite IH. reflexivity.
Qed.

(* a constant stays that constant, component by component *)
Lemma rec_list_keeps_consts f : forall l e l' e',
  rec_list_def (RC f) l e = Ok (l', e') ->
  Forall2 (fun x x' => forall v, x = IVar v -> x' = IVar v) l l'.
Proof.
  induction l as [|x l IHl]; intros e l' e' H; [injection H as <- _; constructor|].
  cbn [rec_list_def] in H. fold (rec_list_def (RC f)) in H.
  inv_bind H p Hp. destruct p as [x' e1]. inv_bind H q Hq. destruct q as [l1 e2]. injection H as <- _.
  constructor; [|apply (IHl _ _ _ Hq)].
  intros v ->. destruct f; [rewrite recreate_O in Hp; discriminate Hp|].
  rewrite recreate_S_IVar in Hp. injection Hp as <- _. reflexivity.
Qed.

End Syn.

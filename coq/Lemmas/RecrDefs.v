(* RecrDefs.v — vocabulary for the semantic-preservation theorem of the constant
   folding / propagation pass [recreate] (C04), and the generic simulation lemmas over
   the standalone helpers of [exec].

   [wfi cl ln i]   binder discipline of the INPUT instruction: `x := e`, `(a, b) := e` and
                   named function declarations occur only as LINES of a block (or of a
                   function body) (ln = true: a line position); cl = false forbids
                   closure creation.  One prefix operator is excluded: UFunctionCall (its
                   body runs in the caller's scopes; never built by the checker).
                   Implied by the typing judgement (RecrTyped).
   [dok i']        arity discipline of the OUTPUT: a destructuring whose right-hand side
                   is neither a constant nor a tuple literal has a static type that
                   flattens to at least as many components as there are names.
   [agree e sc]    the run-time scopes agree with the pass's environment: a name the
                   pass knows as the constant v is bound to v.
   [okr r]         a result that is neither SFuel (model fuel) nor SPanic.
   [sim1 ex sc x x']  under interpreter ex and scopes sc: whenever x finishes with an
                   [okr] result, x' gives literally the same result. *)
From SSL.Model Require Import Base Ty Float Value Ops Seq Syntax Rt Recreate Exec.
From SSL.Lemmas Require Import ExecLemmas RecrMono.

Arguments matches : simpl never.

(* ================================================================= *)
(* 1. predicates on instructions                                      *)
(* ================================================================= *)
Definition un_ok (u : unop) : bool :=
  match u with UFunctionCall => false | _ => true end.

Fixpoint wfi (cl ln : bool) (i : instr) {struct i} : bool :=
  let opt := fun (o : option instr) => match o with None => true | Some x => wfi cl false x end in
  match i with
  | IVar _ | ILocal _ _ | IBreak | IContinue => true
  | ITuple es | IArray es _ => forallb (wfi cl false) es
  | IArrayRepeat a b => wfi cl false a && wfi cl false b
  | IStruct fs => forallb (fun kv => wfi cl false (snd kv)) fs
  | ITupleAccess x _ | IFieldAccess x _ | IMut _ x | ITypeFilter x _ | ILoop x => wfi cl false x
  | ISlicing l a b c => wfi cl false l && opt a && opt b && opt c
  | IBin _ a b => wfi cl false a && wfi cl false b
  | IUn op x => un_ok op && wfi cl false x
  | IBlock body => forallb (wfi cl true) body
  | IIfElse c t f => wfi cl false c && wfi cl false t && wfi cl false f
  | ISetIfElse _ _ x a b => wfi cl false x && wfi cl false a && wfi cl false b
  | IReduce a b c => wfi cl false a && wfi cl false b && wfi cl false c
  | IMatch x arms =>
      wfi cl false x &&
      forallb (fun a => match a with
                        | ArmType _ _ b | ArmOther b => wfi cl false b
                        | ArmValue cs b => forallb (wfi cl false) cs && wfi cl false b
                        end) arms
  | ISet _ y | IDestruct _ y => ln && wfi cl false y
  | IFnDecl _ _ body _ => ln && cl && forallb (wfi cl true) body
  | IAnonFn _ body _ => cl && forallb (wfi cl true) body
  end.

Definition wf_opt (cl : bool) (o : option instr) : bool :=
  match o with None => true | Some x => wfi cl false x end.
Definition wf_arm (cl : bool) (a : arm) : bool :=
  match a with
  | ArmType _ _ b | ArmOther b => wfi cl false b
  | ArmValue cs b => forallb (wfi cl false) cs && wfi cl false b
  end.

Lemma wfi_line cl i : wfi cl false i = true -> wfi cl true i = true.
Proof. destruct i; cbn [wfi andb]; intros H; try exact H; discriminate H. Qed.

(* the static arity test of a destructuring *)
Definition dcond (ids : list name) (x : instr) : bool :=
  match x with
  | IVar _ | ITuple _ => true
  | _ => match rt x with
         | Ok t => match flatten_tuple t with
                   | Some ts => Nat.leb (length ids) (length ts)
                   | None => true
                   end
         | _ => true
         end
  end.

Fixpoint dok (i : instr) {struct i} : bool :=
  let opt := fun (o : option instr) => match o with None => true | Some x => dok x end in
  match i with
  | IVar _ | ILocal _ _ | IBreak | IContinue => true
  | ITuple es | IArray es _ | IBlock es | IAnonFn _ es _ | IFnDecl _ _ es _ => forallb dok es
  | IArrayRepeat a b | IBin _ a b => dok a && dok b
  | IStruct fs => forallb (fun kv => dok (snd kv)) fs
  | ITupleAccess x _ | IFieldAccess x _ | IMut _ x | ITypeFilter x _ | ILoop x
  | ISet _ x | IUn _ x => dok x
  | ISlicing l a b c => dok l && opt a && opt b && opt c
  | IIfElse a b c | ISetIfElse _ _ a b c | IReduce a b c => dok a && dok b && dok c
  | IMatch x arms =>
      dok x &&
      forallb (fun a => match a with
                        | ArmType _ _ b | ArmOther b => dok b
                        | ArmValue cs b => forallb dok cs && dok b
                        end) arms
  | IDestruct ids x => dcond ids x && dok x
  end.

Definition dok_opt (o : option instr) : bool := match o with None => true | Some x => dok x end.
Definition dok_arm (a : arm) : bool :=
  match a with
  | ArmType _ _ b | ArmOther b => dok b
  | ArmValue cs b => forallb dok cs && dok b
  end.

(* a local-variable node never carries a constant (at the top of the result, and at the
   top of the components of a tuple literal) *)
Definition nc1 (i : instr) : Prop :=
  match i with ILocal _ (LVariable _) => False | _ => True end.
Definition noconst (i : instr) : Prop :=
  nc1 i /\ match i with ITuple es => Forall nc1 es | _ => True end.

Ltac nc := first [exact I | split; exact I].

(* ================================================================= *)
(* 2. agreement of scopes with the pass's environment                 *)
(* ================================================================= *)
Definition agree (e : lenv) (sc : scopes) : Prop :=
  forall n v, lenv_get n e = Some (LVariable v) -> scopes_get n sc = Some v.

Lemma ident_eq_dec (a b : ident) : {a = b} + {a <> b}.
Proof.
  destruct (ident_eqb a b) eqn:E.
  - left. apply ident_eqb_true. exact E.
  - right. intros ->. rewrite ident_eqb_refl in E. discriminate E.
Qed.

Lemma assoc_filter_neq {V} k n (l : list (ident * V)) :
  ident_eqb k n = false ->
  assoc k (filter (fun kv => negb (ident_eqb n (fst kv))) l) = assoc k l.
Proof.
  intros Hk. induction l as [|[k' w] l IH]; [reflexivity|]. cbn [filter fst assoc].
  destruct (ident_eqb n k') eqn:E; cbn [negb].
  - apply ident_eqb_true in E. subst k'. rewrite Hk. exact IH.
  - cbn [assoc]. rewrite IH. reflexivity.
Qed.

Lemma lget_insert_same n lv e : lenv_get n (lenv_insert n lv e) = Some lv.
Proof.
  destruct e as [|l e]; cbn [lenv_insert lenv_get layer_insert l_vars assoc];
    rewrite ident_eqb_refl; reflexivity.
Qed.

Lemma lget_insert_other n m lv e :
  m <> n -> lenv_get m (lenv_insert n lv e) = lenv_get m e.
Proof.
  intros H. apply ident_eqb_neq in H.
  destruct e as [|l e]; cbn [lenv_insert lenv_get layer_insert l_vars assoc]; rewrite H.
  - reflexivity.
  - rewrite assoc_filter_neq by exact H. reflexivity.
Qed.

Lemma agree_push e sc : agree e sc -> agree (lenv_push e) ([] :: sc).
Proof. intros H n v Hn. exact (H n v Hn). Qed.

(* a new binding the pass knows nothing constant about *)
Lemma agree_insert_nonconst e sc n lv :
  (forall v, lv <> LVariable v) -> agree e sc -> agree (lenv_insert n lv e) sc.
Proof.
  intros NV H m v Hm. destruct (ident_eq_dec m n) as [->|Hne].
  - rewrite lget_insert_same in Hm. injection Hm as ->. exfalso. exact (NV v eq_refl).
  - rewrite lget_insert_other in Hm by exact Hne. exact (H m v Hm).
Qed.

Lemma agree_insert e sc n lv w :
  (forall v, lv = LVariable v -> v = w) -> agree e sc ->
  agree (lenv_insert n lv e) (scopes_insert n w sc).
Proof.
  intros Hv H m v Hm. destruct (ident_eq_dec m n) as [->|Hne].
  - rewrite lget_insert_same in Hm. injection Hm as ->.
    rewrite (Hv v eq_refl). apply scopes_get_insert_same.
  - rewrite lget_insert_other in Hm by exact Hne.
    rewrite scopes_get_insert_other by (intros C; apply Hne; symmetry; exact C). exact (H m v Hm).
Qed.

(* the layer of an if-set branch / a type arm *)
Lemma agree_bind_layer e sc n t v :
  agree e sc -> agree (lenv_insert n (LOther t) (lenv_push e)) ([(n, v)] :: sc).
Proof.
  intros H m w Hm. destruct (ident_eq_dec m n) as [->|Hne].
  - rewrite lget_insert_same in Hm. discriminate Hm.
  - rewrite lget_insert_other in Hm by exact Hne.
    cbn [scopes_get assoc]. rewrite (ident_eqb_neq _ _ Hne). exact (H m w Hm).
Qed.

(* ================================================================= *)
(* 3. results                                                         *)
(* ================================================================= *)
Definition okr (r : res) : Prop := sig r <> SFuel /\ sig r <> SPanic.
Definition okl (r : lres) : Prop := lsig r <> SFuel /\ lsig r <> SPanic.

Lemma okr_val st sc v : okr (st, sc, SVal v).
Proof. split; discriminate. Qed.
Lemma okr_fuel st sc : ~ okr (st, sc, SFuel).
Proof. intros [H _]. apply H. reflexivity. Qed.
Lemma okr_panic st sc : ~ okr (st, sc, SPanic).
Proof. intros [_ H]. apply H. reflexivity. Qed.

Lemma okr_not_fuel r : okr r -> sig r <> SFuel.
Proof. intros [H _]. exact H. Qed.

Section Generic.
Variable powf : fbits -> fbits -> fbits.
Variable pre : prelude.
Variable ex : store -> scopes -> instr -> res.

Definition keeps (x : instr) : Prop := forall st sc, scs (ex st sc x) = sc.

Definition sim1 (sc : scopes) (x x' : instr) : Prop :=
  forall st, okr (ex st sc x) -> ex st sc x' = ex st sc x.

Lemma sim1_refl sc x : sim1 sc x x.
Proof. intros st _. reflexivity. Qed.

(* destruct [ex st sc x] knowing x keeps the scopes *)
Ltac runk K st sc x st1 s1 E1 :=
  let sc1 := fresh "sc" in
  let Hk := fresh "Hk" in
  pose proof (K st sc) as Hk;
  destruct (ex st sc x) as [[st1 sc1] s1] eqn:E1;
  unfold scs in Hk; cbn [fst snd] in Hk; subst sc1.

Lemma with_val_sim sc x x' st k k' :
  keeps x -> sim1 sc x x' ->
  (forall st1 v, okr (k st1 sc v) -> k' st1 sc v = k st1 sc v) ->
  okr (with_val_def ex x st sc k) ->
  with_val_def ex x' st sc k' = with_val_def ex x st sc k.
Proof.
  intros K S Hk. unfold with_val_def. specialize (S st).
  runk K st sc x st1 s1 E1.
  destruct s1; intros Hok;
    try (rewrite (S Hok); reflexivity).
  rewrite (S (okr_val _ _ _)). apply Hk. exact Hok.
Qed.

Lemma with_val_keeps sc x st k :
  keeps x -> (forall st1 v, scs (k st1 sc v) = sc) -> scs (with_val_def ex x st sc k) = sc.
Proof.
  intros K Hk. unfold with_val_def. runk K st sc x st1 s1 E1.
  destruct s1; try reflexivity. apply Hk.
Qed.

(* ---- expression lists (every element keeps the scopes) ---- *)
Lemma ex_list_keeps l : Forall keeps l -> forall st sc,
  snd (fst (fst (ex_list_def ex l st sc))) = sc.
Proof.
  induction 1 as [|x l K _ IH]; intros st sc; [reflexivity|].
  rewrite ex_list_cons. runk K st sc x st1 s1 E1.
  destruct s1; try reflexivity.
  specialize (IH st1 sc). destruct (ex_list_def ex l st1 sc) as [[[st2 sc2] o2] s2].
  cbn [fst snd] in IH. subst sc2. destruct o2; reflexivity.
Qed.

Lemma ex_list_sim sc l l' :
  Forall keeps l -> Forall2 (sim1 sc) l l' ->
  forall st, okl (ex_list_def ex l st sc) -> ex_list_def ex l' st sc = ex_list_def ex l st sc.
Proof.
  intros K S. revert K. induction S as [|x x' l l' Sx _ IH]; intros K st; [reflexivity|].
  inversion K as [|? ? Kx Kl]; subst. specialize (IH Kl).
  rewrite !ex_list_cons. specialize (Sx st). runk Kx st sc x st1 s1 E1.
  destruct s1; intros Hok;
    try (rewrite Sx; [reflexivity|exact Hok]).
  rewrite (Sx (okr_val _ _ _)). specialize (IH st1).
  destruct (ex_list_def ex l st1 sc) as [[[st2 sc2] o2] s2].
  rewrite IH; [reflexivity|]. destruct o2; exact Hok.
Qed.

Lemma with_list_sim sc l l' st k :
  Forall keeps l -> Forall2 (sim1 sc) l l' ->
  okr (with_list_def ex l st sc k) ->
  with_list_def ex l' st sc k = with_list_def ex l st sc k.
Proof.
  intros K S. unfold with_list_def.
  pose proof (ex_list_sim sc l l' K S st) as H.
  pose proof (ex_list_shape ex l st sc) as Sh.
  destruct (ex_list_def ex l st sc) as [[[st2 sc2] o2] s2].
  destruct (Sh _ _ _ _ eq_refl) as [[vs [-> [-> _]]]|[-> Hn]]; intros Hok.
  - rewrite H; [reflexivity|]. split; discriminate.
  - rewrite H; [reflexivity|]. exact Hok.
Qed.

Lemma with_list_keeps sc l st k :
  Forall keeps l -> (forall st1 vs, scs (k st1 sc vs) = sc) -> scs (with_list_def ex l st sc k) = sc.
Proof.
  intros K Hk. unfold with_list_def. pose proof (ex_list_keeps l K st sc) as H.
  destruct (ex_list_def ex l st sc) as [[[st2 sc2] o2] s2]. cbn [fst snd] in H. subst sc2.
  destruct o2; try reflexivity. apply Hk.
Qed.

(* ---- struct literals ---- *)
Inductive fields_rel (P : instr -> instr -> Prop) : list (name * instr) -> list (name * instr) -> Prop :=
| FR_nil : fields_rel P [] []
| FR_cons k x x' l l' : P x x' -> fields_rel P l l' -> fields_rel P ((k, x) :: l) ((k, x') :: l').

Lemma struct_sim sc fs fs' :
  Forall (fun kv => keeps (snd kv)) fs -> fields_rel (sim1 sc) fs fs' ->
  forall st acc, okr (struct_def ex fs st sc acc) ->
    struct_def ex fs' st sc acc = struct_def ex fs st sc acc.
Proof.
  intros K S. revert K. induction S as [|k x x' l l' Sx _ IH]; intros K st acc; [reflexivity|].
  inversion K as [|? ? Kx Kl]; subst. cbn [snd] in Kx. rewrite !struct_def_cons.
  apply with_val_sim; [exact Kx|exact Sx|]. intros st1 v. apply IH. exact Kl.
Qed.

Lemma struct_keeps sc fs : Forall (fun kv => keeps (snd kv)) fs ->
  forall st acc, scs (struct_def ex fs st sc acc) = sc.
Proof.
  induction 1 as [|[k x] l Kx _ IH]; intros st acc; [reflexivity|].
  rewrite struct_def_cons. apply with_val_keeps; [exact Kx|]. intros; apply IH.
Qed.

(* ---- optional slice bounds ---- *)
Definition opt_rel (P : instr -> instr -> Prop) (o o' : option instr) : Prop :=
  match o, o' with
  | None, None => True
  | Some x, Some x' => P x x'
  | _, _ => False
  end.
Definition opt_keeps (o : option instr) : Prop := match o with None => True | Some x => keeps x end.

Lemma opt_sim sc o o' st k k' :
  opt_keeps o -> opt_rel (sim1 sc) o o' ->
  (forall st1 ov, okr (k st1 sc ov) -> k' st1 sc ov = k st1 sc ov) ->
  okr (opt_def ex o st sc k) -> opt_def ex o' st sc k' = opt_def ex o st sc k.
Proof.
  intros K S Hk. destruct o as [x|], o' as [x'|]; try contradiction; [|apply Hk].
  unfold opt_def. apply with_val_sim; [exact K|exact S|].
  intros st1 v. destruct v; try (intros; reflexivity). apply Hk.
Qed.

Lemma opt_keeps_scs sc o st k :
  opt_keeps o -> (forall st1 ov, scs (k st1 sc ov) = sc) -> scs (opt_def ex o st sc k) = sc.
Proof.
  intros K Hk. destruct o as [x|]; [|apply Hk]. unfold opt_def.
  apply with_val_keeps; [exact K|]. intros st1 v. destruct v; try reflexivity; apply Hk.
Qed.

(* ---- loops ---- *)
Lemma loop_sim sc b b' :
  keeps b -> sim1 sc b b' ->
  forall m st, okr (loop_def ex b m st sc) -> loop_def ex b' m st sc = loop_def ex b m st sc.
Proof.
  intros K S. induction m as [|m IH]; intros st; [reflexivity|].
  rewrite !loop_def_S. specialize (S st). runk K st sc b st1 s1 E1.
  destruct s1; intros Hok;
    try (rewrite S; [reflexivity|first [exact Hok|split; discriminate]]).
  - rewrite (S (okr_val _ _ _)). apply IH. exact Hok.
  - rewrite S by (split; discriminate). apply IH. exact Hok.
Qed.

Lemma loop_keeps sc b : keeps b -> forall m st, scs (loop_def ex b m st sc) = sc.
Proof.
  intros K. induction m as [|m IH]; intros st; [reflexivity|].
  rewrite loop_def_S. runk K st sc b st1 s1 E1. destruct s1; try reflexivity; apply IH.
Qed.

(* ---- match ---- *)
Definition arm_rel (sc : scopes) (a a' : arm) : Prop :=
  match a, a' with
  | ArmType n t b, ArmType n' t' b' => n' = n /\ t' = t /\ forall v, sim1 ([(n, v)] :: sc) b b'
  | ArmValue cs b, ArmValue cs' b' => Forall2 (sim1 sc) cs cs' /\ sim1 sc b b'
  | ArmOther b, ArmOther b' => sim1 sc b b'
  | _, _ => False
  end.
Definition arm_keeps (a : arm) : Prop :=
  match a with
  | ArmType _ _ b | ArmOther b => keeps b
  | ArmValue cs b => Forall keeps cs /\ keeps b
  end.

Lemma match_cands_sim sc v b b' k k' cs cs' :
  Forall keeps cs -> Forall2 (sim1 sc) cs cs' -> sim1 sc b b' ->
  (forall st, okr (k st sc) -> k' st sc = k st sc) ->
  forall st, okr (match_cands_def ex v b k cs st sc) ->
    match_cands_def ex v b' k' cs' st sc = match_cands_def ex v b k cs st sc.
Proof.
  intros K S Sb Hk. revert K. induction S as [|c c' cs cs' Sc _ IH]; intros K st.
  - rewrite !match_cands_nil. apply Hk.
  - inversion K as [|? ? Kc Kcs]; subst. rewrite !match_cands_cons.
    specialize (Sc st). runk Kc st sc c st1 s1 E1.
    destruct s1; intros Hok; try (rewrite Sc; [reflexivity|exact Hok]).
    rewrite (Sc (okr_val _ _ _)). destruct (val_eqb v0 v).
    + apply Sb. exact Hok.
    + apply IH; assumption.
Qed.

Lemma match_cands_keeps sc v b k cs :
  Forall keeps cs -> keeps b -> (forall st, scs (k st sc) = sc) ->
  forall st, scs (match_cands_def ex v b k cs st sc) = sc.
Proof.
  intros K Kb Hk. induction K as [|c cs Kc _ IH]; intros st.
  - rewrite match_cands_nil. apply Hk.
  - rewrite match_cands_cons. runk Kc st sc c st1 s1 E1. destruct s1; try reflexivity.
    destruct (val_eqb v0 v); [apply Kb|apply IH].
Qed.

Lemma match_arms_sim sc v arms arms' :
  Forall arm_keeps arms -> Forall2 (arm_rel sc) arms arms' ->
  forall st, okr (match_arms_def ex v arms st sc) ->
    match_arms_def ex v arms' st sc = match_arms_def ex v arms st sc.
Proof.
  intros K S. revert K. induction S as [|a a' arms arms' Sa _ IH]; intros K st; [reflexivity|].
  inversion K as [|? ? Ka Kr]; subst. specialize (IH Kr).
  destruct a as [n t b|cs b|b], a' as [n' t' b'|cs' b'|b']; try contradiction.
  - destruct Sa as [-> [-> Sb]]. rewrite !match_arms_type.
    destruct (matches (as_type v) t); [|apply IH].
    specialize (Sb v st). destruct (ex st ([(n, v)] :: sc) b) as [[st1 sc1] s1].
    intros Hok. rewrite Sb; [reflexivity|]. exact Hok.
  - destruct Sa as [Scs Sb]. destruct Ka as [Kcs Kb]. rewrite !match_arms_value.
    apply match_cands_sim; assumption.
  - rewrite !match_arms_other. apply Sa.
Qed.

Lemma match_arms_keeps sc v arms : Forall arm_keeps arms ->
  forall st, scs (match_arms_def ex v arms st sc) = sc.
Proof.
  induction 1 as [|a arms Ka _ IH]; intros st; [reflexivity|].
  destruct a as [n t b|cs b|b].
  - rewrite match_arms_type. destruct (matches (as_type v) t); [|apply IH].
    destruct (ex st ([(n, v)] :: sc) b) as [[st1 sc1] s1]. reflexivity.
  - destruct Ka as [Kcs Kb]. rewrite match_arms_value. apply match_cands_keeps; assumption.
  - rewrite match_arms_other. apply Ka.
Qed.

(* ---- the prefix operators whose dispatch ignores the static type of the operand ---- *)
Lemma un_dispatch_sx fuel sx sx' op v st sc :
  un_ok op = true ->
  un_dispatch pre ex fuel sx op v st sc = un_dispatch pre ex fuel sx' op v st sc.
Proof. destruct op; intros H; try discriminate H; reflexivity. Qed.

Lemma un_dispatch_scs fuel sx op v st sc :
  un_ok op = true -> scs (un_dispatch pre ex fuel sx op v st sc) = sc.
Proof.
  destruct op; intros H; try discriminate H; unfold un_dispatch; try reflexivity;
    try (apply sig_of_outcome_scs; intros; reflexivity).
  - destruct v; try reflexivity. destruct (nth_error (s_cells st) loc); reflexivity.
  - destruct v; try reflexivity.
    pose proof (pull_def_scs ex fuel (VFun id ps r) st sc []) as HP.
    destruct (pull_def ex fuel (VFun id ps r) st sc []) as [[[st1 sc1] o] sg].
    cbn [fst snd] in HP. subst sc1. destruct o; reflexivity.
  - destruct (element_type (as_type v)) as [et|]; [|reflexivity].
    destruct (match alloc_default et st with Some ds => ds | None => (VVoid, st) end) as [d st0].
    pose proof (call_def_scs ex (p_iter pre) [v; d] st0 sc) as HC.
    destruct (call_def ex (p_iter pre) [v; d] st0 sc) as [[st1 sc1] sg].
    unfold scs in HC; cbn [fst snd] in HC. subst sc1.
    destruct sg; try reflexivity. apply retyped_def_scs.
Qed.

End Generic.

(* Sound4.v — layer 3, stage 4a: calls f(args) of closures that are in the store.
   [funs_ok W st] (SoundTyping.v): every closure has the signature W records for it
   and its body is a typed statement list in function context, under the
   environment made of its own name and its parameters.
   The callee runs in one fresh layer holding exactly those bindings; Break and
   Continue cannot escape it (they are only typed inside a loop), Return carries a
   value of the declared result type, and the body cannot fall off its end unless
   `()` inhabits the result type. *)
From SSL.Model Require Import Base Ty Float Value Ops Seq Syntax Rt Recreate Exec Check.
From SSL.Lemmas Require Import TyLemmas ValueLemmas SeqLemmas ExecLemmas SoundLemmas CellLemmas
  SoundDefs SoundVals SoundTyping Sound1 Sound2 Sound3.

Arguments matches : simpl never.
Arguments ty_eqb : simpl never.
Arguments concat : simpl never.
Arguments conjoin : simpl never.

Local Open Scope Z_scope.

Section WithFlag.
Context {FL : Policy}.

(* ================================================================= *)
(* Type::params on unions of function types: a lower bound of every member *)
(* ================================================================= *)
Definition par_step (acc c : option (list ty)) : option (list ty) :=
  match acc, c with
  | Some a, Some c => if Nat.eqb (length a) (length c) then Some (zip_with conjoin a c) else None
  | _, _ => None
  end.

Lemma params_multi ms :
  Ty.params (TMulti ms) =
  match map Ty.params ms with
  | [] => None
  | first :: rest => fold_left par_step rest first
  end.
Proof. reflexivity. Qed.

Lemma par_fold_lower : forall rest a0 ps,
  fold_left par_step rest (Some a0) = Some ps ->
  forallb wf_ty a0 = true ->
  (forall tc, In (Some tc) rest -> forallb wf_ty tc = true) ->
  all2 matches ps a0 = true /\
  forall c, In c rest -> exists pc, c = Some pc /\ all2 matches ps pc = true.
Proof.
  induction rest as [|c rest IH]; intros a0 ps H W0 Wr.
  - cbn [fold_left] in H. injection H as <-. split; [apply all2_matches_refl; exact W0|].
    intros c [].
  - cbn [fold_left] in H. destruct c as [tc|].
    2:{ cbn [par_step] in H. unfold par_step in H. rewrite fold_opt_step_none in H. discriminate H. }
    cbn [par_step] in H. destruct (Nat.eqb (length a0) (length tc)) eqn:El.
    2:{ unfold par_step in H. rewrite fold_opt_step_none in H. discriminate H. }
    apply Nat.eqb_eq in El.
    pose proof (Wr tc (or_introl eq_refl)) as Wc.
    assert (W1 : forallb wf_ty (zip_with conjoin a0 tc) = true).
    { rewrite forallb_forall in W0, Wc. apply forallb_zip_with. intros x y Hx Hy.
      apply conjoin_wf; [apply W0; exact Hx|apply Wc; exact Hy]. }
    destruct (IH _ ps H W1) as [M1 Mr]; [intros t Ht; apply Wr; right; exact Ht|].
    assert (Ma : all2 matches (zip_with conjoin a0 tc) a0 = true).
    { apply all2_zip_with_l; [exact El|]. intros x y Hx Hy.
      apply conjoin_lower_l. rewrite forallb_forall in W0. apply W0. exact Hx. }
    assert (Mc : all2 matches (zip_with conjoin a0 tc) tc = true).
    { apply all2_zip_with_r; [exact El|]. intros x y Hx Hy.
      apply conjoin_lower_r. rewrite forallb_forall in Wc. apply Wc. exact Hy. }
    split; [apply (all2_matches_trans _ _ _ M1 Ma)|].
    intros c [<-|Hc].
    + exists tc. split; [reflexivity|apply (all2_matches_trans _ _ _ M1 Mc)].
    + apply Mr. exact Hc.
Qed.

Lemma params_member_lower ms ps m :
  wf_ty (TMulti ms) = true -> Ty.params (TMulti ms) = Some ps -> In m ms ->
  exists pm, Ty.params m = Some pm /\ all2 matches ps pm = true.
Proof.
  intros Wt H Hm. rewrite params_multi in H.
  destruct (wf_multi_inv _ Wt) as [_ [_ [Wm _]]].
  assert (Wq : forall x tx, In x ms -> Ty.params x = Some tx -> forallb wf_ty tx = true).
  { intros x tx Hx Hq. apply (params_wf x tx (Wm x Hx) Hq). }
  destruct ms as [|m0 ms]; [destruct Hm|]. cbn [map] in H.
  destruct (Ty.params m0) as [a0|] eqn:E0.
  2:{ unfold par_step in H. rewrite fold_opt_step_none in H. discriminate H. }
  destruct (par_fold_lower _ a0 ps H) as [M0 Mr].
  - apply (Wq m0 a0); [left; reflexivity|exact E0].
  - intros tc Hc. apply in_map_iff in Hc. destruct Hc as [x [Hq Hx]].
    apply (Wq x tc); [right; exact Hx|exact Hq].
  - destruct Hm as [<-|Hm].
    + exists a0. split; [exact E0|exact M0].
    + destruct (Mr (Ty.params m)) as [tc [Ec Mc]]; [apply in_map; exact Hm|].
      exists tc. split; assumption.
Qed.

(* a value of a function type: its own parameter types are above the static ones,
   its own result type below the static one *)
Theorem fun_value_sound : forall Tf lv ps R,
  wf_ty Tf = true -> content_in lv Tf = true ->
  Ty.params Tf = Some ps -> fn_return_type Tf = Some R ->
  exists fid ps' r', lv = VFun fid ps' r' /\ all2 matches ps ps' = true /\ matches r' R = true.
Proof.
  induction Tf as [Tf IH] using ty_size_ind. intros lv ps R Wt Cn Hp Hr.
  destruct Tf as [| | | | | | |p r|e|ts|ms|e|fs]; try discriminate Hp.
  - cbn [Ty.params fn_return_type] in *. injection Hp as <-. injection Hr as <-.
    destruct lv; try discriminate Cn. rewrite content_in_fun, matches_fun in Cn.
    apply andb_true_iff in Cn. destruct Cn as [Cp Cr].
    exists id, ps, r0. split; [reflexivity|]. split; [|exact Cr].
    rewrite all2_flip. exact Cp.
  - rewrite content_in_multi in Cn. apply existsb_exists in Cn. destruct Cn as [m [Hm Cm]].
    destruct (params_member_lower ms ps m Wt Hp Hm) as [pm [Epm Mpm]].
    cbn [fn_return_type] in Hr.
    pose proof (fn_return_type_wf _ _ Wt Hr) as WR.
    destruct (query_member_upper fn_return_type ms R m WR Hr Hm) as [rm [Erm Mrm]].
    destruct (wf_multi_inv _ Wt) as [_ [_ [Wm _]]].
    destruct (IH m ltac:(szs) lv pm rm (Wm m Hm) Cm Epm Erm) as [fid [ps' [r' [-> [Mp Mr]]]]].
    exists fid, ps', r'. split; [reflexivity|]. split.
    + apply (all2_matches_trans _ _ _ Mpm Mp).
    + apply (matches_trans _ _ _ Mr Mrm).
Qed.

(* the member-wise form used by the judgement *)
Theorem fun_value_call : forall Tf lv Ta R,
  wf_ty Tf = true -> content_in lv Tf = true ->
  call_ok Tf Ta = true -> fn_return_type Tf = Some R ->
  exists fid ps' r' p, lv = VFun fid ps' r' /\ args_ok p Ta = true /\
    all2 matches p ps' = true /\ matches r' R = true.
Proof.
  intros Tf lv Ta R Wt Cn Hc Hr.
  assert (Base : forall p r, content_in lv (TFun p r) = true ->
            exists fid ps' r', lv = VFun fid ps' r' /\ all2 matches p ps' = true /\ matches r' r = true).
  { intros p r C. destruct lv; try discriminate C. rewrite content_in_fun, matches_fun in C.
    apply andb_true_iff in C. destruct C as [Cp Cr]. exists id, ps, r0.
    split; [reflexivity|]. split; [rewrite all2_flip; exact Cp|exact Cr]. }
  assert (D : (exists ms, Tf = TMulti ms) \/ call_ok Tf Ta = fun_member_ok Ta Tf).
  { destruct Tf; try (right; reflexivity). left. eauto. }
  destruct D as [[ms ->]|D].
  - cbn [call_ok] in Hc. rewrite content_in_multi in Cn. apply existsb_exists in Cn.
    destruct Cn as [m [Hm Cm]]. rewrite forallb_forall in Hc. specialize (Hc m Hm).
    destruct m; try discriminate Hc. cbn [fun_member_ok] in Hc.
    destruct (Base _ _ Cm) as [fid [ps' [r' [-> [Mp Mr]]]]].
    cbn [fn_return_type] in Hr. pose proof (fn_return_type_wf _ _ Wt Hr) as WR.
    destruct (query_member_upper fn_return_type ms R (TFun ps m) WR Hr Hm) as [rm [Em Mrm]].
    cbn [fn_return_type] in Em. injection Em as <-.
    exists fid, ps', r', ps. split; [reflexivity|]. split; [exact Hc|]. split; [exact Mp|].
    apply (matches_trans _ _ _ Mr Mrm).
  - rewrite D in Hc. destruct Tf; try discriminate Hc. cbn [fun_member_ok] in Hc.
    cbn [fn_return_type] in Hr. injection Hr as <-.
    destruct (Base _ _ Cn) as [fid [ps' [r' [-> [Mp Mr]]]]].
    exists fid, ps', r', ps. auto.
Qed.

(* the checker's test (against Type::params) implies the member-wise one *)
Theorem params_call_ok Tf ps Ta :
  wf_ty Tf = true -> Ty.params Tf = Some ps -> args_ok ps Ta = true -> call_ok Tf Ta = true.
Proof.
  intros Wt Hp Hok. unfold args_ok in Hok. apply andb_true_iff in Hok. destruct Hok as [Hlen Hok].
  apply Nat.eqb_eq in Hlen.
  assert (Mem : forall pm, all2 matches ps pm = true -> args_ok pm Ta = true).
  { intros pm M. unfold args_ok. apply andb_true_iff. split.
    - apply Nat.eqb_eq. rewrite <- Hlen. symmetry. apply (all2_length _ _ _ M).
    - apply (all2_trans_in (fun a p => matches a p) matches (fun a p => matches a p) Ta ps pm);
        [|exact Hok|exact M]. intros x y z _ _ _. apply matches_trans. }
  destruct Tf; try discriminate Hp.
  - cbn [Ty.params] in Hp. injection Hp as <-. cbn [call_ok fun_member_ok].
    apply Mem. apply all2_matches_refl. cbn [wf_ty] in Wt. apply andb_true_iff in Wt. apply Wt.
  - cbn [call_ok]. apply forallb_forall. intros m Hm.
    destruct (params_member_lower ms ps m Wt Hp Hm) as [pm [Epm Mpm]].
    destruct (wf_multi_inv _ Wt) as [_ [Sm _]]. specialize (Sm m Hm).
    destruct m; try discriminate Sm; try discriminate Epm.
    cbn [Ty.params] in Epm. injection Epm as <-. cbn [fun_member_ok]. apply Mem. exact Mpm.
Qed.

Lemma args_typed W args Ta : forall ps ps',
  Forall2 (gv W) args Ta -> all2 (fun a p => matches a p) Ta ps = true ->
  all2 matches ps ps' = true -> Forall2 (gv W) args ps'.
Proof.
  intros ps ps' H. revert ps ps'. induction H as [|a T args Ta Ha H IH]; intros [|p ps] [|p' ps'] H1 H2;
    cbn [all2] in *; try discriminate; [constructor|].
  apply andb_true_iff in H1. destruct H1 as [M1 H1].
  apply andb_true_iff in H2. destruct H2 as [M2 H2].
  constructor; [|apply (IH ps ps'); assumption].
  apply (gv_sub W a p p'); [|exact M2]. apply (gv_sub W a T p); assumption.
Qed.

(* ================================================================= *)
(* the callee's frame                                                 *)
(* ================================================================= *)
Lemma frame_env_ok W : forall ps args s G,
  env_ok W [s] G -> Forall2 (fun a p => gv W a (snd p)) args ps ->
  (forall p, In p ps -> wf_ty (snd p) = true) ->
  env_ok W [bind_def ps args s] (fold_left (fun g p => (fst p, snd p) :: g) ps G).
Proof.
  induction ps as [|[n t] ps IH]; intros args s G HG HF Wp.
  - destruct args; exact HG.
  - inversion HF as [|a p args' ps' Ha HF' E1 E2]; subst. cbn [bind_def fold_left fst snd].
    apply IH; [|exact HF'|intros p Hp; apply Wp; right; exact Hp].
    change [scope_insert n a s] with (scopes_insert n a [s]).
    apply env_ok_insert; [exact HG| |exact Ha]. apply (Wp (n, t)). left. reflexivity.
Qed.

Lemma Forall2_map_snd W args (ps : params) :
  Forall2 (gv W) args (map snd ps) -> Forall2 (fun a p => gv W a (snd p)) args ps.
Proof.
  revert args. induction ps as [|p ps IH]; intros args H; inversion H; subst; constructor; auto.
Qed.

Lemma wf_fun_parts ps r : wf_ty (TFun ps r) = true -> forallb wf_ty ps = true /\ wf_ty r = true.
Proof. cbn [wf_ty]. intros H. apply andb_true_iff in H. exact H. Qed.

Lemma store_ok_log W st ev : store_ok W st -> store_ok W (log_event st ev).
Proof. intros [HC HF]. split; [exact HC|exact HF]. Qed.

Section Sound.
Variable powf : fbits -> fbits -> fbits.
Variable pre : prelude.
Notation E := (exec powf pre).
Notation sound_at := (sound_at powf pre).
Notation sound_line_at := (sound_line_at powf pre).

(* what a call may end with: never Break / Continue / Return / Panic *)
Definition call_sig_ok (W : sty) (R : ty) (s : signal) : Prop :=
  match s with
  | SVal v => gv W v R
  | SError e => doc_err e
  | SFuel => True
  | _ => False
  end.

Lemma call_sig_ok_sig_ok W K R s : call_sig_ok W R s -> sig_ok W K R s.
Proof. destruct s; cbn; intros H; try contradiction; exact H. Qed.

Lemma frame_ctx W fid c args :
  nth_error (funs_t W) fid = Some (Some (map snd (c_params c), c_ret c)) ->
  wf_ty (TFun (map snd (c_params c)) (c_ret c)) = true ->
  Forall2 (gv W) args (map snd (c_params c)) ->
  env_ok W [frame_def fid c args] (param_env c).
Proof.
  intros Hsig Wf Hargs. unfold frame_def, param_env.
  destruct (wf_fun_parts _ _ Wf) as [Wps Wr].
  apply frame_env_ok.
  - unfold base_def. destruct (c_name c) as [nm|].
    + intros m T Hm. cbn [assoc scopes_get] in *. destruct (ident_eqb m nm); [|discriminate Hm].
      injection Hm as <-. split; [exact Wf|].
      exists (VFun fid (map snd (c_params c)) (c_ret c)). split; [reflexivity|].
      assert (Hg : vgood W (VFun fid (map snd (c_params c)) (c_ret c))) by (split; assumption).
      split; [apply (vgood_self W _ Hg)|exact Hg].
    + intros m T Hm. discriminate Hm.
  - apply Forall2_map_snd. exact Hargs.
  - intros p Hp. rewrite forallb_forall in Wps. apply Wps. apply in_map. exact Hp.
Qed.

Lemma run_body_sound n (IHl : sound_line_at n) W st fid c args :
  store_ok W st ->
  nth_error (funs_t W) fid = Some (Some (map snd (c_params c), c_ret c)) ->
  wf_ty (TFun (map snd (c_params c)) (c_ret c)) = true ->
  body_ok W c ->
  Forall2 (gv W) args (map snd (c_params c)) ->
  exists W', ext W W' /\
    store_ok W' (sto (run_body_def (E n) c st [frame_def fid c args])) /\
    call_sig_ok W' (c_ret c) (sig (run_body_def (E n) c st [frame_def fid c args])).
Proof.
  intros HS Hsig Wf Hb Hargs.
  pose proof (frame_ctx W fid c args Hsig Wf Hargs) as HG.
  unfold run_body_def, body_ok in *. destruct (c_body c) as [body|nid].
  - destruct Hb as [W0 [G' [Ts [HE0 [Hl Hend]]]]].
    assert (HC : ctx_ok W0 W st [frame_def fid c args] (param_env c)).
    { split; [exact HE0|]. split; assumption. }
    pose proof (stmts_sound powf pre n IHl _ _ _ _ _ _ Hl _ _ _ HC) as C.
    destruct (ex_list_def (E n) body st [frame_def fid c args]) as [[[st1 sc1] o] s1].
    destruct C as [W1 [HE [HS1 Ho]]].
    destruct o as [vs|e| |].
    + (* the body ran to its end *)
      destruct Ho as [Hvs _]. exists W1. split; [exact HE|]. split; [exact HS1|].
      unfold sig. cbn [snd call_sig_ok]. destruct Hend as [Hv|Hn].
      * apply (gv_sub W1 VVoid TVoid); [apply gv_void|exact Hv].
      * exfalso. clear - Hvs Hn. induction Hvs as [|v T vs Ts Hv _ IH]; [destruct Hn|].
        destruct Hn as [->|Hn]; [apply (gv_never W1 v Hv)|apply IH; exact Hn].
    + destruct Ho as [N Hs]. exists W1. split; [exact HE|].
      destruct s1; cbn in N; try contradiction; cbn [sig_ok in_loop ret] in Hs;
        try discriminate Hs; try contradiction;
        (split; [exact HS1|]); unfold sig; cbn [snd call_sig_ok]; try exact Hs; try exact I.
      destruct Hs as [Tr [Er Hv]]. injection Er as <-. exact Hv.
    + destruct Ho as [N Hs]. exists W1. split; [exact HE|].
      destruct s1; cbn in N; try contradiction; cbn [sig_ok in_loop ret] in Hs;
        try discriminate Hs; try contradiction;
        (split; [exact HS1|]); unfold sig; cbn [snd call_sig_ok]; try exact Hs; try exact I.
      destruct Hs as [Tr [Er Hv]]. injection Er as <-. exact Hv.
    + destruct Ho as [N Hs]. exists W1. split; [exact HE|].
      destruct s1; cbn in N; try contradiction; cbn [sig_ok in_loop ret] in Hs;
        try discriminate Hs; try contradiction;
        (split; [exact HS1|]); unfold sig; cbn [snd call_sig_ok]; try exact Hs; try exact I.
      destruct Hs as [Tr [Er Hv]]. injection Er as <-. exact Hv.
  - (* std.len *)
    destruct Hb as [T [Hp [Hi Hr]]]. rewrite Hp in Hargs. cbn [map snd] in Hargs.
    inversion Hargs as [|a T' args' Ts' Ha Hnil E1 E2]; subst. inversion Hnil; subst.
    unfold frame_def. rewrite Hp. cbn [bind_def].
    change [scope_insert n_variable a (base_def fid c)]
      with (scopes_insert n_variable a [base_def fid c]).
    rewrite scopes_get_insert_same. exists W. split; [apply ext_refl|].
    destruct (indexable_shape T a Hi (proj1 Ha)) as [[s ->]|[t [vs ->]]]; cbn [len_exec];
      (split; [exact HS|]); unfold sig; cbn [snd call_sig_ok]; rewrite Hr;
      (split; [reflexivity|exact I]).
Qed.

Lemma call_sound n (IHl : sound_line_at n) W K R st sc fid ps' r' args :
  store_ok W st -> vgood W (VFun fid ps' r') -> Forall2 (gv W) args ps' ->
  matches r' R = true ->
  concl W K R sc (call_def (E n) fid args st sc).
Proof.
  intros HS [Wf Hsig] Hargs HR. unfold call_def.
  destruct HS as [HCells [HL HF]].
  destruct (nth_error (s_funs st) fid) as [c|] eqn:Hc.
  2:{ exfalso. apply nth_error_None in Hc. rewrite <- HL in Hc.
      apply nth_error_None in Hc. congruence. }
  destruct (HF fid c _ Hc Hsig) as [Hsig' [Wf' Hb]]. injection Hsig' as -> ->.
  assert (HS' : store_ok W (log_event st (EvCall fid args))).
  { apply store_ok_log. split; [exact HCells|]. split; assumption. }
  destruct (run_body_sound n IHl W _ fid c args HS' Hsig Wf' Hb Hargs) as [W1 [HE [HS1 Hs]]].
  destruct (run_body_def (E n) c (log_event st (EvCall fid args)) [frame_def fid c args])
    as [[st1 sc1] s1]. unfold sto, sig in *. cbn [fst snd] in *.
  split; [reflexivity|]. exists W1. split; [exact HE|]. split; [exact HS1|].
  unfold sig. cbn [snd]. apply call_sig_ok_sig_ok.
  destruct s1; cbn [call_sig_ok] in *; try exact Hs. apply (gv_sub W1 v (c_ret c) R); assumption.
Qed.

Lemma case_call n (IH : sound_at n) (IHl : sound_line_at n) W0 G K f a Tf Ta R W st sc :
  typed W0 G K f Tf -> typed W0 G K a (TTup Ta) ->
  (call_ok Tf Ta = true /\ fn_return_type Tf = Some R) \/ (Tf = TNever /\ R = TNever) ->
  ctx_ok W0 W st sc G ->
  concl W K R sc (E (S n) st sc (IBin FunctionCall f a)).
Proof.
  intros Hf Ha Hor HC. rewrite exec_S_IBin by discriminate.
  apply (with_val_sound powf pre n IH W0 G K f Tf); [exact Hf|exact HC|].
  intros W1 st1 lv HE1 HC1 Hlv.
  apply (with_val_sound powf pre n IH W0 G K a (TTup Ta)); [exact Ha|exact HC1|].
  intros W2 st2 rv HE2 HC2 [Hrv Hrg].
  apply (gv_mono W1 W2) in Hlv; [|exact HE2]. destruct Hlv as [Hlv Hlg].
  cbn [bin_dispatch].
  destruct Hor as [[Hok Hr]|[-> _]]; [|rewrite has_type_never in Hlv; discriminate Hlv].
  pose proof (typed_wf _ _ _ _ _ Hf (ctx_wf _ _ _ _ _ HC)) as Wt.
  destruct (fun_value_call Tf lv Ta R Wt (has_type_content _ _ Hlv) Hok Hr)
    as [fid [ps' [r' [ps [-> [Hargs [Mp Mr]]]]]]].
  pose proof (has_type_content _ _ Hrv) as Cr. destruct rv; try discriminate Cr.
  rewrite tuple_typed in Hrv. rewrite vgood_tup in Hrg.
  cbn [call_v_def]. unfold args_ok in Hargs. apply andb_true_iff in Hargs.
  clear Hok. destruct Hargs as [_ Hok].
  apply (call_sound n IHl W2 K R st2 sc fid ps' r' vs); try assumption.
  - apply (ctx_store _ _ _ _ _ HC2).
  - apply (args_typed W2 vs Ta ps ps'); try assumption.
    apply all2_has_type_Forall2; assumption.
Qed.

End Sound.

End WithFlag.

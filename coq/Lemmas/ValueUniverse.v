(* ValueUniverse.v — C20, bounded form of `value_roundtrip`: an explicit finite universe of
   values built from bools, ints (incl. MIN_INT and MAX_INT), strings (incl. quotes,
   backslashes, NUL, NUL followed by a digit, control and non-ASCII characters), (),
   a table of boundary floats, arrays and tuples nested up to depth 5; for each of them
   the text the REPL prints (debug_val) is read by the model of `Variable::from_str`
   (vp_parse_value over the PEG model of rule only_var) to an equal value of the same type.
   Checked exhaustively by computation.

   The parameters of the printer are instantiated: [P0] escapes the C0/C1 controls and DEL
   (what Rust's tables say on the code points used here); the float functions are the
   finite table [float_table] of boundary floats with the texts Rust prints for them (each
   line of the table is compared with the implementation by lane L5-print). *)
From SSL.Model Require Import Base Ty Float Value Peg Print ValueParse.
From SSL.Gen Require Import GenGrammar.

Local Open Scope Z_scope.

Definition P0 (c : Z) : bool := (c <? 32) || ((127 <=? c) && (c <? 161)).

(* bits, `{:?}` text *)
Definition float_table : list (fbits * list Z) :=
  [ (4607182418800017408, [49; 46; 48]);                      (* 1.0 *)
    (9223372036854775808, [45; 48; 46; 48]);                  (* -0.0 *)
    (4591870180066957722, [48; 46; 49]);                      (* 0.1 *)
    (4846369599423283200, [49; 101; 49; 54]);                 (* 1e16 *)
    (4504762867522569078, [49; 46; 53; 101; 45; 55]);         (* 1.5e-7 *)
    (1, [53; 101; 45; 51; 50; 52]);                           (* 5e-324 *)
    (9218868437227405311, [49; 46; 55; 57; 55; 54; 57; 51; 49; 51; 52; 56; 54; 50; 51; 49; 53; 55; 101; 51; 48; 56]);
    (13836183955189006336, [45; 50; 46; 53]);                 (* -2.5 *)
    (4532020583610935537, [49; 101; 45; 53]) ].               (* 1e-5 *)

Definition dbg_tab (f : fbits) : list Z :=
  match find (fun p => Z.eqb (fst p) f) float_table with Some p => snd p | None => [] end.
Definition parse_tab (s : list Z) : option fbits :=
  match find (fun p => ident_eqb (snd p) s) float_table with Some p => Some (fst p) | None => None end.

Definition debug0 (v : value) : list Z :=
  debug_val P0 dbg_tab dbg_tab (fun _ => []) (fun _ => None) v.

(* ---------------------------------------------------------------- the universe *)
Definition ints : list Z := [0; 1; -1; 42; 1000000; MAX_INT; MIN_INT; MIN_INT + 1].
Definition strings : list (list Z) :=
  [ []; [97]; [97; 32; 98]; [34]; [92]; [92; 110]; [0]; [0; 49]; [0; 55; 55]; [0; 56]; [10]; [9; 13];
    [127]; [233]; [769]; [128512]; [39]; [47]; [123; 125]; [92; 117; 123; 52; 49; 125]; [34; 34];
    [97; 0; 48; 98] ].
Definition scalars : list value :=
  [VBool true; VBool false; VVoid] ++ map VInt ints ++ map VString strings
  ++ map (fun p => VFloat (fst p)) float_table.
Definition few : list value :=
  [VBool true; VVoid; VInt MIN_INT; VInt 7; VString [0; 49]; VString [34; 92]; VFloat 4607182418800017408].

Definition level (xs ys : list value) : list value :=
  [arr_of []]
  ++ map (fun a => arr_of [a]) xs
  ++ flat_map (fun a => map (fun b => arr_of [a; b]) xs) xs
  ++ flat_map (fun a => map (fun b => VTup [a; b]) xs) xs
  ++ flat_map (fun a => flat_map (fun b => map (fun c => VTup [a; b; c]) ys) ys) ys
  ++ flat_map (fun a => flat_map (fun b => map (fun c => arr_of [a; b; c]) ys) ys) ys.

Definition level1 : list value := level scalars few.
Definition reps1 : list value :=
  [arr_of []; arr_of [VInt 1; VInt 2]; arr_of [VInt 1; VString [97]]; VTup [VInt MIN_INT; VString [0; 49]];
   VTup [VVoid; VBool false; VFloat 9223372036854775808]; arr_of [VString [34]; VString [92]]].
Definition level2 : list value := level (few ++ reps1) reps1.
(* chains down to the printer's depth bound: five levels above a scalar *)
Fixpoint nest (k : nat) (wrap : value -> value) (v : value) : value :=
  match k with O => v | S k' => wrap (nest k' wrap v) end.
Definition wraps : list (value -> value) :=
  [fun x => arr_of [x]; fun x => VTup [x; VInt 0]; fun x => arr_of [x; x]; fun x => VTup [VString [0; 49]; x]].
Definition deep : list value :=
  flat_map (fun w => flat_map (fun k => map (nest k w) few) [3%nat; 4%nat; 5%nat]) wraps
  ++ map (fun x => arr_of [VTup [arr_of [VTup [arr_of [x]; x]]; x]]) few.

Definition value_universe : list value := scalars ++ level1 ++ level2 ++ deep.

(* ---------------------------------------------------------------- the check *)
Definition reads_back (v : value) : bool :=
  match vp_parse_value parse_tab (debug0 v) with
  | Ok v' => val_eqb v v' && ty_eqb (as_type v') (as_type v)
  | _ => false
  end.

Lemma value_universe_checked : forallb reads_back value_universe = true.
Proof. vm_compute. reflexivity. Qed.

Lemma reads_back_spec v : reads_back v = true ->
  exists v', vp_parse_value parse_tab (debug0 v) = Ok v' /\
             val_eqb v v' = true /\ ty_eqb (as_type v') (as_type v) = true.
Proof.
  unfold reads_back. intros Hr.
  destruct (vp_parse_value parse_tab (debug0 v)) as [v'| | |]; try discriminate Hr.
  apply andb_prop in Hr. exists v'. split; [reflexivity | exact Hr].
Qed.

Theorem value_roundtrip_universe v :
  In v value_universe ->
  exists v', vp_parse_value parse_tab (debug0 v) = Ok v' /\
             val_eqb v v' = true /\ ty_eqb (as_type v') (as_type v) = true.
Proof.
  intros Hv. apply reads_back_spec.
  exact (proj1 (forallb_forall reads_back value_universe) value_universe_checked v Hv).
Qed.

Lemma value_universe_size : N.of_nat (length value_universe) = 5174%N.
Proof. vm_compute. reflexivity. Qed.

(* beyond the printer's depth bound the text is elided and does not read back *)
Lemma elided_beyond_depth :
  debug0 (nest 7 (fun x => arr_of [x]) (VInt 1)) = [91; 91; 91; 91; 91; 91; 46; 46; 93; 93; 93; 93; 93; 93].
Proof. vm_compute. reflexivity. Qed.

(* what the two repaired defects looked like in the model: Rust's own {:?} for the string
   NUL '1' reads back as U+0001 *)
Lemma nul_digit_rust_text :
  vp_parse_value parse_tab (escape_debug_rust P0 [0; 49]) = Ok (VString [1]).
Proof. vm_compute. reflexivity. Qed.

(* RecrBack1.v — the converse direction of preservation, part 1: definitions, generic
   lemmas, expression forms.

   Forward (RecrSim1, RecrSim2): if the un-folded instruction finishes without panic, the folded one
   finishes, with the same fuel and the same result.  Converse: if the FOLDED instruction
   finishes (fuel n, any result but SFuel), then the un-folded one finishes too, with any fuel
   m >= n + f (f = the fuel the pass was run with; it bounds the number of evaluation steps
   folding removed on any path) — and either it PANICS (ill-typed operands that folding
   discarded, e.g. `3 && x` folded to false; excluded for typed programs by C01b) or its
   result is literally the result of the folded one:

     bres r' r  :=  sig r' <> SFuel -> sig r = SPanic \/ r = r'
     bsimE f e x x' := forall sc, agree e sc -> forall n m st, n + f <= m ->
                         bres (exec n st sc x') (exec m st sc x)                        *)
From SSL.Model Require Import Base Ty Float Value Ops Seq Syntax Rt Recreate Exec Check.
From SSL.Lemmas Require Import ExecLemmas FoldLemmas RecrUnfold RecrMono RecrDefs RecrKeeps RecrSim1 RecrSyn.

Arguments matches : simpl never.
Local Open Scope Z_scope.

Definition bres (r' r : res) : Prop := sig r' <> SFuel -> sig r = SPanic \/ r = r'.
Definition bresl (r' r : lres) : Prop := lsig r' <> SFuel -> lsig r = SPanic \/ r = r'.

Lemma bres_refl r : bres r r.
Proof. intros _. right. reflexivity. Qed.
Lemma bres_panic r' st sc : bres r' (st, sc, SPanic).
Proof. intros _. left. reflexivity. Qed.
Lemma bres_fuel st sc r : bres (st, sc, SFuel) r.
Proof. intros H. exfalso. apply H. reflexivity. Qed.
Lemma bresl_refl r : bresl r r.
Proof. intros _. right. reflexivity. Qed.

(* ================================================================= *)
(* generic lemmas: ex = the interpreter of the folded side (small      *)
(* fuel), ex' = the interpreter of the un-folded side (large fuel)     *)
(* ================================================================= *)
Section Generic.
Variables ex ex' : store -> scopes -> instr -> res.

Definition bsim (sc : scopes) (x x' : instr) : Prop :=
  forall st, bres (ex st sc x') (ex' st sc x).

(* run the un-folded operand x, knowing the folded one x' *)
Ltac sync S K st sc x x' st1 s1 :=
  let B := fresh "B" in
  let Hk := fresh "Hk" in
  let sc1 := fresh "sc" in
  pose proof (S st) as B; pose proof (K st sc) as Hk;
  destruct (ex st sc x') as [[st1 sc1] s1];
  destruct (fuel_dec s1) as [->|NF];
  [ try apply bres_fuel
  | destruct (B NF) as [B1|B1]; clear B;
    [ destruct (ex' st sc x) as [[? ?] ?]; cbn [sig snd] in B1; subst; try apply bres_panic
    | rewrite B1 in Hk |- *; unfold scs in Hk; cbn [fst snd] in Hk; subst sc1 ] ].

Lemma with_val_b sc x x' st k k' :
  keeps ex' x -> bsim sc x x' ->
  (forall st1 v, bres (k' st1 sc v) (k st1 sc v)) ->
  bres (with_val_def ex x' st sc k') (with_val_def ex' x st sc k).
Proof.
  intros K S Hk. unfold with_val_def. sync S K st sc x x' st1 s1.
  destruct s1; try apply bres_refl. apply Hk.
Qed.

Lemma ex_list_b sc l l' :
  Forall (keeps ex') l -> Forall2 (bsim sc) l l' ->
  forall st, bresl (ex_list_def ex l' st sc) (ex_list_def ex' l st sc).
Proof.
  intros K S. revert K. induction S as [|x x' l l' Sx _ IH]; intros K st; [apply bresl_refl|].
  inversion K as [|? ? Kx Kl]; subst. specialize (IH Kl).
  rewrite !ex_list_cons.
  pose proof (Sx st) as B. pose proof (Kx st sc) as Hk.
  destruct (ex st sc x') as [[st1 sc1] s1].
  destruct (fuel_dec s1) as [->|NF]; [intros C; exfalso; apply C; reflexivity|].
  destruct (B NF) as [B1|B1]; clear B.
  - destruct (ex' st sc x) as [[st2 sc2] s2]. cbn [sig snd] in B1. subst s2. intros _. left. reflexivity.
  - rewrite B1 in Hk |- *. unfold scs in Hk; cbn [fst snd] in Hk. subst sc1.
    destruct s1; try apply bresl_refl.
    specialize (IH st1). destruct (ex_list_def ex l' st1 sc) as [[[st2 sc2] o2] s2].
    intros Hf. assert (Hf2 : lsig (st2, sc2, o2, s2) <> SFuel) by (destruct o2; exact Hf).
    destruct (IH Hf2) as [P|P].
    + left. destruct (ex_list_def ex' l st1 sc) as [[[st3 sc3] o3] s3]. cbn [lsig snd] in P. subst s3.
      destruct o3; reflexivity.
    + right. rewrite P. reflexivity.
Qed.

Lemma with_list_b sc l l' st k :
  Forall (keeps ex') l -> Forall2 (bsim sc) l l' ->
  bres (with_list_def ex l' st sc k) (with_list_def ex' l st sc k).
Proof.
  intros K S. unfold with_list_def. pose proof (ex_list_b sc l l' K S st) as B.
  pose proof (ex_list_shape ex l' st sc) as Sh. pose proof (ex_list_shape ex' l st sc) as Sh'.
  destruct (ex_list_def ex l' st sc) as [[[st2 sc2] o2] s2].
  destruct (Sh _ _ _ _ eq_refl) as [[vs [-> [-> _]]]|[-> Hn]].
  - destruct (B ltac:(discriminate)) as [P|P].
    + destruct (ex_list_def ex' l st sc) as [[[st3 sc3] o3] s3]. cbn [lsig snd] in P. subst s3.
      destruct (Sh' _ _ _ _ eq_refl) as [[ws [_ [C _]]]|[-> _]]; [discriminate C|]. apply bres_panic.
    + rewrite P. apply bres_refl.
  - intros Hf. destruct (B Hf) as [P|P].
    + destruct (ex_list_def ex' l st sc) as [[[st3 sc3] o3] s3]. cbn [lsig snd] in P. subst s3.
      destruct (Sh' _ _ _ _ eq_refl) as [[ws [_ [C _]]]|[-> _]]; [discriminate C|]. left. reflexivity.
    + rewrite P. right. reflexivity.
Qed.

Lemma struct_b sc fs fs' :
  Forall (fun kv => keeps ex' (snd kv)) fs -> fields_rel (bsim sc) fs fs' ->
  forall st acc, bres (struct_def ex fs' st sc acc) (struct_def ex' fs st sc acc).
Proof.
  intros K S. revert K. induction S as [|k x x' l l' Sx _ IH]; intros K st acc; [apply bres_refl|].
  inversion K as [|? ? Kx Kl]; subst. cbn [snd] in Kx. rewrite !struct_def_cons.
  apply with_val_b; [exact Kx|exact Sx|]. intros st1 v. apply IH. exact Kl.
Qed.

Lemma opt_b sc o o' st k k' :
  opt_keeps ex' o -> opt_rel (bsim sc) o o' ->
  (forall st1 ov, bres (k' st1 sc ov) (k st1 sc ov)) ->
  bres (opt_def ex o' st sc k') (opt_def ex' o st sc k).
Proof.
  intros K S Hk. destruct o as [x|], o' as [x'|]; try contradiction; [|apply Hk].
  unfold opt_def. apply with_val_b; [exact K|exact S|].
  intros st1 v. destruct v; try apply bres_refl. apply Hk.
Qed.

(* the un-folded loop may run more iterations of fuel than the folded one *)
Lemma loop_b sc b b' :
  keeps ex' b -> bsim sc b b' ->
  forall n m st, (n <= m)%nat -> bres (loop_def ex b' n st sc) (loop_def ex' b m st sc).
Proof.
  intros K S. induction n as [|n IH]; intros m st Hm; [apply bres_fuel|].
  destruct m as [|m]; [lia|]. rewrite !loop_def_S.
  sync S K st sc b b' st1 s1.
  destruct s1; try apply bres_refl; apply IH; lia.
Qed.

Definition arm_bsim (sc : scopes) (a a' : arm) : Prop :=
  match a, a' with
  | ArmType n t b, ArmType n' t' b' => n' = n /\ t' = t /\ forall v, bsim ([(n, v)] :: sc) b b'
  | ArmValue cs b, ArmValue cs' b' => Forall2 (bsim sc) cs cs' /\ bsim sc b b'
  | ArmOther b, ArmOther b' => bsim sc b b'
  | _, _ => False
  end.

Lemma match_cands_b sc v b b' k k' cs cs' :
  Forall (keeps ex') cs -> Forall2 (bsim sc) cs cs' -> bsim sc b b' ->
  (forall st, bres (k' st sc) (k st sc)) ->
  forall st, bres (match_cands_def ex v b' k' cs' st sc) (match_cands_def ex' v b k cs st sc).
Proof.
  intros K S Sb Hk. revert K. induction S as [|c c' cs cs' Sc _ IH]; intros K st.
  - rewrite !match_cands_nil. apply Hk.
  - inversion K as [|? ? Kc Kcs]; subst. rewrite !match_cands_cons.
    sync Sc Kc st sc c c' st1 s1.
    destruct s1; try apply bres_refl.
    destruct (val_eqb v0 v); [apply Sb|apply IH; assumption].
Qed.

Lemma match_arms_b sc v arms arms' :
  Forall (arm_keeps ex') arms -> Forall2 (arm_bsim sc) arms arms' ->
  forall st, bres (match_arms_def ex v arms' st sc) (match_arms_def ex' v arms st sc).
Proof.
  intros K S. revert K. induction S as [|a a' arms arms' Sa _ IH]; intros K st; [apply bres_refl|].
  inversion K as [|? ? Ka Kr]; subst. specialize (IH Kr).
  destruct a as [n t b|cs b|b], a' as [n' t' b'|cs' b'|b']; try contradiction.
  - destruct Sa as [-> [-> Sb]]. rewrite !match_arms_type.
    destruct (matches (as_type v) t); [|apply IH].
    specialize (Sb v st). destruct (ex st ([(n, v)] :: sc) b') as [[st1 sc1] s1].
    intros Hf. destruct (Sb Hf) as [P|P].
    + destruct (ex' st ([(n, v)] :: sc) b) as [[st2 sc2] s2]. cbn [sig snd] in P. subst s2. left. reflexivity.
    + rewrite P. right. reflexivity.
  - destruct Sa as [Scs Sb]. destruct Ka as [Kcs Kb]. rewrite !match_arms_value.
    apply match_cands_b; assumption.
  - rewrite !match_arms_other. apply Sa.
Qed.

End Generic.

(* ================================================================= *)
(* expression forms                                                   *)
(* ================================================================= *)
Section Back.
Variable powf : fbits -> fbits -> fbits.
Variable pre : prelude.
Variable cl : bool.
Notation E := (exec powf pre).
Notation RC f := (recreate powf f []).

Definition bsimE (f : nat) (e : lenv) (x x' : instr) : Prop :=
  forall sc, agree e sc -> forall n m st, (n + f <= m)%nat -> bres (E n st sc x') (E m st sc x).

Definition bexpr (f : nat) : Prop := forall e i i' e',
  RC f e i = Ok (i', e') -> wfi cl false i = true -> dok i' = true -> bsimE f e i i'.

Lemma same1 f e i i' e' : RC f e i = Ok (i', e') -> wfi cl false i = true -> e' = e.
Proof. apply (rec_same_env powf [] cl f). Qed.

(* at fuel 0 nothing finishes *)
Lemma bres_E0 st sc x r : bres (E 0 st sc x) r.
Proof. rewrite exec_O. apply bres_fuel. Qed.

(* more fuel on the un-folded side *)
Lemma bsimE_up f e x x' : bsimE f e x x' -> bsimE (S f) e x x'.
Proof. intros H sc Ha n m st Hm. apply H; [exact Ha|lia]. Qed.

(* results that do not depend on the fuel *)
Lemma E_same_up n m st sc i : (n <= m)%nat -> bres (E n st sc i) (E m st sc i).
Proof.
  intros Hm Hf. right. apply (exec_fuel_mono powf pre n m); assumption.
Qed.

(* the operation on values, with more fuel *)
Lemma bin_dispatch_up n m op lv rv st sc : (1 <= n)%nat -> (n <= m)%nat -> op <> And -> op <> Or ->
  bres (bin_dispatch powf pre (E n) n op lv rv st sc) (bin_dispatch powf pre (E m) m op lv rv st sc).
Proof.
  intros Hn Hm NA NO.
  pose proof (E_same_up (S n) (S m) st sc (IBin op (IVar lv) (IVar rv)) ltac:(lia)) as H.
  rewrite !exec_S_IBin in H by assumption. unfold with_val_def in H.
  destruct n as [|n]; [lia|]. destruct m as [|m]; [lia|]. rewrite !exec_S_IVar in H. exact H.
Qed.

Lemma un_dispatch_up n m sx sx' op v st sc : (1 <= n)%nat -> (n <= m)%nat -> un_ok op = true ->
  bres (un_dispatch pre (E n) n sx op v st sc) (un_dispatch pre (E m) m sx' op v st sc).
Proof.
  intros Hn Hm Ho.
  pose proof (E_same_up (S n) (S m) st sc (IUn op (IVar v)) ltac:(lia)) as H.
  rewrite !exec_S_IUn in H. unfold with_val_def in H.
  destruct n as [|n]; [lia|]. destruct m as [|m]; [lia|]. rewrite !exec_S_IVar in H.
  rewrite (un_dispatch_sx pre (E (S n)) (S n) sx (sty (IVar v)) op v st sc Ho),
          (un_dispatch_sx pre (E (S m)) (S m) sx' (sty (IVar v)) op v st sc Ho). exact H.
Qed.

Lemma reduce_up n m itv fv initv st sc : (1 <= n)%nat -> (n <= m)%nat ->
  bres (match itv, fv with
        | VFun _ _ _, VFun _ _ _ => reduce_def (E n) itv fv n st sc initv
        | _, _ => (st, sc, SPanic) end)
       (match itv, fv with
        | VFun _ _ _, VFun _ _ _ => reduce_def (E m) itv fv m st sc initv
        | _, _ => (st, sc, SPanic) end).
Proof.
  intros Hn Hm.
  pose proof (E_same_up (S n) (S m) st sc (IReduce (IVar itv) (IVar initv) (IVar fv)) ltac:(lia)) as H.
  rewrite !exec_S_IReduce in H. unfold with_val_def in H.
  destruct n as [|n]; [lia|]. destruct m as [|m]; [lia|]. rewrite !exec_S_IVar in H. exact H.
Qed.

(* a folded operand: the un-folded one panics or yields that constant, without effect *)
Lemma const_b f e x v sc n m st : bsimE f e x (IVar v) -> agree e sc -> (1 <= n)%nat -> (n + f <= m)%nat ->
  sig (E m st sc x) = SPanic \/ E m st sc x = (st, sc, SVal v).
Proof.
  intros B Ha Hn Hm. destruct n as [|n]; [lia|].
  specialize (B sc Ha (S n) m st Hm). rewrite exec_S_IVar in B. apply B. discriminate.
Qed.

Lemma with_val_const_b f e x v sc n m st k r' : bsimE f e x (IVar v) -> agree e sc ->
  (1 <= n)%nat -> (n + f <= m)%nat ->
  bres r' (k st sc v) -> bres r' (with_val_def (E m) x st sc k).
Proof.
  intros B Ha Hn Hm Hk. unfold with_val_def.
  destruct (const_b f e x v sc n m st B Ha Hn Hm) as [P|P].
  - destruct (E m st sc x) as [[st1 sc1] s1]. cbn [sig snd] in P. subst s1. apply bres_panic.
  - rewrite P. exact Hk.
Qed.

(* n >= 1 as soon as the folded side finished *)
Ltac pos_fuel n := destruct n as [|n]; [apply bres_E0|].

(* the continuation is reached only with positive fuel *)
Lemma with_val_b_pos sc x x' st k k' n m :
  keeps (E m) x -> bsim (E n) (E m) sc x x' ->
  ((1 <= n)%nat -> forall st1 v, bres (k' st1 sc v) (k st1 sc v)) ->
  bres (with_val_def (E n) x' st sc k') (with_val_def (E m) x st sc k).
Proof.
  intros K S Hk. destruct n as [|n].
  - unfold with_val_def at 1. rewrite exec_O. apply bres_fuel.
  - apply with_val_b; [exact K|exact S|]. apply Hk. lia.
Qed.

(* ---- constants, names ---- *)
Lemma bc_local f e nm lv i' e' :
  RC (S f) e (ILocal nm lv) = Ok (i', e') -> bsimE (S f) e (ILocal nm lv) i'.
Proof.
  intros H. rewrite recreate_S_ILocal in H. unfold resolve_name in H.
  destruct (lenv_get nm e) as [[ps r|v|t]|] eqn:Hg; cbn [obind scopes_get] in H; try discriminate H;
    injection H as <- <-; intros sc Ha n m st Hm; pos_fuel n; (destruct m as [|m]; [lia|]).
  - rewrite !exec_S_ILocal. apply bres_refl.
  - rewrite exec_S_ILocal, exec_S_IVar, (Ha nm v Hg). apply bres_refl.
  - rewrite !exec_S_ILocal. apply bres_refl.
Qed.

Lemma bc_atom f e i : (forall n st sc, E (S n) st sc i = E 1 st sc i) -> bsimE f e i i.
Proof.
  intros Hi sc Ha n m st Hm. pos_fuel n. destruct m as [|m]; [lia|].
  rewrite (Hi n), (Hi m). apply bres_refl.
Qed.

(* ---- one operand, same continuation ---- *)
Section Wrap.
Variable C : instr -> instr.
Hypothesis HE : exists k, forall n st sc x, E (S n) st sc (C x) = with_val_def (E n) x st sc k.

Lemma wrap_b f e x x' : wfi cl false x = true -> bsimE f e x x' -> bsimE (S f) e (C x) (C x').
Proof.
  intros Wx S sc Ha n m st Hm. pos_fuel n. destruct m as [|m]; [lia|].
  destruct HE as [k HEk]. rewrite !HEk.
  apply with_val_b; [apply (keepsE powf pre cl); exact Wx|intros st0; apply S; [exact Ha|lia]|].
  intros; apply bres_refl.
Qed.

Lemma bc_wrap f (IH : bexpr f) e x i' e' :
  obind (RC f e x) (fun '(x', e) => Ok (C x', e)) = Ok (i', e') ->
  wfi cl false x = true -> (forall x', i' = C x' -> dok i' = true -> dok x' = true) -> dok i' = true ->
  bsimE (S f) e (C x) i'.
Proof.
  intros H Wx Hd D. inv_bind H p Hp. destruct p as [x' e1]. injection H as <- <-.
  apply wrap_b; [exact Wx|]. apply (IH _ _ _ _ Hp Wx (Hd x' eq_refl D)).
Qed.
End Wrap.

(* ---- prefix operators ---- *)
Lemma bc_un f (IH : bexpr f) e op x i' e' :
  RC (S f) e (IUn op x) = Ok (i', e') -> un_ok op = true -> wfi cl false x = true -> dok i' = true ->
  bsimE (S f) e (IUn op x) i'.
Proof.
  intros H Ho Wx D. rewrite recreate_S_IUn in H. inv_bind H p Hp. destruct p as [x' e1].
  inv_bind H r Hr. injection H as <- <-.
  destruct (fold_un_cases _ _ _ Hr) as [[v [w [-> [Hop [Hu ->]]]]]| ->].
  - pose proof (IH _ _ _ _ Hp Wx eq_refl) as Sx.
    intros sc Ha n m st Hm. pos_fuel n. destruct m as [|m]; [lia|].
    rewrite exec_S_IUn, exec_S_IVar.
    apply (with_val_const_b f e x v sc 1 m st _ _ Sx Ha); [lia|lia|].
    destruct Hop as [-> | ->]; cbn [un_dispatch]; rewrite Hu; apply bres_refl.
  - cbn [dok] in D. pose proof (IH _ _ _ _ Hp Wx D) as Sx.
    intros sc Ha n m st Hm. pos_fuel n. destruct m as [|m]; [lia|]. rewrite !exec_S_IUn.
    apply with_val_b_pos; [apply (keepsE powf pre cl); exact Wx|intros st0; apply Sx; [exact Ha|lia]|].
    intros Hn st1 v. apply un_dispatch_up; [exact Hn|lia|exact Ho].
Qed.

(* ---- binary operators other than && and || ---- *)
Lemma bin_b f e op l l' r r' : op <> And -> op <> Or ->
  wfi cl false l = true -> wfi cl false r = true ->
  bsimE f e l l' -> bsimE f e r r' -> bsimE (S f) e (IBin op l r) (IBin op l' r').
Proof.
  intros NA NO Wl Wr Sl Sr sc Ha n m st Hm. pos_fuel n. destruct m as [|m]; [lia|].
  rewrite !exec_S_IBin by assumption.
  apply with_val_b; [apply (keepsE powf pre cl); exact Wl|intros st0; apply Sl; [exact Ha|lia]|].
  intros st1 lv.
  apply with_val_b_pos; [apply (keepsE powf pre cl); exact Wr|intros st0; apply Sr; [exact Ha|lia]|].
  intros Hn st2 rv. apply bin_dispatch_up; try assumption. lia.
Qed.

Lemma bc_bin f (IH : bexpr f) e op l r i' e' : op <> And -> op <> Or ->
  RC (S f) e (IBin op l r) = Ok (i', e') ->
  wfi cl false l = true -> wfi cl false r = true -> dok i' = true ->
  bsimE (S f) e (IBin op l r) i'.
Proof.
  intros NA NO H Wl Wr D. rewrite recreate_S_IBin in H by assumption.
  inv_bind H p Hp. destruct p as [l' e1]. inv_bind H q Hq. destruct q as [r' e2].
  inv_bind H x Hx. injection H as <- <-. pose proof (same1 _ _ _ _ _ Hp Wl) as ->.
  destruct (fold_bin_cases _ _ _ _ _ Hx) as [[a [b [v [-> [-> [Hf [Hv ->]]]]]]]| ->].
  - pose proof (IH _ _ _ _ Hp Wl eq_refl) as Sl. pose proof (IH _ _ _ _ Hq Wr eq_refl) as Sr.
    intros sc Ha n m st Hm. pos_fuel n. destruct m as [|m]; [lia|].
    rewrite exec_S_IBin by assumption. rewrite exec_S_IVar.
    apply (with_val_const_b f e l a sc 1 m st _ _ Sl Ha); [lia|lia|].
    apply (with_val_const_b f e r b sc 1 m st _ _ Sr Ha); [lia|lia|].
    rewrite (bin_dispatch_pure powf pre _ _ _ _ _ _ _ Hf), Hv. apply bres_refl.
  - cbn [dok] in D. apply andb_true_iff in D. destruct D as [Dl Dr].
    apply bin_b; try assumption; [apply (IH _ _ _ _ Hp Wl Dl)|apply (IH _ _ _ _ Hq Wr Dr)].
Qed.

(* ---- && and || ---- *)
Lemma bc_and f (IH : bexpr f) e l r i' e' :
  RC (S f) e (IBin And l r) = Ok (i', e') ->
  wfi cl false l = true -> wfi cl false r = true -> dok i' = true ->
  bsimE (S f) e (IBin And l r) i'.
Proof.
  intros H Wl Wr D. rewrite recreate_S_And in H. inv_bind H p Hp. destruct p as [l' e1].
  pose proof (same1 _ _ _ _ _ Hp Wl) as ->.
  assert (Hc : (exists v, l' = IVar v) \/ is_const l' = false)
    by (destruct l'; try (right; reflexivity); left; eauto).
  destruct Hc as [[v ->]|Hc].
  - pose proof (IH _ _ _ _ Hp Wl eq_refl) as Sl.
    assert (Hv : v = VBool true \/ v <> VBool true).
    { destruct v as [[|]| | | | | | | | |]; try (right; discriminate). left; reflexivity. }
    destruct Hv as [->|Hv].
    + pose proof (IH _ _ _ _ H Wr D) as Sr.
      intros sc Ha n m st Hm. pos_fuel n. destruct m as [|m]; [lia|]. rewrite exec_S_And.
      apply (with_val_const_b f e l _ sc 1 m st _ _ Sl Ha); [lia|lia|].
      apply Sr; [exact Ha|lia].
    + assert (H' : Ok (IVar (VBool false), e) = Ok (i', e')).
      { destruct v as [[|]| | | | | | | | |]; try exact H. exfalso. apply Hv. reflexivity. }
      injection H' as <- <-.
      intros sc Ha n m st Hm. pos_fuel n. destruct m as [|m]; [lia|]. rewrite exec_S_And, exec_S_IVar.
      apply (with_val_const_b f e l _ sc 1 m st _ _ Sl Ha); [lia|lia|].
      destruct v as [[|]| | | | | | | | |]; try apply bres_panic; [exfalso; apply Hv; reflexivity|apply bres_refl].
  - assert (H' : obind (RC f e r) (fun '(r', e) => Ok (IBin And l' r', e)) = Ok (i', e'))
      by (destruct l'; try exact H; discriminate Hc).
    clear H. inv_bind H' q Hq. destruct q as [r' e2]. injection H' as <- <-.
    cbn [dok] in D. apply andb_true_iff in D. destruct D as [Dl Dr].
    pose proof (IH _ _ _ _ Hp Wl Dl) as Sl. pose proof (IH _ _ _ _ Hq Wr Dr) as Sr.
    intros sc Ha n m st Hm. pos_fuel n. destruct m as [|m]; [lia|]. rewrite !exec_S_And.
    apply with_val_b; [apply (keepsE powf pre cl); exact Wl|intros st0; apply Sl; [exact Ha|lia]|].
    intros st1 v. destruct v as [b| | | | | | | | |]; try apply bres_refl.
    destruct b; [apply Sr; [exact Ha|lia]|apply bres_refl].
Qed.

Lemma bc_or f (IH : bexpr f) e l r i' e' :
  RC (S f) e (IBin Or l r) = Ok (i', e') ->
  wfi cl false l = true -> wfi cl false r = true -> dok i' = true ->
  bsimE (S f) e (IBin Or l r) i'.
Proof.
  intros H Wl Wr D. rewrite recreate_S_Or in H. inv_bind H p Hp. destruct p as [l' e1].
  pose proof (same1 _ _ _ _ _ Hp Wl) as ->.
  assert (Hc : (exists v, l' = IVar v) \/ is_const l' = false)
    by (destruct l'; try (right; reflexivity); left; eauto).
  destruct Hc as [[v ->]|Hc].
  - pose proof (IH _ _ _ _ Hp Wl eq_refl) as Sl.
    assert (Hv : v = VBool true \/ v <> VBool true).
    { destruct v as [[|]| | | | | | | | |]; try (right; discriminate). left; reflexivity. }
    destruct Hv as [->|Hv].
    + injection H as <- <-.
      intros sc Ha n m st Hm. pos_fuel n. destruct m as [|m]; [lia|]. rewrite exec_S_Or, exec_S_IVar.
      apply (with_val_const_b f e l _ sc 1 m st _ _ Sl Ha); [lia|lia|]. apply bres_refl.
    + assert (H' : RC f e r = Ok (i', e')).
      { destruct v as [[|]| | | | | | | | |]; try exact H. exfalso. apply Hv. reflexivity. }
      pose proof (IH _ _ _ _ H' Wr D) as Sr.
      intros sc Ha n m st Hm. pos_fuel n. destruct m as [|m]; [lia|]. rewrite exec_S_Or.
      apply (with_val_const_b f e l _ sc 1 m st _ _ Sl Ha); [lia|lia|].
      destruct v as [[|]| | | | | | | | |]; try apply bres_panic; [exfalso; apply Hv; reflexivity|].
      apply Sr; [exact Ha|lia].
  - assert (H' : obind (RC f e r) (fun '(r', e) => Ok (IBin Or l' r', e)) = Ok (i', e'))
      by (destruct l'; try exact H; discriminate Hc).
    clear H. inv_bind H' q Hq. destruct q as [r' e2]. injection H' as <- <-.
    cbn [dok] in D. apply andb_true_iff in D. destruct D as [Dl Dr].
    pose proof (IH _ _ _ _ Hp Wl Dl) as Sl. pose proof (IH _ _ _ _ Hq Wr Dr) as Sr.
    intros sc Ha n m st Hm. pos_fuel n. destruct m as [|m]; [lia|]. rewrite !exec_S_Or.
    apply with_val_b; [apply (keepsE powf pre cl); exact Wl|intros st0; apply Sl; [exact Ha|lia]|].
    intros st1 v. destruct v as [b| | | | | | | | |]; try apply bres_refl.
    destruct b; [apply bres_refl|apply Sr; [exact Ha|lia]].
Qed.

(* ---- expression lists ---- *)
Lemma bexprs f (IH : bexpr f) : forall l e l' e',
  rec_list_def (RC f) l e = Ok (l', e') ->
  forallb (wfi cl false) l = true -> forallb dok l' = true ->
  Forall2 (bsimE f e) l l'.
Proof.
  induction l as [|x l IHl]; intros e l' e' H W D.
  - injection H as <- <-. constructor.
  - cbn [rec_list_def] in H. fold (rec_list_def (RC f)) in H.
    inv_bind H p Hp. destruct p as [x' e1]. inv_bind H q Hq. destruct q as [l1 e2].
    injection H as <- <-.
    cbn [forallb] in W, D. apply andb_true_iff in W. apply andb_true_iff in D.
    destruct W as [Wx Wl]. destruct D as [Dx Dl].
    pose proof (same1 _ _ _ _ _ Hp Wx) as ->.
    constructor; [apply (IH _ _ _ _ Hp Wx Dx)|apply (IHl _ _ _ Hq Wl Dl)].
Qed.

Lemma Forall2_b_at f e sc n m l l' : agree e sc -> (n + f <= m)%nat ->
  Forall2 (bsimE f e) l l' -> Forall2 (bsim (E n) (E m) sc) l l'.
Proof. intros Ha Hm H. induction H; constructor; [intros st; apply H; assumption|assumption]. Qed.

Lemma list_b f e l l' (k : store -> scopes -> list value -> res) (C : list instr -> instr) :
  (forall n st sc l, E (S n) st sc (C l) = with_list_def (E n) l st sc k) ->
  forallb (wfi cl false) l = true -> Forall2 (bsimE f e) l l' -> bsimE (S f) e (C l) (C l').
Proof.
  intros HE W S sc Ha n m st Hm. pos_fuel n. destruct m as [|m]; [lia|]. rewrite !HE.
  apply with_list_b; [apply (keeps_all powf pre cl); exact W|].
  apply (Forall2_b_at f e); [exact Ha|lia|exact S].
Qed.

(* all components folded to constants *)
Lemma list_fold_b f e l vs (k : store -> scopes -> list value -> res) (C : list instr -> instr) w :
  (forall n st sc l, E (S n) st sc (C l) = with_list_def (E n) l st sc k) ->
  (forall st sc, k st sc vs = (st, sc, SVal w)) ->
  forallb (wfi cl false) l = true -> Forall2 (bsimE f e) l (map IVar vs) ->
  bsimE (S f) e (C l) (IVar w).
Proof.
  intros HE Hk W S sc Ha n m st Hm. pos_fuel n. destruct m as [|m]; [lia|].
  rewrite HE, exec_S_IVar.
  pose proof (with_list_b (E 1) (E m) sc l (map IVar vs) st k (keeps_all powf pre cl m l W)
                (Forall2_b_at f e sc 1 m _ _ Ha ltac:(lia) S)) as B.
  unfold with_list_def in B at 1. rewrite ex_list_consts in B. rewrite Hk in B.
  intros _. apply B. discriminate.
Qed.

Lemma bc_tuple f (IH : bexpr f) e es i' e' :
  RC (S f) e (ITuple es) = Ok (i', e') -> forallb (wfi cl false) es = true -> dok i' = true ->
  bsimE (S f) e (ITuple es) i'.
Proof.
  intros H W D. rewrite recreate_S_ITuple in H. inv_bind H p Hp. destruct p as [es' e1].
  destruct (all_vars es') as [vs|] eqn:Hv; injection H as <- <-.
  - apply all_vars_map in Hv. subst es'.
    apply (list_fold_b f e es vs (fun st sc vs => (st, sc, SVal (VTup vs))) ITuple);
      [intros; apply exec_S_ITuple|reflexivity|exact W|].
    apply (bexprs f IH _ _ _ _ Hp W (dok_consts vs)).
  - cbn [dok] in D.
    apply (list_b f e es es' (fun st sc vs => (st, sc, SVal (VTup vs))) ITuple);
      [intros; apply exec_S_ITuple|exact W|]. apply (bexprs f IH _ _ _ _ Hp W D).
Qed.

Lemma bc_array f (IH : bexpr f) e es et i' e' :
  RC (S f) e (IArray es et) = Ok (i', e') -> forallb (wfi cl false) es = true -> dok i' = true ->
  bsimE (S f) e (IArray es et) i'.
Proof.
  intros H W D. rewrite recreate_S_IArray in H. inv_bind H p Hp. destruct p as [es' e1].
  destruct (all_vars es') as [vs|] eqn:Hv; injection H as <- <-.
  - apply all_vars_map in Hv. subst es'.
    apply (list_fold_b f e es vs (fun st sc vs => (st, sc, SVal (arr_of vs))) (fun l => IArray l et));
      [intros; apply exec_S_IArray|reflexivity|exact W|].
    apply (bexprs f IH _ _ _ _ Hp W (dok_consts vs)).
  - cbn [dok] in D.
    apply (list_b f e es es' (fun st sc vs => (st, sc, SVal (arr_of vs))) (fun l => IArray l et));
      [intros; apply exec_S_IArray|exact W|]. apply (bexprs f IH _ _ _ _ Hp W D).
Qed.

(* ---- [v; n] ---- *)
Lemma bc_repeat f (IH : bexpr f) e v len i' e' :
  RC (S f) e (IArrayRepeat v len) = Ok (i', e') ->
  wfi cl false v = true -> wfi cl false len = true -> dok i' = true ->
  bsimE (S f) e (IArrayRepeat v len) i'.
Proof.
  intros H Wv Wl D. rewrite recreate_S_IArrayRepeat in H.
  inv_bind H p Hp. destruct p as [v' e1]. inv_bind H q Hq. destruct q as [len' e2].
  inv_bind H r Hr. injection H as <- <-. pose proof (same1 _ _ _ _ _ Hp Wv) as ->.
  destruct (fold_repeat_cases _ _ _ Hr) as [[x [k [-> [-> [Hn ->]]]]]| ->].
  - pose proof (IH _ _ _ _ Hp Wv eq_refl) as Sv. pose proof (IH _ _ _ _ Hq Wl eq_refl) as Sl.
    intros sc Ha n m st Hm. pos_fuel n. destruct m as [|m]; [lia|].
    rewrite exec_S_IArrayRepeat, exec_S_IVar.
    apply (with_val_const_b f e v x sc 1 m st _ _ Sv Ha); [lia|lia|].
    apply (with_val_const_b f e len _ sc 1 m st _ _ Sl Ha); [lia|lia|].
    rewrite Hn. apply bres_refl.
  - cbn [dok] in D. apply andb_true_iff in D. destruct D as [Dv Dl].
    pose proof (IH _ _ _ _ Hp Wv Dv) as Sv. pose proof (IH _ _ _ _ Hq Wl Dl) as Sl.
    intros sc Ha n m st Hm. pos_fuel n. destruct m as [|m]; [lia|]. rewrite !exec_S_IArrayRepeat.
    apply with_val_b; [apply (keepsE powf pre cl); exact Wv|intros st0; apply Sv; [exact Ha|lia]|].
    intros st1 x.
    apply with_val_b; [apply (keepsE powf pre cl); exact Wl|intros st0; apply Sl; [exact Ha|lia]|].
    intros; apply bres_refl.
Qed.

(* ---- struct literals ---- *)
Lemma bfields f (IH : bexpr f) : forall fs e fs' e',
  rec_fields_def (RC f) fs e = Ok (fs', e') ->
  forallb (fun kv => wfi cl false (snd kv)) fs = true ->
  forallb (fun kv => dok (snd kv)) fs' = true ->
  fields_rel (bsimE f e) fs fs'.
Proof.
  induction fs as [|[k x] fs IHl]; intros e fs' e' H W D.
  - injection H as <- <-. constructor.
  - cbn [rec_fields_def] in H. fold (rec_fields_def (RC f)) in H.
    inv_bind H p Hp. destruct p as [x' e1]. inv_bind H q Hq. destruct q as [l1 e2].
    injection H as <- <-.
    cbn [forallb snd] in W, D. apply andb_true_iff in W. apply andb_true_iff in D.
    destruct W as [Wx Wl]. destruct D as [Dx Dl].
    pose proof (same1 _ _ _ _ _ Hp Wx) as ->.
    constructor; [apply (IH _ _ _ _ Hp Wx Dx)|apply (IHl _ _ _ Hq Wl Dl)].
Qed.

Lemma bc_struct f (IH : bexpr f) e fs i' e' :
  RC (S f) e (IStruct fs) = Ok (i', e') ->
  forallb (fun kv => wfi cl false (snd kv)) fs = true -> dok i' = true ->
  bsimE (S f) e (IStruct fs) i'.
Proof.
  intros H W D. rewrite recreate_S_IStruct in H. inv_bind H p Hp. destruct p as [fs' e1].
  injection H as <- <-. cbn [dok] in D. pose proof (bfields f IH _ _ _ _ Hp W D) as S.
  intros sc Ha n m st Hm. pos_fuel n. destruct m as [|m]; [lia|]. rewrite !exec_S_IStruct.
  apply struct_b.
  - revert W. apply forallb_Forall. intros kv. apply (keepsE powf pre cl).
  - clear -S Ha Hm. induction S; constructor; [intros st0; apply H; [exact Ha|lia]|assumption].
Qed.

(* ---- slices ---- *)
Lemma bopt f (IH : bexpr f) o e o' e' :
  rec_opt_def (RC f) o e = Ok (o', e') -> wf_opt cl o = true -> dok_opt o' = true ->
  e' = e /\ opt_rel (bsimE f e) o o'.
Proof.
  destruct o as [x|]; cbn [rec_opt_def]; intros H W D.
  - inv_bind H p Hp. destruct p as [x' e1]. injection H as <- <-.
    split; [apply (same1 _ _ _ _ _ Hp W)|]. pose proof (same1 _ _ _ _ _ Hp W) as ->.
    apply (IH _ _ _ _ Hp W D).
  - injection H as <- <-. split; [reflexivity|exact I].
Qed.

Lemma opt_b_at f e sc n m o o' : agree e sc -> (n + f <= m)%nat ->
  opt_rel (bsimE f e) o o' -> opt_rel (bsim (E n) (E m) sc) o o'.
Proof. intros Ha Hm. destruct o, o'; cbn [opt_rel]; auto. intros S st. apply S; assumption. Qed.

Lemma bc_slicing f (IH : bexpr f) e l a b c i' e' :
  RC (S f) e (ISlicing l a b c) = Ok (i', e') ->
  wfi cl false l = true -> wf_opt cl a = true -> wf_opt cl b = true -> wf_opt cl c = true ->
  dok i' = true ->
  bsimE (S f) e (ISlicing l a b c) i'.
Proof.
  intros H Wl Wa Wb Wc D. rewrite recreate_S_ISlicing in H.
  inv_bind H p Hp. destruct p as [l' e1]. inv_bind H qa Ha. destruct qa as [a' e2].
  inv_bind H qb Hb. destruct qb as [b' e3]. inv_bind H qc Hc. destruct qc as [c' e4].
  injection H as <- <-. cbn [dok] in D.
  fold (dok_opt a') in D. fold (dok_opt b') in D. fold (dok_opt c') in D.
  repeat rewrite andb_true_iff in D. destruct D as [[[Dl Da] Db] Dc].
  pose proof (same1 _ _ _ _ _ Hp Wl) as ->.
  pose proof (IH _ _ _ _ Hp Wl Dl) as Sl.
  destruct (bopt f IH _ _ _ _ Ha Wa Da) as [-> Sa].
  destruct (bopt f IH _ _ _ _ Hb Wb Db) as [-> Sb].
  destruct (bopt f IH _ _ _ _ Hc Wc Dc) as [-> Sc].
  intros sc Hag n m st Hm. pos_fuel n. destruct m as [|m]; [lia|]. rewrite !exec_S_ISlicing.
  apply with_val_b; [apply (keepsE powf pre cl); exact Wl|intros st0; apply Sl; [exact Hag|lia]|].
  intros st1 lv.
  apply opt_b; [apply (opt_keepsE powf pre cl); exact Wa|apply (opt_b_at f e); [exact Hag|lia|exact Sa]|].
  intros st2 av.
  apply opt_b; [apply (opt_keepsE powf pre cl); exact Wb|apply (opt_b_at f e); [exact Hag|lia|exact Sb]|].
  intros st3 bv.
  apply opt_b; [apply (opt_keepsE powf pre cl); exact Wc|apply (opt_b_at f e); [exact Hag|lia|exact Sc]|].
  intros; apply bres_refl.
Qed.

(* ---- reduce ---- *)
Lemma bc_reduce f (IH : bexpr f) e a b c i' e' :
  RC (S f) e (IReduce a b c) = Ok (i', e') ->
  wfi cl false a = true -> wfi cl false b = true -> wfi cl false c = true -> dok i' = true ->
  bsimE (S f) e (IReduce a b c) i'.
Proof.
  intros H Wa Wb Wc D. rewrite recreate_S_IReduce in H.
  inv_bind H p Hp. destruct p as [a' e1]. inv_bind H q Hq. destruct q as [b' e2].
  inv_bind H r Hr. destruct r as [c' e3]. injection H as <- <-.
  cbn [dok] in D. repeat rewrite andb_true_iff in D. destruct D as [[Da Db] Dc].
  pose proof (same1 _ _ _ _ _ Hp Wa) as ->. pose proof (same1 _ _ _ _ _ Hq Wb) as ->.
  pose proof (IH _ _ _ _ Hp Wa Da) as Sa. pose proof (IH _ _ _ _ Hq Wb Db) as Sb.
  pose proof (IH _ _ _ _ Hr Wc Dc) as Sc.
  intros sc Hag n m st Hm. pos_fuel n. destruct m as [|m]; [lia|]. rewrite !exec_S_IReduce.
  apply with_val_b; [apply (keepsE powf pre cl); exact Wa|intros st0; apply Sa; [exact Hag|lia]|].
  intros st1 itv.
  apply with_val_b; [apply (keepsE powf pre cl); exact Wb|intros st0; apply Sb; [exact Hag|lia]|].
  intros st2 initv.
  apply with_val_b_pos; [apply (keepsE powf pre cl); exact Wc|intros st0; apply Sc; [exact Hag|lia]|].
  intros Hn st3 fv. apply reduce_up; [exact Hn|lia].
Qed.

End Back.

(* ReplChunks.v — REPL = batch for inputs of SEVERAL statements.

   An input of several statements is, for the REPL route, a small batch: all its statements
   are parsed first, against the interpreter as it is when the input arrives (creating scopes
   sc_in, LocalVariables threaded from statement to statement), then run one after the other.
   So at a statement in the middle of an input BOTH routes are "batch-like": route A = the
   batch route (creating scopes sc0, environment eA), route B = the REPL route (creating
   scopes sc_in, environment eB), and the run-time scopes sc agree with both.
   [two_routes_step]: the two folded instructions run to the same result — both equal the run
   of a common re-folding i2' of the un-folded instructions against the current scopes.
   [repl_chunks_eq_batch_prefixes]: [Repl.repl_run] = [Repl.batch_prefixes] for any session of
   non-empty inputs (an empty input prints `()` in the REPL, while the corresponding batch
   prefix prints the previous result).

   Hypotheses per statement ([lines_ok]): as in ReplMain (fragment, both routes accept, [dok],
   exactness — here of both environments —, the un-folded instructions of both routes run, the
   batch one to a value), plus: the common re-folding succeeds (it does whenever no constant
   operation fails, and always for a one-statement input, where it IS the REPL route). *)
From SSL.Model Require Import Base Ty Float Value Ops Seq Syntax Rt Recreate Exec Check Top Repl.
From SSL.Lemmas Require Import ExecLemmas CheckUnfold RecrUnfold RecrMono RecrDefs RecrSim1 RecrSim2 RecrMain
  RecrClos RecrEmbed ReplFrag CheckWfi ReplCR1 ReplCR2 ReplCR3 ReplMain.

Arguments matches : simpl never.

Section Chunks.
Variable powf : fbits -> fbits -> fbits.
Variable pre : prelude.
Variable red : reducers.
Notation E := (exec powf pre).

(* what a route makes of a name, seen from the run-time scopes *)
Lemma leaf_sem scX eX sc n i :
  agree (emb scX eX) sc -> exact eX sc -> res1 scX (lenv_push eX) n = Some i ->
  exists v, scopes_get n sc = Some v /\ rt i = Ok (as_type v) /\ lres sc e_new i = Ok (IVar v).
Proof.
  intros Ha Hx R. apply agree_emb in Ha. destruct Ha as [Ha1 Ha2].
  unfold res1 in R. cbn [lenv_push lenv_get l_vars assoc] in R.
  assert (LR : forall v lv, scopes_get n sc = Some v -> lres sc e_new (ILocal n lv) = Ok (IVar v)).
  { intros v lv Es. cbn [lres]. unfold resolve_name. cbn [e_new lenv_get l_vars assoc]. rewrite Es. reflexivity. }
  destruct (lenv_get n eX) as [lv|] eqn:El.
  - injection R as <-. destruct lv as [ps r|w|t]; cbn [leaf_of].
    + destruct (Hx n _ El ltac:(intros ? C; discriminate C)) as [v [Ev Et]].
      exists v. split; [exact Ev|]. split; [cbn [rt]; rewrite Et; reflexivity|apply LR; exact Ev].
    + exists w. split; [apply (Ha1 n w El)|]. split; reflexivity.
    + destruct (Hx n _ El ltac:(intros ? C; discriminate C)) as [v [Ev Et]].
      exists v. split; [exact Ev|]. split; [cbn [rt]; rewrite Et; reflexivity|apply LR; exact Ev].
  - destruct (scopes_get n scX) as [w|] eqn:E0; [|discriminate R]. injection R as <-.
    exists w. split; [apply (Ha2 n w El E0)|]. split; reflexivity.
Qed.

Lemma cons3_two scA eA scB eB sc :
  agree (emb scA eA) sc -> agree (emb scB eB) sc -> exact eA sc -> exact eB sc ->
  cons3 sc scA scB (lenv_push eA) (lenv_push eB) e_new.
Proof.
  intros HaA HaB HxA HxB n iA iB RA RB.
  destruct (leaf_sem scA eA sc n iA HaA HxA RA) as [v [Ev [Et El]]].
  destruct (leaf_sem scB eB sc n iB HaB HxB RB) as [v' [Ev' [Et' El']]].
  rewrite Ev in Ev'. injection Ev' as <-. split; [rewrite Et, Et'; reflexivity|rewrite El, El'; reflexivity].
Qed.

(* ONE STATEMENT, two routes *)
Theorem two_routes_step pf scA eA scB eB sc ln iA eA1 iA' eA' iB eB1 iB' eB' i2' e2' :
  rfl ln = true -> eA <> [] -> eB <> [] ->
  check_lines red pf scA (lenv_push eA) [ln] = Ok ([iA], eA1) -> recreate powf pf scA eA iA = Ok (iA', eA') ->
  check_lines red pf scB (lenv_push eB) [ln] = Ok ([iB], eB1) -> recreate powf pf scB eB iB = Ok (iB', eB') ->
  recreate powf pf sc e_new iA = Ok (i2', e2') ->
  dok iA' = true -> dok iB' = true -> dok i2' = true ->
  agree (emb scA eA) sc -> agree (emb scB eB) sc -> exact eA sc -> exact eB sc ->
  (forall n st, okr (E n st sc iA) -> okr (E n st sc iB) ->
     E n st sc iA' = E n st sc iA /\ E n st sc iB' = E n st sc iA /\ E n st sc iB = E n st sc iA) /\
  (forall n st st1 sc1 v, E n st sc iA = (st1, sc1, SVal v) -> agree (emb scA eA') sc1) /\
  (forall n st st1 sc1 v, E n st sc iB = (st1, sc1, SVal v) -> agree (emb scB eB') sc1) /\
  eA' <> [] /\ eB' <> [].
Proof.
  intros F NeA NeB CA RA CB RB R2 DA DB D2 HaA HaB HxA HxB.
  pose proof (CR_top_line powf red sc scA scB pf _ _ ln iA iB eA1 eB1 e_new
                (cons3_two scA eA scB eB sc HaA HaB HxA HxB) F CA CB) as [_ Rq].
  assert (R2B : recreate powf pf sc e_new iB = Ok (i2', e2')) by (rewrite <- (Rq pf); exact R2).
  assert (WA : wfi true true iA = true).
  { pose proof (cl_wfi red pf _ _ [ln] _ _ ltac:(cbn [forallb]; rewrite F; reflexivity) CA) as W.
    cbn [forallb] in W. apply andb_true_iff in W. apply W. }
  assert (WB : wfi true true iB = true).
  { pose proof (cl_wfi red pf _ _ [ln] _ _ ltac:(cbn [forallb]; rewrite F; reflexivity) CB) as W.
    cbn [forallb] in W. apply andb_true_iff in W. apply W. }
  destruct (recreate_emb powf scA pf eA iA iA' eA' NeA RA) as [EA NA].
  destruct (recreate_emb powf scB pf eB iB iB' eB' NeB RB) as [EB NB].
  destruct (recreate_emb powf sc pf e_new iA i2' e2' ltac:(discriminate) R2) as [E2A _].
  destruct (recreate_emb powf sc pf e_new iB i2' e2' ltac:(discriminate) R2B) as [E2B _].
  destruct (sim_line1 powf pre pf _ _ _ _ EA WA DA sc HaA) as [SA PA].
  destruct (sim_line1 powf pre pf _ _ _ _ EB WB DB sc HaB) as [SB PB].
  destruct (sim_line1 powf pre pf _ _ _ _ E2A WA D2 sc (agree_emb_self sc e_new e_new_get)) as [S2A _].
  destruct (sim_line1 powf pre pf _ _ _ _ E2B WB D2 sc (agree_emb_self sc e_new e_new_get)) as [S2B _].
  split; [|split; [exact PA|split; [exact PB|split; assumption]]].
  intros n st OA OB.
  assert (EAB : E n st sc iB = E n st sc iA) by (rewrite <- (S2A n st OA); symmetry; apply (S2B n st OB)).
  split; [apply (SA n st OA)|]. split; [rewrite (SB n st OB); exact EAB|exact EAB].
Qed.

(* the statements of one input, the data of both routes, and where they lead *)
Inductive lines_ok (pf n : nat) (scA scB : scopes) :
  lenv -> lenv -> store -> scopes -> list sline -> lenv -> lenv -> store -> scopes -> value -> Prop :=
| LO_last eA eB st sc ln iA eA1 iA' eA' iB eB1 iB' eB' i2' e2' st1 sc1 v :
    rfl ln = true ->
    check_lines red pf scA (lenv_push eA) [ln] = Ok ([iA], eA1) -> recreate powf pf scA eA iA = Ok (iA', eA') ->
    check_lines red pf scB (lenv_push eB) [ln] = Ok ([iB], eB1) -> recreate powf pf scB eB iB = Ok (iB', eB') ->
    recreate powf pf sc e_new iA = Ok (i2', e2') ->
    dok iA' = true -> dok iB' = true -> dok i2' = true -> exact eA sc -> exact eB sc ->
    E n st sc iA = (st1, sc1, SVal v) -> okr (E n st sc iB) ->
    lines_ok pf n scA scB eA eB st sc [ln] eA' eB' st1 sc1 v
| LO_cons eA eB st sc ln rest iA eA1 iA' eA' iB eB1 iB' eB' i2' e2' st1 sc1 v eA2 eB2 st2 sc2 v2 :
    rfl ln = true ->
    check_lines red pf scA (lenv_push eA) [ln] = Ok ([iA], eA1) -> recreate powf pf scA eA iA = Ok (iA', eA') ->
    check_lines red pf scB (lenv_push eB) [ln] = Ok ([iB], eB1) -> recreate powf pf scB eB iB = Ok (iB', eB') ->
    recreate powf pf sc e_new iA = Ok (i2', e2') ->
    dok iA' = true -> dok iB' = true -> dok i2' = true -> exact eA sc -> exact eB sc ->
    E n st sc iA = (st1, sc1, SVal v) -> okr (E n st sc iB) ->
    lines_ok pf n scA scB eA' eB' st1 sc1 rest eA2 eB2 st2 sc2 v2 ->
    lines_ok pf n scA scB eA eB st sc (ln :: rest) eA2 eB2 st2 sc2 v2.

(* both routes parse the input, and running what they built leads to the same state *)
Lemma lines_run pf n scA scB eA eB st sc lines eA2 eB2 st2 sc2 v2 :
  lines_ok pf n scA scB eA eB st sc lines eA2 eB2 st2 sc2 v2 ->
  agree (emb scA eA) sc -> agree (emb scB eB) sc -> eA <> [] -> eB <> [] ->
  exists isA isB,
    parse_top powf red pf scA eA lines = Ok (isA, eA2) /\
    parse_top powf red pf scB eB lines = Ok (isB, eB2) /\
    (forall last, run_code powf pre n st sc isA last = (st2, sc2, SVal v2)) /\
    (forall last, run_code powf pre n st sc isB last = (st2, sc2, SVal v2)) /\
    agree (emb scA eA2) sc2 /\ eA2 <> [].
Proof.
  induction 1 as [eA eB st sc ln iA eA1 iA' eA' iB eB1 iB' eB' i2' e2' st1 sc1 v F CA RA CB RB R2 DA DB D2 HxA HxB Hex OB
                 |eA eB st sc ln rest iA eA1 iA' eA' iB eB1 iB' eB' i2' e2' st1 sc1 v eA2 eB2 st2 sc2 v2
                  F CA RA CB RB R2 DA DB D2 HxA HxB Hex OB _ IH];
    intros HaA HaB NeA NeB;
    destruct (two_routes_step pf scA eA scB eB sc ln iA eA1 iA' eA' iB eB1 iB' eB' i2' e2'
                F NeA NeB CA RA CB RB R2 DA DB D2 HaA HaB HxA HxB) as [S [PA [PB [NA NB]]]];
    destruct (S n st ltac:(rewrite Hex; apply okr_val) OB) as [SA [SB SAB]].
  - exists [iA'], [iB'].
    rewrite (parse_top_one powf red pf scA eA ln [iA] eA1 iA iA' eA' CA eq_refl RA []).
    rewrite (parse_top_one powf red pf scB eB ln [iB] eB1 iB iB' eB' CB eq_refl RB []).
    cbn [parse_top obind run_code]. rewrite SA, SB, Hex.
    split; [reflexivity|]. split; [reflexivity|]. split; [reflexivity|]. split; [reflexivity|].
    split; [apply (PA n st st1 sc1 v Hex)|exact NA].
  - assert (HexB : E n st sc iB = (st1, sc1, SVal v)) by (rewrite SAB; exact Hex).
    destruct (IH (PA n st st1 sc1 v Hex) (PB n st st1 sc1 v HexB) NA NB)
      as [isA [isB [PTA [PTB [RA' [RB' [Hag Hne]]]]]]].
    exists (iA' :: isA), (iB' :: isB).
    rewrite (parse_top_one powf red pf scA eA ln [iA] eA1 iA iA' eA' CA eq_refl RA rest), PTA.
    rewrite (parse_top_one powf red pf scB eB ln [iB] eB1 iB iB' eB' CB eq_refl RB rest), PTB.
    cbn [obind run_code]. rewrite SA, SB, Hex.
    split; [reflexivity|]. split; [reflexivity|]. split; [intros; apply RA'|]. split; [intros; apply RB'|].
    split; assumption.
Qed.

Variable sc0 : scopes.

(* a session: every input is non-empty; the REPL route parses it against the current scopes *)
Inductive sess_ok2 (pf n : nat) : lenv -> store -> scopes -> list (list sline) -> Prop :=
| S2_nil e_b st sc : sess_ok2 pf n e_b st sc []
| S2_cons e_b st sc input rest e_b' e_r' st' sc' v :
    lines_ok pf n sc0 sc e_b e_new st sc input e_b' e_r' st' sc' v ->
    sess_ok2 pf n e_b' st' sc' rest ->
    sess_ok2 pf n e_b st sc (input :: rest).

Lemma run_code_app n : forall is1 st sc is2 last,
  run_code powf pre n st sc (is1 ++ is2) last =
  match run_code powf pre n st sc is1 last with
  | (st1, sc1, SVal v) => run_code powf pre n st1 sc1 is2 v
  | r => r
  end.
Proof.
  induction is1 as [|i is1 IH]; intros st sc is2 last; [reflexivity|].
  cbn [app run_code]. destruct (E n st sc i) as [[st1 sc1] s1]. destruct s1; try reflexivity. apply IH.
Qed.

Lemma prefixes_map_app {A B} (c : list A) (l : list (list A)) (f : list A -> B) :
  map f (map (fun p => c ++ p) (prefixes l)) = map (fun p => f (c ++ p)) (prefixes l).
Proof. rewrite map_map. reflexivity. Qed.

(* the induction: [done] = the statements of the inputs already processed *)
Lemma session_chunks pf n st0 : forall inputs e_b st sc done done_is,
  sess_ok2 pf n e_b st sc inputs ->
  parse_top powf red pf sc0 e_new done = Ok (done_is, e_b) ->
  (forall last, exists v, run_code powf pre n st0 sc0 done_is last = (st, sc, SVal v)) ->
  agree (emb sc0 e_b) sc -> e_b <> [] ->
  repl_run powf pre red pf n (mkI st sc) inputs =
  map (fun p => batch_run powf pre red pf n (mkI st0 sc0) (done ++ p)) (prefixes inputs).
Proof.
  induction inputs as [|input rest IH]; intros e_b st sc done done_is H PD RD Ha Ne; [reflexivity|].
  inversion H as [|? ? ? ? ? e_b' e_r' st' sc' v HL HS]; subst.
  destruct (lines_run pf n sc0 sc e_b e_new st sc input e_b' e_r' st' sc' v HL Ha
              (agree_emb_self sc e_new e_new_get) Ne ltac:(discriminate))
    as [isA [isB [PTA [PTB [RA [RB [Hag Hne]]]]]]].
  cbn [prefixes map repl_run].
  (* the REPL step *)
  assert (ER : repl_step powf pre red pf n (mkI st sc) input = (InRan (SVal v), mkI st' sc')).
  { unfold repl_step, parse_in. cbn [i_scopes i_store]. rewrite PTB, (RB VVoid). reflexivity. }
  rewrite ER.
  (* the batch route on the prefix *)
  assert (PP : parse_top powf red pf sc0 e_new (done ++ input) = Ok (done_is ++ isA, e_b')).
  { rewrite (parse_top_app powf red pf sc0 done e_new input), PD. cbn [obind]. rewrite PTA. reflexivity. }
  assert (EB : batch_run powf pre red pf n (mkI st0 sc0) (done ++ input) = (InRan (SVal v), mkI st' sc')).
  { unfold batch_run, repl_step, parse_in. cbn [i_scopes i_store]. rewrite PP, run_code_app.
    destruct (RD VVoid) as [w Hw]. rewrite Hw, (RA w). reflexivity. }
  rewrite EB. f_equal.
  rewrite (prefixes_map_app input rest).
  rewrite (IH e_b' st' sc' (done ++ input) (done_is ++ isA) HS PP) ; [| |exact Hag|exact Hne].
  - apply map_ext. intros p. rewrite app_assoc. reflexivity.
  - intros last. rewrite run_code_app. destruct (RD last) as [w Hw]. rewrite Hw. exists v. apply RA.
Qed.

(* REPL = batch for inputs of several statements *)
Theorem repl_chunks_eq_batch_prefixes pf n st0 inputs :
  sess_ok2 pf n e_new st0 sc0 inputs ->
  repl_run powf pre red pf n (mkI st0 sc0) inputs = batch_prefixes powf pre red pf n (mkI st0 sc0) inputs.
Proof.
  intros H. unfold batch_prefixes.
  destruct inputs as [|input rest]; [reflexivity|].
  (* the first input starts from the start state: [done] is empty but no value has been produced yet *)
  inversion H as [|? ? ? ? ? e_b' e_r' st' sc' v HL HS]; subst.
  destruct (lines_run pf n sc0 sc0 e_new e_new st0 sc0 input e_b' e_r' st' sc' v HL
              (agree_emb_self sc0 e_new e_new_get) (agree_emb_self sc0 e_new e_new_get)
              ltac:(discriminate) ltac:(discriminate))
    as [isA [isB [PTA [PTB [RA [RB [Hag Hne]]]]]]].
  cbn [prefixes map repl_run].
  assert (ER : repl_step powf pre red pf n (mkI st0 sc0) input = (InRan (SVal v), mkI st' sc')).
  { unfold repl_step, parse_in. cbn [i_scopes i_store]. rewrite PTB, (RB VVoid). reflexivity. }
  rewrite ER. unfold batch_run at 1. rewrite ER. f_equal.
  rewrite (prefixes_map_app input rest).
  rewrite (session_chunks pf n st0 rest e_b' st' sc' input isA HS PTA); [reflexivity| |exact Hag|exact Hne].
  intros last. exists v. apply RA.
Qed.

End Chunks.

(* RecrErr.v — the error clause of C04: the only errors the folding pass reports.

   [recreate_err_site]: if [recreate] (any fuel, any creating scopes, any environment, any
   instruction) answers [Err x], then x comes from one of four places ([fold_site x]):
     - an operator applied to two CONSTANTS that fails with x whenever it is evaluated
       ([exec_bin powf op a b = Err x]);
     - one of the characterised early errors of an operation with one constant operand
       ([early_error]: zero divisor, shift amount outside 0..63, index outside an array
       literal);
     - a prefix operator on a constant that fails with x;
     - [v; n] with a constant negative n.
   [const_site_runtime], [early_site_runtime], [neg_len_runtime]: the un-folded operation,
   once its operands are evaluated, fails with that same error (or, for an ill-typed left
   operand that the checker excludes, panics). *)
From SSL.Model Require Import Base Ty Float Value Ops Seq Syntax Rt Recreate Exec Check.
From SSL.Lemmas Require Import ExecLemmas FoldLemmas SeqLemmas RecrUnfold CheckTotal RecrMono RecrDefs RecrSim1 RecrSim2.

Arguments matches : simpl never.
Local Open Scope Z_scope.

Lemma obind_err {A B} (o : outcome A) (k : A -> outcome B) x :
  obind o k = Err x -> o = Err x \/ exists a, o = Ok a /\ k a = Err x.
Proof. destruct o; cbn [obind]; intros H; try discriminate H; [right; eauto|left; injection H as ->; reflexivity]. Qed.

Section Err.
Variable powf : fbits -> fbits -> fbits.

Inductive fold_site (x : Z) : Prop :=
| FS_const (op : binop) (a b : value) :
    foldable op = true \/ op = At -> exec_bin powf op a b = Err x -> fold_site x
| FS_early (op : binop) (l r : instr) : early_error op l r x -> fold_site x
| FS_un (op : unop) (v : value) : unop_exec op v = Err x -> fold_site x
| FS_neg_len (n : Z) : n < 0 -> x = E_NegativeLength -> fold_site x.

Lemma fold_bin_err op l r x : fold_bin powf op l r = Err x -> fold_site x.
Proof.
  intros H. destruct (foldable_dec op) as [Hf|[Hf HA]].
  - destruct (is_const l && is_const r) eqn:Ec.
    + apply andb_true_iff in Ec. destruct Ec as [Cl Cr].
      destruct l; try discriminate Cl. destruct r; try discriminate Cr.
      apply (FS_const x op v v0 Hf). apply (fold_bin_const_err powf op v v0 x Hf H).
    + apply (FS_early x op l r). apply (fold_bin_nonconst_err powf op l r x Ec). exact H.
  - rewrite (fold_bin_unfolded powf op l r Hf HA) in H. discriminate H.
Qed.

Lemma fold_un_err op i x : fold_un op i = Err x -> fold_site x.
Proof.
  unfold fold_un, lift_val. intros H.
  destruct op; try discriminate H; destruct i; try discriminate H;
    (destruct (unop_exec _ v) as [w| | |] eqn:Eu; cbn [obind] in H; try discriminate H);
    injection H as <-; eapply FS_un; exact Eu.
Qed.

Lemma fold_repeat_err v len x : fold_repeat v len = Err x -> fold_site x.
Proof.
  unfold fold_repeat. intros H.
  destruct len as [ | | | | | | | | | | | | | | | | | | | | | |w| | ]; try discriminate H.
  destruct w as [|n| | | | | | | |]; try discriminate H.
  destruct (n <? 0) eqn:En; [|destruct v; discriminate H].
  injection H as <-. apply (FS_neg_len _ n); [apply Z.ltb_lt; exact En|reflexivity].
Qed.

Lemma lvar_of_instr_no_err i x : lvar_of_instr i <> Err x.
Proof.
  destruct (rt_total i) as [T HT].
  destruct i; cbn [lvar_of_instr]; try discriminate; rewrite HT; discriminate.
Qed.

Lemma zip_no_err {A} (g : A -> outcome lvar) x : (forall a, g a <> Err x) ->
  forall ids xs e, zip_insert g ids xs e <> Err x.
Proof.
  intros Hg. induction ids as [|n ids IH]; intros xs e; [discriminate|].
  destruct xs as [|a xs]; [discriminate|]. rewrite zip_cons.
  intros H. apply obind_err in H. destruct H as [H|[lv [_ H]]]; [exact (Hg a H)|exact (IH _ _ H)].
Qed.

Lemma destruct_insert_no_err ids i e x : destruct_insert ids i e <> Err x.
Proof.
  assert (G : forall t : ty, Ok (LOther t) <> Err x) by discriminate.
  destruct (rt_total i) as [T HT].
  destruct i; cbn [destruct_insert];
    try (rewrite HT; cbn [obind];
         destruct (flatten_tuple T); apply zip_no_err; exact G).
  - apply zip_no_err. intros a. apply lvar_of_instr_no_err.
  - destruct v; try (rewrite HT; cbn [obind]; destruct (flatten_tuple T); apply zip_no_err; exact G).
    apply zip_no_err. discriminate.
Qed.

Variable sc : scopes.
Notation RC f := (recreate powf f sc).

Definition errs (f : nat) : Prop := forall e i x, RC f e i = Err x -> fold_site x.

Ltac split_err H :=
  let a := fresh "a" in let Ha := fresh "Ha" in
  apply obind_err in H; destruct H as [H|[a [Ha H]]]; cbv beta iota in H.

Lemma errs_list f (IH : errs f) : forall l e x, rec_list_def (RC f) l e = Err x -> fold_site x.
Proof.
  induction l as [|y l IHl]; intros e x H; [discriminate H|].
  cbn [rec_list_def] in H. fold (rec_list_def (RC f)) in H.
  split_err H; [exact (IH _ _ _ H)|]. destruct a as [y' e1].
  split_err H; [exact (IHl _ _ H)|]. destruct a as [l' e2]. discriminate H.
Qed.

Lemma errs_opt f (IH : errs f) o e x : rec_opt_def (RC f) o e = Err x -> fold_site x.
Proof.
  destruct o as [y|]; cbn [rec_opt_def]; intros H; [|discriminate H].
  split_err H; [exact (IH _ _ _ H)|]. destruct a. discriminate H.
Qed.

Lemma errs_fields f (IH : errs f) : forall l e x, rec_fields_def (RC f) l e = Err x -> fold_site x.
Proof.
  induction l as [|[k y] l IHl]; intros e x H; [discriminate H|].
  cbn [rec_fields_def] in H. fold (rec_fields_def (RC f)) in H.
  split_err H; [exact (IH _ _ _ H)|]. destruct a as [y' e1].
  split_err H; [exact (IHl _ _ H)|]. destruct a as [l' e2]. discriminate H.
Qed.

Lemma errs_arm f (IH : errs f) a e x : rec_arm_def (RC f) a e = Err x -> fold_site x.
Proof.
  destruct a as [n t b|cs b|b]; cbn [rec_arm_def]; intros H.
  - split_err H; [exact (IH _ _ _ H)|]. destruct a. discriminate H.
  - split_err H; [exact (errs_list f IH _ _ _ H)|]. destruct a as [cs' e1].
    split_err H; [exact (IH _ _ _ H)|]. destruct a. discriminate H.
  - split_err H; [exact (IH _ _ _ H)|]. destruct a. discriminate H.
Qed.

Lemma errs_arms f (IH : errs f) : forall l e x, rec_arms_def (RC f) l e = Err x -> fold_site x.
Proof.
  induction l as [|a l IHl]; intros e x H; [discriminate H|].
  cbn [rec_arms_def] in H. fold (rec_arms_def (RC f)) in H.
  split_err H; [exact (errs_arm f IH _ _ _ H)|]. destruct a0 as [a' e1].
  split_err H; [exact (IHl _ _ H)|]. destruct a0 as [l' e2]. discriminate H.
Qed.

Lemma errs_S f : errs f -> errs (S f).
Proof.
  intros IH e i x H. destruct i.
  - (* IAnonFn *) rewrite recreate_S_IAnonFn in H.
    split_err H; [exact (errs_list f IH _ _ _ H)|]. destruct a. discriminate H.
  - (* IArray *) rewrite recreate_S_IArray in H.
    split_err H; [exact (errs_list f IH _ _ _ H)|]. destruct a as [es' e1].
    destruct (all_vars es'); discriminate H.
  - (* IArrayRepeat *) rewrite recreate_S_IArrayRepeat in H.
    split_err H; [exact (IH _ _ _ H)|]. destruct a as [v' e1].
    split_err H; [exact (IH _ _ _ H)|]. destruct a as [l' e2].
    split_err H; [exact (fold_repeat_err _ _ _ H)|]. discriminate H.
  - (* IBlock *) rewrite recreate_S_IBlock in H.
    split_err H; [exact (errs_list f IH _ _ _ H)|]. destruct a. discriminate H.
  - rewrite recreate_S_IBreak in H. discriminate H.
  - rewrite recreate_S_IContinue in H. discriminate H.
  - (* IDestruct *) rewrite recreate_S_IDestruct in H.
    split_err H; [exact (IH _ _ _ H)|]. destruct a as [x' e1].
    split_err H; [exfalso; exact (destruct_insert_no_err _ _ _ _ H)|]. discriminate H.
  - rewrite recreate_S_IFieldAccess in H.
    split_err H; [exact (IH _ _ _ H)|]. destruct a. discriminate H.
  - (* IFnDecl *) rewrite recreate_S_IFnDecl in H.
    split_err H; [exact (errs_list f IH _ _ _ H)|]. destruct a. discriminate H.
  - (* IIfElse *) rewrite recreate_S_IIfElse in H.
    split_err H; [exact (IH _ _ _ H)|]. destruct a as [c' e1].
    assert (G : forall H' : obind (RC f e1 i2) (fun '(t', e) => obind (RC f e i3) (fun '(f', e0) =>
                  Ok (IIfElse c' t' f', e0))) = Err x, fold_site x).
    { intros H'. split_err H'; [exact (IH _ _ _ H')|]. destruct a as [t' e2].
      split_err H'; [exact (IH _ _ _ H')|]. destruct a. discriminate H'. }
    destruct c'; try exact (G H). destruct v; try exact (G H). destruct b; exact (IH _ _ _ H).
  - (* ILocal *) rewrite recreate_S_ILocal in H. unfold resolve_name in H.
    destruct (lenv_get n e) as [[ | | ]|]; try discriminate H.
    destruct (scopes_get n sc); discriminate H.
  - rewrite recreate_S_ILoop in H.
    split_err H; [exact (IH _ _ _ H)|]. destruct a. discriminate H.
  - (* IMatch *) rewrite recreate_S_IMatch in H.
    split_err H; [exact (IH _ _ _ H)|]. destruct a as [x' e1].
    split_err H; [exact (errs_arms f IH _ _ _ H)|]. destruct a. discriminate H.
  - rewrite recreate_S_IMut in H.
    split_err H; [exact (IH _ _ _ H)|]. destruct a. discriminate H.
  - (* IReduce *)
    change (RC (S f) e (IReduce i1 i2 i3)) with
      (obind (RC f e i1) (fun '(it', e) => obind (RC f e i2) (fun '(init', e) =>
       obind (RC f e i3) (fun '(f', e) => Ok (IReduce it' init' f', e))))) in H.
    split_err H; [exact (IH _ _ _ H)|]. destruct a as [a' e1].
    split_err H; [exact (IH _ _ _ H)|]. destruct a as [b' e2].
    split_err H; [exact (IH _ _ _ H)|]. destruct a. discriminate H.
  - (* ISet *) rewrite recreate_S_ISet in H.
    split_err H; [exact (IH _ _ _ H)|]. destruct a as [x' e1].
    split_err H; [exfalso; exact (lvar_of_instr_no_err _ _ H)|]. discriminate H.
  - (* ISetIfElse *) rewrite recreate_S_ISetIfElse in H.
    split_err H; [exact (IH _ _ _ H)|]. destruct a as [x' e1].
    split_err H; [exact (IH _ _ _ H)|]. destruct a as [a' e2].
    split_err H; [exact (IH _ _ _ H)|]. destruct a. discriminate H.
  - (* ISlicing *) rewrite recreate_S_ISlicing in H.
    split_err H; [exact (IH _ _ _ H)|]. destruct a0 as [l' e1].
    split_err H; [exact (errs_opt f IH _ _ _ H)|]. destruct a0 as [a' e2].
    split_err H; [exact (errs_opt f IH _ _ _ H)|]. destruct a0 as [b' e3].
    split_err H; [exact (errs_opt f IH _ _ _ H)|]. destruct a0. discriminate H.
  - rewrite recreate_S_IStruct in H.
    split_err H; [exact (errs_fields f IH _ _ _ H)|]. destruct a. discriminate H.
  - (* ITuple *) rewrite recreate_S_ITuple in H.
    split_err H; [exact (errs_list f IH _ _ _ H)|]. destruct a as [es' e1].
    destruct (all_vars es'); discriminate H.
  - rewrite recreate_S_ITupleAccess in H.
    split_err H; [exact (IH _ _ _ H)|]. destruct a. discriminate H.
  - change (RC (S f) e (ITypeFilter i t)) with
      (obind (RC f e i) (fun '(x', e) => Ok (ITypeFilter x' t, e))) in H.
    split_err H; [exact (IH _ _ _ H)|]. destruct a. discriminate H.
  - rewrite recreate_S_IVar in H. discriminate H.
  - (* IBin *)
    destruct (binop_eq_dec op And) as [->|NA].
    { rewrite recreate_S_And in H. split_err H; [exact (IH _ _ _ H)|]. destruct a as [l' e1].
      assert (G : forall H' : obind (RC f e1 i2) (fun '(r', e) => Ok (IBin And l' r', e)) = Err x,
                  fold_site x).
      { intros H'. split_err H'; [exact (IH _ _ _ H')|]. destruct a. discriminate H'. }
      destruct l'; try exact (G H). destruct v; try discriminate H.
      destruct b; [exact (IH _ _ _ H)|discriminate H]. }
    destruct (binop_eq_dec op Or) as [->|NO].
    { rewrite recreate_S_Or in H. split_err H; [exact (IH _ _ _ H)|]. destruct a as [l' e1].
      assert (G : forall H' : obind (RC f e1 i2) (fun '(r', e) => Ok (IBin Or l' r', e)) = Err x,
                  fold_site x).
      { intros H'. split_err H'; [exact (IH _ _ _ H')|]. destruct a. discriminate H'. }
      destruct l'; try exact (G H). destruct v; try exact (IH _ _ _ H).
      destruct b; [discriminate H|exact (IH _ _ _ H)]. }
    rewrite recreate_S_IBin in H by assumption.
    split_err H; [exact (IH _ _ _ H)|]. destruct a as [l' e1].
    split_err H; [exact (IH _ _ _ H)|]. destruct a as [r' e2].
    split_err H; [exact (fold_bin_err _ _ _ _ H)|]. discriminate H.
  - (* IUn *) rewrite recreate_S_IUn in H.
    split_err H; [exact (IH _ _ _ H)|]. destruct a as [x' e1].
    split_err H; [exact (fold_un_err _ _ _ H)|]. discriminate H.
Qed.

Theorem recreate_err_site : forall f e i x, RC f e i = Err x -> fold_site x.
Proof.
  induction f as [|f IH]; [intros e i x H; rewrite recreate_O in H; discriminate H|].
  apply errs_S. exact IH.
Qed.

End Err.

(* ================================================================= *)
(* the run-time side                                                  *)
(* ================================================================= *)
Section Runtime.
Variable powf : fbits -> fbits -> fbits.
Variable pre : prelude.
Notation E := (exec powf pre).

(* two constant operands: the un-folded operation fails with the same error as soon as
   its operands have been evaluated (to those constants) *)
Theorem const_site_runtime op a b x ex m st sc :
  foldable op = true \/ op = At -> exec_bin powf op a b = Err x ->
  bin_dispatch powf pre ex m op a b st sc = (st, sc, SError x).
Proof. intros Hf Hx. rewrite (bin_dispatch_pure powf pre _ _ _ _ _ _ _ Hf), Hx. reflexivity. Qed.

Lemma ex_list_length ex l : forall st sc st' sc' vs s,
  ex_list_def ex l st sc = (st', sc', Ok vs, s) -> length vs = length l.
Proof.
  intros st sc st' sc' vs s H. destruct (ex_list_shape ex l st sc st' sc' (Ok vs) s H) as [[ws [Hw [_ L]]]|[C _]].
  - injection Hw as ->. exact L.
  - discriminate C.
Qed.

(* one constant operand: whatever the other operand evaluates to, the operation fails with
   the early error — or panics on an operand of a type the checker excludes *)
Theorem early_site_runtime op l r x : early_error op l r x ->
  forall n st sc st1 sc1 lv st2 sc2 rv m,
    E n st sc l = (st1, sc1, SVal lv) -> E n st1 sc1 r = (st2, sc2, SVal rv) ->
    sig (bin_dispatch powf pre (E n) m op lv rv st2 sc2) = SError x \/
    sig (bin_dispatch powf pre (E n) m op lv rv st2 sc2) = SPanic.
Proof.
  intros [(-> & -> & ->)|[(-> & -> & ->)|[(Ho & s & -> & Hs & ->)|(-> & es & t & i & -> & -> & Hi & ->)]]];
    intros n st sc st1 sc1 lv st2 sc2 rv m Hl Hr.
  - destruct n as [|n]; [rewrite exec_O in Hr; discriminate Hr|]. rewrite exec_S_IVar in Hr.
    injection Hr as _ _ <-. left.
    rewrite (bin_dispatch_pure powf pre _ _ Divide _ _ _ _ (or_introl eq_refl)).
    cbn [exec_bin]. rewrite div_zero_any. reflexivity.
  - destruct n as [|n]; [rewrite exec_O in Hr; discriminate Hr|]. rewrite exec_S_IVar in Hr.
    injection Hr as _ _ <-. left.
    rewrite (bin_dispatch_pure powf pre _ _ Modulo _ _ _ _ (or_introl eq_refl)).
    cbn [exec_bin]. rewrite mod_zero_any. reflexivity.
  - destruct n as [|n]; [rewrite exec_O in Hr; discriminate Hr|]. rewrite exec_S_IVar in Hr.
    injection Hr as _ _ <-.
    assert (Hf : foldable op = true \/ op = At) by (destruct Ho as [-> | ->]; left; reflexivity).
    rewrite (bin_dispatch_pure powf pre _ _ op _ _ _ _ Hf).
    destruct (proj2 (shift_out_shape powf op lv s Ho Hs)) as [H|H];
      (replace (exec_bin powf op lv (VInt s)) with (op_exec powf op lv (VInt s))
         by (destruct Ho as [-> | ->]; reflexivity));
      rewrite H; [left|right]; reflexivity.
  - destruct n as [|n]; [rewrite exec_O in Hr; discriminate Hr|]. rewrite exec_S_IVar in Hr.
    injection Hr as _ _ <-. rewrite exec_S_IArray in Hl. unfold with_list_def in Hl.
    destruct (ex_list_def (E n) es st sc) as [[[st3 sc3] o3] s3] eqn:EL.
    destruct o3 as [vs| | |]; try (injection Hl as _ _ C; destruct (ex_list_shape _ _ _ _ _ _ _ _ EL) as [[? [C2 _]]|[_ Hn]]; [discriminate C2|rewrite C in Hn; destruct Hn]).
    injection Hl as _ _ <-. left.
    rewrite (bin_dispatch_pure powf pre _ _ At _ _ _ _ (or_intror eq_refl)). cbn [exec_bin].
    pose proof (ex_list_length _ _ _ _ _ _ _ _ EL) as L.
    unfold arr_of. rewrite (at_oob_len _ vs (length es) i L Hi). reflexivity.
Qed.

(* [v; n] with a negative constant n *)
Theorem neg_len_runtime v n : n < 0 ->
  forall m st sc st1 sc1 x,
    E m st sc v = (st1, sc1, SVal x) ->
    E (S m) st sc (IArrayRepeat v (IVar (VInt n))) = (st1, sc1, SError E_NegativeLength) \/ m = 0%nat.
Proof.
  intros Hn m st sc st1 sc1 x Hv. destruct m as [|m]; [right; reflexivity|left].
  rewrite exec_S_IArrayRepeat. unfold with_val_def. rewrite Hv, exec_S_IVar.
  apply Z.ltb_lt in Hn. rewrite Hn. reflexivity.
Qed.

End Runtime.

(* CheckTotal.v — C03: the checker is total, never panics on well-formed input, and the
   static type of everything it accepts is computable and well-formed.

   [rt] is total on every instruction tree ([rt_total]: every `unwrap()` of the
   ReturnType impls is an `unwrap_or(!)` since repair 15efcc4).  One fuel step of the
   checker ([x_body], [s_body], [l_body] of CheckUnfold.v) is shown to be [good] whenever
   the checker at the previous fuel is ([Section Step]); the theorems follow by
   induction on the fuel.

   Before the repair the property was false: `x := [1]~ @ [][0];` passed `@`'s guard
   (the mapper's type `!` matches `(int) -> any`) and Set then unwrapped
   `!.return_type()`; [map_guard_never_refuted] keeps the type-level fact. *)
From SSL.Model Require Import Base Ty Float Value Ops Seq Syntax Rt Recreate Check.
From SSL.Lemmas Require Import TyLemmas SoundLemmas CheckUnfold CheckBase.
From SSL.Lemmas Require TyFuel TyEq TyMatches TyJoin TyQuery.
Import TyFuel TyEq TyMatches TyJoin TyQuery.

(* ---------- rt of the remaining constructors ---------- *)
Lemma rt_repeat v len : rt (IArrayRepeat v len) = obind (rt v) (fun t => Ok (TArr t)).
Proof. reflexivity. Qed.
Lemma rt_field i f : rt (IFieldAccess i f) = obind (rt i) (fun t => lift_opt (field_type f t)).
Proof. reflexivity. Qed.
Lemma rt_tacc i k : rt (ITupleAccess i k) = obind (rt i) (fun t => lift_opt (tuple_element_at k t)).
Proof. reflexivity. Qed.
Lemma rt_ifelse c t f : rt (IIfElse c t f) = obind (rt t) (fun a => obind (rt f) (fun b => Ok (concat a b))).
Proof. reflexivity. Qed.
Lemma rt_setifelse n t x i e :
  rt (ISetIfElse n t x i e) = obind (rt i) (fun a => obind (rt e) (fun b => Ok (concat a b))).
Proof. reflexivity. Qed.
Lemma rt_reduce it init f :
  rt (IReduce it init f) =
  obind (rt f) (fun ft => obind (lift_opt (fn_return_type ft)) (fun r =>
  obind (rt init) (fun it => Ok (concat r it)))).
Proof. reflexivity. Qed.

Lemma rt_ok_var v : wf_ty (as_type v) = true -> rt_ok (IVar v).
Proof. intros W. exists (as_type v). split; [reflexivity|exact W]. Qed.
Lemma rt_ok_void : rt_ok (IVar VVoid).
Proof. apply rt_ok_var. reflexivity. Qed.
Lemma rt_ok_local n lv : wf_ty (lvar_type lv) = true -> rt_ok (ILocal n lv).
Proof. intros W. exists (lvar_type lv). split; [reflexivity|exact W]. Qed.
Lemma rt_ok_loop b : rt_ok (ILoop b).
Proof. exists TVoid. split; reflexivity. Qed.
Lemma rt_ok_set n i : rt_ok i -> rt_ok (ISet n i).
Proof. exact (fun H => H). Qed.
Lemma rt_ok_destruct ids i : rt_ok i -> rt_ok (IDestruct ids i).
Proof. exact (fun H => H). Qed.
Lemma rt_ok_slicing l a b c : rt_ok l -> rt_ok (ISlicing l a b c).
Proof. exact (fun H => H). Qed.
Lemma rt_ok_ifelse c t f : rt_ok t -> rt_ok f -> rt_ok (IIfElse c t f).
Proof.
  intros [a [Ea Wa]] [b [Eb Wb]]. exists (concat a b). rewrite rt_ifelse, Ea, Eb.
  split; [reflexivity|apply concat_wf; assumption].
Qed.
Lemma rt_ok_setifelse n t x i e : rt_ok i -> rt_ok e -> rt_ok (ISetIfElse n t x i e).
Proof.
  intros [a [Ea Wa]] [b [Eb Wb]]. exists (concat a b). rewrite rt_setifelse, Ea, Eb.
  split; [reflexivity|apply concat_wf; assumption].
Qed.
Lemma rt_ok_return i : rt_ok i -> rt_ok (IUn UReturn i).
Proof. intros [t [E _]]. exists TNever. rewrite rt_un, E. split; reflexivity. Qed.

Lemma call_rt_ok fi ais ft :
  rt fi = Ok ft -> wf_ty ft = true -> Forall rt_ok ais -> fn_return_type ft <> None ->
  rt_ok (IBin FunctionCall fi (ITuple ais)).
Proof.
  intros E W Ha Hf. destruct (rt_ok_tuple ais Ha) as [ta [Et _]].
  destruct (fn_return_type ft) as [r|] eqn:Er; [|congruence].
  exists r. rewrite rt_bin, E, Et. cbn [obind bin_rt]. rewrite Er.
  split; [reflexivity|apply (fn_return_type_wf ft r W Er)].
Qed.

(* reduce.rs::plant *)
Lemma plant_call_ok fv y : wf_fun_val fv = true -> rt_ok y -> rt_ok (plant_call fv y).
Proof.
  intros Hfv Hy. destruct fv; try discriminate Hfv. unfold plant_call.
  eapply call_rt_ok; [reflexivity|exact Hfv|constructor; [exact Hy|constructor]|discriminate].
Qed.

Lemma plant_reducer_good (b : Prop) rs yi yt :
  wf_reds rs = true -> rt_ok yi -> good b rt_ok (plant_reducer rs yi yt).
Proof.
  intros Wr Hy. unfold plant_reducer.
  assert (Hall : forall kf, In kf rs -> wf_ty (fst kf) = true /\ wf_fun_val (snd kf) = true).
  { intros kf Hin. destruct rs as [|kf0 rs]; [destruct Hin|]. unfold wf_reds in Wr.
    rewrite forallb_forall in Wr. apply andb_true_iff, Wr, Hin. }
  destruct (filter (fun kf => matches (fst kf) yt) rs) as [|[k f] [|kf2 l]] eqn:E.
  - destruct rs as [|[k f] rs]; [discriminate Wr|].
    apply good_ok, plant_call_ok; [apply (Hall (k, f)); left; reflexivity|exact Hy].
  - assert (Hin : In (k, f) rs).
    { apply (proj1 (filter_In (fun kf => matches (fst kf) yt) (k, f) rs)). rewrite E. left. reflexivity. }
    apply good_ok, plant_call_ok; [apply (Hall (k, f) Hin)|exact Hy].
  - apply good_ok. apply rt_ok_match; [discriminate|]. apply Forall_forall. intros a Ha.
    apply in_map_iff in Ha. destruct Ha as [kf [<- Hkf]]. cbn [arm_instr].
    assert (Hin : In kf rs).
    { apply (proj1 (filter_In (fun kf => matches (fst kf) yt) kf rs)). rewrite E. exact Hkf. }
    destruct (Hall kf Hin) as [Wk Wf].
    apply plant_call_ok; [exact Wf|]. apply rt_ok_local. exact Wk.
Qed.

Lemma concat_all_wf ts :
  forallb wf_ty ts = true -> wf_ty (match concat_all ts with Some t => t | None => TNever end) = true.
Proof.
  destruct ts as [|t ts]; [reflexivity|]. cbn [concat_all forallb]. intros H.
  apply andb_true_iff in H. destruct H as [H1 H2]. apply fold_concat_wf; [exact H1|].
  rewrite forallb_forall in H2. exact H2.
Qed.

Lemma wf_ret ret : wf_oty ret = true -> wf_ty (match ret with Some t => t | None => TVoid end) = true.
Proof. destruct ret; [exact (fun H => H)|reflexivity]. Qed.

Lemma mod_struct_ok lay :
  wf_vars lay = true ->
  Forall (fun ki : name * instr => rt_ok (snd ki))
         (map (fun kv : name * lvar => (fst kv, ILocal (fst kv) (snd kv))) (rev lay)).
Proof.
  intros W. apply Forall_forall. intros ki Hin. apply in_map_iff in Hin.
  destruct Hin as [kv [<- Hin]]. cbn [snd]. apply rt_ok_local.
  apply in_rev in Hin. unfold wf_vars in W. rewrite forallb_forall in W. apply (W kv Hin).
Qed.

Lemma wf_lenv_top_vars e :
  wf_lenv e -> wf_vars (match e with l :: _ => l_vars l | [] => [] end) = true.
Proof.
  destruct e as [|l e]; [reflexivity|]. intros W. apply wf_lenv_cons in W. destruct W as [W _].
  apply wf_layer_inv in W. tauto.
Qed.

(* match_covers with no arm *)
Lemma match_covers_nil T : wf_ty T = true -> match_covers [] T = false.
Proof.
  intros W. destruct T; try reflexivity. cbn [match_covers].
  destruct (wf_multi_inv _ W) as [L [S _]]. destruct ms as [|m ms]; [cbn in L; lia|].
  cbn [forallb]. specialize (S m (or_introl eq_refl)). destruct m; try discriminate S; reflexivity.
Qed.

(* ================================================================= *)
(* rt is total; on well-formed operand types its results are well-formed *)
(* ================================================================= *)
Lemma lift_opt_total o : exists T, lift_opt o = Ok T.
Proof. destruct o; eexists; reflexivity. Qed.

Lemma bin_rt_total op a b : exists T, bin_rt op a b = Ok T.
Proof.
  destruct op; cbn [bin_rt];
    first [apply lift_opt_total|apply add_rt_total|eexists; reflexivity|idtac].
  - destruct (fn_return_type b); eexists; reflexivity.
  - destruct (iter_element a); eexists; reflexivity.
Qed.

Lemma un_rt_total op t : exists T, un_rt op t = Ok T.
Proof.
  destruct op; cbn [un_rt]; first [apply lift_opt_total|eexists; reflexivity|idtac].
  - destruct (iter_element t); eexists; reflexivity.
  - destruct (element_type t); eexists; reflexivity.
Qed.

Lemma last_rt_total l : Forall (fun x => exists T, rt x = Ok T) l -> exists T, last_rt l = Ok T.
Proof.
  destruct l as [|x l] using rev_ind; intros H; [exists TVoid; reflexivity|].
  rewrite last_rt_app. apply Forall_app in H. destruct H as [_ H]. inversion H; subst. assumption.
Qed.

Lemma arms_rt_total arms acc :
  Forall (fun a => exists T, rt (arm_instr a) = Ok T) arms -> exists T, arms_rt arms acc = Ok T.
Proof.
  intros H. revert acc. induction H as [|a arms [T E] _ IH]; intros acc; [apply lift_opt_total|].
  assert (Ea : arms_rt (a :: arms) acc = obind (rt (arm_instr a))
    (fun t => arms_rt arms (Some (match acc with Some u => concat u t | None => t end))))
    by (destruct a; reflexivity).
  rewrite Ea, E. cbn [obind]. apply IH.
Qed.

Lemma struct_rt_total fs acc :
  Forall (fun ki : name * instr => exists T, rt (snd ki) = Ok T) fs -> exists T, struct_rt fs acc = Ok T.
Proof.
  intros H. revert acc. induction H as [|[k i] fs [T E] _ IH]; intros acc; [eexists; reflexivity|].
  change (struct_rt ((k, i) :: fs) acc) with
    (obind (rt i) (fun t => struct_rt fs (struct_ty_insert k t acc))).
  cbn [snd] in E. rewrite E. cbn [obind]. apply IH.
Qed.

Lemma rtl_total es : Forall (fun x => exists T, rt x = Ok T) es -> exists ts, rtl_def es = Ok ts.
Proof.
  induction 1 as [|x es [T E] _ [ts Ets]]; [exists []; reflexivity|].
  exists (T :: ts).
  change (rtl_def (x :: es)) with
    (obind (rt x) (fun t => obind (rtl_def es) (fun ts => Ok (t :: ts)))).
  rewrite E. cbn [obind]. rewrite Ets. reflexivity.
Qed.

(* the static type of every instruction tree is computable *)
Theorem rt_total : forall i, exists T, rt i = Ok T.
Proof.
  fix IH 1. intros i.
  assert (IHl : forall l : list instr, Forall (fun x => exists T, rt x = Ok T) l).
  { intros l. induction l as [|x l IHl]; constructor; [apply IH|exact IHl]. }
  destruct i as [ps body ret|es et|v len|body| | |ids i|i f|n ps body ret|c t f|n lv|b|x arms|t i
                 |it init f|n i|n t x ifm els|l a b c|fs|es|i k|i t|v|op l r|op i].
  - eexists; reflexivity.
  - eexists; reflexivity.
  - rewrite rt_repeat. destruct (IH v) as [T ->]. eexists; reflexivity.
  - rewrite rt_block. apply last_rt_total, IHl.
  - eexists; reflexivity.
  - eexists; reflexivity.
  - exact (IH i).
  - rewrite rt_field. destruct (IH i) as [T ->]. cbn [obind]. apply lift_opt_total.
  - eexists; reflexivity.
  - rewrite rt_ifelse. destruct (IH t) as [Tt ->]. destruct (IH f) as [Tf ->]. eexists; reflexivity.
  - eexists; reflexivity.
  - eexists; reflexivity.
  - rewrite rt_match. apply arms_rt_total.
    induction arms as [|a arms IHa]; constructor; [|exact IHa].
    destruct a; cbn [arm_instr]; apply IH.
  - eexists; reflexivity.
  - rewrite rt_reduce. destruct (IH f) as [Tf ->]. cbn [obind].
    destruct (lift_opt_total (fn_return_type Tf)) as [r ->]. cbn [obind].
    destruct (IH init) as [Ti ->]. eexists; reflexivity.
  - exact (IH i).
  - rewrite rt_setifelse. destruct (IH ifm) as [Tt ->]. destruct (IH els) as [Tf ->]. eexists; reflexivity.
  - exact (IH l).
  - rewrite rt_struct. apply struct_rt_total.
    induction fs as [|[k x] fs IHf]; constructor; [apply IH|exact IHf].
  - rewrite rt_tuple. destruct (rtl_total es (IHl es)) as [ts ->]. eexists; reflexivity.
  - rewrite rt_tacc. destruct (IH i) as [T ->]. cbn [obind]. apply lift_opt_total.
  - eexists; reflexivity.
  - eexists; reflexivity.
  - rewrite rt_bin. destruct (IH l) as [Tl ->]. destruct (IH r) as [Tr ->]. cbn [obind].
    apply bin_rt_total.
  - rewrite rt_un. destruct (IH i) as [T ->]. cbn [obind]. apply un_rt_total.
Qed.

Lemma lift_opt_wf (q : ty -> option ty) T :
  (forall r, q T = Some r -> wf_ty r = true) -> exists R, lift_opt (q T) = Ok R /\ wf_ty R = true.
Proof. intros H. destruct (q T) as [r|]; [exists r|exists TNever]; split; auto. Qed.

Lemma add_rt_wf l r : wf_ty l = true -> wf_ty r = true ->
  exists T, add_return_type l r = Ok T /\ wf_ty T = true.
Proof.
  intros Wl Wr. unfold add_return_type.
  destruct (element_type l) as [le|] eqn:El; [|eauto].
  pose proof (element_type_wf l le Wl El) as Wle.
  destruct (element_type r) as [re|] eqn:Er.
  - pose proof (element_type_wf r re Wr Er) as Wre. eexists. split; [reflexivity|].
    cbn [wf_ty]. apply concat_wf; assumption.
  - eexists. split; [reflexivity|]. cbn [wf_ty]. apply concat_wf; [assumption|reflexivity].
Qed.

(* every binary / unary operator node over well-formed operand types *)
Lemma bin_rt_wf op l r : wf_ty l = true -> wf_ty r = true ->
  exists T, bin_rt op l r = Ok T /\ wf_ty T = true.
Proof.
  intros Wl Wr.
  destruct op; cbn [bin_rt];
    try (eexists; split; [reflexivity|first [exact Wl|exact Wr|reflexivity]]);
    try (apply (lift_opt_wf mut_element_type_spec l); intros x; apply mut_element_type_spec_wf, Wl).
  - apply add_rt_wf; assumption.
  - destruct (fn_return_type r) as [q|] eqn:Eq; eexists; (split; [reflexivity|]); [|reflexivity].
    cbn [wf_ty forallb]. rewrite (fn_return_type_wf r q Wr Eq). reflexivity.
  - apply (lift_opt_wf index_result l). intros x. apply index_result_wf, Wl.
  - apply (lift_opt_wf fn_return_type l). intros x. apply fn_return_type_wf, Wl.
  - destruct (iter_element l) as [q|] eqn:Eq; eexists; (split; [reflexivity|]); [|reflexivity].
    cbn [wf_ty forallb]. rewrite (iter_element_wf l q Wl Eq). reflexivity.
Qed.

Lemma un_rt_wf op t : wf_ty t = true -> exists T, un_rt op t = Ok T /\ wf_ty T = true.
Proof.
  intros W.
  destruct op; cbn [un_rt];
    try (eexists; split; [reflexivity|first [exact W|reflexivity]]);
    try (apply (lift_opt_wf iter_element t); intros x; apply iter_element_wf, W).
  - apply (lift_opt_wf mut_element_type_spec t). intros x. apply mut_element_type_spec_wf, W.
  - apply (lift_opt_wf fn_return_type t). intros x. apply fn_return_type_wf, W.
  - destruct (iter_element t) as [q|] eqn:Eq; eexists; (split; [reflexivity|]); [|reflexivity].
    cbn [wf_ty]. apply (iter_element_wf t q W Eq).
  - destruct (element_type t) as [q|] eqn:Eq; eexists; (split; [reflexivity|]); [|reflexivity].
    cbn [wf_ty forallb]. rewrite (element_type_wf t q W Eq). reflexivity.
Qed.

Lemma rt_ok_bin op l r : rt_ok l -> rt_ok r -> rt_ok (IBin op l r).
Proof.
  intros [a [Ea Wa]] [b [Eb Wb]]. destruct (bin_rt_wf op a b Wa Wb) as [T [ET WT]].
  exists T. rewrite rt_bin, Ea, Eb. split; assumption.
Qed.
Lemma rt_ok_un op i : rt_ok i -> rt_ok (IUn op i).
Proof.
  intros [a [Ea Wa]]. destruct (un_rt_wf op a Wa) as [T [ET WT]].
  exists T. rewrite rt_un, Ea. split; assumption.
Qed.

(* the admissibility test never panics and never runs out of fuel *)
Lemma assign_ok_single_good (b : Prop) l r cbf rtf :
  (forall vt, exists T, rtf vt r = Ok T) -> good b (fun _ => True) (assign_ok_single l r cbf rtf).
Proof.
  intros H. unfold assign_ok_single. destruct (mut_element_type_spec l) as [vt|]; [|exact I].
  destruct (H vt) as [T ->]. exact I.
Qed.

Lemma assign_ok_good (b : Prop) l r cbf rtf :
  (forall vt, exists T, rtf vt r = Ok T) -> good b (fun _ => True) (assign_ok l r cbf rtf).
Proof.
  intros H. unfold assign_ok. destruct l; try (apply assign_ok_single_good; exact H).
  assert (G : forall acc, good b (fun _ => True) acc ->
    good b (fun _ => True)
      (fold_left (fun (acc : outcome bool) (m : ty) =>
         obind acc (fun a : bool => if a then assign_ok_single m r cbf rtf else Ok false)) ms acc)).
  { induction ms as [|m ms IH]; intros acc Ha; [exact Ha|]. cbn [fold_left]. apply IH.
    apply good_bind with (P := fun _ => True); [exact Ha|]. intros a _ _.
    destruct a; [apply assign_ok_single_good; exact H|exact I]. }
  apply G. exact I.
Qed.

Lemma can_be_used_good (b : Prop) op l r : good b (fun _ => True) (can_be_used op l r).
Proof.
  destruct op; cbn [can_be_used]; try exact I; apply assign_ok_good; intros vt;
    unfold arith_assign_rt; first [apply add_rt_total | destruct (matches (TArr TNever) vt); eauto | eauto].
Qed.

(* ================================================================= *)
(* one fuel step                                                       *)
(* ================================================================= *)
Definition ok_s (p : instr * lenv) : Prop := rt_ok (fst p) /\ wf_lenv (snd p).
Definition ok_l (p : list instr * lenv) : Prop := Forall rt_ok (fst p) /\ wf_lenv (snd p).
Definition ok_o (o : option instr) : Prop := match o with Some i => rt_ok i | None => True end.
Definition ok_arms (p : list arm * lenv) : Prop :=
  Forall (fun a => rt_ok (arm_instr a)) (fst p) /\ wf_lenv (snd p).

Lemma sum_with_cons {A} (f : A -> nat) x l : sum_with f (x :: l) = f x + sum_with f l.
Proof. reflexivity. Qed.
Lemma sum_with_nil {A} (f : A -> nat) : sum_with f [] = 0.
Proof. reflexivity. Qed.

Ltac sz :=
  let H := fresh "Hsz" in
  intros H;
  cbn [sx_size sstm_size sline_size sarm_size osx_size ostm_size] in H |- *;
  unfold lines_size, osx_size, ostm_size in *; rewrite ?sum_with_cons, ?sum_with_nil in *; lia.

Ltac andb_split H :=
  repeat match type of H with
         | (_ && _) = true => let H' := fresh H in apply andb_true_iff in H; destruct H as [H H']
         end.

Ltac bind_rt H t E W := pose proof H as [t [E W]]; rewrite E; cbn [obind].

Section Step.
Variable red : reducers.
Hypothesis Wred : wf_red red.
Variable cxf : scopes -> lenv -> sx -> outcome instr.
Variable csf : scopes -> lenv -> sstm -> C.
Variable clf : scopes -> lenv -> list sline -> outcome (list instr * lenv).
Variable n : nat.
Variable sc : scopes.
Hypothesis Wsc : wf_scopes sc.

Hypothesis IHx : forall e x, wf_lenv e -> wf_sx x = true ->
  good (sx_size x < n) rt_ok (cxf sc e x).
Hypothesis IHs : forall e s, wf_lenv e -> wf_sstm s = true ->
  good (sstm_size s < n) ok_s (csf sc e s).
Hypothesis IHl : forall e l, wf_lenv e -> forallb wf_sline l = true ->
  good (lines_size l < n) ok_l (clf sc e l).

Ltac use_x := eapply good_weaken; [|apply IHx; assumption]; sz.
Ltac bind_x i H := apply good_bind with (P := rt_ok); [use_x|intros i _ H].

Lemma cxl_good e es :
  wf_lenv e -> forallb wf_sx es = true ->
  good (sum_with sx_size es < n) (Forall rt_ok) (cxl_def (cxf sc e) es).
Proof.
  intros We. induction es as [|y l IH]; intros W; [constructor|].
  cbn [forallb] in W. andb_split W.
  change (cxl_def (cxf sc e) (y :: l)) with
    (obind (cxf sc e y) (fun i => obind (cxl_def (cxf sc e) l) (fun is => Ok (i :: is)))).
  bind_x i Hi.
  apply good_bind with (P := Forall rt_ok); [eapply good_weaken; [|apply IH; assumption]; sz|].
  intros is _ His. constructor; assumption.
Qed.

Lemma cxo_good e o :
  wf_lenv e -> match o with Some y => wf_sx y | None => true end = true ->
  good (osx_size o < n) ok_o (cxo_def (cxf sc e) o).
Proof.
  intros We W. destruct o as [y|]; [|exact I]. cbn [cxo_def].
  bind_x i Hi. exact Hi.
Qed.

Lemma cxf_good e fs :
  wf_lenv e ->
  forallb (fun kv : name * option sx => match kv with
                     | (_, Some y) => wf_sx y
                     | (_, None) => true end) fs = true ->
  good (sum_with (fun kv : name * option sx => match kv with
                                | (_, Some y) => S (sx_size y)
                                | (_, None) => 2 end) fs < n)
       (Forall (fun ki : name * instr => rt_ok (snd ki))) (cxf_def (cxf sc e) fs).
Proof.
  intros We. induction fs as [|[k o] l IH]; intros W; [constructor|].
  cbn [forallb] in W. andb_split W.
  destruct o as [y|].
  - change (cxf_def (cxf sc e) ((k, Some y) :: l)) with
      (obind (cxf sc e y) (fun i => obind (cxf_def (cxf sc e) l) (fun r => Ok ((k, i) :: r)))).
    bind_x i Hi.
    apply good_bind with (P := Forall (fun ki : name * instr => rt_ok (snd ki)));
      [eapply good_weaken; [|apply IH; assumption]; sz|].
    intros is _ His. constructor; assumption.
  - change (cxf_def (cxf sc e) ((k, None) :: l)) with
      (obind (cxf sc e (XIdent k)) (fun i => obind (cxf_def (cxf sc e) l) (fun r => Ok ((k, i) :: r)))).
    apply good_bind with (P := rt_ok); [eapply good_weaken; [|apply IHx; [assumption|reflexivity]]; sz|].
    intros i _ Hi.
    apply good_bind with (P := Forall (fun ki : name * instr => rt_ok (snd ki)));
      [eapply good_weaken; [|apply IH; assumption]; sz|].
    intros is _ His. constructor; assumption.
Qed.

Lemma chk_int_good (b : Prop) o : ok_o o -> good b (fun _ => True) (chk_int o).
Proof.
  destruct o as [i|]; [|intros _; exact I]. intros [t [E _]]. cbn [chk_int]. rewrite E. exact I.
Qed.

Lemma else_good e f :
  wf_lenv e -> match f with Some f => wf_sstm f | None => true end = true ->
  good (ostm_size f < n) ok_s (else_def (csf sc) e f).
Proof.
  intros We W. destruct f as [f|]; cbn [else_def].
  - eapply good_weaken; [|apply IHs; assumption]. sz.
  - split; [exact rt_ok_void|exact We].
Qed.

(* ---------- expressions ---------- *)
Lemma x_body_good e x :
  wf_lenv e -> wf_sx x = true ->
  good (sx_size x < S n) rt_ok (x_body red cxf clf sc e x).
Proof.
  intros We Wx.
  destruct x as [nm|v|t y|es|es|v len|ps ret body|fs|body|op y|op l r|it init f|y i|y a b c|f args
                 |y k|y f|y t|op y];
    cbv beta iota zeta delta [x_body]; cbn [wf_sx] in Wx.
  - (* XIdent *)
    destruct (lenv_get nm e) as [lv|] eqn:G.
    + pose proof (lenv_get_wf _ _ _ We G) as W.
      destruct lv; apply good_ok; first [apply rt_ok_local; exact W|apply rt_ok_var; exact W].
    + destruct (scopes_get nm sc) as [v|] eqn:G'; [|apply good_reject].
      apply good_ok, rt_ok_var. apply (scopes_get_wf _ _ _ Wsc G').
  - (* XConst *) apply good_ok, rt_ok_var, Wx.
  - (* XMut *)
    andb_split Wx. destruct t as [t|].
    + bind_x i Hi. bind_rt Hi it E W.
      destruct (matches it t); [|apply good_reject].
      apply good_ok. exists (TMut t). split; [reflexivity|exact Wx].
    + bind_x i Hi. bind_rt Hi it E W. apply good_ok. exists (TMut it). split; [reflexivity|exact W].
  - (* XTuple *)
    apply good_bind with (P := Forall rt_ok); [eapply good_weaken; [|apply cxl_good; assumption]; sz|].
    intros is _ His. apply good_ok, rt_ok_tuple, His.
  - (* XArray *)
    apply good_bind with (P := Forall rt_ok); [eapply good_weaken; [|apply cxl_good; assumption]; sz|].
    intros is _ His. destruct (rtl_ok is His) as [ts [E W]]. rewrite E. cbn [obind].
    apply good_ok. eexists. split; [reflexivity|]. cbn [wf_ty]. apply concat_all_wf, W.
  - (* XArrayRepeat *)
    andb_split Wx. bind_x vi Hvi. bind_x li Hli. bind_rt Hli lty E W.
    destruct (matches lty TInt); [|apply good_reject].
    apply good_ok. destruct Hvi as [vt [Ev Wv]]. exists (TArr vt). rewrite rt_repeat, Ev.
    split; [reflexivity|exact Wv].
  - (* XFunction *)
    andb_split Wx. pose proof (wf_ret _ Wx1) as Wr.
    apply good_bind with (P := ok_l).
    { eapply good_weaken; [|apply IHl; [apply wf_lenv_push_fn; assumption|assumption]]. sz. }
    intros [is e'] _ [His _]. cbn [fst] in His.
    apply good_bind with (P := fun _ => True);
      [apply missing_return_good, Forall_drop_consts, His|].
    intros miss _ _. destruct miss; [apply good_reject|].
    apply good_ok. eexists. split; [reflexivity|]. apply wf_fun_ty; assumption.
  - (* XStruct *)
    apply good_bind with (P := Forall (fun ki : name * instr => rt_ok (snd ki)));
      [eapply good_weaken; [|apply cxf_good; assumption]; sz|].
    intros fs' _ Hfs. apply good_ok, rt_ok_struct, Hfs.
  - (* XMod *)
    apply good_bind with (P := ok_l).
    { eapply good_weaken; [|apply IHl; [apply wf_lenv_push; assumption|assumption]]. sz. }
    intros [is e'] _ [His We']. cbn [fst snd] in His, We'.
    apply good_ok. unfold rt_ok. rewrite rt_block, last_rt_app.
    apply rt_ok_struct, mod_struct_ok, wf_lenv_top_vars, We'.
  - (* XPrefix *)
    bind_x i Hi. bind_rt Hi t E W. destruct op.
    + destruct (matches t ACC_NOT); [|apply good_reject].
      apply good_ok. exists t. rewrite rt_un, E. split; [reflexivity|exact W].
    + destruct (matches t ACC_NEG); [|apply good_reject].
      apply good_ok. exists t. rewrite rt_un, E. split; [reflexivity|exact W].
    + destruct (is_mut t) eqn:M; [|apply good_reject].
      apply good_ok. destruct (mut_element_type_spec t) as [et|] eqn:Em.
      * exists et. rewrite rt_un, E. cbn [obind un_rt]. rewrite Em.
        split; [reflexivity|apply (mut_element_type_spec_wf t et W Em)].
      * exfalso. revert Em. apply mut_guard_spec; assumption.
  - (* XInfix *)
    andb_split Wx. bind_x li Hli. bind_x ri Hri.
    bind_rt Hli ltt El Wl. bind_rt Hri rtt Er Wr.
    apply good_bind with (P := fun _ => True); [apply can_be_used_good|].
    intros ok _ _. destruct ok; [|apply good_reject].
    apply good_ok, rt_ok_bin; assumption.
  - (* XReduce *)
    andb_split Wx. bind_x iti Hiti. bind_x fi Hfi. bind_x ini Hini.
    bind_rt Hiti itt Eit Wit.
    destruct (iter_element itt) as [el|] eqn:Eel; [|apply good_reject].
    bind_rt Hfi ft Ef Wf.
    destruct (fn_return_type ft) as [r|] eqn:Efr; [|apply good_reject].
    bind_rt Hini int_ Ein Win.
    destruct (matches ft _); [|apply good_reject].
    apply good_ok. exists (concat r int_). rewrite rt_reduce, Ef. cbn [obind]. rewrite Efr.
    cbn [lift_opt obind]. rewrite Ein. split; [reflexivity|].
    apply concat_wf; [apply (fn_return_type_wf ft r Wf Efr)|exact Win].
  - (* XAt *)
    andb_split Wx. bind_x yi Hyi. bind_x ii Hii.
    bind_rt Hyi yt Ey Wy. bind_rt Hii it Ei Wi.
    destruct (negb (ty_eqb it TInt)); [apply good_reject|].
    destruct (ty_eqb yt TNever || negb (can_be_indexed yt)) eqn:G; [apply good_reject|].
    apply good_ok. destruct (index_result yt) as [r|] eqn:Er.
    + exists r. rewrite rt_bin, Ey, Ei. cbn [obind bin_rt]. rewrite Er.
      split; [reflexivity|apply (index_result_wf yt r Wy Er)].
    + exfalso. revert Er. apply index_guard_repaired; assumption.
  - (* XSlice *)
    andb_split Wx. bind_x yi Hyi. bind_rt Hyi yt Ey Wy.
    destruct (negb (can_be_indexed yt)); [apply good_reject|].
    apply good_bind with (P := ok_o); [eapply good_weaken; [|apply cxo_good; assumption]; sz|].
    intros ai _ Hai.
    apply good_bind with (P := ok_o); [eapply good_weaken; [|apply cxo_good; assumption]; sz|].
    intros bi _ Hbi.
    apply good_bind with (P := ok_o); [eapply good_weaken; [|apply cxo_good; assumption]; sz|].
    intros ci _ Hci.
    assert (G : good (sx_size (XSlice y a b c) < S n) rt_ok
      (obind (chk_int ai) (fun oa => obind (chk_int bi) (fun ob => obind (chk_int ci) (fun oc =>
         if oa && ob && oc then Ok (ISlicing yi ai bi ci) else reject))))).
    { apply good_bind with (P := fun _ => True); [apply chk_int_good, Hai|]. intros oa _ _.
      apply good_bind with (P := fun _ => True); [apply chk_int_good, Hbi|]. intros ob _ _.
      apply good_bind with (P := fun _ => True); [apply chk_int_good, Hci|]. intros oc _ _.
      destruct (oa && ob && oc); [|apply good_reject]. apply good_ok, rt_ok_slicing, Hyi. }
    destruct ai, bi, ci; exact G.
  - (* XCall *)
    andb_split Wx. bind_x fi Hfi.
    apply good_bind with (P := Forall rt_ok); [eapply good_weaken; [|apply cxl_good; assumption]; sz|].
    intros ais _ Hais. destruct (rtl_ok ais Hais) as [ats [Ea Wa]]. rewrite Ea. cbn [obind].
    pose proof Hfi as [ft [Ef Wf]].
    assert (Gen : good (sx_size (XCall f args) < S n) rt_ok
      (obind (rt fi) (fun ft =>
         if negb (is_function ft) then reject else
         match Ty.params ft with
         | None => reject
         | Some ps => if args_ok ps ats then Ok (IBin FunctionCall fi (ITuple ais)) else reject
         end))).
    { rewrite Ef. cbn [obind]. destruct (is_function ft) eqn:F; [|apply good_reject]. cbn [negb].
      destruct (Ty.params ft); [|apply good_reject].
      destruct (args_ok l ats); [|apply good_reject].
      apply good_ok. apply (call_rt_ok fi ais ft Ef Wf Hais). apply fn_guard; assumption. }
    (* the three syntactic shortcuts compute to the same test *)
    destruct fi as [ps0 b0 r0| | | | | | | | | |nm0 lv0| | | | | | | | | | | |v0| |]; try exact Gen.
    + destruct lv0; exact Gen.
    + destruct v0; exact Gen.
  - (* XTupleAccess *)
    bind_x yi Hyi. bind_rt Hyi yt Ey Wy.
    destruct (is_tuple yt) eqn:G; [|apply good_reject]. cbn [negb].
    destruct (min_tuple_len yt) as [len|] eqn:L.
    2:{ exfalso. revert L. apply min_tuple_len_guard; assumption. }
    destruct (Nat.leb len k) eqn:Lk; [apply good_reject|].
    apply good_ok. apply Nat.leb_gt in Lk.
    destruct (tuple_element_at k yt) as [r|] eqn:Er.
    + exists r. rewrite rt_tacc, Ey. cbn [obind]. rewrite Er.
      split; [reflexivity|apply (tuple_element_at_wf k yt r Wy Er)].
    + exfalso. revert Er. apply (tuple_guard k len); assumption.
  - (* XFieldAccess *)
    bind_x yi Hyi. bind_rt Hyi yt Ey Wy.
    destruct (negb (is_struct yt)); [apply good_reject|].
    destruct (has_field f yt) eqn:G; [|apply good_reject]. cbn [negb].
    apply good_ok. destruct (field_type f yt) as [r|] eqn:Er.
    + exists r. rewrite rt_field, Ey. cbn [obind]. rewrite Er.
      split; [reflexivity|apply (field_type_wf f yt r Wy Er)].
    + exfalso. revert Er. apply field_guard; assumption.
  - (* XTypeFilter *)
    andb_split Wx. bind_x yi Hyi. bind_rt Hyi yt Ey Wy.
    destruct (is_iterator yt && _); [|apply good_reject].
    apply good_ok. eexists. split; [reflexivity|]. cbn [wf_ty forallb]. rewrite Wx. reflexivity.
  - (* XPostfix *)
    andb_split Wx. bind_x yi Hyi. bind_rt Hyi yt Ey Wy.
    assert (Plant : forall fv, wf_fun_val fv = true ->
              rt_ok (IBin FunctionCall (IVar fv) (ITuple [yi]))).
    { intros fv Hfv. destruct fv; try discriminate Hfv.
      eapply call_rt_ok; [reflexivity|exact Hfv|constructor; [exact Hyi|constructor]|discriminate]. }
    pose proof Wred as Wr0. unfold wf_red in Wr0. andb_split Wr0.
    destruct op; try discriminate Wx.
    + destruct (matches yt _); [|apply good_reject]. apply good_ok, Plant. assumption.
    + destruct (matches yt _); [|apply good_reject]. apply good_ok, Plant. assumption.
    + destruct (matches yt _); [|apply good_reject]. apply good_ok, Plant. assumption.
    + destruct (matches yt _); [|apply good_reject]. apply good_ok, Plant. assumption.
    + destruct (iter_element yt) as [el|] eqn:Eel; [|apply good_reject]. cbn [negb andb].
      destruct (matches yt ACC_SUM); [|apply good_reject].
      apply plant_reducer_good; assumption.
    + destruct (iter_element yt) as [el|] eqn:Eel; [|apply good_reject]. cbn [negb andb].
      destruct (matches yt ACC_PRODUCT); [|apply good_reject].
      apply plant_reducer_good; assumption.
    + destruct (iter_element yt) as [el|] eqn:Eel; [|apply good_reject]. cbn [negb andb].
      destruct (matches yt ITERATOR_TYPE); [|apply good_reject].
      apply good_ok. exists (TArr el). rewrite rt_un, Ey. cbn [obind un_rt]. rewrite Eel.
      split; [reflexivity|apply (iter_element_wf yt el Wy Eel)].
    + destruct (ty_eqb yt TNever) eqn:Nv; [apply good_reject|]. cbn [negb andb].
      destruct (matches yt (TArr TAny)) eqn:M; [|apply good_reject].
      apply good_ok. destruct (element_type yt) as [el|] eqn:Eel.
      * eexists. rewrite rt_un, Ey. cbn [obind un_rt]. rewrite Eel. split; [reflexivity|].
        cbn [wf_ty forallb]. rewrite (element_type_wf yt el Wy Eel). reflexivity.
      * exfalso. revert Eel. apply element_guard; try assumption. intros ->. discriminate Nv.
Qed.

(* ---------- statements ---------- *)
Definition ok_arm (p : arm * lenv) : Prop := rt_ok (arm_instr (fst p)) /\ wf_lenv (snd p).

Ltac use_s := eapply good_weaken; [|apply IHs; assumption]; sz.

Lemma arm_good e a :
  wf_lenv e -> wf_sarm a = true ->
  good (sarm_size a < n) ok_arm (arm_def (cxf sc) (csf sc) e a).
Proof.
  intros We W. destruct a as [nm t b|vs b|b]; cbn [arm_def wf_sarm] in *.
  - andb_split W.
    assert (We1 : wf_lenv (lenv_insert nm (LOther t) (lenv_push e)))
      by (apply wf_lenv_insert; [apply wf_lenv_push; exact We|exact W]).
    apply good_bind with (P := ok_s); [use_s|].
    intros [bi e'] _ [Hb _]. split; [exact Hb|exact We].
  - andb_split W.
    apply good_bind with (P := Forall rt_ok); [eapply good_weaken; [|apply cxl_good; assumption]; sz|].
    intros vis _ _.
    apply good_bind with (P := ok_s); [use_s|].
    intros [bi e'] _ [Hb We']. split; [exact Hb|exact We'].
  - apply good_bind with (P := ok_s); [use_s|].
    intros [bi e'] _ [Hb We']. split; [exact Hb|exact We'].
Qed.

Lemma arms_good arms : forall e,
  wf_lenv e -> forallb wf_sarm arms = true ->
  good (sum_with (fun a => S (sarm_size a)) arms < n) ok_arms (arms_def (cxf sc) (csf sc) arms e).
Proof.
  induction arms as [|a l IH]; intros e We W; [split; [constructor|exact We]|].
  cbn [forallb] in W. andb_split W.
  change (arms_def (cxf sc) (csf sc) (a :: l) e) with
    (obind (arm_def (cxf sc) (csf sc) e a) (fun '(a', e) =>
     obind (arms_def (cxf sc) (csf sc) l e) (fun '(l', e) => Ok (a' :: l', e)))).
  apply good_bind with (P := ok_arm); [eapply good_weaken; [|apply arm_good; assumption]; sz|].
  intros [a' e1] _ [Ha We1]. cbn [fst snd] in Ha, We1.
  apply good_bind with (P := ok_arms); [eapply good_weaken; [|apply IH; assumption]; sz|].
  intros [l' e2] _ [Hl We2]. split; [constructor; assumption|exact We2].
Qed.

Lemma s_body_good e s :
  wf_lenv e -> wf_sstm s = true ->
  good (sstm_size s < S n) ok_s (s_body cxf csf clf sc e s).
Proof.
  intros We Ws.
  destruct s as [x|body|c t f|nm t x ifm els|x arms|r|b|c b|nm t x b|nm x b| |];
    cbv beta iota zeta delta [s_body]; cbn [wf_sstm] in Ws.
  - (* SExpr *) bind_x i Hi. split; assumption.
  - (* SBlock *)
    apply good_bind with (P := ok_l).
    { eapply good_weaken; [|apply IHl; [apply wf_lenv_push; assumption|assumption]]. sz. }
    intros [is e'] _ [His _]. split; [|exact We].
    apply rt_ok_block, Forall_drop_consts, His.
  - (* SIfElse *)
    andb_split Ws. bind_x ci Hci. bind_rt Hci ct Ec Wc.
    destruct (negb (ty_eqb ct TBool)); [apply good_reject|].
    apply good_bind with (P := ok_s); [use_s|].
    intros [ti e1] _ [Hti We1]. cbn [fst snd] in Hti, We1.
    apply good_bind with (P := ok_s); [eapply good_weaken; [|apply else_good; assumption]; sz|].
    intros [fi e2] _ [Hfi We2]. split; [apply rt_ok_ifelse; assumption|exact We2].
  - (* SSetIfElse *)
    andb_split Ws. bind_x xi Hxi.
    assert (We1 : wf_lenv (lenv_insert nm (LOther t) (lenv_push e)))
      by (apply wf_lenv_insert; [apply wf_lenv_push; exact We|exact Ws]).
    apply good_bind with (P := ok_s); [use_s|].
    intros [mi e1] _ [Hmi _]. cbn [fst] in Hmi.
    apply good_bind with (P := ok_s); [eapply good_weaken; [|apply else_good; assumption]; sz|].
    intros [ei e2] _ [Hei We2]. split; [apply rt_ok_setifelse; assumption|exact We2].
  - (* SMatch *)
    andb_split Ws. bind_x xi Hxi. bind_rt Hxi xt Ex Wxt.
    apply good_bind with (P := ok_arms); [eapply good_weaken; [|apply arms_good; assumption]; sz|].
    intros [arms' e'] _ [Ha We']. cbn [fst snd] in Ha, We'.
    destruct (match_covers arms' xt) eqn:Mc; [|apply good_reject].
    split; [|exact We']. apply rt_ok_match; [|exact Ha].
    intros ->. rewrite match_covers_nil in Mc by exact Wxt. discriminate Mc.
  - (* SRet *)
    destruct (lenv_function e) as [[fnm fret]|]; [|apply good_reject].
    apply good_bind with (P := ok_s); [eapply good_weaken; [|apply else_good; assumption]; sz|].
    intros [ri e'] _ [Hri We']. cbn [fst snd] in Hri, We'. bind_rt Hri t E W.
    destruct (matches t fret); [|apply good_reject].
    split; [apply rt_ok_return, Hri|exact We'].
  - (* SLoop *)
    assert (We1 : wf_lenv (lenv_set_loop true e)) by (apply wf_lenv_set_loop, We).
    apply good_bind with (P := ok_s); [use_s|].
    intros [bi e'] _ [_ We']. split; [apply rt_ok_loop|apply wf_lenv_set_loop, We'].
  - (* SWhile *)
    andb_split Ws. bind_x ci Hci. bind_rt Hci ct Ec Wc.
    destruct (negb (ty_eqb ct TBool)); [apply good_reject|].
    assert (We1 : wf_lenv (lenv_set_loop true e)) by (apply wf_lenv_set_loop, We).
    apply good_bind with (P := ok_s); [use_s|].
    intros [bi e'] _ [_ We']. cbn [snd] in We'.
    pose proof (wf_lenv_set_loop (lenv_in_loop e) e' We') as We2.
    destruct ci; try (split; [apply rt_ok_loop|exact We2]).
    destruct (val_eqb v (VBool true)); (split; [first [apply rt_ok_loop|apply rt_ok_void]|exact We2]).
  - (* SWhileSet *)
    andb_split Ws.
    assert (We1 : wf_lenv (lenv_set_loop true e)) by (apply wf_lenv_set_loop, We).
    bind_x xi Hxi.
    assert (We2 : wf_lenv (lenv_insert nm (LOther t) (lenv_push (lenv_set_loop true e))))
      by (apply wf_lenv_insert; [apply wf_lenv_push; exact We1|exact Ws]).
    apply good_bind with (P := ok_s); [use_s|].
    intros [bi e'] _ _. split; [apply rt_ok_loop|apply wf_lenv_set_loop, We1].
  - (* SFor *)
    andb_split Ws. bind_x xi Hxi. bind_rt Hxi xt Ex Wxt.
    destruct (iter_element xt) as [el|] eqn:Eel; [|apply good_reject].
    assert (We1 : wf_lenv (lenv_insert nm (LOther el) (lenv_set_loop true (lenv_push e)))).
    { apply wf_lenv_insert; [apply wf_lenv_set_loop, wf_lenv_push, We|].
      apply (iter_element_wf xt el Wxt Eel). }
    apply good_bind with (P := ok_s); [use_s|].
    intros [bi e'] _ _. split; [|exact We]. exists TVoid. split; reflexivity.
  - (* SBrk *)
    destruct (lenv_in_loop e); [|apply good_reject]. split; [|exact We]. exists TNever. split; reflexivity.
  - (* SCont *)
    destruct (lenv_in_loop e); [|apply good_reject]. split; [|exact We]. exists TNever. split; reflexivity.
Qed.

(* ---------- lines ---------- *)
Lemma wf_tup_values vs :
  wf_ty (as_type (VTup vs)) = true ->
  Forall (fun v => exists lv, Ok (LVariable v) = Ok lv /\ wf_ty (lvar_type lv) = true) vs.
Proof.
  cbn [as_type wf_ty]. induction vs as [|v vs IH]; [constructor|].
  cbn [map forallb]. intros H. apply andb_true_iff in H. destruct H as [H1 H2].
  constructor; [eexists; split; [reflexivity|exact H1]|apply IH, H2].
Qed.

Lemma destruct_insert_good (b : Prop) ids i e t len :
  rt_ok i -> rt i = Ok t -> is_tuple t = true -> tuple_len t = Some len -> wf_lenv e ->
  good b wf_lenv (destruct_insert ids i e).
Proof.
  intros Hi E G L We.
  assert (Gen : good b wf_lenv
    (obind (rt i) (fun t => match flatten_tuple t with
       | Some ts => zip_insert (fun t => Ok (LOther t)) ids ts e
       | None => zip_insert (fun t => Ok (LOther t)) ids (map (fun _ => TNever) ids) e end))).
  { destruct Hi as [t' [E' W]]. rewrite E' in E. injection E as ->. rewrite E'. cbn [obind].
    destruct (flatten_tuple t) as [ts|] eqn:F.
    - apply zip_insert_good; [|exact We]. pose proof (flatten_tuple_wf t ts W F) as Wts.
      rewrite forallb_forall in Wts. apply Forall_forall. intros x Hx.
      eexists. split; [reflexivity|]. apply Wts, Hx.
    - exfalso. revert F. apply (flatten_guard t len); assumption. }
  destruct i; try exact Gen.
  - (* ITuple *)
    cbn [destruct_insert]. apply zip_insert_good; [|exact We].
    apply rt_ok_tuple_inv in Hi. apply Forall_forall. intros x Hx.
    rewrite Forall_forall in Hi. apply lvar_of_instr_ok, Hi, Hx.
  - (* IVar *)
    destruct v; try exact Gen. cbn [destruct_insert].
    apply zip_insert_good; [|exact We]. apply wf_tup_values.
    destruct Hi as [t' [E' W]]. cbn [rt] in E'. injection E' as <-. exact W.
Qed.

Lemma line_good e ln :
  wf_lenv e -> wf_sline ln = true ->
  good (sline_size ln < S n) ok_s (line_body csf clf sc e ln).
Proof.
  intros We W. destruct ln as [nm ps ret body|nm s|ids s|s]; cbv beta iota zeta delta [line_body];
    cbn [wf_sline] in W.
  - (* LFnDecl *)
    andb_split W. pose proof (wf_ret _ W1) as Wr.
    assert (We0 : wf_lenv (lenv_insert nm (LFunction ps (match ret with Some t => t | None => TVoid end)) e))
      by (apply wf_lenv_insert; [exact We|apply wf_fun_ty; assumption]).
    apply good_bind with (P := ok_l).
    { eapply good_weaken; [|apply IHl; [apply wf_lenv_push_fn; assumption|assumption]]. sz. }
    intros [is e'] _ [His _]. cbn [fst] in His.
    apply good_bind with (P := fun _ => True);
      [apply missing_return_good, Forall_drop_consts, His|].
    intros miss _ _. destruct miss; [apply good_reject|].
    split; [|exact We0]. eexists. split; [reflexivity|]. apply wf_fun_ty; assumption.
  - (* LSet *)
    apply good_bind with (P := ok_s); [use_s|].
    intros [i e1] _ [Hi We1]. cbn [fst snd] in Hi, We1.
    destruct (lvar_of_instr_ok i Hi) as [lv [El Wl]]. rewrite El. cbn [obind].
    split; [apply rt_ok_set, Hi|apply wf_lenv_insert; assumption].
  - (* LDestruct *)
    apply good_bind with (P := ok_s); [use_s|].
    intros [i e1] _ [Hi We1]. cbn [fst snd] in Hi, We1. bind_rt Hi t E Wt.
    destruct (is_tuple t) eqn:G; [|apply good_reject]. cbn [negb].
    destruct (tuple_len t) as [len|] eqn:L; [|apply good_reject].
    destruct (negb (Nat.eqb len (length ids))); [apply good_reject|].
    apply good_bind with (P := wf_lenv); [apply (destruct_insert_good _ ids i e1 t len); assumption|].
    intros e2 _ We2. split; [apply rt_ok_destruct, Hi|exact We2].
  - (* LStm *) use_s.
Qed.

Lemma l_body_good e l :
  wf_lenv e -> forallb wf_sline l = true ->
  good (lines_size l < S n) ok_l (l_body csf clf sc e l).
Proof.
  intros We W. destruct l as [|ln l]; cbn [l_body]; [split; [constructor|exact We]|].
  cbn [forallb] in W. andb_split W.
  apply good_bind with (P := ok_s); [eapply good_weaken; [|apply line_good; assumption]; sz|].
  intros [i e1] _ [Hi We1]. cbn [fst snd] in Hi, We1.
  apply good_bind with (P := ok_l); [eapply good_weaken; [|apply IHl; assumption]; sz|].
  intros [is e2] _ [His We2]. split; [constructor; assumption|exact We2].
Qed.

End Step.

(* ================================================================= *)
(* induction on the fuel                                               *)
(* ================================================================= *)
Section Main.
Variable red : reducers.
Hypothesis Wred : wf_red red.

Lemma check_good n sc :
  wf_scopes sc ->
  (forall e x, wf_lenv e -> wf_sx x = true ->
     good (sx_size x < n) rt_ok (check_x red n sc e x)) /\
  (forall e s, wf_lenv e -> wf_sstm s = true ->
     good (sstm_size s < n) ok_s (check_s red n sc e s)) /\
  (forall e l, wf_lenv e -> forallb wf_sline l = true ->
     good (lines_size l < n) ok_l (check_lines red n sc e l)).
Proof.
  intros Wsc. induction n as [|n [IHx [IHs IHl]]].
  - repeat split; intros; cbn; lia.
  - repeat split; intros.
    + rewrite check_x_S. apply x_body_good; assumption.
    + rewrite check_s_S. apply s_body_good; assumption.
    + rewrite check_lines_S. apply l_body_good; assumption.
Qed.

Lemma check_x_good n sc e x :
  wf_lenv e -> wf_scopes sc -> wf_sx x = true ->
  good (sx_size x < n) rt_ok (check_x red n sc e x).
Proof. intros We Wsc Wx. apply (check_good n sc Wsc); assumption. Qed.
Lemma check_s_good n sc e s :
  wf_lenv e -> wf_scopes sc -> wf_sstm s = true ->
  good (sstm_size s < n) ok_s (check_s red n sc e s).
Proof. intros We Wsc Wx. apply (check_good n sc Wsc); assumption. Qed.
Lemma check_lines_good n sc e l :
  wf_lenv e -> wf_scopes sc -> forallb wf_sline l = true ->
  good (lines_size l < n) ok_l (check_lines red n sc e l).
Proof. intros We Wsc Wx. apply (check_good n sc Wsc); assumption. Qed.

(* 1. the static type of whatever is accepted is well-formed (it is computable: rt_total) *)
Theorem check_x_rt_wf fuel sc e x i :
  wf_lenv e -> wf_scopes sc -> wf_sx x = true ->
  check_x red fuel sc e x = Ok i -> exists T, rt i = Ok T /\ wf_ty T = true.
Proof.
  intros We Wsc Wx E. pose proof (check_x_good fuel sc e x We Wsc Wx) as G.
  rewrite E in G. exact G.
Qed.

Theorem check_s_rt_wf fuel sc e s i e' :
  wf_lenv e -> wf_scopes sc -> wf_sstm s = true ->
  check_s red fuel sc e s = Ok (i, e') ->
  (exists T, rt i = Ok T /\ wf_ty T = true) /\ wf_lenv e'.
Proof.
  intros We Wsc Wx E. pose proof (check_s_good fuel sc e s We Wsc Wx) as G.
  rewrite E in G. exact G.
Qed.

Theorem check_lines_rt_wf fuel sc e l is e' :
  wf_lenv e -> wf_scopes sc -> forallb wf_sline l = true ->
  check_lines red fuel sc e l = Ok (is, e') ->
  Forall (fun i => exists T, rt i = Ok T /\ wf_ty T = true) is /\ wf_lenv e'.
Proof.
  intros We Wsc Wx E. pose proof (check_lines_good fuel sc e l We Wsc Wx) as G.
  rewrite E in G. exact G.
Qed.

(* 2. the checker itself never panics *)
Theorem check_x_never_panics fuel sc e x :
  wf_lenv e -> wf_scopes sc -> wf_sx x = true -> check_x red fuel sc e x <> Panic.
Proof. intros We Wsc Wx. eapply good_not_panic, check_x_good; eassumption. Qed.
Theorem check_s_never_panics fuel sc e s :
  wf_lenv e -> wf_scopes sc -> wf_sstm s = true -> check_s red fuel sc e s <> Panic.
Proof. intros We Wsc Wx. eapply good_not_panic, check_s_good; eassumption. Qed.
Theorem check_lines_never_panics fuel sc e l :
  wf_lenv e -> wf_scopes sc -> forallb wf_sline l = true -> check_lines red fuel sc e l <> Panic.
Proof. intros We Wsc Wx. eapply good_not_panic, check_lines_good; eassumption. Qed.

(* 3. with fuel above the size of the AST the checker answers *)
Lemma good_answers {A} (b : Prop) (P : A -> Prop) o :
  good b P o -> b -> (exists a, o = Ok a /\ P a) \/ (exists z, o = Err z).
Proof. destruct o; cbn; intros H Hb; [left; eauto|right; eauto|contradiction|contradiction]. Qed.

Theorem check_total fuel sc e x :
  wf_lenv e -> wf_scopes sc -> wf_sx x = true -> sx_size x < fuel ->
  (exists i, check_x red fuel sc e x = Ok i) \/ (exists z, check_x red fuel sc e x = Err z).
Proof.
  intros We Wsc Wx Hf.
  destruct (good_answers _ _ _ (check_x_good fuel sc e x We Wsc Wx) Hf) as [[i [E _]]|[z E]]; eauto.
Qed.
Theorem check_s_total fuel sc e s :
  wf_lenv e -> wf_scopes sc -> wf_sstm s = true -> sstm_size s < fuel ->
  (exists r, check_s red fuel sc e s = Ok r) \/ (exists z, check_s red fuel sc e s = Err z).
Proof.
  intros We Wsc Wx Hf.
  destruct (good_answers _ _ _ (check_s_good fuel sc e s We Wsc Wx) Hf) as [[i [E _]]|[z E]]; eauto.
Qed.
Theorem check_lines_total fuel sc e l :
  wf_lenv e -> wf_scopes sc -> forallb wf_sline l = true -> lines_size l < fuel ->
  (exists r, check_lines red fuel sc e l = Ok r) \/ (exists z, check_lines red fuel sc e l = Err z).
Proof.
  intros We Wsc Wx Hf.
  destruct (good_answers _ _ _ (check_lines_good fuel sc e l We Wsc Wx) Hf) as [[i [E _]]|[z E]]; eauto.
Qed.
End Main.

(* the defect repaired in 15efcc4, at the level of types: `@`'s guard lets a mapper of
   type `!` through, and `!` has no return type to unwrap *)
Lemma map_guard_never_refuted :
  can_be_used Map (TFun [] (TTup [TBool; TInt])) TNever = Ok true /\
  (forall e, matches TNever (TFun [e] TAny) = true) /\ fn_return_type TNever = None /\
  bin_rt Map (TFun [] (TTup [TBool; TInt])) TNever = Ok (TFun [] (TTup [TBool; TNever])).
Proof. repeat split; vm_compute; reflexivity. Qed.

Lemma can_be_used_never_panics op l r :
  can_be_used op l r <> Panic /\ can_be_used op l r <> OutOfFuel.
Proof.
  pose proof (can_be_used_good True op l r) as G.
  destruct (can_be_used op l r); cbn [good] in G; split; try discriminate; try contradiction.
Qed.

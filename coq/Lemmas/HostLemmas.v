(* Lemmas about Model/Host.v: a host call accepts exactly what an in-language call of the
   same function on the same (constant) arguments accepts. *)
From SSL.Model Require Import Base Ty Float Value Ops Syntax Rt Recreate Check Host.
From Coq Require Import List Arith Bool Lia.
Import ListNotations.

Lemma all2_map_l {A B C} (f : B -> C -> bool) (g : A -> B) l1 l2 :
  all2 f (map g l1) l2 = all2 (fun a c => f (g a) c) l1 l2.
Proof.
  revert l2. induction l1 as [|x l1 IH]; intros [|y l2]; cbn [map all2]; try reflexivity.
  rewrite IH. reflexivity.
Qed.

Lemma host_call_ok_args_ok ps args : host_call_ok ps args = args_ok ps (map as_type args).
Proof.
  unfold host_call_ok, args_ok. rewrite map_length, all2_map_l. reflexivity.
Qed.

Section WithRed.
Variable red : reducers.

(* standalone copies of the local helpers of check_x (convertible with the inner fixes) *)
Definition cx_list_def (cx : sx -> outcome instr) :=
  fix go (l : list sx) : outcome (list instr) :=
    match l with
    | [] => Ok []
    | y :: l => obind (cx y) (fun i => obind (go l) (fun is => Ok (i :: is)))
    end.
Definition rts_def :=
  fix go (l : list instr) : outcome (list ty) :=
    match l with
    | [] => Ok []
    | y :: l => obind (rt y) (fun t => obind (go l) (fun ts => Ok (t :: ts)))
    end.

Lemma cx_list_consts cx (vs : list value) :
  (forall v, cx (XConst v) = Ok (IVar v)) -> cx_list_def cx (map XConst vs) = Ok (map IVar vs).
Proof.
  intros H. induction vs as [|v vs IH]; [reflexivity|].
  change (cx_list_def cx (map XConst (v :: vs)))
    with (obind (cx (XConst v)) (fun i => obind (cx_list_def cx (map XConst vs)) (fun is => Ok (i :: is)))).
  rewrite H, IH. reflexivity.
Qed.

Lemma rts_consts (vs : list value) : rts_def (map IVar vs) = Ok (map as_type vs).
Proof.
  induction vs as [|v vs IH]; [reflexivity|].
  change (rts_def (map IVar (v :: vs)))
    with (obind (rt (IVar v)) (fun t => obind (rts_def (map IVar vs)) (fun ts => Ok (t :: ts)))).
  rewrite IH. reflexivity.
Qed.

Lemma check_x_call_unfold n sc e f args :
  check_x red (S n) sc e (XCall f args) =
  obind (check_x red n sc e f) (fun fi =>
  obind (cx_list_def (check_x red n sc e) args) (fun ais =>
  obind (rts_def ais) (fun ats =>
    let build := Ok (IBin FunctionCall fi (ITuple ais)) in
    match fi with
    | IVar (VFun _ ps _) => if args_ok ps ats then build else reject
    | ILocal _ (LFunction ps _) => if args_ok (map snd ps) ats then build else reject
    | IAnonFn ps _ _ => if args_ok (map snd ps) ats then build else reject
    | _ =>
        obind (rt fi) (fun ft =>
        if negb (is_function ft) then reject else
        match Ty.params ft with
        | None => reject
        | Some ps => if args_ok ps ats then build else reject
        end)
    end))).
Proof. reflexivity. Qed.

(* the in-language call `f(a1, .., an)` of a function CONSTANT on constant arguments *)
Lemma inline_call_check fuel sc e id ps r (args : list value) :
  check_x red (S (S fuel)) sc e (XCall (XConst (VFun id ps r)) (map XConst args)) =
  if args_ok ps (map as_type args)
  then Ok (IBin FunctionCall (IVar (VFun id ps r)) (ITuple (map IVar args)))
  else reject.
Proof.
  rewrite check_x_call_unfold.
  change (check_x red (S fuel) sc e (XConst (VFun id ps r))) with (@Ok instr (IVar (VFun id ps r))).
  cbn [obind].
  rewrite cx_list_consts by (intros v; reflexivity). cbn [obind].
  rewrite rts_consts. cbn [obind]. reflexivity.
Qed.

Lemma host_call_accepts_iff_inline fuel sc e id ps r args :
  host_call_ok ps args = true <->
  exists i, check_x red (S (S fuel)) sc e (XCall (XConst (VFun id ps r)) (map XConst args)) = Ok i.
Proof.
  rewrite inline_call_check, host_call_ok_args_ok.
  destruct (args_ok ps (map as_type args)); split.
  - intros _. eexists. reflexivity.
  - intros _. reflexivity.
  - discriminate.
  - intros [i H]. discriminate H.
Qed.

End WithRed.

Lemma host_call_arity ps args : host_call_ok ps args = true -> length ps = length args.
Proof.
  unfold host_call_ok. intros H. apply andb_true_iff in H. destruct H as [H _].
  apply Nat.eqb_eq in H. exact H.
Qed.

Lemma host_call_arg_types ps args : host_call_ok ps args = true ->
  forall k a p, nth_error args k = Some a -> nth_error ps k = Some p -> matches (as_type a) p = true.
Proof.
  unfold host_call_ok. intros H. apply andb_true_iff in H. destruct H as [_ H].
  revert ps H. induction args as [|x args IH]; intros [|q ps] H k a p Ha Hp; try discriminate;
    destruct k; cbn in Ha, Hp; try discriminate.
  - injection Ha as <-. injection Hp as <-. cbn [all2] in H. apply andb_true_iff in H. tauto.
  - cbn [all2] in H. apply andb_true_iff in H. destruct H as [_ H]. eapply IH; eauto.
Qed.

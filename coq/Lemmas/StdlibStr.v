(* StdlibStr.v — C18: the string helpers of std.string / std.len / std.convert.parse_int meet
   docs/stdlib.md.  Strings are lists of Unicode scalar values. *)
From Coq Require Import ZArith Lia List Bool.
Import ListNotations.
From SSL.Model Require Import Base Ty Float Value Stdlib.

Local Open Scope Z_scope.

(* ================================================================= *)
(* starts_with / ends_with / contains                                *)
(* ================================================================= *)
Lemma starts_with_l_iff p s : starts_with_l p s = true <-> exists post, s = p ++ post.
Proof.
  revert s. induction p as [|x p IH]; intros s; cbn [starts_with_l].
  - split; [intros _; exists s; reflexivity|reflexivity].
  - destruct s as [|y s].
    + split; [discriminate|intros [post E]; discriminate E].
    + rewrite andb_true_iff, Z.eqb_eq, IH. split.
      * intros [-> [post ->]]. exists post. reflexivity.
      * intros [post E]. injection E as -> ->. split; [reflexivity|exists post; reflexivity].
Qed.

Theorem starts_with_spec : forall s p, starts_with s p = true <-> exists post, s = p ++ post.
Proof. intros s p. apply starts_with_l_iff. Qed.

Theorem ends_with_spec : forall s p, ends_with s p = true <-> exists pre, s = pre ++ p.
Proof.
  intros s p. unfold ends_with. rewrite starts_with_l_iff. split.
  - intros [post E]. exists (rev post).
    rewrite <- (rev_involutive s), E, rev_app_distr, rev_involutive. reflexivity.
  - intros [pre ->]. exists (rev pre). apply rev_app_distr.
Qed.

Theorem contains_spec : forall s p, contains s p = true <-> exists pre post, s = pre ++ p ++ post.
Proof.
  intros s p. induction s as [|c s IH].
  - cbn [contains]. rewrite orb_false_r, starts_with_l_iff. split.
    + intros [post E]. exists [], post. exact E.
    + intros [pre [post E]]. destruct pre as [|x pre]; [|discriminate E]. exists post. exact E.
  - cbn [contains]. rewrite orb_true_iff, starts_with_l_iff, IH. split.
    + intros [[post E]|[pre [post E]]].
      * exists [], post. exact E.
      * exists (c :: pre), post. rewrite E. reflexivity.
    + intros [pre [post E]]. destruct pre as [|x pre].
      * left. exists post. exact E.
      * right. injection E as -> E. exists pre, post. exact E.
Qed.

Theorem contains_empty : forall s, contains s [] = true.
Proof. intros s. apply contains_spec. exists [], s. reflexivity. Qed.

Theorem starts_with_contains : forall s p, starts_with s p = true -> contains s p = true.
Proof.
  intros s p H. apply contains_spec. apply starts_with_spec in H. destruct H as [post E].
  exists [], post. exact E.
Qed.

Theorem ends_with_contains : forall s p, ends_with s p = true -> contains s p = true.
Proof.
  intros s p H. apply contains_spec. apply ends_with_spec in H. destruct H as [pre E].
  exists pre, []. rewrite app_nil_r. exact E.
Qed.

(* ================================================================= *)
(* len / chars                                                       *)
(* ================================================================= *)
Theorem len_chars : forall s, Z.of_nat (length (chars s)) = len_string s.
Proof. intros s. unfold chars, len_string. rewrite map_length. reflexivity. Qed.

Theorem chars_concat : forall s, List.concat (chars s) = s.
Proof.
  induction s as [|c s IH]; [reflexivity|].
  unfold chars in *. cbn [map List.concat app]. rewrite IH. reflexivity.
Qed.

Theorem chars_singletons : forall s x, In x (chars s) -> exists c, x = [c].
Proof. intros s x H. unfold chars in H. apply in_map_iff in H. destruct H as [c [<- _]]. exists c. reflexivity. Qed.

Theorem len_nonneg : forall v n, std_len v = Some n -> 0 <= n.
Proof.
  intros v n. destruct v; try discriminate; cbn [std_len]; intros [= <-]; unfold len_string; lia.
Qed.

Theorem len_app : forall a b, len_string (a ++ b) = len_string a + len_string b.
Proof. intros a b. unfold len_string. rewrite app_length. lia. Qed.

(* ================================================================= *)
(* split / join / replace                                            *)
(* ================================================================= *)
Lemma split_f_nonempty n p cur s : split_f n p cur s <> [].
Proof.
  revert cur s. induction n as [|n IH]; intros cur s; cbn [split_f]; [discriminate|].
  destruct s as [|c s']; [discriminate|].
  destruct (starts_with_l p (c :: s')); [discriminate|apply IH].
Qed.

Lemma join_cons sep x l : l <> [] -> join sep (x :: l) = x ++ sep ++ join sep l.
Proof. destruct l; [congruence|reflexivity]. Qed.

Lemma skipn_app_length {A} (p post : list A) : skipn (length p) (p ++ post) = post.
Proof. induction p as [|x p IH]; [reflexivity|exact IH]. Qed.

(* gluing the pieces with the separator gives the input back — for every fuel *)
Lemma join_split_f n p : forall cur s, join p (split_f n p cur s) = rev cur ++ s.
Proof.
  induction n as [|n IH]; intros cur s; cbn [split_f]; [reflexivity|].
  destruct s as [|c s']; [cbn [join]; rewrite app_nil_r; reflexivity|].
  destruct (starts_with_l p (c :: s')) eqn:E.
  - apply starts_with_l_iff in E. destruct E as [post E]. rewrite E.
    rewrite skipn_app_length. rewrite join_cons by apply split_f_nonempty.
    rewrite IH. reflexivity.
  - rewrite IH. cbn [rev]. rewrite <- app_assoc. reflexivity.
Qed.

Lemma join_singletons s : join [] (map (fun c : Z => [c]) s ++ [[]]) = s.
Proof.
  induction s as [|c s IH]; [reflexivity|].
  cbn [map app]. rewrite join_cons.
  - rewrite IH. reflexivity.
  - destruct s; discriminate.
Qed.

(* docs: "Splits string on pat": the pieces, glued with the pattern, are the string *)
Theorem join_split : forall s sep, join sep (split s sep) = s.
Proof.
  intros s sep. unfold split. destruct sep as [|x sep].
  - rewrite join_cons by (destruct s; discriminate). apply join_singletons.
  - apply (join_split_f (length s) (x :: sep) [] s).
Qed.

Theorem split_nonempty_result : forall s sep, split s sep <> [].
Proof.
  intros s sep. unfold split. destruct sep; [discriminate|apply split_f_nonempty].
Qed.

(* the empty pattern: one piece per char plus an empty piece at both ends *)
Theorem split_empty_pattern : forall s, split s [] = [] :: chars s ++ [[]].
Proof. reflexivity. Qed.

(* no occurrence: one piece *)
Lemma split_f_no_match n p : forall cur s,
  (length s <= n)%nat -> contains s p = false -> split_f n p cur s = [rev cur ++ s].
Proof.
  induction n as [|n IH]; intros cur s L C; cbn [split_f]; [reflexivity|].
  destruct s as [|c s']; [rewrite app_nil_r; reflexivity|].
  cbn [contains] in C. apply orb_false_iff in C. destruct C as [C1 C2].
  rewrite C1. rewrite IH.
  - cbn [rev]. rewrite <- app_assoc. reflexivity.
  - cbn [length] in L. lia.
  - exact C2.
Qed.

Theorem split_no_match : forall s p, contains s p = false -> split s p = [s].
Proof.
  intros s p C. unfold split. destruct p as [|x p].
  - rewrite contains_empty in C. discriminate C.
  - apply (split_f_no_match (length s) (x :: p) [] s (le_n _) C).
Qed.

(* every piece but the last is followed by a match that starts right after it: pieces do not
   contain a match that ends inside them — stated for the first piece: it is the text before
   the LEFTMOST match *)
Lemma split_f_first n p : forall cur s pre post,
  p <> [] -> (length s <= n)%nat ->
  s = pre ++ p ++ post ->
  (forall pre' post', s = pre' ++ p ++ post' -> (length pre <= length pre')%nat) ->
  exists rest, split_f n p cur s = (rev cur ++ pre) :: rest /\ join p rest = post.
Proof.
  induction n as [|n IH]; intros cur s pre post Hp L E Hmin.
  - destruct s; [|cbn in L; lia]. destruct pre; [|discriminate E]. destruct p; [congruence|discriminate E].
  - cbn [split_f]. destruct s as [|c s'].
    + destruct pre; [|discriminate E]. destruct p; [congruence|discriminate E].
    + destruct (starts_with_l p (c :: s')) eqn:S.
      * apply starts_with_l_iff in S. destruct S as [post0 S].
        assert (pre = []).
        { specialize (Hmin [] post0 S). destruct pre; [reflexivity|cbn in Hmin; lia]. }
        subst pre. cbn [app] in E. rewrite app_nil_r.
        assert (post0 = post) by (rewrite S in E; apply app_inv_head in E; exact E). subst post0.
        rewrite S, skipn_app_length. eexists. split; [reflexivity|].
        rewrite join_split_f. reflexivity.
      * destruct pre as [|x pre].
        -- exfalso. cbn [app] in E.
           assert (starts_with_l p (c :: s') = true) by (apply starts_with_l_iff; exists post; exact E).
           congruence.
        -- injection E as -> E.
           destruct (IH (x :: cur) s' pre post Hp) as [rest [R J]].
           ++ cbn [length] in L. lia.
           ++ exact E.
           ++ intros pre' post' E'. specialize (Hmin (x :: pre') post').
              cbn [app length] in Hmin. rewrite E' in Hmin. specialize (Hmin eq_refl). lia.
           ++ exists rest. split; [|exact J]. rewrite R. cbn [rev]. rewrite <- app_assoc. reflexivity.
Qed.

Theorem split_first_piece : forall s p pre post,
  p <> [] -> s = pre ++ p ++ post ->
  (forall pre' post', s = pre' ++ p ++ post' -> (length pre <= length pre')%nat) ->
  exists rest, split s p = pre :: rest /\ join p rest = post.
Proof.
  intros s p pre post Hp E Hmin. unfold split. destruct p as [|x p]; [congruence|].
  exact (split_f_first (length s) (x :: p) [] s pre post Hp (le_n _) E Hmin).
Qed.

(* docs: replace = "replacing all occurences of from with to" *)
Theorem replace_same : forall s p, replace s p p = s.
Proof. intros s p. unfold replace. apply join_split. Qed.

Theorem replace_no_match : forall s from to, contains s from = false -> replace s from to = s.
Proof. intros s from to C. unfold replace. rewrite split_no_match by exact C. reflexivity. Qed.

Theorem replace_is_join_split : forall s from to, replace s from to = join to (split s from).
Proof. reflexivity. Qed.

(* ================================================================= *)
(* UTF-8: bytes / str_from_utf8                                      *)
(* ================================================================= *)
Lemma dec1 b0 r :
  in_range 0 127 b0 = true -> utf8_decode (b0 :: r) = option_map (cons b0) (utf8_decode r).
Proof. intros H. cbn [utf8_decode]. rewrite H. reflexivity. Qed.

Lemma dec2 b0 b1 r :
  in_range 0 127 b0 = false -> in_range 194 223 b0 = true -> is_cont b1 = true ->
  utf8_decode (b0 :: b1 :: r) = option_map (cons ((b0 - 192) * 64 + (b1 - 128))) (utf8_decode r).
Proof. intros H0 H1 H2. cbn [utf8_decode]. rewrite H0, H1, H2. reflexivity. Qed.

Lemma dec3 b0 b1 b2 r :
  in_range 0 127 b0 = false -> in_range 194 223 b0 = false -> in_range 224 239 b0 = true ->
  second3 b0 b1 = true -> is_cont b2 = true ->
  utf8_decode (b0 :: b1 :: b2 :: r) =
  option_map (cons ((b0 - 224) * 4096 + (b1 - 128) * 64 + (b2 - 128))) (utf8_decode r).
Proof. intros H0 H1 H2 H3 H4. cbn [utf8_decode]. rewrite H0, H1, H2, H3, H4. reflexivity. Qed.

Lemma dec4 b0 b1 b2 b3 r :
  in_range 0 127 b0 = false -> in_range 194 223 b0 = false -> in_range 224 239 b0 = false ->
  in_range 240 244 b0 = true -> second4 b0 b1 = true -> is_cont b2 = true -> is_cont b3 = true ->
  utf8_decode (b0 :: b1 :: b2 :: b3 :: r) =
  option_map (cons ((b0 - 240) * 262144 + (b1 - 128) * 4096 + (b2 - 128) * 64 + (b3 - 128)))
             (utf8_decode r).
Proof.
  intros H0 H1 H2 H3 H4 H5 H6. cbn [utf8_decode]. rewrite H0, H1, H2, H3, H4, H5, H6. reflexivity.
Qed.

Lemma in_range_true lo hi b : lo <= b <= hi -> in_range lo hi b = true.
Proof. intros H. unfold in_range. apply andb_true_iff. split; apply Z.leb_le; lia. Qed.
Lemma in_range_false lo hi b : b < lo \/ hi < b -> in_range lo hi b = false.
Proof.
  intros H. unfold in_range. apply andb_false_iff.
  destruct H; [left|right]; apply Z.leb_gt; lia.
Qed.
Lemma is_cont_true b : 128 <= b <= 191 -> is_cont b = true.
Proof. intros H. unfold is_cont. apply andb_true_iff. split; apply Z.leb_le; lia. Qed.

Lemma is_scalar_cases c :
  is_scalar c = true -> (0 <= c < 55296) \/ (57344 <= c < 1114112).
Proof.
  unfold is_scalar. rewrite orb_true_iff, !andb_true_iff, !Z.leb_le, !Z.ltb_lt. tauto.
Qed.

Lemma decode_encode c rest :
  is_scalar c = true ->
  utf8_decode (utf8_encode c ++ rest) = option_map (cons c) (utf8_decode rest).
Proof.
  intros Hs. apply is_scalar_cases in Hs. unfold utf8_encode.
  destruct (Z.ltb_spec c 128) as [L1|G1].
  - cbn [app]. rewrite dec1 by (apply in_range_true; lia). reflexivity.
  - destruct (Z.ltb_spec c 2048) as [L2|G2].
    + cbn [app]. rewrite dec2.
      * f_equal. f_equal. Z.div_mod_to_equations. lia.
      * apply in_range_false. Z.div_mod_to_equations. lia.
      * apply in_range_true. Z.div_mod_to_equations. lia.
      * apply is_cont_true. Z.div_mod_to_equations. lia.
    + destruct (Z.ltb_spec c 65536) as [L3|G3].
      * cbn [app]. rewrite dec3.
        -- f_equal. f_equal. Z.div_mod_to_equations. lia.
        -- apply in_range_false. Z.div_mod_to_equations. lia.
        -- apply in_range_false. Z.div_mod_to_equations. lia.
        -- apply in_range_true. Z.div_mod_to_equations. lia.
        -- unfold second3.
           destruct (Z.eqb_spec (224 + c / 4096) 224) as [E1|N1].
           ++ apply in_range_true. Z.div_mod_to_equations. lia.
           ++ destruct (Z.eqb_spec (224 + c / 4096) 237) as [E2|N2].
              ** apply in_range_true. Z.div_mod_to_equations. lia.
              ** apply in_range_true. Z.div_mod_to_equations. lia.
        -- apply is_cont_true. Z.div_mod_to_equations. lia.
      * cbn [app]. rewrite dec4.
        -- f_equal. f_equal. Z.div_mod_to_equations. lia.
        -- apply in_range_false. Z.div_mod_to_equations. lia.
        -- apply in_range_false. Z.div_mod_to_equations. lia.
        -- apply in_range_false. Z.div_mod_to_equations. lia.
        -- apply in_range_true. Z.div_mod_to_equations. lia.
        -- unfold second4.
           destruct (Z.eqb_spec (240 + c / 262144) 240) as [E1|N1].
           ++ apply in_range_true. Z.div_mod_to_equations. lia.
           ++ destruct (Z.eqb_spec (240 + c / 262144) 244) as [E2|N2].
              ** apply in_range_true. Z.div_mod_to_equations. lia.
              ** apply in_range_true. Z.div_mod_to_equations. lia.
        -- apply is_cont_true. Z.div_mod_to_equations. lia.
        -- apply is_cont_true. Z.div_mod_to_equations. lia.
Qed.

Theorem utf8_decode_bytes : forall s,
  forallb is_scalar s = true -> utf8_decode (bytes s) = Some s.
Proof.
  induction s as [|c s IH]; intros H; [reflexivity|].
  cbn [forallb] in H. apply andb_true_iff in H. destruct H as [Hc Hs].
  unfold bytes. cbn [flat_map]. rewrite decode_encode by exact Hc.
  fold (bytes s). rewrite IH by exact Hs. reflexivity.
Qed.

Lemma encode_byte_range c b :
  is_scalar c = true -> In b (utf8_encode c) -> 0 <= b < 256.
Proof.
  intros Hs. apply is_scalar_cases in Hs. unfold utf8_encode.
  destruct (Z.ltb_spec c 128); [|destruct (Z.ltb_spec c 2048); [|destruct (Z.ltb_spec c 65536)]]; cbn [In].
  - intros [<-|[]]. lia.
  - intros [<-|[<-|[]]]; Z.div_mod_to_equations; lia.
  - intros [<-|[<-|[<-|[]]]]; Z.div_mod_to_equations; lia.
  - intros [<-|[<-|[<-|[<-|[]]]]]; Z.div_mod_to_equations; lia.
Qed.

Lemma bytes_range s b : forallb is_scalar s = true -> In b (bytes s) -> 0 <= b < 256.
Proof.
  intros Hs Hb. unfold bytes in Hb. apply in_flat_map in Hb. destruct Hb as [c [Hc Hb]].
  rewrite forallb_forall in Hs. exact (encode_byte_range c b (Hs c Hc) Hb).
Qed.

(* docs: bytes "returns an array containing bytes of string"; str_from_utf8 "converts array of
   bytes into string": the round trip *)
Theorem str_from_utf8_bytes : forall s,
  forallb is_scalar s = true -> str_from_utf8 (bytes s) = Some s.
Proof.
  intros s Hs. unfold str_from_utf8.
  replace (map as_u8 (bytes s)) with (bytes s); [apply utf8_decode_bytes; exact Hs|].
  symmetry. rewrite <- (map_id (bytes s)) at 2. apply map_ext_in.
  intros b Hb. unfold as_u8. apply Z.mod_small. exact (bytes_range s b Hs Hb).
Qed.

(* the `as u8` truncation of the implementation, as coded: 256+65 is "A" *)
Theorem str_from_utf8_truncates : str_from_utf8 [321] = Some [65] /\ str_from_utf8 [-191] = Some [65].
Proof. split; reflexivity. Qed.

Theorem as_u8_range : forall z, 0 <= as_u8 z < 256.
Proof. intros z. unfold as_u8. apply Z.mod_pos_bound. reflexivity. Qed.

(* a strictly decodable byte string decodes to the same text lossily *)
Lemma lossy_dec1 b0 r :
  in_range 0 127 b0 = true -> utf8_decode_lossy (b0 :: r) = b0 :: utf8_decode_lossy r.
Proof. intros H. cbn [utf8_decode_lossy]. rewrite H. reflexivity. Qed.

Theorem utf8_lossy_of_strict : forall n bs s,
  (length bs <= n)%nat -> utf8_decode bs = Some s -> utf8_decode_lossy bs = s.
Proof.
  induction n as [|n IH]; intros bs s L.
  - destruct bs; [|cbn in L; lia]. cbn. intros [= <-]. reflexivity.
  - destruct bs as [|b0 r]; [cbn; intros [= <-]; reflexivity|].
    cbn [utf8_decode utf8_decode_lossy]. cbn [length] in L.
    destruct (in_range 0 127 b0).
    { destruct (utf8_decode r) as [s'|] eqn:E; [|discriminate]. cbn [option_map]. intros [= <-].
      f_equal. apply IH; [lia|exact E]. }
    destruct (in_range 194 223 b0).
    { destruct r as [|b1 r1]; [discriminate|]. destruct (is_cont b1); [|discriminate].
      destruct (utf8_decode r1) as [s'|] eqn:E; [|discriminate]. cbn [option_map]. intros [= <-].
      f_equal. apply IH; [cbn [length] in L; lia|exact E]. }
    destruct (in_range 224 239 b0).
    { destruct r as [|b1 [|b2 r2]]; try discriminate.
      destruct (second3 b0 b1); [|discriminate]. destruct (is_cont b2); [|discriminate].
      cbn [andb].
      destruct (utf8_decode r2) as [s'|] eqn:E; [|discriminate]. cbn [option_map]. intros [= <-].
      f_equal. apply IH; [cbn [length] in L; lia|exact E]. }
    destruct (in_range 240 244 b0); [|discriminate].
    destruct r as [|b1 [|b2 [|b3 r3]]]; try discriminate.
    destruct (second4 b0 b1); [|discriminate]. destruct (is_cont b2); [|discriminate].
    destruct (is_cont b3); [|discriminate]. cbn [andb].
    destruct (utf8_decode r3) as [s'|] eqn:E; [|discriminate]. cbn [option_map]. intros [= <-].
    f_equal. apply IH; [cbn [length] in L; lia|exact E].
Qed.

Theorem str_from_utf8_lossy_agrees : forall ints s,
  str_from_utf8 ints = Some s -> str_from_utf8_lossy ints = s.
Proof.
  intros ints s H. unfold str_from_utf8, str_from_utf8_lossy in *.
  exact (utf8_lossy_of_strict _ _ s (le_n _) H).
Qed.

Theorem str_from_utf8_lossy_bytes : forall s,
  forallb is_scalar s = true -> str_from_utf8_lossy (bytes s) = s.
Proof. intros s Hs. apply str_from_utf8_lossy_agrees. apply str_from_utf8_bytes. exact Hs. Qed.

(* ================================================================= *)
(* trim                                                              *)
(* ================================================================= *)
Lemma drop_while_split f s :
  exists ws, s = ws ++ drop_while f s /\ forallb f ws = true /\
             match drop_while f s with [] => True | c :: _ => f c = false end.
Proof.
  induction s as [|c s IH].
  - exists []. repeat split.
  - cbn [drop_while]. destruct (f c) eqn:F.
    + destruct IH as [ws [E [W H]]]. exists (c :: ws). split; [cbn; rewrite <- E; reflexivity|].
      split; [cbn; rewrite F, W; reflexivity|exact H].
    + exists []. split; [reflexivity|]. split; [reflexivity|exact F].
Qed.

(* docs: trim_start "with leading whitespace removed" *)
Theorem trim_start_spec : forall s,
  exists ws, s = ws ++ trim_start s /\ forallb is_whitespace ws = true /\
             match trim_start s with [] => True | c :: _ => is_whitespace c = false end.
Proof. intros s. exact (drop_while_split is_whitespace s). Qed.

Theorem trim_end_spec : forall s,
  exists ws, s = trim_end s ++ ws /\ forallb is_whitespace ws = true /\
             match rev (trim_end s) with [] => True | c :: _ => is_whitespace c = false end.
Proof.
  intros s. unfold trim_end. destruct (drop_while_split is_whitespace (rev s)) as [ws [E [W H]]].
  exists (rev ws). split.
  - pose proof (f_equal (@rev Z) E) as E'. rewrite rev_involutive, rev_app_distr in E'. exact E'.
  - split.
    + rewrite forallb_forall in W |- *. intros x Hx. apply W. apply in_rev. exact Hx.
    + rewrite rev_involutive. exact H.
Qed.

Lemma drop_while_idem f s : drop_while f (drop_while f s) = drop_while f s.
Proof.
  induction s as [|c s IH]; [reflexivity|]. cbn [drop_while].
  destruct (f c) eqn:F; [exact IH|]. cbn [drop_while]. rewrite F. reflexivity.
Qed.

Theorem trim_start_idem : forall s, trim_start (trim_start s) = trim_start s.
Proof. intros s. apply drop_while_idem. Qed.
Theorem trim_end_idem : forall s, trim_end (trim_end s) = trim_end s.
Proof. intros s. unfold trim_end. rewrite rev_involutive, drop_while_idem. reflexivity. Qed.

Theorem trim_examples :
  trim [32; 9; 10; 120; 32; 121; 160; 12288] = [120; 32; 121] /\
  trim [133; 8232] = [] /\ trim [8203; 97] = [8203; 97] /\ trim [28; 97; 31] = [28; 97; 31].
Proof. repeat split. Qed.

(* ================================================================= *)
(* parse_int                                                         *)
(* ================================================================= *)
Theorem parse_int_examples :
  parse_int [] = None /\ parse_int [43] = None /\ parse_int [45] = None /\
  parse_int [43; 45; 49] = None /\ parse_int [32; 49] = None /\ parse_int [49; 95; 48] = None /\
  parse_int [43; 48; 48; 55] = Some 7 /\ parse_int [45; 48] = Some 0 /\
  parse_int [45; 57; 50; 50; 51; 51; 55; 50; 48; 51; 54; 56; 53; 52; 55; 55; 53; 56; 48; 56] = Some MIN_INT /\
  parse_int [57; 50; 50; 51; 51; 55; 50; 48; 51; 54; 56; 53; 52; 55; 55; 53; 56; 48; 55] = Some MAX_INT /\
  parse_int [57; 50; 50; 51; 51; 55; 50; 48; 51; 54; 56; 53; 52; 55; 55; 53; 56; 48; 56] = None /\
  parse_int [65297; 65298] = None.
Proof. vm_compute. repeat split. Qed.

Theorem parse_int_in_i64 : forall s z, parse_int s = Some z -> in_i64 z.
Proof.
  intros s z. unfold parse_int.
  destruct (match s with
            | c :: r => if c =? 45 then (true, r) else if c =? 43 then (false, r) else (false, s)
            | [] => (false, s) end) as [neg ds].
  destruct ds as [|d ds]; [discriminate|].
  destruct (digits_value 0 (d :: ds)) as [m|]; [|discriminate].
  destruct (in_i64b (if neg then - m else m)) eqn:E; [|discriminate].
  intros [= <-]. unfold in_i64b in E. apply andb_true_iff in E. destruct E as [E1 E2].
  apply Z.leb_le in E1. apply Z.leb_le in E2. split; assumption.
Qed.

(* digits only: the value of a digit string *)
Lemma digits_value_app acc a b :
  digits_value acc (a ++ b) =
  match digits_value acc a with Some m => digits_value m b | None => None end.
Proof.
  revert acc. induction a as [|c a IH]; intros acc; [reflexivity|].
  cbn [app digits_value]. destruct (is_digit c); [apply IH|reflexivity].
Qed.

(* printing then parsing: decimal digits of n, most significant first *)
Lemma print_digits_spec : forall fuel n acc,
  0 <= n -> n < 10 ^ Z.of_nat fuel ->
  exists ds, print_digits fuel n acc = ds ++ acc /\
             (fuel <> O -> ds <> []) /\
             forall pre, digits_value pre ds = Some (pre * 10 ^ Z.of_nat (length ds) + n) .
Proof.
  induction fuel as [|fuel IH]; intros n acc Hn Hf.
  - cbn in Hf. assert (n = 0) by lia. subst n. exists []. cbn. split; [reflexivity|].
    split; [congruence|]. intros pre. f_equal. lia.
  - cbn [print_digits].
    pose proof (Z.mod_pos_bound n 10 ltac:(lia)) as M.
    pose proof (Z.div_mod n 10 ltac:(lia)) as D.
    destruct (Z.ltb_spec n 10) as [L|G].
    + exists [48 + n mod 10]. split; [reflexivity|]. split; [discriminate|].
      intros pre. cbn [digits_value length]. unfold is_digit.
      rewrite (proj2 (Z.leb_le 48 _)) by lia. rewrite (proj2 (Z.leb_le _ 57)) by lia. cbn [andb].
      f_equal. rewrite Z.mod_small by lia. change (Z.of_nat 1) with 1. rewrite Z.pow_1_r. lia.
    + assert (Q : n / 10 < 10 ^ Z.of_nat fuel).
      { apply Z.div_lt_upper_bound; [lia|]. rewrite Nat2Z.inj_succ, Z.pow_succ_r in Hf by lia. lia. }
      destruct (IH (n / 10) ((48 + n mod 10) :: acc) ltac:(apply Z.div_pos; lia) Q) as [ds [E [_ V]]].
      exists (ds ++ [48 + n mod 10]). split; [rewrite E, <- app_assoc; reflexivity|].
      split; [intros _ C; apply app_eq_nil in C; destruct C as [_ C]; discriminate C|].
      intros pre. rewrite digits_value_app, V. cbn [digits_value]. unfold is_digit.
      rewrite (proj2 (Z.leb_le 48 _)) by lia. rewrite (proj2 (Z.leb_le _ 57)) by lia. cbn [andb].
      f_equal. rewrite app_length. cbn [length]. rewrite Nat.add_1_r, Nat2Z.inj_succ, Z.pow_succ_r by lia.
      lia.
Qed.

Lemma print_nat_z_spec n :
  0 <= n ->
  exists d ds, print_nat_z n = d :: ds /\ is_digit d = true /\ digits_value 0 (d :: ds) = Some n.
Proof.
  intros Hn. unfold print_nat_z.
  assert (F : n < 10 ^ Z.of_nat (S (Z.to_nat (Z.log2 n)))).
  { destruct (Z.eq_dec n 0) as [->|Nz]; [reflexivity|].
    rewrite Nat2Z.inj_succ, Z2Nat.id by apply Z.log2_nonneg.
    apply Z.lt_le_trans with (2 ^ Z.succ (Z.log2 n)); [apply Z.log2_spec; lia|].
    apply Z.pow_le_mono_l. lia. }
  destruct (print_digits_spec _ n [] Hn F) as [ds [E [NE V]]].
  rewrite app_nil_r in E. rewrite E.
  destruct ds as [|d ds]; [exfalso; apply NE; [discriminate|reflexivity]|].
  exists d, ds. split; [reflexivity|]. split.
  - specialize (V 0). cbn [digits_value] in V. destruct (is_digit d); [reflexivity|discriminate V].
  - rewrite V. f_equal; lia.
Qed.

(* Display then parse::<i64> is the identity on i64 *)
Theorem parse_print_int : forall z, in_i64 z -> parse_int (print_int z) = Some z.
Proof.
  intros z Hz. unfold print_int.
  assert (DIG : forall d, is_digit d = true -> d <> 45 /\ d <> 43).
  { intros d H. unfold is_digit in H. apply andb_true_iff in H. destruct H as [H1 H2].
    apply Z.leb_le in H1. lia. }
  assert (IN : in_i64b z = true).
  { unfold in_i64b. destruct Hz as [A B]. apply andb_true_iff. split; apply Z.leb_le; assumption. }
  destruct (Z.ltb_spec z 0) as [L|G].
  - destruct (print_nat_z_spec (- z) ltac:(lia)) as [d [ds [E [_ V]]]].
    unfold parse_int. rewrite E. change (45 =? 45) with true. cbv iota beta. rewrite V.
    rewrite Z.opp_involutive, IN. reflexivity.
  - destruct (print_nat_z_spec z G) as [d [ds [E [Hd V]]]].
    unfold parse_int. rewrite E. destruct (DIG d Hd) as [N1 N2].
    rewrite (proj2 (Z.eqb_neq d 45) N1), (proj2 (Z.eqb_neq d 43) N2).
    rewrite V, IN. reflexivity.
Qed.

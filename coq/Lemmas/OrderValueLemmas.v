(* OrderValueLemmas.v — Variable::of_type depends on the member order (C05, S8). *)
From SSL.Model Require Import Base Ty Float Value.
From Coq Require Import Permutation.

(* of_type on a union takes the first member in iteration order: the default
   value (the end marker of `a~`, the default of `? T`) differs between runs *)
Lemma of_type_order_refuted :
  exists ms ms', Permutation ms ms' /\ wf_ty (TMulti ms) = true /\
                 of_type (TMulti ms) <> of_type (TMulti ms').
Proof.
  exists [TInt; TString], [TString; TInt].
  split; [apply perm_swap | split; [vm_compute; reflexivity |]].
  cbn [of_type]. discriminate.
Qed.

Lemma of_type_witness :
  of_type (TMulti [TInt; TString]) = Some (VInt 0) /\
  of_type (TMulti [TString; TInt]) = Some (VString []).
Proof. split; reflexivity. Qed.

(* what IS order independent: whether a default exists, when every member has one *)
Lemma of_type_multi_first : forall m rest, of_type (TMulti (m :: rest)) = of_type m.
Proof. reflexivity. Qed.

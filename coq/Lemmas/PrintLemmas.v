(* PrintLemmas.v — facts about Model/Print.v and Model/ValueParse.v that do not involve
   the PEG interpreter: integer rendering and reading, the str-Debug escapes against the
   unescaper model, shapes of printed types. *)
From SSL.Model Require Import Base Ty Float Value Print ValueParse.
From SSL.Lemmas Require Import TyFuel TyEq.

Local Open Scope Z_scope.

(* ------------------------------------------------------------------ digits *)

Definition is_digit_of (base c : Z) : Prop :=
  exists d, digit_value c = Some d /\ 0 <= d < base.

Lemma digit_value_char d : 0 <= d < 36 -> digit_value (digit_char d) = Some d.
Proof.
  intros Hd. unfold digit_value, digit_char.
  destruct (d <? 10) eqn:E.
  - apply Z.ltb_lt in E.
    replace ((48 <=? 48 + d) && (48 + d <=? 57)) with true
      by (symmetry; apply andb_true_intro; split; apply Z.leb_le; lia).
    f_equal; lia.
  - apply Z.ltb_ge in E.
    replace ((48 <=? 87 + d) && (87 + d <=? 57)) with false
      by (symmetry; apply andb_false_intro2; apply Z.leb_gt; lia).
    replace ((97 <=? 87 + d) && (87 + d <=? 122)) with true
      by (symmetry; apply andb_true_intro; split; apply Z.leb_le; lia).
    f_equal; lia.
Qed.

Lemma digits_f_S f base n acc :
  digits_f (S f) base n acc =
  if n <? base then digit_char (n mod base) :: acc
  else digits_f f base (n / base) (digit_char (n mod base) :: acc).
Proof. reflexivity. Qed.

(* what [digits_f] produces, given enough fuel: k >= 1 digit characters of the base whose
   left-to-right fold is n *)
Lemma digits_f_spec base (Hb : 2 <= base <= 36) :
  forall f n acc, 0 <= n < 2 ^ Z.of_nat (S f) ->
  exists ds, digits_f (S f) base n acc = ds ++ acc /\ ds <> [] /\
             Forall (is_digit_of base) ds /\
             forall rest a, parse_radix_acc base (ds ++ rest) a =
                            parse_radix_acc base rest (a * base ^ Z.of_nat (length ds) + n).
Proof.
  induction f as [|f IH]; intros n acc Hn.
  - (* n < 2 <= base: one digit *)
    change (2 ^ Z.of_nat 1) with 2 in Hn.
    assert (Hlt : n <? base = true) by (apply Z.ltb_lt; lia).
    exists [digit_char (n mod base)].
    rewrite digits_f_S, Hlt. rewrite Z.mod_small by lia.
    split; [reflexivity|]. split; [discriminate|]. split.
    + constructor; [|constructor]. exists n. split; [apply digit_value_char; lia | lia].
    + intros rest a. cbn [app parse_radix_acc length].
      rewrite digit_value_char by lia. rewrite Hlt.
      f_equal. change (Z.of_nat 1) with 1. lia.
  - rewrite digits_f_S. destruct (n <? base) eqn:Hlt.
    + apply Z.ltb_lt in Hlt.
      exists [digit_char (n mod base)]. rewrite Z.mod_small by lia.
      split; [reflexivity|]. split; [discriminate|]. split.
      * constructor; [|constructor]. exists n. split; [apply digit_value_char; lia | lia].
      * intros rest a. cbn [app parse_radix_acc length].
        rewrite digit_value_char by lia.
        replace (n <? base) with true by (symmetry; apply Z.ltb_lt; lia).
        f_equal. change (Z.of_nat 1) with 1. lia.
    + apply Z.ltb_ge in Hlt.
      assert (Hq : 0 <= n / base < 2 ^ Z.of_nat (S f)).
      { split; [apply Z.div_pos; lia|].
        apply Z.div_lt_upper_bound; [lia|].
        rewrite Nat2Z.inj_succ, Z.pow_succ_r in Hn by lia.
        assert (0 < 2 ^ Z.of_nat (S f)) by (apply Z.pow_pos_nonneg; lia). nia. }
      destruct (IH (n / base) (digit_char (n mod base) :: acc) Hq)
        as (ds & Heq & Hne & Hall & Hparse).
      exists (ds ++ [digit_char (n mod base)]).
      split; [rewrite Heq, <- app_assoc; reflexivity|].
      split; [destruct ds; discriminate|].
      assert (Hm : 0 <= n mod base < base) by (apply Z.mod_pos_bound; lia).
      split.
      * apply Forall_app. split; [exact Hall|].
        constructor; [|constructor]. exists (n mod base).
        split; [apply digit_value_char; lia | lia].
      * intros rest a. rewrite <- app_assoc. rewrite Hparse.
        cbn [app parse_radix_acc]. rewrite digit_value_char by lia.
        replace (n mod base <? base) with true by (symmetry; apply Z.ltb_lt; lia).
        f_equal. rewrite app_length. cbn [length]. rewrite Nat2Z.inj_add.
        change (Z.of_nat 1) with 1. rewrite Z.pow_add_r by lia.
        rewrite Z.pow_1_r.
        pose proof (Z.div_mod n base ltac:(lia)). nia.
Qed.

Lemma log2_fuel n : 0 <= n -> 0 <= n < 2 ^ Z.of_nat (S (Z.to_nat (Z.log2 n))).
Proof.
  intros Hn. split; [exact Hn|].
  rewrite Nat2Z.inj_succ, Z2Nat.id by apply Z.log2_nonneg.
  destruct (Z.eq_dec n 0) as [->|Hne]; [cbn; lia|].
  apply Z.log2_spec. lia.
Qed.

(* the digits of [print_radix]: non-empty, digits of the base, and they read back *)
Lemma print_radix_spec base n (Hb : 2 <= base <= 36) (Hn : 0 <= n) :
  print_radix base n <> [] /\ Forall (is_digit_of base) (print_radix base n) /\
  parse_radix base (print_radix base n) = Some n.
Proof.
  unfold print_radix.
  destruct (digits_f_spec base Hb _ n [] (log2_fuel n Hn)) as (ds & Heq & Hne & Hall & Hparse).
  rewrite Heq, app_nil_r. split; [exact Hne|]. split; [exact Hall|].
  unfold parse_radix. destruct ds as [|c ds]; [congruence|].
  specialize (Hparse [] 0). rewrite app_nil_r in Hparse. rewrite Hparse.
  cbn [parse_radix_acc]. f_equal; lia.
Qed.

Lemma digit_not_minus base c : is_digit_of base c -> c <> 45.
Proof. intros (d & Hd & _) ->. cbn in Hd. discriminate. Qed.

Lemma digit_not_sep base c : is_digit_of base c -> negb ((c =? 32) || (c =? 95)) = true.
Proof.
  intros (d & Hd & _).
  destruct (c =? 32) eqn:E1; [apply Z.eqb_eq in E1; subst; cbn in Hd; discriminate|].
  destruct (c =? 95) eqn:E2; [apply Z.eqb_eq in E2; subst; cbn in Hd; discriminate|].
  reflexivity.
Qed.

Lemma strip_sep_digits base ds : Forall (is_digit_of base) ds -> strip_sep ds = ds.
Proof.
  induction 1 as [|c ds Hc _ IH]; [reflexivity|].
  cbn [strip_sep filter]. rewrite (digit_not_sep _ _ Hc). f_equal. exact IH.
Qed.

(* ------------------------------------------------------------------ print_i64 *)

(* C20: the decimal digits of z (with a leading '-') read back as z *)
Theorem print_i64_correct z : parse_decimal (print_i64 z) = Some z.
Proof.
  unfold print_i64. destruct (z <? 0) eqn:E.
  - apply Z.ltb_lt in E.
    destruct (print_radix_spec 10 (- z)) as (_ & _ & Hp); [lia | lia |].
    cbn [parse_decimal]. rewrite Hp. cbn. f_equal. lia.
  - apply Z.ltb_ge in E.
    destruct (print_radix_spec 10 z) as (Hne & Hall & Hp); [lia | lia |].
    unfold parse_decimal.
    destruct (print_radix 10 z) as [|c ds] eqn:Hd; [congruence|].
    inversion Hall as [|? ? Hc _]; subst.
    pose proof (digit_not_minus _ _ Hc) as Hc45.
    destruct c as [|p|p]; try exact Hp.
    do 6 (destruct p as [p|p|]; try exact Hp). congruence.
Qed.

(* the text is '-'? followed by decimal digits only *)
Theorem print_i64_shape z :
  exists ds, ds <> [] /\ Forall (is_digit_of 10) ds /\
             print_i64 z = (if z <? 0 then 45 :: ds else ds).
Proof.
  unfold print_i64. destruct (z <? 0) eqn:E.
  - apply Z.ltb_lt in E. destruct (print_radix_spec 10 (- z)) as (Hne & Hall & _); [lia|lia|].
    eauto.
  - apply Z.ltb_ge in E. destruct (print_radix_spec 10 z) as (Hne & Hall & _); [lia|lia|].
    eauto.
Qed.

(* ------------------------------------------------------------------ literal forms *)

(* every literal form: the digits of n in base 2, 8, 10 or 16 (as [print_radix] writes
   them), with any number of '_' (and ' ') anywhere, denote n — or are rejected when n is
   too big for an int; behind a '-' they denote -n, or are rejected when -n is too small *)
Theorem int_literal_value base n s :
  2 <= base <= 36 -> 0 <= n -> strip_sep s = print_radix base n ->
  read_int_lit base false s = (if n <=? MAX_INT then Some n else None) /\
  read_int_lit base true s = (if n <=? - MIN_INT then Some (- n) else None).
Proof.
  intros Hb Hn Hs. unfold read_int_lit. rewrite Hs.
  destruct (print_radix_spec base n Hb Hn) as (_ & _ & Hp). rewrite Hp. split; reflexivity.
Qed.

Corollary binary_literal_value n s : 0 <= n -> strip_sep s = print_radix 2 n ->
  read_int_lit 2 false s = if n <=? MAX_INT then Some n else None.
Proof. intros; apply int_literal_value; auto; lia. Qed.
Corollary octal_literal_value n s : 0 <= n -> strip_sep s = print_radix 8 n ->
  read_int_lit 8 false s = if n <=? MAX_INT then Some n else None.
Proof. intros; apply int_literal_value; auto; lia. Qed.
Corollary decimal_literal_value n s : 0 <= n -> strip_sep s = print_radix 10 n ->
  read_int_lit 10 false s = if n <=? MAX_INT then Some n else None.
Proof. intros; apply int_literal_value; auto; lia. Qed.
Corollary hex_literal_value n s : 0 <= n -> strip_sep s = print_radix 16 n ->
  read_int_lit 16 false s = if n <=? MAX_INT then Some n else None.
Proof. intros; apply int_literal_value; auto; lia. Qed.

(* leading zeros do not change the value; upper-case hexadecimal digits are digits too *)
Lemma parse_radix_acc_zeros base k s a : 1 < base ->
  parse_radix_acc base (repeat 48 k ++ s) a = parse_radix_acc base s (a * base ^ Z.of_nat k).
Proof.
  intros Hb. revert a. induction k as [|k IH]; intros a.
  - cbn. f_equal. lia.
  - cbn [repeat app parse_radix_acc].
    change (digit_value 48) with (Some 0). cbv iota beta.
    replace (0 <? base) with true by (symmetry; apply Z.ltb_lt; lia).
    rewrite IH. f_equal. rewrite Nat2Z.inj_succ, Z.pow_succ_r by lia. lia.
Qed.

Theorem leading_zeros_value base n k :
  2 <= base <= 36 -> 0 <= n ->
  parse_radix base (repeat 48 k ++ print_radix base n) = Some n.
Proof.
  intros Hb Hn. destruct (print_radix_spec base n Hb Hn) as (Hne & _ & Hp).
  unfold parse_radix in *.
  destruct (print_radix base n) as [|c ds] eqn:Hd; [congruence|].
  destruct k as [|k]; [exact Hp|].
  change (repeat 48 (S k) ++ c :: ds) with (48 :: (repeat 48 k ++ c :: ds)).
  cbn [parse_radix_acc]. change (digit_value 48) with (Some 0). cbv iota beta.
  replace (0 <? base) with true by (symmetry; apply Z.ltb_lt; lia).
  rewrite parse_radix_acc_zeros by lia.
  replace ((0 * base + 0) * base ^ Z.of_nat k) with 0 by lia. exact Hp.
Qed.

Definition to_upper (c : Z) : Z := if (97 <=? c) && (c <=? 122) then c - 32 else c.

Lemma digit_value_upper c d : digit_value c = Some d -> digit_value (to_upper c) = Some d.
Proof.
  unfold digit_value, to_upper.
  destruct ((97 <=? c) && (c <=? 122)) eqn:E.
  - apply andb_prop in E. destruct E as [E1 E2]. apply Z.leb_le in E1, E2.
    replace ((48 <=? c) && (c <=? 57)) with false
      by (symmetry; apply andb_false_intro2; apply Z.leb_gt; lia).
    replace ((48 <=? c - 32) && (c - 32 <=? 57)) with false
      by (symmetry; apply andb_false_intro2; apply Z.leb_gt; lia).
    replace ((97 <=? c - 32) && (c - 32 <=? 122)) with false
      by (symmetry; apply andb_false_intro1; apply Z.leb_gt; lia).
    replace ((65 <=? c - 32) && (c - 32 <=? 90)) with true
      by (symmetry; apply andb_true_intro; split; apply Z.leb_le; lia).
    intros H; inversion H; f_equal; lia.
  - rewrite E. tauto.
Qed.

Lemma parse_radix_acc_upper base s a :
  parse_radix_acc base (map to_upper s) a = parse_radix_acc base s a \/
  parse_radix_acc base s a = None.
Proof.
  revert a. induction s as [|c s IH]; intros a; [left; reflexivity|].
  cbn [map parse_radix_acc].
  destruct (digit_value c) as [d|] eqn:Hd; [|right; reflexivity].
  rewrite (digit_value_upper _ _ Hd). destruct (d <? base); [apply IH | right; reflexivity].
Qed.

Theorem hex_upper_value n : 0 <= n ->
  parse_radix 16 (map to_upper (print_radix 16 n)) = Some n.
Proof.
  intros Hn. destruct (print_radix_spec 16 n ltac:(lia) Hn) as (Hne & _ & Hp).
  unfold parse_radix in *.
  destruct (print_radix 16 n) as [|c ds] eqn:Hd; [congruence|].
  destruct (parse_radix_acc_upper 16 (c :: ds) 0) as [H|H]; [|congruence].
  cbn [map] in *. rewrite H. exact Hp.
Qed.

(* ------------------------------------------------------------------ ints through from_str *)

Lemma print_i64_nonneg_head z : 0 <= z ->
  forall (A : Type) (a b : list Z -> A),
  match print_i64 z with 45 :: s' => a s' | _ => b (print_i64 z) end = b (print_i64 z).
Proof.
  intros Hz A a b. unfold print_i64.
  replace (z <? 0) with false by (symmetry; apply Z.ltb_ge; lia).
  destruct (print_radix_spec 10 z) as (Hne & Hall & _); [lia | lia |].
  destruct (print_radix 10 z) as [|c ds] eqn:Hd; [congruence|].
  inversion Hall as [|? ? Hc _]; subst.
  pose proof (digit_not_minus _ _ Hc) as Hc45.
  destruct c as [|p|p]; try reflexivity.
  do 6 (destruct p as [p|p|]; try reflexivity). congruence.
Qed.

(* C20, as the (repaired) code reads integers: every int reads back *)
Theorem int_roundtrip z :
  MIN_INT <= z <= MAX_INT -> read_int_text (print_i64 z) = Some z.
Proof.
  intros Hz. destruct (z <? 0) eqn:E.
  - apply Z.ltb_lt in E. unfold print_i64. rewrite (proj2 (Z.ltb_lt z 0) E).
    destruct (print_radix_spec 10 (- z)) as (_ & Hall & Hp); [lia | lia |].
    cbn [read_int_text]. unfold read_minus_int, read_int_lit.
    rewrite (strip_sep_digits _ _ Hall), Hp.
    replace (- z <=? two63) with true
      by (symmetry; apply Z.leb_le; unfold MIN_INT, MAX_INT in *; lia).
    f_equal. lia.
  - apply Z.ltb_ge in E. unfold read_int_text.
    rewrite (print_i64_nonneg_head z E). unfold print_i64.
    replace (z <? 0) with false by (symmetry; apply Z.ltb_ge; lia).
    destruct (print_radix_spec 10 z) as (Hne & Hall & Hp); [lia | lia |].
    unfold read_int_lit. rewrite (strip_sep_digits _ _ Hall), Hp.
    replace (z <=? MAX_INT) with true by (symmetry; apply Z.leb_le; lia). reflexivity.
Qed.

(* before repair fa6d4dd (`minus_int` parsed the magnitude as an i64, then negated) the
   same held except at MIN_INT, whose debug text was rejected (S11) *)
Theorem int_roundtrip_old_except_min z :
  MIN_INT < z <= MAX_INT -> read_int_text_old (print_i64 z) = Some z.
Proof.
  intros Hz. destruct (z <? 0) eqn:E.
  - apply Z.ltb_lt in E. unfold print_i64. rewrite (proj2 (Z.ltb_lt z 0) E).
    destruct (print_radix_spec 10 (- z)) as (_ & Hall & Hp); [lia | lia |].
    cbn [read_int_text_old]. unfold read_minus_int_old, read_int_lit.
    rewrite (strip_sep_digits _ _ Hall), Hp.
    replace (- z <=? MAX_INT) with true
      by (symmetry; apply Z.leb_le; unfold MIN_INT, MAX_INT in *; lia).
    cbn. f_equal. lia.
  - apply Z.ltb_ge in E. unfold read_int_text_old.
    rewrite (print_i64_nonneg_head z E). unfold print_i64.
    replace (z <? 0) with false by (symmetry; apply Z.ltb_ge; lia).
    destruct (print_radix_spec 10 z) as (Hne & Hall & Hp); [lia | lia |].
    unfold read_int_lit. rewrite (strip_sep_digits _ _ Hall), Hp.
    replace (z <=? MAX_INT) with true by (symmetry; apply Z.leb_le; lia). reflexivity.
Qed.

Theorem int_roundtrip_old_refuted_at_min : read_int_text_old (print_i64 MIN_INT) = None.
Proof. vm_compute. reflexivity. Qed.

(* ------------------------------------------------------------------ strings *)

Section Escapes.
  Variable P : Z -> bool.

  Definition scalar (c : Z) : Prop := pr_is_scalar c = true.

  (* no NUL immediately followed by an octal digit *)
  Fixpoint no_nul_octal (s : list Z) : Prop :=
    match s with
    | [] => True
    | c :: s' =>
        (c = 0 -> match s' with d :: _ => pr_is_octal d = false | [] => True end) /\
        no_nul_octal s'
    end.

  (* the first character of what follows a NUL is not an octal digit *)
  Definition head_not_octal (s : list Z) : Prop :=
    match s with d :: _ => pr_is_octal d = false | [] => True end.

  Lemma escape_char_head c : head_not_octal [c] -> head_not_octal (escape_char_rust P c).
  Proof.
    unfold escape_char_rust, head_not_octal.
    repeat match goal with |- context [if ?b then _ else _] => destruct b end;
      cbn; auto.
  Qed.

  Lemma body_head_not_octal s : head_not_octal s -> head_not_octal (escape_debug_rust_body P s).
  Proof.
    destruct s as [|c s]; [exact (fun H => H)|].
    intros H. cbn [escape_debug_rust_body flat_map].
    pose proof (escape_char_head c H) as Hc.
    unfold escape_char_rust in *.
    repeat match goal with
           | |- context [if ?b then _ else _] => destruct b
           end; cbn in *; auto.
  Qed.

  Lemma push_next_noop oct s : head_not_octal s -> pr_push_next oct s = (oct, s).
  Proof.
    unfold pr_push_next, head_not_octal. destruct s as [|c r]; [reflexivity|].
    intros ->. reflexivity.
  Qed.

  Lemma until_close_digits hex rest :
    Forall (is_digit_of 16) hex -> pr_until_close (hex ++ 125 :: rest) = (hex, rest).
  Proof.
    induction 1 as [|c hex Hc _ IH]; [reflexivity|].
    cbn [app pr_until_close].
    destruct (c =? 125) eqn:E.
    - apply Z.eqb_eq in E. subst. destruct Hc as (d & Hd & _). cbn in Hd. discriminate.
    - rewrite IH. reflexivity.
  Qed.

  Lemma from_str_radix_hex c : 0 <= c < 2 ^ 32 ->
    pr_from_str_radix 32 16 (print_radix 16 c) = Some c.
  Proof.
    intros Hc. destruct (print_radix_spec 16 c ltac:(lia) ltac:(lia)) as (Hne & Hall & Hp).
    unfold pr_from_str_radix.
    destruct (print_radix 16 c) as [|h t] eqn:Hd; [congruence|].
    inversion Hall as [|? ? Hh _]; subst.
    assert (h <> 43) by (intros ->; destruct Hh as (d & Hd' & _); cbn in Hd'; discriminate).
    assert (Hsel : match h :: t with [43] => [] | 43 :: r => r | _ => h :: t end = h :: t).
    { destruct h as [|p|p]; try reflexivity.
      do 6 (destruct p as [p|p|]; try reflexivity). congruence. }
    rewrite Hsel, Hp.
    replace (c <? 2 ^ 32) with true by (symmetry; apply Z.ltb_lt; lia). reflexivity.
  Qed.

  Lemma unescape_f_mono f s r : pr_unescape_f f s = Some r -> pr_unescape_f (S f) s = Some r.
  Proof.
    revert s r. induction f as [|f IH]; intros s r H; [discriminate|].
    cbn [pr_unescape_f] in H. change (pr_unescape_f (S (S f)) s) with
      (match s with
       | [] => Some []
       | c :: s1 =>
           if negb (c =? 92) then option_map (cons c) (pr_unescape_f (S f) s1)
           else match s1 with
                | [] => None
                | e :: s2 =>
                    match pr_escape e s2 with
                    | Some (ch, rest) => option_map (cons ch) (pr_unescape_f (S f) rest)
                    | None => None
                    end
                end
       end).
    destruct s as [|c s1]; [exact H|].
    destruct (negb (c =? 92)).
    - destruct (pr_unescape_f f s1) eqn:E; [|discriminate].
      rewrite (IH _ _ E). exact H.
    - destruct s1 as [|e s2]; [exact H|].
      destruct (pr_escape e s2) as [[ch rest]|]; [|exact H].
      destruct (pr_unescape_f f rest) eqn:E; [|discriminate].
      rewrite (IH _ _ E). exact H.
  Qed.

  Lemma unescape_f_le f f' s r : (f <= f')%nat -> pr_unescape_f f s = Some r ->
                                 pr_unescape_f f' s = Some r.
  Proof. induction 1; auto using unescape_f_mono. Qed.

  Lemma unescape_step_escape e s2 ch rest f r :
    pr_escape e s2 = Some (ch, rest) -> pr_unescape_f f rest = Some r ->
    pr_unescape_f (S f) (92 :: e :: s2) = Some (ch :: r).
  Proof.
    intros He Hr. cbn [pr_unescape_f]. change (92 =? 92) with true. cbn [negb].
    rewrite He, Hr. reflexivity.
  Qed.

  Lemma unescape_step_plain c s f r :
    (c =? 92) = false -> pr_unescape_f f s = Some r ->
    pr_unescape_f (S f) (c :: s) = Some (c :: r).
  Proof. intros Hc Hr. cbn [pr_unescape_f]. rewrite Hc. cbn [negb]. rewrite Hr. reflexivity. Qed.

  Lemma pr_unicode_braces hex rest c :
    Forall (is_digit_of 16) hex -> pr_from_str_radix 32 16 hex = Some c -> pr_is_scalar c = true ->
    pr_unicode (123 :: hex ++ 125 :: rest) = Some (c, rest).
  Proof.
    intros Hall Hp Hsc. unfold pr_unicode. change (123 =? 123) with true. cbv iota beta.
    rewrite (until_close_digits _ _ Hall), Hp, Hsc. reflexivity.
  Qed.

  Lemma pr_octal_nul tail : head_not_octal tail -> pr_octal 48 tail = Some (0, tail).
  Proof.
    intros H. unfold pr_octal. change ((48 <=? 48) && (48 <=? 51)) with true. cbv iota beta.
    rewrite (push_next_noop _ _ H). rewrite (push_next_noop _ _ H). reflexivity.
  Qed.

  (* one escaped character is read back, given that what follows does not start with an
     octal digit when the character is NUL *)
  Lemma escape_char_rust_unescape c tail f r :
    scalar c -> (c = 0 -> head_not_octal tail) ->
    pr_unescape_f f tail = Some r ->
    pr_unescape_f (S f) (escape_char_rust P c ++ tail) = Some (c :: r).
  Proof.
    intros Hsc Hnul Htail. unfold escape_char_rust.
    destruct (c =? 0) eqn:E0.
    { apply Z.eqb_eq in E0. subst c. specialize (Hnul eq_refl).
      apply unescape_step_escape with (rest := tail); [|exact Htail].
      unfold pr_escape. cbn [Z.eqb orb]. apply pr_octal_nul, Hnul. }
    destruct (c =? 9) eqn:E9.
    { apply Z.eqb_eq in E9. subst c.
      apply unescape_step_escape with (rest := tail); [reflexivity | exact Htail]. }
    destruct (c =? 13) eqn:E13.
    { apply Z.eqb_eq in E13. subst c.
      apply unescape_step_escape with (rest := tail); [reflexivity | exact Htail]. }
    destruct (c =? 10) eqn:E10.
    { apply Z.eqb_eq in E10. subst c.
      apply unescape_step_escape with (rest := tail); [reflexivity | exact Htail]. }
    destruct (c =? 92) eqn:E92.
    { apply Z.eqb_eq in E92. subst c.
      apply unescape_step_escape with (rest := tail); [reflexivity | exact Htail]. }
    destruct (c =? 34) eqn:E34.
    { apply Z.eqb_eq in E34. subst c.
      apply unescape_step_escape with (rest := tail); [reflexivity | exact Htail]. }
    destruct (P c).
    - (* \u{hex} *)
      assert (Hc : 0 <= c < 2 ^ 32).
      { unfold scalar, pr_is_scalar in Hsc. change (2 ^ 32) with 4294967296.
        apply orb_prop in Hsc. destruct Hsc as [H|H]; apply andb_prop in H; destruct H as [H1 H2];
          try apply Z.leb_le in H1; try apply Z.ltb_lt in H2; try apply Z.leb_le in H2; lia. }
      destruct (print_radix_spec 16 c ltac:(lia) ltac:(lia)) as (_ & Hall & _).
      cbn [app]. rewrite <- app_assoc. cbn [app].
      apply unescape_step_escape with (rest := tail); [|exact Htail].
      unfold pr_escape. cbn [Z.eqb orb].
      apply pr_unicode_braces; [exact Hall | apply from_str_radix_hex, Hc | exact Hsc].
    - cbn [app]. apply unescape_step_plain; [exact E92 | exact Htail].
  Qed.

  Lemma escape_char_rust_length c : (1 <= length (escape_char_rust P c))%nat.
  Proof.
    unfold escape_char_rust.
    repeat match goal with |- context [if ?b then _ else _] => destruct b end; cbn; lia.
  Qed.

  (* the repaired printer writes NUL as \u{0}: no side condition is left *)
  Lemma escape_char_unescape c tail f r :
    scalar c -> pr_unescape_f f tail = Some r ->
    pr_unescape_f (S f) (escape_char P c ++ tail) = Some (c :: r).
  Proof.
    intros Hsc Htail. unfold escape_char. destruct (c =? 0) eqn:E0.
    - apply Z.eqb_eq in E0. subst c. cbn [app].
      apply unescape_step_escape with (rest := tail); [reflexivity | exact Htail].
    - apply escape_char_rust_unescape; [exact Hsc | | exact Htail].
      intros ->. discriminate.
  Qed.

  Lemma escape_char_length c : (1 <= length (escape_char P c))%nat.
  Proof.
    unfold escape_char. destruct (c =? 0); [cbn; lia | apply escape_char_rust_length].
  Qed.

  (* C20, strings: the body of the debug text is read back by the unescaper *)
  Theorem escape_unescape s :
    Forall scalar s -> pr_unescape (escape_debug_body P s) = Some s.
  Proof.
    intros Hsc. unfold pr_unescape.
    assert (H : exists f, (f <= S (length (escape_debug_body P s)))%nat /\
                          pr_unescape_f f (escape_debug_body P s) = Some s).
    { induction s as [|c s IH].
      - exists 1%nat. split; [cbn; lia | reflexivity].
      - inversion Hsc as [|? ? Hc Hs]; subst.
        destruct (IH Hs) as (f & Hf & Hr).
        exists (S f). cbn [escape_debug_body flat_map].
        split.
        + rewrite app_length. pose proof (escape_char_length c).
          change (flat_map (escape_char P) s) with (escape_debug_body P s). lia.
        + apply escape_char_unescape; [exact Hc | exact Hr]. }
    destruct H as (f & Hf & Hr). exact (unescape_f_le _ _ _ _ Hf Hr).
  Qed.

  (* Rust's own {:?} (what was printed before repair 1aee34b) is read back unless a NUL
     is followed by an octal digit *)
  Theorem escape_unescape_rust s :
    Forall scalar s -> no_nul_octal s ->
    pr_unescape (escape_debug_rust_body P s) = Some s.
  Proof.
    intros Hsc Hno. unfold pr_unescape.
    assert (H : exists f, (f <= S (length (escape_debug_rust_body P s)))%nat /\
                          pr_unescape_f f (escape_debug_rust_body P s) = Some s).
    { induction s as [|c s IH].
      - exists 1%nat. split; [cbn; lia | reflexivity].
      - inversion Hsc as [|? ? Hc Hs]; subst. destruct Hno as [Hnul Hno'].
        destruct (IH Hs Hno') as (f & Hf & Hr).
        exists (S f). cbn [escape_debug_rust_body flat_map].
        split.
        + rewrite app_length. pose proof (escape_char_rust_length c).
          change (flat_map (escape_char_rust P) s) with (escape_debug_rust_body P s). lia.
        + apply escape_char_rust_unescape; [exact Hc | | exact Hr].
          intros ->. apply body_head_not_octal.
          specialize (Hnul eq_refl). destruct s; [exact I | exact Hnul]. }
    destruct H as (f & Hf & Hr). exact (unescape_f_le _ _ _ _ Hf Hr).
  Qed.

  (* the refutation the design predicted (S12): NUL then '1' printed as \01, which the
     unescaper reads as the octal escape for U+0001 *)
  Theorem nul_digit_refuted :
    P 49 = false ->
    pr_unescape (escape_debug_rust_body P [0; 49]) = Some [1] /\
    pr_unescape (escape_debug_rust_body P [0; 49]) <> Some [0; 49].
  Proof.
    intros HP.
    assert (H : pr_unescape (escape_debug_rust_body P [0; 49]) = Some [1]).
    { unfold escape_debug_rust_body, flat_map, escape_char_rust. cbn [Z.eqb]. rewrite HP. reflexivity. }
    split; [exact H | rewrite H; discriminate].
  Qed.

  (* ---- debug_string (the post-processing of the code) = the direct definition *)

  Lemma fix_nul_plain l tail : ~ In 92 l -> fix_nul (l ++ tail) = l ++ fix_nul tail.
  Proof.
    induction l as [|c l IH]; intros Hl; [reflexivity|].
    cbn [app fix_nul].
    assert (Hc : (c =? 92) = false) by (apply Z.eqb_neq; intros ->; apply Hl; left; reflexivity).
    rewrite Hc. cbn [negb]. f_equal. apply IH. intros H; apply Hl; right; exact H.
  Qed.

  Lemma digits_no_backslash base ds : Forall (is_digit_of base) ds -> ~ In 92 ds.
  Proof.
    induction 1 as [|c ds Hc _ IH]; [exact (fun H => H)|].
    intros [->|H]; [|exact (IH H)]. destruct Hc as (d & Hd & _). cbn in Hd. discriminate.
  Qed.

  Lemma fix_nul_esc e s2 : (e =? 48) = false -> fix_nul (92 :: e :: s2) = 92 :: e :: fix_nul s2.
  Proof. intros He. cbn [fix_nul]. change (92 =? 92) with true. cbn [negb]. rewrite He. reflexivity. Qed.

  Lemma fix_nul_nul s2 : fix_nul (92 :: 48 :: s2) = [92; 117; 123; 48; 125] ++ fix_nul s2.
  Proof. reflexivity. Qed.

  Lemma fix_nul_char c tail : 0 <= c ->
    fix_nul (escape_char_rust P c ++ tail) = escape_char P c ++ fix_nul tail.
  Proof.
    intros Hc0. unfold escape_char, escape_char_rust.
    destruct (c =? 0) eqn:E0; [apply fix_nul_nul|].
    destruct (c =? 9); [apply fix_nul_esc; reflexivity|].
    destruct (c =? 13); [apply fix_nul_esc; reflexivity|].
    destruct (c =? 10); [apply fix_nul_esc; reflexivity|].
    destruct (c =? 92) eqn:E92; [apply fix_nul_esc; reflexivity|].
    destruct (c =? 34); [apply fix_nul_esc; reflexivity|].
    destruct (P c).
    - destruct (print_radix_spec 16 c ltac:(lia) Hc0) as (_ & Hall & _).
      change (([92; 117; 123] ++ print_radix 16 c ++ [125]) ++ tail)
        with (92 :: 117 :: ((123 :: print_radix 16 c ++ [125]) ++ tail)).
      rewrite fix_nul_esc by reflexivity.
      rewrite fix_nul_plain; [reflexivity|].
      intros [H|H]; [discriminate|].
      apply in_app_or in H. destruct H as [H|[H|[]]]; [|discriminate].
      exact (digits_no_backslash _ _ Hall H).
    - apply (fix_nul_plain [c]). intros [H|[]]. subst c. discriminate.
  Qed.

  Theorem debug_string_direct s :
    Forall (fun c => 0 <= c) s -> debug_string P s = escape_debug P s.
  Proof.
    intros Hs. unfold debug_string, escape_debug_rust, escape_debug.
    change (34 :: escape_debug_rust_body P s ++ [34]) with ([34] ++ (escape_debug_rust_body P s ++ [34])).
    rewrite (fix_nul_plain [34]) by (intros [H|[]]; discriminate).
    cbn [app]. f_equal.
    assert (Hq : fix_nul [34] = [34]) by reflexivity. rewrite <- Hq at 2. clear Hq.
    generalize [34] as tail. intros tail.
    induction Hs as [|c s Hc _ IH]; [reflexivity|].
    cbn [escape_debug_rust_body escape_debug_body flat_map].
    rewrite <- !app_assoc. rewrite (fix_nul_char _ _ Hc). f_equal. exact IH.
  Qed.
End Escapes.

(* ------------------------------------------------------------------ shapes of printed types *)

(* C15, `print_parenthesises`: a union is parenthesised exactly where the grammar needs it *)
Theorem print_fun_union_result ps ms :
  print_ty (TFun ps (TMulti ms)) =
  paren (join_with s_comma (map print_ty ps)) ++ s_arrow ++ paren (join_with s_bar (map print_ty ms)).
Proof. reflexivity. Qed.

Theorem print_fun_plain_result ps r : is_multi r = false ->
  print_ty (TFun ps r) = paren (join_with s_comma (map print_ty ps)) ++ s_arrow ++ print_ty r.
Proof. intros H. cbn [print_ty]. rewrite H. reflexivity. Qed.

Theorem print_mut_union ms :
  print_ty (TMut (TMulti ms)) = s_mut ++ paren (join_with s_bar (map print_ty ms)).
Proof. reflexivity. Qed.

Theorem print_mut_plain e : is_multi e = false -> print_ty (TMut e) = s_mut ++ print_ty e.
Proof. intros H. cbn [print_ty]. rewrite H. reflexivity. Qed.

(* parameters, tuple members, array elements and struct fields are delimited by their
   brackets and commas: a union is printed bare there *)
Theorem print_param_union ms r :
  print_ty (TFun [TMulti ms] r) =
  paren (join_with s_bar (map print_ty ms)) ++ s_arrow ++
  (if is_multi r then paren (print_ty r) else print_ty r).
Proof. reflexivity. Qed.

Theorem print_arr_union ms : matches (TMulti ms) TNever = false ->
  print_ty (TArr (TMulti ms)) = 91 :: join_with s_bar (map print_ty ms) ++ [93].
Proof. intros H. cbn [print_ty]. rewrite H. reflexivity. Qed.

Theorem print_union_members ms : print_ty (TMulti ms) = join_with s_bar (map print_ty ms).
Proof. reflexivity. Qed.

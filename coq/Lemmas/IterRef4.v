(* IterRef4.v — C11b, part 4: `it @ f`.
   [Map] calls the MAP helper closure with the source iterator and the mapper and re-types the
   closure that comes back at (bool, <run-time result type of the mapper>).  MAP returns
       () -> (bool, int) { res := func(); (con, value) := res;
                           if !con { return res }  return (true, mapper(value)) }
   with func, mapper replaced by constants.  Note `return res`: the end marker of the mapped
   iterator IS the end marker of the source (the known findings S13b / S13f); [represents]
   does not look at the value an end marker carries.
   [map_create]: the store and value that result; [map_represents]: the value represents the
   abstract [map_iter] (each pull logs the call, pulls the source ONCE, and on an element applies
   the mapper ONCE). *)
From SSL.Model Require Import Base Ty Float Value Ops Seq Syntax Rt Recreate Exec Check Top Iter.
From SSL.Lemmas Require Import ExecLemmas OpsLemmas CellLemmas SoundLemmas SoundHelpers SoundBoot
  RecrMono IterRef1 IterRef2 IterRef3.
Local Open Scope Z_scope.
Arguments exec : simpl never.
Arguments matches : simpl never.

Definition map_inner_src : list instr := Eval vm_compute in
  match c_body c_MAP with BLang [IUn UReturn (IAnonFn _ b _)] => b | _ => [] end.

Definition n_res : name := [114; 101; 115].
Definition n_con : name := [99; 111; 110].
Definition n_value : name := [118; 97; 108; 117; 101].

(* the body of the closure MAP returns for the source lv = VFun fid [] (t0, t1) and the mapper
   rv = VFun gid ps q *)
Definition map_body (fid : nat) (t0 t1 : ty) (gid : nat) (ps : list ty) (q : ty) : list instr :=
  [ISet n_res (IBin FunctionCall (IVar (VFun fid [] (TTup [t0; t1]))) (IVar (VTup [])));
   IDestruct [n_con; n_value] (ILocal n_res (LOther (TTup [t0; t1])));
   IIfElse (IUn UNot (ILocal n_con (LOther t0)))
     (IUn UReturn (ILocal n_res (LOther (TTup [t0; t1])))) (IVar VVoid);
   IUn UReturn
     (ITuple [IVar (VBool true);
              IBin FunctionCall (IVar (VFun gid ps q)) (ITuple [ILocal n_value (LOther t1)])])].

Definition map_store (st : store) (fid : nat) (t0 t1 : ty) (gid : nat) (ps : list ty) (q : ty) : store :=
  mkStore (s_funs st ++ [mkClosure None [] (BLang (map_body fid t0 t1 gid ps q)) t_iter_int;
                         mkClosure None [] (BLang (map_body fid t0 t1 gid ps q)) (TTup [TBool; q])])
          (s_cells st)
          (EvCall 1 [VFun fid [] (TTup [t0; t1]); VFun gid ps q] :: s_log st).

Section Map.
Variable powf : fbits -> fbits -> fbits.
Notation E := (exec powf pre_boot).

(* `lv @ rv` on a source of result type (t0, t1) *)
Theorem map_create k st sc fid t0 t1 gid ps q :
  nth_error (s_funs st) 1 = Some c_MAP ->
  bin_dispatch powf pre_boot (E (2 + k)) (2 + k) Map (VFun fid [] (TTup [t0; t1])) (VFun gid ps q) st sc =
  (map_store st fid t0 t1 gid ps q, sc, SVal (VFun (S (length (s_funs st))) [] (TTup [TBool; q]))).
Proof.
  intros H1. cbn [bin_dispatch as_type plus]. change (fn_return_type (TFun ps q)) with (Some q).
  change (p_map pre_boot) with 1%nat.
  assert (C : call_def (E (S (S k))) 1 [VFun fid [] (TTup [t0; t1]); VFun gid ps q] st sc =
              (mkStore (s_funs st ++ [mkClosure None [] (BLang (map_body fid t0 t1 gid ps q)) t_iter_int])
                       (s_cells st) (EvCall 1 [VFun fid [] (TTup [t0; t1]); VFun gid ps q] :: s_log st),
               sc, SVal (VFun (length (s_funs st)) [] t_iter_int))).
  { eapply call_return; [exact H1|reflexivity|].
    eapply evl_stop; [|intros w Hw; discriminate Hw].
    eapply ev_return. rewrite exec_S_IAnonFn.
    match goal with |- context [recreate_body ?p ?s ?l ?b] =>
      replace (recreate_body p s l b) with (Ok (map_body fid t0 t1 gid ps q))
        by (vm_compute; reflexivity) end.
    reflexivity. }
  rewrite C. cbn [retyped_def s_funs]. rewrite nth_error_app2 by lia. rewrite Nat.sub_diag.
  cbn [nth_error]. unfold alloc_fun, map_store. cbn [s_funs s_cells s_log c_name c_params c_body map].
  rewrite app_length. cbn [length]. rewrite <- app_assoc. cbn [app].
  replace (length (s_funs st) + 1)%nat with (S (length (s_funs st))) by lia. reflexivity.
Qed.

(* the abstract iterator of the closure: the call is logged, then [map_iter] *)
Definition logged {A} (e : Syntax.event) (it : iter store A) : iter store A :=
  fun st => it (log_event st e).

Theorem map_represents N (F : store -> Prop) (D : value -> Prop) id fid t0 t1 gid ps q it
    (kf : cb store value value) :
  represents powf pre_boot N F (VFun fid [] (TTup [t0; t1])) it ->
  cb_refines powf pre_boot N F D (fun v => v) (VFun gid ps q) kf ->
  yields_in F it D ->
  (forall st, F st ->
     nth_error (s_funs st) id = Some (mkClosure None [] (BLang (map_body fid t0 t1 gid ps q)) (TTup [TBool; q]))) ->
  (forall st, F st -> F (log_event st (EvCall id []))) ->
  represents powf pre_boot (5 + N) F (VFun id [] (TTup [TBool; q]))
    (logged (EvCall id []) (map_iter kf it)).
Proof.
  intros [_ R] [_ Rk] Hin Hc Hlog. split; [eexists; eexists; eexists; reflexivity|].
  intros n sc st Hn HF. unfold logged, map_iter.
  set (st0 := log_event st (EvCall id [])).
  assert (HF0 : F st0) by (apply Hlog; exact HF).
  destruct n as [|[|[|[|[|m]]]]]; try lia. assert (Hm : (N <= m)%nat) by lia.
  cbn [call_v_def].
  set (c := mkClosure None [] (BLang (map_body fid t0 t1 gid ps q)) (TTup [TBool; q])).
  set (sc0 := [frame_def id c []]).
  pose proof (R (S (S (S m))) sc0 st0 ltac:(lia) HF0) as Rs. cbn [call_v_def] in Rs.
  pose proof (Hin st0) as Hin0.
  destruct (it st0) as [x st1|st1|]; [| |exact I].
  - (* an element: apply the mapper once *)
    destruct Rs as [Rs [HF1 HE1]].
    set (sc1 := scopes_insert n_res (VTup [VBool true; x]) sc0).
    set (sc2 := destruct_bind_def [n_con; n_value] [VBool true; x] sc1).
    destruct (Rk (S (S m)) sc2 st1 x ltac:(lia) HF1 (Hin0 x st1 HF0 eq_refl)) as [Rf [HF2 HE2]]. cbn [call_v_def] in Rf.
    destruct (kf x st1) as [y st2]. cbn [fst snd] in *.
    split; [|split; [exact HF2|]].
    2:{ apply (funs_ext_trans st st0 st2); [apply funs_ext_same; reflexivity|].
        apply (funs_ext_trans st0 st1 st2); assumption. }
    eapply call_return; [apply Hc; exact HF|reflexivity|]. fold st0 c sc0.
    eapply evl_val_stop.
    { eapply ev_set. eapply ev_call; [apply ev_var|apply ev_var|exact Rs]. }
    eapply evl_val_stop.
    { eapply ev_destruct. apply ev_local. reflexivity. }
    eapply evl_val_stop.
    { eapply ev_if; [eapply ev_not; apply ev_local; reflexivity|]. cbn [negb]. apply ev_var. }
    eapply evl_stop; [|intros w Hw; discriminate Hw].
    eapply ev_return. eapply ev_tuple.
    eapply evl_val_ok; [apply ev_var|].
    eapply evl_val_ok; [|apply evl_nil].
    eapply ev_call; [apply ev_var| |exact Rf].
    eapply ev_tuple. eapply evl_val_ok; [apply ev_local; reflexivity|apply evl_nil].
  - (* exhausted: the end marker of the source is returned as it is *)
    destruct Rs as [[d Rs] [HF1 HE1]].
    split; [|split; [exact HF1|apply (funs_ext_trans st st0 st1); [apply funs_ext_same; reflexivity|exact HE1]]].
    exists d.
    eapply call_return; [apply Hc; exact HF|reflexivity|]. fold st0 c sc0.
    eapply evl_val_stop.
    { eapply ev_set. eapply ev_call; [apply ev_var|apply ev_var|exact Rs]. }
    eapply evl_val_stop.
    { eapply ev_destruct. apply ev_local. reflexivity. }
    eapply evl_stop; [|intros w Hw; discriminate Hw].
    eapply ev_if; [eapply ev_not; apply ev_local; reflexivity|]. cbn [negb].
    eapply ev_return. apply ev_local. reflexivity.
Qed.

(* the mapped elements: images of the source's elements *)
Lemma map_yields_in (F : store -> Prop) (D D' : value -> Prop) e it (kf : cb store value value) :
  yields_in F it D -> (forall st, F st -> F (log_event st e)) ->
  (forall x st, D x -> D' (fst (kf x st))) ->
  yields_in F (logged e (map_iter kf it)) D'.
Proof.
  intros Hin Hlog Hk st y st' HF H. unfold logged, map_iter in H.
  pose proof (Hin (log_event st e)) as Hin0.
  destruct (it (log_event st e)) as [x st1|st1|]; try discriminate H.
  pose proof (Hk x st1 (Hin0 x st1 (Hlog st HF) eq_refl)) as Hy.
  destruct (kf x st1) as [y1 st2]. injection H as <- _. exact Hy.
Qed.

End Map.

(* Extraction of the executable model to OCaml (ExtrOcamlBasic only;
   Z, positive, nat stay Coq datatypes; no Extract Constant). *)
From Coq Require Import Extraction ExtrOcamlBasic.
From SSL.Model Require Import Base Ty Float Value Ops Seq Syntax Rt Recreate Exec Check Top Peg Front.
From SSL.Gen Require Import GenGrammar.
(* M7 Print + its own minimal readers (tp_ / vp_ / pr_ prefixes) *)
From SSL.Model Require Import Print TypeParse ValueParse.
From SSL.Gen Require Import GenStdlib.
From SSL.Model Require Import Stdlib.
(* C14: the generic Pratt model and the regenerated table (qualified: Front has its own pratt_parse) *)
From SSL.Model Require Pratt.
From SSL.Gen Require GenPratt.
Extraction Blacklist List String Int.
Extraction "model.ml"
  ident_eqb all2 assoc wrap64 in_i64b
  size ty_eqb matches concat concat_all conjoin
  index_result element_type fn_return_type mut_element_type mut_element_type_spec
  params flatten_tuple is_function is_tuple is_mut is_iterator is_struct can_be_indexed
  tuple_len min_tuple_len iter_element tuple_element_at field_type has_field wf_ty
  CANON_NAN f_is_nan fcanon F_ZERO F_ONE
  as_type arr_of val_eqb val_eqb_derived content_in has_type wf_val of_type
  op_exec unop_exec assign_base can_be_used_int can_be_used_num can_be_used_add can_be_used_bit
  add_return_type
  len_exec at_exec slyce_indices py_slice slice_exec
  rt recreate exec check_x check_s check_lines parse_top run_code code_rt mkPrelude mkReducers mkStore mkClosure mkLayer
  peg_run fuel_for parse_rule grammar rule_names
  text_of ty_of_tree param_of_tree value_of_tree unescape pratt_parse pratt_info
  parse_program parse_program_eager parse_program_with parse_type_str parse_value_str front_reject_name
  stdlib_exports typeof_table type_of_rty param_accepts conv_accepts demand_accepts const_value
  std_eval ints_of
  Pratt.pratt_run Pratt.tlookup Pratt.table_of_levels GenPratt.pratt_levels GenPratt.op_names
  print_ty print_i64 print_nat print_radix parse_decimal read_int_text escape_debug_rust debug_string debug_val display_val
  tp_parse_type pr_unescape vp_parse_value.

(* Extraction of the executable model to OCaml (ExtrOcamlBasic only;
   Z, positive, nat stay Coq datatypes; no Extract Constant). *)
From Coq Require Import Extraction ExtrOcamlBasic.
From SSL.Model Require Import Base Ty Float Value Ops Seq Syntax Rt Recreate Exec Check Top Peg.
From SSL.Gen Require Import GenGrammar.
Extraction Blacklist List String Int.
Extraction "model.ml"
  ident_eqb all2 assoc wrap64 in_i64b
  size ty_eqb matches concat concat_all conjoin
  index_result element_type fn_return_type mut_element_type mut_element_type_spec
  params flatten_tuple is_function is_tuple is_mut is_iterator is_struct can_be_indexed
  tuple_len min_tuple_len iter_element tuple_element_at field_type has_field wf_ty
  CANON_NAN f_is_nan fcanon F_ZERO F_ONE
  as_type arr_of val_eqb val_eqb_derived content_in has_type wf_val of_type
  op_exec unop_exec assign_base can_be_used_int can_be_used_num can_be_used_add can_be_used_bit
  add_return_type
  len_exec at_exec slyce_indices py_slice slice_exec
  rt recreate exec check_x check_s check_lines parse_top run_code code_rt mkPrelude mkReducers mkStore mkClosure mkLayer
  peg_run fuel_for parse_rule grammar rule_names.

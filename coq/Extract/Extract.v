(* Extraction of the executable model to OCaml (ExtrOcamlBasic only;
   Z, positive, nat stay Coq datatypes; no Extract Constant). *)
From Coq Require Import Extraction ExtrOcamlBasic.
From SSL.Model Require Import Base Ty.
Extraction Blacklist List String Int.
Extraction "model.ml"
  ident_eqb all2 assoc wrap64 in_i64b
  size ty_eqb matches concat concat_all conjoin
  index_result element_type fn_return_type mut_element_type mut_element_type_spec
  params flatten_tuple is_function is_tuple is_mut is_iterator is_struct can_be_indexed
  tuple_len min_tuple_len iter_element tuple_element_at field_type has_field wf_ty.

(* C11 — iterator operators equal their sequence definitions.
   Statements only; every proof is `exact <lemma>` into Lemmas/IterLemmas.v.

   Vocabulary (Model/Iter.v).  All of it is state passing over one world W.
     iter W A            a closure: W -> Yield x w | Done w | NoFuel
     yields it w xs w'   from w the closure gives exactly xs, then (false,_),
                         ending in w'  (|xs|+1 calls, each may change the world)
     pulls it w xs w1    the first |xs| calls give xs, reaching w1 (nothing said
                         about later calls)
     runs it k w xs bs w'   like yields, with the callback k run after every
                         element on the world the source left (results bs);
                         pruns is its prefix form, folds the accumulator form
     traced_it / traced_cb  the same source / callback on the world W * trace,
                         appending EStep / ECall x: turns "stepped exactly …
                         times", "applied once per element, in order" and
                         laziness into equations on the final trace.
   Fuel: every loop of the implementation takes fuel; with fuel > |xs| the
   result is as stated, with less it is None (collect_out_of_fuel) — never a
   normal-looking wrong answer. *)
From Coq Require Import List ZArith Bool Arith Lia.
Import ListNotations.
From SSL.Model Require Import Iter.
From SSL.Lemmas Require Import IterLemmas.

(* ---------- the relations fit together ---------- *)
Theorem yields_pulls : forall W A (it : iter W A) w xs w',
  yields it w xs w' <-> exists w1, pulls it w xs w1 /\ it w1 = Done w'.
Proof. exact @IterLemmas.yields_pulls. Qed.

Theorem yields_det : forall W A (it : iter W A) w xs w',
  yields it w xs w' -> forall ys w'', yields it w ys w'' -> xs = ys /\ w' = w''.
Proof. exact @IterLemmas.yields_det. Qed.

Theorem yields_runs_pure : forall W A B (f : A -> B) (it : iter W A) w xs w',
  yields it w xs w' -> runs it (pure f) w xs (map f xs) w'.
Proof. exact @IterLemmas.yields_runs_pure. Qed.

(* ---------- 1. collect ---------- *)
Theorem collect_spec : forall W A (it : iter W A) w xs w' fuel,
  yields it w xs w' -> length xs < fuel -> collect fuel it w = Some (xs, w').
Proof. exact @IterLemmas.collect_spec. Qed.

Theorem collect_out_of_fuel : forall W A (it : iter W A) w xs w' fuel,
  yields it w xs w' -> fuel <= length xs -> collect fuel it w = None.
Proof. exact @IterLemmas.collect_out_of_fuel. Qed.

(* the source is stepped exactly |xs|+1 times *)
Theorem collect_steps : forall W A E (it : iter W A) w xs w' fuel (l : list (event E)),
  yields it w xs w' -> length xs < fuel ->
  collect fuel (traced_it it) (w, l) = Some (xs, (w', l ++ repeat EStep (S (length xs)))).
Proof. exact IterLemmas.collect_steps. Qed.

(* ---------- 2. map ---------- *)
Theorem map_spec : forall W A B (f : cb W A B) (it : iter W A) w xs ys w',
  runs it f w xs ys w' -> yields (map_iter f it) w ys w'.
Proof. exact @IterLemmas.map_spec. Qed.

Theorem map_spec_inv : forall W A B (f : cb W A B) (it : iter W A) w ys w',
  yields (map_iter f it) w ys w' -> exists xs, runs it f w xs ys w'.
Proof. exact @IterLemmas.map_spec_inv. Qed.

Theorem map_spec_pure : forall W A B (f : A -> B) (it : iter W A) w xs w',
  yields it w xs w' -> yields (map_iter (pure f) it) w (map f xs) w'.
Proof. exact @IterLemmas.map_spec_pure. Qed.

(* source step, then f, per element; f once per element, in order *)
Theorem map_trace : forall W A B (f : cb W A B) (it : iter W A) w xs ys w' l,
  runs it f w xs ys w' ->
  yields (map_iter (traced_cb f) (traced_it it)) (w, l) ys (w', l ++ full_trace xs).
Proof. exact IterLemmas.map_trace. Qed.

(* laziness: one step of the mapped iterator = one step of the source *)
Theorem map_step_lazy : forall W A B (f : cb W A B) (it : iter W A) w,
  map_iter f it w =
  match it w with
  | Yield x w1 => let (y, w2) := f x w1 in Yield y w2
  | Done w' => Done w'
  | NoFuel => NoFuel
  end.
Proof. exact @IterLemmas.map_step_lazy. Qed.

Theorem map_step_trace : forall W A B (f : cb W A B) (it : iter W A) w x w1 y w2 l,
  it w = Yield x w1 -> f x w1 = (y, w2) ->
  map_iter (traced_cb f) (traced_it it) (w, l) = Yield y (w2, (l ++ [EStep]) ++ [ECall x]).
Proof. exact IterLemmas.map_step_trace. Qed.

(* ---------- 3. filter, type filter ---------- *)
Theorem filter_spec : forall W A (p : cb W A bool) (it : iter W A) w xs bs w',
  runs it p w xs bs w' -> forall fuel, length xs < fuel ->
  yields (filter_iter fuel p it) w (select xs bs) w'.
Proof. exact @IterLemmas.filter_spec. Qed.

Theorem filter_spec_pure : forall W A (p : A -> bool) (it : iter W A) w xs w' fuel,
  yields it w xs w' -> length xs < fuel ->
  yields (filter_iter fuel (pure p) it) w (filter p xs) w'.
Proof. exact @IterLemmas.filter_spec_pure. Qed.

Theorem type_filter_spec : forall W A (tag_ok : A -> bool) (it : iter W A) w xs w' fuel,
  yields it w xs w' -> length xs < fuel ->
  yields (type_filter fuel tag_ok it) w (filter tag_ok xs) w'.
Proof. exact @IterLemmas.type_filter_spec. Qed.

(* p once per examined element, in order, each right after its source step *)
Theorem filter_trace : forall W A (p : cb W A bool) (it : iter W A) w xs bs w' l fuel,
  runs it p w xs bs w' -> length xs < fuel ->
  yields (filter_iter fuel (traced_cb p) (traced_it it)) (w, l) (select xs bs)
         (w', l ++ full_trace xs).
Proof. exact IterLemmas.filter_trace. Qed.

(* laziness: one step examines the rejected prefix and the first accepted
   element and stops there ... *)
Theorem filter_step_lazy : forall W A (p : cb W A bool) (it : iter W A) w pre x w1 fuel,
  pruns it p w (pre ++ [x]) (repeat false (length pre) ++ [true]) w1 ->
  length pre < fuel ->
  filter_iter fuel p it w = Yield x w1.
Proof. exact @IterLemmas.filter_step_lazy. Qed.

Theorem filter_step_trace : forall W A (p : cb W A bool) (it : iter W A) w pre x w1 fuel l,
  pruns it p w (pre ++ [x]) (repeat false (length pre) ++ [true]) w1 -> length pre < fuel ->
  filter_iter fuel (traced_cb p) (traced_it it) (w, l)
  = Yield x (w1, l ++ flat_map (fun x => [EStep; ECall x]) (pre ++ [x])).
Proof. exact IterLemmas.filter_step_trace. Qed.

(* ... or runs to the end when nothing is accepted *)
Theorem filter_step_done : forall W A (p : cb W A bool) (it : iter W A) w xs w' fuel,
  runs it p w xs (repeat false (length xs)) w' -> length xs < fuel ->
  filter_iter fuel p it w = Done w'.
Proof. exact @IterLemmas.filter_step_done. Qed.

(* ---------- 4. partition ---------- *)
Theorem partition_spec : forall W A (p : A -> bool) (it : iter W A) w xs w' fuel,
  yields it w xs w' -> length xs < fuel ->
  partition_iter fuel (pure p) it w =
  Some ((filter p xs, filter (fun x => negb (p x)) xs), w').
Proof. exact @IterLemmas.partition_spec. Qed.

Theorem partition_spec_eff : forall W A (p : cb W A bool) (it : iter W A) w xs bs w' fuel,
  runs it p w xs bs w' -> length xs < fuel ->
  partition_iter fuel p it w = Some ((select xs bs, select xs (map negb bs)), w').
Proof. exact @IterLemmas.partition_spec_eff. Qed.

Theorem partition_trace : forall W A (p : cb W A bool) (it : iter W A) w xs bs w' l fuel,
  runs it p w xs bs w' -> length xs < fuel ->
  partition_iter fuel (traced_cb p) (traced_it it) (w, l)
  = Some ((select xs bs, select xs (map negb bs)), (w', l ++ full_trace xs)).
Proof. exact IterLemmas.partition_trace. Qed.

(* ---------- 5. reduce and the named reducers ---------- *)
Theorem reduce_spec : forall W A S (f : S -> A -> S) (it : iter W A) init w xs w' fuel,
  yields it w xs w' -> length xs < fuel ->
  reduce fuel (pure2 f) init it w = Some (fold_left f xs init, w').
Proof. exact @IterLemmas.reduce_spec. Qed.

Theorem reduce_spec_eff : forall W A S (f : cb2 W S A) (it : iter W A) s w xs s' w',
  folds it f s w xs s' w' -> forall fuel, length xs < fuel ->
  reduce fuel f s it w = Some (s', w').
Proof. exact @IterLemmas.reduce_spec_eff. Qed.

Theorem reduce_trace : forall W A S (f : cb2 W S A) (it : iter W A) s w xs s' w' l fuel,
  folds it f s w xs s' w' -> length xs < fuel ->
  reduce fuel (traced_cb2 f) s (traced_it it) (w, l) = Some (s', (w', l ++ full_trace xs)).
Proof. exact IterLemmas.reduce_trace. Qed.

Theorem sum_spec : forall W (it : iter W Z) w xs w' fuel,
  yields it w xs w' -> length xs < fuel ->
  sum_iter fuel it w = Some (fold_left Z.add xs 0%Z, w').
Proof. exact @IterLemmas.sum_spec. Qed.
Theorem product_spec : forall W (it : iter W Z) w xs w' fuel,
  yields it w xs w' -> length xs < fuel ->
  product_iter fuel it w = Some (fold_left Z.mul xs 1%Z, w').
Proof. exact @IterLemmas.product_spec. Qed.
Theorem bitand_spec : forall W (it : iter W Z) w xs w' fuel,
  yields it w xs w' -> length xs < fuel ->
  bitand_iter fuel it w = Some (fold_left Z.land xs (-1)%Z, w').
Proof. exact @IterLemmas.bitand_spec. Qed.
Theorem bitor_spec : forall W (it : iter W Z) w xs w' fuel,
  yields it w xs w' -> length xs < fuel ->
  bitor_iter fuel it w = Some (fold_left Z.lor xs 0%Z, w').
Proof. exact @IterLemmas.bitor_spec. Qed.

(* on the empty sequence: 0, 1, -1, 0 *)
Theorem reducers_empty : forall W (it : iter W Z) w w' fuel,
  yields it w [] w' -> 0 < fuel ->
  sum_iter fuel it w = Some (0%Z, w') /\ product_iter fuel it w = Some (1%Z, w') /\
  bitand_iter fuel it w = Some ((-1)%Z, w') /\ bitor_iter fuel it w = Some (0%Z, w').
Proof. exact @IterLemmas.reducers_empty. Qed.

(* the initial values are the units, the folds the usual sum / product *)
Theorem fold_add_sum : forall xs z, fold_left Z.add xs z = (z + fold_right Z.add 0 xs)%Z.
Proof. exact IterLemmas.fold_add_sum. Qed.
Theorem fold_mul_product : forall xs z, fold_left Z.mul xs z = (z * fold_right Z.mul 1 xs)%Z.
Proof. exact IterLemmas.fold_mul_product. Qed.
Theorem bitand_all_ones : forall x, Z.land (-1) x = x.
Proof. exact IterLemmas.bitand_all_ones. Qed.
Theorem bitor_zero : forall x, Z.lor 0 x = x.
Proof. exact IterLemmas.bitor_zero. Qed.

(* ---------- 6. $&& and $|| ---------- *)
Theorem all_spec : forall W (it : iter W bool) w xs w' fuel,
  yields it w xs w' -> length xs < fuel ->
  exists w'', all_iter fuel it w = Some (forallb id xs, w'').
Proof. exact @IterLemmas.all_spec. Qed.

Theorem all_true : forall W (it : iter W bool) w xs w' fuel,
  yields it w xs w' -> forallb id xs = true -> length xs < fuel ->
  all_iter fuel it w = Some (true, w').
Proof. exact @IterLemmas.all_true. Qed.

(* nothing is assumed about the source after the first false: it is not pulled *)
Theorem all_stops_early : forall W (it : iter W bool) w pre w1 fuel,
  pulls it w (pre ++ [false]) w1 -> forallb id pre = true -> length pre < fuel ->
  all_iter fuel it w = Some (false, w1).
Proof. exact @IterLemmas.all_stops_early. Qed.

Theorem all_steps : forall W E (it : iter W bool) w pre w1 fuel (l : list (event E)),
  pulls it w (pre ++ [false]) w1 -> forallb id pre = true -> length pre < fuel ->
  all_iter fuel (traced_it it) (w, l) = Some (false, (w1, l ++ repeat EStep (S (length pre)))).
Proof. exact IterLemmas.all_steps. Qed.

Theorem any_spec : forall W (it : iter W bool) w xs w' fuel,
  yields it w xs w' -> length xs < fuel ->
  exists w'', any_iter fuel it w = Some (existsb id xs, w'').
Proof. exact @IterLemmas.any_spec. Qed.

Theorem any_false : forall W (it : iter W bool) w xs w' fuel,
  yields it w xs w' -> existsb id xs = false -> length xs < fuel ->
  any_iter fuel it w = Some (false, w').
Proof. exact @IterLemmas.any_false. Qed.

Theorem any_stops_early : forall W (it : iter W bool) w pre w1 fuel,
  pulls it w (pre ++ [true]) w1 -> existsb id pre = false -> length pre < fuel ->
  any_iter fuel it w = Some (true, w1).
Proof. exact @IterLemmas.any_stops_early. Qed.

Theorem any_steps : forall W E (it : iter W bool) w pre w1 fuel (l : list (event E)),
  pulls it w (pre ++ [true]) w1 -> existsb id pre = false -> length pre < fuel ->
  any_iter fuel (traced_it it) (w, l) = Some (true, (w1, l ++ repeat EStep (S (length pre)))).
Proof. exact IterLemmas.any_steps. Qed.

(* ---------- 7. for ---------- *)
Theorem for_spec : forall W A (body : cb W A ctl) (it : iter W A) w xs w' fuel,
  runs it body w xs (repeat Next (length xs)) w' -> length xs < fuel ->
  for_loop fuel body it w = Some w'.
Proof. exact @IterLemmas.for_spec. Qed.

Theorem for_trace : forall W A (body : cb W A ctl) (it : iter W A) w xs w' fuel l,
  runs it body w xs (repeat Next (length xs)) w' -> length xs < fuel ->
  for_loop fuel (traced_cb body) (traced_it it) (w, l) = Some (w', l ++ full_trace xs).
Proof. exact IterLemmas.for_trace. Qed.

Theorem for_break_spec : forall W A (body : cb W A ctl) (it : iter W A) w pre x w1 fuel,
  pruns it body w (pre ++ [x]) (repeat Next (length pre) ++ [Break]) w1 ->
  length pre < fuel ->
  for_loop fuel body it w = Some w1.
Proof. exact @IterLemmas.for_break_spec. Qed.

(* ---------- 8. a~ ---------- *)
Theorem array_iter_spec : forall W (getc : W -> Z) (setc : Z -> W -> W),
  (forall v w, getc (setc v w) = v) ->
  forall A (a : list A) w0,
  getc w0 = (-1)%Z ->
  yields (array_iter getc setc a) w0 a (Nat.iter (S (length a)) (tick getc setc) w0).
Proof. exact @IterLemmas.array_iter_spec. Qed.

(* the call made when the counter is k-1 reads index k (and only that one);
   the counter goes up by one per call, so each index is read by one call *)
Theorem array_iter_step : forall W (getc : W -> Z) (setc : Z -> W -> W),
  forall A (a : list A) k x w,
  getc w = (Z.of_nat k - 1)%Z -> nth_error a k = Some x ->
  array_iter getc setc a w = Yield x (tick getc setc w).
Proof. exact @IterLemmas.array_iter_step. Qed.

Theorem array_iter_counter : forall W (getc : W -> Z) (setc : Z -> W -> W),
  (forall v w, getc (setc v w) = v) ->
  forall A (a : list A) w0 xs w1,
  getc w0 = (-1)%Z -> pulls (array_iter getc setc a) w0 xs w1 ->
  getc w1 = (Z.of_nat (length xs) - 1)%Z /\ xs = firstn (length xs) a.
Proof. exact @IterLemmas.array_iter_counter. Qed.

Theorem for_array : forall W (getc : W -> Z) (setc : Z -> W -> W),
  (forall v w, getc (setc v w) = v) ->
  forall A (a : list A) (body : A -> W -> W) w0 fuel,
  getc w0 = (-1)%Z -> length a < fuel ->
  (forall x w, getc (body x w) = getc w) ->
  (forall x v w, body x (setc v w) = setc v (body x w)) ->
  for_loop fuel (fun x w => (Next, body x w)) (array_iter getc setc a) w0
  = Some (Nat.iter (S (length a)) (tick getc setc) (fold_left (fun w x => body x w) a w0)).
Proof. exact @IterLemmas.for_array. Qed.

(* ---------- 9. pipelines ---------- *)
Theorem pipeline_pure : forall W (getc : W -> Z) (setc : Z -> W -> W),
  (forall v w, getc (setc v w) = v) ->
  forall A B (f : A -> B) (p : A -> bool) (a : list A) w0 fuel fuel',
  getc w0 = (-1)%Z -> length a < fuel -> length a < fuel' ->
  collect fuel (map_iter (pure f) (filter_iter fuel' (pure p) (array_iter getc setc a))) w0
  = Some (map f (filter p a), Nat.iter (S (length a)) (tick getc setc) w0).
Proof. exact @IterLemmas.pipeline_pure. Qed.

(* ---------- 10. separated state: the sequence definitions with effects ------ *)
(* the source owns the first component of the world, the callback the second:
   the run is the source's run next to mapM / foldM of the callback over xs —
   applied exactly once per element, in order *)
Theorem runs_separated : forall S L A B (it : iter S A) (k : cb L A B) s xs s',
  yields it s xs s' -> forall l,
  runs (src_on_fst it) (cb_on_snd k) (s, l) xs (fst (mapM k xs l)) (s', snd (mapM k xs l)).
Proof. exact IterLemmas.runs_separated. Qed.

Theorem map_spec_separated : forall S L A B (it : iter S A) (k : cb L A B) s xs s' l,
  yields it s xs s' ->
  yields (map_iter (cb_on_snd k) (src_on_fst it)) (s, l) (fst (mapM k xs l)) (s', snd (mapM k xs l)).
Proof. exact IterLemmas.map_spec_separated. Qed.

Theorem reduce_spec_separated : forall S L T A (it : iter S A) (f : cb2 L T A) s xs s' t l fuel,
  yields it s xs s' -> length xs < fuel ->
  reduce fuel (cb2_on_snd f) t (src_on_fst it) (s, l)
  = Some (fst (foldM f xs t l), (s', snd (foldM f xs t l))).
Proof. exact IterLemmas.reduce_spec_separated. Qed.

Theorem for_spec_separated : forall S L A (it : iter S A) (body : A -> L -> L) s xs s' l fuel,
  yields it s xs s' -> length xs < fuel ->
  for_loop fuel (cb_on_snd (fun x l => (Next, body x l))) (src_on_fst it) (s, l)
  = Some (s', fold_left (fun l x => body x l) xs l).
Proof. exact IterLemmas.for_spec_separated. Qed.

(* ---------- non-vacuity: a concrete world (cursor list + log) ---------- *)
Theorem get_set_cursor : forall c v w, get_cursor c (set_cursor c v w) = v.
Proof. exact IterLemmas.get_set_cursor. Qed.

Definition arr (c : nat) (a : list Z) : iter world Z :=
  array_iter (get_cursor c) (set_cursor c) a.
Definition w0 : world := mkWorld [(-1)%Z; 3%Z] [].

(* a user-written source with effects: counts cursor 1 down to 0, logging *)
Definition countdown : iter world Z :=
  fun w => let c := get_cursor 1 w in
           if (0 <? c)%Z then Yield c (say (- c) (set_cursor 1 (c - 1) w))
           else Done (say 0 w).

(* effectful callbacks *)
Definition times10 : cb world Z Z := fun x w => ((x * 10)%Z, say x w).
Definition is_even : cb world Z bool := fun x w => (Z.even x, say (100 + x) w).

Example ex_array_yields :
  yields (arr 0 [1; 2; 3]%Z) w0 [1; 2; 3]%Z (mkWorld [3%Z; 3%Z] []).
Proof. exact (array_iter_spec _ _ _ (get_set_cursor 0) _ [1; 2; 3]%Z w0 eq_refl). Qed.

Example ex_countdown_yields :
  yields countdown w0 [3; 2; 1]%Z (mkWorld [(-1)%Z; 0%Z] [-3; -2; -1; 0]%Z).
Proof. repeat (eapply yields_cons; [vm_compute; reflexivity |]). apply yields_nil. vm_compute; reflexivity. Qed.

Example ex_collect :
  collect 4 (arr 0 [1; 2; 3]%Z) w0 = Some ([1; 2; 3]%Z, mkWorld [3%Z; 3%Z] []).
Proof. vm_compute; reflexivity. Qed.
Example ex_collect_fuel : collect 3 (arr 0 [1; 2; 3]%Z) w0 = None.
Proof. vm_compute; reflexivity. Qed.
Example ex_collect_steps :
  collect 9 (traced_it (E := Z) countdown) (w0, [])
  = Some ([3; 2; 1]%Z, (mkWorld [(-1)%Z; 0%Z] [-3; -2; -1; 0]%Z, [EStep; EStep; EStep; EStep])).
Proof. vm_compute; reflexivity. Qed.

(* the effectful pipeline: p on 1, p on 2, f on 2, p on 3, p on 4, f on 4 —
   lazy, in order, once each *)
Example ex_pipeline_effects :
  collect 9 (map_iter times10 (filter_iter 9 is_even (arr 0 [1; 2; 3; 4]%Z))) w0
  = Some ([20; 40]%Z, mkWorld [4%Z; 3%Z] [101; 102; 2; 103; 104; 4]%Z).
Proof. vm_compute; reflexivity. Qed.

Example ex_pipeline_pure :
  collect 9 (map_iter (pure (Z.mul 10)) (filter_iter 9 (pure Z.even) (arr 0 [1; 2; 3; 4]%Z))) w0
  = Some (map (Z.mul 10) (filter Z.even [1; 2; 3; 4]%Z), mkWorld [4%Z; 3%Z] []).
Proof. vm_compute; reflexivity. Qed.

(* one step of a lazy pipeline moves the source only as far as needed *)
Example ex_lazy_step :
  map_iter times10 (filter_iter 9 is_even (arr 0 [1; 2; 3; 4]%Z)) w0
  = Yield 20%Z (mkWorld [1%Z; 3%Z] [101; 102; 2]%Z).
Proof. vm_compute; reflexivity. Qed.

Example ex_partition :
  partition_iter 9 is_even (arr 0 [1; 2; 3; 4]%Z) w0
  = Some (([2; 4]%Z, [1; 3]%Z), mkWorld [4%Z; 3%Z] [101; 102; 103; 104]%Z).
Proof. vm_compute; reflexivity. Qed.

Example ex_reduce :
  reduce 9 (fun acc x w => ((acc * 10 + x)%Z, say x w)) 0%Z countdown w0
  = Some (321%Z, mkWorld [(-1)%Z; 0%Z] [-3; 3; -2; 2; -1; 1; 0]%Z).
Proof. vm_compute; reflexivity. Qed.

Example ex_reducers :
  sum_iter 9 (arr 0 [6; 3; 5]%Z) w0 = Some (14%Z, mkWorld [3%Z; 3%Z] []) /\
  product_iter 9 (arr 0 [6; 3; 5]%Z) w0 = Some (90%Z, mkWorld [3%Z; 3%Z] []) /\
  bitand_iter 9 (arr 0 [6; 3; 7]%Z) w0 = Some (2%Z, mkWorld [3%Z; 3%Z] []) /\
  bitor_iter 9 (arr 0 [6; 3; 8]%Z) w0 = Some (15%Z, mkWorld [3%Z; 3%Z] []) /\
  sum_iter 9 (arr 0 []) w0 = Some (0%Z, mkWorld [0%Z; 3%Z] []) /\
  product_iter 9 (arr 0 []) w0 = Some (1%Z, mkWorld [0%Z; 3%Z] []) /\
  bitand_iter 9 (arr 0 []) w0 = Some ((-1)%Z, mkWorld [0%Z; 3%Z] []) /\
  bitor_iter 9 (arr 0 []) w0 = Some (0%Z, mkWorld [0%Z; 3%Z] []).
Proof. repeat split; vm_compute; reflexivity. Qed.

(* $&& over a logging map: 4 and 5 are never pulled, never tested *)
Example ex_all_early :
  all_iter 9 (map_iter (fun x w => ((x <? 3)%Z, say x w)) (arr 0 [1; 2; 3; 4; 5]%Z)) w0
  = Some (false, mkWorld [2%Z; 3%Z] [1; 2; 3]%Z).
Proof. vm_compute; reflexivity. Qed.
Example ex_any_early :
  any_iter 9 (map_iter (fun x w => ((2 <? x)%Z, say x w)) (arr 0 [1; 2; 3; 4; 5]%Z)) w0
  = Some (true, mkWorld [2%Z; 3%Z] [1; 2; 3]%Z).
Proof. vm_compute; reflexivity. Qed.
Example ex_all_any_empty :
  all_iter 9 (map_iter (pure Z.even) (arr 0 [])) w0 = Some (true, mkWorld [0%Z; 3%Z] []) /\
  any_iter 9 (map_iter (pure Z.even) (arr 0 [])) w0 = Some (false, mkWorld [0%Z; 3%Z] []).
Proof. split; vm_compute; reflexivity. Qed.

Example ex_for :
  for_loop 9 (fun x w => (Next, say x w)) (arr 0 [7; 8; 9]%Z) w0
  = Some (mkWorld [3%Z; 3%Z] [7; 8; 9]%Z).
Proof. vm_compute; reflexivity. Qed.
Example ex_for_break :
  for_loop 9 (fun x w => (if (x =? 8)%Z then Break else Next, say x w)) (arr 0 [7; 8; 9]%Z) w0
  = Some (mkWorld [1%Z; 3%Z] [7; 8]%Z).
Proof. vm_compute; reflexivity. Qed.

(* two array iterators with their own cursors, and a traced run *)
Example ex_two_cursors :
  collect 9 (map_iter (fun x w => match arr 1 [10; 20; 30]%Z w with
                                  | Yield y w1 => ((x + y)%Z, w1)
                                  | _ => (x, w) end)
                      (arr 0 [1; 2]%Z)) (mkWorld [-1; -1]%Z [])
  = Some ([11; 22]%Z, mkWorld [2; 1]%Z []).
Proof. vm_compute; reflexivity. Qed.

Example ex_map_trace :
  collect 9 (map_iter (traced_cb times10) (traced_it (arr 0 [5; 6]%Z))) (w0, [])
  = Some ([50; 60]%Z,
          (mkWorld [2%Z; 3%Z] [5; 6]%Z, [EStep; ECall 5%Z; EStep; ECall 6%Z; EStep])).
Proof. vm_compute; reflexivity. Qed.

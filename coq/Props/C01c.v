(* C01c — the bridge from the checker to the typing judgement of layer 3.
   Statements only; proofs in Lemmas/Bridge1.v, Lemmas/Bridge2.v (examples:
   Lemmas/BridgeExamples.v).

   [typed W0 G K i T], [typed_list ..] : the judgement of Lemmas/SoundTyping.v, whose
       soundness for execution is Props/C01b.v ([exec_sound_closures],
       [run_code_sound_closures]).
   [cenv W0 e G] : the checker's LocalVariables e against the typing environment G: a local
       that is a known constant is a good value ([vgood W0]); any other local has in G
       exactly the type e records for it; the types of G are well-formed.
   [sgood W0 sc] : the variables of the parse-time interpreter are good values.
   [kof e]       : the context of the judgement read off e (inside a loop? result type of
                   the enclosing function?).
   [wf_sx] ..    : annotations of the program text are well-formed types (Props/C03.v).
   [bfrag]/[bsfrag]/[blfrag] : the surface fragment = every form EXCEPT
       - the iterator operators `~ $] $+ $* $&& $|| $& $| @ ? \ $ ?T` (outside [frag 5]),
       - `for` (its expansion calls the hidden variable `$iter` at the DECLARED type
         `() -> (bool, any)`, the judgement types a local only at the type recorded for
         it: the judgement has no rule; not a defect of the checker),
       - modules (their expansion mentions constant members as local variables);
       constants of the program text are scalar literals; a declared function is not
       named like one of its parameters ([Ln_fndecl] asks for it; the implementation does
       not need it: `f := (f: int) -> int { return f + 1; }; f(1)` is 2).
   The policy: any closure policy that accepts every literal (e.g. [all_policy]). *)
From SSL.Model Require Import Base Ty Float Value Ops Seq Syntax Rt Recreate Exec Check Top.
From SSL.Lemmas Require Import ExecLemmas SoundDefs SoundTyping Sound1 SoundRec3 CheckUnfold
  CheckBase CheckTotal CheckExamples RecreateTotal Bridge1 Bridge2 BridgeExamples.

Section C01c.
Context {FL : Policy}.
Hypothesis pol : forall W G nm ps body r, closure_ok W G nm ps body r.
Variable W0 : sty.

(* an accepted expression is typed, in every context, at the type the checker computes *)
Theorem check_x_typed : forall red fuel sc e G x i,
  sgood W0 sc -> cenv W0 e G -> wf_sx x = true -> bfrag x = true ->
  check_x red fuel sc e x = Ok i ->
  exists T, rt i = Ok T /\ forall K, typed W0 G K i T.
Proof. exact (Bridge1.check_x_typed pol W0). Qed.

(* an accepted statement is typed in the context of its environment *)
Theorem check_s_typed : forall red fuel sc e G s i e1,
  sgood W0 sc -> cenv W0 e G -> wf_sstm s = true -> bsfrag s = true ->
  check_s red fuel sc e s = Ok (i, e1) ->
  (exists T, rt i = Ok T /\ typed W0 G (kof e) i T) /\ cenv W0 e1 G /\ kof e1 = kof e.
Proof. exact (Bridge1.check_s_typed pol W0). Qed.

(* an accepted statement list is a typed list; so is what remains of it in a block or a
   function body (constant statements other than the last are dropped) *)
Theorem check_lines_typed : forall red fuel sc e G l is e1,
  sgood W0 sc -> cenv W0 e G -> forallb wf_sline l = true -> forallb blfrag l = true ->
  check_lines red fuel sc e l = Ok (is, e1) ->
  exists G1 Ts, typed_list W0 G (kof e) is G1 Ts /\
                (exists Ts', typed_list W0 G (kof e) (drop_consts is) G1 Ts') /\
                cenv W0 e1 G1 /\ kof e1 = kof e.
Proof. exact (Bridge1.check_lines_typed pol W0). Qed.

(* one line, as Code::parse checks it, with the rule it was typed by ([LK]) *)
Theorem check_line_typed : forall red fuel sc e G ln is e1,
  sgood W0 sc -> cenv W0 e G -> wf_sline ln = true -> blfrag ln = true ->
  check_lines red fuel sc e [ln] = Ok (is, e1) ->
  exists i T G1, is = [i] /\ typed_line W0 G (kof e) i T G1 /\ LK W0 ln G (kof e) i T G1 /\
                 cenv W0 e1 G1.
Proof. exact (Bridge1.check_line_typed pol W0). Qed.
End C01c.

(* ================================================================= *)
(* END TO END (closure policy: every literal; SoundRec3.recreate_ok_all) *)
(* ================================================================= *)
(* Code::parse = Top.parse_top: each top-level line is checked in the LocalVariables the
   constant-propagation pass has built so far (one layer deeper), then recreated.
   [tinv W sc e G] : those LocalVariables against the typing environment of the RECREATED
       program: [cenv W e G]; top-level context ([kof e] = not in a loop, no function);
       every name of G is, in e, a constant that is a good value of that type, or a local
       of exactly that type, or (not in e) a good scope value of that type.
       [tinv_empty]: holds of the empty top-level layer and the empty environment.
   [top_ok ln] : a TOP-LEVEL line is a statement, `x := e` or a function declaration
       (destructuring is covered inside blocks and functions, not at the top level).
   Code::exec = Top.run_code. *)
Section EndToEnd.
Existing Instance all_policy.
Variable powf : fbits -> fbits -> fbits.
Variable pre : prelude.
Variable red : reducers.
Variable W : sty.
Variable sc : scopes.
Hypothesis Ssc : sgood W sc.

(* what Code::parse returns is a typed statement list *)
Theorem parse_top_typed : forall fuel l e G is e',
  tinv W sc e G -> forallb wf_sline l = true -> forallb blfrag l = true ->
  forallb top_ok l = true ->
  parse_top powf red fuel sc e l = Ok (is, e') ->
  exists G' Ts, typed_list W G (mkK false None) is G' Ts /\ tinv W sc e' G'.
Proof. exact (Bridge2.parse_top_typed powf red W sc Ssc). Qed.

(* once the checker accepted a line, the constant-propagation pass of Code::parse does not
   panic on it and reports only documented errors *)
Theorem parse_top_recreate_errors : forall fuel e G ln is e1,
  tinv W sc e G -> wf_sline ln = true -> blfrag ln = true -> top_ok ln = true ->
  check_lines red fuel sc (lenv_push e) [ln] = Ok (is, e1) ->
  exists i, is = [i] /\ recreate powf fuel sc e i <> Panic /\
            forall x, recreate powf fuel sc e i = Err x -> doc_err x.
Proof. exact (Bridge2.parse_top_recreate_errors powf red W sc Ssc). Qed.

(* a source program accepted by Code::parse, run by Code::exec in any typed configuration:
   never SPanic; a result value is good and inhabits the static type (rt of the last
   instruction); an error is one of the six documented ones *)
Theorem parse_run_sound : forall fuel n l e G is e',
  tinv W sc e G -> forallb wf_sline l = true -> forallb blfrag l = true ->
  forallb top_ok l = true ->
  parse_top powf red fuel sc e l = Ok (is, e') ->
  exists G' Ts, typed_list W G (mkK false None) is G' Ts /\
  forall W1 st rsc last Tl, ext W W1 -> store_ok W1 st -> env_ok W1 rsc G -> gv W1 last Tl ->
  exists W', ext W1 W' /\ store_ok W' (sto (run_code powf pre n st rsc is last)) /\
    match sig (run_code powf pre n st rsc is last) with
    | SVal v => gv W' v (List.last Ts Tl) /\
                env_ok W' (scs (run_code powf pre n st rsc is last)) G'
    | SError x => doc_err x
    | SFuel => True
    | _ => False
    end.
Proof. exact (Bridge2.parse_run_sound powf pre red W sc Ssc). Qed.

Theorem tinv_empty : tinv W sc [mkLayer [] None false] [].
Proof. exact (Bridge2.tinv_empty W sc). Qed.
End EndToEnd.

(* non-vacuity: function declaration with match, a function returning a closure, a cell,
   a while loop with a compound assignment through a call, tuple destructuring *)
Theorem bridge_prog_hyps :
  forallb wf_sline bridge_prog = true /\ forallb blfrag bridge_prog = true.
Proof. exact BridgeExamples.bridge_prog_hyps. Qed.
Theorem bridge_prog_typed :
  exists is e1 G1 Ts,
    check_lines red0 100 [] [mkLayer [] None false] bridge_prog = Ok (is, e1) /\
    @typed_list all_policy W_empty [] (mkK false None) is G1 Ts.
Proof. exact BridgeExamples.bridge_prog_typed. Qed.

(* end to end on a program: parsed, runs to 13, and the theorem's conclusion for every fuel *)
Theorem bridge_prog2_hyps :
  forallb wf_sline bridge_prog2 = true /\ forallb blfrag bridge_prog2 = true /\
  forallb top_ok bridge_prog2 = true.
Proof. exact BridgeExamples.bridge_prog2_hyps. Qed.
Theorem bridge_prog2_runs :
  obind (parse_top powf0 red0 100 [] e_top bridge_prog2)
        (fun p => Ok (sig (run_code powf0 pre_b 100 st_b [[]] (fst p) VVoid))) = Ok (SVal (VInt 13)).
Proof. exact BridgeExamples.bridge_prog2_runs. Qed.
Theorem bridge_prog2_sound :
  exists is e' G' Ts,
    parse_top powf0 red0 100 [] e_top bridge_prog2 = Ok (is, e') /\
    @typed_list all_policy W_empty [] (mkK false None) is G' Ts /\
    forall n, match sig (run_code powf0 pre_b n st_b [[]] is VVoid) with
              | SVal v => has_type v (List.last Ts TVoid) = true
              | SError x => doc_err x
              | SFuel => True
              | _ => False
              end.
Proof. exact BridgeExamples.bridge_prog2_sound. Qed.

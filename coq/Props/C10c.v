(* C10c — the subtype relation, third part: the description of the type relation that
   translators/typefns2coq.py REGENERATES from the Rust sources on every run
   (Gen/GenTypeFns.v: one Coq function per function of `impl Type`, FunctionType, StructType,
   MultiType in src/variable/{type,function_type,struct_type,multi_type}.rs — the arms of
   `match` / `match_any!` in source order, guards falling through, early returns, the iterator
   combinators as list functions) coincides with the hand-written model Model/Ty.v that
   C10 / C10v / C01 / C05 / C15 talk about.  The equalities hold for ALL types (no wf_ty): also
   where the Rust code would panic (`next().unwrap()` on an empty union, unreachable for types
   built through the API) both sides are read alike.
   An edit of one of these Rust functions changes Gen/GenTypeFns.v and breaks a proof of
   Lemmas/TypeTie.v (or is refused by the translator); tools/t9_selftest.sh demonstrates it.
   Statements only; every proof is `exact <lemma>` (Lemmas/TypeTie.v). *)
From SSL.Model Require Import Base Ty.
From SSL.Lemmas Require Import TyFuel TypeTie.
From SSL.Gen Require Import GenTypeFns.
From Coq Require String.

(* ---- Type::matches, FunctionType::matches, StructType::matches ---- *)
(* one unfolding of the generated function = the step functional of the model, whatever the
   recursive calls are *)
Theorem generated_matches_step_is_model_step : forall M a b,
  gen_Type_matches_step M a b = matches_step M a b.
Proof. exact gen_Type_matches_step_eq. Qed.
Theorem generated_matches_f_is_model : forall n a b, gen_Type_matches_f n a b = matches_f n a b.
Proof. exact gen_Type_matches_f_eq. Qed.
Theorem generated_matches_is_model : forall a b, gen_Type_matches a b = matches a b.
Proof. exact gen_Type_matches_eq. Qed.
Theorem generated_matches_fuel : forall n a b,
  size a + size b <= n -> gen_Type_matches_f n a b = matches a b.
Proof. exact gen_Type_matches_fuel. Qed.
Theorem generated_function_matches_is_model : forall p1 r1 p2 r2,
  gen_FunctionType_matches p1 r1 p2 r2 = matches (TFun p1 r1) (TFun p2 r2).
Proof. exact gen_FunctionType_matches_eq. Qed.
Theorem generated_struct_matches_is_model : forall f1 f2,
  gen_StructType_matches f1 f2 = matches (TStruct f1) (TStruct f2).
Proof. exact gen_StructType_matches_eq. Qed.

(* ---- Type::concat, `|` (BitOr for Type and FunctionType), FunctionType::concat ---- *)
Theorem generated_concat_is_model : forall a b, gen_Type_concat a b = concat a b.
Proof. exact gen_Type_concat_eq. Qed.
Theorem generated_bitor_is_model : forall a b, gen_Type_bitor a b = concat a b.
Proof. exact gen_Type_bitor_eq. Qed.
Theorem generated_function_concat_is_model : forall p1 r1 p2 r2,
  gen_FunctionType_concat p1 r1 p2 r2 = concat (TFun p1 r1) (TFun p2 r2).
Proof. exact gen_FunctionType_concat_eq. Qed.
Theorem generated_function_bitor_is_model : forall p r b,
  gen_FunctionType_bitor p r b = concat (TFun p r) b.
Proof. exact gen_FunctionType_bitor_eq. Qed.

(* ---- Type::conjoin ---- *)
Theorem generated_conjoin_step_is_model_step : forall C a b,
  gen_Type_conjoin_step C a b = conjoin_step C a b.
Proof. exact gen_Type_conjoin_step_eq. Qed.
Theorem generated_conjoin_f_is_model : forall n a b, gen_Type_conjoin_f n a b = conjoin_f n a b.
Proof. exact gen_Type_conjoin_f_eq. Qed.
Theorem generated_conjoin_is_model : forall a b, gen_Type_conjoin a b = conjoin a b.
Proof. exact gen_Type_conjoin_eq. Qed.
Theorem generated_conjoin_fuel : forall n a b,
  size a + size b <= n -> gen_Type_conjoin_f n a b = conjoin a b.
Proof. exact gen_Type_conjoin_fuel. Qed.

(* ---- the Option-returning queries (any fuel from the size of the type on) ---- *)
Theorem generated_flatten_tuple_is_model : forall t, gen_Type_flatten_tuple t = flatten_tuple t.
Proof. exact gen_Type_flatten_tuple_eq. Qed.
Theorem generated_flatten_tuple_fuel : forall n t,
  size t <= n -> gen_Type_flatten_tuple_f n t = flatten_tuple t.
Proof. exact gen_Type_flatten_tuple_f_eq. Qed.
Theorem generated_index_result_is_model : forall t, gen_Type_index_result t = index_result t.
Proof. exact gen_Type_index_result_eq. Qed.
Theorem generated_index_result_fuel : forall n t,
  size t <= n -> gen_Type_index_result_f n t = index_result t.
Proof. exact gen_Type_index_result_f_eq. Qed.
Theorem generated_params_is_model : forall t, gen_Type_params t = params t.
Proof. exact gen_Type_params_eq. Qed.
Theorem generated_params_fuel : forall n t, size t <= n -> gen_Type_params_f n t = params t.
Proof. exact gen_Type_params_f_eq. Qed.
Theorem generated_return_type_is_model : forall t, gen_Type_return_type t = fn_return_type t.
Proof. exact gen_Type_return_type_eq. Qed.
Theorem generated_return_type_fuel : forall n t,
  size t <= n -> gen_Type_return_type_f n t = fn_return_type t.
Proof. exact gen_Type_return_type_f_eq. Qed.
Theorem generated_function_return_type_is_field : forall p r, gen_FunctionType_return_type p r = r.
Proof. exact gen_FunctionType_return_type_eq. Qed.
Theorem generated_element_type_is_model : forall t, gen_Type_element_type t = element_type t.
Proof. exact gen_Type_element_type_eq. Qed.
Theorem generated_element_type_fuel : forall n t,
  size t <= n -> gen_Type_element_type_f n t = element_type t.
Proof. exact gen_Type_element_type_f_eq. Qed.
(* the code as repaired (S13c) is the model's intended definition, not the old reading
   [Ty.mut_element_type] *)
Theorem generated_mut_element_type_is_model : forall t,
  gen_Type_mut_element_type t = mut_element_type_spec t.
Proof. exact gen_Type_mut_element_type_eq. Qed.
Theorem generated_mut_element_type_fuel : forall n t,
  size t <= n -> gen_Type_mut_element_type_f n t = mut_element_type_spec t.
Proof. exact gen_Type_mut_element_type_f_eq. Qed.
Theorem generated_tuple_len_is_model : forall t, gen_Type_tuple_len t = tuple_len t.
Proof. exact gen_Type_tuple_len_eq. Qed.
Theorem generated_tuple_len_fuel : forall n t, size t <= n -> gen_Type_tuple_len_f n t = tuple_len t.
Proof. exact gen_Type_tuple_len_f_eq. Qed.
Theorem generated_min_tuple_len_is_model : forall t, gen_Type_min_tuple_len t = min_tuple_len t.
Proof. exact gen_Type_min_tuple_len_eq. Qed.
Theorem generated_iter_element_is_model : forall t, gen_Type_iter_element t = iter_element t.
Proof. exact gen_Type_iter_element_eq. Qed.
Theorem generated_iter_element_fuel : forall n t,
  size t <= n -> gen_Type_iter_element_f n t = iter_element t.
Proof. exact gen_Type_iter_element_f_eq. Qed.
Theorem generated_tuple_element_at_is_model : forall t i,
  gen_Type_tuple_element_at t i = tuple_element_at i t.
Proof. exact gen_Type_tuple_element_at_eq. Qed.
Theorem generated_tuple_element_at_fuel : forall n t i,
  size t <= n -> gen_Type_tuple_element_at_f n t i = tuple_element_at i t.
Proof. exact gen_Type_tuple_element_at_f_eq. Qed.
Theorem generated_field_type_is_model : forall t k, gen_Type_field_type t k = field_type k t.
Proof. exact gen_Type_field_type_eq. Qed.
Theorem generated_field_type_fuel : forall n t k,
  size t <= n -> gen_Type_field_type_f n t k = field_type k t.
Proof. exact gen_Type_field_type_f_eq. Qed.

(* ---- the bool queries ---- *)
Theorem generated_is_function_is_model : forall t, gen_Type_is_function t = is_function t.
Proof. exact gen_Type_is_function_eq. Qed.
Theorem generated_is_tuple_is_model : forall t, gen_Type_is_tuple t = is_tuple t.
Proof. exact gen_Type_is_tuple_eq. Qed.
Theorem generated_is_mut_is_model : forall t, gen_Type_is_mut t = is_mut t.
Proof. exact gen_Type_is_mut_eq. Qed.
Theorem generated_has_field_is_model : forall t k, gen_Type_has_field t k = has_field k t.
Proof. exact gen_Type_has_field_eq. Qed.
Theorem generated_iterator_type_is_model : gen_ITERATOR_TYPE = ITERATOR_TYPE.
Proof. exact gen_ITERATOR_TYPE_eq. Qed.
Theorem generated_empty_struct_type_is_model : gen_EMPTY_STRUCT_TYPE = TStruct [].
Proof. exact gen_EMPTY_STRUCT_TYPE_eq. Qed.
Theorem generated_is_iterator_is_model : forall t, gen_Type_is_iterator t = is_iterator t.
Proof. exact gen_Type_is_iterator_eq. Qed.
Theorem generated_is_struct_is_model : forall t, gen_Type_is_struct t = is_struct t.
Proof. exact gen_Type_is_struct_eq. Qed.
Theorem generated_can_be_indexed_is_model : forall t, gen_Type_can_be_indexed t = can_be_indexed t.
Proof. exact gen_Type_can_be_indexed_eq. Qed.

(* ---- MultiType ---- *)
Theorem generated_multi_iter_is_member_list : forall ms, gen_MultiType_iter ms = ms.
Proof. exact gen_MultiType_iter_eq. Qed.
Theorem generated_multi_from_pair : forall a b, ty_eqb a b = false -> gen_MultiType_from [a; b] = [a; b].
Proof. exact gen_MultiType_from_pair. Qed.
(* the reading of HashSet::extend used on both sides is std's "insert one by one" for a set *)
Theorem hashset_extend_is_insertion : forall m1 m2,
  pairwise_neq m2 = true -> fold_left rs_hashset_insert m2 m1 = rs_hashset_extend m1 m2.
Proof. exact rs_hashset_extend_is_insertion. Qed.

(* ---- which Rust functions are covered (the table the translator wrote on this run) ---- *)
Section Table.
Import Coq.Strings.String.
Local Open Scope string_scope.
Import GenTypeFnsTable.

Theorem covered_functions :
  map fst gen_translated =
  [ "MultiType::iter"; "Type::matches"; "StructType::matches"; "FunctionType::matches";
    "MultiType::from"; "Type::concat"; "Type::conjoin"; "Type::flatten_tuple"; "Type::bitor";
    "Type::index_result"; "Type::params"; "FunctionType::return_type"; "Type::return_type";
    "Type::element_type"; "Type::mut_element_type"; "Type::is_function"; "Type::is_tuple";
    "Type::is_mut"; "static ITERATOR_TYPE"; "Type::is_iterator"; "static EMPTY_STRUCT_TYPE";
    "Type::is_struct"; "Type::tuple_len"; "Type::min_tuple_len"; "Type::iter_element";
    "Type::tuple_element_at"; "Type::can_be_indexed"; "Type::field_type"; "Type::has_field";
    "FunctionType::concat"; "FunctionType::bitor" ].
Proof. exact covered_functions_table. Qed.

(* not translated: their token text is pinned (the translator refuses any other text) *)
Theorem pinned_functions : map fst gen_pinned = [ "Type::bitor_assign"; "type_token_from_pair" ].
Proof. exact pinned_functions_table. Qed.
End Table.

(* C02 — accepted programs do not go wrong: the run-time error enumeration of the code
   (regenerated from src/errors/exec_error.rs on every run) is exactly the six documented
   errors, in the order the model numbers them (the E_ constants of Base.v). *)
From Coq Require Import List ZArith.
Import ListNotations.
From SSL.Model Require Import Base.
From SSL.Gen Require Import GenErrors.
Local Open Scope Z_scope.

Definition six_documented : list (list Z) :=
  [ [73;110;100;101;120;79;117;116;79;102;66;111;117;110;100;115];      (* IndexOutOfBounds *)
    [78;101;103;97;116;105;118;101;76;101;110;103;116;104];            (* NegativeLength *)
    [78;101;103;97;116;105;118;101;69;120;112;111;110;101;110;116];    (* NegativeExponent *)
    [90;101;114;111;68;105;118;105;115;105;111;110];                  (* ZeroDivision *)
    [90;101;114;111;77;111;100;117;108;111];                          (* ZeroModulo *)
    [79;118;101;114;102;108;111;119;83;104;105;102;116] ].            (* OverflowShift *)

Theorem errors_are_six : exec_error_names = six_documented.
Proof. reflexivity. Qed.

Theorem error_numbering :
  nth_error exec_error_names (Z.to_nat E_IndexOutOfBounds) = Some (nth 0 six_documented []) /\
  nth_error exec_error_names (Z.to_nat E_NegativeLength) = Some (nth 1 six_documented []) /\
  nth_error exec_error_names (Z.to_nat E_NegativeExponent) = Some (nth 2 six_documented []) /\
  nth_error exec_error_names (Z.to_nat E_ZeroDivision) = Some (nth 3 six_documented []) /\
  nth_error exec_error_names (Z.to_nat E_ZeroModulo) = Some (nth 4 six_documented []) /\
  nth_error exec_error_names (Z.to_nat E_OverflowShift) = Some (nth 5 six_documented []).
Proof. repeat split; reflexivity. Qed.

(* C05 — type-level outcomes do not depend on hash / iteration order.
   Statements only; every proof is `exact <lemma>` into Lemmas/OrderLemmas.v.

   In Model/Ty.v the member list of a union [TMulti ms] and the field list of
   a struct [TStruct fs] stand for a HashSet / HashMap whose iteration order
   varies between runs.  Order independence = invariance under [Permutation]
   of any such list, up to [ty_eqb] (Rust `==`).
     perm_equiv a b     equal up to permuting member / field lists at any depth
     opt_rel E o o'     both None, or both Some with E-related contents
     eqb_rel a b        ty_eqb a b = true;  list_eqb_rel = all2 ty_eqb
   The last section lists the order DEPENDENCE the faithful model exhibits. *)
From SSL.Model Require Import Base Ty.
From SSL.Lemmas Require Import TyLemmas OrderLemmas.
From Coq Require Import Permutation.

(* ---------- 1. `==` ---------- *)
Theorem ty_eqb_perm_multi : forall ms ms',
  Permutation ms ms' -> wf_ty (TMulti ms) = true -> ty_eqb (TMulti ms) (TMulti ms') = true.
Proof. exact OrderLemmas.ty_eqb_perm_multi. Qed.

Theorem ty_eqb_perm_multi_keys : forall ms ms',
  Permutation ms ms' -> keys_ok (TMulti ms) = true -> ty_eqb (TMulti ms) (TMulti ms') = true.
Proof. exact OrderLemmas.ty_eqb_perm_multi_keys. Qed.

Theorem ty_eqb_perm_struct : forall fs fs',
  nodup_keys fs = true -> forallb (fun kv => keys_ok (snd kv)) fs = true ->
  Permutation fs fs' -> ty_eqb (TStruct fs) (TStruct fs') = true.
Proof. exact OrderLemmas.ty_eqb_perm_struct. Qed.

(* at any depth *)
Theorem perm_equiv_eqb : forall a b, perm_equiv a b -> wf_ty a = true -> ty_eqb a b = true.
Proof. exact OrderLemmas.perm_equiv_eqb. Qed.
Theorem perm_equiv_eqb_keys : forall a b, perm_equiv a b -> keys_ok a = true -> ty_eqb a b = true.
Proof. exact OrderLemmas.perm_equiv_eqb_keys. Qed.

(* well-formedness is itself order independent *)
Theorem perm_equiv_wf : forall a b, perm_equiv a b -> wf_ty a = true -> wf_ty b = true.
Proof. exact OrderLemmas.perm_equiv_wf. Qed.

(* ---------- 2. matches, concat, boolean queries ---------- *)
Theorem matches_perm_l : forall a a' b,
  perm_equiv a a' -> keys_ok a = true -> matches a b = matches a' b.
Proof. exact OrderLemmas.matches_perm_l. Qed.
Theorem matches_perm_r : forall a b b',
  perm_equiv b b' -> keys_ok b = true -> matches a b = matches a b'.
Proof. exact OrderLemmas.matches_perm_r. Qed.
Theorem matches_perm : forall a a' b b',
  perm_equiv a a' -> perm_equiv b b' -> keys_ok a = true -> keys_ok b = true ->
  matches a b = matches a' b'.
Proof. exact OrderLemmas.matches_perm. Qed.

Theorem concat_perm : forall a a' b b',
  perm_equiv a a' -> perm_equiv b b' -> wf_ty a = true -> wf_ty b = true ->
  ty_eqb (concat a b) (concat a' b') = true.
Proof. exact OrderLemmas.concat_perm. Qed.

Theorem is_function_perm : forall ms ms', Permutation ms ms' -> is_function (TMulti ms) = is_function (TMulti ms').
Proof. exact OrderLemmas.is_function_perm. Qed.
Theorem is_tuple_perm : forall ms ms', Permutation ms ms' -> is_tuple (TMulti ms) = is_tuple (TMulti ms').
Proof. exact OrderLemmas.is_tuple_perm. Qed.
Theorem is_mut_perm : forall ms ms', Permutation ms ms' -> is_mut (TMulti ms) = is_mut (TMulti ms').
Proof. exact OrderLemmas.is_mut_perm. Qed.
Theorem is_iterator_perm : forall ms ms', Permutation ms ms' -> is_iterator (TMulti ms) = is_iterator (TMulti ms').
Proof. exact OrderLemmas.is_iterator_perm. Qed.
Theorem is_struct_perm : forall ms ms', Permutation ms ms' -> is_struct (TMulti ms) = is_struct (TMulti ms').
Proof. exact OrderLemmas.is_struct_perm. Qed.
Theorem can_be_indexed_perm : forall ms ms', Permutation ms ms' -> can_be_indexed (TMulti ms) = can_be_indexed (TMulti ms').
Proof. exact OrderLemmas.can_be_indexed_perm. Qed.
Theorem has_field_perm : forall k ms ms', Permutation ms ms' -> has_field k (TMulti ms) = has_field k (TMulti ms').
Proof. exact OrderLemmas.has_field_perm. Qed.
Theorem matches_multi_perm_l : forall ms ms' b, Permutation ms ms' -> matches (TMulti ms) b = matches (TMulti ms') b.
Proof. exact OrderLemmas.matches_multi_perm_l. Qed.

Theorem is_iterator_perm_equiv : forall a b, perm_equiv a b -> keys_ok a = true -> is_iterator a = is_iterator b.
Proof. exact OrderLemmas.is_iterator_perm_equiv. Qed.
Theorem is_struct_perm_equiv : forall a b, perm_equiv a b -> keys_ok a = true -> is_struct a = is_struct b.
Proof. exact OrderLemmas.is_struct_perm_equiv. Qed.
Theorem can_be_indexed_perm_equiv : forall a b, perm_equiv a b -> keys_ok a = true -> can_be_indexed a = can_be_indexed b.
Proof. exact OrderLemmas.can_be_indexed_perm_equiv. Qed.

(* ---------- 3. the Option-returning folds over the members ---------- *)
Theorem fold_concat_perm : forall l l',
  Permutation l l' -> (forall a, In (Some a) l -> wf_ty a = true) ->
  opt_rel eqb_rel (fold_concat l) (fold_concat l').
Proof. exact OrderLemmas.fold_concat_perm. Qed.

Theorem index_result_perm : forall ms ms', Permutation ms ms' -> wf_ty (TMulti ms) = true ->
  opt_rel eqb_rel (index_result (TMulti ms)) (index_result (TMulti ms')).
Proof. exact OrderLemmas.index_result_perm. Qed.
Theorem element_type_perm : forall ms ms', Permutation ms ms' -> wf_ty (TMulti ms) = true ->
  opt_rel eqb_rel (element_type (TMulti ms)) (element_type (TMulti ms')).
Proof. exact OrderLemmas.element_type_perm. Qed.
Theorem fn_return_type_perm : forall ms ms', Permutation ms ms' -> wf_ty (TMulti ms) = true ->
  opt_rel eqb_rel (fn_return_type (TMulti ms)) (fn_return_type (TMulti ms')).
Proof. exact OrderLemmas.fn_return_type_perm. Qed.
Theorem iter_element_perm : forall ms ms', Permutation ms ms' -> wf_ty (TMulti ms) = true ->
  opt_rel eqb_rel (iter_element (TMulti ms)) (iter_element (TMulti ms')).
Proof. exact OrderLemmas.iter_element_perm. Qed.
Theorem tuple_element_at_perm : forall i ms ms', Permutation ms ms' -> wf_ty (TMulti ms) = true ->
  opt_rel eqb_rel (tuple_element_at i (TMulti ms)) (tuple_element_at i (TMulti ms')).
Proof. exact OrderLemmas.tuple_element_at_perm. Qed.
Theorem field_type_perm : forall k ms ms', Permutation ms ms' -> wf_ty (TMulti ms) = true ->
  opt_rel eqb_rel (field_type k (TMulti ms)) (field_type k (TMulti ms')).
Proof. exact OrderLemmas.field_type_perm. Qed.
(* the intended mut_element_type (what the repair of S6 must compute) *)
Theorem mut_element_type_spec_perm : forall ms ms', Permutation ms ms' -> wf_ty (TMulti ms) = true ->
  opt_rel eqb_rel (mut_element_type_spec (TMulti ms)) (mut_element_type_spec (TMulti ms')).
Proof. exact OrderLemmas.mut_element_type_spec_perm. Qed.

Theorem flatten_tuple_perm : forall ms ms', Permutation ms ms' -> wf_ty (TMulti ms) = true ->
  opt_rel list_eqb_rel (flatten_tuple (TMulti ms)) (flatten_tuple (TMulti ms')).
Proof. exact OrderLemmas.flatten_tuple_perm. Qed.
Theorem tuple_len_perm : forall ms ms', Permutation ms ms' -> tuple_len (TMulti ms) = tuple_len (TMulti ms').
Proof. exact OrderLemmas.tuple_len_perm. Qed.
Theorem min_tuple_len_perm : forall ms ms', Permutation ms ms' ->
  min_tuple_len (TMulti ms) = min_tuple_len (TMulti ms').
Proof. exact OrderLemmas.min_tuple_len_perm. Qed.

(* params (a fold of conjoin): definedness and arity are order independent;
   the parameter types are not, see params_order_refuted *)
Theorem params_perm_shape : forall ms ms', Permutation ms ms' ->
  opt_rel (fun a b : list ty => length a = length b) (params (TMulti ms)) (params (TMulti ms')).
Proof. exact OrderLemmas.params_perm_shape. Qed.

(* ---------- 4. order dependence of the implementation ---------- *)
(* S6 *)
Theorem mut_element_type_order_refuted :
  exists ms ms', Permutation ms ms' /\ wf_ty (TMulti ms) = true /\
                 mut_element_type (TMulti ms) <> mut_element_type (TMulti ms').
Proof. exact OrderLemmas.mut_element_type_order_refuted. Qed.
Theorem mut_element_type_all_mut_none : forall ms,
  ms <> [] -> (forall m, In m ms -> exists e, m = TMut e) -> mut_element_type (TMulti ms) = None.
Proof. exact OrderLemmas.mut_element_type_all_mut_none. Qed.

(* params: conjoin is not associative up to `==` *)
Theorem conjoin_assoc_refuted :
  exists a b c, wf_ty a = true /\ wf_ty b = true /\ wf_ty c = true /\
    ty_eqb (conjoin (conjoin a b) c) (conjoin a (conjoin b c)) = false.
Proof. exact OrderLemmas.conjoin_assoc_refuted. Qed.
Theorem params_order_refuted :
  exists ms ms' ps ps', Permutation ms ms' /\ wf_ty (TMulti ms) = true /\
    params (TMulti ms) = Some ps /\ params (TMulti ms') = Some ps' /\
    all2 ty_eqb ps ps' = false.
Proof. exact OrderLemmas.params_order_refuted. Qed.

(* ---------- non-vacuity ---------- *)
Definition ka : ident := [97%Z].
Definition kb : ident := [98%Z].

Definition ex_a : ty :=
  TFun [TMulti [TInt; TArr (TStruct [(ka, TInt); (kb, TMulti [TFloat; TString])])]]
       (TMut (TMulti [TInt; TVoid])).
Definition ex_b : ty :=
  TFun [TMulti [TArr (TStruct [(kb, TMulti [TString; TFloat]); (ka, TInt)]); TInt]]
       (TMut (TMulti [TVoid; TInt])).

Example ex_perm_equiv : perm_equiv ex_a ex_b.
Proof.
  unfold ex_a, ex_b. apply pe_fun; [constructor; [| constructor] |].
  - apply pe_multi with (ms' := [TInt; TArr (TStruct [(kb, TMulti [TString; TFloat]); (ka, TInt)])]);
      [| apply perm_swap].
    constructor; [apply pe_refl | constructor; [| constructor]].
    apply pe_arr.
    apply pe_struct with (fs' := [(ka, TInt); (kb, TMulti [TString; TFloat])]); [| apply perm_swap].
    constructor; [split; [reflexivity | apply pe_refl] | constructor; [| constructor]].
    split; [reflexivity |]. cbn [snd].
    apply pe_multi with (ms' := [TFloat; TString]); [| apply perm_swap].
    constructor; [apply pe_refl | constructor; [apply pe_refl | constructor]].
  - apply pe_mut. apply pe_multi with (ms' := [TInt; TVoid]); [| apply perm_swap].
    constructor; [apply pe_refl | constructor; [apply pe_refl | constructor]].
Qed.
Example ex_perm_equiv_eqb : wf_ty ex_a = true /\ ty_eqb ex_a ex_b = true /\ ex_a <> ex_b.
Proof. repeat split; try (vm_compute; reflexivity). discriminate. Qed.

Example ex_concat_order :
  concat (TMulti [TInt; TFloat]) TString = TMulti [TInt; TFloat; TString] /\
  concat (TMulti [TFloat; TInt]) TString = TMulti [TFloat; TInt; TString].
Proof. split; vm_compute; reflexivity. Qed.

(* the results differ as lists and agree up to `==` *)
Example ex_element_type_order :
  element_type (TMulti [TArr TInt; TArr TFloat; TArr TString]) = Some (TMulti [TInt; TFloat; TString]) /\
  element_type (TMulti [TArr TString; TArr TInt; TArr TFloat]) = Some (TMulti [TString; TInt; TFloat]).
Proof. split; vm_compute; reflexivity. Qed.
Example ex_flatten_order :
  flatten_tuple (TMulti [TTup [TInt; TBool]; TTup [TFloat; TBool]]) = Some [TMulti [TInt; TFloat]; TBool] /\
  flatten_tuple (TMulti [TTup [TFloat; TBool]; TTup [TInt; TBool]]) = Some [TMulti [TFloat; TInt]; TBool] /\
  flatten_tuple (TMulti [TTup [TFloat; TBool]; TTup [TInt]]) = None /\
  flatten_tuple (TMulti [TTup [TInt]; TTup [TFloat; TBool]]) = None.
Proof. repeat split; vm_compute; reflexivity. Qed.

(* the hypothesis on struct keys is needed: with a repeated key not even the
   identical list is `==` to itself *)
Example ex_dup_keys :
  ty_eqb (TStruct [(ka, TInt); (ka, TFloat)]) (TStruct [(ka, TInt); (ka, TFloat)]) = false /\
  ty_eqb (TStruct [(ka, TInt); (ka, TFloat)]) (TStruct [(ka, TFloat); (ka, TInt)]) = false.
Proof. split; vm_compute; reflexivity. Qed.

(* the witnesses of section 4, spelled out *)
Example ex_mut_element_type :
  wf_ty (TMulti [TMut TInt; TArr TInt]) = true /\
  mut_element_type (TMulti [TMut TInt; TArr TInt]) = None /\
  mut_element_type (TMulti [TArr TInt; TMut TInt]) = Some TInt /\
  mut_element_type (TMulti [TMut TInt; TMut TFloat]) = None /\
  mut_element_type (TMulti [TMut TFloat; TMut TInt]) = None /\
  mut_element_type_spec (TMulti [TMut TInt; TMut TFloat]) = Some (TMulti [TInt; TFloat]).
Proof. repeat split; vm_compute; reflexivity. Qed.

Example ex_params_order :
  let a := TArr TAny in
  let b := TMulti [TArr TInt; TArr TFloat; TFloat] in
  let c := TMulti [TArr TInt; TArr TFloat] in
  params (TMulti [TFun [a] TInt; TFun [b] TInt; TFun [c] TInt])
    = Some [TMulti [TArr TInt; TArr TFloat]] /\
  params (TMulti [TFun [b] TInt; TFun [c] TInt; TFun [a] TInt])
    = Some [TMulti [TArr TInt; TArr TNever; TArr TFloat]] /\
  (* the two answers bound each other, but are not `==` *)
  matches (TMulti [TArr TInt; TArr TFloat]) (TMulti [TArr TInt; TArr TNever; TArr TFloat]) = true /\
  matches (TMulti [TArr TInt; TArr TNever; TArr TFloat]) (TMulti [TArr TInt; TArr TFloat]) = true.
Proof. repeat split; vm_compute; reflexivity. Qed.

(* C08c — scalar operators, third part: the description of the operator implementations that
   translators/scalar2coq.py REGENERATES from the Rust sources on every run (Gen/GenScalar.v:
   one Coq function per `exec` / `create_from_instructions`, with the ordered-arm semantics of
   the Rust `match`; the `match self.op` dispatch tables of BinOperation and UnaryOperation as
   data) coincides with the hand-written model that C08 / C08b / C01 / C12 talk about
   (Model/Ops.v: op_exec, unop_exec, assign_base; Model/Recreate.v: fold_bin, fold_un).
   The equalities hold for ALL values and instructions, so the panic arms agree too.
   Statements only; every proof is `exact <lemma>` (Lemmas/ScalarTie.v). *)
From SSL.Model Require Import Base Ty Float Value Ops Seq Syntax Rt Recreate Exec GenGlue.
From SSL.Gen Require Import GenScalar.
From SSL.Lemmas Require Import ScalarTie.
From Coq Require Import ZArith.
Local Open Scope Z_scope.

(* ---- the exponentiation loop of math/pow.rs (`while exp > 0 { .. }`), translated ---- *)
Theorem generated_pow_loop_is_model_loop : forall powf b e,
  gen_pow_wrapping_pow powf b e = rs_wrapping_pow_u64 b e.
Proof. exact gen_wrapping_pow_eq. Qed.
Theorem generated_pow_loop_exact : forall powf b e, 0 <= e < two64 ->
  gen_pow_wrapping_pow powf b e = wrap64 (b ^ e).
Proof. exact gen_wrapping_pow_exact. Qed.

Section C08c.
Variable powf : fbits -> fbits -> fbits.

(* ---- value level: the 17 pure binary operators ---- *)
Theorem add_exec_is_model : forall a b, gen_add_exec powf a b = op_exec powf Add a b.
Proof. exact (gen_add_exec_eq powf). Qed.
Theorem subtract_exec_is_model : forall a b, gen_subtract_exec powf a b = op_exec powf Subtract a b.
Proof. exact (gen_subtract_exec_eq powf). Qed.
Theorem multiply_exec_is_model : forall a b, gen_multiply_exec powf a b = op_exec powf Multiply a b.
Proof. exact (gen_multiply_exec_eq powf). Qed.
Theorem divide_exec_is_model : forall a b, gen_divide_exec powf a b = op_exec powf Divide a b.
Proof. exact (gen_divide_exec_eq powf). Qed.
Theorem modulo_exec_is_model : forall a b, gen_modulo_exec powf a b = op_exec powf Modulo a b.
Proof. exact (gen_modulo_exec_eq powf). Qed.
Theorem pow_exec_is_model : forall a b, gen_pow_exec powf a b = op_exec powf Pow a b.
Proof. exact (gen_pow_exec_eq powf). Qed.
Theorem equal_exec_is_model : forall a b, gen_equal_exec powf a b = op_exec powf Equal a b.
Proof. exact (gen_equal_exec_eq powf). Qed.
Theorem not_equal_exec_is_model : forall a b, gen_not_equal_exec powf a b = op_exec powf NotEqual a b.
Proof. exact (gen_not_equal_exec_eq powf). Qed.
Theorem greater_exec_is_model : forall a b, gen_greater_exec powf a b = op_exec powf Greater a b.
Proof. exact (gen_greater_exec_eq powf). Qed.
Theorem greater_equal_exec_is_model : forall a b,
  gen_greater_equal_exec powf a b = op_exec powf GreaterOrEqual a b.
Proof. exact (gen_greater_equal_exec_eq powf). Qed.
Theorem lower_exec_is_model : forall a b, gen_lower_exec powf a b = op_exec powf Lower a b.
Proof. exact (gen_lower_exec_eq powf). Qed.
Theorem lower_equal_exec_is_model : forall a b,
  gen_lower_equal_exec powf a b = op_exec powf LowerOrEqual a b.
Proof. exact (gen_lower_equal_exec_eq powf). Qed.
Theorem bitwise_and_exec_is_model : forall a b,
  gen_bitwise_and_exec powf a b = op_exec powf BitwiseAnd a b.
Proof. exact (gen_bitwise_and_exec_eq powf). Qed.
Theorem bitwise_or_exec_is_model : forall a b, gen_bitwise_or_exec powf a b = op_exec powf BitwiseOr a b.
Proof. exact (gen_bitwise_or_exec_eq powf). Qed.
Theorem xor_exec_is_model : forall a b, gen_xor_exec powf a b = op_exec powf Xor a b.
Proof. exact (gen_xor_exec_eq powf). Qed.
Theorem lshift_exec_is_model : forall a b, gen_lshift_exec powf a b = op_exec powf LShift a b.
Proof. exact (gen_lshift_exec_eq powf). Qed.
Theorem rshift_exec_is_model : forall a b, gen_rshift_exec powf a b = op_exec powf RShift a b.
Proof. exact (gen_rshift_exec_eq powf). Qed.

(* ---- value level: the two prefix operators ---- *)
Theorem not_exec_is_model : forall a, gen_not_exec powf a = unop_exec UNot a.
Proof. exact (gen_not_exec_eq powf). Qed.
Theorem unary_minus_exec_is_model : forall a, gen_unary_minus_exec powf a = unop_exec UUnaryMinus a.
Proof. exact (gen_unary_minus_exec_eq powf). Qed.

(* ---- constant folding: create_from_instructions of every operator that has one ---- *)
Theorem with_exec_shape : forall l r op ex,
  gen_create_from_instructions_with_exec powf l r op ex =
  match l, r with
  | IVar a, IVar b => lift_val (ex a b)
  | _, _ => Ok (IBin op l r)
  end.
Proof. exact (gen_with_exec_eq powf). Qed.
Theorem add_fold_is_model : forall l r, gen_add_fold powf l r = fold_bin powf Add l r.
Proof. exact (gen_add_fold_eq powf). Qed.
Theorem subtract_fold_is_model : forall l r, gen_subtract_fold powf l r = fold_bin powf Subtract l r.
Proof. exact (gen_subtract_fold_eq powf). Qed.
Theorem multiply_fold_is_model : forall l r, gen_multiply_fold powf l r = fold_bin powf Multiply l r.
Proof. exact (gen_multiply_fold_eq powf). Qed.
Theorem divide_fold_is_model : forall l r, gen_divide_fold powf l r = fold_bin powf Divide l r.
Proof. exact (gen_divide_fold_eq powf). Qed.
Theorem modulo_fold_is_model : forall l r, gen_modulo_fold powf l r = fold_bin powf Modulo l r.
Proof. exact (gen_modulo_fold_eq powf). Qed.
Theorem equal_fold_is_model : forall l r, gen_equal_fold powf l r = fold_bin powf Equal l r.
Proof. exact (gen_equal_fold_eq powf). Qed.
Theorem not_equal_fold_is_model : forall l r, gen_not_equal_fold powf l r = fold_bin powf NotEqual l r.
Proof. exact (gen_not_equal_fold_eq powf). Qed.
Theorem greater_fold_is_model : forall l r, gen_greater_fold powf l r = fold_bin powf Greater l r.
Proof. exact (gen_greater_fold_eq powf). Qed.
Theorem greater_equal_fold_is_model : forall l r,
  gen_greater_equal_fold powf l r = fold_bin powf GreaterOrEqual l r.
Proof. exact (gen_greater_equal_fold_eq powf). Qed.
Theorem lower_fold_is_model : forall l r, gen_lower_fold powf l r = fold_bin powf Lower l r.
Proof. exact (gen_lower_fold_eq powf). Qed.
Theorem lower_equal_fold_is_model : forall l r,
  gen_lower_equal_fold powf l r = fold_bin powf LowerOrEqual l r.
Proof. exact (gen_lower_equal_fold_eq powf). Qed.
Theorem bitwise_and_fold_is_model : forall l r,
  gen_bitwise_and_fold powf l r = fold_bin powf BitwiseAnd l r.
Proof. exact (gen_bitwise_and_fold_eq powf). Qed.
Theorem bitwise_or_fold_is_model : forall l r, gen_bitwise_or_fold powf l r = fold_bin powf BitwiseOr l r.
Proof. exact (gen_bitwise_or_fold_eq powf). Qed.
Theorem xor_fold_is_model : forall l r, gen_xor_fold powf l r = fold_bin powf Xor l r.
Proof. exact (gen_xor_fold_eq powf). Qed.
Theorem lshift_fold_is_model : forall l r, gen_lshift_fold powf l r = fold_bin powf LShift l r.
Proof. exact (gen_lshift_fold_eq powf). Qed.
Theorem rshift_fold_is_model : forall l r, gen_rshift_fold powf l r = fold_bin powf RShift l r.
Proof. exact (gen_rshift_fold_eq powf). Qed.
Theorem not_fold_is_model : forall i, gen_not_fold powf i = fold_un UNot i.
Proof. exact (gen_not_fold_eq powf). Qed.
Theorem unary_minus_fold_is_model : forall i, gen_unary_minus_fold powf i = fold_un UUnaryMinus i.
Proof. exact (gen_unary_minus_fold_eq powf). Qed.

(* ---- the dispatch tables, run as functions: which operator reaches which function ---- *)
(* BinOperation::exec: every pure operator o is sent to the module whose exec is op_exec o *)
Theorem exec_table_is_model : forall o a b, pure_binop o = true ->
  run_exec_table powf o a b = Some (op_exec powf o a b).
Proof. exact (exec_table_eq powf). Qed.
(* BinOperation::recreate: every foldable operator is sent to its create_from_instructions *)
Theorem recreate_table_is_model : forall o l r, foldable_binop o = true ->
  run_recreate_table powf o l r = Some (fold_bin powf o l r).
Proof. exact (recreate_table_eq powf). Qed.
(* ... and the others (`**`, `?`, `@`, calls, assignments, partition) are rebuilt unchanged *)
Theorem recreate_table_keeps_the_rest : forall o,
  foldable_binop o = false -> o <> And -> o <> Or -> o <> At ->
  lookup_arm binop_beq o gen_recreate_dispatch gen_recreate_dispatch_default = Some GKeep
  /\ forall l r, fold_bin powf o l r = Ok (IBin o l r).
Proof. exact (recreate_table_keep powf). Qed.
(* compound assignments: `a op= b` applies, to (content of a, b), the exec of the operator
   that Model/Ops.v::assign_base names (the one Model/Exec.v stores the result of) *)
Theorem assign_table_is_model : forall o base cur rhs, assign_base o = Some base ->
  run_assign_table powf o cur rhs = Some (op_exec powf base cur rhs).
Proof. exact (assign_table_eq powf). Qed.
Theorem assign_table_nothing_else : forall o cur rhs, assign_base o = None ->
  run_assign_table powf o cur rhs = None.
Proof. exact (assign_table_none powf). Qed.
(* UnaryOperation::exec / recreate *)
Theorem unary_exec_table_is_model : forall o a, pure_unop o = true ->
  run_unary_exec_table powf o a = Some (unop_exec o a).
Proof. exact (unary_exec_table_eq powf). Qed.
Theorem unary_recreate_table_is_model : forall o i, pure_unop o = true ->
  run_unary_recreate_table powf o i = Some (fold_un o i).
Proof. exact (unary_recreate_table_eq powf). Qed.
Theorem unary_recreate_table_keeps_the_rest : forall o, pure_unop o = false ->
  lookup_arm unop_beq o gen_unary_recreate_dispatch gen_unary_recreate_dispatch_default = Some GKeep
  /\ forall i, fold_un o i = Ok (IUn o i).
Proof. exact unary_recreate_table_keep. Qed.

(* ---- the interpreter (Model/Exec.v): `a op= b` reads the cell after b ran, applies the
   function that the regenerated table names for `op=` to (content, value of b), stores the
   result, which is also the value of the expression ---- *)
Theorem compound_assignment_runs_generated_function :
  forall pre n st sc op l r st1 sc1 loc t st2 sc2 rv cur w q m f,
  exec_arm op = Some (GAssign w q m F_exec) ->
  gen_exec_of powf m = Some f ->
  exec powf pre n st sc l = (st1, sc1, SVal (VMut loc t)) ->
  exec powf pre n st1 sc1 r = (st2, sc2, SVal rv) ->
  nth_error (s_cells st2) loc = Some cur ->
  exec powf pre (S n) st sc (IBin op l r) =
  sig_of_outcome (f cur rv) (fun v => (write_cell st2 loc v, sc2, SVal v)) st2 sc2.
Proof. exact (compound_assign_runs_table powf). Qed.

End C08c.

(* ---- the dispatch tables as data ---- *)
Theorem assign_base_is_regenerated_table : forall o, assign_base o = table_assign_base o.
Proof. exact assign_base_is_table. Qed.
Theorem plain_assignment_stores_right_operand : exec_arm Assign = Some (GAssignSnd W_exec false).
Proof. exact plain_assign_arm. Qed.
Theorem xor_assign_uses_exec : exec_arm AssignXor = Some (GAssign W_exec false M_xor F_exec).
Proof. exact (exec_dispatch_expected AssignXor). Qed.
Theorem divide_assign_uses_try_exec : exec_arm AssignDivide = Some (GAssign W_try_exec true M_divide F_exec).
Proof. exact (exec_dispatch_expected AssignDivide). Qed.
Theorem divide_arms : exec_arm Divide = Some (GCall M_divide F_exec true)
                      /\ recreate_arm Divide = Some (GCall M_divide F_create false).
Proof. exact (conj (exec_dispatch_expected Divide) (recreate_dispatch_expected Divide)). Qed.
(* assign::exec goes with functions returning a Variable, try_exec (and `?`) with those
   returning a Result *)
Theorem assignment_wrappers_fit_result_types :
  forallb (fun row => wrapper_fits gen_returns_result (snd row)) gen_exec_dispatch = true.
Proof. exact wrappers_fit. Qed.
Theorem exec_dispatch_is_expected :
  same_arms gen_exec_dispatch expected_exec_dispatch gen_exec_dispatch_default (Some GUnreachable).
Proof. exact exec_dispatch_expected. Qed.
Theorem recreate_dispatch_is_expected :
  same_arms gen_recreate_dispatch expected_recreate_dispatch gen_recreate_dispatch_default (Some GKeep).
Proof. exact recreate_dispatch_expected. Qed.
(* every literal range tested with `contains` in the shift operators is 0..=63 *)
Theorem shift_range_bounds : forallb is_shift_range gen_all_ranges = true.
Proof. exact shift_bounds. Qed.
Theorem unary_dispatch_is_expected :
  (forall o, lookup_arm unop_beq o gen_unary_exec_dispatch gen_unary_exec_dispatch_default =
     match o with
     | UNot => Some (GCall M_not F_exec false)
     | UUnaryMinus => Some (GCall M_unary_minus F_exec false)
     | UReturn => Some GReturn
     | UIndirection => Some (GCall M_indirection F_exec false)
     | UFunctionCall => Some GCallFunction
     | UCollect => Some (GCall M_collect F_exec true)
     | UIter => Some (GCall M_iter F_exec false)
     | USum | UProduct | UAll | UAny | UBitAnd | UBitOr => Some GUnreachable
     end)
  /\ (forall o, lookup_arm unop_beq o gen_unary_recreate_dispatch gen_unary_recreate_dispatch_default =
     match o with
     | UNot => Some (GCall M_not F_create false)
     | UUnaryMinus => Some (GCall M_unary_minus F_create false)
     | _ => Some GKeep
     end).
Proof. exact unary_dispatch_expected. Qed.

(* C10 (value half) — the subtype relation is sound for values.
   Statements only; every proof is `exact <lemma>` into Lemmas/ValueLemmas.v.

   [content_in v t]  : structural membership of the contents of [v] in [t];
   [has_type v t]    : membership by runtime tag AND by contents;
   [wf_val v]        : the contents of [v] inhabit its own tag.

   The two main statements, [content_sound] and [has_type_sound], carry no
   hypothesis at all.  Where a hypothesis is needed it is "struct keys are
   distinct, hereditarily" ([keys_ok], implied by [wf_ty]); such statements are
   given with [wf_ty] under the planned name and with [keys_ok] under the name
   suffixed [_keys].  The [Example]s show the hypotheses are necessary and the
   notions not trivial. *)
From SSL.Model Require Import Base Ty Float Value.
From SSL.Lemmas Require Import TyLemmas ValueLemmas.

(* ---------- unfolding equations of content_in, one per arm ---------- *)
Theorem content_in_any : forall v, content_in v TAny = true.
Proof. exact ValueLemmas.content_in_any. Qed.

Theorem content_in_never : forall v, content_in v TNever = false.
Proof. exact ValueLemmas.content_in_never. Qed.

Theorem content_in_multi : forall v ms,
  content_in v (TMulti ms) = existsb (content_in v) ms.
Proof. exact ValueLemmas.content_in_multi. Qed.

Theorem content_in_bool : forall b, content_in (VBool b) TBool = true.
Proof. exact ValueLemmas.content_in_bool. Qed.
Theorem content_in_int : forall z, content_in (VInt z) TInt = true.
Proof. exact ValueLemmas.content_in_int. Qed.
Theorem content_in_float : forall f, content_in (VFloat f) TFloat = true.
Proof. exact ValueLemmas.content_in_float. Qed.
Theorem content_in_string : forall s, content_in (VString s) TString = true.
Proof. exact ValueLemmas.content_in_string. Qed.
Theorem content_in_void : content_in VVoid TVoid = true.
Proof. exact ValueLemmas.content_in_void. Qed.

Theorem content_in_arr : forall et vs e,
  content_in (VArr et vs) (TArr e) = forallb (fun x => content_in x e) vs.
Proof. exact ValueLemmas.content_in_arr. Qed.

Theorem content_in_tup : forall vs ts,
  content_in (VTup vs) (TTup ts) = all2 content_in vs ts.
Proof. exact ValueLemmas.content_in_tup. Qed.

Theorem content_in_struct : forall fs fts,
  content_in (VStruct fs) (TStruct fts) =
  forallb (fun kt => match assoc (fst kt) fs with
                     | Some x => content_in x (snd kt) | None => false end) fts.
Proof. exact ValueLemmas.content_in_struct. Qed.

Theorem content_in_fun : forall i ps r p1 r1,
  content_in (VFun i ps r) (TFun p1 r1) = matches (TFun ps r) (TFun p1 r1).
Proof. exact ValueLemmas.content_in_fun. Qed.

Theorem content_in_mut : forall l ct e, content_in (VMut l ct) (TMut e) = ty_eqb ct e.
Proof. exact ValueLemmas.content_in_mut. Qed.

(* a value is in a simple type only if the kinds agree (all remaining arms are false) *)
Theorem content_in_kind : forall v t,
  simple t = true -> content_in v t = true -> tkind t = Some (kind v).
Proof. exact ValueLemmas.content_in_kind. Qed.

(* ---------- soundness: whenever A matches B, every value of A is a value of B ---------- *)
Theorem content_sound : forall a b v,
  content_in v a = true -> matches a b = true -> content_in v b = true.
Proof. exact ValueLemmas.content_sound. Qed.

Theorem has_type_sound : forall v a b,
  has_type v a = true -> matches a b = true -> has_type v b = true.
Proof. exact ValueLemmas.has_type_sound. Qed.

(* for a well-formed value the runtime tag alone decides membership *)
Theorem has_type_wf : forall v t,
  wf_val v = true -> has_type v t = matches (as_type v) t.
Proof. exact ValueLemmas.has_type_wf. Qed.

Theorem content_in_eqb : forall v a b,
  ty_eqb a b = true -> content_in v a = content_in v b.
Proof. exact ValueLemmas.content_in_eqb. Qed.

(* ---------- top, bottom, unions ---------- *)
Theorem has_type_any : forall v, wf_val v = true -> has_type v TAny = true.
Proof. exact ValueLemmas.has_type_any. Qed.

(* the hypothesis of [has_type_any] is not needed *)
Theorem has_type_any_all : forall v, has_type v TAny = true.
Proof. exact ValueLemmas.has_type_any_all. Qed.

Theorem has_type_never : forall v, has_type v TNever = false.
Proof. exact ValueLemmas.has_type_never. Qed.

Theorem has_type_union : forall v a b,
  wf_ty a = true -> has_type v a = true -> has_type v (concat a b) = true.
Proof. exact ValueLemmas.has_type_union_l. Qed.

Theorem has_type_union_r : forall v a b,
  wf_ty b = true -> has_type v b = true -> has_type v (concat a b) = true.
Proof. exact ValueLemmas.has_type_union_r. Qed.

Theorem has_type_union_keys : forall v a b,
  keys_ok a = true -> has_type v a = true -> has_type v (concat a b) = true.
Proof. exact ValueLemmas.has_type_union_l_keys. Qed.

Theorem has_type_union_r_keys : forall v a b,
  keys_ok b = true -> has_type v b = true -> has_type v (concat a b) = true.
Proof. exact ValueLemmas.has_type_union_r_keys. Qed.

(* the hypotheses above come from [concat_upper_*]; on values none is needed *)
Theorem has_type_union_all : forall v a b,
  has_type v a = true -> has_type v (concat a b) = true.
Proof. exact ValueLemmas.has_type_union_l_all. Qed.

Theorem has_type_union_r_all : forall v a b,
  has_type v b = true -> has_type v (concat a b) = true.
Proof. exact ValueLemmas.has_type_union_r_all. Qed.

Theorem has_type_multi_intro : forall v m ms,
  In m ms -> has_type v m = true -> has_type v (TMulti ms) = true.
Proof. exact ValueLemmas.has_type_multi_intro. Qed.

(* ---------- structured membership ---------- *)
Theorem has_type_tup : forall vs ts,
  has_type (VTup vs) (TTup ts) = all2 has_type vs ts.
Proof. exact ValueLemmas.has_type_tup_all2. Qed.

Theorem has_type_struct : forall fs fts,
  has_type (VStruct fs) (TStruct fts) =
  forallb (fun kt => match assoc (fst kt) fs with
                     | Some x => has_type x (snd kt) | None => false end) fts.
Proof. exact ValueLemmas.has_type_struct. Qed.

(* ---------- Array::from builds well-formed arrays ---------- *)
Theorem wf_val_arr_of : forall vs,
  forallb wf_val vs = true ->
  forallb (fun x => wf_ty (as_type x)) vs = true ->
  wf_val (arr_of vs) = true.
Proof. exact ValueLemmas.wf_val_arr_of. Qed.

Theorem wf_val_arr_of_keys : forall vs,
  forallb wf_val vs = true ->
  forallb (fun x => keys_ok (as_type x)) vs = true ->
  wf_val (arr_of vs) = true.
Proof. exact ValueLemmas.wf_val_arr_of_keys. Qed.

(* no hypothesis on the element types is needed *)
Theorem wf_val_arr_of_all : forall vs,
  forallb wf_val vs = true -> wf_val (arr_of vs) = true.
Proof. exact ValueLemmas.wf_val_arr_of_all. Qed.

Theorem arr_of_elem_has_type : forall vs x,
  forallb wf_val vs = true ->
  forallb (fun x => keys_ok (as_type x)) vs = true ->
  In x vs ->
  has_type x (match concat_all (map as_type vs) with Some t => t | None => TNever end) = true.
Proof. exact ValueLemmas.arr_of_elem_has_type. Qed.

Theorem arr_of_type_wf : forall vs,
  forallb (fun x => wf_ty (as_type x)) vs = true -> wf_ty (as_type (arr_of vs)) = true.
Proof. exact ValueLemmas.arr_of_type_wf. Qed.

(* ---------- default values inhabit their type ---------- *)
Theorem of_type_has_type : forall t v,
  wf_ty t = true -> of_type t = Some v -> has_type v t = true.
Proof. exact ValueLemmas.of_type_has_type. Qed.

Theorem of_type_has_type_keys : forall t v,
  keys_ok t = true -> of_type t = Some v -> has_type v t = true.
Proof. exact ValueLemmas.of_type_has_type_keys. Qed.

(* ---------- examples ---------- *)
Local Open Scope Z_scope.
Definition kx : ident := [120].
Definition ky : ident := [121].

(* [1, 2] with stored element type int is an [int|float] and an [any] *)
Example ex_arr_widen :
  has_type (VArr TInt [VInt 1; VInt 2]) (TArr (TMulti [TInt; TFloat])) = true
  /\ has_type (VArr TInt [VInt 1; VInt 2]) (TArr TAny) = true
  /\ has_type (VArr TInt [VInt 1; VInt 2]) (TArr TFloat) = false.
Proof. vm_compute. repeat split. Qed.

(* both halves of has_type matter: the tag may fit while the contents do not
   (an ill-formed value), and the contents may fit while the tag does not *)
Example ex_tag_only :
  matches (as_type (VArr TNever [VInt 1])) (TArr TFloat) = true
  /\ content_in (VArr TNever [VInt 1]) (TArr TFloat) = false
  /\ wf_val (VArr TNever [VInt 1]) = false.
Proof. vm_compute. repeat split. Qed.

Example ex_content_only :
  content_in (VArr TAny [VInt 1]) (TArr TInt) = true
  /\ matches (as_type (VArr TAny [VInt 1])) (TArr TInt) = false
  /\ has_type (VArr TAny [VInt 1]) (TArr TInt) = false.
Proof. vm_compute. repeat split. Qed.

(* width and depth subtyping of structs, on values *)
Example ex_struct_width :
  has_type (VStruct [(kx, VInt 1); (ky, VArr TNever [])])
           (TStruct [(ky, TArr TInt)]) = true
  /\ has_type (VStruct [(kx, VInt 1)]) (TStruct [(kx, TInt); (ky, TInt)]) = false.
Proof. vm_compute. repeat split. Qed.

(* cells are invariant on values too *)
Example ex_cell_invariant :
  has_type (VMut 0 TInt) (TMut TInt) = true
  /\ has_type (VMut 0 TInt) (TMut (TMulti [TInt; TFloat])) = false
  /\ has_type (VMut 0 TInt) (TMulti [TMut TInt; TFloat]) = true.
Proof. vm_compute. repeat split. Qed.

(* functions: contravariant parameters *)
Example ex_fun_value :
  has_type (VFun 3 [TMulti [TInt; TFloat]] TInt) (TFun [TInt] (TMulti [TInt; TString])) = true
  /\ has_type (VFun 3 [TInt] TInt) (TFun [TMulti [TInt; TFloat]] TInt) = false.
Proof. vm_compute. repeat split. Qed.

(* Array::from of mixed elements *)
Example ex_arr_of :
  arr_of [VInt 1; VFloat F_ONE; VInt 2]
    = VArr (TMulti [TInt; TFloat]) [VInt 1; VFloat F_ONE; VInt 2]
  /\ wf_val (arr_of [VInt 1; VFloat F_ONE; VInt 2]) = true
  /\ arr_of [] = VArr TNever [].
Proof. vm_compute. repeat split. Qed.

(* defaults: first member of a union; none for `!` *)
Example ex_of_type :
  of_type (TMulti [TInt; TFloat]) = Some (VInt 0)
  /\ of_type (TTup [TBool; TArr TInt]) = Some (VTup [VBool false; VArr TInt []])
  /\ of_type TNever = None
  /\ of_type (TTup [TInt; TNever]) = None.
Proof. vm_compute. repeat split. Qed.

(* distinct struct keys are necessary for [of_type_has_type] *)
Example ex_of_type_needs_keys :
  let t := TStruct [(kx, TInt); (kx, TFloat)] in
  keys_ok t = false /\
  match of_type t with Some v => has_type v t | None => true end = false.
Proof. vm_compute. repeat split. Qed.

(* ... but not for the union bound on values, although [matches a (concat a b)]
   itself fails for such a type *)
Example ex_union_no_keys :
  let a := TStruct [(kx, TAny); (kx, TInt)] in
  let v := VStruct [(kx, VInt 1)] in
  keys_ok a = false
  /\ matches a (concat a TFloat) = false
  /\ has_type v a = true
  /\ has_type v (concat a TFloat) = true.
Proof. vm_compute. repeat split. Qed.

(* C04 — constant folding agrees with execution.

   Model: Model/Recreate.v ([fold_bin], [fold_un], [fold_repeat], [repeat_value],
   [lift_val], [recreate]: the pass run on every instruction tree after parsing and
   when a closure captures), Model/Ops.v ([op_exec powf], [unop_exec]: the run-time
   operators), Model/Seq.v ([at_exec]: run-time indexing).  Proofs and the small
   vocabulary live in Lemmas/FoldLemmas.v; every theorem below is [exact lemma].

     foldable o      : bool — o is one of  + - * == != > >= < <= & | ^ / % << >>
                       (folded through [op_exec]); [At] is folded through [at_exec]
     exec_bin powf o a b := match o with At => at_exec a b | _ => op_exec powf o a b end
     is_const i      : bool — i is an [IVar _]
     early_err o l r : option Z — the parse-time error of an operation whose operands
                       are not both constants, as a function (mirrors the source)
     early_error o l r e : Prop — the same as an explicit disjunction:
         o = Divide /\ r = IVar (VInt 0) /\ e = E_ZeroDivision
      \/ o = Modulo /\ r = IVar (VInt 0) /\ e = E_ZeroModulo
      \/ (o = LShift \/ o = RShift) /\ exists s, r = IVar (VInt s) /\ ~ 0 <= s <= 63
                                               /\ e = E_OverflowShift
      \/ o = At /\ exists es t i, l = IArray es t /\ r = IVar (VInt i)
                    /\ ~ - length es <= i < length es /\ e = E_IndexOutOfBounds

   Err e = the pass reports ExecError e at parse time / the operator fails with e at
   run time; Panic = a Rust panic.  [powf] (libm) is external.  The [Example]s at
   the end are evaluated by [vm_compute] on closed terms. *)
From Coq Require Import ZArith List.
Import ListNotations.
From SSL.Model Require Import Base Ty Float Value Ops Seq Syntax Rt Recreate.
From SSL.Lemmas Require Import FoldLemmas.
Local Open Scope Z_scope.

Section C04.
Variable powf : fbits -> fbits -> fbits.
Notation op := (op_exec powf).
Notation fold := (fold_bin powf).
Notation exec := (exec_bin powf).
Notation recr := (recreate powf).

(* ------------------------------------------------- C1. two constant operands *)

(* folding two constants IS executing them: same value, same error, same panic *)
Theorem fold_bin_const_eq : forall o a b, foldable o = true \/ o = At ->
  fold o (IVar a) (IVar b) = lift_val (exec o a b).
Proof. exact (fold_bin_const_eq powf). Qed.

Theorem fold_bin_const_ok : forall o a b i', foldable o = true \/ o = At ->
  fold o (IVar a) (IVar b) = Ok i' -> exists v, i' = IVar v /\ exec o a b = Ok v.
Proof. exact (fold_bin_const_ok powf). Qed.

Theorem fold_bin_const_err : forall o a b e, foldable o = true \/ o = At ->
  fold o (IVar a) (IVar b) = Err e -> exec o a b = Err e.
Proof. exact (fold_bin_const_err powf). Qed.

Theorem fold_bin_const_panic : forall o a b, foldable o = true \/ o = At ->
  fold o (IVar a) (IVar b) = Panic -> exec o a b = Panic.
Proof. exact (fold_bin_const_panic powf). Qed.

Theorem fold_bin_const_iff : forall o a b, foldable o = true \/ o = At ->
  (forall v, fold o (IVar a) (IVar b) = Ok (IVar v) <-> exec o a b = Ok v) /\
  (forall e, fold o (IVar a) (IVar b) = Err e <-> exec o a b = Err e) /\
  (fold o (IVar a) (IVar b) = Panic <-> exec o a b = Panic).
Proof. exact (fold_bin_const_iff powf). Qed.

(* ------------------------------------------ C2. not both operands constant *)

(* the result is the operation unchanged, except for the early errors *)
Theorem fold_bin_nonconst : forall o l r, is_const l && is_const r = false ->
  fold o l r = match early_err o l r with Some e => Err e | None => Ok (IBin o l r) end.
Proof. exact (fold_bin_nonconst_eq powf). Qed.

Theorem early_err_spec : forall o l r e, early_err o l r = Some e <-> early_error o l r e.
Proof. exact early_err_iff. Qed.

Theorem fold_bin_nonconst_err : forall o l r e, is_const l && is_const r = false ->
  (fold o l r = Err e <->
   (o = Divide /\ r = IVar (VInt 0) /\ e = E_ZeroDivision) \/
   (o = Modulo /\ r = IVar (VInt 0) /\ e = E_ZeroModulo) \/
   ((o = LShift \/ o = RShift) /\
      exists s, r = IVar (VInt s) /\ ~ (0 <= s <= 63) /\ e = E_OverflowShift) \/
   (o = At /\
      exists es t i, l = IArray es t /\ r = IVar (VInt i) /\
        ~ (- Z.of_nat (length es) <= i < Z.of_nat (length es)) /\ e = E_IndexOutOfBounds)).
Proof. exact (fold_bin_nonconst_err powf). Qed.

Theorem fold_bin_nonconst_unchanged : forall o l r, is_const l && is_const r = false ->
  (fold o l r = Ok (IBin o l r) <-> forall e, ~ early_error o l r e).
Proof. exact (fold_bin_nonconst_unchanged powf). Qed.

(* nothing else happens: no panic, no other result *)
Theorem fold_bin_nonconst_cases : forall o l r, is_const l && is_const r = false ->
  (fold o l r = Ok (IBin o l r) /\ forall e, ~ early_error o l r e) \/
  (exists e, fold o l r = Err e /\ early_error o l r e).
Proof. exact (fold_bin_nonconst_cases powf). Qed.

(* the three early errors one by one *)
Theorem fold_div_zero_early : forall l, is_const l = false ->
  fold Divide l (IVar (VInt 0)) = Err E_ZeroDivision.
Proof. exact (fold_div_zero_early powf). Qed.
Theorem fold_mod_zero_early : forall l, is_const l = false ->
  fold Modulo l (IVar (VInt 0)) = Err E_ZeroModulo.
Proof. exact (fold_mod_zero_early powf). Qed.
Theorem fold_shift_out_early : forall o l s, o = LShift \/ o = RShift -> is_const l = false ->
  ~ (0 <= s <= 63) -> fold o l (IVar (VInt s)) = Err E_OverflowShift.
Proof. exact (fold_shift_out_early powf). Qed.
Theorem fold_shift_early : forall o l s, o = LShift \/ o = RShift -> is_const l = false ->
  fold o l (IVar (VInt s)) =
  if (0 <=? s) && (s <=? 63) then Ok (IBin o l (IVar (VInt s))) else Err E_OverflowShift.
Proof. exact (fold_shift_early powf). Qed.
Theorem fold_at_oob_early : forall es t i,
  ~ (- Z.of_nat (length es) <= i < Z.of_nat (length es)) ->
  fold At (IArray es t) (IVar (VInt i)) = Err E_IndexOutOfBounds.
Proof. exact (fold_at_oob_early powf). Qed.
Theorem fold_at_early : forall es t i,
  fold At (IArray es t) (IVar (VInt i)) =
  if (- Z.of_nat (length es) <=? i) && (i <? Z.of_nat (length es))
  then Ok (IBin At (IArray es t) (IVar (VInt i))) else Err E_IndexOutOfBounds.
Proof. exact (fold_at_early powf). Qed.

(* ... and executing the unfolded operation with that right operand gives the same
   error whatever the left operand evaluates to *)
Theorem div_zero_any_lhs : forall v, op Divide v (VInt 0) = Err E_ZeroDivision.
Proof. exact (div_zero_any powf). Qed.
Theorem mod_zero_any_lhs : forall v, op Modulo v (VInt 0) = Err E_ZeroModulo.
Proof. exact (mod_zero_any powf). Qed.
Theorem shl_out_of_range : forall a s, ~ (0 <= s <= 63) ->
  op LShift (VInt a) (VInt s) = Err E_OverflowShift.
Proof. exact (shl_out powf). Qed.
Theorem shr_out_of_range : forall a s, ~ (0 <= s <= 63) ->
  op RShift (VInt a) (VInt s) = Err E_OverflowShift.
Proof. exact (shr_out powf). Qed.
(* a non-integer left operand of a shift is a panic, never another error *)
Theorem shift_out_shape : forall o v s, o = LShift \/ o = RShift -> ~ (0 <= s <= 63) ->
  (op o v (VInt s) = Err E_OverflowShift <-> exists a, v = VInt a) /\
  (op o v (VInt s) = Err E_OverflowShift \/ op o v (VInt s) = Panic).
Proof. exact (shift_out_shape powf). Qed.
(* an [IArray es _] evaluates to an array of exactly [length es] elements *)
Theorem at_out_of_bounds : forall t vs (n : nat) i, length vs = n ->
  ~ (- Z.of_nat n <= i < Z.of_nat n) ->
  at_exec (VArr t vs) (VInt i) = Err E_IndexOutOfBounds.
Proof. exact at_oob_len. Qed.

(* ------------------------------------------------- C3. never folded here *)

Theorem fold_bin_unfolded : forall o l r, foldable o = false -> o <> At ->
  fold o l r = Ok (IBin o l r).
Proof. exact (fold_bin_unfolded powf). Qed.

Theorem unfolded_operators : forall o, foldable o = false /\ o <> At <->
  In o [Pow; And; Or; Map; Filter; Partition; FunctionCall; Assign; AssignAdd; AssignSubtract;
        AssignMultiply; AssignDivide; AssignModulo; AssignLShift; AssignRShift;
        AssignBitwiseAnd; AssignBitwiseOr; AssignXor; AssignPow].
Proof. exact unfolded_ops. Qed.

(* ------------------------------------ C4. prefix operators, array repetition *)

Theorem fold_un_not : forall v, fold_un UNot (IVar v) = lift_val (unop_exec UNot v).
Proof. exact fold_un_not. Qed.
Theorem fold_un_neg : forall v,
  fold_un UUnaryMinus (IVar v) = lift_val (unop_exec UUnaryMinus v).
Proof. exact fold_un_neg. Qed.
Theorem fold_un_other : forall o i, (o <> UNot /\ o <> UUnaryMinus) \/ is_const i = false ->
  fold_un o i = Ok (IUn o i).
Proof. exact fold_un_other. Qed.

Theorem fold_repeat_const : forall x n, 0 <= n ->
  fold_repeat (IVar x) (IVar (VInt n)) = Ok (IVar (repeat_value x n)).
Proof. exact fold_repeat_const. Qed.
Theorem fold_repeat_neg : forall v n, n < 0 ->
  fold_repeat v (IVar (VInt n)) = Err E_NegativeLength.
Proof. exact fold_repeat_neg. Qed.
Theorem fold_repeat_nonconst : forall v n, is_const v = false -> 0 <= n ->
  fold_repeat v (IVar (VInt n)) = Ok (IArrayRepeat v (IVar (VInt n))).
Proof. exact fold_repeat_nonconst. Qed.
Theorem fold_repeat_other : forall v len, (forall n, len <> IVar (VInt n)) ->
  fold_repeat v len = Ok (IArrayRepeat v len).
Proof. exact fold_repeat_other. Qed.
Theorem repeat_value_length : forall x n, 0 <= n ->
  exists vs, repeat_value x n = VArr (as_type x) vs /\
             length vs = Z.to_nat n /\ Z.of_nat (length vs) = n /\ forall y, In y vs -> y = x.
Proof. exact repeat_value_length. Qed.

(* ------------------------------------------- C5. recreate on IBin: && and || *)

Theorem and_fold_true : forall f sc e e1 l r,
  recr f sc e l = Ok (IVar (VBool true), e1) ->
  recr (S f) sc e (IBin And l r) = recr f sc e1 r.
Proof. exact (and_fold_true powf). Qed.
Theorem and_fold_false : forall f sc e e1 l r,
  recr f sc e l = Ok (IVar (VBool false), e1) ->
  recr (S f) sc e (IBin And l r) = Ok (IVar (VBool false), e1).
Proof. exact (and_fold_false powf). Qed.
Theorem and_fold_const : forall f sc e e1 l r v,
  recr f sc e l = Ok (IVar v, e1) -> v <> VBool true ->
  recr (S f) sc e (IBin And l r) = Ok (IVar (VBool false), e1).
Proof. exact (and_fold_const powf). Qed.
Theorem and_fold_nonconst : forall f sc e e1 l l' r,
  recr f sc e l = Ok (l', e1) -> is_const l' = false ->
  recr (S f) sc e (IBin And l r) =
  obind (recr f sc e1 r) (fun '(r', e2) => Ok (IBin And l' r', e2)).
Proof. exact (and_fold_nonconst powf). Qed.

Theorem or_fold_true : forall f sc e e1 l r,
  recr f sc e l = Ok (IVar (VBool true), e1) ->
  recr (S f) sc e (IBin Or l r) = Ok (IVar (VBool true), e1).
Proof. exact (or_fold_true powf). Qed.
Theorem or_fold_false : forall f sc e e1 l r,
  recr f sc e l = Ok (IVar (VBool false), e1) ->
  recr (S f) sc e (IBin Or l r) = recr f sc e1 r.
Proof. exact (or_fold_false powf). Qed.
Theorem or_fold_const : forall f sc e e1 l r v,
  recr f sc e l = Ok (IVar v, e1) -> v <> VBool true ->
  recr (S f) sc e (IBin Or l r) = recr f sc e1 r.
Proof. exact (or_fold_const powf). Qed.
Theorem or_fold_nonconst : forall f sc e e1 l l' r,
  recr f sc e l = Ok (l', e1) -> is_const l' = false ->
  recr (S f) sc e (IBin Or l r) =
  obind (recr f sc e1 r) (fun '(r', e2) => Ok (IBin Or l' r', e2)).
Proof. exact (or_fold_nonconst powf). Qed.

Theorem and_or_fold_left_err : forall f sc e l r o x, o = And \/ o = Or ->
  recr f sc e l = Err x -> recr (S f) sc e (IBin o l r) = Err x.
Proof. exact (and_or_fold_left_err powf). Qed.
Theorem and_or_fold_left_panic : forall f sc e l r o, o = And \/ o = Or ->
  recr f sc e l = Panic -> recr (S f) sc e (IBin o l r) = Panic.
Proof. exact (and_or_fold_left_panic powf). Qed.

(* every other operator: both operands, left to right, then [fold_bin] *)
Theorem recreate_bin_step : forall f sc e o l r, o <> And -> o <> Or ->
  recr (S f) sc e (IBin o l r) =
  obind (recr f sc e l) (fun '(l', e) =>
  obind (recr f sc e r) (fun '(r', e) =>
  obind (fold o l' r') (fun x => Ok (x, e)))).
Proof. exact (recreate_bin_step powf). Qed.

(* ------------------------------------------------------------ examples *)

Notation lx := (ILocal [120] (LOther TInt)).      (* a non-constant operand: local `x: int` *)
Notation arr2 := (IArray [lx; lx] TInt).
Notation one_div_zero := (IBin Divide (IVar (VInt 1)) (IVar (VInt 0))).

Example ex_add : fold Add (IVar (VInt 1)) (IVar (VInt 2)) = Ok (IVar (VInt 3)).
Proof. vm_compute; reflexivity. Qed.
Example ex_div_const : fold Divide (IVar (VInt 1)) (IVar (VInt 0)) = Err E_ZeroDivision.
Proof. vm_compute; reflexivity. Qed.
Example ex_div_early : fold Divide lx (IVar (VInt 0)) = Err E_ZeroDivision.
Proof. vm_compute; reflexivity. Qed.
Example ex_mod_early : fold Modulo lx (IVar (VInt 0)) = Err E_ZeroModulo.
Proof. vm_compute; reflexivity. Qed.
Example ex_div_kept : fold Divide lx (IVar (VInt 2)) = Ok (IBin Divide lx (IVar (VInt 2))).
Proof. vm_compute; reflexivity. Qed.
Example ex_div_zero_left : fold Divide (IVar (VInt 0)) lx = Ok (IBin Divide (IVar (VInt 0)) lx).
Proof. vm_compute; reflexivity. Qed.
Example ex_shl_early : fold LShift lx (IVar (VInt 64)) = Err E_OverflowShift.
Proof. vm_compute; reflexivity. Qed.
Example ex_shr_early : fold RShift lx (IVar (VInt (-1))) = Err E_OverflowShift.
Proof. vm_compute; reflexivity. Qed.
Example ex_shl_kept : fold LShift lx (IVar (VInt 63)) = Ok (IBin LShift lx (IVar (VInt 63))).
Proof. vm_compute; reflexivity. Qed.
Example ex_shl_const : fold LShift (IVar (VInt 1)) (IVar (VInt 4)) = Ok (IVar (VInt 16)).
Proof. vm_compute; reflexivity. Qed.
Example ex_at_early_2 : fold At arr2 (IVar (VInt 2)) = Err E_IndexOutOfBounds.
Proof. vm_compute; reflexivity. Qed.
Example ex_at_early_m3 : fold At arr2 (IVar (VInt (-3))) = Err E_IndexOutOfBounds.
Proof. vm_compute; reflexivity. Qed.
Example ex_at_kept_m2 : fold At arr2 (IVar (VInt (-2))) = Ok (IBin At arr2 (IVar (VInt (-2)))).
Proof. vm_compute; reflexivity. Qed.
Example ex_at_const :
  fold At (IVar (VArr TInt [VInt 7; VInt 8])) (IVar (VInt (-2))) = Ok (IVar (VInt 7)).
Proof. vm_compute; reflexivity. Qed.
Example ex_and_not_folded :
  fold And (IVar (VBool true)) (IVar (VBool true)) = Ok (IBin And (IVar (VBool true)) (IVar (VBool true))).
Proof. vm_compute; reflexivity. Qed.
Example ex_not : fold_un UNot (IVar (VBool true)) = Ok (IVar (VBool false)).
Proof. vm_compute; reflexivity. Qed.
Example ex_neg : fold_un UUnaryMinus (IVar (VInt 5)) = Ok (IVar (VInt (-5))).
Proof. vm_compute; reflexivity. Qed.
Example ex_repeat :
  fold_repeat (IVar (VInt 7)) (IVar (VInt 3)) = Ok (IVar (VArr TInt [VInt 7; VInt 7; VInt 7])).
Proof. vm_compute; reflexivity. Qed.
Example ex_repeat_zero : fold_repeat (IVar (VInt 7)) (IVar (VInt 0)) = Ok (IVar (VArr TInt [])).
Proof. vm_compute; reflexivity. Qed.
Example ex_repeat_neg : fold_repeat lx (IVar (VInt (-1))) = Err E_NegativeLength.
Proof. vm_compute; reflexivity. Qed.
Example ex_repeat_kept : fold_repeat lx (IVar (VInt 3)) = Ok (IArrayRepeat lx (IVar (VInt 3))).
Proof. vm_compute; reflexivity. Qed.

(* `false && 1/0` folds to false: the right operand's error is never reported;
   `true && 1/0` reports it at parse time; dually for || *)
Example ex_and_prunes_error :
  recr 3 [] [] (IBin And (IVar (VBool false)) one_div_zero) = Ok (IVar (VBool false), []).
Proof. vm_compute; reflexivity. Qed.
Example ex_and_reports_error :
  recr 3 [] [] (IBin And (IVar (VBool true)) one_div_zero) = Err E_ZeroDivision.
Proof. vm_compute; reflexivity. Qed.
Example ex_or_prunes_error :
  recr 3 [] [] (IBin Or (IVar (VBool true)) one_div_zero) = Ok (IVar (VBool true), []).
Proof. vm_compute; reflexivity. Qed.
Example ex_or_reports_error :
  recr 3 [] [] (IBin Or (IVar (VBool false)) one_div_zero) = Err E_ZeroDivision.
Proof. vm_compute; reflexivity. Qed.

End C04.

(* C16 — cells under concurrent threads.
   Statements only; every proof is `exact <lemma>` into Lemmas/ConcLemmas.v.

   Model/Conc.v: a thread is a list of atomic steps, each ONE critical section
   as the implementation delimits it ([Rmw c f] = `c op= v` under the write
   lock, [Read c] = `*c`, [Write c v] = `c = v`); a configuration is
   (cells, threads); [run sched cfg] executes the head step of the chosen
   thread for every index of the schedule (picks of finished threads are
   skipped) and returns the final configuration and the trace of lock events.
   All theorems quantify over ALL schedules. *)
From Coq Require Import List ZArith Bool Arith Lia.
Import ListNotations.
From SSL.Model Require Import Conc.
From SSL.Lemmas Require Import ConcLemmas.

(* ---------- cells ---------- *)
Theorem get_upd_same : forall c v m, get c (upd c v m) = v.
Proof. exact ConcLemmas.get_upd_same. Qed.
Theorem get_upd_other : forall c c' v m, c <> c' -> get c' (upd c v m) = get c' m.
Proof. exact ConcLemmas.get_upd_other. Qed.

(* ---------- 1. no lost update ---------- *)
(* T threads of K increments each *)
Theorem rmw_counts : forall c T K sched m m' ths' tr,
  run sched (m, repeat (repeat (incr c) K) T) = ((m', ths'), tr) -> finished ths' ->
  get c m' = (get c m + Z.of_nat T * Z.of_nat K)%Z.
Proof. exact ConcLemmas.rmw_counts. Qed.

(* any mix of `c += d`: the final value is init + the sum of all d *)
Theorem rmw_sum : forall c sched m ths m' ths' tr,
  Forall (Forall (add_only c)) ths ->
  run sched (m, ths) = ((m', ths'), tr) -> finished ths' ->
  get c m' = (get c m + total_delta ths)%Z.
Proof. exact ConcLemmas.rmw_sum. Qed.

(* ... and at every moment: content + what is still pending = init + everything *)
Theorem rmw_sum_inv : forall c sched m ths m' ths' tr,
  Forall (Forall (add_only c)) ths ->
  run sched (m, ths) = ((m', ths'), tr) ->
  (get c m' + total_delta ths' = get c m + total_delta ths)%Z /\ Forall (Forall (add_only c)) ths'.
Proof. exact ConcLemmas.rmw_sum_inv. Qed.

(* ---------- 2. the theorem is about atomicity ---------- *)
(* with the read and the write of an increment in separate sections, the
   schedule load0, load1, store0, store1 loses one update *)
Theorem split_rmw_refuted : forall init,
  exists sched m' ths',
    brun sched ([init], [(0%Z, split_incr 0); (0%Z, split_incr 0)]) = (m', ths') /\
    Forall (fun th => snd th = []) ths' /\
    get 0 m' = (init + 1)%Z /\ get 0 m' <> (init + 2)%Z.
Proof. exact ConcLemmas.split_rmw_refuted. Qed.

Theorem split_rmw_lost : forall init,
  brun [0; 1; 0; 1] ([init], [(0%Z, split_incr 0); (0%Z, split_incr 0)])
  = ([(init + 1)%Z], [(init, []); (init, [])]).
Proof. exact ConcLemmas.split_rmw_lost. Qed.

Theorem split_rmw_sequential : forall init,
  brun [0; 0; 1; 1] ([init], [(0%Z, split_incr 0); (0%Z, split_incr 0)])
  = ([(init + 1 + 1)%Z], [(init, []); ((init + 1)%Z, [])]).
Proof. exact ConcLemmas.split_rmw_sequential. Qed.

Theorem atomic_two : forall init sched m' ths' tr,
  run sched ([init], [[incr 0]; [incr 0]]) = ((m', ths'), tr) -> finished ths' ->
  get 0 m' = (init + 2)%Z.
Proof. exact ConcLemmas.atomic_two. Qed.

(* ---------- 3. no deadlock ---------- *)
(* no hold-and-wait: a step of an unfinished thread is enabled in EVERY
   configuration — nothing waits for a lock held across steps *)
Theorem pick_enabled : forall t m ths s rest,
  nth_error ths t = Some (s :: rest) -> exists cfg' e, pick t (m, ths) = Some (cfg', e).
Proof. exact ConcLemmas.pick_enabled. Qed.

(* a schedule naming each thread at least as often as it has steps finishes
   all threads, after exactly `total steps` effective picks *)
Theorem no_deadlock : forall sched m ths m' ths' tr,
  enough sched ths -> run sched (m, ths) = ((m', ths'), tr) ->
  finished ths' /\ length tr = total_steps ths.
Proof. exact ConcLemmas.no_deadlock. Qed.

(* every pick that is not skipped consumes exactly one step *)
Theorem run_steps : forall sched m ths,
  length (snd (run sched (m, ths))) + total_steps (snd (fst (run sched (m, ths)))) = total_steps ths.
Proof. exact ConcLemmas.run_steps. Qed.

Theorem one_by_one_enough : forall ths, enough (one_by_one 0 ths) ths.
Proof. exact ConcLemmas.one_by_one_enough. Qed.

(* ---------- 4. frame ---------- *)
(* threads with pairwise disjoint footprints: the final cells do not depend on
   the interleaving and are those of running the threads one after the other *)
Theorem disjoint_commute : forall sched m ths m' ths' tr,
  pairwise_disjoint ths -> run sched (m, ths) = ((m', ths'), tr) -> finished ths' ->
  cells_eq m' (mem_after_all ths m).
Proof. exact ConcLemmas.disjoint_commute. Qed.

Theorem disjoint_schedule_independent : forall s1 s2 m ths m1 ths1 tr1 m2 ths2 tr2,
  pairwise_disjoint ths ->
  run s1 (m, ths) = ((m1, ths1), tr1) -> finished ths1 ->
  run s2 (m, ths) = ((m2, ths2), tr2) -> finished ths2 ->
  cells_eq m1 m2.
Proof. exact ConcLemmas.disjoint_schedule_independent. Qed.

Theorem disjoint_commute2 : forall sched m a b m' ths' tr,
  disjoint a b -> run sched (m, [a; b]) = ((m', ths'), tr) -> finished ths' ->
  cells_eq m' (mem_after b (mem_after a m)) /\ cells_eq m' (mem_after a (mem_after b m)).
Proof. exact ConcLemmas.disjoint_commute2. Qed.

(* each thread observes exactly what it observes running alone *)
Theorem frame_reads : forall sched m ths m' ths' tr t,
  pairwise_disjoint ths -> run sched (m, ths) = ((m', ths'), tr) -> finished ths' ->
  proj t tr = seq_trace t (nth t ths []) m.
Proof. exact ConcLemmas.frame_reads. Qed.

(* ---------- 5. linear history ---------- *)
Theorem run_legal : forall sched m ths m' ths' tr,
  run sched (m, ths) = ((m', ths'), tr) -> legal m tr /\ replay m tr = m'.
Proof. exact ConcLemmas.run_legal. Qed.

Theorem reads_see_a_linearised_value : forall sched m ths m' ths' pre t c v post,
  run sched (m, ths) = ((m', ths'), pre ++ EvRead t c v :: post) ->
  v = get c (replay m pre).
Proof. exact ConcLemmas.reads_see_a_linearised_value. Qed.

Theorem rmw_reads_latest : forall sched m ths m' ths' pre t c old new post,
  run sched (m, ths) = ((m', ths'), pre ++ EvRmw t c old new :: post) ->
  old = get c (replay m pre).
Proof. exact ConcLemmas.rmw_reads_latest. Qed.

Theorem reads_in_history : forall sched m ths m' ths' tr t c v,
  run sched (m, ths) = ((m', ths'), tr) -> In (EvRead t c v) tr ->
  exists pre post, tr = pre ++ EvRead t c v :: post /\ v = get c (replay m pre).
Proof. exact ConcLemmas.reads_in_history. Qed.

(* ---------- non-vacuity ---------- *)
Definition ex_ths : list (list step) :=
  [ [incr 0; Read 0; incr 0]; [incr 0; incr 0; Write 1 7%Z]; [Read 1; incr 0] ].

Example ex_run :
  run [2; 0; 1; 1; 0; 2; 1; 0; 0; 5] ([10%Z], ex_ths)
  = (([15%Z; 7%Z], [[]; []; []]),
     [EvRead 2 1 0; EvRmw 0 0 10 11; EvRmw 1 0 11 12; EvRmw 1 0 12 13; EvRead 0 0 13;
      EvRmw 2 0 13 14; EvWrite 1 1 7; EvRmw 0 0 14 15]%Z).
Proof. vm_compute; reflexivity. Qed.

(* another order: other reads, same final counter *)
Example ex_run' :
  run (one_by_one 0 ex_ths) ([10%Z], ex_ths)
  = (([15%Z; 7%Z], [[]; []; []]),
     [EvRmw 0 0 10 11; EvRead 0 0 11; EvRmw 0 0 11 12; EvRmw 1 0 12 13; EvRmw 1 0 13 14;
      EvWrite 1 1 7; EvRead 2 1 7; EvRmw 2 0 14 15]%Z).
Proof. vm_compute; reflexivity. Qed.

(* too short a schedule does not finish — and says so *)
Example ex_unfinished :
  finishedb (snd (fst (run [0; 1; 2] ([10%Z], ex_ths)))) = false.
Proof. vm_compute; reflexivity. Qed.

Example ex_counts :
  fst (fst (run [0; 1; 2; 2; 1; 0; 0; 1; 2; 1] ([100%Z], repeat (repeat (incr 0) 3) 3))) = [109%Z].
Proof. vm_compute; reflexivity. Qed.

(* disjoint footprints: interleaved = sequential *)
Definition ex_a : list step := [Write 0 5%Z; Rmw 0 (Z.mul 2); Read 0].
Definition ex_b : list step := [Rmw 1 (Z.add 3); Read 1; Write 2 9%Z].
Example ex_frame :
  fst (fst (run [1; 0; 1; 0; 0; 1] ([1; 1; 1]%Z, [ex_a; ex_b]))) = mem_after ex_b (mem_after ex_a [1; 1; 1]%Z) /\
  proj 0 (snd (run [1; 0; 1; 0; 0; 1] ([1; 1; 1]%Z, [ex_a; ex_b]))) = seq_trace 0 ex_a [1; 1; 1]%Z /\
  mem_after ex_b (mem_after ex_a [1; 1; 1]%Z) = [10; 4; 9]%Z.
Proof. repeat split; vm_compute; reflexivity. Qed.

(* the disjointness hypothesis is needed *)
Example ex_no_frame :
  fst (fst (run [0; 1] ([0%Z], [[Write 0 1%Z]; [Write 0 2%Z]]))) = [2%Z] /\
  fst (fst (run [1; 0] ([0%Z], [[Write 0 1%Z]; [Write 0 2%Z]]))) = [1%Z].
Proof. split; vm_compute; reflexivity. Qed.

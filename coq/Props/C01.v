(* C01 (layer 2) — operators keep their static types.
   Statements only; every proof is `exact <lemma>` into Lemmas/SoundLemmas.v.

   [has_type v T]   : v inhabits T, by runtime tag AND by contents (Value.v);
   [pure_op o]      : o is one of the 17 value-level binary operators of [op_exec]
                      (+ - * / % ** < <= > >= & | ^ << >> == !=);
   [can_be_used]    : the admissibility test of the checker (Check.v), which for a
                      pure operator is [admissible o] = can_be_used_add / _num / _int /
                      _bit, or nothing for == and != ([admissible_is_can_be_used]);
   [bin_rt]/[un_rt] : the static result type (Rt.v); Panic = an unwrap() on None;
   [doc_error o e]  : e is the documented error of o (ZeroDivision for /, ZeroModulo
                      for %, NegativeExponent for **, OverflowShift for << and >>,
                      none for the others);
   [vwf v]          : hereditarily, the elements of every array inside v inhabit the
                      stored element type of that array — an invariant of every array
                      constructor ([vwf_arr_of], [vwf_array_concat], [vwf_repeat_value]);
                      [elems_typed v] is its top level, which is all indexing needs;
   [never_free T]   : `!` does not occur in T.

   The theorems hold for all types and values, with no bound on nesting.
   The *_refuted theorems record real defects: a guard phrased with [matches]
   lets `!` through (since `!` matches everything) and the query unwrapped next
   answers None; [mut_element_type] is wrong on every union of cell types.
   Since they were found the implementation and the model were repaired for
   `+` ([add_return_type] now `unwrap_or(!)`; the old computation is kept here as
   [add_return_type_unwrap]), for x[i], $, sum/product/collect on `!` (the checker
   now also tests `yt != !`, see [index_guard_repaired]) and for unions of cells
   (Rt/Check now use [mut_element_type_spec]).  [iter_guard_fun_never_refuted]
   (`() -> !` as an iterator) is NOT covered by those repairs. *)
From SSL.Model Require Import Base Ty Float Value Ops Seq Syntax Rt Recreate Check.
From SSL.Lemmas Require Import TyLemmas ValueLemmas SoundLemmas.
Local Open Scope Z_scope.

(* ---------- what the admissibility tests let through ---------- *)
Theorem admissible_is_can_be_used : forall o l r,
  pure_op o = true -> can_be_used o l r = Ok (admissible o l r).
Proof. exact SoundLemmas.admissible_is_can_be_used. Qed.

Theorem can_be_used_int_spec : forall l r,
  can_be_used_int l r = matches l TInt && matches r TInt.
Proof. exact SoundLemmas.can_be_used_int_spec. Qed.
Theorem can_be_used_num_spec : forall l r,
  can_be_used_num l r =
  (matches l TInt && matches r TInt) || (matches l TFloat && matches r TFloat).
Proof. exact SoundLemmas.can_be_used_num_spec. Qed.
Theorem can_be_used_bit_spec : forall l r,
  can_be_used_bit l r =
  (matches l TInt && matches r TInt) || (matches l TBool && matches r TBool).
Proof. exact SoundLemmas.can_be_used_bit_spec. Qed.
Theorem can_be_used_add_spec : forall l r,
  can_be_used_add l r =
  (matches l TInt && matches r TInt) || ((matches l TFloat && matches r TFloat) ||
  ((matches l TString && matches r TString) ||
   (matches l (TArr TAny) && matches r (TArr TAny)))).
Proof. exact SoundLemmas.can_be_used_add_spec. Qed.

(* admissible operand types force the runtime shapes *)
Theorem num_operands : forall v1 v2 T1 T2,
  has_type v1 T1 = true -> has_type v2 T2 = true -> can_be_used_num T1 T2 = true ->
  (exists a b, v1 = VInt a /\ v2 = VInt b) \/ (exists a b, v1 = VFloat a /\ v2 = VFloat b).
Proof. exact SoundLemmas.num_operands_ex. Qed.
Theorem int_operands : forall v1 v2 T1 T2,
  has_type v1 T1 = true -> has_type v2 T2 = true -> can_be_used_int T1 T2 = true ->
  exists a b, v1 = VInt a /\ v2 = VInt b.
Proof. exact SoundLemmas.int_operands_ex. Qed.
Theorem bit_operands : forall v1 v2 T1 T2,
  has_type v1 T1 = true -> has_type v2 T2 = true -> can_be_used_bit T1 T2 = true ->
  (exists a b, v1 = VInt a /\ v2 = VInt b) \/ (exists a b, v1 = VBool a /\ v2 = VBool b).
Proof. exact SoundLemmas.bit_operands_ex. Qed.
Theorem add_operands : forall v1 v2 T1 T2,
  has_type v1 T1 = true -> has_type v2 T2 = true -> can_be_used_add T1 T2 = true ->
  (exists a b, v1 = VInt a /\ v2 = VInt b) \/ (exists a b, v1 = VFloat a /\ v2 = VFloat b) \/
  (exists a b, v1 = VString a /\ v2 = VString b) \/
  (exists t1 l1 t2 l2, v1 = VArr t1 l1 /\ v2 = VArr t2 l2).
Proof. exact SoundLemmas.add_operands_ex. Qed.

Section C01.
Variable powf : fbits -> fbits -> fbits.
Notation op := (op_exec powf).

(* ---------- A1: binary operators ---------- *)
Theorem binop_sound : forall o T1 T2 R v1 v2,
  pure_op o = true ->
  wf_ty T1 = true -> wf_ty T2 = true ->
  has_type v1 T1 = true -> has_type v2 T2 = true ->
  can_be_used o T1 T2 = Ok true ->
  bin_rt o T1 T2 = Ok R ->
  op o v1 v2 <> Panic /\
  op o v1 v2 <> OutOfFuel /\
  (forall v, op o v1 v2 = Ok v -> has_type v R = true) /\
  (forall e, op o v1 v2 = Err e -> doc_error o e).
Proof. exact (SoundLemmas.binop_sound powf). Qed.

(* away from `+` no well-formedness of the types is needed *)
Theorem binop_sound_nowf : forall o T1 T2 R v1 v2,
  pure_op o = true -> o <> Add ->
  has_type v1 T1 = true -> has_type v2 T2 = true ->
  can_be_used o T1 T2 = Ok true ->
  bin_rt o T1 T2 = Ok R ->
  op o v1 v2 <> Panic /\
  op o v1 v2 <> OutOfFuel /\
  (forall v, op o v1 v2 = Ok v -> has_type v R = true) /\
  (forall e, op o v1 v2 = Err e -> doc_error o e).
Proof. exact (SoundLemmas.binop_sound_nowf powf). Qed.

(* with inhabited operand types the static result type exists ... *)
Theorem binop_rt_defined : forall o T1 T2 v1 v2,
  pure_op o = true ->
  wf_ty T1 = true -> wf_ty T2 = true ->
  has_type v1 T1 = true -> has_type v2 T2 = true ->
  can_be_used o T1 T2 = Ok true ->
  exists R, bin_rt o T1 T2 = Ok R.
Proof. exact SoundLemmas.binop_rt_defined. Qed.

(* ... and there both the repaired computation (`unwrap_or(!)`) and the original
   one ([add_return_type_unwrap]: `element_type(rhs).unwrap()`) agree *)
Theorem add_rt_defined : forall v1 v2 T1 T2,
  wf_ty T1 = true -> wf_ty T2 = true ->
  has_type v1 T1 = true -> has_type v2 T2 = true -> can_be_used_add T1 T2 = true ->
  exists R, add_return_type T1 T2 = Ok R /\ add_return_type_unwrap T1 T2 = Ok R.
Proof. exact SoundLemmas.add_rt_defined. Qed.

(* ... but not in general: `[1] + e` with e : ! was accepted and then panicked
   (repaired since in implementation and model) *)
Theorem add_rt_never_refuted :
  can_be_used Add (TArr TInt) TNever = Ok true /\
  add_return_type_unwrap (TArr TInt) TNever = Panic.
Proof. exact SoundLemmas.add_rt_never_refuted. Qed.

Theorem add_rt_total : forall l r, exists R, add_return_type l r = Ok R.
Proof. exact SoundLemmas.add_rt_total. Qed.

(* the array case of `+` on its own *)
Theorem array_concat_typed : forall t1 l1 t2 l2 e1 e2,
  wf_ty e1 = true -> wf_ty e2 = true ->
  has_type (VArr t1 l1) (TArr e1) = true -> has_type (VArr t2 l2) (TArr e2) = true ->
  has_type (array_concat t1 l1 t2 l2) (TArr (concat e1 e2)) = true.
Proof. exact SoundLemmas.array_concat_typed. Qed.

(* ---------- A2: prefix operators ---------- *)
Theorem not_sound : forall T v,
  matches T ACC_NOT = true -> has_type v T = true ->
  exists r, unop_exec UNot v = Ok r /\ has_type r T = true.
Proof. exact SoundLemmas.not_sound. Qed.

Theorem neg_sound : forall T v,
  matches T ACC_NEG = true -> has_type v T = true ->
  exists r, unop_exec UUnaryMinus v = Ok r /\ has_type r T = true.
Proof. exact SoundLemmas.neg_sound. Qed.

Theorem unop_sound : forall u T R v,
  (u = UNot /\ matches T ACC_NOT = true) \/ (u = UUnaryMinus /\ matches T ACC_NEG = true) ->
  has_type v T = true -> un_rt u T = Ok R ->
  exists r, unop_exec u v = Ok r /\ has_type r R = true.
Proof. exact SoundLemmas.unop_sound. Qed.

(* ---------- compound assignment: what Check.assign_ok buys at run time ---------- *)
(* `c o= e` accepted by the checker, c a cell with content type t: applying the
   base operator to ANY content of type t neither panics nor leaves t *)
Theorem compound_assign_sound : forall aop bop L t T2 v cur,
  assign_base aop = Some bop ->
  wf_ty t = true -> wf_ty T2 = true ->
  is_multi L = false ->
  mut_element_type_spec L = Some t ->
  can_be_used aop L T2 = Ok true ->
  has_type v T2 = true -> has_type cur t = true ->
  op bop cur v <> Panic /\
  op bop cur v <> OutOfFuel /\
  (forall r, op bop cur v = Ok r -> has_type r t = true) /\
  (forall e, op bop cur v = Err e -> doc_error bop e).
Proof. exact (SoundLemmas.compound_assign_sound powf). Qed.

Theorem assign_sound : forall L t T2 v,
  is_multi L = false ->
  mut_element_type_spec L = Some t -> can_be_used Assign L T2 = Ok true ->
  has_type v T2 = true -> has_type v t = true.
Proof. exact SoundLemmas.assign_sound. Qed.

End C01.

(* a union target `mut A | mut B` is checked member by member (cells are invariant) *)
Theorem assign_to_union_checks_every_member : forall ms T cbu rtf m,
  assign_ok (TMulti ms) T cbu rtf = Ok true -> In m ms -> assign_ok_single m T cbu rtf = Ok true.
Proof. exact SoundLemmas.assign_ok_multi_member. Qed.

(* ---------- A3: indexing ---------- *)
Theorem at_no_panic : forall T v i,
  can_be_indexed T = true -> has_type v T = true -> has_type i TInt = true ->
  at_exec v i <> Panic /\ at_exec v i <> OutOfFuel /\
  (forall e, at_exec v i = Err e -> e = E_IndexOutOfBounds).
Proof. exact SoundLemmas.at_no_panic. Qed.

Theorem at_sound : forall T R v i x,
  wf_ty T = true -> elems_typed v = true -> has_type v T = true ->
  index_result T = Some R -> at_exec v i = Ok x -> has_type x R = true.
Proof. exact SoundLemmas.at_sound. Qed.

(* everything about x[i] at once: with an inhabited operand type the static
   result type exists and the run-time result inhabits it *)
Theorem at_total : forall T v i,
  wf_ty T = true -> can_be_indexed T = true ->
  elems_typed v = true -> has_type v T = true -> has_type i TInt = true ->
  exists R, bin_rt At T TInt = Ok R /\
    at_exec v i <> Panic /\ at_exec v i <> OutOfFuel /\
    (forall x, at_exec v i = Ok x -> has_type x R = true) /\
    (forall e, at_exec v i = Err e -> e = E_IndexOutOfBounds).
Proof. exact SoundLemmas.at_total. Qed.

(* by contents, no hypothesis on the value at all *)
Theorem at_content_sound : forall T R v i x,
  wf_ty T = true -> has_type v T = true -> index_result T = Some R ->
  at_exec v i = Ok x -> content_in x R = true.
Proof. exact SoundLemmas.at_content_sound. Qed.

(* [wf_val] (contents only) is not enough for the tag half of [at_sound] *)
Theorem at_sound_needs_elems_typed :
  let v := VArr (TArr TInt) [VArr TAny [VInt 1]] in
  wf_val v = true /\ has_type v (TArr (TArr TInt)) = true /\
  at_exec v (VInt 0) = Ok (VArr TAny [VInt 1]) /\
  has_type (VArr TAny [VInt 1]) (TArr TInt) = false /\
  content_in (VArr TAny [VInt 1]) (TArr TInt) = true.
Proof. exact SoundLemmas.at_sound_needs_elems_typed. Qed.

Theorem vwf_elems_typed : forall v, vwf v = true -> elems_typed v = true.
Proof. exact SoundLemmas.vwf_elems_typed. Qed.
Theorem vwf_at : forall v i x, vwf v = true -> at_exec v i = Ok x -> vwf x = true.
Proof. exact SoundLemmas.vwf_at. Qed.
Theorem vwf_arr_of : forall vs,
  forallb vwf vs = true -> forallb (fun x => has_type x (as_type x)) vs = true ->
  vwf (arr_of vs) = true.
Proof. exact SoundLemmas.vwf_arr_of. Qed.
Theorem vwf_array_concat : forall t1 l1 t2 l2,
  vwf (VArr t1 l1) = true -> vwf (VArr t2 l2) = true ->
  vwf (array_concat t1 l1 t2 l2) = true.
Proof. exact SoundLemmas.vwf_array_concat. Qed.
Theorem vwf_repeat_value : forall v n,
  vwf v = true -> has_type v (as_type v) = true -> vwf (repeat_value v n) = true.
Proof. exact SoundLemmas.vwf_repeat_value. Qed.

(* ---------- A3: the guards in front of the unwrapped queries ---------- *)
(* x[i] *)
Theorem index_guard : forall T,
  wf_ty T = true -> can_be_indexed T = true -> T <> TNever -> index_result T <> None.
Proof. exact SoundLemmas.index_guard. Qed.
(* the guard as repaired in the checker: `yt == ! || !can_be_indexed(yt)` rejects *)
Theorem index_guard_repaired : forall T,
  wf_ty T = true -> ty_eqb T TNever || negb (can_be_indexed T) = false ->
  index_result T <> None.
Proof. exact SoundLemmas.index_guard_repaired. Qed.
Theorem index_guard_never_refuted : can_be_indexed TNever = true /\ index_result TNever = None.
Proof. exact SoundLemmas.index_guard_never_refuted. Qed.
Theorem at_rt_never_panics :
  lift_opt_unwrap (index_result TNever) = Panic /\ bin_rt At TNever TInt = Ok TNever.
Proof. exact SoundLemmas.at_rt_never_panics. Qed.

(* element type behind `matches T [any]` ($ on arrays, +) *)
Theorem element_guard : forall T,
  wf_ty T = true -> matches T (TArr TAny) = true -> T <> TNever -> element_type T <> None.
Proof. exact SoundLemmas.element_guard. Qed.
Theorem element_guard_never_refuted :
  matches TNever (TArr TAny) = true /\ element_type TNever = None.
Proof. exact SoundLemmas.element_guard_never_refuted. Qed.
Theorem iter_rt_never_panics :
  lift_opt_unwrap (element_type TNever) = Panic /\ un_rt UIter TNever = Ok (TFun [] (TTup [TBool; TNever])).
Proof. exact SoundLemmas.iter_rt_never_panics. Qed.
Theorem element_type_upper : forall T e,
  wf_ty T = true -> element_type T = Some e -> matches T (TArr e) = true.
Proof. exact SoundLemmas.element_type_upper. Qed.

(* *cell *)
Theorem mut_guard_simple : forall T,
  is_multi T = false -> is_mut T = true -> mut_element_type T <> None.
Proof. exact SoundLemmas.mut_guard_simple. Qed.
Theorem mut_element_type_union_refuted :
  exists T, wf_ty T = true /\ is_mut T = true /\ mut_element_type T = None.
Proof. exact SoundLemmas.mut_element_type_union_refuted. Qed.
(* in fact on EVERY union of cell types *)
Theorem mut_element_type_union_none : forall ms,
  is_mut (TMulti ms) = true -> mut_element_type (TMulti ms) = None.
Proof. exact SoundLemmas.mut_element_type_union_none. Qed.
(* what unwrapping it meant for `*c` and `c = e` on c : mut int | mut float; the
   repaired Rt.un_rt / Check.assign_ok ask [mut_element_type_spec] instead *)
Theorem deref_union_rt_panics :
  is_mut (TMulti [TMut TInt; TMut TFloat]) = true /\
  lift_opt_unwrap (mut_element_type (TMulti [TMut TInt; TMut TFloat])) = Panic /\
  un_rt UIndirection (TMulti [TMut TInt; TMut TFloat]) = Ok (TMulti [TInt; TFloat]) /\
  can_be_used Assign (TMulti [TMut TInt; TMut TFloat]) TInt = Ok false.
Proof. exact SoundLemmas.deref_union_rt_panics. Qed.
(* the intended definition is guarded correctly *)
Theorem mut_guard_spec : forall T,
  wf_ty T = true -> is_mut T = true -> mut_element_type_spec T <> None.
Proof. exact SoundLemmas.mut_guard_spec. Qed.

(* f(...) *)
Theorem fn_guard : forall T,
  wf_ty T = true -> is_function T = true -> fn_return_type T <> None.
Proof. exact SoundLemmas.fn_guard. Qed.

(* x.k *)
Theorem tuple_guard : forall k n T,
  wf_ty T = true -> is_tuple T = true -> min_tuple_len T = Some n -> (k < n)%nat ->
  tuple_element_at k T <> None.
Proof. exact SoundLemmas.tuple_guard. Qed.

(* the checker's own `min_tuple_len(..).unwrap()` behind is_tuple *)
Theorem min_tuple_len_guard : forall T,
  wf_ty T = true -> is_tuple T = true -> min_tuple_len T <> None.
Proof. exact SoundLemmas.min_tuple_len_guard. Qed.

(* x.f *)
Theorem field_guard : forall f T,
  wf_ty T = true -> has_field f T = true -> field_type f T <> None.
Proof. exact SoundLemmas.field_guard. Qed.

(* the structurally phrased guards reject `!`; is_struct (phrased with matches)
   accepts it, but has_field is asked next and rejects it *)
Theorem structural_guards_reject_never :
  is_function TNever = false /\ is_tuple TNever = false /\ is_mut TNever = false /\
  is_struct TNever = true /\ forall f, has_field f TNever = false.
Proof. exact SoundLemmas.structural_guards_reject_never. Qed.

(* iterators *)
Theorem iter_guard : forall T,
  wf_ty T = true -> never_free T = true -> matches T ITERATOR_TYPE = true ->
  iter_element T <> None.
Proof. exact SoundLemmas.iter_guard. Qed.
Theorem sum_guard : forall T,
  wf_ty T = true -> never_free T = true -> matches T ACC_SUM = true -> iter_element T <> None.
Proof. exact SoundLemmas.sum_guard. Qed.
Theorem product_guard : forall T,
  wf_ty T = true -> never_free T = true -> matches T ACC_PRODUCT = true -> iter_element T <> None.
Proof. exact SoundLemmas.product_guard. Qed.
Theorem iter_guard_never_refuted :
  matches TNever ITERATOR_TYPE = true /\ matches TNever ACC_SUM = true /\
  iter_element TNever = None /\
  lift_opt_unwrap (iter_element TNever) = Panic /\
  un_rt UCollect TNever = Ok (TArr TNever) /\ un_rt USum TNever = Ok TNever.
Proof. exact SoundLemmas.iter_guard_never_refuted. Qed.
(* `!` need not be the whole type: `() -> !` is an iterator for matches, and the
   repaired guard `yt != ! && matches(...)` still lets it through: NOT repaired *)
Theorem iter_guard_fun_never_refuted :
  wf_ty (TFun [] TNever) = true /\ ty_eqb (TFun [] TNever) TNever = false /\
  matches (TFun [] TNever) ITERATOR_TYPE = true /\ matches (TFun [] TNever) ACC_SUM = true /\
  iter_element (TFun [] TNever) = None /\
  lift_opt_unwrap (iter_element (TFun [] TNever)) = Panic /\
  un_rt UCollect (TFun [] TNever) = Ok (TArr TNever) /\ un_rt USum (TFun [] TNever) = Ok TNever.
Proof. exact SoundLemmas.iter_guard_fun_never_refuted. Qed.
Theorem iter_guard_tuple_never_refuted :
  matches (TFun [] (TTup [TNever; TInt])) ITERATOR_TYPE = true /\
  iter_element (TFun [] (TTup [TNever; TInt])) = None.
Proof. exact SoundLemmas.iter_guard_tuple_never_refuted. Qed.

(* ---------- A4: construction ---------- *)
Theorem arr_literal_typed : forall vs Ts,
  all2 has_type vs Ts = true ->
  has_type (arr_of vs)
           (TArr (match concat_all Ts with Some t => t | None => TNever end)) = true.
Proof. exact SoundLemmas.arr_literal_typed. Qed.

Theorem arr_of_self_typed : forall vs,
  forallb (fun x => has_type x (as_type x)) vs = true ->
  has_type (arr_of vs) (as_type (arr_of vs)) = true.
Proof. exact SoundLemmas.arr_of_self_typed. Qed.

Theorem tuple_typed : forall vs ts, has_type (VTup vs) (TTup ts) = all2 has_type vs ts.
Proof. exact SoundLemmas.tuple_typed. Qed.

Theorem repeat_typed : forall v T n,
  has_type v T = true -> has_type (repeat_value v n) (TArr T) = true.
Proof. exact SoundLemmas.repeat_typed. Qed.

(* ---------- A5: dispatch by runtime tag ---------- *)
Theorem dispatch_by_tag_sound : forall v T,
  wf_val v = true -> matches (as_type v) T = true -> has_type v T = true.
Proof. exact SoundLemmas.dispatch_by_tag_sound. Qed.
Theorem dispatch_by_tag_complete : forall v T,
  has_type v T = true -> matches (as_type v) T = true.
Proof. exact SoundLemmas.dispatch_by_tag_complete. Qed.

(* ---------- non-vacuity ---------- *)
Definition int_or_string : ty := TMulti [TInt; TString].
Definition arrs : ty := TMulti [TArr TInt; TArr TString].

Example ex_pure_ops :
  map pure_op [Add; Subtract; Multiply; Divide; Modulo; Pow; Greater; GreaterOrEqual; Lower;
               LowerOrEqual; BitwiseAnd; BitwiseOr; Xor; LShift; RShift; Equal; NotEqual]
  = repeat true 17
  /\ map pure_op [And; Or; Filter; Map; At; FunctionCall; Assign; AssignAdd; Partition]
  = repeat false 9.
Proof. split; reflexivity. Qed.

(* unions: each side must fit ONE of the accepted pairs *)
Example ex_admissible :
  can_be_used_num (TMulti [TInt; TFloat]) (TMulti [TInt; TFloat]) = false
  /\ can_be_used_num TNever TFloat = true
  /\ can_be_used_add arrs (TArr TAny) = true
  /\ can_be_used_add int_or_string TInt = false
  /\ can_be_used_bit TBool TInt = false.
Proof. vm_compute. repeat split. Qed.

Section Examples.
Variable powf : fbits -> fbits -> fbits.

(* [1] + ["a"] at static types ([int] | [string]) and [string] *)
Example ex_add_arrays :
  wf_ty arrs = true /\ has_type (VArr TInt [VInt 1]) arrs = true /\
  can_be_used Add arrs (TArr TString) = Ok true /\
  bin_rt Add arrs (TArr TString) = Ok (TArr int_or_string) /\
  op_exec powf Add (VArr TInt [VInt 1]) (VArr TString [VString [97]])
    = Ok (VArr int_or_string [VInt 1; VString [97]]) /\
  has_type (VArr int_or_string [VInt 1; VString [97]]) (TArr int_or_string) = true.
Proof. vm_compute. repeat split. Qed.

(* an empty operand keeps the other one's stored element type: still inside *)
Example ex_add_empty :
  op_exec powf Add (VArr TNever []) (VArr TString [VString [97]])
    = Ok (VArr TString [VString [97]]) /\
  has_type (VArr TString [VString [97]]) (TArr (concat TInt TString)) = true.
Proof. vm_compute. repeat split. Qed.

Example ex_errors :
  op_exec powf Divide (VInt 1) (VInt 0) = Err E_ZeroDivision /\
  op_exec powf Modulo (VInt 1) (VInt 0) = Err E_ZeroModulo /\
  op_exec powf LShift (VInt 1) (VInt 64) = Err E_OverflowShift /\
  doc_error Divide E_ZeroDivision /\ ~ doc_error Divide E_ZeroModulo /\ ~ doc_error Add 0.
Proof. vm_compute. repeat split; intros H; try discriminate H; exact H. Qed.

(* without admissibility the operators do panic *)
Example ex_panic_when_inadmissible :
  op_exec powf Subtract (VInt 1) (VString []) = Panic /\
  can_be_used Subtract TInt TString = Ok false.
Proof. vm_compute. repeat split. Qed.
End Examples.

Example ex_at :
  can_be_indexed (TMulti [TString; TArr TInt]) = true /\
  index_result (TMulti [TString; TArr TInt]) = Some (TMulti [TString; TInt]) /\
  at_exec (VString [97; 98]) (VInt (-1)) = Ok (VString [98]) /\
  at_exec (VArr TInt [VInt 7]) (VInt 0) = Ok (VInt 7) /\
  at_exec (VArr TInt [VInt 7]) (VInt 1) = Err E_IndexOutOfBounds /\
  has_type (VString [98]) (TMulti [TString; TInt]) = true.
Proof. vm_compute. repeat split. Qed.

Example ex_guards :
  tuple_element_at 1 (TMulti [TTup [TInt; TBool]; TTup [TInt; TString; TVoid]])
    = Some (TMulti [TBool; TString]) /\
  min_tuple_len (TMulti [TTup [TInt; TBool]; TTup [TInt; TString; TVoid]]) = Some 2%nat /\
  iter_element (TMulti [TFun [] (TTup [TBool; TInt]); TFun [] (TTup [TBool; TString])])
    = Some (TMulti [TInt; TString]) /\
  mut_element_type_spec (TMulti [TMut TInt; TMut TFloat]) = Some (TMulti [TInt; TFloat]).
Proof. vm_compute. repeat split. Qed.

Example ex_arr_literal :
  arr_of [VInt 1; VString [97]] = VArr int_or_string [VInt 1; VString [97]] /\
  vwf (arr_of [VInt 1; VArr TInt [VInt 2]]) = true /\
  vwf (VArr (TArr TInt) [VArr TAny [VInt 1]]) = false.
Proof. vm_compute. repeat split. Qed.

(* C08 — scalar operators are total and follow the documented arithmetic.
   Statements only; every proof is `exact <lemma>`.  [powf] (libm) is external:
   float `**` is claimed only total and float-typed. *)
From SSL.Model Require Import Base Ty Float Value Ops.
From SSL.Lemmas Require Import OpsLemmas.
From Coq Require Import ZArith.
Local Open Scope Z_scope.

Section C08.
Variable powf : fbits -> fbits -> fbits.
Notation op := (op_exec powf).

Theorem wrap_in_range : forall z, in_i64 (wrap64 z).
Proof. exact wrap64_range. Qed.
Theorem wrap_identity : forall z, in_i64 z -> wrap64 z = z.
Proof. exact wrap64_id. Qed.
Theorem wrap_congruent : forall z, (wrap64 z - z) mod two64 = 0.
Proof. exact wrap64_congr. Qed.

Theorem add_wraps : forall a b, op Add (VInt a) (VInt b) = Ok (VInt (wrap64 (a + b))).
Proof. exact (add_wraps powf). Qed.
Theorem sub_wraps : forall a b, op Subtract (VInt a) (VInt b) = Ok (VInt (wrap64 (a - b))).
Proof. exact (sub_wraps powf). Qed.
Theorem mul_wraps : forall a b, op Multiply (VInt a) (VInt b) = Ok (VInt (wrap64 (a * b))).
Proof. exact (mul_wraps powf). Qed.
Theorem neg_wraps : forall a, unop_exec UUnaryMinus (VInt a) = Ok (VInt (wrap64 (- a))).
Proof. exact neg_wraps. Qed.
Theorem neg_min_is_min : unop_exec UUnaryMinus (VInt MIN_INT) = Ok (VInt MIN_INT).
Proof. exact neg_min. Qed.

Theorem div_by_zero : forall a, op Divide (VInt a) (VInt 0) = Err E_ZeroDivision.
Proof. exact (div_zero powf). Qed.
Theorem div_truncates : forall a b, b <> 0 ->
  op Divide (VInt a) (VInt b) = Ok (VInt (wrap64 (Z.quot a b))).
Proof. exact (div_nonzero powf). Qed.
Theorem div_min_minus_one : op Divide (VInt MIN_INT) (VInt (-1)) = Ok (VInt MIN_INT).
Proof. exact (div_min_m1 powf). Qed.
Theorem rem_by_zero : forall a, op Modulo (VInt a) (VInt 0) = Err E_ZeroModulo.
Proof. exact (mod_zero powf). Qed.
Theorem rem_sign_of_dividend : forall a b, b <> 0 ->
  op Modulo (VInt a) (VInt b) = Ok (VInt (wrap64 (Z.rem a b))).
Proof. exact (mod_nonzero powf). Qed.
Theorem rem_stays_in_range : forall a b, in_i64 a -> in_i64 b -> b <> 0 -> in_i64 (Z.rem a b).
Proof. exact rem_in_range. Qed.
Theorem rem_min_minus_one : op Modulo (VInt MIN_INT) (VInt (-1)) = Ok (VInt 0).
Proof. exact (mod_min_m1 powf). Qed.

Theorem pow_negative_exponent : forall b e, e < 0 -> op Pow (VInt b) (VInt e) = Err E_NegativeExponent.
Proof. exact (pow_neg powf). Qed.

Theorem shl_in_range : forall a s, 0 <= s <= 63 ->
  op LShift (VInt a) (VInt s) = Ok (VInt (wrap64 (a * 2 ^ s))).
Proof. exact (shl_in powf). Qed.
Theorem shr_arithmetic : forall a s, 0 <= s <= 63 ->
  op RShift (VInt a) (VInt s) = Ok (VInt (a / 2 ^ s)).
Proof. exact (shr_in powf). Qed.
Theorem shift_out_of_range : forall a s, ~ (0 <= s <= 63) ->
  op LShift (VInt a) (VInt s) = Err E_OverflowShift /\ op RShift (VInt a) (VInt s) = Err E_OverflowShift.
Proof. exact (shift_out powf). Qed.

Theorem int_comparisons_signed : forall a b,
  op Lower (VInt a) (VInt b) = Ok (VBool (a <? b)) /\
  op LowerOrEqual (VInt a) (VInt b) = Ok (VBool (a <=? b)) /\
  op Greater (VInt a) (VInt b) = Ok (VBool (b <? a)) /\
  op GreaterOrEqual (VInt a) (VInt b) = Ok (VBool (b <=? a)) /\
  op Equal (VInt a) (VInt b) = Ok (VBool (a =? b)) /\
  op NotEqual (VInt a) (VInt b) = Ok (VBool (negb (a =? b))).
Proof. exact (cmp_int powf). Qed.

Theorem bool_operators_logical : forall a b,
  op BitwiseAnd (VBool a) (VBool b) = Ok (VBool (a && b)) /\
  op BitwiseOr (VBool a) (VBool b) = Ok (VBool (a || b)) /\
  op Xor (VBool a) (VBool b) = Ok (VBool (xorb a b)) /\
  unop_exec UNot (VBool a) = Ok (VBool (negb a)).
Proof. exact (bool_ops powf). Qed.

Theorem int_operators_bitwise : forall a b,
  op BitwiseAnd (VInt a) (VInt b) = Ok (VInt (Z.land a b)) /\
  op BitwiseOr (VInt a) (VInt b) = Ok (VInt (Z.lor a b)) /\
  op Xor (VInt a) (VInt b) = Ok (VInt (Z.lxor a b)) /\
  unop_exec UNot (VInt a) = Ok (VInt (Z.lnot a)).
Proof. exact (bit_ops powf). Qed.

Theorem only_documented_errors : forall o a b e, op o (VInt a) (VInt b) = Err e ->
  (o = Divide /\ b = 0 /\ e = E_ZeroDivision) \/
  (o = Modulo /\ b = 0 /\ e = E_ZeroModulo) \/
  (o = Pow /\ b < 0 /\ e = E_NegativeExponent) \/
  ((o = LShift \/ o = RShift) /\ ~ (0 <= b <= 63) /\ e = E_OverflowShift).
Proof. exact (int_errors powf). Qed.

Theorem int_operators_never_panic : forall o a b,
  scalar_binop o = true -> op o (VInt a) (VInt b) <> Panic.
Proof. exact (int_ops_no_panic powf). Qed.

End C08.

(* C07 — evaluation order: operands, elements, fields, arguments are evaluated
   left to right; And/Or short-circuit; only the chosen branch runs.
   Statements only; every proof is `exact <lemma>` into Lemmas/ExecLemmas.v.
   Vocabulary (all defined in Lemmas/ExecLemmas.v):
     E n st sc i        = exec powf pre n st sc i : store * scopes * signal
                          (fuel n, store st, scope layers sc innermost first);
     sig r, scs r, sto r  the signal, scopes and store of a result r;
     nonval s           s is not [SVal _] (Break, Continue, Return, Error, Panic, Fuel);
     ex_list_def ex, with_val_def ex, loop_def ex, match_arms_def ex, call_def ex,
     bin_dispatch ..    standalone copies of the local helpers of [exec], where
                        [ex] = [E n] is the interpreter one fuel unit below; the
                        unfolding equations [exec_S_*] (proved by reflexivity)
                        tie them to [exec];
     runs ex l st sc vs st' sc'   every instruction of l, run left to right from
                        (st, sc), yields a value; the values are vs and the final
                        state is (st', sc').
   SPanic = the implementation would panic; SFuel = the model ran out of fuel. *)
From SSL.Model Require Import Base Ty Float Value Ops Seq Syntax Rt Recreate Exec.
From SSL.Lemmas Require Import ExecLemmas.

Section C07.
Variable powf : fbits -> fbits -> fbits.
Variable pre : prelude.
Notation E := (exec powf pre).

(* ---------- 14. binary operators: left operand, then right, then the operation ----------
   [bin_dispatch powf pre ex fuel op lv rv st sc]: what operator op (not And/Or)
   does once both operands are the values lv, rv. *)
Theorem bin_lhs_signal : forall n st sc op l r st1 sc1 s,
  E n st sc l = (st1, sc1, s) -> nonval s ->
  E (S n) st sc (IBin op l r) = (st1, sc1, s).
Proof. exact (ExecLemmas.bin_lhs_signal powf pre). Qed.

Theorem bin_rhs_signal : forall n st sc op l r st1 sc1 lv st2 sc2 s,
  op <> And -> op <> Or ->
  E n st sc l = (st1, sc1, SVal lv) ->
  E n st1 sc1 r = (st2, sc2, s) -> nonval s ->
  E (S n) st sc (IBin op l r) = (st2, sc2, s).
Proof. exact (ExecLemmas.bin_rhs_signal powf pre). Qed.

Theorem bin_both : forall n st sc op l r st1 sc1 lv st2 sc2 rv,
  op <> And -> op <> Or ->
  E n st sc l = (st1, sc1, SVal lv) ->
  E n st1 sc1 r = (st2, sc2, SVal rv) ->
  E (S n) st sc (IBin op l r) = bin_dispatch powf pre (E n) n op lv rv st2 sc2.
Proof. exact (ExecLemmas.bin_both powf pre). Qed.

Theorem bin_pure : forall n st sc op l r st1 sc1 lv st2 sc2 rv,
  match op with
  | And | Or | At | FunctionCall | Map | Filter | Partition | Assign => False
  | _ => assign_base op = None
  end ->
  E n st sc l = (st1, sc1, SVal lv) ->
  E n st1 sc1 r = (st2, sc2, SVal rv) ->
  E (S n) st sc (IBin op l r) =
  sig_of_outcome (op_exec powf op lv rv) (fun v => (st2, sc2, SVal v)) st2 sc2.
Proof. exact (ExecLemmas.bin_pure powf pre). Qed.

(* ---------- 15. short circuit ---------- *)
Theorem and_short_circuit : forall n st sc l r st1 sc1,
  E n st sc l = (st1, sc1, SVal (VBool false)) ->
  E (S n) st sc (IBin And l r) = (st1, sc1, SVal (VBool false)).
Proof. exact (ExecLemmas.and_short_circuit powf pre). Qed.

Theorem and_true_runs_rhs : forall n st sc l r st1 sc1,
  E n st sc l = (st1, sc1, SVal (VBool true)) ->
  E (S n) st sc (IBin And l r) = E n st1 sc1 r.
Proof. exact (ExecLemmas.and_true_runs_rhs powf pre). Qed.

Theorem or_short_circuit : forall n st sc l r st1 sc1,
  E n st sc l = (st1, sc1, SVal (VBool true)) ->
  E (S n) st sc (IBin Or l r) = (st1, sc1, SVal (VBool true)).
Proof. exact (ExecLemmas.or_short_circuit powf pre). Qed.

Theorem or_false_runs_rhs : forall n st sc l r st1 sc1,
  E n st sc l = (st1, sc1, SVal (VBool false)) ->
  E (S n) st sc (IBin Or l r) = E n st1 sc1 r.
Proof. exact (ExecLemmas.or_false_runs_rhs powf pre). Qed.

Theorem and_or_non_bool_panics : forall n st sc op l r st1 sc1 v,
  op = And \/ op = Or ->
  E n st sc l = (st1, sc1, SVal v) -> (forall b, v <> VBool b) ->
  E (S n) st sc (IBin op l r) = (st1, sc1, SPanic).
Proof. exact (ExecLemmas.and_or_non_bool_panics powf pre). Qed.

(* ---------- 16. element lists, struct fields, slices, repeat, reduce ---------- *)
Theorem list_left_to_right : forall n x l st sc,
  ex_list_def (E n) (x :: l) st sc =
  match E n st sc x with
  | (st1, sc1, SVal v) =>
      match ex_list_def (E n) l st1 sc1 with
      | (st2, sc2, Ok vs, s) => (st2, sc2, Ok (v :: vs), s)
      | r => r
      end
  | (st1, sc1, s) => (st1, sc1, Panic, s)
  end.
Proof. exact (ExecLemmas.list_left_to_right powf pre). Qed.

Theorem list_stops_at_first_signal : forall n l1 x l2 st sc vs st1 sc1 st2 sc2 s,
  runs (E n) l1 st sc vs st1 sc1 ->
  E n st1 sc1 x = (st2, sc2, s) -> nonval s ->
  ex_list_def (E n) (l1 ++ x :: l2) st sc = (st2, sc2, Panic, s).
Proof. exact (fun n => ExecLemmas.ex_list_stops_at_first_signal (E n)). Qed.

Theorem tuple_values : forall n st sc es vs st' sc',
  runs (E n) es st sc vs st' sc' ->
  E (S n) st sc (ITuple es) = (st', sc', SVal (VTup vs)).
Proof. exact (ExecLemmas.tuple_values powf pre). Qed.

Theorem tuple_stops_at_first_signal : forall n st sc l1 x l2 vs st1 sc1 st2 sc2 s,
  runs (E n) l1 st sc vs st1 sc1 ->
  E n st1 sc1 x = (st2, sc2, s) -> nonval s ->
  E (S n) st sc (ITuple (l1 ++ x :: l2)) = (st2, sc2, s).
Proof. exact (ExecLemmas.tuple_stops_at_first_signal powf pre). Qed.

Theorem array_values : forall n st sc es et vs st' sc',
  runs (E n) es st sc vs st' sc' ->
  E (S n) st sc (IArray es et) = (st', sc', SVal (arr_of vs)).
Proof. exact (ExecLemmas.array_values powf pre). Qed.

Theorem array_stops_at_first_signal : forall n st sc et l1 x l2 vs st1 sc1 st2 sc2 s,
  runs (E n) l1 st sc vs st1 sc1 ->
  E n st1 sc1 x = (st2, sc2, s) -> nonval s ->
  E (S n) st sc (IArray (l1 ++ x :: l2) et) = (st2, sc2, s).
Proof. exact (ExecLemmas.array_stops_at_first_signal powf pre). Qed.

(* [struct_fold kvs acc] inserts the pairs kvs in list order (a later duplicate key replaces
   an earlier one) *)
Theorem struct_fields_in_order : forall n st sc fs vs st' sc',
  runs (E n) (map snd fs) st sc vs st' sc' ->
  E (S n) st sc (IStruct fs) = (st', sc', SVal (VStruct (struct_fold (combine (map fst fs) vs) []))).
Proof. exact (ExecLemmas.struct_fields_in_order powf pre). Qed.

Theorem struct_stops_at_first_signal : forall n st sc fs1 k x fs2 vs st1 sc1 st2 sc2 s,
  runs (E n) (map snd fs1) st sc vs st1 sc1 ->
  E n st1 sc1 x = (st2, sc2, s) -> nonval s ->
  E (S n) st sc (IStruct (fs1 ++ (k, x) :: fs2)) = (st2, sc2, s).
Proof. exact (ExecLemmas.struct_stops_at_first_signal powf pre). Qed.

(* [opt_runs ex o st sc ov st' sc']: the optional bound o is absent (ov = None, state
   unchanged) or evaluates to an integer (ov = Some (VInt z)) *)
Theorem slicing_order : forall n st sc l a b c st1 sc1 lv av st2 sc2 bv st3 sc3 cv st4 sc4,
  E n st sc l = (st1, sc1, SVal lv) ->
  opt_runs (E n) a st1 sc1 av st2 sc2 ->
  opt_runs (E n) b st2 sc2 bv st3 sc3 ->
  opt_runs (E n) c st3 sc3 cv st4 sc4 ->
  E (S n) st sc (ISlicing l a b c) =
  sig_of_outcome (slice_exec lv av bv cv) (fun r => (st4, sc4, SVal r)) st4 sc4.
Proof. exact (ExecLemmas.slicing_order powf pre). Qed.

Theorem slicing_l_signal : forall n st sc l a b c st1 sc1 s,
  E n st sc l = (st1, sc1, s) -> nonval s ->
  E (S n) st sc (ISlicing l a b c) = (st1, sc1, s).
Proof. exact (ExecLemmas.slicing_l_signal powf pre). Qed.

Theorem slicing_a_signal : forall n st sc l a b c st1 sc1 lv st2 sc2 s,
  E n st sc l = (st1, sc1, SVal lv) ->
  E n st1 sc1 a = (st2, sc2, s) -> nonval s ->
  E (S n) st sc (ISlicing l (Some a) b c) = (st2, sc2, s).
Proof. exact (ExecLemmas.slicing_a_signal powf pre). Qed.

Theorem slicing_b_signal : forall n st sc l a b c st1 sc1 lv av st2 sc2 st3 sc3 s,
  E n st sc l = (st1, sc1, SVal lv) ->
  opt_runs (E n) a st1 sc1 av st2 sc2 ->
  E n st2 sc2 b = (st3, sc3, s) -> nonval s ->
  E (S n) st sc (ISlicing l a (Some b) c) = (st3, sc3, s).
Proof. exact (ExecLemmas.slicing_b_signal powf pre). Qed.

Theorem slicing_c_signal : forall n st sc l a b c st1 sc1 lv av st2 sc2 bv st3 sc3 st4 sc4 s,
  E n st sc l = (st1, sc1, SVal lv) ->
  opt_runs (E n) a st1 sc1 av st2 sc2 ->
  opt_runs (E n) b st2 sc2 bv st3 sc3 ->
  E n st3 sc3 c = (st4, sc4, s) -> nonval s ->
  E (S n) st sc (ISlicing l a b (Some c)) = (st4, sc4, s).
Proof. exact (ExecLemmas.slicing_c_signal powf pre). Qed.

Theorem arrayrepeat_value_then_length : forall n st sc v len st1 sc1 x st2 sc2 k,
  E n st sc v = (st1, sc1, SVal x) ->
  E n st1 sc1 len = (st2, sc2, SVal (VInt k)) ->
  E (S n) st sc (IArrayRepeat v len) =
  if (k <? 0)%Z then (st2, sc2, SError E_NegativeLength) else (st2, sc2, SVal (repeat_value x k)).
Proof. exact (ExecLemmas.arrayrepeat_value_then_length powf pre). Qed.

Theorem arrayrepeat_value_signal : forall n st sc v len st1 sc1 s,
  E n st sc v = (st1, sc1, s) -> nonval s ->
  E (S n) st sc (IArrayRepeat v len) = (st1, sc1, s).
Proof. exact (ExecLemmas.arrayrepeat_value_signal powf pre). Qed.

Theorem arrayrepeat_length_signal : forall n st sc v len st1 sc1 x st2 sc2 s,
  E n st sc v = (st1, sc1, SVal x) ->
  E n st1 sc1 len = (st2, sc2, s) -> nonval s ->
  E (S n) st sc (IArrayRepeat v len) = (st2, sc2, s).
Proof. exact (ExecLemmas.arrayrepeat_length_signal powf pre). Qed.

Theorem reduce_order : forall n st sc it init f st1 sc1 itv st2 sc2 initv st3 sc3 fv,
  E n st sc it = (st1, sc1, SVal itv) ->
  E n st1 sc1 init = (st2, sc2, SVal initv) ->
  E n st2 sc2 f = (st3, sc3, SVal fv) ->
  E (S n) st sc (IReduce it init f) =
  match itv, fv with
  | VFun _ _ _, VFun _ _ _ => reduce_def (E n) itv fv n st3 sc3 initv
  | _, _ => (st3, sc3, SPanic)
  end.
Proof. exact (ExecLemmas.reduce_order powf pre). Qed.

Theorem reduce_it_signal : forall n st sc it init f st1 sc1 s,
  E n st sc it = (st1, sc1, s) -> nonval s ->
  E (S n) st sc (IReduce it init f) = (st1, sc1, s).
Proof. exact (ExecLemmas.reduce_it_signal powf pre). Qed.

Theorem reduce_init_signal : forall n st sc it init f st1 sc1 itv st2 sc2 s,
  E n st sc it = (st1, sc1, SVal itv) ->
  E n st1 sc1 init = (st2, sc2, s) -> nonval s ->
  E (S n) st sc (IReduce it init f) = (st2, sc2, s).
Proof. exact (ExecLemmas.reduce_init_signal powf pre). Qed.

Theorem reduce_f_signal : forall n st sc it init f st1 sc1 itv st2 sc2 initv st3 sc3 s,
  E n st sc it = (st1, sc1, SVal itv) ->
  E n st1 sc1 init = (st2, sc2, SVal initv) ->
  E n st2 sc2 f = (st3, sc3, s) -> nonval s ->
  E (S n) st sc (IReduce it init f) = (st3, sc3, s).
Proof. exact (ExecLemmas.reduce_f_signal powf pre). Qed.

(* ---------- 17. calls and assignments ---------- *)
Theorem call_function_then_args : forall n st sc f args st1 sc1 fv vs st2 sc2,
  E (S n) st sc f = (st1, sc1, SVal fv) ->
  runs (E n) args st1 sc1 vs st2 sc2 ->
  E (S (S n)) st sc (IBin FunctionCall f (ITuple args)) = call_v_def (E (S n)) fv vs st2 sc2.
Proof. exact (ExecLemmas.call_function_then_args powf pre). Qed.

Theorem call_function_signal : forall n st sc f a st1 sc1 s,
  E n st sc f = (st1, sc1, s) -> nonval s ->
  E (S n) st sc (IBin FunctionCall f a) = (st1, sc1, s).
Proof. exact (ExecLemmas.call_function_signal powf pre). Qed.

Theorem call_argument_signal : forall n st sc f l1 x l2 st1 sc1 fv vs st2 sc2 st3 sc3 s,
  E (S n) st sc f = (st1, sc1, SVal fv) ->
  runs (E n) l1 st1 sc1 vs st2 sc2 ->
  E n st2 sc2 x = (st3, sc3, s) -> nonval s ->
  E (S (S n)) st sc (IBin FunctionCall f (ITuple (l1 ++ x :: l2))) = (st3, sc3, s).
Proof. exact (ExecLemmas.call_argument_signal powf pre). Qed.

Theorem assign_target_then_value : forall n st sc l r st1 sc1 loc t st2 sc2 rv cur,
  E n st sc l = (st1, sc1, SVal (VMut loc t)) ->
  E n st1 sc1 r = (st2, sc2, SVal rv) ->
  nth_error (s_cells st2) loc = Some cur ->
  E (S n) st sc (IBin Assign l r) = (write_cell st2 loc rv, sc2, SVal rv).
Proof. exact (ExecLemmas.assign_target_then_value powf pre). Qed.

Theorem opassign_reads_after_rhs : forall n st sc op bop l r st1 sc1 loc t st2 sc2 rv cur,
  assign_base op = Some bop ->
  E n st sc l = (st1, sc1, SVal (VMut loc t)) ->
  E n st1 sc1 r = (st2, sc2, SVal rv) ->
  nth_error (s_cells st2) loc = Some cur ->
  E (S n) st sc (IBin op l r) =
  sig_of_outcome (op_exec powf bop cur rv) (fun v => (write_cell st2 loc v, sc2, SVal v)) st2 sc2.
Proof. exact (ExecLemmas.opassign_reads_after_rhs powf pre). Qed.

Theorem assign_non_cell_panics : forall n st sc l r st1 sc1 lv st2 sc2 rv,
  E n st sc l = (st1, sc1, SVal lv) -> (forall loc t, lv <> VMut loc t) ->
  E n st1 sc1 r = (st2, sc2, SVal rv) ->
  E (S n) st sc (IBin Assign l r) = (st2, sc2, SPanic).
Proof. exact (ExecLemmas.assign_non_cell_panics powf pre). Qed.

(* ---------- 18. only the chosen branch runs ---------- *)
Theorem if_true_store : forall n st sc c t f st1 sc1,
  E n st sc c = (st1, sc1, SVal (VBool true)) ->
  sto (E (S n) st sc (IIfElse c t f)) = sto (E n st1 sc1 t).
Proof. exact (ExecLemmas.if_true_store powf pre). Qed.

Theorem if_false_store : forall n st sc c t f st1 sc1,
  E n st sc c = (st1, sc1, SVal (VBool false)) ->
  sto (E (S n) st sc (IIfElse c t f)) = sto (E n st1 sc1 f).
Proof. exact (ExecLemmas.if_false_store powf pre). Qed.

Theorem if_true_ignores_else : forall n st sc c t f f' st1 sc1,
  E n st sc c = (st1, sc1, SVal (VBool true)) ->
  E (S n) st sc (IIfElse c t f) = E (S n) st sc (IIfElse c t f').
Proof. exact (ExecLemmas.if_true_ignores_else powf pre). Qed.

Theorem if_false_ignores_then : forall n st sc c t t' f st1 sc1,
  E n st sc c = (st1, sc1, SVal (VBool false)) ->
  E (S n) st sc (IIfElse c t f) = E (S n) st sc (IIfElse c t' f).
Proof. exact (ExecLemmas.if_false_ignores_then powf pre). Qed.

Theorem and_false_ignores_rhs : forall n st sc l r r' st1 sc1,
  E n st sc l = (st1, sc1, SVal (VBool false)) ->
  E (S n) st sc (IBin And l r) = E (S n) st sc (IBin And l r').
Proof. exact (ExecLemmas.and_false_ignores_rhs powf pre). Qed.

Theorem or_true_ignores_rhs : forall n st sc l r r' st1 sc1,
  E n st sc l = (st1, sc1, SVal (VBool true)) ->
  E (S n) st sc (IBin Or l r) = E (S n) st sc (IBin Or l r').
Proof. exact (ExecLemmas.or_true_ignores_rhs powf pre). Qed.

Theorem match_selected_ignores_rest : forall n st sc x nm t b rest rest' st1 sc1 v,
  E n st sc x = (st1, sc1, SVal v) -> matches (as_type v) t = true ->
  E (S n) st sc (IMatch x (ArmType nm t b :: rest)) = E (S n) st sc (IMatch x (ArmType nm t b :: rest')).
Proof. exact (ExecLemmas.match_selected_ignores_rest powf pre). Qed.

Theorem ifset_match_ignores_else : forall n st sc nm t x ifm els els' st1 sc1 v,
  E n st sc x = (st1, sc1, SVal v) -> matches (as_type v) t = true ->
  E (S n) st sc (ISetIfElse nm t x ifm els) = E (S n) st sc (ISetIfElse nm t x ifm els').
Proof. exact (ExecLemmas.ifset_match_ignores_else powf pre). Qed.

Theorem ifset_else_ignores_match : forall n st sc nm t x ifm ifm' els st1 sc1 v,
  E n st sc x = (st1, sc1, SVal v) -> matches (as_type v) t = false ->
  E (S n) st sc (ISetIfElse nm t x ifm els) = E (S n) st sc (ISetIfElse nm t x ifm' els).
Proof. exact (ExecLemmas.ifset_else_ignores_match powf pre). Qed.

End C07.


(* ---------------------------------------------------------------- examples *)
Definition powf0 : fbits -> fbits -> fbits := fun _ _ => CANON_NAN.
Definition pre0 : prelude := mkPrelude 0 0 0 0 0 0 0 0.
Definition st0 : store := mkStore [] [] [].
Definition X0 := exec powf0 pre0 50.
Definition nx : name := [120%Z].       (* "x" *)
Definition ny : name := [121%Z].       (* "y" *)
Definition tcell := LOther (TMut TInt).

Definition st1c : store := mkStore [] [VInt 1] [].
Definition cell0 : instr := IVar (VMut 0 TInt).
(* false && (cell = 7) == 7   — the store is untouched *)
Example and_false_leaves_store :
  X0 st1c [[]] (IBin And (IVar (VBool false)) (IBin Equal (IBin Assign cell0 (IVar (VInt 7))) (IVar (VInt 7))))
  = (st1c, [[]], SVal (VBool false)).
Proof. vm_compute. reflexivity. Qed.
Example and_true_runs_rhs_store :
  s_cells (sto (X0 st1c [[]] (IBin And (IVar (VBool true))
                  (IBin Equal (IBin Assign cell0 (IVar (VInt 7))) (IVar (VInt 7)))))) = [VInt 7].
Proof. vm_compute. reflexivity. Qed.
Example or_true_leaves_store :
  X0 st1c [[]] (IBin Or (IVar (VBool true)) (IBin Equal (IBin Assign cell0 (IVar (VInt 7))) (IVar (VInt 7))))
  = (st1c, [[]], SVal (VBool true)).
Proof. vm_compute. reflexivity. Qed.

(* [ !c, c = 5, !c ] (with !c the content of c)  ==> (1, 5, 5): elements left to right *)
Example tuple_left_to_right :
  sig (X0 st1c [[]] (ITuple [IUn UIndirection cell0; IBin Assign cell0 (IVar (VInt 5)); IUn UIndirection cell0]))
  = SVal (VTup [VInt 1; VInt 5; VInt 5]).
Proof. vm_compute. reflexivity. Qed.
(* !c - (c = 5)  ==> 1 - 5: the left operand is read before the right one writes *)
Example subtract_left_first :
  sig (X0 st1c [[]] (IBin Subtract (IUn UIndirection cell0) (IBin Assign cell0 (IVar (VInt 5))))) = SVal (VInt (-4)).
Proof. vm_compute. reflexivity. Qed.
(* c += (c = 5)  ==> 10: the cell is read after the right operand ran *)
Example opassign_reads_late :
  sig (X0 st1c [[]] (IBin AssignAdd cell0 (IBin Assign cell0 (IVar (VInt 5))))) = SVal (VInt 10).
Proof. vm_compute. reflexivity. Qed.
(* if true { c = 2 } else { c = 3 }: only the chosen branch writes *)
Example if_runs_one_branch :
  s_log (sto (X0 st1c [[]] (IIfElse (IVar (VBool true)) (IBin Assign cell0 (IVar (VInt 2)))
                                                     (IBin Assign cell0 (IVar (VInt 3))))))
  = [EvWrite 0 (VInt 2)].
Proof. vm_compute. reflexivity. Qed.
(* a signal in the first element stops the list: the second element does not run *)
Example list_stops :
  s_log (sto (X0 st1c [[]] (ITuple [IUn UReturn (IVar (VInt 0)); IBin Assign cell0 (IVar (VInt 2))]))) = [].
Proof. vm_compute. reflexivity. Qed.

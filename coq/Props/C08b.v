(* C08b — scalar operators, second part: integer `**` is exact modular exponentiation,
   `/` and `%` are exact away from MIN_INT / -1, every int operator stays inside i64,
   and the float operators are Flocq's IEEE-754 binary64 operations (round to nearest
   even).  Statements only; every proof is `exact <lemma>`. *)
From SSL.Model Require Import Base Ty Float Value Ops.
From SSL.Lemmas Require Import OpsLemmas OpsLemmas2.
From Coq Require Import ZArith Reals.
From Flocq Require Import Core.Core IEEE754.Binary IEEE754.Bits.
Local Open Scope Z_scope.

(* ---- wrap64 as a congruence ---- *)
Theorem wrap_equal_iff_congruent : forall x y, wrap64 x = wrap64 y <-> (x - y) mod two64 = 0.
Proof. exact wrap64_eq_iff. Qed.
Theorem wrap_idempotent : forall x, wrap64 (wrap64 x) = wrap64 x.
Proof. exact wrap64_idem. Qed.
Theorem wrap_mul_left : forall x y, wrap64 (wrap64 x * y) = wrap64 (x * y).
Proof. exact wrap64_mul_l. Qed.
Theorem wrap_mul_right : forall x y, wrap64 (x * wrap64 y) = wrap64 (x * y).
Proof. exact wrap64_mul_r. Qed.

(* ---- the exponentiation loop ---- *)
Theorem wrapping_pow_loop_exact : forall b e, 0 <= e < two64 ->
  rs_wrapping_pow_u64 b e = wrap64 (b ^ e).
Proof. exact wrapping_pow_u64_spec. Qed.

(* what was refuted: truncating the exponent to u32 is not exponentiation *)
Theorem pow_u32trunc_refuted :
  exists b e, 0 <= e /\ in_i64 b /\ in_i64 e /\ rs_wrapping_pow_u32trunc b e <> wrap64 (b ^ e).
Proof. exact pow_u32trunc_refuted. Qed.

(* ---- ranges ---- *)
Theorem quot_in_range : forall a b,
  in_i64 a -> in_i64 b -> b <> 0 -> ~ (a = MIN_INT /\ b = -1) -> in_i64 (Z.quot a b).
Proof. exact quot_in_range. Qed.
Theorem bit_range : forall a b, in_i64 a -> in_i64 b ->
  in_i64 (Z.land a b) /\ in_i64 (Z.lor a b) /\ in_i64 (Z.lxor a b).
Proof. exact bit_range. Qed.
Theorem lnot_range : forall a, in_i64 a -> in_i64 (Z.lnot a).
Proof. exact lnot_range. Qed.
Theorem shr_range : forall a s, in_i64 a -> 0 <= s -> in_i64 (a / 2 ^ s).
Proof. exact shr_range. Qed.

Section C08b.
Variable powf : fbits -> fbits -> fbits.
Notation op := (op_exec powf).

Theorem pow_spec : forall b e, 0 <= e -> in_i64 e ->
  op Pow (VInt b) (VInt e) = Ok (VInt (wrap64 (b ^ e))).
Proof. exact (pow_spec powf). Qed.
Theorem pow_zero_exp : forall b, op Pow (VInt b) (VInt 0) = Ok (VInt 1).
Proof. exact (pow_zero_exp powf). Qed.

Theorem div_exact : forall a b,
  in_i64 a -> in_i64 b -> b <> 0 -> ~ (a = MIN_INT /\ b = -1) ->
  op Divide (VInt a) (VInt b) = Ok (VInt (Z.quot a b)).
Proof. exact (div_exact powf). Qed.
Theorem rem_exact : forall a b, in_i64 a -> in_i64 b -> b <> 0 ->
  op Modulo (VInt a) (VInt b) = Ok (VInt (Z.rem a b)).
Proof. exact (rem_exact powf). Qed.

Theorem results_in_range : forall o a b r,
  scalar_binop o = true -> in_i64 a -> in_i64 b ->
  op o (VInt a) (VInt b) = Ok (VInt r) -> in_i64 r.
Proof. exact (results_in_range powf). Qed.
Theorem unop_results_in_range : forall u a r,
  in_i64 a -> unop_exec u (VInt a) = Ok (VInt r) -> in_i64 r.
Proof. exact unop_results_in_range. Qed.

End C08b.

(* ---- floats (no reference to powf) ---- *)
(* the real number denoted by a bit pattern (0 for infinities and NaN), finiteness, sign *)
Notation real x := (Binary.B2R 53 1024 (f_of_bits x)).
Notation finite x := (Binary.is_finite 53 1024 (f_of_bits x)).
Notation sign x := (Binary.Bsign 53 1024 (f_of_bits x)).
(* IEEE-754 binary64 rounding to nearest, ties to even *)
Notation RN r := (round radix2 (FLT_exp (-1074) 53) ZnearestE r).
Notation OVERFLOW_BOUND := (bpow radix2 1024).

Theorem float_results_are_bit_patterns : forall x y,
  0 <= fadd x y < two64 /\ 0 <= fsub x y < two64 /\ 0 <= fmul x y < two64 /\
  0 <= fdiv x y < two64 /\ 0 <= fneg x < two64 /\ 0 <= fcanon x < two64.
Proof. exact float_results_valid. Qed.
Theorem canonicalisation_fixes_non_nan : forall x,
  0 <= x < two64 -> f_is_nan x = false -> fcanon x = x.
Proof. exact bits_of_f_of_bits. Qed.

Theorem fadd_correctly_rounded : forall x y,
  finite x = true -> finite y = true ->
  (Rabs (RN (real x + real y)) < OVERFLOW_BOUND)%R ->
  real (fadd x y) = RN (real x + real y) /\ finite (fadd x y) = true.
Proof. exact fadd_correct. Qed.
Theorem fsub_correctly_rounded : forall x y,
  finite x = true -> finite y = true ->
  (Rabs (RN (real x - real y)) < OVERFLOW_BOUND)%R ->
  real (fsub x y) = RN (real x - real y) /\ finite (fsub x y) = true.
Proof. exact fsub_correct. Qed.
Theorem fmul_correctly_rounded : forall x y,
  (Rabs (RN (real x * real y)) < OVERFLOW_BOUND)%R ->
  real (fmul x y) = RN (real x * real y) /\ finite (fmul x y) = finite x && finite y.
Proof. exact fmul_correct. Qed.
Theorem fdiv_correctly_rounded : forall x y,
  real y <> 0%R ->
  (Rabs (RN (real x / real y)) < OVERFLOW_BOUND)%R ->
  real (fdiv x y) = RN (real x / real y) /\ finite (fdiv x y) = finite x.
Proof. exact fdiv_correct. Qed.

Theorem fneg_flips_sign : forall x,
  real (fneg x) = (- real x)%R /\ finite (fneg x) = finite x /\
  (f_is_nan x = false -> sign (fneg x) = negb (sign x)) /\
  (f_is_nan x = true -> fneg x = CANON_NAN).
Proof. exact fneg_correct. Qed.

Theorem float_comparisons_are_real_comparisons : forall x y,
  finite x = true -> finite y = true ->
  (feq x y = true <-> real x = real y) /\
  (flt x y = true <-> (real x < real y)%R) /\
  (fle x y = true <-> (real x <= real y)%R) /\
  (fgt x y = true <-> (real x > real y)%R) /\
  (fge x y = true <-> (real x >= real y)%R).
Proof. exact fcmp_real. Qed.

Theorem feq_implies_not_nan : forall x y,
  feq x y = true -> f_is_nan x = false /\ f_is_nan y = false.
Proof. exact feq_not_nan. Qed.
Theorem nan_not_equal_to_itself : forall x, f_is_nan x = true -> feq x x = false.
Proof. exact feq_nan_irrefl. Qed.
Theorem nan_comparisons_all_false : forall x y, f_is_nan x = true \/ f_is_nan y = true ->
  feq x y = false /\ flt x y = false /\ fle x y = false /\ fgt x y = false /\ fge x y = false.
Proof. exact nan_compares_false. Qed.
Theorem zero_equals_negative_zero : feq F_ZERO (fneg F_ZERO) = true.
Proof. exact feq_zero_negzero. Qed.

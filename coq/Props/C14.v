(* C14 — operator precedence and associativity follow the documented table; multi-character
   operators are never split.

   Model: Model/Pratt.v — pest's Pratt parser (expr / nud / led / lbp), generic in the payloads
   of atoms and operator tokens and in the table [info : O -> option (affix * nat)]; the table
   the code builds is [the_table] = table_of_levels GenPratt.pratt_levels (regenerated from
   parser/src/lib.rs), the documented one is GenDocPrec.doc_levels (regenerated from
   docs/operators.md), the grammar's choices, token literals and the operator maps are in
   GenOpMap (regenerated from parser/src/simplesl.pest and src/).
   Proofs: Lemmas/PrattLemmas.v (the algorithm, unbounded, by induction) and
   Lemmas/PrattTables.v (the finite facts, by computation over the explicit operator lists);
   every theorem below is [exact lemma].

   A. the algorithm, for ANY table and token lists of ANY length (prefix, infix, postfix):
        pratt_shape, pratt_complete, shape_unique, pratt_total, pratt_accepts_only_wf,
        pratt_never_out_of_fuel, pratt_run_consumes_all, wf_root_right_prec, wf_root_left_prec,
        left_first_* (what the parser does with two adjacent operators)
   B. the code's table is the documented table:  table_is_doc (+ doc_grouping_* which state it
      on the parser's result), doc_domain, doc_assoc_cells, pratt_covers_grammar,
      table_of_levels_pos / the_table_pos, prec_step_is_model, op_names_shared
   C. associativity and the order of the levels:  levels_left_assoc_except_assign
   D. operator maps:  opmap_total_injective, doc_spellings
   E. tokens:  tokens_not_split, split_pairs_ordered, split_pairs_complete,
      prefix_and_after_disjoint, fusions_listed *)
From SSL.Model Require Import Base Pratt.
From SSL.Lemmas Require Import PrattLemmas PrattTables.
From SSL.Gen Require GenPratt GenDocPrec GenOpMap.
Import GenOpMap GenDocPrec.
From Coq Require Import NArith List.
Import ListNotations.

(* ============================== A. the algorithm ============================== *)
Section Algorithm.
Variables A O : Type.
Variable info : O -> option (affix * nat).

(* the parser's result has the input as its in-order yield and is precedence-correct:
   at every infix node no operator on the right edge of the left operand would have given up
   its operand (rbp >= the node's precedence) and every operator on the left edge of the right
   operand binds tighter than the node holds (precedence > the node's rbp); likewise under
   prefix and postfix nodes.  rbp = prec for left-associative infix, prec - 1 for
   right-associative infix and for prefix operators. *)
Theorem pratt_shape : forall (toks : list (tok A O)) t,
  pratt_parse info toks = Some t -> yield t = toks /\ wf_tree info t.
Proof. exact (PrattLemmas.pratt_shape A O info). Qed.

(* conversely every precedence-correct tree is the parser's result on its yield ... *)
Theorem pratt_complete : info_pos info ->
  forall t : ptree A O, wf_tree info t -> pratt_parse info (yield t) = Some t.
Proof. exact (PrattLemmas.pratt_complete A O info). Qed.

(* ... so the two facts determine the tree *)
Theorem shape_unique : info_pos info ->
  forall t1 t2 : ptree A O, yield t1 = yield t2 -> wf_tree info t1 -> wf_tree info t2 -> t1 = t2.
Proof. exact (PrattLemmas.shape_unique A O info). Qed.

(* on well-formed token lists — OPERAND (infix OPERAND)*, OPERAND = prefix* atom postfix* —
   the parser answers; and it answers on nothing else *)
Theorem pratt_total : info_pos info ->
  forall toks : list (tok A O), wf_toks info toks = true -> exists t, pratt_parse info toks = Some t.
Proof. exact (PrattLemmas.pratt_total A O info). Qed.

Theorem pratt_accepts_only_wf : forall (toks : list (tok A O)) t,
  pratt_parse info toks = Some t -> wf_toks info toks = true.
Proof. exact (PrattLemmas.pratt_accepts_only_wf A O info). Qed.

(* the model's fuel (the number of tokens) is never what ends a run *)
Theorem pratt_never_out_of_fuel : forall toks : list (tok A O), pratt_run info toks <> OutOfFuel.
Proof. exact (PrattLemmas.pratt_never_out_of_fuel A O info). Qed.

(* pest's parse() drops what expr(0) leaves over; with positive precedences nothing is left *)
Theorem pratt_run_consumes_all : info_pos info ->
  forall (toks : list (tok A O)) t rest, pratt_run info toks = Ok (t, rest) -> rest = [].
Proof. exact (PrattLemmas.pratt_run_consumes_all A O info). Qed.

(* the familiar reading at the roots of the operands of an infix node *)
Theorem wf_root_right_prec : info_pos info -> forall o (l : ptree A O) o' l' r',
  wf_tree info (PIn o l (PIn o' l' r')) ->
  prec_of info o < prec_of info o' \/
  (prec_of info o = prec_of info o' /\ affix_of info o = Some InfixR).
Proof. exact (PrattLemmas.wf_root_right_prec A O info). Qed.

Theorem wf_root_left_prec : info_pos info -> forall o o' (l' : ptree A O) r' r,
  wf_tree info (PIn o (PIn o' l' r') r) ->
  prec_of info o < prec_of info o' \/
  (prec_of info o = prec_of info o' /\ affix_of info o' = Some InfixL).
Proof. exact (PrattLemmas.wf_root_left_prec A O info). Qed.

(* two adjacent operators: [left_first o1 o2] (prec o2 <= rbp o1) decides who gets the operand *)
Theorem left_first_infix_infix : info_pos info -> forall o1 o2 (a b c : A),
  is_infix info o1 = true -> is_infix info o2 = true ->
  pratt_parse info [TAtom a; TOp o1; TAtom b; TOp o2; TAtom c] =
  Some (if left_first info o1 o2 then PIn o2 (PIn o1 (PAtom a) (PAtom b)) (PAtom c)
        else PIn o1 (PAtom a) (PIn o2 (PAtom b) (PAtom c))).
Proof. exact (PrattLemmas.left_first_infix_infix A O info). Qed.

Theorem left_first_prefix_infix : info_pos info -> forall o1 o2 (a b : A),
  is_prefix info o1 = true -> is_infix info o2 = true ->
  pratt_parse info [TOp o1; TAtom a; TOp o2; TAtom b] =
  Some (if left_first info o1 o2 then PIn o2 (PPre o1 (PAtom a)) (PAtom b)
        else PPre o1 (PIn o2 (PAtom a) (PAtom b))).
Proof. exact (PrattLemmas.left_first_prefix_infix A O info). Qed.

Theorem left_first_infix_postfix : info_pos info -> forall o1 o2 (a b : A),
  is_infix info o1 = true -> is_postfix info o2 = true ->
  pratt_parse info [TAtom a; TOp o1; TAtom b; TOp o2] =
  Some (if left_first info o1 o2 then PPost o2 (PIn o1 (PAtom a) (PAtom b))
        else PIn o1 (PAtom a) (PPost o2 (PAtom b))).
Proof. exact (PrattLemmas.left_first_infix_postfix A O info). Qed.

Theorem left_first_prefix_postfix : info_pos info -> forall o1 o2 (a : A),
  is_prefix info o1 = true -> is_postfix info o2 = true ->
  pratt_parse info [TOp o1; TAtom a; TOp o2] =
  Some (if left_first info o1 o2 then PPost o2 (PPre o1 (PAtom a)) else PPre o1 (PPost o2 (PAtom a))).
Proof. exact (PrattLemmas.left_first_prefix_postfix A O info). Qed.

End Algorithm.

(* ===================== B. the code's table is the documented one ===================== *)

(* tables built by PrattParser::new().op(..).op(..).. have precedences >= 2 * PREC_STEP *)
Theorem table_of_levels_pos : forall lvls, table_pos (table_of_levels lvls).
Proof. exact PrattTables.table_of_levels_pos. Qed.

Theorem the_table_pos : table_pos the_table.
Proof. exact PrattTables.the_table_pos. Qed.

Theorem prec_step_is_model : GenPratt.prec_step = PREC_STEP.
Proof. exact PrattTables.prec_step_is_model. Qed.

Theorem op_names_shared :
  GenPratt.op_names = GenOpMap.op_names /\ GenDocPrec.op_names = GenOpMap.op_names.
Proof. exact PrattTables.op_names_shared. Qed.

(* every operator rule the grammar can produce is in the table with the affix of the position
   it is produced in, and the table lists nothing else *)
Theorem pratt_covers_grammar :
  (forall o, In o bin_alts -> is_infix the_info o = true) /\
  (forall o, In o prefix_alts -> is_prefix the_info o = true) /\
  (forall o, In o postfix_alts -> is_postfix the_info o = true) /\
  (forall o e, In (o, e) the_table -> In o all_ops) /\
  length the_table = length all_ops.
Proof. exact PrattTables.pratt_covers_grammar. Qed.

(* the documented levels are 1..14, the completed table documents exactly the grammar's operators *)
Theorem doc_domain :
  (forall o, In o all_ops -> In o doc_ops) /\ (forall o, In o doc_ops -> In o all_ops) /\
  length doc_ops = length all_ops.
Proof. exact PrattTables.doc_domain. Qed.

Theorem doc_assoc_cells :
  map (fun e => (fst (fst e), snd (fst e))) doc_levels =
  [(1, Some LeftToRight); (2, Some RightToLeft); (3, Some LeftToRight); (4, None); (5, None);
   (6, None); (7, None); (8, None); (9, None); (10, None); (11, None); (12, None); (13, None);
   (14, Some RightToLeft)]%N.
Proof. exact PrattTables.doc_assoc_cells. Qed.

(* THE TABLE IN THE CODE IS THE DOCUMENTED ONE: for every operator o1 that can stand left of an
   operand (prefix or binary: ops_left = prefix_alts ++ bin_alts, 38 operators) and every operator
   o2 that can stand right of it (binary or postfix: ops_right = bin_alts ++ postfix_alts, 49
   operators), the documentation (tighter level first; on one level by its associativity) and the
   code's table (prec o2 <= rbp o1) agree on which of the two groups first.  The documented table is
   doc_levels_completed = GenDocPrec.doc_levels with blank associativity cells filled from above,
   plus `$]` on level 3 and slicing, tuple access, field access on level 1. *)
Theorem table_is_doc_computed :
  forallb (fun o1 => forallb (fun o2 =>
     opt_bool_eqb (doc_left_first o1 o2) (Some (left_first the_info o1 o2))) ops_right) ops_left = true.
Proof. exact PrattTables.table_is_doc_b_true. Qed.

Theorem table_is_doc : forall o1 o2, In o1 ops_left -> In o2 ops_right ->
  doc_left_first o1 o2 = Some (left_first the_info o1 o2).
Proof. exact PrattTables.table_is_doc. Qed.

(* ... stated on what the parser builds *)
Theorem doc_grouping_infix_infix : forall o1 o2 a b c, In o1 bin_alts -> In o2 bin_alts ->
  tpratt_parse the_table [TAtom a; TOp o1; TAtom b; TOp o2; TAtom c] =
  Some (if doc_lf o1 o2 then PIn o2 (PIn o1 (PAtom a) (PAtom b)) (PAtom c)
        else PIn o1 (PAtom a) (PIn o2 (PAtom b) (PAtom c))).
Proof. exact PrattTables.doc_grouping_infix_infix. Qed.

Theorem doc_grouping_prefix_infix : forall o1 o2 a b, In o1 prefix_alts -> In o2 bin_alts ->
  tpratt_parse the_table [TOp o1; TAtom a; TOp o2; TAtom b] =
  Some (if doc_lf o1 o2 then PIn o2 (PPre o1 (PAtom a)) (PAtom b)
        else PPre o1 (PIn o2 (PAtom a) (PAtom b))).
Proof. exact PrattTables.doc_grouping_prefix_infix. Qed.

Theorem doc_grouping_infix_postfix : forall o1 o2 a b, In o1 bin_alts -> In o2 postfix_alts ->
  tpratt_parse the_table [TAtom a; TOp o1; TAtom b; TOp o2] =
  Some (if doc_lf o1 o2 then PPost o2 (PIn o1 (PAtom a) (PAtom b))
        else PIn o1 (PAtom a) (PPost o2 (PAtom b))).
Proof. exact PrattTables.doc_grouping_infix_postfix. Qed.

Theorem doc_grouping_prefix_postfix : forall o1 o2 a, In o1 prefix_alts -> In o2 postfix_alts ->
  tpratt_parse the_table [TOp o1; TAtom a; TOp o2] =
  Some (if doc_lf o1 o2 then PPost o2 (PPre o1 (PAtom a)) else PPre o1 (PPost o2 (PAtom a))).
Proof. exact PrattTables.doc_grouping_prefix_postfix. Qed.

(* ================= C. associativity, and the order of the levels ================= *)
(* binary operators are left-associative except exactly the alternatives of `assigns`, which are
   right-associative and form the loosest level; prefix operators bind tighter than the iterator
   level (@ ? \ $init $+ $* $&& $|| $& $| $] ~), which binds tighter than every other binary
   operator; [] [:] `? type` () .n .f bind tightest *)
Theorem levels_left_assoc_except_assign :
  (forall o, In o bin_alts ->
     affix_of the_info o = Some (if memN o assigns_alts then InfixR else InfixL)) /\
  (forall o o', In o assigns_alts -> In o' all_ops -> ~ In o' assigns_alts ->
     prec_of the_info o < prec_of the_info o') /\
  (forall p q, In p prefix_alts -> In q iter_level_ops -> prec_of the_info q < prec_of the_info p) /\
  (forall q o, In q iter_level_ops -> In o bin_alts -> ~ In o iter_level_ops ->
     prec_of the_info o < prec_of the_info q) /\
  (forall q o, In q tight_postfix_ops -> In o all_ops -> ~ In o tight_postfix_ops ->
     prec_of the_info o < prec_of the_info q) /\
  (forall q, In q tight_postfix_ops -> In q postfix_alts).
Proof. exact PrattTables.levels_left_assoc_except_assign. Qed.

(* ============================== D. operator maps ============================== *)
(* every alternative of bin_op is an arm of `impl From<Rule> for BinOperator` or the one rule
   create_infix handles before calling it (reduce); no two rules give the same operator; the
   postfix and prefix dispatches cover exactly postfix_op and prefix_op *)
Theorem opmap_total_injective :
  (forall o, In o bin_alts -> (exists c, assocN o binop_map = Some c) \/ In o infix_special) /\
  (forall o1 o2 c, In (o1, c) binop_map -> In (o2, c) binop_map -> o1 = o2) /\
  (forall o c, In (o, c) binop_map -> In o bin_alts /\ ~ In o infix_special) /\
  (forall o, In o postfix_alts -> exists c, assocN o postfix_map = Some c) /\
  (forall o, In o prefix_alts -> exists c, assocN o prefix_map = Some c) /\
  (forall o1 o2 c, In (o1, c) postfix_map -> In (o2, c) postfix_map -> o1 = o2) /\
  (forall o1 o2 c, In (o1, c) prefix_map -> In (o2, c) prefix_map -> o1 = o2).
Proof. exact PrattTables.opmap_total_injective. Qed.

(* every documented spelling is the literal of exactly one token rule among those tried at the
   same place (or one of the four structured spellings [] `? type` () `$ expression`) *)
Theorem doc_spellings : forall sp o, In (sp, o) doc_rows -> doc_spelling_ok (sp, o) = true.
Proof. exact PrattTables.doc_spellings. Qed.

(* ================================ E. tokens ================================ *)
(* in each of the two places where an operator can start, a plain-literal alternative never
   stands before an alternative whose text starts with that literal *)
Theorem tokens_not_split : forall alts, alts = after_operand_alts \/ alts = operand_start_alts ->
  forall pre e mid l post, alts = pre ++ e :: mid ++ l :: post ->
  simple_of e = true -> is_prefix_of (lit_of e) (lit_of l) = false.
Proof. exact PrattTables.tokens_not_split. Qed.

Theorem tokens_not_split_strict :
  ordered_ok true after_operand_alts && ordered_ok true operand_start_alts = true.
Proof. exact PrattTables.tokens_not_split_strict_b_true. Qed.

(* the pairs the property names (s1 a proper prefix of s2): s2 is a token of its own, and
   wherever rules spelled s1 and s2 are tried at the same place, s2 is tried first *)
Theorem split_pairs_ordered : forall s1 s2, In (s1, s2) split_pairs ->
  is_proper_prefix_of s1 s2 = true /\
  (exists r2, In r2 all_ops /\ lit_of r2 = s2 /\ simple_of r2 = true) /\
  forall alts, alts = after_operand_alts \/ alts = operand_start_alts ->
  forall r1 r2, In r1 alts -> In r2 alts -> lit_of r1 = s1 -> lit_of r2 = s2 ->
    index_of r2 alts < index_of r1 alts.
Proof. exact PrattTables.split_pairs_ordered. Qed.

(* and they are all such pairs among the operator literals of the grammar *)
Theorem split_pairs_complete : forall o1 o2, In o1 all_ops -> In o2 all_ops ->
  is_proper_prefix_of (lit_of o1) (lit_of o2) = true -> In (lit_of o1, lit_of o2) split_pairs.
Proof. exact PrattTables.split_pairs_complete. Qed.

(* `!` `-` `*` as prefix operators are tried only at the start of an operand, never where
   `!=` `-=` `*=` `**` are tried *)
Theorem prefix_and_after_disjoint : forall o, In o operand_start_alts -> ~ In o after_operand_alts.
Proof. exact PrattTables.prefix_and_after_disjoint. Qed.

(* the flip side of longest-token-first: the only adjacent operator pairs whose texts, written
   without a space, read as one longer operator *)
Theorem fusions_listed :
  fusions = [ (r_bitand_reduce, r_assign_bitwise_and, r_all); (r_bitand_reduce, r_and, r_all);
              (r_bitand_reduce, r_bitwise_and, r_all);
              (r_bitor_reduce, r_assign_bitwise_or, r_reduce_any); (r_bitor_reduce, r_or, r_reduce_any);
              (r_bitor_reduce, r_bitwise_or, r_reduce_any);
              (r_multiply, r_indirection, r_pow);
              (r_reduce, r_indirection, r_product) ].
Proof. exact PrattTables.fusions_listed. Qed.

(* C06 — scoping: a binding is visible exactly in its construct; lookup finds the
   nearest layer; a callee sees only its own frame.
   Statements only; every proof is `exact <lemma>` into Lemmas/ExecLemmas.v.
   Vocabulary (all defined in Lemmas/ExecLemmas.v):
     E n st sc i        = exec powf pre n st sc i : store * scopes * signal
                          (fuel n, store st, scope layers sc innermost first);
     sig r, scs r, sto r  the signal, scopes and store of a result r;
     nonval s           s is not [SVal _] (Break, Continue, Return, Error, Panic, Fuel);
     ex_list_def ex, with_val_def ex, loop_def ex, match_arms_def ex, call_def ex,
     bin_dispatch ..    standalone copies of the local helpers of [exec], where
                        [ex] = [E n] is the interpreter one fuel unit below; the
                        unfolding equations [exec_S_*] (proved by reflexivity)
                        tie them to [exec];
     runs ex l st sc vs st' sc'   every instruction of l, run left to right from
                        (st, sc), yields a value; the values are vs and the final
                        state is (st', sc').
   SPanic = the implementation would panic; SFuel = the model ran out of fuel. *)
From SSL.Model Require Import Base Ty Float Value Ops Seq Syntax Rt Recreate Exec.
From SSL.Lemmas Require Import ExecLemmas.

Section C06.
Variable powf : fbits -> fbits -> fbits.
Variable pre : prelude.
Notation E := (exec powf pre).

(* ---------- 9. blocks and binding branches drop their layer ---------- *)
Theorem block_restores_scopes : forall n st sc body, scs (E n st sc (IBlock body)) = sc.
Proof. exact (ExecLemmas.block_restores_scopes powf pre). Qed.

Theorem ifset_restores_scopes : forall n st sc nm t x ifm els st1 sc1 v,
  E n st sc x = (st1, sc1, SVal v) -> matches (as_type v) t = true ->
  scs (E (S n) st sc (ISetIfElse nm t x ifm els)) = sc1.
Proof. exact (ExecLemmas.ifset_restores_scopes powf pre). Qed.

Theorem match_type_arm_restores_scopes : forall n st sc x nm t b rest st1 sc1 v,
  E n st sc x = (st1, sc1, SVal v) -> matches (as_type v) t = true ->
  scs (E (S n) st sc (IMatch x (ArmType nm t b :: rest))) = sc1.
Proof. exact (ExecLemmas.match_type_arm_restores_scopes powf pre). Qed.

(* ---------- 10. calls: the callee runs in a fresh [frame]; the caller's scopes come back ---------- *)
Theorem call_isolated : forall n fid args st sc, scs (call_def (E n) fid args st sc) = sc.
Proof. exact (ExecLemmas.call_isolated powf pre). Qed.

Theorem call_restores_scopes : forall n st sc f a st1 sc1 fv st2 sc2 av,
  E n st sc f = (st1, sc1, SVal fv) -> E n st1 sc1 a = (st2, sc2, SVal av) ->
  scs (E (S n) st sc (IBin FunctionCall f a)) = sc2.
Proof. exact (ExecLemmas.call_restores_scopes powf pre). Qed.

Theorem bin_restores_scopes : forall n st sc op l r st1 sc1 lv st2 sc2 rv,
  op <> And -> op <> Or ->
  E n st sc l = (st1, sc1, SVal lv) -> E n st1 sc1 r = (st2, sc2, SVal rv) ->
  scs (E (S n) st sc (IBin op l r)) = sc2.
Proof. exact (ExecLemmas.bin_restores_scopes powf pre). Qed.

Theorem callee_runs_in_frame : forall n fid args st sc c,
  nth_error (s_funs st) fid = Some c ->
  call_def (E n) fid args st sc =
  match run_body_def (E n) c (log_event st (EvCall fid args)) [frame_def fid c args] with
  | (st, _, s) => (st, sc, s)
  end.
Proof. exact (fun n => ExecLemmas.call_def_some (E n)). Qed.

(* ---------- 11. the key invariant: only the innermost layer can change ----------
   (all instruction forms, including calls, `f()`-in-place calls, iterators) *)
Theorem scopes_tail_preserved : forall n st s rest i,
  exists top, scs (E n st (s :: rest) i) = top :: rest.
Proof. exact (ExecLemmas.scopes_tail_preserved powf pre). Qed.

Theorem enclosing_scopes_untouched : forall n st s rest i,
  tl (scs (E n st (s :: rest) i)) = rest.
Proof. exact (ExecLemmas.enclosing_scopes_untouched powf pre). Qed.

(* ---------- 12. set binds in the innermost layer; lookup finds the nearest ---------- *)
Theorem set_binds_innermost : forall n st sc nm x st1 sc1 v,
  E n st sc x = (st1, sc1, SVal v) ->
  E (S n) st sc (ISet nm x) = (st1, scopes_insert nm v sc1, SVal v).
Proof. exact (ExecLemmas.set_binds_innermost powf pre). Qed.

Theorem scopes_get_insert_same : forall nm v sc, scopes_get nm (scopes_insert nm v sc) = Some v.
Proof. exact ExecLemmas.scopes_get_insert_same. Qed.

Theorem scopes_get_insert_other : forall nm nm' v sc, nm <> nm' ->
  scopes_get nm' (scopes_insert nm v sc) = scopes_get nm' sc.
Proof. exact ExecLemmas.scopes_get_insert_other. Qed.

Theorem scopes_get_nearest : forall nm s sc v,
  assoc nm s = Some v -> scopes_get nm (s :: sc) = Some v.
Proof. exact ExecLemmas.scopes_get_nearest. Qed.

Theorem scopes_get_outer : forall nm s sc,
  assoc nm s = None -> scopes_get nm (s :: sc) = scopes_get nm sc.
Proof. exact ExecLemmas.scopes_get_outer. Qed.

(* ---------- 13. the callee's frame ----------
   [param_lookup k ps args]: the argument bound to parameter k — the LAST
   parameter of that name wins; a parameter shadows the function's own name. *)
Theorem callee_sees_only_frame : forall fid c args k,
  assoc k (frame_def fid c args) =
  match param_lookup k (c_params c) args with
  | Some v => Some v                                   (* a parameter (shadows the function's name) *)
  | None =>
      match c_name c with
      | Some n => if ident_eqb k n then Some (VFun fid (map snd (c_params c)) (c_ret c)) else None
      | None => None
      end
  end.
Proof. exact ExecLemmas.callee_sees_only_frame. Qed.

Theorem frame_lookup : forall fid c args k,
  scopes_get k [frame_def fid c args] = assoc k (frame_def fid c args).
Proof. exact ExecLemmas.frame_lookup. Qed.

End C06.


(* ---------------------------------------------------------------- examples *)
Definition powf0 : fbits -> fbits -> fbits := fun _ _ => CANON_NAN.
Definition pre0 : prelude := mkPrelude 0 0 0 0 0 0 0 0.
Definition st0 : store := mkStore [] [] [].
Definition X0 := exec powf0 pre0 50.
Definition nx : name := [120%Z].       (* "x" *)
Definition ny : name := [121%Z].       (* "y" *)
Definition tcell := LOther (TMut TInt).

(* { x := 1 }  leaves no binding behind *)
Example block_set_invisible :
  scs (X0 st0 [[]] (IBlock [ISet nx (IVar (VInt 1))])) = [[]].
Proof. vm_compute. reflexivity. Qed.
(* { x := 1 }; x   — the lookup fails (the real front end rejects this program) *)
Example block_set_invisible_lookup :
  sig (X0 st0 [[]] (ITuple [IBlock [ISet nx (IVar (VInt 1))]; ILocal nx (LOther TInt)])) = SPanic.
Proof. vm_compute. reflexivity. Qed.
(* x := 1; { x := 2; x }; x   — the inner x shadows, the outer one is back afterwards *)
Example shadowing_nearest :
  sig (X0 st0 [[]] (ITuple [ISet nx (IVar (VInt 1));
                            IBlock [ISet nx (IVar (VInt 2)); ILocal nx (LOther TInt)];
                            ILocal nx (LOther TInt)])) = SVal (VTup [VInt 1; VInt 2; VInt 1]).
Proof. vm_compute. reflexivity. Qed.

(* the callee declares y; the caller's scopes are unchanged, and the callee cannot see the caller's x *)
Definition st_fun (body : list instr) : store := mkStore [mkClosure None [] (BLang body) TInt] [] [].
Definition call0 : instr := IBin FunctionCall (IVar (VFun 0 [] TInt)) (IVar (VTup [])).
Example callee_declaration_invisible :
  scs (X0 (st_fun [ISet ny (IVar (VInt 1))]) [[(nx, VInt 0)]] call0) = [[(nx, VInt 0)]].
Proof. vm_compute. reflexivity. Qed.
Example callee_cannot_see_caller :
  sig (X0 (st_fun [ILocal nx (LOther TInt)]) [[(nx, VInt 0)]] call0) = SPanic.
Proof. vm_compute. reflexivity. Qed.

(* the in-place call of Function::create_call (IUn UFunctionCall) runs the body in the CURRENT
   innermost layer (still never an enclosing one); create_call wraps it in a block, which drops it *)
Example in_place_call_shares_innermost_layer :
  scs (X0 (st_fun [ISet ny (IVar (VInt 1))]) [[(nx, VInt 0)]; [(ny, VInt 7)]]
          (IUn UFunctionCall (IVar (VFun 0 [] TInt)))) = [[(ny, VInt 1); (nx, VInt 0)]; [(ny, VInt 7)]].
Proof. vm_compute. reflexivity. Qed.
Example in_place_call_in_block :
  scs (X0 (st_fun [ISet ny (IVar (VInt 1))]) [[(nx, VInt 0)]]
          (IBlock [IUn UFunctionCall (IVar (VFun 0 [] TInt))])) = [[(nx, VInt 0)]].
Proof. vm_compute. reflexivity. Qed.

(* f(x, x) called with (1, 2): the later duplicate parameter wins *)
Example duplicate_parameter_last_wins :
  frame_def 0 (mkClosure (Some ny) [(nx, TInt); (nx, TInt)] (BLang []) TInt) [VInt 1; VInt 2]
  = [(nx, VInt 2); (ny, VFun 0 [TInt; TInt] TInt)].
Proof. vm_compute. reflexivity. Qed.
(* a parameter named like the function shadows it *)
Example parameter_shadows_function_name :
  frame_def 0 (mkClosure (Some nx) [(nx, TInt)] (BLang []) TInt) [VInt 1] = [(nx, VInt 1)].
Proof. vm_compute. reflexivity. Qed.

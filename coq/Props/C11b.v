(* C11b — the iterator operators of the PROGRAM model refine the abstract iterator model.
   Props/C11.v proves the sequence laws over Model/Iter.v (iterators as pull functions over a
   world).  Here the world is instantiated with the program store and the function values the
   interpreter (Model/Exec.v) builds — through the helper closures MAP / FILTER / ITER booted
   from build/helpers.sx (Lemmas/SoundHelpers.v) — are shown to BEHAVE as those pull functions.

   Vocabulary (Lemmas/IterRef1.v):
     represents N F v it   the function value v, called in any store satisfying the footprint F
                           with any fuel >= N, answers `(true, x)` / an end marker exactly as
                           the abstract iterator [it : iter store value] says, reaches the
                           store it says, and F holds again;
                           and the closure table has only grown;
     cb_refines / cb2_refines   the same for callbacks, on a domain D of arguments (user closures
                           are abstracted by the abstract callback they refine: their effects
                           are whatever it says);
     yields_in F it D      the elements [it] yields lie in D;
     logged e it           [it] run on the store with the event e logged first (every call of a
                           closure logs itself).
   Statements only; proofs are in Lemmas/IterRef*.v (symbolic execution of the helper bodies by
   the big-step rules of IterRef2.v, each an unfolding equation of [exec]). *)
From SSL.Model Require Import Base Ty Float Value Ops Seq Syntax Rt Recreate Exec Check Top Iter.
From SSL.Lemmas Require Import ExecLemmas SoundLemmas SoundHelpers SoundBoot IterRef1 IterRef2 IterRef3 IterRef4
  IterRef5 IterRef6 IterRef7.
Local Open Scope Z_scope.

Section C11b.
Variable powf : fbits -> fbits -> fbits.
Notation E := (exec powf pre_boot).

(* ================================================================= *)
(* (d) the consumers: the loops of the interpreter are the loops of the abstract model *)
(* ================================================================= *)
(* it $] *)
Theorem collect_correct : forall N F v it, represents powf pre_boot N F v it ->
  forall n sx sc st vec st', (N <= n)%nat -> F st -> collect n it st = Some (vec, st') ->
  un_dispatch pre_boot (E n) n sx UCollect v st sc = (st', sc, SVal (arr_of vec)) /\ F st'.
Proof. intros N F v it R n sx sc st vec st'. apply (IterRef1.collect_correct powf pre_boot N F v it R). Qed.

(* it $ init f : the callback is applied once per element, in order, to the accumulator *)
Theorem reduce_correct : forall N F Da Dx v it fv k,
  represents powf pre_boot N F v it -> cb2_refines powf pre_boot N F Da Dx fv k ->
  yields_in F it Dx ->
  forall m n sc st acc acc' st', (N <= n)%nat -> F st -> Da acc ->
  reduce m k acc it st = Some (acc', st') ->
  reduce_def (E n) v fv m st sc acc = (st', sc, SVal acc') /\ F st' /\ Da acc'.
Proof.
  intros N F Da Dx v it fv k R Rf Hin.
  apply (IterRef1.reduce_correct powf pre_boot N F Da Dx v it fv k R Rf Hin).
Qed.

(* it \ p *)
Theorem partition_correct : forall N F D v it pv p et,
  represents powf pre_boot N F v it -> cb_refines powf pre_boot N F D VBool pv p ->
  yields_in F it D -> iter_element (as_type v) = Some et ->
  forall n sc st l r st', (N <= n)%nat -> F st ->
  partition_iter n p it st = Some ((l, r), st') ->
  part_def (E n) v pv n st sc [] [] = (st', sc, SVal (VTup [VArr et l; VArr et r])) /\ F st'.
Proof.
  intros N F D v it pv p et R Rp Hin Het n sc st l r st' Hn HF H.
  apply (IterRef1.partition_correct powf pre_boot N F D v it pv p R Rp Hin et Het n n sc st [] [] l r st' Hn HF H).
Qed.

(* ================================================================= *)
(* (a) a~                                                             *)
(* ================================================================= *)
(* [UIter] on the array value [VArr et vs]: ds = the default of the RUN-TIME element type and
   the store after its allocation ([alloc_default]; `()` when the type has none — the side
   condition whose failure is S13a / S13e).  The result is a fresh closure over a fresh
   counter cell holding -1 ... *)
Theorem uiter_correct : forall k sx st sc et vs,
  let ds := match alloc_default et st with Some ds => ds | None => (VVoid, st) end in
  nth_error (s_funs (snd ds)) 0 = Some c_LEN -> nth_error (s_funs (snd ds)) 3 = Some c_ITER ->
  un_dispatch pre_boot (E (4 + k)) (4 + k) sx UIter (VArr et vs) st sc =
  (iter_store (snd ds) et vs (fst ds), sc,
   SVal (VFun (S (length (s_funs (snd ds)))) [] (TTup [TBool; et]))).
Proof. exact (IterRef3.uiter_correct powf). Qed.

(* ... that represents the abstract array iterator of Model/Iter.v over that cell ([arr_iter]:
   [array_iter] with the counter read from / written to the cell; nothing is claimed once
   the counter would overflow).  The end marker carries the default d. *)
Theorem iter_represents : forall id loc et vs d (F : store -> Prop),
  (forall st, F st -> arr_foot id loc et vs d st) ->
  (forall st z, F st -> -1 <= z -> F (arr_setc id loc z st)) ->
  represents powf pre_boot 7 F (VFun id [] (TTup [TBool; et])) (arr_iter id loc vs).
Proof. exact (IterRef3.iter_represents powf). Qed.

(* `a~ $]` = a, end to end *)
Theorem iter_collect_correct : forall k sx sx' st sc et vs d st1,
  alloc_default et st = Some (d, st1) ->
  nth_error (s_funs st1) 0 = Some c_LEN -> nth_error (s_funs st1) 3 = Some c_ITER ->
  zlen vs < MAX_INT ->
  let n := (6 + length vs + k)%nat in
  exists st',
    (let '(st2, sc2, s) := un_dispatch pre_boot (E n) n sx UIter (VArr et vs) st sc in
     match s with
     | SVal w => un_dispatch pre_boot (E (S n)) (S n) sx' UCollect w st2 sc2
     | _ => (st2, sc2, s)
     end) = (st', sc, SVal (arr_of vs)).
Proof. exact (IterRef3.iter_collect_correct powf). Qed.

(* ================================================================= *)
(* (b) it @ f                                                         *)
(* ================================================================= *)
(* [Map] on a source of result type (t0, t1) and a mapper of type (ps) -> q: two fresh closures
   (the one MAP made and its copy re-typed at (bool, q), q the RUN-TIME result type of the
   mapper), one event ... *)
Theorem map_create : forall k st sc fid t0 t1 gid ps q,
  nth_error (s_funs st) 1 = Some c_MAP ->
  bin_dispatch powf pre_boot (E (2 + k)) (2 + k) Map (VFun fid [] (TTup [t0; t1])) (VFun gid ps q) st sc =
  (map_store st fid t0 t1 gid ps q, sc, SVal (VFun (S (length (s_funs st))) [] (TTup [TBool; q]))).
Proof. exact (IterRef4.map_create powf). Qed.

(* ... and the new value represents the abstract [map_iter]: a pull logs itself, pulls the source
   ONCE, and on an element applies the mapper ONCE.  On exhaustion the closure returns the
   end marker OF THE SOURCE (`return res`): [represents] does not look at the value an end
   marker carries, but its type is the source's, not (bool, q) — the known findings S13b / S13f. *)
Theorem map_represents : forall N (F : store -> Prop) (D : value -> Prop) id fid t0 t1 gid ps q it
    (kf : cb store value value),
  represents powf pre_boot N F (VFun fid [] (TTup [t0; t1])) it ->
  cb_refines powf pre_boot N F D (fun v => v) (VFun gid ps q) kf ->
  yields_in F it D ->
  (forall st, F st ->
     nth_error (s_funs st) id = Some (mkClosure None [] (BLang (map_body fid t0 t1 gid ps q)) (TTup [TBool; q]))) ->
  (forall st, F st -> F (log_event st (EvCall id []))) ->
  represents powf pre_boot (5 + N) F (VFun id [] (TTup [TBool; q]))
    (logged (EvCall id []) (map_iter kf it)).
Proof. exact (IterRef4.map_represents powf). Qed.

(* ================================================================= *)
(* (c) it ? p                                                         *)
(* ================================================================= *)
Theorem filter_create : forall k st sc fid t0 t1 gid ps q,
  nth_error (s_funs st) 2 = Some c_FILTER ->
  bin_dispatch powf pre_boot (E (2 + k)) (2 + k) Filter (VFun fid [] (TTup [t0; t1])) (VFun gid ps q) st sc =
  (filter_store st fid t0 t1 gid ps q, sc, SVal (VFun (S (length (s_funs st))) [] (TTup [t0; t1]))).
Proof. exact (IterRef5.filter_create powf). Qed.

(* the new value represents the abstract [filter_iter], for every fuel M of its loop: a pull logs
   itself, then pulls the source until the predicate accepts an element (the predicate is
   applied once to every element pulled, in order) or the source is exhausted *)
Theorem filter_represents : forall N (F : store -> Prop) (D : value -> Prop) id fid t0 t1 gid ps q it
    (p : cb store value bool) M,
  represents powf pre_boot N F (VFun fid [] (TTup [t0; t1])) it ->
  cb_refines powf pre_boot N F D VBool (VFun gid ps q) p ->
  yields_in F it D ->
  (forall st, F st ->
     nth_error (s_funs st) id = Some (mkClosure None [] (BLang (filter_body fid t0 t1 gid ps q)) (TTup [t0; t1]))) ->
  (forall st, F st -> F (log_event st (EvCall id []))) ->
  represents powf pre_boot (7 + N + M) F (VFun id [] (TTup [t0; t1]))
    (logged (EvCall id []) (filter_iter M p it)).
Proof. exact (IterRef5.filter_represents powf). Qed.

(* ================================================================= *)
(* (e) the planted reducers                                           *)
(* ================================================================= *)
(* INT_SUM, FLOAT_SUM, STRING_SUM, INT_PRODUCT, FLOAT_PRODUCT, AND, OR are
   `(iter) -> A { return iter $ init (acc, curr) -> A { return acc OP curr } }` *)
Theorem boot_reducers :
  nth_error (s_funs st_boot) 10 = Some (fold_closure TInt (VInt 0) Add) /\
  nth_error (s_funs st_boot) 11 = Some (fold_closure TFloat (VFloat 0) Add) /\
  nth_error (s_funs st_boot) 12 = Some (fold_closure TString (VString []) Add) /\
  nth_error (s_funs st_boot) 8 = Some (fold_closure TInt (VInt 1) Multiply) /\
  nth_error (s_funs st_boot) 9 = Some (fold_closure TFloat (VFloat 4607182418800017408) Multiply) /\
  nth_error (s_funs st_boot) 4 = Some (fold_closure TInt (VInt (-1)) BitwiseAnd) /\
  nth_error (s_funs st_boot) 5 = Some (fold_closure TInt (VInt 0) BitwiseOr).
Proof. exact IterRef6.boot_reducers. Qed.

(* a call = log it, create the callback closure (a fresh one per call, at index gid), run the
   abstract [reduce] with the callback "log the call, return acc OP curr" *)
Theorem fold_reducer_correct : forall N F v it rid A init op st sc,
  nth_error (s_funs st) rid = Some (fold_closure A init op) ->
  fold_op op -> op_closed powf A op -> inA A init ->
  represents powf pre_boot N F v it -> stable F -> yields_in F it (inA A) -> F st ->
  let gid := length (s_funs st) in
  let st1 := fst (alloc_fun (log_event st (EvCall rid [v])) (fold_cb_closure A op)) in
  forall b acc st', (N <= b)%nat -> (3 <= b)%nat ->
  reduce b (k_op powf gid op) init it st1 = Some (acc, st') ->
  call_def (E (S (S b))) rid [v] st sc = (st', sc, SVal acc) /\ F st' /\ inA A acc.
Proof. exact (IterRef6.fold_reducer_correct powf). Qed.

(* ... whose value is the fold of the machine operation over the elements pulled, e.g. *)
Theorem folds_int_sum : forall gid it a st zs acc st',
  folds it (k_op powf gid Add) (VInt a) st (map VInt zs) acc st' ->
  acc = VInt (fold_left rs_wrapping_add zs a).
Proof. exact (IterRef6.folds_int_sum powf). Qed.
Theorem folds_int_product : forall gid it a st zs acc st',
  folds it (k_op powf gid Multiply) (VInt a) st (map VInt zs) acc st' ->
  acc = VInt (fold_left rs_wrapping_mul zs a).
Proof. exact (IterRef6.folds_int_product powf). Qed.

(* ALL and ANY are loops that stop at the first deciding element *)
Theorem boot_quantifiers :
  nth_error (s_funs st_boot) 6 = Some (quant_closure test_all false) /\
  nth_error (s_funs st_boot) 7 = Some (quant_closure test_any true).
Proof. exact IterRef7.boot_quantifiers. Qed.

Theorem all_correct : forall N F v it qid st sc M b st',
  nth_error (s_funs st) qid = Some (quant_closure test_all false) ->
  represents powf pre_boot N F v it ->
  (forall s e, F s -> F (log_event s e)) -> F st ->
  all_iter M (bool_view it) (log_event st (EvCall qid [v])) = Some (b, st') ->
  forall n, (6 + N + M <= n)%nat ->
  call_def (E n) qid [v] st sc = (st', sc, SVal (VBool b)) /\ F st'.
Proof. exact (IterRef7.all_correct powf). Qed.

Theorem any_correct : forall N F v it qid st sc M b st',
  nth_error (s_funs st) qid = Some (quant_closure test_any true) ->
  represents powf pre_boot N F v it ->
  (forall s e, F s -> F (log_event s e)) -> F st ->
  any_iter M (bool_view it) (log_event st (EvCall qid [v])) = Some (b, st') ->
  forall n, (6 + N + M <= n)%nat ->
  call_def (E n) qid [v] st sc = (st', sc, SVal (VBool b)) /\ F st'.
Proof. exact (IterRef7.any_correct powf). Qed.

End C11b.

(* ================================================================= *)
(* non-vacuity on the booted store                                    *)
(* ================================================================= *)
Definition powf0 : fbits -> fbits -> fbits := fun _ _ => CANON_NAN.

Example boot_has_helpers :
  nth_error (s_funs st_boot) 0 = Some c_LEN /\ nth_error (s_funs st_boot) 3 = Some c_ITER /\
  helpers_in st_boot.
Proof. split; [reflexivity|]. split; [reflexivity|apply helpers_in_boot]. Qed.

Definition arr123 : instr := IArray [IVar (VInt 1); IVar (VInt 2); IVar (VInt 3)] TInt.

(* [1, 2, 3]~ $] *)
Example ex_iter_collect_runs :
  snd (exec powf0 pre_boot 20 st_boot [[]] (IUn UCollect (IUn UIter arr123)))
  = SVal (VArr TInt [VInt 1; VInt 2; VInt 3]).
Proof. vm_compute. reflexivity. Qed.

(* ... as the theorem says, for every fuel from 9 on *)
Example ex_iter_collect_thm : forall k, exists st',
  (let '(st2, sc2, s) := un_dispatch pre_boot (exec powf0 pre_boot (9 + k)) (9 + k) TNever UIter
                           (VArr TInt [VInt 1; VInt 2; VInt 3]) st_boot [[]] in
   match s with
   | SVal w => un_dispatch pre_boot (exec powf0 pre_boot (S (9 + k))) (S (9 + k)) TNever UCollect w st2 sc2
   | _ => (st2, sc2, s)
   end) = (st', [[]], SVal (VArr TInt [VInt 1; VInt 2; VInt 3])).
Proof.
  intros k.
  exact (IterRef3.iter_collect_correct powf0 k TNever TNever st_boot [[]] TInt
           [VInt 1; VInt 2; VInt 3] (VInt 0) st_boot eq_refl eq_refl eq_refl eq_refl).
Qed.

(* the whole pipeline [1, 2, 3]~ @ f ? p $] with f = x -> x * 10, p = x -> x > 10 *)
Definition nx : name := [120].
Definition f_times10 : instr :=
  IAnonFn [(nx, TInt)] [IUn UReturn (IBin Multiply (ILocal nx (LOther TInt)) (IVar (VInt 10)))] TInt.
Definition p_gt10 : instr :=
  IAnonFn [(nx, TInt)] [IUn UReturn (IBin Greater (ILocal nx (LOther TInt)) (IVar (VInt 10)))] TBool.
Example ex_pipeline_runs :
  snd (exec powf0 pre_boot 40 st_boot [[]]
         (IUn UCollect (IBin Filter (IBin Map (IUn UIter arr123) f_times10) p_gt10)))
  = SVal (VArr TInt [VInt 20; VInt 30]).
Proof. vm_compute. reflexivity. Qed.

(* `[1, 2, 3]~ $+` through the theorems: the store after `~` (iter_store), the iterator value
   w = VFun 14, its footprint, and [fold_reducer_correct] with the abstract side computed *)
Definition vs123 : list value := [VInt 1; VInt 2; VInt 3].
Definition st_it : store := Eval vm_compute in iter_store st_boot TInt vs123 (VInt 0).
Definition w_it : value := VFun 14 [] (TTup [TBool; TInt]).

Lemma arr_foot_stable id loc et vs d : stable (arr_foot id loc et vs d).
Proof.
  split.
  - intros st e [Hc Hi]. split; [exact Hc|exact Hi].
  - intros st c [Hc Hi]. split; [|exact Hi].
    apply (funs_ext_alloc_fun st c). exact Hc.
Qed.

Example ex_sum_thm : exists st',
  call_def (exec powf0 pre_boot 22) 10 [w_it] st_it [[]] = (st', [[]], SVal (VInt 6)).
Proof.
  assert (Hin : yields_in (arr_foot 14 0 TInt vs123 (VInt 0)) (arr_iter 14 0 vs123) (inA TInt)).
  { intros st x st' HF H. pose proof (arr_iter_yields_in _ 14 0 vs123 st x st' HF H) as Hx.
    cbn [In vs123] in Hx. destruct Hx as [<-|[<-|[<-|[]]]]; exact I. }
  destruct (reduce 20 (k_op powf0 15 Add) (VInt 0) (arr_iter 14 0 vs123)
              (fst (alloc_fun (log_event st_it (EvCall 10 [w_it])) (fold_cb_closure TInt Add))))
    as [[acc st']|] eqn:Hr; [|vm_compute in Hr; discriminate Hr].
  assert (Hacc : acc = VInt 6) by (vm_compute in Hr; injection Hr as <- _; reflexivity).
  subst acc. exists st'.
  apply (IterRef6.fold_reducer_correct powf0 7 (arr_foot 14 0 TInt vs123 (VInt 0)) w_it
           (arr_iter 14 0 vs123) 10 TInt (VInt 0) Add st_it [[]]
           eq_refl (or_introl eq_refl) (proj1 (op_closed_boot powf0)) I
           (iter_represents_self powf0 14 0 TInt vs123 (VInt 0))
           (arr_foot_stable 14 0 TInt vs123 (VInt 0)) Hin
           ltac:(split; [reflexivity|exists (-1); split; [reflexivity|lia]])
           20%nat (VInt 6) st' ltac:(lia) ltac:(lia) Hr).
Qed.

(* `$&&` stops at the first false: after ALL([true, false, true]~) the counter cell of the array
   iterator holds 1 — the third element was never pulled *)
Example ex_all_stops :
  let r := exec powf0 pre_boot 30 st_boot [[]]
             (IBin FunctionCall (IVar (r_all red_boot))
                (ITuple [IUn UIter (IArray [IVar (VBool true); IVar (VBool false); IVar (VBool true)] TBool)])) in
  snd r = SVal (VBool false) /\ nth_error (s_cells (fst (fst r))) 0 = Some (VInt 1).
Proof. vm_compute. split; reflexivity. Qed.

(* `$+` on the pipeline *)
Example ex_pipeline_sum_runs :
  snd (exec powf0 pre_boot 40 st_boot [[]]
         (IBin FunctionCall (IVar (VFun 10 [TFun [] (TTup [TBool; TInt])] TInt))
            (ITuple [IBin Filter (IBin Map (IUn UIter arr123) f_times10) p_gt10])))
  = SVal (VInt 50).
Proof. vm_compute. reflexivity. Qed.

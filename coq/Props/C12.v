(* C12 — control flow selects and exits exactly the documented construct.
   Statements only; every proof is `exact <lemma>` into Lemmas/ExecLemmas.v.
   Vocabulary (all defined in Lemmas/ExecLemmas.v):
     E n st sc i        = exec powf pre n st sc i : store * scopes * signal
                          (fuel n, store st, scope layers sc innermost first);
     sig r, scs r, sto r  the signal, scopes and store of a result r;
     nonval s           s is not [SVal _] (Break, Continue, Return, Error, Panic, Fuel);
     ex_list_def ex, with_val_def ex, loop_def ex, match_arms_def ex, call_def ex,
     bin_dispatch ..    standalone copies of the local helpers of [exec], where
                        [ex] = [E n] is the interpreter one fuel unit below; the
                        unfolding equations [exec_S_*] (proved by reflexivity)
                        tie them to [exec];
     runs ex l st sc vs st' sc'   every instruction of l, run left to right from
                        (st, sc), yields a value; the values are vs and the final
                        state is (st', sc').
   SPanic = the implementation would panic; SFuel = the model ran out of fuel. *)
From SSL.Model Require Import Base Ty Float Value Ops Seq Syntax Rt Recreate Exec.
From SSL.Lemmas Require Import ExecLemmas.

Section C12.
Variable powf : fbits -> fbits -> fbits.
Variable pre : prelude.
Notation E := (exec powf pre).

(* ---------- 1. if / else ---------- *)
Theorem if_true : forall n st sc c t f st1 sc1,
  E n st sc c = (st1, sc1, SVal (VBool true)) ->
  E (S n) st sc (IIfElse c t f) = E n st1 sc1 t.
Proof. exact (ExecLemmas.if_true powf pre). Qed.

Theorem if_false : forall n st sc c t f st1 sc1,
  E n st sc c = (st1, sc1, SVal (VBool false)) ->
  E (S n) st sc (IIfElse c t f) = E n st1 sc1 f.
Proof. exact (ExecLemmas.if_false powf pre). Qed.

Theorem if_non_bool_condition_panics : forall n st sc c t f st1 sc1 v,
  E n st sc c = (st1, sc1, SVal v) -> (forall b, v <> VBool b) ->
  E (S n) st sc (IIfElse c t f) = (st1, sc1, SPanic).
Proof. exact (ExecLemmas.if_non_bool_condition_panics powf pre). Qed.

Theorem if_cond_signal : forall n st sc c t f st1 sc1 s,
  E n st sc c = (st1, sc1, s) -> nonval s ->
  E (S n) st sc (IIfElse c t f) = (st1, sc1, s).
Proof. exact (ExecLemmas.if_cond_signal powf pre). Qed.

Theorem if_branch_propagates : forall n st sc c t f b st1 sc1 st2 sc2 s,
  E n st sc c = (st1, sc1, SVal (VBool b)) ->
  E n st1 sc1 (if b then t else f) = (st2, sc2, s) ->
  E (S n) st sc (IIfElse c t f) = (st2, sc2, s).
Proof. exact (ExecLemmas.if_branch_propagates powf pre). Qed.

(* ---------- 2. loops consume exactly Break / Continue ----------
   [loop_def ex b m st sc] mirrors the inner `fix loop`; its counter starts at the
   fuel n of the body interpreter [E n].  [loop_exit s]: s is Return, Error,
   Panic (or Fuel) — the signals a loop lets through. *)
Theorem loop_unfold : forall n st sc b, E (S n) st sc (ILoop b) = loop_def (E n) b n st sc.
Proof. exact (ExecLemmas.loop_unfold powf pre). Qed.

Theorem loop_never_yields_break_continue : forall n st sc b,
  sig (E n st sc (ILoop b)) <> SBreak /\ sig (E n st sc (ILoop b)) <> SContinue.
Proof. exact (ExecLemmas.loop_never_yields_break_continue powf pre). Qed.

Theorem loop_value_void : forall n st sc b st' sc' v,
  E n st sc (ILoop b) = (st', sc', SVal v) -> v = VVoid.
Proof. exact (ExecLemmas.loop_value_void powf pre). Qed.

Theorem loop_signal : forall n st sc b,
  sig (E n st sc (ILoop b)) = SVal VVoid \/ loop_exit (sig (E n st sc (ILoop b))).
Proof. exact (ExecLemmas.loop_signal powf pre). Qed.

Theorem loop_iteration_goes_on : forall n b m st sc st1 sc1 s,
  E n st sc b = (st1, sc1, s) -> (s = SContinue \/ exists v, s = SVal v) ->
  loop_def (E n) b (S m) st sc = loop_def (E n) b m st1 sc1.
Proof. exact (fun n => ExecLemmas.loop_iter_next (E n)). Qed.

Theorem loop_iteration_break : forall n b m st sc st1 sc1,
  E n st sc b = (st1, sc1, SBreak) ->
  loop_def (E n) b (S m) st sc = (st1, sc1, SVal VVoid).
Proof. exact (fun n => ExecLemmas.loop_iter_break (E n)). Qed.

Theorem loop_iteration_exit : forall n b m st sc st1 sc1 s,
  E n st sc b = (st1, sc1, s) -> loop_exit s ->
  loop_def (E n) b (S m) st sc = (st1, sc1, s).
Proof. exact (fun n => ExecLemmas.loop_iter_exit (E n)). Qed.

Theorem loop_propagates_return : forall n st sc b st1 sc1 v,
  E (S n) st sc b = (st1, sc1, SReturn v) ->
  E (S (S n)) st sc (ILoop b) = (st1, sc1, SReturn v).
Proof. exact (ExecLemmas.loop_propagates_return powf pre). Qed.

Theorem loop_propagates_error : forall n st sc b st1 sc1 e,
  E (S n) st sc b = (st1, sc1, SError e) ->
  E (S (S n)) st sc (ILoop b) = (st1, sc1, SError e).
Proof. exact (ExecLemmas.loop_propagates_error powf pre). Qed.

Theorem loop_propagates_panic : forall n st sc b st1 sc1,
  E (S n) st sc b = (st1, sc1, SPanic) ->
  E (S (S n)) st sc (ILoop b) = (st1, sc1, SPanic).
Proof. exact (ExecLemmas.loop_propagates_panic powf pre). Qed.

Theorem loop_first_exit : forall n st sc b st1 sc1 s,
  E (S n) st sc b = (st1, sc1, s) -> loop_exit s ->
  E (S (S n)) st sc (ILoop b) = (st1, sc1, s).
Proof. exact (ExecLemmas.loop_first_exit powf pre). Qed.

Theorem loop_first_break : forall n st sc b st1 sc1,
  E (S n) st sc b = (st1, sc1, SBreak) ->
  E (S (S n)) st sc (ILoop b) = (st1, sc1, SVal VVoid).
Proof. exact (ExecLemmas.loop_first_break powf pre). Qed.

Theorem loop_result_from_body : forall n st sc b st' sc' s,
  E (S n) st sc (ILoop b) = (st', sc', s) ->
  s = SFuel \/
  exists st0 sc0 s0, E n st0 sc0 b = (st', sc', s0) /\
    ((s0 = SBreak /\ s = SVal VVoid) \/ (s0 = s /\ loop_exit s)).
Proof. exact (ExecLemmas.loop_result_from_body powf pre). Qed.

(* ---------- 3./4. blocks and compound statements pass signals through ---------- *)
Theorem statement_list_shape : forall n l st sc st' sc' o s,
  ex_list_def (E n) l st sc = (st', sc', o, s) ->
  (exists vs, o = Ok vs /\ s = SVal VVoid /\ length vs = length l) \/ (o = Panic /\ nonval s).
Proof. exact (fun n => ExecLemmas.ex_list_shape (E n)). Qed.

Theorem statement_list_values : forall n l st sc vs st' sc',
  runs (E n) l st sc vs st' sc' <-> ex_list_def (E n) l st sc = (st', sc', Ok vs, SVal VVoid).
Proof.
  exact (fun n l st sc vs st' sc' =>
    conj (ExecLemmas.runs_ex_list (E n) l st sc vs st' sc')
         (ExecLemmas.ex_list_runs (E n) l st sc vs st' sc' (SVal VVoid))).
Qed.

Theorem block_propagates : forall n st sc body st' sc' o s,
  ex_list_def (E n) body st ([] :: sc) = (st', sc', o, s) -> nonval s ->
  E (S n) st sc (IBlock body) = (st', sc, s).
Proof. exact (ExecLemmas.block_propagates powf pre). Qed.

Theorem block_stops_at_first_signal : forall n st sc l1 x l2 vs st1 sc1 st2 sc2 s,
  runs (E n) l1 st ([] :: sc) vs st1 sc1 ->
  E n st1 sc1 x = (st2, sc2, s) -> nonval s ->
  E (S n) st sc (IBlock (l1 ++ x :: l2)) = (st2, sc, s).
Proof. exact (ExecLemmas.block_stops_at_first_signal powf pre). Qed.

Theorem block_value_last : forall n st sc body vs st' sc',
  runs (E n) body st ([] :: sc) vs st' sc' ->
  E (S n) st sc (IBlock body) = (st', sc, SVal (last vs VVoid)).
Proof. exact (ExecLemmas.block_value_last powf pre). Qed.

Theorem set_propagates : forall n st sc nm x st1 sc1 s,
  E n st sc x = (st1, sc1, s) -> nonval s ->
  E (S n) st sc (ISet nm x) = (st1, sc1, s).
Proof. exact (ExecLemmas.set_propagates powf pre). Qed.

Theorem destruct_propagates : forall n st sc ids x st1 sc1 s,
  E n st sc x = (st1, sc1, s) -> nonval s ->
  E (S n) st sc (IDestruct ids x) = (st1, sc1, s).
Proof. exact (ExecLemmas.destruct_propagates powf pre). Qed.

Theorem ifset_branch_propagates : forall n st sc nm t x ifm els st1 sc1 v st2 sc2 s,
  E n st sc x = (st1, sc1, SVal v) -> matches (as_type v) t = true ->
  E n st1 ([(nm, v)] :: sc1) ifm = (st2, sc2, s) ->
  E (S n) st sc (ISetIfElse nm t x ifm els) = (st2, sc1, s).
Proof. exact (ExecLemmas.ifset_branch_propagates powf pre). Qed.

Theorem match_arm_body_propagates : forall n st sc x nm t b rest st1 sc1 v st2 sc2 s,
  E n st sc x = (st1, sc1, SVal v) -> matches (as_type v) t = true ->
  E n st1 ([(nm, v)] :: sc1) b = (st2, sc2, s) ->
  E (S n) st sc (IMatch x (ArmType nm t b :: rest)) = (st2, sc1, s).
Proof. exact (ExecLemmas.match_arm_body_propagates powf pre). Qed.

(* ---------- 5. function calls consume exactly Return ----------
   [call_def ex fid args st sc]: the body of closure fid runs in the single fresh
   layer [frame_def fid c args]; [body_exit s]: s is a value, Error, Panic (or Fuel). *)
Theorem call_unfold : forall n st sc fid ps r args,
  E (S (S n)) st sc (IBin FunctionCall (IVar (VFun fid ps r)) (IVar (VTup args))) =
  call_def (E (S n)) fid args st sc.
Proof. exact (ExecLemmas.call_unfold powf pre). Qed.

Theorem call_never_yields_return_break_continue : forall n st sc fid ps r args,
  let s := sig (E n st sc (IBin FunctionCall (IVar (VFun fid ps r)) (IVar (VTup args)))) in
  (forall v, s <> SReturn v) /\ s <> SBreak /\ s <> SContinue.
Proof. exact (ExecLemmas.call_never_yields_return_break_continue powf pre). Qed.

Theorem call_signal : forall n fid args st sc, body_exit (sig (call_def (E n) fid args st sc)).
Proof. exact (fun n => ExecLemmas.call_def_signal (E n)). Qed.

Theorem call_return_becomes_value : forall n st sc fid ps r args c body st' sc' o v,
  nth_error (s_funs st) fid = Some c -> c_body c = BLang body ->
  ex_list_def (E (S n)) body (log_event st (EvCall fid args)) [frame_def fid c args] = (st', sc', o, SReturn v) ->
  E (S (S n)) st sc (IBin FunctionCall (IVar (VFun fid ps r)) (IVar (VTup args))) = (st', sc, SVal v).
Proof. exact (ExecLemmas.call_return_becomes_value powf pre). Qed.

Theorem call_completes_void : forall n st sc fid ps r args c body st' sc' vs,
  nth_error (s_funs st) fid = Some c -> c_body c = BLang body ->
  runs (E (S n)) body (log_event st (EvCall fid args)) [frame_def fid c args] vs st' sc' ->
  E (S (S n)) st sc (IBin FunctionCall (IVar (VFun fid ps r)) (IVar (VTup args))) = (st', sc, SVal VVoid).
Proof. exact (ExecLemmas.call_completes_void powf pre). Qed.

Theorem call_break_continue_panics : forall n st sc fid ps r args c body st' sc' o s,
  nth_error (s_funs st) fid = Some c -> c_body c = BLang body ->
  ex_list_def (E (S n)) body (log_event st (EvCall fid args)) [frame_def fid c args] = (st', sc', o, s) ->
  s = SBreak \/ s = SContinue ->
  E (S (S n)) st sc (IBin FunctionCall (IVar (VFun fid ps r)) (IVar (VTup args))) = (st', sc, SPanic).
Proof. exact (ExecLemmas.call_break_continue_panics powf pre). Qed.

Theorem call_error_propagates : forall n st sc fid ps r args c body st' sc' o s,
  nth_error (s_funs st) fid = Some c -> c_body c = BLang body ->
  ex_list_def (E (S n)) body (log_event st (EvCall fid args)) [frame_def fid c args] = (st', sc', o, s) ->
  (s = SPanic \/ s = SFuel \/ exists e, s = SError e) ->
  E (S (S n)) st sc (IBin FunctionCall (IVar (VFun fid ps r)) (IVar (VTup args))) = (st', sc, s).
Proof. exact (ExecLemmas.call_error_propagates powf pre). Qed.

Theorem call_unknown_function_panics : forall n st sc fid ps r args,
  nth_error (s_funs st) fid = None ->
  E (S (S n)) st sc (IBin FunctionCall (IVar (VFun fid ps r)) (IVar (VTup args))) = (st, sc, SPanic).
Proof. exact (ExecLemmas.call_unknown_function_panics powf pre). Qed.

(* ---------- 6. match: first arm, top to bottom ----------
   [match_arms_def ex v arms st sc] tries the arms in order for scrutinee value v;
   [cands_miss ex v cs st sc st' sc']: the candidates cs, evaluated left to right
   from (st, sc), all yield values different from v, ending in (st', sc'). *)
Theorem match_unfold : forall n st sc x arms st1 sc1 v,
  E n st sc x = (st1, sc1, SVal v) ->
  E (S n) st sc (IMatch x arms) = match_arms_def (E n) v arms st1 sc1.
Proof. exact (ExecLemmas.match_unfold powf pre). Qed.

Theorem match_scrutinee_signal : forall n st sc x arms st1 sc1 s,
  E n st sc x = (st1, sc1, s) -> nonval s ->
  E (S n) st sc (IMatch x arms) = (st1, sc1, s).
Proof. exact (ExecLemmas.match_scrutinee_signal powf pre). Qed.

Theorem match_type_arm_selected : forall n st sc x nm t b rest st1 sc1 v,
  E n st sc x = (st1, sc1, SVal v) -> matches (as_type v) t = true ->
  E (S n) st sc (IMatch x (ArmType nm t b :: rest)) =
  let '(st2, _, s) := E n st1 ([(nm, v)] :: sc1) b in (st2, sc1, s).
Proof. exact (ExecLemmas.match_type_arm_selected powf pre). Qed.

Theorem match_type_arm_skipped : forall n st sc x nm t b rest st1 sc1 v,
  E n st sc x = (st1, sc1, SVal v) -> matches (as_type v) t = false ->
  E (S n) st sc (IMatch x (ArmType nm t b :: rest)) = match_arms_def (E n) v rest st1 sc1.
Proof. exact (ExecLemmas.match_type_arm_skipped powf pre). Qed.

Theorem match_other_arm : forall n st sc x b rest st1 sc1 v,
  E n st sc x = (st1, sc1, SVal v) ->
  E (S n) st sc (IMatch x (ArmOther b :: rest)) = E n st1 sc1 b.
Proof. exact (ExecLemmas.match_other_arm powf pre). Qed.

Theorem match_value_arm : forall n st sc x pre_ c post b rest st1 sc1 v st2 sc2 st3 sc3 w,
  E n st sc x = (st1, sc1, SVal v) ->
  cands_miss (E n) v pre_ st1 sc1 st2 sc2 ->
  E n st2 sc2 c = (st3, sc3, SVal w) -> val_eqb w v = true ->
  E (S n) st sc (IMatch x (ArmValue (pre_ ++ c :: post) b :: rest)) = E n st3 sc3 b.
Proof. exact (ExecLemmas.match_value_arm powf pre). Qed.

Theorem match_value_arm_skipped : forall n st sc x cands b rest st1 sc1 v st2 sc2,
  E n st sc x = (st1, sc1, SVal v) ->
  cands_miss (E n) v cands st1 sc1 st2 sc2 ->
  E (S n) st sc (IMatch x (ArmValue cands b :: rest)) = match_arms_def (E n) v rest st2 sc2.
Proof. exact (ExecLemmas.match_value_arm_skipped powf pre). Qed.

Theorem match_value_arm_candidate_signal : forall n st sc x pre_ c post b rest st1 sc1 v st2 sc2 st3 sc3 s,
  E n st sc x = (st1, sc1, SVal v) ->
  cands_miss (E n) v pre_ st1 sc1 st2 sc2 ->
  E n st2 sc2 c = (st3, sc3, s) -> nonval s ->
  E (S n) st sc (IMatch x (ArmValue (pre_ ++ c :: post) b :: rest)) = (st3, sc3, s).
Proof. exact (ExecLemmas.match_value_arm_candidate_signal powf pre). Qed.

Theorem match_no_arm_panics : forall n st sc x st1 sc1 v,
  E n st sc x = (st1, sc1, SVal v) ->
  E (S n) st sc (IMatch x []) = (st1, sc1, SPanic).
Proof. exact (ExecLemmas.match_no_arm_panics powf pre). Qed.

(* ---------- 7. if-set: branch chosen by the runtime tag ---------- *)
Theorem ifset_by_tag : forall n st sc nm t x ifm els st1 sc1 v,
  E n st sc x = (st1, sc1, SVal v) ->
  E (S n) st sc (ISetIfElse nm t x ifm els) =
  if matches (as_type v) t
  then let '(st2, _, s) := E n st1 ([(nm, v)] :: sc1) ifm in (st2, sc1, s)
  else E n st1 sc1 els.
Proof. exact (ExecLemmas.ifset_by_tag powf pre). Qed.

Theorem ifset_match : forall n st sc nm t x ifm els st1 sc1 v,
  E n st sc x = (st1, sc1, SVal v) -> matches (as_type v) t = true ->
  E (S n) st sc (ISetIfElse nm t x ifm els) =
  let '(st2, _, s) := E n st1 ([(nm, v)] :: sc1) ifm in (st2, sc1, s).
Proof. exact (ExecLemmas.ifset_match powf pre). Qed.

Theorem ifset_else : forall n st sc nm t x ifm els st1 sc1 v,
  E n st sc x = (st1, sc1, SVal v) -> matches (as_type v) t = false ->
  E (S n) st sc (ISetIfElse nm t x ifm els) = E n st1 sc1 els.
Proof. exact (ExecLemmas.ifset_else powf pre). Qed.

Theorem ifset_cond_signal : forall n st sc nm t x ifm els st1 sc1 s,
  E n st sc x = (st1, sc1, s) -> nonval s ->
  E (S n) st sc (ISetIfElse nm t x ifm els) = (st1, sc1, s).
Proof. exact (ExecLemmas.ifset_cond_signal powf pre). Qed.

(* ---------- 8. `while c b` is `loop { if c b else break }` ---------- *)
Theorem while_body_false : forall n st sc c b st1 sc1,
  E n st sc c = (st1, sc1, SVal (VBool false)) ->
  E (S n) st sc (IIfElse c b IBreak) = (st1, sc1, SBreak).
Proof. exact (ExecLemmas.while_body_false powf pre). Qed.

Theorem while_false_stops : forall n st sc c b st1 sc1,
  E n st sc c = (st1, sc1, SVal (VBool false)) ->
  E (S (S n)) st sc (ILoop (IIfElse c b IBreak)) = (st1, sc1, SVal VVoid).
Proof. exact (ExecLemmas.while_false_stops powf pre). Qed.

Theorem while_true_unroll : forall n st sc c b st1 sc1 st2 sc2 s,
  E n st sc c = (st1, sc1, SVal (VBool true)) ->
  E n st1 sc1 b = (st2, sc2, s) -> (s = SContinue \/ exists v, s = SVal v) ->
  E (S (S n)) st sc (ILoop (IIfElse c b IBreak)) =
  loop_def (E (S n)) (IIfElse c b IBreak) n st2 sc2.
Proof. exact (ExecLemmas.while_true_unroll powf pre). Qed.

Theorem while_true_break : forall n st sc c b st1 sc1 st2 sc2,
  E n st sc c = (st1, sc1, SVal (VBool true)) ->
  E n st1 sc1 b = (st2, sc2, SBreak) ->
  E (S (S n)) st sc (ILoop (IIfElse c b IBreak)) = (st2, sc2, SVal VVoid).
Proof. exact (ExecLemmas.while_true_break powf pre). Qed.

Theorem while_true_exit : forall n st sc c b st1 sc1 st2 sc2 s,
  E n st sc c = (st1, sc1, SVal (VBool true)) ->
  E n st1 sc1 b = (st2, sc2, s) -> loop_exit s ->
  E (S (S n)) st sc (ILoop (IIfElse c b IBreak)) = (st2, sc2, s).
Proof. exact (ExecLemmas.while_true_exit powf pre). Qed.

End C12.


(* ---------------------------------------------------------------- examples *)
Definition powf0 : fbits -> fbits -> fbits := fun _ _ => CANON_NAN.
Definition pre0 : prelude := mkPrelude 0 0 0 0 0 0 0 0.
Definition st0 : store := mkStore [] [] [].
Definition X0 := exec powf0 pre0 50.
Definition nx : name := [120%Z].       (* "x" *)
Definition ny : name := [121%Z].       (* "y" *)
Definition tcell := LOther (TMut TInt).

(* x := mut 0; loop { x += 1; if !x == 3 { break } }; !x   (with !x the content of x) ==> 3, one cell holding 3 *)
Definition prog_loop : instr :=
  IBlock [ ISet nx (IMut TInt (IVar (VInt 0)));
           ILoop (IBlock [ IBin AssignAdd (ILocal nx tcell) (IVar (VInt 1));
                           IIfElse (IBin Equal (IUn UIndirection (ILocal nx tcell)) (IVar (VInt 3)))
                                   IBreak (IVar VVoid) ]);
           IUn UIndirection (ILocal nx tcell) ].
Example loop_three_times :
  sig (X0 st0 [[]] prog_loop) = SVal (VInt 3) /\ s_cells (sto (X0 st0 [[]] prog_loop)) = [VInt 3].
Proof. vm_compute. split; reflexivity. Qed.

(* the same loop alone yields Void, never Break *)
Example loop_yields_void :
  sig (X0 (mkStore [] [VInt 0] []) [[(nx, VMut 0 TInt)]]
         (ILoop (IBlock [ IBin AssignAdd (ILocal nx tcell) (IVar (VInt 1));
                          IIfElse (IBin Equal (IUn UIndirection (ILocal nx tcell)) (IVar (VInt 3)))
                                  IBreak (IVar VVoid) ]))) = SVal VVoid.
Proof. vm_compute. reflexivity. Qed.

(* return inside a loop inside a function leaves both; the call yields the value *)
Definition st_fun (body : list instr) : store := mkStore [mkClosure None [] (BLang body) TInt] [] [].
Definition call0 : instr := IBin FunctionCall (IVar (VFun 0 [] TInt)) (IVar (VTup [])).
Example return_exits_loop_and_function :
  sig (X0 (st_fun [ILoop (IUn UReturn (IVar (VInt 5))); IVar (VInt 6)]) [[]] call0) = SVal (VInt 5).
Proof. vm_compute. reflexivity. Qed.
Example body_without_return_is_void :
  sig (X0 (st_fun [IVar (VInt 6)]) [[]] call0) = SVal VVoid.
Proof. vm_compute. reflexivity. Qed.
Example break_escaping_function_panics :
  sig (X0 (st_fun [IBreak]) [[]] call0) = SPanic.
Proof. vm_compute. reflexivity. Qed.

(* match 2 { 1, 2 => 10, _ => 20 }  and first matching type arm *)
Example match_value_second_candidate :
  sig (X0 st0 [[]] (IMatch (IVar (VInt 2))
        [ArmValue [IVar (VInt 1); IVar (VInt 2)] (IVar (VInt 10)); ArmOther (IVar (VInt 20))])) = SVal (VInt 10).
Proof. vm_compute. reflexivity. Qed.
Example match_first_type_arm_wins :
  sig (X0 st0 [[]] (IMatch (IVar (VInt 2))
        [ArmType nx TFloat (IVar (VInt 1)); ArmType nx TInt (ILocal nx (LOther TInt));
         ArmType nx TAny (IVar (VInt 3))])) = SVal (VInt 2).
Proof. vm_compute. reflexivity. Qed.
Example match_no_arm :
  sig (X0 st0 [[]] (IMatch (IVar (VInt 2)) [ArmType nx TFloat (IVar (VInt 1))])) = SPanic.
Proof. vm_compute. reflexivity. Qed.

(* C15 — types survive printing and re-parsing, for any print order of union members and
   struct fields.  Statements only; every proof is `exact <lemma>`.

   [print_ty t]       : `format!("{}", t)` — Display for Type (Model/Print.v); union members
                        and struct fields are printed in LIST order, the list order standing
                        for the hash iteration order;
   [tp_parse_type s]  : `Type::from_str(s)` — rule `type` of the regenerated grammar run by the
                        PEG model, first pair converted as `impl From<Pair> for Type` does
                        (Model/TypeParse.v); it does not require the whole text to be consumed;
   [ty_eqb]           : Rust `==` on types (unions as sets, structs as maps);
   [perm_equiv t t']  : t' is t with union member lists / struct field lists permuted at any
                        depth (Lemmas/OrderLemmas.v): t' ranges over the print orders of t;
   [plain t]          : no struct type occurs in t and every tuple has at least two members;
   [follow_t rest]    : rest is empty or starts with a character that is not white space,
                        '/', '-' or '|'.

   What is proved
   - unbounded (type_roundtrip, type_roundtrip_plain, type_roundtrip_prefix): every well-formed [plain] type, every print order, by
     induction over the PEG model, one lemma per grammar rule (Lemmas/PegTypeLemmas.v), each
     pinned to the regenerated rule body by a [reflexivity] lemma (the find_ lemmas);
   - bounded (type_roundtrip_universe): struct types included — an explicit universe of
     6401 types (all shapes of depth <= 1 over the 7 base types with <= 3 members/fields,
     depth 2 over representatives of every depth-1 shape, depth 3 along the six embedding
     contexts) and ALL 30585 orders of their member / field lists, by computation;
   - print_parenthesises: unions are parenthesised exactly under `->` and `mut`. *)
From SSL.Model Require Import Base Ty Peg Print TypeParse.
From SSL.Gen Require Import GenGrammar.
From SSL.Lemmas Require Import OrderLemmas PrintLemmas PegTypeLemmas TypeRoundtrip TypeUniverse.

Local Open Scope Z_scope.

(* ---------- unbounded, struct-free fragment ---------- *)

(* the printed text reads back as the type itself, member for member *)
Theorem type_roundtrip_plain : forall t,
  wf_ty t = true -> plain t = true -> tp_parse_type (print_ty t) = Ok t.
Proof. exact TypeRoundtrip.type_roundtrip_plain. Qed.

(* for every print order t' of t, the text of t' reads back as a type equal to t *)
Theorem type_roundtrip : forall t t',
  wf_ty t = true -> plain t = true -> perm_equiv t t' ->
  exists t'', tp_parse_type (print_ty t') = Ok t'' /\ ty_eqb t'' t = true.
Proof. exact TypeRoundtrip.type_roundtrip. Qed.

(* the type is recognised inside a longer text (as type_filter.rs relies on when it pastes
   the printed type into the source of its helper function) *)
Theorem type_roundtrip_prefix : forall t rest,
  wf_ty t = true -> plain t = true -> follow_t rest = true ->
  tp_parse_type (print_ty t ++ rest) = Ok t.
Proof. exact TypeRoundtrip.type_roundtrip_plain_prefix. Qed.

(* ---------- bounded, struct types included ---------- *)
Theorem type_roundtrip_bounded : forall t t',
  In t universe -> In t' (all_orders t) ->
  exists t'', tp_parse_type (print_ty t') = Ok t'' /\ ty_eqb t'' t = true.
Proof. exact TypeUniverse.type_roundtrip_universe. Qed.

Theorem type_universe_size :
  (N.of_nat (length universe), N.of_nat (length (flat_map all_orders universe))) = (6401%N, 30585%N).
Proof. exact TypeUniverse.universe_size. Qed.

(* ---------- print_parenthesises ---------- *)
Theorem print_fun_union_result : forall ps ms,
  print_ty (TFun ps (TMulti ms)) =
  paren (join_with s_comma (map print_ty ps)) ++ s_arrow ++ paren (join_with s_bar (map print_ty ms)).
Proof. exact PrintLemmas.print_fun_union_result. Qed.

Theorem print_fun_plain_result : forall ps r, is_multi r = false ->
  print_ty (TFun ps r) = paren (join_with s_comma (map print_ty ps)) ++ s_arrow ++ print_ty r.
Proof. exact PrintLemmas.print_fun_plain_result. Qed.

Theorem print_mut_union : forall ms,
  print_ty (TMut (TMulti ms)) = s_mut ++ paren (join_with s_bar (map print_ty ms)).
Proof. exact PrintLemmas.print_mut_union. Qed.

Theorem print_mut_plain : forall e, is_multi e = false -> print_ty (TMut e) = s_mut ++ print_ty e.
Proof. exact PrintLemmas.print_mut_plain. Qed.

(* parameters, tuple members, array elements and struct fields are delimited by brackets and
   commas: a union is printed bare there *)
Theorem print_param_union : forall ms r,
  print_ty (TFun [TMulti ms] r) =
  paren (join_with s_bar (map print_ty ms)) ++ s_arrow ++
  (if is_multi r then paren (print_ty r) else print_ty r).
Proof. exact PrintLemmas.print_param_union. Qed.

Theorem print_arr_union : forall ms, matches (TMulti ms) TNever = false ->
  print_ty (TArr (TMulti ms)) = 91 :: join_with s_bar (map print_ty ms) ++ [93].
Proof. exact PrintLemmas.print_arr_union. Qed.

Theorem print_union_members : forall ms, print_ty (TMulti ms) = join_with s_bar (map print_ty ms).
Proof. exact PrintLemmas.print_union_members. Qed.

(* ---------- the grammar rules the unbounded proof is pinned to ---------- *)
Theorem pinned_type : peg_rule_find tbl R_type =
  Some (Silent, PChoice (PCall R_multi) (PCall R_standard_types)).
Proof. exact PegTypeLemmas.find_type. Qed.
Theorem pinned_multi : peg_rule_find tbl R_multi =
  Some (Normal, PSeq (PCall R_standard_types) (PPlus (PSeq (PLit [124]) (PCall R_standard_types)))).
Proof. exact PegTypeLemmas.find_multi. Qed.
Theorem pinned_return_type : peg_rule_find tbl R_return_type =
  Some (Silent, PChoice (PCall R_standard_types) (PSeq (PLit [40]) (PSeq (PCall R_multi) (PLit [41])))).
Proof. exact PegTypeLemmas.find_return_type. Qed.
Theorem pinned_function_type : peg_rule_find tbl R_function_type =
  Some (Normal, PSeq (PCall R_function_type_params) (PSeq (PLit [45; 62]) (PCall R_return_type))).
Proof. exact PegTypeLemmas.find_function_type. Qed.
Theorem pinned_mut_type : peg_rule_find tbl R_mut_type =
  Some (Normal, PSeq (PLit [109; 117; 116]) (PCall R_return_type)).
Proof. exact PegTypeLemmas.find_mut_type. Qed.
Theorem pinned_table : peg_rule_table (g_rules grammar) = tbl.
Proof. exact PegTypeLemmas.tbl_eq. Qed.

Print Assumptions type_roundtrip.
Print Assumptions type_roundtrip_prefix.
Print Assumptions type_roundtrip_bounded.

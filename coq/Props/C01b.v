(* C01b (layer 3) — execution preserves typing.
   Statements only; every proof is an instance of a lemma of Lemmas/Sound*.v.

   Vocabulary (Lemmas/SoundDefs.v, SoundTyping.v, Sound1.v, Soundness.v):
     W : sty              a STORE TYPING: cells_t W lists the declared content type of
                          every cell, funs_t W the signature of every TRACKED closure; it only
                          grows ([ext W W']);
     vgood W v            hereditary invariant of a run-time value: every array carries a
                          well-formed element type that its elements inhabit (by tag and by
                          contents), struct keys are distinct, a cell reference
                          [VMut loc t] points to a cell declared with exactly t, a function
                          reference to a closure with exactly that signature;
     store_ok W st        every cell holds a good value of its declared type; every
                          closure has its recorded signature and a typed body;
     env_ok W sc G        every name of G (names -> types, innermost first) is bound in the
                          scopes sc to a good value of that type;
     typed W0 G K i T     the typing judgement (one rule per construct, side conditions =
                          the tests of the checker, Model/Check.v); K = (inside a loop?,
                          result type of the enclosing function); W0 types the constants
                          in the tree;
     typed_line / typed_list   statements; `x := e`, `(a, b) := e`, `f := (..){..}` extend
                          the environment for the following statements;
     signal_ok W K T s    s is not a panic; a value has type T and is good; an error is one
                          of the six documented ones; Break/Continue only inside a loop;
                          Return only inside a function, with a value of its result type;
     frag k i             i lies in the stage-k fragment (Lemmas/SoundFrag.v).
   Closure creation (IAnonFn, IFnDecl) runs the constant-propagation pass [recreate_body]
   over the body; the two rules are relative to a closure POLICY (which literals are
   accepted) and their soundness to [policy_ok powf] ("the pass preserves typing on the
   accepted literals").
   [no_fn]       : the judgement without the closure-creation and iterator rules
                   (stages 1 - 4a);
   [all_policy]  : every literal is accepted; [recreate_ok_all] PROVES policy_ok for it
                   (Lemmas/SoundRec1-3.v: the pass preserves typing, up to narrowing of the
                   types), so stage 4b holds with no hypothesis either
                   ([exec_sound_closures], [run_code_sound_closures]);
   [P : Policy]  : the general form, under the named hypothesis (Section
                   WithClosureCreation);
   [policy6]     : stage 6, the iterator operators `$]`, `$init f`, `? T`, `\` (rules T_Collect,
                   T_Reduce, T_TypeFilter, T_Partition).  `$+ $* $&& $|| $& $|` are planted by the
                   checker as calls of the reducer closures (for `$+ $*`: chosen by the STATIC
                   type of the operand, a `match` over iterator types when it allows several):
                   rules T_Call / T_Match, under every policy.  [policy6] allows the four
                   gated rules and the closure literals whose body is typed without them;
                   [policy6_ok] PROVES policy_ok for it, [boot_store_ok] /
                   [boot_reducers_ok] that the store the driver boots from the helper sources
                   is typed and the planted reducers are good values of it (Section Iterators;
                   [run_boot_sound]).
                   The four rules are gated by the REJECTION of a reserved key of the
                   policy, so they are absent under [all_policy] and [no_fn]: the pass does
                   NOT preserve the rules that read the element type off the static type
                   ([recreate_iterator_refuted]).
   SPanic = the implementation would panic; SFuel = the model ran out of fuel. *)
From SSL.Model Require Import Base Ty Float Value Ops Seq Syntax Rt Recreate Exec Check Top.
From SSL.Lemmas Require Import TyLemmas ValueLemmas ExecLemmas SoundLemmas CellLemmas
  SoundDefs SoundVals SoundTyping Sound1 Sound2 Sound3 Sound4 Sound5 SoundRec1 Sound6
  SoundRec2 SoundRec3 Soundness SoundFrag Sound7 SoundHelpers SoundBoot.
Local Open Scope Z_scope.

Definition no_fn : Policy := no_fn_policy.

(* ================================================================= *)
(* the judgement agrees with the checker's own type computation       *)
(* ================================================================= *)
Theorem typed_rt : forall (FL : Policy) W0 G K i T, typed W0 G K i T -> rt i = Ok T.
Proof. exact @SoundTyping.typed_rt. Qed.

Theorem typed_wf : forall (FL : Policy) W0 G K i T,
  typed W0 G K i T -> (forall n U, assoc n G = Some U -> wf_ty U = true) -> wf_ty T = true.
Proof. exact @SoundTyping.typed_wf. Qed.

Theorem typed_frag : forall (FL : Policy) W0 G K i T, typed W0 G K i T -> frag 6 i = true.
Proof. exact @SoundFrag.typed_frag. Qed.
Theorem typed_frag_nofn : forall W0 G K i T, @typed no_fn W0 G K i T -> frag 4 i = true.
Proof. exact SoundFrag.typed_frag_nofn. Qed.

(* ================================================================= *)
(* values                                                             *)
(* ================================================================= *)
Theorem vgood_self : forall W v, vgood W v -> has_type v (as_type v) = true.
Proof. exact SoundDefs.vgood_self. Qed.
Theorem vgood_vwf : forall W v, vgood W v -> vwf v = true.
Proof. exact SoundDefs.vgood_vwf. Qed.
Theorem vgood_mono : forall W W' v, ext W W' -> vgood W v -> vgood W' v.
Proof. exact SoundDefs.vgood_mono. Qed.

(* the access forms land in the type the checker computes, also on unions *)
Theorem tuple_access_sound : forall k T v R,
  wf_ty T = true -> has_type v T = true -> tuple_element_at k T = Some R ->
  exists vs x, v = VTup vs /\ nth_error vs k = Some x /\ has_type x R = true.
Proof. exact SoundVals.tuple_access_sound. Qed.
Theorem field_access_sound : forall f T v R,
  wf_ty T = true -> has_type v T = true -> field_type f T = Some R ->
  exists fs x, v = VStruct fs /\ assoc f fs = Some x /\ has_type x R = true.
Proof. exact SoundVals.field_access_sound. Qed.
Theorem deref_sound : forall T v R,
  wf_ty T = true -> content_in v T = true -> mut_element_type_spec T = Some R ->
  exists loc ct, v = VMut loc ct /\ matches ct R = true.
Proof. exact SoundVals.deref_sound. Qed.
Theorem slice_sound : forall W T v a b c r,
  vgood W v -> has_type v T = true -> slice_exec v a b c = Ok r -> has_type r T = true.
Proof. exact SoundVals.slice_sound. Qed.
Theorem flatten_sound : forall T v ts,
  wf_ty T = true -> has_type v T = true -> flatten_tuple T = Some ts ->
  exists vs, v = VTup vs /\ all2 has_type vs ts = true.
Proof. exact SoundVals.flatten_sound. Qed.
(* the checker's test before `(a, b) := e` guarantees the rule's premise *)
Theorem destruct_guard : forall T n,
  tuple_len T = Some n -> exists ts, flatten_tuple T = Some ts /\ length ts = n.
Proof. exact SoundVals.destruct_guard. Qed.
Theorem fun_value_sound : forall Tf lv ps R,
  wf_ty Tf = true -> content_in lv Tf = true ->
  Ty.params Tf = Some ps -> fn_return_type Tf = Some R ->
  exists fid ps' r', lv = VFun fid ps' r' /\ all2 matches ps ps' = true /\ matches r' R = true.
Proof. exact Sound4.fun_value_sound. Qed.

(* "an accepted match always has such an arm": with the coverage test of the checker
   some type arm accepts the run-time tag of the scrutinee, or there is an `_` arm *)
Theorem match_covers_fires : forall v T arms,
  has_type v T = true -> match_covers arms T = true -> existsb (arm_fires v) arms = true.
Proof. exact Sound2.covers_fire. Qed.

Section C01b.
Variable powf : fbits -> fbits -> fbits.
Variable pre : prelude.
Notation E := (exec powf pre).

Lemma no_fn_rec : @policy_ok no_fn powf.
Proof.
  intros W0 G nm ps body r G' Ts [_ ->] Wf. exfalso.
  cbn [wf_ty] in Wf. apply andb_true_iff in Wf. destruct Wf as [_ Wf]. discriminate Wf.
Qed.

(* ================================================================= *)
(* the preservation theorem, stages 1 - 4a, no hypothesis             *)
(* ================================================================= *)
Section Unconditional.
Existing Instance no_fn.

Theorem exec_sound : forall n W0 G K i T W st sc st' sc' s,
  typed W0 G K i T -> ext W0 W -> store_ok W st -> env_ok W sc G ->
  E n st sc i = (st', sc', s) ->
  sc' = sc /\
  exists W', ext W W' /\ store_ok W' st' /\ env_ok W' sc' G /\ signal_ok W' K T s.
Proof. exact (Soundness.exec_sound powf pre no_fn_rec). Qed.

Theorem exec_sound_line : forall n W0 G K i T G' W st sc st' sc' s,
  typed_line W0 G K i T G' -> ext W0 W -> store_ok W st -> env_ok W sc G ->
  E n st sc i = (st', sc', s) ->
  exists W', ext W W' /\ store_ok W' st' /\ signal_ok W' K T s /\
    (forall v, s = SVal v -> env_ok W' sc' G').
Proof. exact (Soundness.exec_sound_line powf pre no_fn_rec). Qed.

Theorem exec_sound_list : forall n W0 G K l G' Ts W st sc st' sc' o s,
  typed_list W0 G K l G' Ts -> ext W0 W -> store_ok W st -> env_ok W sc G ->
  ex_list_def (E n) l st sc = (st', sc', o, s) ->
  exists W', ext W W' /\ store_ok W' st' /\
    match o with
    | Ok vs => Forall2 (gv W') vs Ts /\ env_ok W' sc' G'
    | _ => nonval s /\ signal_ok W' K TNever s
    end.
Proof. exact (Soundness.exec_sound_list powf pre no_fn_rec). Qed.

(* Code::exec on a typed top-level program *)
Theorem run_code_sound : forall n W0 G l G' Ts,
  typed_list W0 G (mkK false None) l G' Ts ->
  forall W st sc last Tl, ext W0 W -> store_ok W st -> env_ok W sc G -> gv W last Tl ->
  exists W', ext W W' /\ store_ok W' (sto (run_code powf pre n st sc l last)) /\
    match sig (run_code powf pre n st sc l last) with
    | SVal v => gv W' v (List.last Ts Tl) /\
                env_ok W' (scs (run_code powf pre n st sc l last)) G'
    | SError e => doc_err e
    | SFuel => True
    | _ => False
    end.
Proof. exact (Soundness.run_code_sound powf pre no_fn_rec). Qed.

(* ---- the stages, by fragment ---- *)
Theorem exec_sound_k : forall k n W0 G K i T W st sc st' sc' s,
  frag k i = true ->
  typed W0 G K i T -> ext W0 W -> store_ok W st -> env_ok W sc G ->
  E n st sc i = (st', sc', s) ->
  sc' = sc /\
  exists W', ext W W' /\ store_ok W' st' /\ env_ok W' sc' G /\ signal_ok W' K T s.
Proof. intros k n W0 G K i T W st sc st' sc' s _. apply exec_sound. Qed.

Definition exec_sound_1 := exec_sound_k 1.
Definition exec_sound_2 := exec_sound_k 2.
Definition exec_sound_3 := exec_sound_k 3.
Definition exec_sound_4 := exec_sound_k 4.

(* ---- headline corollaries ---- *)
Theorem no_panic : forall n W0 G K i T W st sc,
  typed W0 G K i T -> ext W0 W -> store_ok W st -> env_ok W sc G ->
  sig (E n st sc i) <> SPanic.
Proof.
  intros n W0 G K i T W st sc Ht HE HS HG.
  destruct (E n st sc i) as [[st' sc'] s] eqn:Hex.
  destruct (exec_sound _ _ _ _ _ _ _ _ _ _ _ _ Ht HE HS HG Hex) as [_ [W' [_ [_ [_ [NP _]]]]]].
  exact NP.
Qed.

Theorem value_in_static_type : forall n W0 G K i T W st sc st' sc' v,
  typed W0 G K i T -> ext W0 W -> store_ok W st -> env_ok W sc G ->
  E n st sc i = (st', sc', SVal v) ->
  rt i = Ok T /\ has_type v T = true.
Proof.
  intros n W0 G K i T W st sc st' sc' v Ht HE HS HG Hex.
  split; [apply (SoundTyping.typed_rt _ _ _ _ _ Ht)|].
  destruct (exec_sound _ _ _ _ _ _ _ _ _ _ _ _ Ht HE HS HG Hex) as [_ [W' [_ [_ [_ [_ [HV _]]]]]]].
  apply (HV v eq_refl).
Qed.

Theorem only_documented_errors : forall n W0 G K i T W st sc st' sc' e,
  typed W0 G K i T -> ext W0 W -> store_ok W st -> env_ok W sc G ->
  E n st sc i = (st', sc', SError e) ->
  e = E_IndexOutOfBounds \/ e = E_NegativeLength \/ e = E_NegativeExponent \/
  e = E_ZeroDivision \/ e = E_ZeroModulo \/ e = E_OverflowShift.
Proof.
  intros n W0 G K i T W st sc st' sc' e Ht HE HS HG Hex.
  destruct (exec_sound _ _ _ _ _ _ _ _ _ _ _ _ Ht HE HS HG Hex) as [_ [W' [_ [_ [_ [_ [_ [HErr _]]]]]]]].
  specialize (HErr e eq_refl). unfold doc_err in HErr. cbn [In] in HErr.
  destruct HErr as [H|[H|[H|[H|[H|[H|[]]]]]]]; subst; tauto.
Qed.

Theorem break_continue_only_in_loops : forall n W0 G K i T W st sc,
  typed W0 G K i T -> ext W0 W -> store_ok W st -> env_ok W sc G ->
  in_loop K = false ->
  sig (E n st sc i) <> SBreak /\ sig (E n st sc i) <> SContinue.
Proof.
  intros n W0 G K i T W st sc Ht HE HS HG HK.
  destruct (E n st sc i) as [[st' sc'] s] eqn:Hex.
  destruct (exec_sound _ _ _ _ _ _ _ _ _ _ _ _ Ht HE HS HG Hex) as [_ [W' [_ [_ [_ [_ [_ [_ [HB _]]]]]]]]].
  unfold sig. cbn [snd]. split; intros ->; rewrite HB in HK; auto; discriminate HK.
Qed.

Theorem return_only_in_functions : forall n W0 G K i T W st sc st' sc' v,
  typed W0 G K i T -> ext W0 W -> store_ok W st -> env_ok W sc G ->
  E n st sc i = (st', sc', SReturn v) ->
  exists Tr, ret K = Some Tr /\ has_type v Tr = true.
Proof.
  intros n W0 G K i T W st sc st' sc' v Ht HE HS HG Hex.
  destruct (exec_sound _ _ _ _ _ _ _ _ _ _ _ _ Ht HE HS HG Hex) as [_ [W' [_ [_ [_ [_ [_ [_ [_ HR]]]]]]]]].
  destruct (HR v eq_refl) as [Tr [A [B _]]]. eauto.
Qed.

Theorem scopes_unchanged : forall n W0 G K i T W st sc,
  typed W0 G K i T -> ext W0 W -> store_ok W st -> env_ok W sc G ->
  scs (E n st sc i) = sc.
Proof.
  intros n W0 G K i T W st sc Ht HE HS HG.
  destruct (E n st sc i) as [[st' sc'] s] eqn:Hex.
  destruct (exec_sound _ _ _ _ _ _ _ _ _ _ _ _ Ht HE HS HG Hex) as [Hsc _]. exact Hsc.
Qed.

(* an accepted match never reaches the panicking `[]` arm of the interpreter:
   in a typed configuration the arm loop does not end in a panic, for any scrutinee value
   of the static scrutinee type *)
Theorem match_total : forall n W0 G K arms Ts Tx v W st sc,
  typed_arms W0 G K arms Ts -> match_covers arms Tx = true ->
  has_type v Tx = true -> vgood W v ->
  ext W0 W -> store_ok W st -> env_ok W sc G ->
  sig (match_arms_def (E n) v arms st sc) <> SPanic.
Proof.
  intros n W0 G K arms Ts Tx v W st sc Ha Hc Hv Hg HE HS HG.
  apply (Sound2.match_total_arms powf pre n (proj1 (Soundness.sound_all powf pre no_fn_rec n))
           W0 G K arms Ts Tx v W st sc Ha Hc); [split; assumption|].
  split; [exact HE|split; assumption].
Qed.

(* ... whereas without coverage the loop does run off its end *)
Theorem match_uncovered_panics : forall n st sc v,
  match_arms_def (E n) v [] st sc = (st, sc, SPanic).
Proof. intros. reflexivity. Qed.

End Unconditional.

(* ================================================================= *)
(* stage 4b: with closure creation, under a hypothesis on the          *)
(* constant-propagation pass                                          *)
(* ================================================================= *)
Section WithClosureCreation.
Variable P : Policy.
Existing Instance P.
Hypothesis recreate_preserves_typing : policy_ok powf.
Notation with_fn_rec := recreate_preserves_typing.

Theorem exec_sound_fn : forall n W0 G K i T W st sc st' sc' s,
  typed W0 G K i T -> ext W0 W -> store_ok W st -> env_ok W sc G ->
  E n st sc i = (st', sc', s) ->
  sc' = sc /\
  exists W', ext W W' /\ store_ok W' st' /\ env_ok W' sc' G /\ signal_ok W' K T s.
Proof. exact (Soundness.exec_sound powf pre with_fn_rec). Qed.

Theorem exec_sound_line_fn : forall n W0 G K i T G' W st sc st' sc' s,
  typed_line W0 G K i T G' -> ext W0 W -> store_ok W st -> env_ok W sc G ->
  E n st sc i = (st', sc', s) ->
  exists W', ext W W' /\ store_ok W' st' /\ signal_ok W' K T s /\
    (forall v, s = SVal v -> env_ok W' sc' G').
Proof. exact (Soundness.exec_sound_line powf pre with_fn_rec). Qed.

Theorem run_code_sound_fn : forall n W0 G l G' Ts,
  typed_list W0 G (mkK false None) l G' Ts ->
  forall W st sc last Tl, ext W0 W -> store_ok W st -> env_ok W sc G -> gv W last Tl ->
  exists W', ext W W' /\ store_ok W' (sto (run_code powf pre n st sc l last)) /\
    match sig (run_code powf pre n st sc l last) with
    | SVal v => gv W' v (List.last Ts Tl) /\
                env_ok W' (scs (run_code powf pre n st sc l last)) G'
    | SError e => doc_err e
    | SFuel => True
    | _ => False
    end.
Proof. exact (Soundness.run_code_sound powf pre with_fn_rec). Qed.

End WithClosureCreation.

(* ---- ... and the hypothesis is a theorem for the policy that accepts every literal ---- *)
Theorem recreate_preserves_typing_all : @policy_ok all_policy powf.
Proof. exact (SoundRec3.recreate_ok_all powf). Qed.

Section Closures.
Existing Instance all_policy.

Theorem exec_sound_closures : forall n W0 G K i T W st sc st' sc' s,
  typed W0 G K i T -> ext W0 W -> store_ok W st -> env_ok W sc G ->
  E n st sc i = (st', sc', s) ->
  sc' = sc /\
  exists W', ext W W' /\ store_ok W' st' /\ env_ok W' sc' G /\ signal_ok W' K T s.
Proof. exact (exec_sound_fn all_policy recreate_preserves_typing_all). Qed.

Theorem exec_sound_line_closures : forall n W0 G K i T G' W st sc st' sc' s,
  typed_line W0 G K i T G' -> ext W0 W -> store_ok W st -> env_ok W sc G ->
  E n st sc i = (st', sc', s) ->
  exists W', ext W W' /\ store_ok W' st' /\ signal_ok W' K T s /\
    (forall v, s = SVal v -> env_ok W' sc' G').
Proof. exact (exec_sound_line_fn all_policy recreate_preserves_typing_all). Qed.

Theorem run_code_sound_closures : forall n W0 G l G' Ts,
  typed_list W0 G (mkK false None) l G' Ts ->
  forall W st sc last Tl, ext W0 W -> store_ok W st -> env_ok W sc G -> gv W last Tl ->
  exists W', ext W W' /\ store_ok W' (sto (run_code powf pre n st sc l last)) /\
    match sig (run_code powf pre n st sc l last) with
    | SVal v => gv W' v (List.last Ts Tl) /\
                env_ok W' (scs (run_code powf pre n st sc l last)) G'
    | SError e => doc_err e
    | SFuel => True
    | _ => False
    end.
Proof. exact (run_code_sound_fn all_policy recreate_preserves_typing_all). Qed.

(* the constant-propagation pass preserves typing, up to narrowing: in LocalVariables e and
   scopes sc that agree with the typing environment G ([renv]: a name is either a constant
   of its type, or a local of a smaller type recorded in G2, or bound in sc to a good value),
   recreating a typed instruction does not panic, reports only documented errors, leaves e
   unchanged and yields an instruction typed under G2 with a type below the old one *)
Theorem recreate_preserves_typing : forall sc W n W0 G K i T e G2,
  typed W0 G K i T -> ext W0 W -> renv W sc e G G2 ->
  match recreate powf n sc e i with
  | Ok (i', e') => e' = e /\ exists T', typed W G2 K i' T' /\ matches T' T = true
  | Err x => doc_err x
  | Panic => False
  | OutOfFuel => True
  end.
Proof.
  intros sc W n W0 G K i T e G2 Ht HE HR.
  assert (pol : forall W1 G1 nm1 ps1 body1 r1, @closure_ok all_policy W1 G1 nm1 ps1 body1 r1)
    by (intros; exact I).
  pose proof (proj1 (@rec_all_fuel all_policy pol powf sc W n) W0 G K i T Ht HE e G2 HR) as C.
  destruct (recreate powf n sc e i) as [[i' e']| | |]; exact C.
Qed.

(* the same for a statement (`x := e`, `(a, b) := e`, `f := (..){..}` extend both
   environments): this is what Code::parse does to every top-level statement *)
Theorem recreate_line_preserves_typing : forall sc W n W0 G K i T G' e G2,
  typed_line W0 G K i T G' -> ext W0 W -> renv W sc e G G2 ->
  match recreate powf n sc e i with
  | Ok (i', e') => exists T' G2', typed_line W G2 K i' T' G2' /\ matches T' T = true /\
                                  renv W sc e' G' G2'
  | Err x => doc_err x
  | Panic => False
  | OutOfFuel => True
  end.
Proof.
  intros sc W n W0 G K i T G' e G2 Ht HE HR.
  assert (pol : forall W1 G1 nm1 ps1 body1 r1, @closure_ok all_policy W1 G1 nm1 ps1 body1 r1)
    by (intros; exact I).
  pose proof (proj2 (@rec_all_fuel all_policy pol powf sc W n) W0 G K i T G' Ht HE e G2 HR) as C.
  destruct (recreate powf n sc e i) as [[i' e']| | |]; exact C.
Qed.

End Closures.

(* ================================================================= *)
(* stage 6: the iterator operators                                    *)
(* ================================================================= *)
Section Iterators.

(* the hypothesis of the general form is a theorem for [policy6] *)
Theorem policy6_sound : @policy_ok policy6 powf.
Proof. exact (Sound7.policy6_ok powf). Qed.

(* the gated iterator rules are available *)
Theorem iter_gate_6 : forall W0 G i, @iter_gate policy6 W0 G i.
Proof. exact Sound7.gate6. Qed.

(* everything typed with closure literals and without the gated rules stays typed; this
   includes the planted forms of `$+ $* $&& $|| $& $|` *)
Theorem typed_closures_in_6 : forall W0 G K i T,
  @typed all_policy W0 G K i T -> @typed policy6 W0 G K i T.
Proof. intros W0. exact (proj1 (Sound7.typed_all_in_6 W0)). Qed.
Theorem typed_list_closures_in_6 : forall W0 G K l G' Ts,
  @typed_list all_policy W0 G K l G' Ts -> @typed_list policy6 W0 G K l G' Ts.
Proof. intros W0. exact (proj1 (proj2 (proj2 (proj2 (proj2 (proj2 (Sound7.typed_all_in_6 W0))))))). Qed.

Theorem exec_sound_6 : forall n W0 G K i T W st sc st' sc' s,
  @typed policy6 W0 G K i T -> ext W0 W -> @store_ok policy6 W st -> env_ok W sc G ->
  E n st sc i = (st', sc', s) ->
  sc' = sc /\
  exists W', ext W W' /\ @store_ok policy6 W' st' /\ env_ok W' sc' G /\ signal_ok W' K T s.
Proof. exact (exec_sound_fn policy6 policy6_sound). Qed.

Theorem exec_sound_line_6 : forall n W0 G K i T G' W st sc st' sc' s,
  @typed_line policy6 W0 G K i T G' -> ext W0 W -> @store_ok policy6 W st ->
  env_ok W sc G ->
  E n st sc i = (st', sc', s) ->
  exists W', ext W W' /\ @store_ok policy6 W' st' /\ signal_ok W' K T s /\
    (forall v, s = SVal v -> env_ok W' sc' G').
Proof. exact (exec_sound_line_fn policy6 policy6_sound). Qed.

Theorem run_code_sound_6 : forall n W0 G l G' Ts,
  @typed_list policy6 W0 G (mkK false None) l G' Ts ->
  forall W st sc last Tl, ext W0 W -> @store_ok policy6 W st -> env_ok W sc G -> gv W last Tl ->
  exists W', ext W W' /\ @store_ok policy6 W' (sto (run_code powf pre n st sc l last)) /\
    match sig (run_code powf pre n st sc l last) with
    | SVal v => gv W' v (List.last Ts Tl) /\
                env_ok W' (scs (run_code powf pre n st sc l last)) G'
    | SError e => doc_err e
    | SFuel => True
    | _ => False
    end.
Proof. exact (run_code_sound_fn policy6 policy6_sound). Qed.

End Iterators.

End C01b.

(* ================================================================= *)
(* a real defect (found here, since repaired): assignment through a union of cell types *)
(* ================================================================= *)
(* Before the repair the checker accepted `c = e` (and `c op= e`) when the static type of c
   is a UNION of cell types, testing e only against the union of the content types
   ([assign_ok_single] applied to the union).  Cells are invariant, so the write can put a
   value into a cell whose declared content type excludes it:

     a := mut 1;                              // a : mut int
     b := mut true;
     c := if *b { a } else { mut 1.5 };       // c : mut int | mut float   (c IS a)
     c = 2.5;                                 // was accepted: float matches int | float
     *a + 1                                   // *a : int, but the cell holds 2.5: PANIC

   ("Tried to do 2.5 + 1 which is imposible", src/instruction/bin_op/math/add.rs; confirmed
   on the implementation).  The repaired checker ([Check.assign_ok], `multi.iter().all(..)`)
   tests the assignment against EVERY member of a union target; that is exactly what the
   rules T_Assign / T_OpAssign need ([Sound3.assign_target]), so [exec_sound] now covers
   union targets too. *)
Definition powf0 : fbits -> fbits -> fbits := fun _ _ => CANON_NAN.
Definition pre0 : prelude := mkPrelude 0 0 0 0 0 0 0 0.
Definition red0 : reducers := mkReducers VVoid VVoid VVoid VVoid [] [].
Definition st0 : store := mkStore [] [] [].
Definition na : name := [97]. Definition nb : name := [98]. Definition nc : name := [99].
Definition F_2_5 : fbits := 4612811918334230528.     (* 2.5 *)
Definition F_1_5 : fbits := 4609434218613702656.     (* 1.5 *)
Definition t_cells : ty := TMulti [TMut TInt; TMut TFloat].

Definition src_union_assign : list sline :=
 [ LSet na (SExpr (XMut None (XConst (VInt 1))));
   LSet nb (SExpr (XMut None (XConst (VBool true))));
   LSet nc (SIfElse (XPrefix PDeref (XIdent nb)) (SBlock [LStm (SExpr (XIdent na))])
                    (Some (SBlock [LStm (SExpr (XMut None (XConst (VFloat F_1_5))))])));
   LStm (SExpr (XInfix Assign (XIdent nc) (XConst (VFloat F_2_5))));
   LStm (SExpr (XInfix Add (XPrefix PDeref (XIdent na)) (XConst (VInt 1)))) ].

(* the instruction tree the unrepaired checker built for it *)
Definition prog_union_assign : list instr :=
 [ ISet na (IMut TInt (IVar (VInt 1)));
   ISet nb (IMut TBool (IVar (VBool true)));
   ISet nc (IIfElse (IUn UIndirection (ILocal nb (LOther (TMut TBool))))
              (IBlock [ILocal na (LOther (TMut TInt))])
              (IBlock [IMut TFloat (IVar (VFloat F_1_5))]));
   IBin Assign (ILocal nc (LOther t_cells)) (IVar (VFloat F_2_5));
   IBin Add (IUn UIndirection (ILocal na (LOther (TMut TInt)))) (IVar (VInt 1)) ].

(* the old test passes on the union; the repaired one rejects, and so does the checker *)
Theorem assign_union_old_test_vs_repaired :
  assign_ok_single t_cells TFloat (fun _ _ => true) (fun _ x => Ok x) = Ok true /\
  can_be_used Assign t_cells TFloat = Ok false /\
  check_lines red0 50 [[]] [mkLayer [] None false] src_union_assign = Err E_Reject.
Proof. vm_compute. repeat split. Qed.

(* running the tree panics; the cell declared `mut int` holds a float *)
Theorem assign_union_refuted :
  sig (run_code powf0 pre0 50 st0 [[]] prog_union_assign VVoid) = SPanic /\
  s_cells (sto (run_code powf0 pre0 50 st0 [[]] prog_union_assign VVoid))
    = [VFloat F_2_5; VBool true] /\
  has_type (VFloat F_2_5) TInt = false.
Proof. vm_compute. repeat split. Qed.

(* the offending step in isolation: every premise of the "naive" assignment rule
   (lhs : L, mut_element_type_spec L = Some t, the old test on L) holds, the store is typed
   before the write and is not typed by ANY store typing that keeps the cell's declaration
   afterwards *)
Theorem assign_union_breaks_store :
  let W := mkW [TInt] [] in
  let st := mkStore [] [VInt 1] [] in
  let lv := VMut 0 TInt in
  let rv := VFloat F_2_5 in
  @store_ok no_fn W st /\ gv W lv t_cells /\ gv W rv TFloat /\
  mut_element_type_spec t_cells = Some (TMulti [TInt; TFloat]) /\
  assign_ok_single t_cells TFloat (fun _ _ => true) (fun _ x => Ok x) = Ok true /\
  bin_dispatch powf0 pre0 (exec powf0 pre0 0) 0 Assign lv rv st [[]]
    = (write_cell st 0 rv, [[]], SVal rv) /\
  forall W', ext W W' -> ~ @store_ok no_fn W' (write_cell st 0 rv).
Proof.
  cbn zeta. split; [|split; [|split; [|split; [|split; [|split]]]]].
  - split; [split; [reflexivity|]|split; [reflexivity|]].
    + intros [|loc] t H; [|destruct loc; discriminate H]. injection H as <-.
      exists (VInt 1). split; [reflexivity|]. split; [reflexivity|exact I].
    + intros [|id] c sg H; discriminate H.
  - split; [vm_compute; reflexivity|]. split; reflexivity.
  - split; [reflexivity|exact I].
  - vm_compute. reflexivity.
  - vm_compute. reflexivity.
  - reflexivity.
  - intros W' [HE _] [[_ HC] _].
    destruct (HC 0%nat TInt (HE 0%nat TInt eq_refl)) as [c [Hc [Ht _]]].
    cbn in Hc. injection Hc as <-. vm_compute in Ht. discriminate Ht.
Qed.

(* the same through a compound assignment (also confirmed on the implementation):
     a := mut [1];  b := mut true;  d := mut [int|string] [2];
     c := if *b { a } else { d };        // c : mut [int] | mut [int|string]
     c += ["x"];                         // was accepted
     ( *a )[1] + 1                       // *a : [int], but holds [1, "x"]: PANIC ("x" + 1) *)
Definition nd : name := [100].
Definition t_is : ty := TMulti [TInt; TString].
Definition t_arr_cells : ty := TMulti [TMut (TArr TInt); TMut (TArr t_is)].
Definition prog_union_opassign : list instr :=
 [ ISet na (IMut (TArr TInt) (IArray [IVar (VInt 1)] TInt));
   ISet nb (IMut TBool (IVar (VBool true)));
   ISet nd (IMut (TArr t_is) (IArray [IVar (VInt 2)] TInt));
   ISet nc (IIfElse (IUn UIndirection (ILocal nb (LOther (TMut TBool))))
              (IBlock [ILocal na (LOther (TMut (TArr TInt)))])
              (IBlock [ILocal nd (LOther (TMut (TArr t_is)))]));
   IBin AssignAdd (ILocal nc (LOther t_arr_cells)) (IArray [IVar (VString [120])] TString);
   IBin Add (IBin At (IUn UIndirection (ILocal na (LOther (TMut (TArr TInt))))) (IVar (VInt 1)))
            (IVar (VInt 1)) ].
Theorem opassign_union_refuted :
  assign_ok_single t_arr_cells (TArr TString) can_be_used_add add_return_type = Ok true /\
  can_be_used AssignAdd t_arr_cells (TArr TString) = Ok false /\
  sig (run_code powf0 pre0 50 st0 [[]] prog_union_opassign VVoid) = SPanic /\
  nth_error (s_cells (sto (run_code powf0 pre0 50 st0 [[]] prog_union_opassign VVoid))) 0
    = Some (VArr t_is [VInt 1; VString [120]]).
Proof. vm_compute. repeat split. Qed.

(* ================================================================= *)
(* examples: the premises are satisfiable, the conclusions say something *)
(* ================================================================= *)
(* the typing tactics [ty], [tylist], [tyc], [side] are those of Lemmas/SoundBoot.v *)
Lemma store_ok_empty (FL : Policy) : store_ok W_empty st0.
Proof.
  split; (split; [reflexivity|]).
  - intros [|loc] t H; discriminate H.
  - intros [|id] c sg H; discriminate H.
Qed.

Lemma env_ok_empty W sc : env_ok W sc [].
Proof. intros n T H. discriminate H. Qed.

Definition K0 : kctx := mkK false None.
Definition nx : name := [120]. Definition ns : name := [115]. Definition nv : name := [118].
Definition nf : name := [102].
Definition int_or_string : ty := TMulti [TInt; TString].
Definition X0 := exec powf0 pre0 60.

(* ---- stage 1: ([1, "a"][0], "abc"[0:2], -(1 + 2) < 4 && true) ---- *)
Definition ex1 : instr :=
  ITuple [ IBin At (IArray [IVar (VInt 1); IVar (VString [97])] int_or_string) (IVar (VInt 0));
           ISlicing (IVar (VString [97; 98; 99])) (Some (IVar (VInt 0))) (Some (IVar (VInt 2))) None;
           IBin And (IBin Lower (IUn UUnaryMinus (IBin Add (IVar (VInt 1)) (IVar (VInt 2))))
                               (IVar (VInt 4)))
                    (IVar (VBool true)) ].
Example ex1_typed : @typed no_fn W_empty [] K0 ex1 (TTup [int_or_string; TString; TBool]).
Proof. tyc. Qed.
Example ex1_runs :
  X0 st0 [[]] ex1 = (st0, [[]], SVal (VTup [VInt 1; VString [97; 98]; VBool true])).
Proof. vm_compute. reflexivity. Qed.
Example ex1_sound :
  rt ex1 = Ok (TTup [int_or_string; TString; TBool]) /\
  has_type (VTup [VInt 1; VString [97; 98]; VBool true]) (TTup [int_or_string; TString; TBool]) = true.
Proof.
  apply (value_in_static_type powf0 pre0 60 W_empty [] K0 ex1 _ W_empty st0 [[]] _ _ _ ex1_typed
           (ext_refl _) (store_ok_empty _) (env_ok_empty _ _) ex1_runs).
Qed.

(* ---- an `if` producing int | string ---- *)
Definition ex_if : instr :=
  IIfElse (IBin Lower (IVar (VInt 1)) (IVar (VInt 2))) (IVar (VInt 1)) (IVar (VString [97])).
Example ex_if_typed : @typed no_fn W_empty [] K0 ex_if int_or_string.
Proof. tyc. Qed.
Example ex_if_runs : X0 st0 [[]] ex_if = (st0, [[]], SVal (VInt 1)).
Proof. vm_compute. reflexivity. Qed.
Example ex_if_sound : has_type (VInt 1) int_or_string = true.
Proof.
  apply (value_in_static_type powf0 pre0 60 W_empty [] K0 ex_if _ W_empty st0 [[]] _ _ _ ex_if_typed
           (ext_refl _) (store_ok_empty _) (env_ok_empty _ _) ex_if_runs).
Qed.

(* ---- a loop with a cell:  x := mut 0; loop { x += 1; if *x == 3 { break } }; *x ---- *)
Definition tcell := LOther (TMut TInt).
Definition ex_loop : instr :=
  IBlock [ ISet nx (IMut TInt (IVar (VInt 0)));
           ILoop (IBlock [ IBin AssignAdd (ILocal nx tcell) (IVar (VInt 1));
                           IIfElse (IBin Equal (IUn UIndirection (ILocal nx tcell)) (IVar (VInt 3)))
                                   IBreak (IVar VVoid) ]);
           IUn UIndirection (ILocal nx tcell) ].
Example ex_loop_typed : @typed no_fn W_empty [] K0 ex_loop TInt.
Proof. tyc. Qed.
Example ex_loop_runs :
  sig (X0 st0 [[]] ex_loop) = SVal (VInt 3) /\ s_cells (sto (X0 st0 [[]] ex_loop)) = [VInt 3].
Proof. vm_compute. split; reflexivity. Qed.
(* the theorem at work: whatever the fuel, no panic, and Break does not leave the loop *)
Example ex_loop_sound : forall n,
  sig (exec powf0 pre0 n st0 [[]] ex_loop) <> SPanic /\
  sig (exec powf0 pre0 n st0 [[]] ex_loop) <> SBreak.
Proof.
  intros n. split.
  - apply (no_panic powf0 pre0 n W_empty [] K0 ex_loop TInt W_empty st0 [[]] ex_loop_typed
             (ext_refl _) (store_ok_empty _) (env_ok_empty _ _)).
  - apply (break_continue_only_in_loops powf0 pre0 n W_empty [] K0 ex_loop TInt W_empty st0 [[]]
             ex_loop_typed (ext_refl _) (store_ok_empty _) (env_ok_empty _ _) eq_refl).
Qed.
(* break outside a loop is not typable in K0, and does escape *)
Example break_escapes : sig (X0 st0 [[]] (IBlock [IBreak])) = SBreak.
Proof. vm_compute. reflexivity. Qed.

(* ---- a match on a union:
      v := if *b { 1 } else { "a" };  match v { x: int => x + 1, s: string => 0 } ---- *)
Definition ex_match : instr :=
  IBlock [ ISet nb (IMut TBool (IVar (VBool false)));
           ISet nv (IIfElse (IUn UIndirection (ILocal nb (LOther (TMut TBool))))
                            (IVar (VInt 1)) (IVar (VString [97])));
           IMatch (ILocal nv (LOther int_or_string))
             [ ArmType nx TInt (IBin Add (ILocal nx (LOther TInt)) (IVar (VInt 1)));
               ArmType ns TString (IVar (VInt 0)) ] ].
Example ex_match_typed : @typed no_fn W_empty [] K0 ex_match TInt.
Proof. tyc. Qed.
Example ex_match_runs : sig (X0 st0 [[]] ex_match) = SVal (VInt 0).
Proof. vm_compute. reflexivity. Qed.
(* dropping the string arm: rejected by coverage, and the run does panic *)
Example ex_match_uncovered :
  match_covers [ArmType nx TInt (IVar (VInt 0))] int_or_string = false /\
  sig (X0 st0 [[]] (IMatch (IVar (VString [97])) [ArmType nx TInt (IVar (VInt 0))])) = SPanic.
Proof. vm_compute. split; reflexivity. Qed.

(* ---- assignment through a union of cells, as the repaired checker accepts it:
      a := mut 1;  d := mut int|float 2;  b := mut true;
      c := if *b { a } else { d };        // c : mut int | mut (int|float)
      c = 3;                              // int fits the content type of EVERY member
      *a + 1 ---- *)
Definition t_if : ty := TMulti [TInt; TFloat].
Definition ex_union_assign : instr :=
  IBlock [ ISet na (IMut TInt (IVar (VInt 1)));
           ISet nd (IMut t_if (IVar (VInt 2)));
           ISet nb (IMut TBool (IVar (VBool true)));
           ISet nc (IIfElse (IUn UIndirection (ILocal nb (LOther (TMut TBool))))
                            (ILocal na (LOther (TMut TInt))) (ILocal nd (LOther (TMut t_if))));
           IBin Assign (ILocal nc (LOther (TMulti [TMut TInt; TMut t_if]))) (IVar (VInt 3));
           IBin Add (IUn UIndirection (ILocal na (LOther (TMut TInt)))) (IVar (VInt 1)) ].
Example ex_union_assign_typed : @typed no_fn W_empty [] K0 ex_union_assign TInt.
Proof. tyc. Qed.
Example ex_union_assign_runs : sig (X0 st0 [[]] ex_union_assign) = SVal (VInt 4).
Proof. vm_compute. reflexivity. Qed.
(* ... while the float of the defect above is rejected by the same rule *)
Example ex_union_assign_float_rejected :
  can_be_used Assign (TMulti [TMut TInt; TMut t_if]) TFloat = Ok false.
Proof. vm_compute. reflexivity. Qed.

(* ---- destructuring, structs, tuples of unions ---- *)
Definition ex_destruct : instr :=
  IBlock [ IDestruct [nx; ns] (ITuple [IVar (VInt 7); IVar (VString [98])]);
           IStruct [(nx, ILocal nx (LOther TInt)); (ns, ILocal ns (LOther TString))] ].
Example ex_destruct_typed :
  @typed no_fn W_empty [] K0 ex_destruct (TStruct [(nx, TInt); (ns, TString)]).
Proof. tyc. Qed.
Example ex_destruct_runs :
  sig (X0 st0 [[]] ex_destruct) = SVal (VStruct [(nx, VInt 7); (ns, VString [98])]).
Proof. vm_compute. reflexivity. Qed.

(* ---- a documented error is not a panic ---- *)
Definition ex_div : instr :=
  IBlock [ ISet nx (IMut TInt (IVar (VInt 0)));
           IBin Divide (IVar (VInt 1)) (IUn UIndirection (ILocal nx tcell)) ].
Example ex_div_typed : @typed no_fn W_empty [] K0 ex_div TInt.
Proof. tyc. Qed.
Example ex_div_runs : sig (X0 st0 [[]] ex_div) = SError E_ZeroDivision.
Proof. vm_compute. reflexivity. Qed.

(* ---- stage 4a: a call of a closure that is in the store
      f = (x: int) -> int { return x + 1 }       f(41) ---- *)
Definition f_body : list instr :=
  [ IUn UReturn (IBin Add (ILocal nx (LOther TInt)) (IVar (VInt 1))) ].
Definition st_f : store := mkStore [mkClosure None [(nx, TInt)] (BLang f_body) TInt] [] [].
Definition W_f : sty := mkW [] [Some ([TInt], TInt)].
Definition ex_call : instr :=
  IBin FunctionCall (IVar (VFun 0 [TInt] TInt)) (ITuple [IVar (VInt 41)]).

Example st_f_ok : @store_ok no_fn W_f st_f.
Proof.
  split; (split; [reflexivity|]).
  - intros [|loc] t H; discriminate H.
  - intros [|[|id]] c sg H Hsg; try discriminate H. injection H as <-. injection Hsg as <-.
    split; [reflexivity|]. split; [reflexivity|].
    exists W_empty, [(nx, TInt)], [TNever]. split; [apply ext_empty|].
    split; [|right; left; reflexivity]. unfold f_body, param_env. cbn. tylist.
Qed.
Example ex_call_typed : @typed no_fn W_f [] K0 ex_call TInt.
Proof. tyc. Qed.
Example ex_call_runs : sig (X0 st_f [[]] ex_call) = SVal (VInt 42).
Proof. vm_compute. reflexivity. Qed.
Example ex_call_sound : forall n, sig (exec powf0 pre0 n st_f [[]] ex_call) <> SPanic.
Proof.
  intros n. apply (no_panic powf0 pre0 n W_f [] K0 ex_call TInt W_f st_f [[]] ex_call_typed
                     (ext_refl _) st_f_ok (env_ok_empty _ _)).
Qed.

(* the store may hold closures the typing does not speak about (e.g. stdlib helpers using
   constructs outside the fragment): they are untracked (None) and typed code cannot reach
   them *)
Definition st_junk : store :=
  mkStore [mkClosure None [] (BLang [IUn UCollect (IVar VVoid)]) TNever] [] [].
Example st_junk_ok : @store_ok no_fn (mkW [] [None]) st_junk.
Proof.
  split; (split; [reflexivity|]).
  - intros [|loc] t H; discriminate H.
  - intros [|[|id]] c sg H Hsg; discriminate.
Qed.
Example ex_loop_junk_sound : forall n, sig (exec powf0 pre0 n st_junk [[]] ex_loop) <> SPanic.
Proof.
  intros n. apply (no_panic powf0 pre0 n W_empty [] K0 ex_loop TInt (mkW [] [None]) st_junk [[]]
                     ex_loop_typed (ext_empty _) st_junk_ok (env_ok_empty _ _)).
Qed.

(* ---- stage 4b: creating a closure and calling it
      f := (x: int) -> int { return x + 1 };  f(41) ---- *)
Definition ex_fn : list instr :=
  [ IFnDecl nf [(nx, TInt)] f_body TInt;
    IBin FunctionCall (ILocal nf (LFunction [(nx, TInt)] TInt)) (ITuple [IVar (VInt 41)]) ].
Example ex_fn_typed :
  @typed_list all_policy W_empty [] K0 ex_fn [(nf, TFun [TInt] TInt)] [TFun [TInt] TInt; TInt].
Proof.
  unfold ex_fn. eapply TL_cons;
    [eapply Ln_fndecl; [exact I|side|side|unfold f_body; cbn; tylist|side]|tylist].
Qed.
Example ex_fn_runs : sig (run_code powf0 pre0 60 st0 [[]] ex_fn VVoid) = SVal (VInt 42).
Proof. vm_compute. reflexivity. Qed.
Example ex_fn_sound : forall n,
  sig (run_code powf0 pre0 n st0 [[]] ex_fn VVoid) <> SPanic.
Proof.
  intros n.
  destruct (run_code_sound_closures powf0 pre0 n W_empty [] ex_fn _ _ ex_fn_typed
              W_empty st0 [[]] VVoid TVoid (ext_refl _) (store_ok_empty _) (env_ok_empty _ _)
              (gv_void _)) as [W' [_ [_ H]]].
  intros E. rewrite E in H. exact H.
Qed.

(* ---- [recreate_ok] on a closure that captures a cell.
      y := mut 10;  (x: int) -> int { return x + *y }
      At creation the free name y is replaced by the constant cell reference; the body,
      typed under (x : int) + (y : mut int), is afterwards typed under (x : int) alone,
      against the store typing that declares cell 0 as `mut int`. ---- *)
Definition ny : name := [121].
Definition cap_body : list instr :=
  [ IUn UReturn (IBin Add (ILocal nx (LOther TInt))
                          (IUn UIndirection (ILocal ny (LOther (TMut TInt))))) ].
Definition cap_body' : list instr :=
  [ IUn UReturn (IBin Add (ILocal nx (LOther TInt))
                          (IUn UIndirection (IVar (VMut 0 TInt)))) ].
Example recreate_capture_instance :
  @typed_list no_fn W_empty (closure_env None [(nx, TInt)] TInt ++ [(ny, TMut TInt)])
     (mkK false (Some TInt)) cap_body [(nx, TInt); (ny, TMut TInt)] [TNever] /\
  recreate_body powf0 [[(ny, VMut 0 TInt)]] [fn_layer None [(nx, TInt)] TInt] cap_body
    = Ok cap_body' /\
  @typed_list no_fn (mkW [TInt] []) (closure_env None [(nx, TInt)] TInt)
     (mkK false (Some TInt)) cap_body' [(nx, TInt)] [TNever].
Proof.
  split; [unfold cap_body; cbn; tylist|]. split; [vm_compute; reflexivity|].
  unfold cap_body'. cbn. tylist.
Qed.

(* ================================================================= *)
(* a second real defect (found here, since repaired) and why stage 4b is relative to a policy *)
(* ================================================================= *)
(*   c := mut 1;
     f := () -> int {
       y := if true { return 1 } else { c };     // checker: y : ! | mut int = mut int
       z := (y += 1);                            // accepted: y is a cell of int
       return 2
     };

   The checker accepts it.  Code::parse then recreates the declaration: `if true` is folded
   to its first branch, so Set::recreate re-derives the type of y from the new right-hand
   side (LocalVariable::from -> return_type): y : `!`.  Before the repair the next statement
   made the pass ask for mut_element_type(`!`).unwrap(): a PANIC inside Code::parse
   (src/instruction/bin_op.rs, confirmed on the implementation); likewise when the closure
   is created at run time, and with `*y`, `y[0]`, `y.0`, `y(..)` in place of `y += 1`.
   Since the repair every such query is `.unwrap_or(!)` ([Rt.lift_opt]); the pass now returns
   a body in which y : `!` is used as the target of `+=`.  That statement is dead code (the
   first one never yields a value); the rules of the judgement tolerate operands of type
   `!` for exactly this reason ([qres], the `\/ L = TNever` alternatives). *)
Definition nz : name := [122].
Definition src_recreate : list sline :=
 [ LSet nc (SExpr (XMut None (XConst (VInt 1))));
   LFnDecl nf [] (Some TInt)
     [ LSet ny (SIfElse (XConst (VBool true))
                        (SBlock [LStm (SRet (Some (SExpr (XConst (VInt 1)))))])
                        (Some (SBlock [LStm (SExpr (XIdent nc))])));
       LSet nz (SExpr (XInfix AssignAdd (XIdent ny) (XConst (VInt 1))));
       LStm (SRet (Some (SExpr (XConst (VInt 2))))) ] ].
Definition body_checked : list instr :=
  [ ISet ny (IIfElse (IVar (VBool true)) (IBlock [IUn UReturn (IVar (VInt 1))])
                     (IBlock [ILocal nc (LOther (TMut TInt))]));
    ISet nz (IBin AssignAdd (ILocal ny (LOther (TMut TInt))) (IVar (VInt 1)));
    IUn UReturn (IVar (VInt 2)) ].
Definition body_recreated : list instr :=
  [ ISet ny (IBlock [IUn UReturn (IVar (VInt 1))]);
    ISet nz (IBin AssignAdd (ILocal ny (LOther TNever)) (IVar (VInt 1)));
    IUn UReturn (IVar (VInt 2)) ].

Theorem recreate_narrows_to_never :
  (exists e, check_lines red0 50 [[]] [mkLayer [] None false] src_recreate
     = Ok ([ISet nc (IMut TInt (IVar (VInt 1))); IFnDecl nf [] body_checked TInt], e)) /\
  (exists e, parse_top powf0 red0 50 [[]] [mkLayer [] None false] src_recreate
     = Ok ([ISet nc (IMut TInt (IVar (VInt 1))); IFnDecl nf [] body_recreated TInt], e)).
Proof. split; eexists; vm_compute; reflexivity. Qed.

(* the recreated body is typed all the same: `y += 1` on a target of type `!` is dead code,
   which the rules tolerate (the target never yields a value) *)
Example body_recreated_typed :
  @typed_list no_fn (mkW [TInt] []) (closure_env None [] TInt) (mkK false (Some TInt))
     body_recreated [(nz, TNever); (ny, TNever)] [TNever; TNever; TNever].
Proof.
  unfold body_recreated. cbn.
  eapply TL_cons; [eapply Ln_set; eapply typed_conv; [ty|vm_compute; reflexivity]|].
  eapply TL_cons; [eapply Ln_set; eapply T_OpAssign; [reflexivity|ty|ty|right; split; reflexivity]|].
  tylist.
Qed.
Example recreate_instance_never :
  recreate_body powf0 [[(nc, VMut 0 TInt)]] [fn_layer None [] TInt] body_checked
    = Ok body_recreated.
Proof. vm_compute. reflexivity. Qed.

(* ================================================================= *)
(* stage 6: the iterator operators on the store the driver boots      *)
(* ================================================================= *)
(* [the_boot] (Lemmas/SoundHelpers.v) runs the helper sources of the driver (build/helpers.sx:
   MAP, FILTER, ITER, AND, OR, ALL, ANY, INT_PRODUCT, FLOAT_PRODUCT, INT_SUM, FLOAT_SUM,
   STRING_SUM) through parse_top and run_code, as ocaml/lane_prog.ml does; [st_boot],
   [pre_boot], [red_boot] are the resulting store (13 closures), prelude and reducers;
   [W_boot] records the signature each closure was declared with. *)
Theorem boot_is_the_boot : the_boot = Some (mkBooted st_boot pre_boot red_boot).
Proof. exact SoundBoot.boot_eq. Qed.
Theorem boot_store_ok : @store_ok policy6 W_boot st_boot.
Proof. exact SoundBoot.boot_store_ok. Qed.
Theorem boot_reducers_ok :
  Forall (fun kf => vgood W_boot (snd kf)) (r_sums red_boot ++ r_products red_boot) /\
  vgood W_boot (r_all red_boot) /\ vgood W_boot (r_any red_boot) /\
  vgood W_boot (r_and red_boot) /\ vgood W_boot (r_or red_boot).
Proof. exact SoundBoot.boot_reducers_ok. Qed.

(* a program typed against the booted store: no panic, only documented errors, the value
   of the last statement in its static type — no hypothesis left *)
Theorem run_boot_sound : forall powf n l G' Ts,
  @typed_list policy6 W_boot [] (mkK false None) l G' Ts ->
  match sig (run_code powf pre_boot n st_boot [[]] l VVoid) with
  | SVal v => has_type v (List.last Ts TVoid) = true
  | SError e => doc_err e
  | SFuel => True
  | _ => False
  end.
Proof.
  intros powf n l G' Ts Hl.
  destruct (run_code_sound_6 powf pre_boot n W_boot [] l G' Ts Hl W_boot st_boot [[]] VVoid TVoid
              (ext_refl _) boot_store_ok (env_ok_empty _ _) (gv_void _)) as [W' [_ [_ H]]].
  destruct (sig (run_code powf pre_boot n st_boot [[]] l VVoid)); try exact H.
  destruct H as [[Hv _] _]. exact Hv.
Qed.

(* ---- a hand-written iterator:
      i := mut 0;
      it := () -> (bool, int) { i += 1; if *i < 4 { return (true, *i) } return (false, 0) };
   ---- *)
Definition ni : name := [105]. Definition nit : name := [105; 116].
Definition nacc : name := [97; 99; 99]. Definition ncur : name := [99; 117; 114].
Definition t_cnt := LOther (TMut TInt).
Definition counter_body : list instr :=
  [ IBin AssignAdd (ILocal ni t_cnt) (IVar (VInt 1));
    IIfElse (IBin Lower (IUn UIndirection (ILocal ni t_cnt)) (IVar (VInt 4)))
            (IUn UReturn (ITuple [IVar (VBool true); IUn UIndirection (ILocal ni t_cnt)]))
            (IVar VVoid);
    IUn UReturn (ITuple [IVar (VBool false); IVar (VInt 0)]) ].
Definition counter : list instr :=
  [ ISet ni (IMut TInt (IVar (VInt 0)));
    IFnDecl nit [] counter_body (TTup [TBool; TInt]) ].
Definition it_int : instr := ILocal nit (LFunction [] (TTup [TBool; TInt])).
Definition X6 := run_code powf0 pre_boot 60 st_boot [[]].
(* what the checker plants for `yi $+` / `yi $*` when yi has the static type yt *)
Definition sum_of (yi : instr) (yt : ty) : instr :=
  match plant_reducer (r_sums red_boot) yi yt with Ok i => i | _ => IVar VVoid end.
Definition prod_of (yi : instr) (yt : ty) : instr :=
  match plant_reducer (r_products red_boot) yi yt with Ok i => i | _ => IVar VVoid end.

(* it $+   — planted: INT_SUM(it) *)
Definition ex_sum : list instr := Eval vm_compute in counter ++ [sum_of it_int (it_of TInt)].
Example ex_sum_typed : exists G' Ts,
  @typed_list policy6 W_boot [] K0 ex_sum G' Ts /\ List.last Ts TVoid = TInt.
Proof. eexists. eexists. split; [unfold ex_sum; tylist|reflexivity]. Qed.
Example ex_sum_runs : sig (X6 ex_sum VVoid) = SVal (VInt 6).
Proof. vm_compute. reflexivity. Qed.
Example ex_sum_sound : forall powf n, sig (run_code powf pre_boot n st_boot [[]] ex_sum VVoid) <> SPanic.
Proof.
  intros powf n. destruct ex_sum_typed as [G' [Ts [Hl _]]].
  pose proof (run_boot_sound powf n ex_sum G' Ts Hl) as H. intros E. rewrite E in H. exact H.
Qed.

(* it $]   — [1, 2, 3] *)
Definition ex_collect : list instr := counter ++ [IUn UCollect it_int].
Example ex_collect_typed : exists G' Ts,
  @typed_list policy6 W_boot [] K0 ex_collect G' Ts /\ List.last Ts TVoid = TArr TInt.
Proof. eexists. eexists. split; [unfold ex_collect, counter, counter_body; cbn [app]; tylist|reflexivity]. Qed.
Example ex_collect_runs : sig (X6 ex_collect VVoid) = SVal (VArr TInt [VInt 1; VInt 2; VInt 3]).
Proof. vm_compute. reflexivity. Qed.

(* it $(10) (acc: int, cur: int) -> int { return acc + cur }   — reduce with an initial value *)
Definition add_fn : instr :=
  IAnonFn [(nacc, TInt); (ncur, TInt)]
    [IUn UReturn (IBin Add (ILocal nacc (LOther TInt)) (ILocal ncur (LOther TInt)))] TInt.
Definition ex_reduce : list instr := counter ++ [IReduce it_int (IVar (VInt 10)) add_fn].
Example ex_reduce_typed : exists G' Ts,
  @typed_list policy6 W_boot [] K0 ex_reduce G' Ts /\ List.last Ts TVoid = TInt.
Proof.
  eexists. eexists.
  split; [unfold ex_reduce, counter, counter_body, add_fn; cbn [app]; tylist|reflexivity].
Qed.
Example ex_reduce_runs : sig (X6 ex_reduce VVoid) = SVal (VInt 16).
Proof. vm_compute. reflexivity. Qed.

(* a pipeline over a union element type:
      j := mut 0;
      mixed := () -> (bool, int | string) {
        j += 1;
        if *j == 1 { return (true, 5) }  if *j == 2 { return (true, "a") }
        if *j == 3 { return (true, 7) }  return (false, 0) };
      ints := mixed ? int;              // the type filter: () -> (bool, int)
      (ints $+, ...)
   ---- *)
Definition nj : name := [106]. Definition nmixed : name := [109]. Definition nints : name := [110].
Definition t_mixed : ty := TTup [TBool; int_or_string].
Definition yield_at (k : Z) (v : value) : instr :=
  IIfElse (IBin Equal (IUn UIndirection (ILocal nj t_cnt)) (IVar (VInt k)))
          (IUn UReturn (ITuple [IVar (VBool true); IVar v])) (IVar VVoid).
Definition mixed_body : list instr :=
  [ IBin AssignAdd (ILocal nj t_cnt) (IVar (VInt 1));
    yield_at 1 (VInt 5); yield_at 2 (VString [97]); yield_at 3 (VInt 7);
    IUn UReturn (ITuple [IVar (VBool false); IVar (VInt 0)]) ].
Definition mixed : list instr :=
  [ ISet nj (IMut TInt (IVar (VInt 0)));
    IFnDecl nmixed [] mixed_body t_mixed;
    ISet nints (ITypeFilter (ILocal nmixed (LFunction [] t_mixed)) TInt) ].
Definition it_ints : instr := ILocal nints (LOther (TFun [] (TTup [TBool; TInt]))).

(* mixed ? int $+   — 12 *)
Definition ex_filter_sum : list instr := Eval vm_compute in mixed ++ [sum_of it_ints (it_of TInt)].
Example ex_filter_sum_typed : exists G' Ts,
  @typed_list policy6 W_boot [] K0 ex_filter_sum G' Ts /\ List.last Ts TVoid = TInt.
Proof.
  eexists. eexists.
  split; [unfold ex_filter_sum; tylist|reflexivity].
Qed.
Example ex_filter_sum_runs : sig (X6 ex_filter_sum VVoid) = SVal (VInt 12).
Proof. vm_compute. reflexivity. Qed.
Example ex_filter_sum_sound : forall powf n,
  match sig (run_code powf pre_boot n st_boot [[]] ex_filter_sum VVoid) with
  | SVal v => has_type v TInt = true | SError e => doc_err e | SFuel => True | _ => False
  end.
Proof.
  intros powf n. destruct ex_filter_sum_typed as [G' [Ts [Hl Hlast]]].
  pose proof (run_boot_sound powf n ex_filter_sum G' Ts Hl) as H. rewrite Hlast in H. exact H.
Qed.

(* (mixed ? int $(1) (acc, cur) -> acc * cur ... ) with the product operator: mixed ? int $*  — 35 *)
Definition ex_filter_product : list instr := Eval vm_compute in mixed ++ [prod_of it_ints (it_of TInt)].
Example ex_filter_product_typed : exists G' Ts,
  @typed_list policy6 W_boot [] K0 ex_filter_product G' Ts /\ List.last Ts TVoid = TInt.
Proof.
  eexists. eexists.
  split; [unfold ex_filter_product; tylist|reflexivity].
Qed.
Example ex_filter_product_runs : sig (X6 ex_filter_product VVoid) = SVal (VInt 35).
Proof. vm_compute. reflexivity. Qed.

(* mixed $]   — [5, "a", 7] at [int | string] *)
Definition ex_collect_mixed : list instr :=
  mixed ++ [IUn UCollect (ILocal nmixed (LFunction [] t_mixed))].
Example ex_collect_mixed_typed : exists G' Ts,
  @typed_list policy6 W_boot [] K0 ex_collect_mixed G' Ts /\
  List.last Ts TVoid = TArr int_or_string.
Proof.
  eexists. eexists.
  split; [unfold ex_collect_mixed, mixed, mixed_body, yield_at; cbn [app]; tylist|reflexivity].
Qed.
Example ex_collect_mixed_runs :
  exists v, sig (X6 ex_collect_mixed VVoid) = SVal v /\ has_type v (TArr int_or_string) = true.
Proof. eexists. split; vm_compute; reflexivity. Qed.

(* `$+` at a UNION static type: the planted form is a `match` over the iterator types
      cb := mut true;
      fl := () -> (bool, float) { return (false, 0.0) };
      u := if *cb { it } else { fl };          // () -> (bool, int) | () -> (bool, float)
      u $+      // match u { iter: () -> (bool, int) => INT_SUM(iter), iter: () -> (bool, float) => FLOAT_SUM(iter) }
   at static type int | float *)
Definition ncb : name := [99; 98]. Definition nfl : name := [102; 108]. Definition nu : name := [117].
Definition t_if_iter : ty := TMulti [it_of TInt; it_of TFloat].
Definition ex_sum_union : list instr := Eval vm_compute in
  counter ++
  [ ISet ncb (IMut TBool (IVar (VBool true)));
    IFnDecl nfl [] [IUn UReturn (IVar (VTup [VBool false; VFloat 0]))] (TTup [TBool; TFloat]);
    ISet nu (IIfElse (IUn UIndirection (ILocal ncb (LOther (TMut TBool))))
                     (IBlock [it_int])
                     (IBlock [ILocal nfl (LFunction [] (TTup [TBool; TFloat]))]));
    sum_of (ILocal nu (LOther t_if_iter)) t_if_iter ].
Example ex_sum_union_planted :
  sum_of (ILocal nu (LOther t_if_iter)) t_if_iter =
  IMatch (ILocal nu (LOther t_if_iter))
    [ArmType n_plant (it_of TInt)
       (plant_call (VFun 10 [it_of TInt] TInt) (ILocal n_plant (LOther (it_of TInt))));
     ArmType n_plant (it_of TFloat)
       (plant_call (VFun 11 [it_of TFloat] TFloat) (ILocal n_plant (LOther (it_of TFloat))))].
Proof. reflexivity. Qed.
Example ex_sum_union_typed : exists G' Ts,
  @typed_list policy6 W_boot [] K0 ex_sum_union G' Ts /\ List.last Ts TVoid = TMulti [TInt; TFloat].
Proof. eexists. eexists. split; [unfold ex_sum_union; tylist|reflexivity]. Qed.
Example ex_sum_union_runs : sig (X6 ex_sum_union VVoid) = SVal (VInt 6).
Proof. vm_compute. reflexivity. Qed.
Example ex_sum_union_sound : forall powf n,
  match sig (run_code powf pre_boot n st_boot [[]] ex_sum_union VVoid) with
  | SVal v => has_type v (TMulti [TInt; TFloat]) = true | SError e => doc_err e | SFuel => True
  | _ => False
  end.
Proof.
  intros powf n. destruct ex_sum_union_typed as [G' [Ts [Hl Hlast]]].
  pose proof (run_boot_sound powf n ex_sum_union G' Ts Hl) as H. rewrite Hlast in H. exact H.
Qed.

(* partition of an iterator by a predicate:  it \ (x: int) -> bool { return x < 2 }   — ([1], [2, 3]) *)
Definition lt2 : instr :=
  IAnonFn [(nx, TInt)] [IUn UReturn (IBin Lower (ILocal nx (LOther TInt)) (IVar (VInt 2)))] TBool.
Definition ex_partition : list instr := counter ++ [IBin Partition it_int lt2].
Example ex_partition_typed : exists G' Ts,
  @typed_list policy6 W_boot [] K0 ex_partition G' Ts /\
  List.last Ts TVoid = TTup [TArr TInt; TArr TInt].
Proof.
  eexists. eexists.
  split; [unfold ex_partition, counter, counter_body, lt2; cbn [app]; tylist|reflexivity].
Qed.
Example ex_partition_runs :
  sig (X6 ex_partition VVoid) = SVal (VTup [VArr TInt [VInt 1]; VArr TInt [VInt 2; VInt 3]]).
Proof. vm_compute. reflexivity. Qed.

(* it $&  — `$&&`, `$||`, `$&`, `$|` are planted calls of the reducer constants *)
Definition ex_bitand : list instr :=
  counter ++ [IBin FunctionCall (IVar (r_and red_boot)) (ITuple [it_int])].
Example ex_bitand_typed : exists G' Ts,
  @typed_list policy6 W_boot [] K0 ex_bitand G' Ts /\ List.last Ts TVoid = TInt.
Proof.
  eexists. eexists.
  split; [unfold ex_bitand, counter, counter_body; cbn [app]; tylist|reflexivity].
Qed.
Example ex_bitand_runs : sig (X6 ex_bitand VVoid) = SVal (VInt 0).
Proof. vm_compute. reflexivity. Qed.

(* ================================================================= *)
(* stage 6: what is not covered, and why                               *)
(* ================================================================= *)
(* The gated rules carry the tests of the checker only (T_TypeFilter: the filter type has a
   default; that the run-time default [Exec.alloc_default] is a good value of the type is
   Sound6.alloc_default_sound, see [type_filter_default_typed]).  Beyond them:
     - closure literals under [policy6]: the body is typed without the gated rules
       ([recreate_iterator_refuted]).
   `$+` / `$*`: S13c, S13d and S27 are repaired (the reducer is planted from the static type):
   [sum_never_fixed], [fall_off_end_rejected], [narrowing_repaired].
   `~`, `@` and the filter `? p` have no rule: the known findings S13a, S13b are reproduced
   below on the booted store, with the variants S13e, S13f that no static side condition
   excludes ([iter_subsumption_refuted], [map_runtime_retype_refuted]). *)
Definition X6e := exec powf0 pre_boot 60 st_boot [[]].
Definition empty_iter : instr := IUn UIter (IArray [] TNever).      (* []~ *)
Definition run_src (src : list sline) : outcome signal :=
  match parse_top powf0 red_boot 60 boot_scopes [mkLayer [] None false] src with
  | Ok (is, _) => Ok (sig (run_code powf0 pre_boot 80 st_boot boot_scopes is VVoid))
  | Err e => Err e
  | Panic => Panic
  | OutOfFuel => OutOfFuel
  end.

(* S13c (repaired): `[]~ $+` is planted as INT_SUM([]~): the int 0 at static type int *)
Definition src13c : list sline := [LStm (SExpr (XPostfix USum (XPostfix UIter (XArray []))))].
Example sum_never_fixed :
  exists i, parse_top powf0 red_boot 60 boot_scopes [mkLayer [] None false] src13c
              = Ok ([i], [mkLayer [] None false]) /\
            rt i = Ok TInt /\ run_src src13c = Ok (SVal (VInt 0)).
Proof. eexists. split; [vm_compute; reflexivity|]. split; vm_compute; reflexivity. Qed.

(* S13d (repaired): `f := () -> int { x := []~ $+; };  f() + 1` is rejected (MissingReturn):
   the statement is int-typed now *)
Definition src13d : list sline :=
  [ LFnDecl nf [] (Some TInt) [LSet nx (SExpr (XPostfix USum (XPostfix UIter (XArray []))))];
    LStm (SExpr (XInfix Add (XCall (XIdent nf) []) (XConst (VInt 1)))) ].
Example fall_off_end_rejected : run_src src13d = Err E_Reject.
Proof. vm_compute. reflexivity. Qed.

(* S13a: the end marker of `~` when the element type has no default: `([]~)().1 + 1` *)
Definition p13a : instr :=
  IBin Add (ITupleAccess (IBin FunctionCall empty_iter (IVar (VTup []))) 1) (IVar (VInt 1)).
Theorem iter_never_refuted : rt p13a = Ok TNever /\ sig (X6e p13a) = SPanic.
Proof. split; vm_compute; reflexivity. Qed.

(* S13b: the end marker of `@` is the end marker of the SOURCE:
   `(([] : [int])~ @ (x: int) -> string { return "s" })().1 + "x"` *)
Definition to_s : instr := IAnonFn [(nx, TInt)] [IUn UReturn (IVar (VString [115]))] TString.
Definition p13b : instr :=
  IBin Add (ITupleAccess (IBin FunctionCall (IBin Map (IUn UIter (IArray [] TInt)) to_s)
                                            (IVar (VTup []))) 1)
           (IVar (VString [120])).
Theorem map_end_marker_refuted : rt p13b = Ok TString /\ sig (X6e p13b) = SPanic.
Proof. split; vm_compute; reflexivity. Qed.

(* the default of a function type is a FRESH function returning the default of its result
   type (Exec.alloc_default; the model used to return the placeholder `VFun 0` here):
   `((mixed ? (int) -> int)().1)(5)` calls the end marker's default function: 0 *)
Definition t_ii : ty := TFun [TInt] TInt.
Definition p_tf : list instr :=
  mixed ++ [IBin FunctionCall
              (ITupleAccess (IBin FunctionCall (ITypeFilter (ILocal nmixed (LFunction [] t_mixed)) t_ii)
                                               (IVar (VTup []))) 1)
              (ITuple [IVar (VInt 5)])].
Example type_filter_default_typed : exists G' Ts,
  @typed_list policy6 W_boot [] K0 p_tf G' Ts /\ List.last Ts TVoid = TInt.
Proof.
  eexists. eexists.
  split; [unfold p_tf, mixed, mixed_body, yield_at; cbn [app]; tylist|reflexivity].
Qed.
Example type_filter_default_runs : sig (X6 p_tf VVoid) = SVal (VInt 0).
Proof. vm_compute. reflexivity. Qed.
Example type_filter_default_sound : forall powf n,
  match sig (run_code powf pre_boot n st_boot [[]] p_tf VVoid) with
  | SVal v => has_type v TInt = true | SError e => doc_err e | SFuel => True | _ => False
  end.
Proof.
  intros powf n. destruct type_filter_default_typed as [G' [Ts [Hl Hlast]]].
  pose proof (run_boot_sound powf n p_tf G' Ts Hl) as H. rewrite Hlast in H. exact H.
Qed.

(* ---- the constant-propagation pass does not preserve the gated rules ---- *)
(* `x $]` with x : () -> (bool, int) in the creating scope bound to a function that never
   returns, of run-time type () -> (!, int) (a good value of the static type): the pass
   replaces x by the constant; its type has no element type ([iter_element] wants the first
   component to BE bool), and no rule types `v $]`.  In the same way a local re-recorded at a
   union with such a member (`y := if c { x } else { z }`) loses its element type: [rt] of
   `y $]` becomes `[!]` although it evaluates to an array of ints. *)
Definition v_div : value := VFun 1 [] (TTup [TNever; TInt]).
Definition W_div : sty := mkW [] [None; Some ([], TTup [TNever; TInt])].
Definition i_rec : instr := IUn UCollect (ILocal nx (LOther (it_of TInt))).
Theorem recreate_iterator_refuted :
  (forall W0 K, @typed policy6 W0 [(nx, it_of TInt)] K i_rec (TArr TInt)) /\
  gv W_div v_div (it_of TInt) /\
  recreate powf0 10 [[(nx, v_div)]] [mkLayer [] None false] i_rec
    = Ok (IUn UCollect (IVar v_div), [mkLayer [] None false]) /\
  rt (IUn UCollect (IVar v_div)) = Ok (TArr TNever) /\
  (forall (P : Policy) W G K T, ~ @typed P W G K (IUn UCollect (IVar v_div)) T).
Proof.
  split; [|split; [|split; [|split]]].
  - intros W0 K. unfold i_rec. eapply typed_conv; [ty|reflexivity].
  - split; [reflexivity|]. split; [reflexivity|]. reflexivity.
  - vm_compute. reflexivity.
  - reflexivity.
  - intros P W G K T H. inversion H; subst.
    match goal with Hx : typed _ _ _ (IVar v_div) _ |- _ => inversion Hx; subst end.
    match goal with Hs : matches _ _ = true |- _ => vm_compute in Hs; discriminate Hs end.
Qed.

(* S27 through narrowing (found by the attempt to prove the above for `$+`; REPAIRED by planting
   the reducer from the static type at creation):

     diverge := () -> ! { return diverge() };
     empty := () -> (bool, float) { return (false, 0.0) };
     g := (x: () -> (bool, float), z: () -> (bool, float), c: mut bool) -> float {
        h := () -> float { y := if *c { x } else { z }; return (y $])~ $+ };
        return h();
     };
     r := g(diverge, empty, mut false);
     r + 1.5

   The checker sees y : () -> (bool, float) and plants FLOAT_SUM.  When h is created the pass
   re-types y at the UNION `() -> ! | () -> (bool, float)`, which has no element type, but the
   planted call does not consult static types any more: the program runs to 1.5 (it used to
   panic "Tried to do 0 + 1.5"). *)
Definition nd_ : name := [100]. Definition ne_ : name := [101]. Definition ng_ : name := [103].
Definition nh_ : name := [104]. Definition nr_ : name := [114].
Definition t_itf : ty := TFun [] (TTup [TBool; TFloat]).
Definition src_narrow : list sline :=
  [ LFnDecl nd_ [] (Some TNever) [LStm (SRet (Some (SExpr (XCall (XIdent nd_) []))))];
    LFnDecl ne_ [] (Some (TTup [TBool; TFloat]))
      [LStm (SRet (Some (SExpr (XTuple [XConst (VBool false); XConst (VFloat 0)]))))];
    LFnDecl ng_ [(nx, t_itf); (nz, t_itf); (nc, TMut TBool)] (Some TFloat)
      [ LFnDecl nh_ [] (Some TFloat)
          [ LSet ny (SIfElse (XPrefix PDeref (XIdent nc))
                       (SBlock [LStm (SExpr (XIdent nx))])
                       (Some (SBlock [LStm (SExpr (XIdent nz))])));
            LStm (SRet (Some (SExpr
              (XPostfix USum (XPostfix UIter (XPostfix UCollect (XIdent ny))))))) ];
        LStm (SRet (Some (SExpr (XCall (XIdent nh_) [])))) ];
    LSet nr_ (SExpr (XCall (XIdent ng_) [XIdent nd_; XIdent ne_; XMut None (XConst (VBool false))]));
    LStm (SExpr (XInfix Add (XIdent nr_) (XConst (VFloat F_1_5)))) ].
Example narrowing_repaired :
  concat (TFun [] TNever) t_itf = TMulti [TFun [] TNever; t_itf] /\
  iter_element (TMulti [TFun [] TNever; t_itf]) = None /\
  run_src src_narrow = Ok (SVal (VFloat F_1_5)).
Proof. split; [reflexivity|]. split; [reflexivity|]. vm_compute. reflexivity. Qed.

(* ---- `~` and `@`: no static side condition on the operand types suffices ---- *)
(* The iterator `a~` is re-typed at the RUN-TIME element type of the array, `it @ f` at the
   run-time result type of f; both can be strictly below the static ones.  (Confirmed on the
   implementation; recorded as the known findings S13e / S13f, variants of S13a / S13b.) *)
(* g := (a: [int]) -> int { return (a~)().1 + 1 };  g([])
   the static element type int has a default, the run-time element type `!` of `[]` has none:
   "Tried to do () + 1" *)
Definition nm_ : name := [109]. Definition ns_ : name := [115].
Definition src_iter_sub : list sline :=
  [ LFnDecl ng_ [(na, TArr TInt)] (Some TInt)
      [LStm (SRet (Some (SExpr (XInfix Add
         (XTupleAccess (XCall (XPostfix UIter (XIdent na)) []) 1) (XConst (VInt 1))))))];
    LStm (SExpr (XCall (XIdent ng_) [XArray []])) ].
Theorem iter_subsumption_refuted : run_src src_iter_sub = Ok SPanic.
Proof. vm_compute. reflexivity. Qed.

(* it := () -> (bool, int | string) { return (false, 0) };
   f := (x: int | string) -> string { return "s" };
   h := (m: (int | string) -> (int | string)) -> string {
     return match it @ m { s: () -> (bool, string) => s().1 + "x", => "o", } };
   h(f)
   the source element type matches the static result type of m, yet the iterator is re-typed
   `() -> (bool, string)` and its end marker is the source's `(false, 0)`: "Tried to do 0 + x" *)
Definition src_map_rt : list sline :=
  [ LFnDecl nit [] (Some (TTup [TBool; int_or_string]))
      [LStm (SRet (Some (SExpr (XTuple [XConst (VBool false); XConst (VInt 0)]))))];
    LFnDecl nf [(nx, int_or_string)] (Some TString)
      [LStm (SRet (Some (SExpr (XConst (VString [115])))))];
    LFnDecl nh_ [(nm_, TFun [int_or_string] int_or_string)] (Some TString)
      [LStm (SRet (Some (SMatch (XInfix Map (XIdent nit) (XIdent nm_))
          [AType ns_ (TFun [] (TTup [TBool; TString]))
             (SExpr (XInfix Add (XTupleAccess (XCall (XIdent ns_) []) 1) (XConst (VString [120]))));
           AOther (SExpr (XConst (VString [111])))])))];
    LStm (SExpr (XCall (XIdent nh_) [XIdent nf])) ].
Theorem map_runtime_retype_refuted : run_src src_map_rt = Ok SPanic.
Proof. vm_compute. reflexivity. Qed.

(* C19c — equality by content, third part (and the default values): the description of
   `impl PartialEq for Variable`, `impl PartialEq for Array` and Variable::of_type that
   translators/valuefns2coq.py REGENERATES from src/variable.rs and src/variable/array.rs on every
   run (Gen/GenValueFns.v) coincides with the hand-written model (Model/Value.v: val_eqb, of_type).
   `==` on payloads is read by type: bool/i64/f64 (IEEE: feq)/str, slices element-wise, HashMap by
   keys, Arc::ptr_eq = the identity of a function / cell; `Arc<HashMap> == Arc<HashMap>` (std's
   same-allocation shortcut) is REFUSED by the translator.  Function::of_type is pinned; its
   hand-written reading (defined iff the result type has a default; a function of that type) is
   what Variable::of_type is tied through.  The defaults are tied in their PURE shape
   (Value.of_type: cells and functions as placeholders); Exec.alloc_default allocates them.
   Statements only; every proof is `exact <lemma>` (Lemmas/ValueTie.v). *)
From SSL.Model Require Import Base Ty Float Value.
From SSL.Lemmas Require Import ValueTie.
From SSL.Gen Require Import GenValueFns.
From Coq Require String.

(* ---- equality ---- *)
Theorem generated_eq_is_model : forall a b, gen_Variable_eq a b = val_eqb a b.
Proof. exact gen_Variable_eq_eq. Qed.
Theorem generated_eq_fuel : forall n a b,
  rs_value_size a <= n -> gen_Variable_eq_f n a b = val_eqb a b.
Proof. exact gen_Variable_eq_f_eq. Qed.
(* Array::eq: the elements, not the stored element type *)
Theorem generated_array_eq_is_model : forall t1 l1 t2 l2,
  gen_Array_eq t1 l1 t2 l2 = val_eqb (VArr t1 l1) (VArr t2 l2).
Proof. exact gen_Array_eq_eq. Qed.

(* ---- default values ---- *)
Theorem generated_of_type_is_model : forall t, gen_Variable_of_type t = of_type t.
Proof. exact gen_Variable_of_type_eq. Qed.
Theorem generated_of_type_fuel : forall n t, size t <= n -> gen_Variable_of_type_f n t = of_type t.
Proof. exact gen_Variable_of_type_f_eq. Qed.
Theorem pinned_function_of_type_is_model : forall ps r, gen_Function_of_type ps r = of_type (TFun ps r).
Proof. exact gen_Function_of_type_eq. Qed.

(* ---- which Rust functions are covered (the table the translator wrote on this run) ---- *)
Section Table.
Import Coq.Strings.String.
Local Open Scope string_scope.
Import GenValueFnsTable.

Theorem covered_value_functions :
  map fst gen_translated =
  [ "stdlib::len"; "at::exec"; "at::range"; "at::create_from_instructions"; "Slicing::exec_index";
    "Slicing::exec"; "Variable::eq"; "Array::eq"; "Variable::of_type"; "Function::of_type" ].
Proof. exact covered_value_functions_table. Qed.

Theorem pinned_value_functions :
  map fst gen_pinned =
  [ "Function::of_type"; "Array::from (impl From < T >)";
    "Variable::from (impl From < Arc < [ Variable ] > >)"; "Array::deref (impl Deref)";
    "Slicing::recreate (impl Recreate)"; "Slicing::return_type (impl ReturnType)"; "Slicing::create";
    "crate slyce 0.3.1" ].
Proof. exact pinned_value_functions_table. Qed.
End Table.

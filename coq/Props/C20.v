(* C20 — literal values survive printing and re-parsing.  Statements only; every proof is
   `exact <lemma>`.

   [print_i64 z]            : `{}` / `{:?}` of an i64 (Model/Print.v);
   [parse_decimal]          : the obvious reader ('-'? then fold the decimal digits);
   [read_int_lit b neg s]   : `parse_int_with_radix` of src/variable.rs: remove ' ' and '_',
                              `i64::from_str_radix` (with a '-' in front when [neg]); None =
                              Error::IntegerOverflow;
   [read_int_text s]        : how `Variable::from_str` reads the text of an int (rules
                              minus_int / int); [read_int_text_old]: the same before repair
                              fa6d4dd (magnitude parsed as an i64, then negated);
   [escape_debug_rust P s]  : Rust's `{:?}` of a str; [debug_string P s]: `debug_string` of
                              src/variable.rs (repair 1aee34b: NUL is written \u{0});
                              [escape_debug P s] the same text defined directly; P = "Rust
                              prints this character as \u{..}" (a parameter, any P);
   [pr_unescape]            : the unescaper crate 0.1.5, arm for arm (Model/ValueParse.v);
   [vp_parse_value pf s]    : `Variable::from_str(s)` over the PEG model of rule only_var;
   [scalar c]               : c is a Unicode scalar value.

   What is proved
   - integers: unbounded, every z, every literal form;
   - strings: unbounded, every string of scalar values, every P;
   - values: bounded (value_roundtrip_bounded): an explicit universe of 5174 values —
     bools, 8 ints incl. MIN_INT/MAX_INT, 22 strings incl. NUL-then-digit, quotes,
     backslashes, controls, non-ASCII, (), 9 boundary floats with the texts Rust prints for
     them (a table, each line checked against the implementation by lane L5-print), arrays
     and tuples of up to 3 members nested up to depth 5 — read back through the PEG model to
     an equal value of the same type;
   - the two defects the design predicted (S11, S12), as refutations about the pre-repair
     functions. *)
From SSL.Model Require Import Base Ty Float Value Peg Print ValueParse.
From SSL.Lemmas Require Import PrintLemmas ValueUniverse.

Local Open Scope Z_scope.

(* ---------- integers ---------- *)
Theorem print_i64_correct : forall z, parse_decimal (print_i64 z) = Some z.
Proof. exact PrintLemmas.print_i64_correct. Qed.

Theorem print_i64_shape : forall z,
  exists ds, ds <> [] /\ Forall (is_digit_of 10) ds /\
             print_i64 z = (if z <? 0 then 45 :: ds else ds).
Proof. exact PrintLemmas.print_i64_shape. Qed.

(* every int reads back *)
Theorem int_roundtrip : forall z,
  MIN_INT <= z <= MAX_INT -> read_int_text (print_i64 z) = Some z.
Proof. exact PrintLemmas.int_roundtrip. Qed.

(* before the repair: every int but MIN_INT (S11) *)
Theorem int_roundtrip_old_except_min : forall z,
  MIN_INT < z <= MAX_INT -> read_int_text_old (print_i64 z) = Some z.
Proof. exact PrintLemmas.int_roundtrip_old_except_min. Qed.
Theorem int_roundtrip_old_refuted_at_min : read_int_text_old (print_i64 MIN_INT) = None.
Proof. exact PrintLemmas.int_roundtrip_old_refuted_at_min. Qed.

(* every literal form denotes its mathematical value or is rejected as too big *)
Theorem int_literal_value : forall base n s,
  2 <= base <= 36 -> 0 <= n -> strip_sep s = print_radix base n ->
  read_int_lit base false s = (if n <=? MAX_INT then Some n else None) /\
  read_int_lit base true s = (if n <=? - MIN_INT then Some (- n) else None).
Proof. exact PrintLemmas.int_literal_value. Qed.
Theorem binary_literal_value : forall n s, 0 <= n -> strip_sep s = print_radix 2 n ->
  read_int_lit 2 false s = if n <=? MAX_INT then Some n else None.
Proof. exact PrintLemmas.binary_literal_value. Qed.
Theorem octal_literal_value : forall n s, 0 <= n -> strip_sep s = print_radix 8 n ->
  read_int_lit 8 false s = if n <=? MAX_INT then Some n else None.
Proof. exact PrintLemmas.octal_literal_value. Qed.
Theorem decimal_literal_value : forall n s, 0 <= n -> strip_sep s = print_radix 10 n ->
  read_int_lit 10 false s = if n <=? MAX_INT then Some n else None.
Proof. exact PrintLemmas.decimal_literal_value. Qed.
Theorem hex_literal_value : forall n s, 0 <= n -> strip_sep s = print_radix 16 n ->
  read_int_lit 16 false s = if n <=? MAX_INT then Some n else None.
Proof. exact PrintLemmas.hex_literal_value. Qed.
Theorem hex_upper_value : forall n, 0 <= n ->
  parse_radix 16 (map to_upper (print_radix 16 n)) = Some n.
Proof. exact PrintLemmas.hex_upper_value. Qed.
Theorem leading_zeros_value : forall base n k, 2 <= base <= 36 -> 0 <= n ->
  parse_radix base (repeat 48 k ++ print_radix base n) = Some n.
Proof. exact PrintLemmas.leading_zeros_value. Qed.
Theorem print_radix_spec : forall base n, 2 <= base <= 36 -> 0 <= n ->
  print_radix base n <> [] /\ Forall (is_digit_of base) (print_radix base n) /\
  parse_radix base (print_radix base n) = Some n.
Proof. exact PrintLemmas.print_radix_spec. Qed.

(* ---------- strings ---------- *)

(* what the code computes (post-processing of Rust's text) is the directly defined text *)
Theorem debug_string_direct : forall P s,
  Forall (fun c => 0 <= c) s -> debug_string P s = escape_debug P s.
Proof. exact PrintLemmas.debug_string_direct. Qed.

(* the body of the debug text is read back by the unescaper, for every string *)
Theorem escape_unescape : forall P s,
  Forall scalar s -> pr_unescape (escape_debug_body P s) = Some s.
Proof. exact PrintLemmas.escape_unescape. Qed.

(* Rust's own {:?} (printed before the repair): read back unless a NUL is followed by an
   octal digit; refuted for NUL '1' (S12) *)
Theorem escape_unescape_rust : forall P s,
  Forall scalar s -> no_nul_octal s -> pr_unescape (escape_debug_rust_body P s) = Some s.
Proof. exact PrintLemmas.escape_unescape_rust. Qed.
Theorem nul_digit_refuted : forall P, P 49 = false ->
  pr_unescape (escape_debug_rust_body P [0; 49]) = Some [1] /\
  pr_unescape (escape_debug_rust_body P [0; 49]) <> Some [0; 49].
Proof. exact PrintLemmas.nul_digit_refuted. Qed.

(* ---------- values, bounded ---------- *)
Theorem value_roundtrip_bounded : forall v,
  In v value_universe ->
  exists v', vp_parse_value parse_tab (debug0 v) = Ok v' /\
             val_eqb v v' = true /\ ty_eqb (as_type v') (as_type v) = true.
Proof. exact ValueUniverse.value_roundtrip_universe. Qed.

Theorem value_universe_size : N.of_nat (length value_universe) = 5174%N.
Proof. exact ValueUniverse.value_universe_size. Qed.

(* the printer elides what lies deeper than its bound: no round trip there *)
Theorem elided_beyond_depth :
  debug0 (nest 7 (fun x => arr_of [x]) (VInt 1)) = [91; 91; 91; 91; 91; 91; 46; 46; 93; 93; 93; 93; 93; 93].
Proof. exact ValueUniverse.elided_beyond_depth. Qed.

(* S12 end to end in the model: Rust's {:?} of NUL '1' reads back as U+0001 *)
Theorem nul_digit_rust_text :
  vp_parse_value parse_tab (escape_debug_rust P0 [0; 49]) = Ok (VString [1]).
Proof. exact ValueUniverse.nul_digit_rust_text. Qed.

Print Assumptions int_roundtrip.
Print Assumptions escape_unescape.
Print Assumptions value_roundtrip_bounded.

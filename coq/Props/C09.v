(* C09 — indexing, slicing and len agree for all sequences and indices.

   Model: Model/Seq.v ([at_exec], [len_exec], [slice_exec]; the index
   arithmetic of the crate slyce as [slyce_indices], CPython's slice semantics
   as the reference [py_slice]).  Proofs: Lemmas/SeqLemmas.v; every theorem
   below is [exact lemma].  Sequences are arrays ([VArr t vs]) and strings
   ([VString s], a list of Unicode scalar values); throughout, the length is
   n = Z.of_nat (length _), integers are unbounded [Z] (slyce computes in i128,
   operands are i64), and slice operands are [option_map VInt a] for an
   arbitrary [a : option Z].  The [Example]s at the end are evaluated by
   [vm_compute] on concrete 5-element sequences. *)
From SSL.Model Require Import Base Ty Float Value Seq.
From SSL.Lemmas Require Import SeqLemmas.
From Coq Require Import ZArith List.
Import ListNotations.
Local Open Scope Z_scope.

(* ---------------------------------------------------------------- len *)

Theorem len_array : forall t vs, len_exec (VArr t vs) = Ok (Z.of_nat (length vs)).
Proof. exact len_arr. Qed.
Theorem len_string : forall s, len_exec (VString s) = Ok (Z.of_nat (length s)).
Proof. exact len_str. Qed.

(* ----------------------------------------------------------- 1. indexing *)

(* for -n <= i < 0, [i mod n] is [n + i] *)
Theorem neg_index_is_mod : forall n i, -n <= i < 0 -> i mod n = n + i.
Proof. exact neg_index_mod. Qed.

Theorem at_array_ok : forall t vs i d,
  - Z.of_nat (length vs) <= i < Z.of_nat (length vs) ->
  at_exec (VArr t vs) (VInt i)
  = Ok (nth (Z.to_nat (i mod Z.of_nat (length vs))) vs d).
Proof. exact at_arr_ok. Qed.

Theorem at_array_oob : forall t vs i,
  ~ (- Z.of_nat (length vs) <= i < Z.of_nat (length vs)) ->
  at_exec (VArr t vs) (VInt i) = Err E_IndexOutOfBounds.
Proof. exact at_arr_oob. Qed.

Theorem at_array_iff : forall t vs i x,
  at_exec (VArr t vs) (VInt i) = Ok x <->
  - Z.of_nat (length vs) <= i < Z.of_nat (length vs) /\
  nth_error vs (Z.to_nat (i mod Z.of_nat (length vs))) = Some x.
Proof. exact at_arr_iff. Qed.

Theorem at_never_panics : forall t vs i, at_exec (VArr t vs) (VInt i) <> Panic.
Proof. exact at_arr_no_panic. Qed.

Theorem at_array_neg : forall t vs i,
  - Z.of_nat (length vs) <= i < 0 ->
  at_exec (VArr t vs) (VInt i) = at_exec (VArr t vs) (VInt (Z.of_nat (length vs) + i)).
Proof. exact at_arr_neg. Qed.

Theorem at_string_ok : forall s i d,
  - Z.of_nat (length s) <= i < Z.of_nat (length s) ->
  at_exec (VString s) (VInt i)
  = Ok (VString [nth (Z.to_nat (i mod Z.of_nat (length s))) s d]).
Proof. exact at_str_ok. Qed.

Theorem at_string_oob : forall s i,
  ~ (- Z.of_nat (length s) <= i < Z.of_nat (length s)) ->
  at_exec (VString s) (VInt i) = Err E_IndexOutOfBounds.
Proof. exact at_str_oob. Qed.

Theorem at_string_iff : forall s i x,
  at_exec (VString s) (VInt i) = Ok x <->
  - Z.of_nat (length s) <= i < Z.of_nat (length s) /\
  exists c, nth_error s (Z.to_nat (i mod Z.of_nat (length s))) = Some c /\
            x = VString [c].
Proof. exact at_str_iff. Qed.

Theorem at_string_never_panics : forall s i, at_exec (VString s) (VInt i) <> Panic.
Proof. exact at_str_no_panic. Qed.

Theorem at_string_neg : forall s i,
  - Z.of_nat (length s) <= i < 0 ->
  at_exec (VString s) (VInt i) = at_exec (VString s) (VInt (Z.of_nat (length s) + i)).
Proof. exact at_str_neg. Qed.

(* -------------------------- 2. the slyce iterator is not cut short by fuel *)

(* In the clamping range the iterator run with the model's fuel [S len] yields
   exactly the arithmetic progression of CPython's closed-form count. *)
Theorem slyce_iter_spec : forall len i e st,
  0 <= len -> st <> 0 ->
  (0 < st -> 0 <= i <= len /\ 0 <= e <= len) ->
  (st < 0 -> -1 <= i <= len - 1 /\ -1 <= e <= len - 1) ->
  slyce_iter (S (Z.to_nat len)) i e st
  = map (fun k => i + Z.of_nat k * st)
        (seq 0 (Z.to_nat
           (if st <? 0 then (if e <? i then (i - e - 1) / (- st) + 1 else 0)
            else (if i <? e then (e - i - 1) / st + 1 else 0)))).
Proof. exact slyce_iter_spec_l. Qed.

(* any fuel >= len gives the same list, and at most len indices are produced *)
Theorem slyce_iter_fuel_enough : forall len i e st fuel,
  0 <= len -> st <> 0 ->
  (0 < st -> 0 <= i <= len /\ 0 <= e <= len) ->
  (st < 0 -> -1 <= i <= len - 1 /\ -1 <= e <= len - 1) ->
  (Z.to_nat len <= fuel)%nat ->
  slyce_iter fuel i e st = slyce_iter (S (Z.to_nat len)) i e st.
Proof. exact slyce_iter_fuel_enough_l. Qed.

Theorem slyce_iter_length_le : forall len i e st,
  0 <= len -> st <> 0 ->
  (0 < st -> 0 <= i <= len /\ 0 <= e <= len) ->
  (st < 0 -> -1 <= i <= len - 1 /\ -1 <= e <= len - 1) ->
  (length (slyce_iter (S (Z.to_nat len)) i e st) <= Z.to_nat len)%nat.
Proof. exact slyce_iter_length_le_l. Qed.

(* ------------------------------------------------------ 3. slyce = Python *)

Theorem slyce_eq_python : forall len, 0 <= len -> forall start stop step,
  slyce_indices len start stop step = py_slice len start stop step.
Proof. exact slyce_eq_py. Qed.

(* ------------------------- 4. selected indices are valid; slicing is total *)

Theorem slyce_indices_in_range : forall len a b c k,
  0 <= len -> In k (slyce_indices len a b c) -> 0 <= k < len.
Proof. exact slyce_indices_in_range_l. Qed.

Theorem py_slice_length_le_len : forall len a b c,
  0 <= len -> (length (py_slice len a b c) <= Z.to_nat len)%nat.
Proof. exact py_slice_length_le. Qed.

Theorem select_total : forall (A : Type) (l : list A) idx,
  (forall k, In k idx -> 0 <= k < Z.of_nat (length l)) ->
  exists r, select l idx = Some r /\ length r = length idx /\
            forall j, (j < length idx)%nat ->
                      nth_error r j = nth_error l (Z.to_nat (nth j idx 0)).
Proof. exact @select_total_l. Qed.

Theorem select_defined_only_in_range : forall (A : Type) (l : list A) idx r,
  select l idx = Some r ->
  forall k, In k idx -> 0 <= k < Z.of_nat (length l).
Proof. exact @select_some_valid. Qed.

(* array -> array; the elements are those at [py_slice n a b c], in order
   (this is [slice_total_array] together with [slice_elements]) *)
Theorem slice_total_array : forall t vs (a b c : option Z),
  exists r,
    slice_exec (VArr t vs) (option_map VInt a) (option_map VInt b) (option_map VInt c)
    = Ok (arr_of r) /\
    length r = length (py_slice (Z.of_nat (length vs)) a b c) /\
    forall j, (j < length (py_slice (Z.of_nat (length vs)) a b c))%nat ->
      nth_error r j
      = nth_error vs (Z.to_nat (nth j (py_slice (Z.of_nat (length vs)) a b c) 0)).
Proof. exact slice_arr_total. Qed.

(* string -> string *)
Theorem slice_total_string : forall s (a b c : option Z),
  exists r,
    slice_exec (VString s) (option_map VInt a) (option_map VInt b) (option_map VInt c)
    = Ok (VString r) /\
    length r = length (py_slice (Z.of_nat (length s)) a b c) /\
    forall j, (j < length (py_slice (Z.of_nat (length s)) a b c))%nat ->
      nth_error r j
      = nth_error s (Z.to_nat (nth j (py_slice (Z.of_nat (length s)) a b c) 0)).
Proof. exact slice_str_total. Qed.

(* the same, read from any successful result *)
Theorem slice_elements : forall t vs a b c w,
  slice_exec (VArr t vs) (option_map VInt a) (option_map VInt b) (option_map VInt c) = Ok w ->
  exists r, w = arr_of r /\
    length r = length (py_slice (Z.of_nat (length vs)) a b c) /\
    forall j, (j < length (py_slice (Z.of_nat (length vs)) a b c))%nat ->
      nth_error r j
      = nth_error vs (Z.to_nat (nth j (py_slice (Z.of_nat (length vs)) a b c) 0)).
Proof. exact slice_arr_elements. Qed.

Theorem slice_elements_string : forall s a b c w,
  slice_exec (VString s) (option_map VInt a) (option_map VInt b) (option_map VInt c) = Ok w ->
  exists r, w = VString r /\
    length r = length (py_slice (Z.of_nat (length s)) a b c) /\
    forall j, (j < length (py_slice (Z.of_nat (length s)) a b c))%nat ->
      nth_error r j
      = nth_error s (Z.to_nat (nth j (py_slice (Z.of_nat (length s)) a b c) 0)).
Proof. exact slice_str_elements. Qed.

Theorem slice_array_never_panics : forall t vs a b c,
  slice_exec (VArr t vs) (option_map VInt a) (option_map VInt b) (option_map VInt c) <> Panic.
Proof. exact slice_arr_no_panic. Qed.

Theorem slice_string_never_panics : forall s a b c,
  slice_exec (VString s) (option_map VInt a) (option_map VInt b) (option_map VInt c) <> Panic.
Proof. exact slice_str_no_panic. Qed.

Theorem slice_array_never_errs : forall t vs a b c e,
  slice_exec (VArr t vs) (option_map VInt a) (option_map VInt b) (option_map VInt c) <> Err e.
Proof. exact slice_arr_no_err. Qed.

Theorem slice_string_never_errs : forall s a b c e,
  slice_exec (VString s) (option_map VInt a) (option_map VInt b) (option_map VInt c) <> Err e.
Proof. exact slice_str_no_err. Qed.

(* on a sequence, slicing succeeds exactly when every present operand is an int *)
Theorem slice_ok_iff_int_operands : forall v a b c,
  (exists t vs, v = VArr t vs) \/ (exists s, v = VString s) ->
  (exists w, slice_exec v a b c = Ok w) <->
  (exists a' b' c', a = option_map VInt a' /\ b = option_map VInt b' /\ c = option_map VInt c').
Proof. exact slice_exec_seq_ok_iff. Qed.

Theorem slice_step_zero_empty : forall t vs a b,
  slice_exec (VArr t vs) (option_map VInt a) (option_map VInt b) (Some (VInt 0))
  = Ok (arr_of []).
Proof. exact slice_arr_step_zero. Qed.

Theorem slice_step_zero_empty_string : forall s a b,
  slice_exec (VString s) (option_map VInt a) (option_map VInt b) (Some (VInt 0))
  = Ok (VString []).
Proof. exact slice_str_step_zero. Qed.

(* -------------------------------------------------- 5. mutual consistency *)

Theorem slice_len_array : forall t vs a b c w,
  slice_exec (VArr t vs) (option_map VInt a) (option_map VInt b) (option_map VInt c) = Ok w ->
  len_exec w = Ok (Z.of_nat (length (py_slice (Z.of_nat (length vs)) a b c))).
Proof. exact slice_arr_len. Qed.

Theorem slice_len_string : forall s a b c w,
  slice_exec (VString s) (option_map VInt a) (option_map VInt b) (option_map VInt c) = Ok w ->
  len_exec w = Ok (Z.of_nat (length (py_slice (Z.of_nat (length s)) a b c))).
Proof. exact slice_str_len. Qed.

Theorem slice_len_le_array : forall t vs a b c w m,
  slice_exec (VArr t vs) (option_map VInt a) (option_map VInt b) (option_map VInt c) = Ok w ->
  len_exec w = Ok m -> 0 <= m <= Z.of_nat (length vs).
Proof. exact slice_arr_len_le. Qed.

Theorem slice_len_le_string : forall s a b c w m,
  slice_exec (VString s) (option_map VInt a) (option_map VInt b) (option_map VInt c) = Ok w ->
  len_exec w = Ok m -> 0 <= m <= Z.of_nat (length s).
Proof. exact slice_str_len_le. Qed.

(* (s[a:b:c])[j] = s[i_j] *)
Theorem slice_at_array : forall t vs a b c w j,
  slice_exec (VArr t vs) (option_map VInt a) (option_map VInt b) (option_map VInt c) = Ok w ->
  0 <= j < Z.of_nat (length (py_slice (Z.of_nat (length vs)) a b c)) ->
  at_exec w (VInt j)
  = at_exec (VArr t vs) (VInt (nth (Z.to_nat j) (py_slice (Z.of_nat (length vs)) a b c) 0)).
Proof. exact slice_arr_at. Qed.

Theorem slice_at_string : forall s a b c w j,
  slice_exec (VString s) (option_map VInt a) (option_map VInt b) (option_map VInt c) = Ok w ->
  0 <= j < Z.of_nat (length (py_slice (Z.of_nat (length s)) a b c)) ->
  at_exec w (VInt j)
  = at_exec (VString s) (VInt (nth (Z.to_nat j) (py_slice (Z.of_nat (length s)) a b c) 0)).
Proof. exact slice_str_at. Qed.

(* indexing the slice outside [-m, m), m its len, is IndexOutOfBounds *)
Theorem slice_at_oob_array : forall t vs a b c w j,
  slice_exec (VArr t vs) (option_map VInt a) (option_map VInt b) (option_map VInt c) = Ok w ->
  ~ (- Z.of_nat (length (py_slice (Z.of_nat (length vs)) a b c)) <= j
     < Z.of_nat (length (py_slice (Z.of_nat (length vs)) a b c))) ->
  at_exec w (VInt j) = Err E_IndexOutOfBounds.
Proof. exact slice_arr_at_oob. Qed.

Theorem slice_at_oob_string : forall s a b c w j,
  slice_exec (VString s) (option_map VInt a) (option_map VInt b) (option_map VInt c) = Ok w ->
  ~ (- Z.of_nat (length (py_slice (Z.of_nat (length s)) a b c)) <= j
     < Z.of_nat (length (py_slice (Z.of_nat (length s)) a b c))) ->
  at_exec w (VInt j) = Err E_IndexOutOfBounds.
Proof. exact slice_str_at_oob. Qed.

(* the full slice [:] *)
Theorem py_slice_full_indices : forall n,
  0 <= n -> py_slice n None None None = map Z.of_nat (seq 0 (Z.to_nat n)).
Proof. exact py_slice_full. Qed.

Theorem slice_full_array : forall t vs,
  slice_exec (VArr t vs) None None None = Ok (arr_of vs).
Proof. exact slice_arr_full. Qed.

Theorem slice_full_string : forall s,
  slice_exec (VString s) None None None = Ok (VString s).
Proof. exact slice_str_full. Qed.

(* reversal [::-1] *)
Theorem py_slice_rev_indices : forall n,
  0 <= n ->
  py_slice n None None (Some (-1))
  = map (fun k => n - 1 - Z.of_nat k) (seq 0 (Z.to_nat n)).
Proof. exact py_slice_rev. Qed.

Theorem slice_rev_array : forall t vs,
  slice_exec (VArr t vs) None None (Some (VInt (-1))) = Ok (arr_of (rev vs)).
Proof. exact slice_arr_rev. Qed.

Theorem slice_rev_string : forall s,
  slice_exec (VString s) None None (Some (VInt (-1))) = Ok (VString (rev s)).
Proof. exact slice_str_rev. Qed.

(* -------------------------------------------------------- 6. non-vacuity *)

Definition ex_a5 : value := VArr TInt [VInt 10; VInt 11; VInt 12; VInt 13; VInt 14].
Definition ex_s5 : value := VString [97; 98; 99; 100; 101].
Definition ex_min : Z := -9223372036854775808.
Definition ex_max : Z := 9223372036854775807.

Example ex_at_neg :
  at_exec ex_a5 (VInt (-1)) = Ok (VInt 14) /\
  at_exec ex_a5 (VInt (-5)) = Ok (VInt 10) /\
  at_exec ex_a5 (VInt 4) = Ok (VInt 14) /\
  at_exec ex_s5 (VInt (-2)) = Ok (VString [100]).
Proof. repeat split; vm_compute; reflexivity. Qed.

Example ex_at_oob :
  at_exec ex_a5 (VInt (-6)) = Err E_IndexOutOfBounds /\
  at_exec ex_a5 (VInt 5) = Err E_IndexOutOfBounds /\
  at_exec ex_a5 (VInt ex_min) = Err E_IndexOutOfBounds /\
  at_exec ex_s5 (VInt ex_max) = Err E_IndexOutOfBounds /\
  at_exec (VArr TNever []) (VInt 0) = Err E_IndexOutOfBounds.
Proof. repeat split; vm_compute; reflexivity. Qed.

(* the restriction to integer indices / sequences is necessary *)
Example ex_at_panics :
  at_exec ex_a5 (VBool true) = Panic /\ at_exec (VInt 3) (VInt 0) = Panic.
Proof. split; vm_compute; reflexivity. Qed.

Example ex_slice_neg_step_oob_bounds :
  slice_exec ex_a5 (Some (VInt 100)) (Some (VInt (-100))) (Some (VInt (-2)))
  = Ok (VArr TInt [VInt 14; VInt 12; VInt 10]) /\
  py_slice 5 (Some 100) (Some (-100)) (Some (-2)) = [4; 2; 0] /\
  slyce_indices 5 (Some 100) (Some (-100)) (Some (-2)) = [4; 2; 0].
Proof. repeat split; vm_compute; reflexivity. Qed.

Example ex_slice_i64_extremes :
  slice_exec ex_a5 (Some (VInt ex_min)) (Some (VInt ex_max)) (Some (VInt ex_max))
  = Ok (VArr TInt [VInt 10]) /\
  slice_exec ex_a5 (Some (VInt ex_max)) (Some (VInt ex_min)) (Some (VInt ex_min))
  = Ok (VArr TInt [VInt 14]) /\
  slice_exec ex_a5 (Some (VInt ex_min)) (Some (VInt ex_max)) None = Ok ex_a5 /\
  slice_exec ex_a5 (Some (VInt ex_max)) (Some (VInt ex_min)) None = Ok (VArr TNever []) /\
  slice_exec ex_s5 (Some (VInt ex_max)) (Some (VInt ex_min)) (Some (VInt (-1)))
  = Ok (VString [101; 100; 99; 98; 97]).
Proof. repeat split; vm_compute; reflexivity. Qed.

Example ex_slice_misc :
  slice_exec ex_a5 (Some (VInt 1)) (Some (VInt (-1))) None
  = Ok (VArr TInt [VInt 11; VInt 12; VInt 13]) /\
  slice_exec ex_a5 None None (Some (VInt 0)) = Ok (VArr TNever []) /\
  slice_exec ex_s5 (Some (VInt (-2))) None (Some (VInt (-2))) = Ok (VString [100; 98]) /\
  slice_exec ex_s5 None (Some (VInt 2)) None = Ok (VString [97; 98]).
Proof. repeat split; vm_compute; reflexivity. Qed.

(* non-integer operands and non-sequences do reach Panic in the model (the
   checker rejects them statically; S3 is the one hole, see DESIGN) *)
Example ex_slice_panics :
  slice_exec ex_a5 (Some (VBool true)) None None = Panic /\
  slice_exec (VInt 3) None None None = Panic.
Proof. split; vm_compute; reflexivity. Qed.

(* outside the clamping range the fuel S len *can* cut the raw iterator short,
   so the range hypotheses of [slyce_iter_spec] are necessary *)
Example ex_iter_fuel_needed :
  slyce_iter (S (Z.to_nat 2)) 0 10 1 = [0; 1; 2] /\
  length (slyce_iter 20 0 10 1) = 10%nat.
Proof. split; vm_compute; reflexivity. Qed.

(* for a negative length the two index computations differ, so [0 <= len] in
   [slyce_eq_python] is necessary *)
Example ex_neg_len_differs :
  slyce_indices (-3) (Some 0) (Some (-1)) None <> py_slice (-3) (Some 0) (Some (-1)) None.
Proof. vm_compute. discriminate. Qed.

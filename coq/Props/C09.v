(* C09 — indexing, slicing and len agree for all sequences and indices. *)
From SSL.Model Require Import Base Ty Float Value Seq.
From SSL.Lemmas Require Import SeqLemmas.
From Coq Require Import ZArith.
Local Open Scope Z_scope.

Theorem len_array : forall t vs, len_exec (VArr t vs) = Ok (Z.of_nat (length vs)).
Proof. exact len_arr. Qed.
Theorem len_string : forall s, len_exec (VString s) = Ok (Z.of_nat (length s)).
Proof. exact len_str. Qed.

(* C17 — embedding API.  Proved here: a host call (Function::create_call) accepts exactly the
   argument lists an in-language call of the same function accepts.  REPL = batch, isolation and
   repeatability of exec are established by lane L9 (not by proof; see DESIGN.md). *)
From SSL.Model Require Import Base Ty Float Value Ops Syntax Rt Recreate Check Host.
From SSL.Lemmas Require Import HostLemmas.

Theorem host_call_is_arity_and_matches : forall ps args,
  host_call_ok ps args = args_ok ps (map as_type args).
Proof. exact host_call_ok_args_ok. Qed.

Theorem host_call_accepts_iff_inline_call_accepts :
  forall (red : reducers) fuel sc e id ps r args,
  host_call_ok ps args = true <->
  exists i, check_x red (S (S fuel)) sc e (XCall (XConst (VFun id ps r)) (map XConst args)) = Ok i.
Proof. exact host_call_accepts_iff_inline. Qed.

Theorem accepted_host_call_has_right_arity : forall ps args,
  host_call_ok ps args = true -> length ps = length args.
Proof. exact host_call_arity. Qed.

Theorem accepted_host_call_arguments_match : forall ps args,
  host_call_ok ps args = true ->
  forall k a p, nth_error args k = Some a -> nth_error ps k = Some p -> matches (as_type a) p = true.
Proof. exact host_call_arg_types. Qed.

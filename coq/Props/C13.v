(* C13 — mutable cells.  Statements only; every proof is `exact <lemma>`
   (Lemmas/CellLemmas.v).

   Notions.  The store ([Syntax.store]) holds the cells as a list [s_cells];
   a location is an index into it; a `mut` value is [VMut loc t] (location +
   declared content type).  The interpreter (Model/Exec.v) touches cells only via
     [alloc_cell st v]      -- `mut v`: append v, return the new index,  log EvAlloc
     [write_cell st loc v]  -- `x = v`, `x op= v`: overwrite index loc,  log EvWrite
   and reads them with [nth_error (s_cells st) loc].
   [deref st v] is the content seen through the value v (None if v is not a
   live `mut`).
   History model: a [cop] is one cell operation, [step powf st c] performs it
   exactly as the `IMut`, `Assign` and compound-assignment arms of [Exec] do
   (lemmas [step_*_is_exec_arm] are that correspondence, by computation) and
   returns the new store and the outcome; [run powf st h] folds a history.
     CAlloc t v         `mut v` declared with content type t, yields Ok (VMut loc t)
     CAssign loc v      `x = v`: Ok v and the cell holds v; Panic (store
                        unchanged) if the cell does not exist
     COpAssign loc o v  `x o= v` (o the base operator): cur := cell; on
                        op_exec o cur v = Ok r the cell holds r and Ok r is
                        yielded; any other outcome is yielded with the store
                        (cells AND log) unchanged.
   Typed content invariant: [store_typed decl st] -- decl lists the declared
   content type of every cell (same length as the cells) and every cell's
   content inhabits its declared type ([has_type]).  [admissible_step decl c]
   is what the type checker (Check.assign_ok) demands of c, stated semantically;
   [admissible_run decl h] threads it through a history, [decl_run decl h] are
   the declarations after h.  [touches c l]: c is an assignment to location l.
   The last group ([checked_*]) derives that semantic condition from the test the
   checker really performs ([Check.can_be_used] on the assignment operators),
   through the operator soundness theorems of C01 (Lemmas/SoundLemmas.v);
   [doc_error o e]: e is the documented error of operator o.
   [powf] (libm) is external. *)
From Coq Require Import List ZArith.
From SSL.Model Require Import Base Ty Float Value Ops Syntax Rt Recreate Exec Check.
From SSL.Lemmas Require Import SoundLemmas CellLemmas.
Import ListNotations.
Local Open Scope Z_scope.

Section C13.
Variable powf : fbits -> fbits -> fbits.
Notation op := (op_exec powf).
Notation step := (CellLemmas.step powf).
Notation run := (CellLemmas.run powf).
Notation admissible_step := (CellLemmas.admissible_step powf).
Notation admissible_run := (CellLemmas.admissible_run powf).

(* ---- `mut` creates a fresh cell and leaves the others alone ---- *)
Theorem alloc_fresh : forall st v st' loc,
  alloc_cell st v = (st', loc) ->
  loc = length (s_cells st) /\
  nth_error (s_cells st') loc = Some v /\
  forall l, (l < loc)%nat -> nth_error (s_cells st') l = nth_error (s_cells st) l.
Proof. exact alloc_fresh. Qed.
Theorem alloc_length : forall st v st' loc,
  alloc_cell st v = (st', loc) -> length (s_cells st') = S (length (s_cells st)).
Proof. exact alloc_length. Qed.
Theorem alloc_funs_unchanged : forall st v st' loc,
  alloc_cell st v = (st', loc) -> s_funs st' = s_funs st.
Proof. exact alloc_funs. Qed.
Theorem alloc_logged : forall st v st' loc,
  alloc_cell st v = (st', loc) -> s_log st' = EvAlloc loc v :: s_log st.
Proof. exact alloc_log. Qed.
Theorem alloc_twice_distinct : forall st v1 st1 l1 v2 st2 l2,
  alloc_cell st v1 = (st1, l1) -> alloc_cell st1 v2 = (st2, l2) -> l2 = S l1.
Proof. exact alloc_twice_distinct. Qed.

(* ---- writes ---- *)
Theorem read_after_write : forall st loc v,
  (loc < length (s_cells st))%nat -> nth_error (s_cells (write_cell st loc v)) loc = Some v.
Proof. exact read_after_write. Qed.
Theorem write_other_unchanged : forall st loc l v,
  l <> loc -> nth_error (s_cells (write_cell st loc v)) l = nth_error (s_cells st) l.
Proof. exact write_other_unchanged. Qed.
Theorem write_preserves_length : forall st loc v,
  length (s_cells (write_cell st loc v)) = length (s_cells st).
Proof. exact write_preserves_length. Qed.
Theorem write_out_of_range_noop : forall st loc v,
  (length (s_cells st) <= loc)%nat -> s_cells (write_cell st loc v) = s_cells st.
Proof. exact write_out_of_range_noop. Qed.
Theorem write_funs_unchanged : forall st loc v, s_funs (write_cell st loc v) = s_funs st.
Proof. exact write_funs. Qed.
Theorem write_logged : forall st loc v, s_log (write_cell st loc v) = EvWrite loc v :: s_log st.
Proof. exact write_log. Qed.
Theorem last_write_wins : forall st loc v w,
  s_cells (write_cell (write_cell st loc v) loc w) = s_cells (write_cell st loc w).
Proof. exact write_write_same. Qed.

(* ---- aliasing is by location ---- *)
Theorem alias_same_content : forall st loc t t', deref st (VMut loc t) = deref st (VMut loc t').
Proof. exact alias_same_content. Qed.
Theorem alias_write_visible : forall st loc t t' v,
  (loc < length (s_cells st))%nat ->
  deref (write_cell st loc v) (VMut loc t) = Some v /\
  deref (write_cell st loc v) (VMut loc t') = Some v.
Proof. exact alias_write_visible. Qed.
Theorem alias_assign_visible : forall st loc t t' v,
  deref st (VMut loc t) <> None ->
  deref (fst (step st (CAssign loc v))) (VMut loc t') = Some v.
Proof. exact (alias_step_visible powf). Qed.
Theorem distinct_cells_independent : forall st loc loc' t' v,
  loc' <> loc -> deref (write_cell st loc v) (VMut loc' t') = deref st (VMut loc' t').
Proof. exact distinct_loc_independent. Qed.

(* ---- the history model is the interpreter's arms ---- *)
Theorem step_alloc_is_exec_arm : forall st (sc : scopes) t v,
  (let '(st', loc) := alloc_cell st v in (st', sc, SVal (VMut loc t)) : res) =
  (fst (step st (CAlloc t v)), sc, sig_of SVal (snd (step st (CAlloc t v)))).
Proof. exact (step_alloc_is_exec_arm powf). Qed.
Theorem step_assign_is_exec_arm : forall st (sc : scopes) loc v,
  match nth_error (s_cells st) loc with
  | Some _ => (write_cell st loc v, sc, SVal v)
  | None => (st, sc, SPanic)
  end = (fst (step st (CAssign loc v)), sc, sig_of SVal (snd (step st (CAssign loc v)))).
Proof. exact (step_assign_is_exec_arm powf). Qed.
Theorem step_opassign_is_exec_arm : forall st (sc : scopes) loc o v,
  match nth_error (s_cells st) loc with
  | Some cur => sig_of_outcome (op o cur v) (fun r => (write_cell st loc r, sc, SVal r)) st sc
  | None => (st, sc, SPanic)
  end = (fst (step st (COpAssign loc o v)), sc, sig_of SVal (snd (step st (COpAssign loc o v)))).
Proof. exact (step_opassign_is_exec_arm powf). Qed.

(* ---- single steps ---- *)
Theorem alloc_yields_fresh : forall st t v,
  snd (step st (CAlloc t v)) = Ok (VMut (length (s_cells st)) t) /\
  s_cells (fst (step st (CAlloc t v))) = s_cells st ++ [v] /\
  deref (fst (step st (CAlloc t v))) (VMut (length (s_cells st)) t) = Some v.
Proof. exact (alloc_yields_fresh powf). Qed.
Theorem assign_yields_stored : forall st loc v,
  (loc < length (s_cells st))%nat ->
  snd (step st (CAssign loc v)) = Ok v /\
  nth_error (s_cells (fst (step st (CAssign loc v)))) loc = Some v.
Proof. exact (assign_yields_stored powf). Qed.
Theorem assign_missing_panics : forall st loc v,
  (length (s_cells st) <= loc)%nat -> step st (CAssign loc v) = (st, Panic).
Proof. exact (assign_missing_panics powf). Qed.
Theorem opassign_missing_panics : forall st loc o v,
  (length (s_cells st) <= loc)%nat -> step st (COpAssign loc o v) = (st, Panic).
Proof. exact (opassign_missing_panics powf). Qed.
Theorem opassign_value : forall st loc o cur v r,
  nth_error (s_cells st) loc = Some cur -> op o cur v = Ok r ->
  snd (step st (COpAssign loc o v)) = Ok r /\
  nth_error (s_cells (fst (step st (COpAssign loc o v)))) loc = Some r.
Proof. exact (opassign_value powf). Qed.
Theorem opassign_fail_unchanged : forall st loc o cur v e,
  nth_error (s_cells st) loc = Some cur -> op o cur v = Err e ->
  fst (step st (COpAssign loc o v)) = st /\ snd (step st (COpAssign loc o v)) = Err e.
Proof. exact (opassign_fail_unchanged powf). Qed.
Theorem opassign_notok_unchanged : forall st loc o cur v,
  nth_error (s_cells st) loc = Some cur -> (forall r, op o cur v <> Ok r) ->
  step st (COpAssign loc o v) = (st, op o cur v).
Proof. exact (opassign_notok_unchanged powf). Qed.
Theorem opassign_outcome : forall st loc o cur v,
  nth_error (s_cells st) loc = Some cur -> snd (step st (COpAssign loc o v)) = op o cur v.
Proof. exact (opassign_outcome powf). Qed.

(* ---- frame properties ---- *)
Theorem step_other_unchanged : forall st c l,
  (l < length (s_cells st))%nat -> ~ touches c l ->
  nth_error (s_cells (fst (step st c))) l = nth_error (s_cells st) l.
Proof. exact (step_other_unchanged powf). Qed.
Theorem step_length : forall st c,
  length (s_cells (fst (step st c))) =
  match c with CAlloc _ _ => S (length (s_cells st)) | _ => length (s_cells st) end.
Proof. exact (step_length powf). Qed.
Theorem run_length_mono : forall st h, (length (s_cells st) <= length (s_cells (run st h)))%nat.
Proof. exact (run_length_mono powf). Qed.
Theorem run_length_exact : forall st h,
  length (s_cells (run st h)) = (length (s_cells st) + allocs h)%nat.
Proof. exact (run_length_exact powf). Qed.
Theorem step_funs_unchanged : forall st c, s_funs (fst (step st c)) = s_funs st.
Proof. exact (step_funs powf). Qed.
Theorem run_funs_unchanged : forall st h, s_funs (run st h) = s_funs st.
Proof. exact (run_funs powf). Qed.
Theorem step_log_grows_by_at_most_one : forall st c,
  s_log (fst (step st c)) = s_log st \/ exists ev, s_log (fst (step st c)) = ev :: s_log st.
Proof. exact (step_log powf). Qed.
Theorem run_log_suffix : forall st h,
  exists evs, s_log (run st h) = evs ++ s_log st /\ (length evs <= length h)%nat.
Proof. exact (run_log_suffix powf). Qed.

(* ---- typed content invariant ---- *)
Theorem store_typed_empty : forall fs log, store_typed [] (mkStore fs [] log).
Proof. exact store_typed_empty. Qed.
Theorem store_typed_step : forall decl st c,
  store_typed decl st -> admissible_step decl c ->
  store_typed (decl_after decl c) (fst (step st c)).
Proof. exact (store_typed_step powf). Qed.
Theorem store_typed_run : forall decl st h,
  store_typed decl st -> admissible_run decl h ->
  store_typed (decl_run decl h) (run st h).
Proof. exact (store_typed_run powf). Qed.
Theorem store_typed_prefix : forall decl st h k,
  store_typed decl st -> admissible_run decl h ->
  store_typed (decl_run decl (firstn k h)) (run st (firstn k h)).
Proof. exact (store_typed_prefix powf). Qed.
Theorem store_typed_from_empty : forall fs log h,
  admissible_run [] h ->
  store_typed (decl_run [] h) (run (mkStore fs [] log) h).
Proof. exact (store_typed_from_empty powf). Qed.
Theorem admissible_run_app : forall decl h1 h2,
  admissible_run decl (h1 ++ h2) <->
  admissible_run decl h1 /\ admissible_run (decl_run decl h1) h2.
Proof. exact (admissible_run_app powf). Qed.

(* under the invariant the missing-cell arm is dead *)
Theorem typed_assign_no_panic : forall decl st loc v,
  store_typed decl st -> admissible_step decl (CAssign loc v) ->
  snd (step st (CAssign loc v)) = Ok v /\
  nth_error (s_cells (fst (step st (CAssign loc v)))) loc = Some v.
Proof. exact (typed_assign_no_panic powf). Qed.
Theorem typed_opassign_no_missing : forall decl st loc o v,
  store_typed decl st -> admissible_step decl (COpAssign loc o v) ->
  exists t cur, nth_error decl loc = Some t /\
    nth_error (s_cells st) loc = Some cur /\ has_type cur t = true /\
    snd (step st (COpAssign loc o v)) = op o cur v.
Proof. exact (typed_opassign_no_missing powf). Qed.
Theorem typed_step_panic_only_from_op : forall decl st c,
  store_typed decl st -> admissible_step decl c ->
  snd (step st c) = Panic ->
  exists loc o v cur, c = COpAssign loc o v /\
    nth_error (s_cells st) loc = Some cur /\ op o cur v = Panic.
Proof. exact (typed_step_panic_only_from_op powf). Qed.
Theorem typed_step_yields_typed : forall decl st c r,
  store_typed decl st -> admissible_step decl c -> snd (step st c) = Ok r ->
  match c with
  | CAlloc t _ => r = VMut (length decl) t
  | CAssign loc _ | COpAssign loc _ _ =>
      exists t, nth_error decl loc = Some t /\ has_type r t = true /\
                nth_error (s_cells (fst (step st c))) loc = Some r
  end.
Proof. exact (typed_step_yields_typed powf). Qed.

(* ---- what the checker accepts is admissible ---- *)
Theorem checked_assign_admissible : forall decl loc t T2 v,
  nth_error decl loc = Some t ->
  can_be_used Assign (TMut t) T2 = Ok true -> has_type v T2 = true ->
  admissible_step decl (CAssign loc v).
Proof. exact (CellLemmas.checked_assign_admissible powf). Qed.

Theorem checked_opassign_admissible : forall decl loc aop bop t T2 v,
  assign_base aop = Some bop -> wf_ty t = true -> wf_ty T2 = true ->
  nth_error decl loc = Some t ->
  can_be_used aop (TMut t) T2 = Ok true -> has_type v T2 = true ->
  admissible_step decl (COpAssign loc bop v).
Proof. exact (CellLemmas.checked_opassign_admissible powf). Qed.

Theorem typed_checked_opassign_outcome : forall decl st loc aop bop t T2 v,
  store_typed decl st ->
  assign_base aop = Some bop -> wf_ty t = true -> wf_ty T2 = true ->
  nth_error decl loc = Some t ->
  can_be_used aop (TMut t) T2 = Ok true -> has_type v T2 = true ->
  snd (step st (COpAssign loc bop v)) <> Panic /\
  (forall e, snd (step st (COpAssign loc bop v)) = Err e -> doc_error bop e).
Proof. exact (CellLemmas.typed_checked_opassign_outcome powf). Qed.

(* ---- non-vacuity:  x := mut 1 (declared mut int|string);  x = "a";  x += "b" ---- *)
Definition st0 : store := mkStore [] [] [].
Definition t_is : ty := TMulti [TInt; TString].
Definition h3 : list cop :=
  [CAlloc t_is (VInt 1); CAssign 0 (VString [97]); COpAssign 0 Add (VString [98])].

Example h3_cells : s_cells (run st0 h3) = [VString [97; 98]].
Proof. reflexivity. Qed.
Example h3_log :
  s_log (run st0 h3) =
  [EvWrite 0 (VString [97; 98]); EvWrite 0 (VString [97]); EvAlloc 0 (VInt 1)].
Proof. reflexivity. Qed.
Example h3_outcomes :
  snd (step st0 (CAlloc t_is (VInt 1))) = Ok (VMut 0 t_is) /\
  snd (step (run st0 (firstn 1 h3)) (CAssign 0 (VString [97]))) = Ok (VString [97]) /\
  snd (step (run st0 (firstn 2 h3)) (COpAssign 0 Add (VString [98]))) = Ok (VString [97; 98]).
Proof. repeat split; reflexivity. Qed.
Example h3_decl : decl_run [] h3 = [t_is].
Proof. reflexivity. Qed.
Example h3_admissible : admissible_run [] h3.
Proof.
  split; [reflexivity|]. split; [exists t_is; split; reflexivity|].
  split; [|exact I]. exists t_is. split; [reflexivity|].
  exact (add_string_keeps_int_or_string powf [98]).
Qed.
Example h3_typed : store_typed [t_is] (run st0 h3).
Proof. exact (store_typed_from_empty [] [] h3 h3_admissible). Qed.
Example h3_cells_ok : cells_ok [t_is] (run st0 h3).
Proof. exact (proj2 h3_typed). Qed.
(* ... and an inadmissible step really breaks the invariant: storing a bool *)
Example h3_bool_not_admissible : ~ admissible_step [t_is] (CAssign 0 (VBool true)).
Proof. intros [t [Hd Hv]]. inversion Hd; subst t. discriminate Hv. Qed.
Example h3_bool_breaks : ~ cells_ok [t_is] (fst (step (run st0 h3) (CAssign 0 (VBool true)))).
Proof.
  intros H. destruct (H 0%nat t_is eq_refl) as [v [Hv Ht]].
  inversion Hv; subst v. discriminate Ht.
Qed.

(* a failing compound assignment leaves cells and log untouched *)
Definition st1 : store := mkStore [] [VInt 5] [EvAlloc 0 (VInt 5)].
Example div_zero_unchanged :
  step st1 (COpAssign 0 Divide (VInt 0)) = (st1, Err E_ZeroDivision).
Proof. reflexivity. Qed.
Example div_zero_cells_log :
  s_cells (fst (step st1 (COpAssign 0 Divide (VInt 0)))) = [VInt 5] /\
  s_log (fst (step st1 (COpAssign 0 Divide (VInt 0)))) = [EvAlloc 0 (VInt 5)].
Proof. split; reflexivity. Qed.
(* assignment to a cell that does not exist: Panic, store unchanged *)
Example assign_missing : step st0 (CAssign 0 (VInt 1)) = (st0, Panic).
Proof. reflexivity. Qed.
(* two aliases of cell 0 (declared types may differ) see the same write *)
Example alias_example :
  deref (fst (step st1 (CAssign 0 (VInt 7)))) (VMut 0 TInt) = Some (VInt 7) /\
  deref (fst (step st1 (CAssign 0 (VInt 7)))) (VMut 0 t_is) = Some (VInt 7).
Proof. split; reflexivity. Qed.

End C13.

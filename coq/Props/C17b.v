(* C17b — embedding API, first clause: REPL equals batch.
   Companion of Props/C17.v (host calls).  Statements only; every theorem is [exact lemma].

   Model (Model/Repl.v):
     repl_step / repl_run    one interpreter (store + scopes); every input is parsed AGAINST THE
                   CURRENT INTERPRETER ([parse_top] with creating scopes = the current scopes and a
                   fresh LocalVariables [e_new]: every name bound so far is a constant, its actual
                   value, for the checker and for the folding pass) and run unscoped in it;
     batch_run / batch_prefixes   the whole text (each prefix of the session) parsed once against
                   the start interpreter and run unscoped in the start state.
   Proofs: Lemmas/RecrEmbed.v (creating scopes as one more layer of the pass's environment, so
   the C04 preservation theorems apply to any creating scopes), Lemmas/CheckWfi.v, ReplCR1-3.v
   (two checker runs — one knowing more constants — build instructions that the pass maps to
   the same instruction), Lemmas/ReplMain.v.

   THE THEOREM ([repl_equals_batch] for one-statement inputs, [repl_chunks_equal_batch] for
   inputs of several statements — an input of several statements is, for the REPL route, a
   small batch: all of it is parsed against the interpreter as it is when the input arrives): the list of
   (printed result, interpreter) pairs of the REPL route is LITERALLY the list the batch route
   produces on the prefixes: same results, same scopes (hence the same values of all top-level
   variables), same store — cells, effect log, and closures: the REPL route folds more into a
   closure literal at parse time, but a closure body is folded again when the closure is
   created, against the same scopes, so the closures allocated are identical.
   Hypotheses, per step ([sess_ok pf n e_b st sc lines], all but exactness decidable):
     - both routes accept the statement (the property allows them to differ here);
     - it is in the fragment [rfl] (Lemmas/ReplFrag.v): no modules, `for`, iterator operators,
       full slice `x[::]`, destructuring lines (not covered yet), `while x` on a bare name, bare
       name as a non-last statement of a body (the checker itself treats constants specially
       in the last two);
     - [dok] of the two recreated instructions (arity of destructurings; from typing);
     - EXACTNESS [exact e_b sc]: every name the batch route knows only by its declared type is
       bound to a value of exactly that type;
     - the un-folded batch instruction runs to a value with the given fuel (no panic).
   FINDING ([repl_batch_differ], Lemmas/ReplFinding.v; confirmed on the implementation):
   without exactness both routes can complete with different results — an un-annotated
   `mut x` declares the cell with the static type of x (declared union in batch, type of the
   actual value in the REPL), and a type arm `c: mut int` of `match` reads it. *)
From Coq Require Import ZArith List Bool.
Import ListNotations.
From SSL.Model Require Import Base Ty Float Value Ops Seq Syntax Rt Recreate Exec Check Top Repl.
From SSL.Lemmas Require Import ExecLemmas CheckUnfold RecrUnfold RecrDefs RecrEmbed ReplFrag CheckWfi
  ReplCR1 ReplCR2 ReplCR3 ReplMain ReplChunks RecrExamples RecrExamples2 ReplExamples ReplExamples2 ReplFinding.
Local Open Scope Z_scope.

Section C17b.
Variable powf : fbits -> fbits -> fbits.
Variable pre : prelude.
Variable red : reducers.
Notation E := (exec powf pre).

(* ---- creating scopes are one more layer of the pass's environment ---- *)
Theorem recreate_in_creating_scopes : forall scR f e i i' e', e <> [] ->
  recreate powf f scR e i = Ok (i', e') ->
  recreate powf f [] (emb scR e) i = Ok (i', emb scR e') /\ e' <> [].
Proof. exact (recreate_emb powf). Qed.

Theorem agree_with_creating_scopes : forall scR e sc,
  agree (emb scR e) sc <->
  agree e sc /\ (forall n v, lenv_get n e = None -> scopes_get n scR = Some v -> scopes_get n sc = Some v).
Proof. exact agree_emb. Qed.

(* ---- the checker builds what the preservation theorems need ---- *)
Theorem checked_lines_wfi : forall n sc e l is e',
  forallb rfl l = true -> check_lines red n sc e l = Ok (is, e') -> forallb (wfi true true) is = true.
Proof. exact (fun n => proj2 (proj2 (check_wfi_all red n))). Qed.

(* ---- two checker runs, one pass ---- *)
(* run A in (scA, eA), run B in (scB, eB), the pass in (sc, e2); [cons3]: for every name, what A
   and B make of it has the same static type and the pass resolves both to the same thing *)
Theorem two_checker_runs_one_pass : forall sc scA scB n eA eB ln iA iB eA1 eB1 e2,
  cons3 sc scA scB eA eB e2 -> rfl ln = true ->
  check_lines red n scA eA [ln] = Ok ([iA], eA1) -> check_lines red n scB eB [ln] = Ok ([iB], eB1) ->
  rt iA = rt iB /\ forall g, recreate powf g sc e2 iA = recreate powf g sc e2 iB.
Proof. exact (CR_top_line powf red). Qed.

(* ---- one step ---- *)
Theorem repl_step_equals_batch_step : forall sc0 pf e_b sc ln ib eA1 ib' e_b' ir eB1 ir' er',
  rfl ln = true -> e_b <> [] ->
  check_lines red pf sc0 (lenv_push e_b) [ln] = Ok ([ib], eA1) -> recreate powf pf sc0 e_b ib = Ok (ib', e_b') ->
  check_lines red pf sc (lenv_push e_new) [ln] = Ok ([ir], eB1) -> recreate powf pf sc e_new ir = Ok (ir', er') ->
  dok ib' = true -> dok ir' = true ->
  agree (emb sc0 e_b) sc -> exact e_b sc ->
  (forall n st, okr (E n st sc ib) -> E n st sc ib' = E n st sc ib /\ E n st sc ir' = E n st sc ib) /\
  (forall n st st1 sc1 v, E n st sc ib = (st1, sc1, SVal v) -> agree (emb sc0 e_b') sc1) /\
  e_b' <> [].
Proof. exact (repl_step_eq powf pre red). Qed.

(* ---- the session ---- *)
Theorem repl_equals_batch : forall sc0 pf n st0 lines,
  sess_ok powf pre red sc0 pf n e_new st0 sc0 lines ->
  repl_run powf pre red pf n (mkI st0 sc0) (map (fun ln => [ln]) lines) =
  batch_prefixes powf pre red pf n (mkI st0 sc0) (map (fun ln => [ln]) lines).
Proof. exact (repl_run_eq_batch_prefixes powf pre red). Qed.

(* what lane L9 compares: printed result and the values of the given top-level names *)
Theorem repl_observations_equal_batch : forall sc0 pf n st0 lines names,
  sess_ok powf pre red sc0 pf n e_new st0 sc0 lines ->
  map (fun p => (fst p, observe names (snd p)))
      (repl_run powf pre red pf n (mkI st0 sc0) (map (fun ln => [ln]) lines)) =
  map (fun p => (fst p, observe names (snd p)))
      (batch_prefixes powf pre red pf n (mkI st0 sc0) (map (fun ln => [ln]) lines)).
Proof. exact (repl_observations_eq_batch powf pre red). Qed.

(* ---- inputs of several statements ---- *)
(* one statement in the middle of an input: route A = batch (creating scopes scA, environment eA),
   route B = REPL (creating scopes = the scopes when the input arrived, environment eB threaded
   within the input); i2' = the un-folded instruction re-folded against the CURRENT scopes *)
Theorem two_routes_one_statement : forall pf scA eA scB eB sc ln iA eA1 iA' eA' iB eB1 iB' eB' i2' e2',
  rfl ln = true -> eA <> [] -> eB <> [] ->
  check_lines red pf scA (lenv_push eA) [ln] = Ok ([iA], eA1) -> recreate powf pf scA eA iA = Ok (iA', eA') ->
  check_lines red pf scB (lenv_push eB) [ln] = Ok ([iB], eB1) -> recreate powf pf scB eB iB = Ok (iB', eB') ->
  recreate powf pf sc e_new iA = Ok (i2', e2') ->
  dok iA' = true -> dok iB' = true -> dok i2' = true ->
  agree (emb scA eA) sc -> agree (emb scB eB) sc -> exact eA sc -> exact eB sc ->
  (forall n st, okr (E n st sc iA) -> okr (E n st sc iB) ->
     E n st sc iA' = E n st sc iA /\ E n st sc iB' = E n st sc iA /\ E n st sc iB = E n st sc iA) /\
  (forall n st st1 sc1 v, E n st sc iA = (st1, sc1, SVal v) -> agree (emb scA eA') sc1) /\
  (forall n st st1 sc1 v, E n st sc iB = (st1, sc1, SVal v) -> agree (emb scB eB') sc1) /\
  eA' <> [] /\ eB' <> [].
Proof. exact (two_routes_step powf pre red). Qed.

Theorem repl_chunks_equal_batch : forall sc0 pf n st0 inputs,
  sess_ok2 powf pre red sc0 pf n e_new st0 sc0 inputs ->
  repl_run powf pre red pf n (mkI st0 sc0) inputs = batch_prefixes powf pre red pf n (mkI st0 sc0) inputs.
Proof. exact (repl_chunks_eq_batch_prefixes powf pre red). Qed.

End C17b.

(* ---- non-vacuity: ReplExamples.sess_lines ----
   c := mut 0;  k := 2 + 3;  f := (x: int) -> int { c += x; return x * k + *c; };
   y := f(3);  k := k * 10;  y := f(k);  (y, k, *c)                                   *)
Example session_ok : sess_ok pw0 pre0 red0 [[]] 100 100 e_new st0 [[]] sess_lines.
Proof. exact ReplExamples.session_ok. Qed.

Example session_repl_eq_batch :
  repl_run pw0 pre0 red0 100 100 it0 sess_inputs = batch_prefixes pw0 pre0 red0 100 100 it0 sess_inputs.
Proof. exact ReplExamples.session_repl_eq_batch. Qed.

Example session_results :
  map fst (repl_run pw0 pre0 red0 100 100 it0 sess_inputs) =
    [ InRan (SVal (VMut 0 TInt)); InRan (SVal (VInt 5)); InRan (SVal (VFun 0 [TInt] TInt));
      InRan (SVal (VInt 18)); InRan (SVal (VInt 50)); InRan (SVal (VInt 303));
      InRan (SVal (VTup [VInt 303; VInt 50; VInt 53])) ].
Proof. exact (proj1 ReplExamples.session_results). Qed.

(* ---- the finding: both routes complete, r differs ---- *)
Example repl_batch_differ :
  map fst repl_r = [InRan (SVal (VMut 0 TInt)); InRan (SVal (VInt 1)); InRan (SVal (VMut 1 TInt)); InRan (SVal (VInt 1))] /\
  map fst batch_r = [InRan (SVal (VMut 0 TInt)); InRan (SVal (VInt 1)); InRan (SVal (VMut 1 T_IS)); InRan (SVal (VInt 2))].
Proof. exact ReplFinding.both_complete. Qed.

(* ReplExamples2.chunked: the same session fed as
   "c := mut 0; k := 2 + 3;"  "f := ..;"  "y := f(3); k := k * 10;"  "y := f(k); (y, k, *c)" *)
Example chunked_ok : sess_ok2 pw0 pre0 red0 [[]] 100 100 e_new st0 [[]] chunked.
Proof. exact ReplExamples2.chunked_ok. Qed.

Example chunked_repl_eq_batch :
  repl_run pw0 pre0 red0 100 100 it0 chunked = batch_prefixes pw0 pre0 red0 100 100 it0 chunked.
Proof. exact ReplExamples2.chunked_repl_eq_batch. Qed.

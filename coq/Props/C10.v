(* C10 — the subtype relation obeys its laws and is sound for values.
   Statements only; every proof is `exact <lemma>` into Lemmas/. *)
From SSL.Model Require Import Base Ty.
From SSL.Lemmas Require Import TyLemmas.

Theorem never_least : forall b, matches TNever b = true.
Proof. exact matches_never_l. Qed.

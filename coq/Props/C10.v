(* C10 — the subtype relation obeys its laws.
   Statements only; every proof is `exact <lemma>` into Lemmas/.

   On hypotheses: a statement carries no hypothesis when none is needed.  Where
   one is needed it is only ever "struct keys are distinct, hereditarily"
   ([keys_ok], Lemmas/TyEq.v), which [wf_ty] implies ([wf_keys_ok]); such
   statements are given with [wf_ty] under the planned name and with [keys_ok]
   under the name suffixed [_keys].  The [Example]s at the end show that each
   remaining hypothesis is necessary and that the relation is not trivial. *)
From SSL.Model Require Import Base Ty.
From SSL.Lemmas Require Import TyLemmas.

(* ---------- unfolding equations (arm order of the implementation) ---------- *)
Theorem ty_eqb_unfold : forall a b,
  ty_eqb a b =
  match a, b with
  | TBool, TBool | TInt, TInt | TFloat, TFloat | TString, TString
  | TVoid, TVoid | TAny, TAny | TNever, TNever => true
  | TFun p1 r1, TFun p2 r2 => all2 ty_eqb p1 p2 && ty_eqb r1 r2
  | TArr e1, TArr e2 | TMut e1, TMut e2 => ty_eqb e1 e2
  | TTup t1, TTup t2 => all2 ty_eqb t1 t2
  | TMulti m1, TMulti m2 =>
      Nat.eqb (length m1) (length m2)
      && forallb (fun x => existsb (fun y => ty_eqb x y) m2) m1
      && forallb (fun x => existsb (fun y => ty_eqb x y) m1) m2
  | TStruct f1, TStruct f2 =>
      Nat.eqb (length f1) (length f2)
      && forallb (fun x => match assoc (fst x) f2 with
                           | Some t => ty_eqb (snd x) t | None => false end) f1
      && forallb (fun x => match assoc (fst x) f1 with
                           | Some t => ty_eqb (snd x) t | None => false end) f2
  | _, _ => false
  end.
Proof. exact TyFuel.ty_eqb_unfold. Qed.

Theorem matches_unfold : forall a b,
  matches a b =
  match a, b with
  | TNever, _ => true
  | TFun p1 r1, TFun p2 r2 =>
      all2 (fun x y => matches y x) p1 p2 && matches r1 r2
  | TArr e1, TArr e2 => matches e1 e2
  | TStruct f1, TStruct f2 =>
      forallb (fun kv2 => match assoc (fst kv2) f1 with
                          | Some t1 => matches t1 (snd kv2) | None => false end) f2
  | TMulti ms, _ => forallb (fun m => matches m b) ms
  | _, TMulti ms => existsb (fun m => matches a m) ms
  | _, TAny => true
  | TTup t1, TTup t2 => all2 matches t1 t2
  | _, _ => ty_eqb a b
  end.
Proof. exact TyFuel.matches_unfold. Qed.

Theorem conjoin_unfold : forall a b,
  conjoin a b =
  if ty_eqb a b then a else
  match a, b with
  | o, TAny => o
  | TAny, o => o
  | TArr e1, TArr e2 => TArr (conjoin e1 e2)
  | TTup t1, TTup t2 =>
      if Nat.eqb (length t1) (length t2) then TTup (zip_with conjoin t1 t2) else TNever
  | TMulti ms, o =>
      match concat_all (map (fun m => conjoin m o) ms) with Some t => t | None => TNever end
  | o, TMulti ms =>
      match concat_all (map (fun m => conjoin m o) ms) with Some t => t | None => TNever end
  | TFun p1 r1, TFun p2 r2 =>
      if Nat.eqb (length p1) (length p2) then
        let r := conjoin r1 r2 in
        if ty_eqb r TNever then TNever else TFun (zip_with concat p1 p2) r
      else TNever
  | _, _ => TNever
  end.
Proof. exact TyFuel.conjoin_unfold. Qed.

(* fuel never matters once it covers the two sizes *)
Theorem eqb_f_fuel : forall n m a b,
  size a + size b <= n -> size a + size b <= m -> eqb_f n a b = eqb_f m a b.
Proof. exact TyFuel.eqb_f_fuel. Qed.
Theorem matches_f_fuel : forall n m a b,
  size a + size b <= n -> size a + size b <= m -> matches_f n a b = matches_f m a b.
Proof. exact TyFuel.matches_f_fuel. Qed.
Theorem conjoin_f_fuel : forall n m a b,
  size a + size b <= n -> size a + size b <= m -> conjoin_f n a b = conjoin_f m a b.
Proof. exact TyFuel.conjoin_f_fuel. Qed.

(* ---------- `==` is an equivalence ---------- *)
Theorem wf_keys_ok : forall a, wf_ty a = true -> keys_ok a = true.
Proof. exact TyEq.wf_keys_ok. Qed.

Theorem ty_eqb_refl : forall a, wf_ty a = true -> ty_eqb a a = true.
Proof. exact TyEq.ty_eqb_refl. Qed.
Theorem ty_eqb_refl_keys : forall a, keys_ok a = true -> ty_eqb a a = true.
Proof. exact TyEq.ty_eqb_refl_keys. Qed.
Theorem ty_eqb_sym : forall a b, ty_eqb a b = ty_eqb b a.
Proof. exact TyEq.ty_eqb_sym. Qed.
Theorem ty_eqb_trans : forall a b c,
  ty_eqb a b = true -> ty_eqb b c = true -> ty_eqb a c = true.
Proof. exact TyEq.ty_eqb_trans. Qed.
Theorem ty_eqb_mut : forall a b, ty_eqb (TMut a) (TMut b) = ty_eqb a b.
Proof. exact TyEq.ty_eqb_mut. Qed.

(* ---------- preorder, bottom, top ---------- *)
Theorem matches_refl : forall a, wf_ty a = true -> matches a a = true.
Proof. exact TyMatches.matches_refl. Qed.
Theorem matches_refl_keys : forall a, keys_ok a = true -> matches a a = true.
Proof. exact TyMatches.matches_refl_keys. Qed.

Theorem matches_trans : forall a b c,
  matches a b = true -> matches b c = true -> matches a c = true.
Proof. exact TyMatches.matches_trans. Qed.
Theorem matches_trans_wf : forall a b c,
  wf_ty a = true -> wf_ty b = true -> wf_ty c = true ->
  matches a b = true -> matches b c = true -> matches a c = true.
Proof. exact TyMatches.matches_trans_wf. Qed.

Theorem never_least : forall b, matches TNever b = true.
Proof. exact matches_never_l. Qed.
Theorem any_greatest : forall a, matches a TAny = true.
Proof. exact matches_any_r. Qed.
(* on well-formed types nothing but `any` is above `any` ... *)
Theorem any_only_below_any : forall c, wf_ty c = true -> matches TAny c = true -> c = TAny.
Proof. exact matches_any_l_wf. Qed.
(* ... and in general whatever is above `any` is above everything *)
Theorem above_any_is_top : forall c, matches TAny c = true -> forall a, matches a c = true.
Proof. exact matches_any_l_all. Qed.

(* `==` is finer than, and compatible with, the subtype relation *)
Theorem ty_eqb_matches : forall a b, ty_eqb a b = true -> matches a b = true.
Proof. exact TyMatches.ty_eqb_matches. Qed.
Theorem matches_eqb_l : forall a a' b, ty_eqb a a' = true -> matches a b = matches a' b.
Proof. exact TyMatches.matches_eqb_l. Qed.
Theorem matches_eqb_r : forall a b b', ty_eqb b b' = true -> matches a b = matches a b'.
Proof. exact TyMatches.matches_eqb_r. Qed.

(* ---------- variance ---------- *)
Theorem arr_covariant : forall a b, matches (TArr a) (TArr b) = matches a b.
Proof. exact matches_arr. Qed.
Theorem tup_covariant : forall l1 l2, matches (TTup l1) (TTup l2) = all2 matches l1 l2.
Proof. exact matches_tup. Qed.
Theorem fun_variance : forall p1 r1 p2 r2,
  matches (TFun p1 r1) (TFun p2 r2) = all2 (fun x y => matches y x) p1 p2 && matches r1 r2.
Proof. exact matches_fun. Qed.
Theorem struct_width_depth : forall f1 f2,
  matches (TStruct f1) (TStruct f2) =
  forallb (fun kv2 => match assoc (fst kv2) f1 with
                      | Some t1 => matches t1 (snd kv2) | None => false end) f2.
Proof. exact matches_struct. Qed.
Theorem mut_invariant : forall a b, matches (TMut a) (TMut b) = ty_eqb a b.
Proof. exact matches_mut. Qed.

(* ---------- unions ---------- *)
Theorem matches_multi_l : forall ms b,
  matches (TMulti ms) b = forallb (fun m => matches m b) ms.
Proof. exact TyMatches.matches_multi_l. Qed.
Theorem matches_multi_r : forall a ms,
  simple a = true -> matches a (TMulti ms) = existsb (matches a) ms.
Proof. exact TyMatches.matches_multi_r. Qed.
(* exactly: the left side is neither a union nor `!` (so `any` is included) *)
Theorem matches_multi_r_nm : forall a ms,
  nm a = true -> matches a (TMulti ms) = existsb (matches a) ms.
Proof. exact TyMatches.matches_multi_r_nm. Qed.
Theorem matches_in_multi : forall x m ms,
  In m ms -> matches x m = true -> matches x (TMulti ms) = true.
Proof. exact TyMatches.matches_in_multi. Qed.

(* ---------- join ---------- *)
Theorem concat_upper_l : forall a b, wf_ty a = true -> matches a (concat a b) = true.
Proof. exact TyJoin.concat_upper_l. Qed.
Theorem concat_upper_r : forall a b, wf_ty b = true -> matches b (concat a b) = true.
Proof. exact TyJoin.concat_upper_r. Qed.
Theorem concat_upper_l_keys : forall a b, keys_ok a = true -> matches a (concat a b) = true.
Proof. exact TyJoin.concat_upper_l_keys. Qed.
Theorem concat_upper_r_keys : forall a b, keys_ok b = true -> matches b (concat a b) = true.
Proof. exact TyJoin.concat_upper_r_keys. Qed.
Theorem concat_least : forall a b c, matches (concat a b) c = matches a c && matches b c.
Proof. exact TyJoin.concat_least. Qed.
Theorem concat_least_wf : forall a b c,
  wf_ty a = true -> wf_ty b = true -> wf_ty c = true ->
  matches (concat a b) c = matches a c && matches b c.
Proof. exact TyJoin.concat_least_wf. Qed.
Theorem concat_wf : forall a b, wf_ty a = true -> wf_ty b = true -> wf_ty (concat a b) = true.
Proof. exact TyJoin.concat_wf. Qed.

(* semilattice laws, up to mutual matching (concat is order dependent as a list) *)
Theorem concat_idem : forall a, keys_ok a = true -> concat a a = a.
Proof. exact TyJoin.concat_idem. Qed.
Theorem concat_mono : forall a a' b b',
  keys_ok a' = true -> keys_ok b' = true ->
  matches a a' = true -> matches b b' = true ->
  matches (concat a b) (concat a' b') = true.
Proof. exact TyJoin.concat_mono. Qed.
Theorem concat_comm_matches : forall a b,
  keys_ok a = true -> keys_ok b = true -> matches (concat a b) (concat b a) = true.
Proof. exact TyJoin.concat_comm_matches. Qed.
Theorem concat_assoc_matches_l : forall a b c,
  keys_ok a = true -> keys_ok b = true -> keys_ok c = true ->
  matches (concat (concat a b) c) (concat a (concat b c)) = true.
Proof. exact TyJoin.concat_assoc_matches_l. Qed.
Theorem concat_assoc_matches_r : forall a b c,
  keys_ok a = true -> keys_ok b = true -> keys_ok c = true ->
  matches (concat a (concat b c)) (concat (concat a b) c) = true.
Proof. exact TyJoin.concat_assoc_matches_r. Qed.
Theorem fold_concat_least : forall xs acc c,
  matches (fold_left concat xs acc) c = matches acc c && forallb (fun x => matches x c) xs.
Proof. exact TyJoin.fold_concat_least. Qed.
Theorem fold_concat_wf : forall xs acc,
  wf_ty acc = true -> (forall x, In x xs -> wf_ty x = true) ->
  wf_ty (fold_left concat xs acc) = true.
Proof. exact TyJoin.fold_concat_wf. Qed.

(* concat respects `==`, and is commutative and associative up to `==` *)
Theorem concat_eqb_compat : forall a a' b b',
  wf_ty a = true -> wf_ty a' = true -> wf_ty b = true -> wf_ty b' = true ->
  ty_eqb a a' = true -> ty_eqb b b' = true ->
  ty_eqb (concat a b) (concat a' b') = true.
Proof. exact TyCompat.concat_eqb_compat. Qed.
Theorem concat_comm_eqb : forall a b,
  wf_ty a = true -> wf_ty b = true -> ty_eqb (concat a b) (concat b a) = true.
Proof. exact TyCompat.concat_comm_eqb. Qed.
Theorem concat_assoc_eqb : forall a b c,
  wf_ty a = true -> wf_ty b = true -> wf_ty c = true ->
  ty_eqb (concat (concat a b) c) (concat a (concat b c)) = true.
Proof. exact TyCompat.concat_assoc_eqb. Qed.

(* ---------- meet ---------- *)
Theorem conjoin_lower_l : forall a b, wf_ty a = true -> matches (conjoin a b) a = true.
Proof. exact TyJoin.conjoin_lower_l. Qed.
Theorem conjoin_lower_r : forall a b, wf_ty b = true -> matches (conjoin a b) b = true.
Proof. exact TyJoin.conjoin_lower_r. Qed.
Theorem conjoin_lower_l_keys : forall a b, keys_ok a = true -> matches (conjoin a b) a = true.
Proof. exact TyJoin.conjoin_lower_l_keys. Qed.
Theorem conjoin_lower_r_keys : forall a b, keys_ok b = true -> matches (conjoin a b) b = true.
Proof. exact TyJoin.conjoin_lower_r_keys. Qed.
Theorem conjoin_wf : forall a b, wf_ty a = true -> wf_ty b = true -> wf_ty (conjoin a b) = true.
Proof. exact TyJoin.conjoin_wf. Qed.

(* ---------- the Option-returning queries preserve well-formedness ---------- *)
Theorem index_result_wf : forall t r,
  wf_ty t = true -> index_result t = Some r -> wf_ty r = true.
Proof. exact TyQuery.index_result_wf. Qed.
Theorem element_type_wf : forall t r,
  wf_ty t = true -> element_type t = Some r -> wf_ty r = true.
Proof. exact TyQuery.element_type_wf. Qed.
Theorem fn_return_type_wf : forall t r,
  wf_ty t = true -> fn_return_type t = Some r -> wf_ty r = true.
Proof. exact TyQuery.fn_return_type_wf. Qed.
Theorem mut_element_type_wf : forall t r,
  wf_ty t = true -> mut_element_type t = Some r -> wf_ty r = true.
Proof. exact TyQuery.mut_element_type_wf. Qed.
Theorem mut_element_type_spec_wf : forall t r,
  wf_ty t = true -> mut_element_type_spec t = Some r -> wf_ty r = true.
Proof. exact TyQuery.mut_element_type_spec_wf. Qed.
Theorem tuple_element_at_wf : forall i t r,
  wf_ty t = true -> tuple_element_at i t = Some r -> wf_ty r = true.
Proof. exact TyQuery.tuple_element_at_wf. Qed.
Theorem field_type_wf : forall k t r,
  wf_ty t = true -> field_type k t = Some r -> wf_ty r = true.
Proof. exact TyQuery.field_type_wf. Qed.
Theorem iter_element_wf : forall t r,
  wf_ty t = true -> iter_element t = Some r -> wf_ty r = true.
Proof. exact TyQuery.iter_element_wf. Qed.
Theorem params_wf : forall t l,
  wf_ty t = true -> params t = Some l -> forallb wf_ty l = true.
Proof. exact TyQuery.params_wf. Qed.
Theorem flatten_tuple_wf : forall t l,
  wf_ty t = true -> flatten_tuple t = Some l -> forallb wf_ty l = true.
Proof. exact TyQuery.flatten_tuple_wf. Qed.

(* ---------- non-vacuity ---------- *)
Definition ka : ident := [97%Z].
Definition kb : ident := [98%Z].

Definition ex_nested : ty :=
  TFun [TMulti [TInt; TArr (TStruct [(ka, TInt); (kb, TMulti [TFloat; TString])])]]
       (TMut (TMulti [TInt; TVoid])).
Example ex_nested_wf : wf_ty ex_nested = true.
Proof. vm_compute; reflexivity. Qed.
Example ex_nested_refl : matches ex_nested ex_nested = true.
Proof. vm_compute; reflexivity. Qed.

(* a strict chain t1 < t2 < t3 through function / union / struct types *)
Definition ex_t1 : ty :=
  TFun [TMulti [TInt; TFloat; TString]] (TArr (TStruct [(ka, TInt); (kb, TFloat)])).
Definition ex_t2 : ty :=
  TFun [TMulti [TInt; TFloat]] (TArr (TStruct [(ka, TMulti [TInt; TFloat])])).
Definition ex_t3 : ty :=
  TMulti [TFun [TInt] (TArr (TStruct [])); TVoid].
Example ex_chain_wf : wf_ty ex_t1 && wf_ty ex_t2 && wf_ty ex_t3 = true.
Proof. vm_compute; reflexivity. Qed.
Example ex_chain_up :
  matches ex_t1 ex_t2 && matches ex_t2 ex_t3 && matches ex_t1 ex_t3 = true.
Proof. vm_compute; reflexivity. Qed.
Example ex_chain_strict :
  matches ex_t2 ex_t1 || matches ex_t3 ex_t2 || matches ex_t3 ex_t1 = false.
Proof. vm_compute; reflexivity. Qed.

(* contravariance is real: widening a parameter goes down, not up *)
Example ex_contra :
  matches (TFun [TMulti [TInt; TFloat]] TInt) (TFun [TInt] TInt) = true /\
  matches (TFun [TInt] TInt) (TFun [TMulti [TInt; TFloat]] TInt) = false.
Proof. split; vm_compute; reflexivity. Qed.

(* mut is invariant, and compares its content as a set *)
Example ex_mut :
  matches (TMut TInt) (TMut (TMulti [TInt; TFloat])) = false /\
  matches (TMut (TMulti [TFloat; TInt])) (TMut (TMulti [TInt; TFloat])) = true.
Proof. split; vm_compute; reflexivity. Qed.

(* join and meet on concrete types *)
Example ex_concat :
  concat (TMulti [TInt; TFloat]) (TMulti [TFloat; TString]) = TMulti [TInt; TFloat; TString].
Proof. vm_compute; reflexivity. Qed.
Example ex_conjoin :
  conjoin (TMulti [TInt; TFloat]) (TMulti [TFloat; TString]) = TFloat.
Proof. vm_compute; reflexivity. Qed.
Example ex_conjoin_fun :
  conjoin (TFun [TInt] (TMulti [TInt; TFloat])) (TFun [TString] (TMulti [TFloat; TVoid]))
  = TFun [TMulti [TInt; TString]] TFloat.
Proof. vm_compute; reflexivity. Qed.

(* the remaining hypothesis is necessary: with a repeated struct key neither
   `==` nor matches is reflexive, and the bounds of concat / conjoin fail *)
Definition ex_dup : ty := TStruct [(ka, TInt); (ka, TFloat)].
Example ex_dup_not_keys_ok : keys_ok ex_dup = false.
Proof. vm_compute; reflexivity. Qed.
Example ex_dup_eqb_irrefl : ty_eqb ex_dup ex_dup = false.
Proof. vm_compute; reflexivity. Qed.
Example ex_dup_matches_irrefl : matches ex_dup ex_dup = false.
Proof. vm_compute; reflexivity. Qed.
Example ex_dup_concat : matches ex_dup (concat ex_dup TInt) = false.
Proof. vm_compute; reflexivity. Qed.
Example ex_dup_conjoin : matches (conjoin ex_dup TAny) ex_dup = false.
Proof. vm_compute; reflexivity. Qed.
(* ... and wf_ty is not preserved from ill-formed inputs *)
Example ex_concat_wf_needs_wf : wf_ty (concat (TMulti [TInt; TInt]) TFloat) = false.
Proof. vm_compute; reflexivity. Qed.

(* matches_multi_r is exact: for `!` on the left the union arm is not reached *)
Example ex_multi_r_never :
  matches TNever (TMulti []) = true /\ existsb (matches TNever) [] = false.
Proof. split; vm_compute; reflexivity. Qed.

(* the preorder is not antisymmetric up to `==`, even on well-formed types:
   a union may contain a member that another member already covers *)
Definition ex_redundant : ty := TMulti [TArr TInt; TArr (TMulti [TInt; TFloat])].
Example ex_not_antisym :
  wf_ty ex_redundant = true /\
  matches ex_redundant (TArr (TMulti [TInt; TFloat])) = true /\
  matches (TArr (TMulti [TInt; TFloat])) ex_redundant = true /\
  ty_eqb ex_redundant (TArr (TMulti [TInt; TFloat])) = false.
Proof. repeat split; vm_compute; reflexivity. Qed.

(* the meet is a lower bound but not the greatest one: two struct types with a
   common lower bound meet at `!` *)
Example ex_conjoin_not_glb :
  conjoin (TStruct [(ka, TInt)]) (TStruct [(kb, TInt)]) = TNever /\
  matches (TStruct [(ka, TInt); (kb, TInt)]) (TStruct [(ka, TInt)]) = true /\
  matches (TStruct [(ka, TInt); (kb, TInt)]) (TStruct [(kb, TInt)]) = true /\
  matches (TStruct [(ka, TInt); (kb, TInt)]) TNever = false.
Proof. repeat split; vm_compute; reflexivity. Qed.

(* C09c — indexing, slicing, len, third part: the description of stdlib::len, at::exec,
   at::create_from_instructions (with at::range) and Slicing::exec / exec_index that
   translators/valuefns2coq.py REGENERATES from src/stdlib.rs, src/instruction/at.rs and
   src/instruction/slicing.rs on every run (Gen/GenValueFns.v) coincides with the hand-written
   model C09 talks about (Model/Seq.v: len_exec, at_exec, slice_exec; Model/Recreate.v: fold_bin At).
   `&mut Interpreter` is read as the evaluation function ev : instr -> outcome value; the order of
   the binds is the order of evaluation.  The `slyce` crate is not translated: its version and
   checksum are pinned and Model/Seq.v's slyce_indices transcribes it (C09: slyce_eq_python).
   Slicing::create / recreate are pinned token by token.
   Statements only; every proof is `exact <lemma>` (Lemmas/ValueTie.v). *)
From SSL.Model Require Import Base Ty Float Value Ops Seq Syntax Rt Recreate.
From SSL.Lemmas Require Import ValueTie.
From SSL.Gen Require Import GenValueFns.
From Coq Require Import ZArith.
Local Open Scope Z_scope.

(* ---- len: arrays by elements, strings by chars; anything else is a panic on both sides ---- *)
Theorem generated_len_is_model : forall v,
  obind (gen_stdlib_len v) (fun n => Ok (Z.of_nat n)) = len_exec v.
Proof. exact gen_stdlib_len_eq. Qed.

(* ---- at::exec: for ALL operands (errors and panics included) ---- *)
Theorem generated_at_is_model : forall v index, gen_at_exec v index = at_exec v index.
Proof. exact gen_at_exec_eq. Qed.

(* ---- the folding helper with its parse-time bounds check -len <= i < len ---- *)
Theorem generated_at_range : forall n, gen_at_range n = (- Z.of_nat n, Z.of_nat n).
Proof. exact gen_at_range_eq. Qed.
Theorem generated_at_fold_is_model : forall powf l r,
  gen_at_create_from_instructions l r = fold_bin powf At l r.
Proof. exact gen_at_create_from_instructions_eq. Qed.

(* ---- Slicing::exec_index: evaluate when present, demand an integer (panic otherwise), clamp ---- *)
Theorem generated_slice_index : forall ev o,
  gen_Slicing_exec_index o ev =
  obind (eval_opt ev o) (fun v => obind (opt_int v) (fun i => Ok (clamp_index i))).
Proof. exact gen_Slicing_exec_index_eq. Qed.

(* ---- Slicing::exec, exactly: lhs, start, stop, step in this order ---- *)
Theorem generated_slice_exactly : forall ev l a b c,
  gen_Slicing_exec l a b c ev =
  obind (ev l) (fun lv =>
  obind (eval_opt ev a) (fun av => obind (opt_int av) (fun ai =>
  obind (eval_opt ev b) (fun bv => obind (opt_int bv) (fun bi =>
  obind (eval_opt ev c) (fun cv => obind (opt_int cv) (fun ci =>
  slice_ints lv (clamp_index ai) (clamp_index bi) (clamp_index ci)))))))).
Proof. exact gen_Slicing_exec_eq. Qed.

(* the clamp at -i64::MAX (slyce negates negative indices) selects the same elements *)
Theorem clamp_does_not_change_the_slice : forall len a b c,
  0 <= len < MAX_INT ->
  slyce_indices len (clamp_index a) (clamp_index b) (clamp_index c) = slyce_indices len a b c.
Proof. exact slyce_indices_clamp. Qed.

Theorem slice_of_integers_is_model : forall v a b c,
  slice_exec v (option_map VInt a) (option_map VInt b) (option_map VInt c) = slice_ints v a b c.
Proof. exact slice_exec_ints. Qed.

(* when the bounds evaluate to integers (every checked program) and the sequence is shorter than
   i64::MAX (every sequence in memory): the model's slice_exec on the operands evaluated left to right *)
Theorem generated_slice_is_model : forall ev l a b c,
  (forall lv, ev l = Ok lv -> short_seq lv) ->
  (forall v, eval_opt ev a = Ok v -> is_int_opt v) ->
  (forall v, eval_opt ev b = Ok v -> is_int_opt v) ->
  (forall v, eval_opt ev c = Ok v -> is_int_opt v) ->
  gen_Slicing_exec l a b c ev =
  obind (ev l) (fun lv => obind (eval_opt ev a) (fun av => obind (eval_opt ev b) (fun bv =>
  obind (eval_opt ev c) (fun cv => slice_exec lv av bv cv)))).
Proof. exact gen_Slicing_exec_model. Qed.

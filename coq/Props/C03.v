(* C03 — parsing and checking is total.  Statements about the checker's guards: each guard the
   checker tests implies that the type query asked afterwards is defined.  The refuted forms are
   the guards as they were before the repairs (a `!`-typed or `() -> !`-typed operand passed them
   and the following `.unwrap()` panicked).  Checker-wide totality (check_x_never_panics, rt_total)
   is added by Lemmas/CheckTotal.v when delivered. *)
From SSL.Model Require Import Base Ty Float Value Ops Seq Syntax Rt.
From SSL.Lemmas Require Import SoundLemmas.

Theorem indexing_guard_implies_result_type : forall T,
  wf_ty T = true -> ty_eqb T TNever || negb (can_be_indexed T) = false -> index_result T <> None.
Proof. exact index_guard_repaired. Qed.

Theorem old_indexing_guard_refuted : can_be_indexed TNever = true /\ index_result TNever = None.
Proof. exact index_guard_never_refuted. Qed.

Theorem old_iterator_guard_refuted_for_function_returning_never :
  wf_ty (TFun [] TNever) = true /\ ty_eqb (TFun [] TNever) TNever = false /\
  matches (TFun [] TNever) ITERATOR_TYPE = true /\ iter_element (TFun [] TNever) = None.
Proof.
  repeat split; vm_compute; reflexivity.
Qed.

Theorem array_plus_result_type_total : forall l r, exists R, add_return_type l r = Ok R.
Proof. exact add_rt_total. Qed.

(* after the repair of return_type(): an operation on an operand without the queried component has type `!` *)
Theorem static_type_of_indexing_never_is_never : bin_rt At TNever TInt = Ok TNever.
Proof. reflexivity. Qed.

(* C03 — the checker is total, never panics, and everything it accepts has a computable,
   well-formed static type; the folding pass after it never panics on what the checker
   built (all forms but `for`, destructuring, modules).
   Statements only; proofs are in Lemmas/CheckTotal.v, Lemmas/RecreateTotal.v
   (Lemmas/CheckUnfold.v: definitions, Lemmas/CheckBase.v: vocabulary).

   [check_x]/[check_s]/[check_lines] (Model/Check.v): surface AST -> instruction tree;
       Err = rejected, Panic = the implementation would panic, OutOfFuel = model fuel.
   [rt] (Model/Rt.v): the static type recomputed from the tree.
   [wf_sx]/[wf_sstm]/[wf_sline] : every type annotation in the AST is [wf_ty], every
       constant has a [wf_ty] type, postfix operators are those of the grammar.
   [wf_lenv e]   : every local variable of every layer has a [wf_ty] type, function
                   layers carry a [wf_ty] result type.
   [wf_scopes sc]: every variable of the parse-time interpreter has a [wf_ty] type.
   [wf_red red]  : the four functions planted for `$&& $|| $& $|` are function values
                   with [wf_ty] types.
   [sx_size] ..  : the size of the AST; any fuel above it suffices.

   History.  As first stated the property was FALSE of the implementation:
   `x := [1]~ @ [][0];` passed `@`'s guard (the mapper's type `!` matches `(int) -> any`)
   and Set then unwrapped `!.return_type()` ([map_guard_never_refuted] keeps the type-level
   fact); and the folding pass narrowed static types under guards tested on wider ones
   (`g := (k: int) -> int { y := [[], [[1]]][0][k][0]; return y; };` panicked in
   Code::parse, see [recreate_narrows]).  Since repair 15efcc4 every unwrap() of the
   ReturnType impls is an unwrap_or(!), [rt] is total ([rt_total]) and the theorems below
   hold with no exception. *)
From SSL.Model Require Import Base Ty Float Value Ops Seq Syntax Rt Recreate Exec Check Top.
From SSL.Lemmas Require Import SoundLemmas CheckUnfold CheckBase CheckTotal CheckExamples
  RecreateTotal.

(* ---------- the guards of the checker, one by one (see also Props/C01.v) ---------- *)
Theorem indexing_guard_implies_result_type : forall T,
  wf_ty T = true -> ty_eqb T TNever || negb (can_be_indexed T) = false -> index_result T <> None.
Proof. exact index_guard_repaired. Qed.

Theorem old_indexing_guard_refuted : can_be_indexed TNever = true /\ index_result TNever = None.
Proof. exact index_guard_never_refuted. Qed.

Theorem old_iterator_guard_refuted_for_function_returning_never :
  wf_ty (TFun [] TNever) = true /\ ty_eqb (TFun [] TNever) TNever = false /\
  matches (TFun [] TNever) ITERATOR_TYPE = true /\ iter_element (TFun [] TNever) = None.
Proof.
  repeat split; vm_compute; reflexivity.
Qed.

Theorem array_plus_result_type_total : forall l r, exists R, add_return_type l r = Ok R.
Proof. exact add_rt_total. Qed.

(* after the repair of return_type(): an operation on an operand without the queried component has type `!` *)
Theorem static_type_of_indexing_never_is_never : bin_rt At TNever TInt = Ok TNever.
Proof. reflexivity. Qed.

(* the two unwraps of the checker that had no guard lemma yet *)
Theorem map_guard : forall e T,
  wf_ty T = true -> matches T (TFun [e] TAny) = true -> T <> TNever -> fn_return_type T <> None.
Proof. exact CheckBase.map_guard. Qed.
Theorem map_guard_never_refuted :
  can_be_used Map (TFun [] (TTup [TBool; TInt])) TNever = Ok true /\
  (forall e, matches TNever (TFun [e] TAny) = true) /\ fn_return_type TNever = None /\
  bin_rt Map (TFun [] (TTup [TBool; TInt])) TNever = Ok (TFun [] (TTup [TBool; TNever])).
Proof. exact CheckTotal.map_guard_never_refuted. Qed.
Theorem flatten_guard : forall T n,
  wf_ty T = true -> is_tuple T = true -> tuple_len T = Some n -> flatten_tuple T <> None.
Proof. exact CheckBase.flatten_guard. Qed.

(* the model's checker, one fuel step at a time (the bodies are the text of Check.v) *)
Theorem check_x_S : forall red n sc e x,
  check_x red (S n) sc e x = x_body red (check_x red n) (check_lines red n) sc e x.
Proof. exact CheckUnfold.check_x_S. Qed.
Theorem check_s_S : forall red n sc e s,
  check_s red (S n) sc e s = s_body (check_x red n) (check_s red n) (check_lines red n) sc e s.
Proof. exact CheckUnfold.check_s_S. Qed.
Theorem check_lines_S : forall red n sc e l,
  check_lines red (S n) sc e l = l_body (check_s red n) (check_lines red n) sc e l.
Proof. exact CheckUnfold.check_lines_S. Qed.

(* ---------- rt is total ---------- *)
Theorem rt_total : forall i, exists T, rt i = Ok T.
Proof. exact CheckTotal.rt_total. Qed.
Theorem bin_rt_wf : forall op l r, wf_ty l = true -> wf_ty r = true ->
  exists T, bin_rt op l r = Ok T /\ wf_ty T = true.
Proof. exact CheckTotal.bin_rt_wf. Qed.
Theorem un_rt_wf : forall op t, wf_ty t = true -> exists T, un_rt op t = Ok T /\ wf_ty T = true.
Proof. exact CheckTotal.un_rt_wf. Qed.
(* the admissibility test of binary operators never panics *)
Theorem can_be_used_never_panics : forall op l r,
  can_be_used op l r <> Panic /\ can_be_used op l r <> OutOfFuel.
Proof. exact CheckTotal.can_be_used_never_panics. Qed.

Section C03.
Variable red : reducers.
Hypothesis Wred : wf_red red.

(* ---------- 1. the static type of whatever is accepted is well-formed ---------- *)
Theorem check_x_rt_wf : forall fuel sc e x i,
  wf_lenv e -> wf_scopes sc -> wf_sx x = true ->
  check_x red fuel sc e x = Ok i -> exists T, rt i = Ok T /\ wf_ty T = true.
Proof. exact (CheckTotal.check_x_rt_wf red Wred). Qed.

Theorem check_s_rt_wf : forall fuel sc e s i e',
  wf_lenv e -> wf_scopes sc -> wf_sstm s = true ->
  check_s red fuel sc e s = Ok (i, e') ->
  (exists T, rt i = Ok T /\ wf_ty T = true) /\ wf_lenv e'.
Proof. exact (CheckTotal.check_s_rt_wf red Wred). Qed.

Theorem check_lines_rt_wf : forall fuel sc e l is e',
  wf_lenv e -> wf_scopes sc -> forallb wf_sline l = true ->
  check_lines red fuel sc e l = Ok (is, e') ->
  Forall (fun i => exists T, rt i = Ok T /\ wf_ty T = true) is /\ wf_lenv e'.
Proof. exact (CheckTotal.check_lines_rt_wf red Wred). Qed.

(* ---------- 2. the checker never panics ---------- *)
(* the explicit Panic arms left in Check.v are unreachable: `min_tuple_len = None` behind
   is_tuple by [min_tuple_len_guard] (Props/C01.v), a postfix operator outside the
   grammar by [wf_sx] ([wf_sx_postfix_needed]) *)
Theorem check_x_never_panics : forall fuel sc e x,
  wf_lenv e -> wf_scopes sc -> wf_sx x = true -> check_x red fuel sc e x <> Panic.
Proof. exact (CheckTotal.check_x_never_panics red Wred). Qed.
Theorem check_s_never_panics : forall fuel sc e s,
  wf_lenv e -> wf_scopes sc -> wf_sstm s = true -> check_s red fuel sc e s <> Panic.
Proof. exact (CheckTotal.check_s_never_panics red Wred). Qed.
Theorem check_lines_never_panics : forall fuel sc e l,
  wf_lenv e -> wf_scopes sc -> forallb wf_sline l = true -> check_lines red fuel sc e l <> Panic.
Proof. exact (CheckTotal.check_lines_never_panics red Wred). Qed.

(* ---------- 3. with fuel above the size of the AST the checker answers ---------- *)
Theorem check_total : forall fuel sc e x,
  wf_lenv e -> wf_scopes sc -> wf_sx x = true -> sx_size x < fuel ->
  (exists i, check_x red fuel sc e x = Ok i) \/ (exists z, check_x red fuel sc e x = Err z).
Proof. exact (CheckTotal.check_total red Wred). Qed.
Theorem check_s_total : forall fuel sc e s,
  wf_lenv e -> wf_scopes sc -> wf_sstm s = true -> sstm_size s < fuel ->
  (exists r, check_s red fuel sc e s = Ok r) \/ (exists z, check_s red fuel sc e s = Err z).
Proof. exact (CheckTotal.check_s_total red Wred). Qed.
Theorem check_lines_total : forall fuel sc e l,
  wf_lenv e -> wf_scopes sc -> forallb wf_sline l = true -> lines_size l < fuel ->
  (exists r, check_lines red fuel sc e l = Ok r) \/ (exists z, check_lines red fuel sc e l = Err z).
Proof. exact (CheckTotal.check_lines_total red Wred). Qed.
End C03.

(* the clause of wf_sx about postfix operators is needed (model only) *)
Theorem wf_sx_postfix_needed :
  check_x red0 3 [] [] (XPostfix UNot (XConst (VInt 1))) = Panic.
Proof. exact CheckExamples.wf_sx_postfix_needed. Qed.

(* ---------- non-vacuity ---------- *)
Theorem ex_prog_hyps :
  forallb wf_sline ex_prog = true /\ wf_lenv [] /\ wf_scopes ex_sc /\ wf_red red0 /\
  lines_size ex_prog < 100.
Proof. exact CheckExamples.ex_prog_hyps. Qed.
Theorem ex_prog_accepted :
  obind (check_lines red0 100 ex_sc [] ex_prog) (fun p => rtl_def (fst p)) =
  Ok [TFun [TMulti [TInt; TString]] TInt;
      TStruct [(na, TInt); (nb, TArr TInt)];
      TArr TInt;
      TInt;
      TVoid].
Proof. exact CheckExamples.ex_prog_accepted. Qed.
Theorem ex_prog_rt_defined :
  exists is e', check_lines red0 100 ex_sc [] ex_prog = Ok (is, e') /\
    Forall (fun i => exists T, rt i = Ok T /\ wf_ty T = true) is /\ wf_lenv e'.
Proof. exact CheckExamples.ex_prog_rt_defined. Qed.
Theorem ex_rejected :
  check_lines red0 10 ex_sc [] [LStm (SExpr (XInfix Add (XConst (VInt 1)) (XConst (VString []))))]
  = Err E_Reject.
Proof. exact CheckExamples.ex_rejected. Qed.
(* the program that used to panic: accepted at type `() -> (bool, !)` *)
Theorem ex_map_never_set :
  obind (check_lines red0 8 [] [] [LSet [120%Z] (SExpr x_map_never)]) (fun p => rtl_def (fst p)) =
  Ok [TFun [] (TTup [TBool; TNever])].
Proof. exact CheckExamples.ex_map_never_set. Qed.

(* ================================================================= *)
(* (e) the folding pass after the checker (Lemmas/RecreateTotal.v)     *)
(* ================================================================= *)
(* [recreate] (Model/Recreate.v) folds constant sub-expressions; [parse_top] (Model/Top.v)
   = Code::parse: check a statement, then recreate it.
   [frag]/[sfrag]/[lfrag] : the surface fragment = every expression, statement and line
                form EXCEPT `for` loops, tuple destructuring `(a, b) := e` and modules;
                binary operators are those the parser builds an XInfix for
                ([frag_infix_needed]); constants are [vok];
   [vok v]    : hereditarily, arrays store a well-formed element type their elements
                inhabit, struct keys are distinct, function / cell references carry
                well-formed types ([vok_lenv], [vok_scopes]: the constants in scope are);
   [ER e er]  : the pass's environment er binds every local variable the checker's e
                binds, and where er knows a CONSTANT for it, that constant is [vok] and
                inhabits the type e has ([lref]); [leq] = same bindings.

   Since [rt] is total the pass can only panic on an unknown name or by folding an
   operator on constants of the wrong kinds.  It does neither on what the checker built:
   names are bound because the two environments grow together ([ER] is kept by Set and
   function declarations on both sides), and every constant the pass substitutes inhabits
   the static type the checker computed for the expression it replaces, so the operator
   lemmas of Props/C01.v apply ("folding only applies operators to constants whose types
   passed can_be_used").

   The static TYPES are not kept: folding narrows them under guards that were tested on
   the wider ones.  `[[], [[1]]][0]` : [!] | [[int]] is folded to the constant `[]` : [!];
   then `[k]` on it has type `!`, which the guard of `[]` would reject and [index_result]
   does not answer.  That unwrap panicked in Code::parse before 15efcc4 (also through
   `if true { [] } else { [[1]] }`; Props/C01b has the variant with a `return` branch);
   the type is `!` since. *)
Theorem recreate_narrows :
  check_x red0 20 [] e_k x_narrow = Ok i_narrow /\ rt i_narrow = Ok TInt /\
  recreate powf0 20 [] e_k i_narrow = Ok (i_narrow', e_k) /\ rt i_narrow' = Ok TNever /\
  rt (IBin At (IVar (VArr TNever [])) (ILocal nk (LOther TInt))) = Ok TNever /\
  index_result TNever = None.
Proof. exact RecreateTotal.recreate_narrows. Qed.
Theorem parse_top_narrow :
  exists r, parse_top powf0 red0 40 [] [mkLayer [] None false] p_narrow = Ok r.
Proof. exact RecreateTotal.parse_top_narrow. Qed.
Theorem parse_top_if_narrow :
  exists r, parse_top powf0 red0 40 [] [mkLayer [] None false] p_if = Ok r.
Proof. exact RecreateTotal.parse_top_if_narrow. Qed.

(* the environment relation *)
Theorem ER_refl : forall e, vok_lenv e -> ER e e.
Proof. exact RecreateTotal.ER_refl. Qed.
Theorem ER_of_leq : forall e e', vok_lenv e -> leq e' e -> ER e e'.
Proof. exact RecreateTotal.ER_of_leq. Qed.
Theorem ER_insert : forall n lv lv' e er,
  ER e er -> lref lv lv' -> ER (lenv_insert n lv e) (lenv_insert n lv' er).
Proof. exact RecreateTotal.ER_insert. Qed.

Section C03e.
Variable red : reducers.
Hypothesis Wred : wf_red red.
Variable powf : fbits -> fbits -> fbits.

(* expressions: the pass never panics, leaves the environment alone, and whatever it folds
   to a constant is a good value of the static type the checker computed *)
Theorem recreate_expr_total : forall fuel fuel' sc e e' x i,
  wf_lenv e -> vok_lenv e -> wf_scopes sc -> vok_scopes sc -> wf_sx x = true -> frag x = true ->
  ER e e' ->
  check_x red fuel sc e x = Ok i ->
  recreate powf fuel' sc e' i <> Panic /\
  forall i' e'', recreate powf fuel' sc e' i = Ok (i', e'') ->
    e'' = e' /\
    forall v, i' = IVar v -> vok v = true /\ exists T, rt i = Ok T /\ has_type v T = true.
Proof. exact (RecreateTotal.recreate_expr_total red Wred powf). Qed.

(* statements: never panics, environment unchanged *)
Theorem recreate_stm_total : forall fuel fuel' sc e er s i e1,
  wf_lenv e -> vok_lenv e -> wf_scopes sc -> vok_scopes sc -> wf_sstm s = true -> sfrag s = true ->
  ER e er ->
  check_s red fuel sc e s = Ok (i, e1) ->
  recreate powf fuel' sc er i <> Panic /\
  forall i' er', recreate powf fuel' sc er i = Ok (i', er') -> er' = er.
Proof. exact (RecreateTotal.recreate_stm_total red Wred powf). Qed.

(* lines: everything check_lines builds, recreated in sequence (as a block / function body
   is), never panics, and the two environments stay related *)
Theorem recreate_lines_never_panic : forall fuel fuel' sc e er l is e1,
  wf_lenv e -> vok_lenv e -> wf_scopes sc -> vok_scopes sc ->
  forallb wf_sline l = true -> forallb lfrag l = true ->
  ER e er ->
  check_lines red fuel sc e l = Ok (is, e1) ->
  rl_def (recreate powf fuel' sc) is er <> Panic /\
  forall is' er', rl_def (recreate powf fuel' sc) is er = Ok (is', er') -> ER e1 er'.
Proof. exact (RecreateTotal.recreate_lines_never_panic red Wred powf). Qed.

(* Code::parse on a top-level line of the fragment never panics ... *)
Theorem parse_top_line_never_panics : forall fuel sc e ln,
  wf_lenv e -> vok_lenv e -> wf_scopes sc -> vok_scopes sc ->
  wf_sline ln = true -> lfrag ln = true ->
  parse_top powf red fuel sc e [ln] <> Panic.
Proof. exact (RecreateTotal.parse_top_line_never_panics red Wred powf). Qed.

(* ... nor on a program of fragment expression statements (for several lines that bind
   variables one would also need that the pass keeps the types in its environment
   well-formed for the next check: not proved) *)
Theorem parse_top_exprs_never_panic : forall fuel sc e xs,
  wf_lenv e -> vok_lenv e -> wf_scopes sc -> vok_scopes sc ->
  Forall (fun x => wf_sx x = true /\ frag x = true) xs ->
  parse_top powf red fuel sc e (map (fun x => LStm (SExpr x)) xs) <> Panic.
Proof. exact (RecreateTotal.parse_top_exprs_never_panic red Wred powf). Qed.
End C03e.

(* the pass never returns a local variable it knows a constant for *)
Theorem recreate_nolv : forall powf sc m er i i' e'',
  recreate powf m sc er i = Ok (i', e'') -> forall n v, i' <> ILocal n (LVariable v).
Proof. exact RecreateTotal.recreate_nolv. Qed.

(* the values the folder builds stay good *)
Theorem vok_self_typed : forall v, vok v = true -> has_type v (as_type v) = true.
Proof. exact RecreateTotal.vok_self_typed. Qed.
Theorem vok_type_wf : forall v, vok v = true -> wf_ty (as_type v) = true.
Proof. exact RecreateTotal.vok_type_wf. Qed.
Theorem vok_arr_of : forall vs, forallb vok vs = true -> vok (arr_of vs) = true.
Proof. exact RecreateTotal.vok_arr_of. Qed.
Theorem vok_op : forall powf o a b v,
  vok a = true -> vok b = true -> op_exec powf o a b = Ok v -> vok v = true.
Proof. exact RecreateTotal.vok_op. Qed.
Theorem vok_at : forall v i x, vok v = true -> at_exec v i = Ok x -> vok x = true.
Proof. exact RecreateTotal.vok_at. Qed.

(* non-vacuity *)
Theorem ex_fold_hyps :
  wf_lenv e_k /\ vok_lenv e_k /\ wf_scopes [] /\ vok_scopes [] /\ wf_sx x_fold = true /\
  frag x_fold = true.
Proof. exact RecreateTotal.ex_fold_hyps. Qed.
Theorem ex_fold_result :
  obind (check_x red0 20 [] e_k x_fold) (recreate powf0 20 [] e_k) =
  Ok (IBin Add (IBin At (IArray [IVar (VInt 3); ILocal nk (LOther TInt)] TInt) (IVar (VInt 0)))
               (IVar (VInt 12)), e_k).
Proof. exact RecreateTotal.ex_fold_result. Qed.
Theorem ex_fold_error :
  obind (check_x red0 20 [] [] (XInfix Divide (XConst (VInt 1)) (XConst (VInt 0))))
        (recreate powf0 20 [] []) = Err E_ZeroDivision.
Proof. exact RecreateTotal.ex_fold_error. Qed.
Theorem ex_narrow_hyps : wf_sx x_narrow = true /\ frag x_narrow = true.
Proof. exact RecreateTotal.ex_narrow_hyps. Qed.
Theorem frag_infix_needed :
  obind (check_x red0 3 [] [] (XInfix At (XConst (VInt 1)) (XConst (VInt 1))))
        (recreate powf0 3 [] []) = Panic.
Proof. exact RecreateTotal.frag_infix_needed. Qed.
(* the two functions that used to panic in Code::parse, and a function with a literal
   closure, while, if, match with type and value arms, are in the fragment *)
Theorem ex_lines_hyps :
  forallb wf_sline p_narrow = true /\ forallb lfrag p_narrow = true /\
  forallb wf_sline p_if = true /\ forallb lfrag p_if = true.
Proof. exact RecreateTotal.ex_lines_hyps. Qed.
Theorem ex_stm_hyps : forallb wf_sline p_stm = true /\ forallb lfrag p_stm = true.
Proof. exact RecreateTotal.ex_stm_hyps. Qed.
Theorem ex_stm_parses :
  exists r, parse_top powf0 red0 60 [] [mkLayer [] None false] p_stm = Ok r.
Proof. exact RecreateTotal.ex_stm_parses. Qed.

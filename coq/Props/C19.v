(* C19 — equality is by content, independent of static or stored types.
   Statements only; every proof is `exact <lemma>` into Lemmas/ValueLemmas.v.

   [val_eqb]         : the `==` of the (repaired) implementation;
   [val_eqb_derived] : the derived equality it replaced, which also compared the
                       hidden element type of arrays (refuted below);
   [vkeys_ok v]      : every struct value inside [v] has pairwise distinct keys
                       (always true of values built by the interpreter: structs
                       are hash maps);
   [nan_free v]      : no NaN occurs in [v];
   [kind v]          : the constructor of [v], as a number. *)
From SSL.Model Require Import Base Ty Float Value.
From SSL.Lemmas Require Import TyLemmas ValueLemmas.

(* ---------- scalars by value ---------- *)
Theorem val_eqb_bool : forall x y, val_eqb (VBool x) (VBool y) = Bool.eqb x y.
Proof. exact ValueLemmas.val_eqb_bool. Qed.
Theorem val_eqb_bool_iff : forall x y, val_eqb (VBool x) (VBool y) = true <-> x = y.
Proof. exact ValueLemmas.val_eqb_bool_iff. Qed.

Theorem val_eqb_int : forall x y, val_eqb (VInt x) (VInt y) = Z.eqb x y.
Proof. exact ValueLemmas.val_eqb_int. Qed.
Theorem val_eqb_int_iff : forall x y, val_eqb (VInt x) (VInt y) = true <-> x = y.
Proof. exact ValueLemmas.val_eqb_int_iff. Qed.

Theorem val_eqb_string : forall x y, val_eqb (VString x) (VString y) = ident_eqb x y.
Proof. exact ValueLemmas.val_eqb_string. Qed.
Theorem ident_eqb_eq : forall a b, ident_eqb a b = true <-> a = b.
Proof. exact TyFuel.ident_eqb_eq. Qed.
Theorem val_eqb_string_iff : forall x y, val_eqb (VString x) (VString y) = true <-> x = y.
Proof. exact ValueLemmas.val_eqb_string_iff. Qed.

Theorem val_eqb_void : val_eqb VVoid VVoid = true.
Proof. exact ValueLemmas.val_eqb_void. Qed.

(* ---------- floats by IEEE equality ---------- *)
Theorem val_eqb_float : forall x y, val_eqb (VFloat x) (VFloat y) = feq x y.
Proof. exact ValueLemmas.val_eqb_float. Qed.

Theorem feq_sym : forall x y, feq x y = feq y x.
Proof. exact ValueLemmas.feq_sym. Qed.

Theorem feq_refl : forall f, f_is_nan f = false -> feq f f = true.
Proof. exact ValueLemmas.feq_refl. Qed.

Theorem feq_refl_iff : forall f, feq f f = negb (f_is_nan f).
Proof. exact ValueLemmas.feq_refl_iff. Qed.

Theorem val_eqb_float_zero : val_eqb (VFloat F_ZERO) (VFloat (fneg F_ZERO)) = true.
Proof. exact ValueLemmas.val_eqb_float_zero. Qed.

Theorem val_eqb_nan : forall f, f_is_nan f = true -> val_eqb (VFloat f) (VFloat f) = false.
Proof. exact ValueLemmas.val_eqb_nan. Qed.

Theorem val_eqb_nan_any : forall f g,
  f_is_nan f = true -> val_eqb (VFloat f) (VFloat g) = false.
Proof. exact ValueLemmas.val_eqb_nan_any. Qed.

(* ---------- functions and cells by identity ---------- *)
Theorem val_eqb_fun : forall i p r j p' r',
  val_eqb (VFun i p r) (VFun j p' r') = Nat.eqb i j.
Proof. exact ValueLemmas.val_eqb_fun. Qed.

Theorem val_eqb_mut : forall i t j t', val_eqb (VMut i t) (VMut j t') = Nat.eqb i j.
Proof. exact ValueLemmas.val_eqb_mut. Qed.

(* ---------- arrays, tuples, structs element-wise ---------- *)
Theorem val_eqb_arr : forall t1 l1 t2 l2,
  val_eqb (VArr t1 l1) (VArr t2 l2) = all2 val_eqb l1 l2.
Proof. exact ValueLemmas.val_eqb_arr. Qed.

Theorem val_eqb_tup : forall l1 l2, val_eqb (VTup l1) (VTup l2) = all2 val_eqb l1 l2.
Proof. exact ValueLemmas.val_eqb_tup. Qed.

Theorem val_eqb_struct : forall f1 f2,
  val_eqb (VStruct f1) (VStruct f2) =
  Nat.eqb (length f1) (length f2) &&
  forallb (fun kv => match assoc (fst kv) f2 with
                     | Some w => val_eqb (snd kv) w | None => false end) f1.
Proof. exact ValueLemmas.val_eqb_struct. Qed.

(* ---------- the stored element type never matters ---------- *)
Theorem val_eqb_ignores_elem_type : forall t1 t2 t1' t2' l l',
  val_eqb (VArr t1 l) (VArr t2 l') = val_eqb (VArr t1' l) (VArr t2' l').
Proof. exact ValueLemmas.val_eqb_ignores_elem_type. Qed.

(* the derived equality is refuted as "equality by content" ... *)
Theorem derived_eq_refuted :
  exists a b, val_eqb a b = true /\ val_eqb_derived a b = false.
Proof. exact ValueLemmas.derived_eq_refuted. Qed.

(* ... it was strictly finer *)
Theorem val_eqb_derived_finer : forall a b,
  val_eqb_derived a b = true -> val_eqb a b = true.
Proof. exact ValueLemmas.val_eqb_derived_finer. Qed.

(* ---------- different kinds are unequal ---------- *)
Theorem val_eqb_kinds : forall a b, kind a <> kind b -> val_eqb a b = false.
Proof. exact ValueLemmas.val_eqb_kinds. Qed.

Theorem val_eqb_true_kind : forall a b, val_eqb a b = true -> kind a = kind b.
Proof. exact ValueLemmas.val_eqb_true_kind. Qed.

(* ---------- symmetry ---------- *)
Theorem val_eqb_sym : forall a b,
  vkeys_ok a = true -> vkeys_ok b = true -> val_eqb a b = val_eqb b a.
Proof. exact ValueLemmas.val_eqb_sym. Qed.

Theorem val_eqb_sym_struct_free : forall a b,
  struct_free a = true -> struct_free b = true -> val_eqb a b = val_eqb b a.
Proof. exact ValueLemmas.val_eqb_sym_struct_free. Qed.

(* ---------- reflexivity exactly on NaN-free values ---------- *)
Theorem val_eqb_refl : forall v,
  nan_free v = true -> vkeys_ok v = true -> val_eqb v v = true.
Proof. exact ValueLemmas.val_eqb_refl. Qed.

Theorem val_eqb_true_nan_free : forall a b, val_eqb a b = true -> nan_free a = true.
Proof. exact ValueLemmas.val_eqb_true_nan_free. Qed.

Theorem val_eqb_refl_iff : forall v,
  vkeys_ok v = true -> (val_eqb v v = true <-> nan_free v = true).
Proof. exact ValueLemmas.val_eqb_refl_iff. Qed.

(* ---------- transitivity (no hypothesis): with symmetry and reflexivity,
   an equivalence on NaN-free values with distinct keys ---------- *)
Theorem feq_trans : forall x y z, feq x y = true -> feq y z = true -> feq x z = true.
Proof. exact ValueLemmas.feq_trans. Qed.

Theorem val_eqb_trans : forall a b c,
  val_eqb a b = true -> val_eqb b c = true -> val_eqb a c = true.
Proof. exact ValueLemmas.val_eqb_trans. Qed.

(* ---------- examples ---------- *)
Local Open Scope Z_scope.
Definition kx : ident := [120].
Definition ky : ident := [121].

(* S9: the same contents under different hidden element types *)
Example ex_empty_arrays :
  val_eqb (VArr TFloat []) (VArr TNever []) = true
  /\ val_eqb_derived (VArr TFloat []) (VArr TNever []) = false.
Proof. vm_compute. repeat split. Qed.

Example ex_partition_result :
  val_eqb (VArr (TMulti [TInt; TFloat]) [VInt 1]) (VArr TInt [VInt 1]) = true
  /\ val_eqb_derived (VArr (TMulti [TInt; TFloat]) [VInt 1]) (VArr TInt [VInt 1]) = false.
Proof. vm_compute. repeat split. Qed.

(* nested values *)
Example ex_nested_equal :
  val_eqb
    (VTup [VArr TAny [VStruct [(kx, VInt 1); (ky, VString [97])]]; VFloat F_ZERO; VVoid])
    (VTup [VArr (TStruct [(kx, TInt); (ky, TString)])
             [VStruct [(ky, VString [97]); (kx, VInt 1)]]; VFloat (fneg F_ZERO); VVoid])
  = true.
Proof. vm_compute. reflexivity. Qed.

Example ex_nested_unequal :
  val_eqb (VArr TInt [VInt 1; VInt 2]) (VArr TInt [VInt 1]) = false
  /\ val_eqb (VArr TInt [VInt 1; VInt 2]) (VArr TInt [VInt 2; VInt 1]) = false
  /\ val_eqb (VArr TInt [VInt 1]) (VTup [VInt 1]) = false
  /\ val_eqb (VInt 1) (VFloat F_ONE) = false
  /\ val_eqb (VStruct [(kx, VInt 1)]) (VStruct [(kx, VInt 1); (ky, VInt 2)]) = false
  /\ val_eqb VVoid (VInt 0) = false
  /\ val_eqb (VString []) (VArr TNever []) = false.
Proof. vm_compute. repeat split. Qed.

(* NaN is unequal to itself, also deep inside a value *)
Example ex_nan :
  f_is_nan CANON_NAN = true
  /\ val_eqb (VFloat CANON_NAN) (VFloat CANON_NAN) = false
  /\ val_eqb (VArr TFloat [VFloat CANON_NAN]) (VArr TFloat [VFloat CANON_NAN]) = false
  /\ nan_free (VArr TFloat [VFloat CANON_NAN]) = false.
Proof. vm_compute. repeat split. Qed.

(* functions and cells: identity, whatever the carried types *)
Example ex_identity :
  val_eqb (VFun 1 [TInt] TInt) (VFun 1 [] TAny) = true
  /\ val_eqb (VFun 1 [TInt] TInt) (VFun 2 [TInt] TInt) = false
  /\ val_eqb (VMut 4 TInt) (VMut 4 TInt) = true
  /\ val_eqb (VMut 4 TInt) (VMut 5 TInt) = false.
Proof. vm_compute. repeat split. Qed.

(* distinct keys are necessary for symmetry and for reflexivity (such values
   do not arise: struct values are hash maps) *)
Example ex_sym_needs_keys :
  let a := VStruct [(kx, VInt 1); (kx, VInt 1)] in
  let b := VStruct [(kx, VInt 1); (ky, VInt 2)] in
  vkeys_ok a = false /\ vkeys_ok b = true /\ val_eqb a b = true /\ val_eqb b a = false.
Proof. vm_compute. repeat split. Qed.

Example ex_refl_needs_keys :
  let a := VStruct [(kx, VInt 1); (kx, VInt 2)] in
  nan_free a = true /\ vkeys_ok a = false /\ val_eqb a a = false.
Proof. vm_compute. repeat split. Qed.

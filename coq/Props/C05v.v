(* C05 (values) — Variable::of_type depends on the member order (S8).
   Statements only; proofs in Lemmas/OrderValueLemmas.v. *)
From SSL.Model Require Import Base Ty Float Value.
From SSL.Lemmas Require Import OrderValueLemmas.
From Coq Require Import Permutation.

Theorem of_type_order_refuted :
  exists ms ms', Permutation ms ms' /\ wf_ty (TMulti ms) = true /\
                 of_type (TMulti ms) <> of_type (TMulti ms').
Proof. exact OrderValueLemmas.of_type_order_refuted. Qed.

Theorem of_type_witness :
  of_type (TMulti [TInt; TString]) = Some (VInt 0) /\
  of_type (TMulti [TString; TInt]) = Some (VString []).
Proof. exact OrderValueLemmas.of_type_witness. Qed.

Theorem of_type_multi_first : forall m rest, of_type (TMulti (m :: rest)) = of_type m.
Proof. exact OrderValueLemmas.of_type_multi_first. Qed.

(* C18 — standard library functions honour their declared signatures.
   Statements only; every proof is `exact <lemma>` into Lemmas/Stdlib*.v.

   The table of exports [stdlib_exports] and the TypeOf table [typeof_table] are
   Gen/GenStdlib.v, regenerated from src/stdlib.rs, src/stdlib/*.rs, src/variable/type_of.rs by
   translators/export2coq.py; lane L12 checks that table against the live `std` value.

   1. signatures:  params_accepted, returns_declared, typeof_table_sound, constants_typed
   2. integer helpers (std.math): bit counting, byte swap / bit reversal, integer logarithms
   3. strings (std.string, std.len, std.convert.parse_int)
   4. casts and float helpers (std.convert.to_int/to_float, std.math.floor ..)

   libm functions, Unicode case mapping, decimal float parsing, Display and the operating
   system are outside the model: for them only the signature part (1) is claimed. *)
From Coq Require Import ZArith List Bool Reals.
Import ListNotations.
From Flocq Require Import Core.Core IEEE754.Binary IEEE754.Bits.
From SSL.Model Require Import Base Ty Float Value Stdlib.
From SSL.Gen Require Import GenStdlib.
From SSL.Lemmas Require Import StdlibLemmas StdlibInt StdlibStr StdlibFloat StdlibEval.

Local Open Scope Z_scope.

(* ================================================================= *)
(* 1. Signatures                                                     *)
(* ================================================================= *)

(* For every export of the regenerated table and every parameter, every value that belongs to
   the DECLARED SimpleSL parameter type is accepted by the conversion the generated glue applies
   (`get_variable(..).unwrap().try_into().unwrap()`) and by the partial idioms of the function
   body (`_ => unreachable!()`, `.map(Variable::as_int).map(Option::unwrap)`): those are dead. *)
Theorem params_accepted : forall e p v,
  In e stdlib_exports -> In p (params_of e) ->
  has_type v (p_declared p) = true ->
  param_accepts p v = true.
Proof. exact StdlibLemmas.params_accepted. Qed.

(* the general fact behind it: [conv_ty c d] is a type all of whose values pass c and d *)
Theorem accepts_sound : forall c d v,
  has_type v (conv_ty c d) = true ->
  conv_accepts c v = true /\ demand_accepts d v = true.
Proof. exact StdlibLemmas.accepts_sound. Qed.

(* the per-pair inversions *)
Theorem has_type_string_inv : forall v, has_type v TString = true -> exists s, v = VString s.
Proof. exact StdlibLemmas.has_type_string_inv. Qed.
Theorem has_type_int_inv : forall v, has_type v TInt = true -> exists z, v = VInt z.
Proof. exact StdlibLemmas.has_type_int_inv. Qed.
Theorem has_type_float_inv : forall v, has_type v TFloat = true -> exists f, v = VFloat f.
Proof. exact StdlibLemmas.has_type_float_inv. Qed.
Theorem has_type_arr_any_inv : forall v, has_type v (TArr TAny) = true -> exists et vs, v = VArr et vs.
Proof. exact StdlibLemmas.has_type_arr_any_inv. Qed.
Theorem has_type_arr_int_inv : forall v,
  has_type v (TArr TInt) = true -> exists et zs, v = VArr et (map VInt zs).
Proof. exact StdlibLemmas.has_type_arr_int_inv. Qed.
Theorem has_type_int_or_float_inv : forall v,
  has_type v (ty_union [TInt; TFloat]) = true -> (exists z, v = VInt z) \/ (exists f, v = VFloat f).
Proof. exact StdlibLemmas.has_type_int_or_float_inv. Qed.
Theorem has_type_arr_or_string_inv : forall v,
  has_type v (ty_union [TArr TAny; TString]) = true ->
  (exists et vs, v = VArr et vs) \/ (exists s, v = VString s).
Proof. exact StdlibLemmas.has_type_arr_or_string_inv. Qed.

(* The image of `Into<Variable>` for the Rust return type of every export is contained in its
   declared SimpleSL return type, by tag and by contents. *)
Theorem returns_declared : forall path name ps ret dret ra el v,
  In (EFn path name ps ret dret ra el) stdlib_exports ->
  into_image ret el v ->
  has_type v dret = true.
Proof. exact StdlibLemmas.returns_declared. Qed.

Theorem image_sound : forall r el v, into_image r el v -> has_type v (image_ty r el) = true.
Proof. exact StdlibLemmas.image_sound. Qed.

(* `<R as TypeOf>::type_of()` contains whatever `R::into()` can produce, for every row of the
   TypeOf table and for the generic rule Result<T,S> *)
Theorem typeof_table_sound : forall r t v,
  In (r, t) typeof_table -> into_image r None v -> has_type v t = true.
Proof. exact StdlibLemmas.typeof_table_sound. Qed.

Theorem type_of_rty_sound : forall r t v,
  type_of_rty typeof_table r = Some t -> into_image r None v -> has_type v t = true.
Proof. exact StdlibLemmas.type_of_rty_sound. Qed.

(* io::Result<T>  |->  T | struct{error_code: int, msg: string} *)
Theorem io_error_has_type : forall code msg, has_type (io_error_val code msg) io_error_ty = true.
Proof. exact StdlibLemmas.io_error_has_type. Qed.

(* parameters / results without an attribute are declared as TypeOf of their Rust type *)
Theorem params_decl_coherent :
  forallb (fun e => forallb param_decl_coherent (params_of e)) stdlib_exports = true.
Proof. exact StdlibLemmas.params_decl_coherent. Qed.
Theorem returns_decl_coherent : forallb ret_decl_coherent stdlib_exports = true.
Proof. exact StdlibLemmas.returns_decl_coherent. Qed.

(* constants have their declared types *)
Theorem constants_typed : forall path name r t c,
  In (EConst path name r t c) stdlib_exports ->
  has_type (const_value c) t = true /\ const_in_rty r c = true.
Proof. exact StdlibLemmas.constants_typed. Qed.

Theorem constants_values :
  In (EConst [n_std; n_math] n_MIN_INT RI64 TInt (CInt MIN_INT)) stdlib_exports /\
  In (EConst [n_std; n_math] n_MAX_INT RI64 TInt (CInt MAX_INT)) stdlib_exports /\
  In (EConst [n_std; n_math] n_E RF64 TFloat (CFloat E_BITS)) stdlib_exports /\
  In (EConst [n_std; n_math] n_PI RF64 TFloat (CFloat PI_BITS)) stdlib_exports.
Proof. exact StdlibLemmas.constants_values. Qed.

(* The evaluation function of the model is coherent with the table: on arguments of the
   declared parameter types every modelled export yields a value (never the "unwrap reached"
   outcome) of the declared return type; only fs.* and io.* are outside it.  For every
   instantiation of libm, case mapping, float parsing and Display. *)
Theorem std_eval_typed : forall libm1 libm2 to_lower to_upper parse_float display
                                path name ps ret dret ra el args,
  In (EFn path name ps ret dret ra el) stdlib_exports ->
  Forall2 (fun v p => has_type v (p_declared p) = true) args ps ->
  match std_eval libm1 libm2 to_lower to_upper parse_float display (module_of path) name args with
  | Some v => has_type v dret = true
  | None => ident_eqb (module_of path) n_fs || ident_eqb (module_of path) n_io = true
  end.
Proof. exact StdlibEval.std_eval_typed. Qed.

Theorem std_eval_constants : forall libm1 libm2 to_lower to_upper parse_float display path name r t c,
  In (EConst path name r t c) stdlib_exports ->
  std_eval libm1 libm2 to_lower to_upper parse_float display (module_of path) name [] = Some (const_value c).
Proof. exact StdlibEval.std_eval_constants. Qed.

(* ================================================================= *)
(* 2. Integer helpers                                                *)
(* ================================================================= *)
Theorem count_ones_zeros : forall z, count_ones z + count_zeros z = 64.
Proof. exact StdlibInt.count_ones_zeros. Qed.
Theorem count_ones_range : forall z, 0 <= count_ones z <= 64.
Proof. exact StdlibInt.count_ones_range. Qed.
Theorem count_zeros_range : forall z, 0 <= count_zeros z <= 64.
Proof. exact StdlibInt.count_zeros_range. Qed.
Theorem count_ones_minus_one : count_ones (-1) = 64.
Proof. exact StdlibInt.count_ones_minus_one. Qed.
Theorem count_ones_zero : count_ones 0 = 0.
Proof. exact StdlibInt.count_ones_zero. Qed.
Theorem count_ones_zero_iff : forall z, in_i64 z -> (count_ones z = 0 <-> z = 0).
Proof. exact StdlibInt.count_ones_zero_iff. Qed.

Theorem leading_zeroes_range : forall z, 0 <= leading_zeroes z <= 64.
Proof. exact StdlibInt.leading_zeroes_range. Qed.
Theorem leading_ones_range : forall z, 0 <= leading_ones z <= 64.
Proof. exact StdlibInt.leading_ones_range. Qed.
Theorem trailing_zeroes_range : forall z, 0 <= trailing_zeroes z <= 64.
Proof. exact StdlibInt.trailing_zeroes_range. Qed.
Theorem trailing_ones_range : forall z, 0 <= trailing_ones z <= 64.
Proof. exact StdlibInt.trailing_ones_range. Qed.

(* "the number of leading zeros": the top r bits are 0 and the next one, if any, is 1 *)
Theorem leading_zeroes_spec : forall z r,
  leading_zeroes z = r <->
  (0 <= r <= 64 /\ (forall i, 64 - r <= i < 64 -> Z.testbit (u64 z) i = false) /\
   (r < 64 -> Z.testbit (u64 z) (63 - r) = true)).
Proof. exact StdlibInt.leading_zeroes_spec. Qed.
Theorem leading_ones_spec : forall z r,
  leading_ones z = r <->
  (0 <= r <= 64 /\ (forall i, 64 - r <= i < 64 -> Z.testbit (u64 z) i = true) /\
   (r < 64 -> Z.testbit (u64 z) (63 - r) = false)).
Proof. exact StdlibInt.leading_ones_spec. Qed.
Theorem trailing_zeroes_spec : forall z r,
  trailing_zeroes z = r <->
  (0 <= r <= 64 /\ (forall i, 0 <= i < r -> Z.testbit (u64 z) i = false) /\
   (r < 64 -> Z.testbit (u64 z) r = true)).
Proof. exact StdlibInt.trailing_zeroes_spec. Qed.
Theorem trailing_ones_spec : forall z r,
  trailing_ones z = r <->
  (0 <= r <= 64 /\ (forall i, 0 <= i < r -> Z.testbit (u64 z) i = true) /\
   (r < 64 -> Z.testbit (u64 z) r = false)).
Proof. exact StdlibInt.trailing_ones_spec. Qed.

Theorem leading_zeroes_64_iff : forall z, in_i64 z -> (leading_zeroes z = 64 <-> z = 0).
Proof. exact StdlibInt.leading_zeroes_64_iff. Qed.
Theorem trailing_zeroes_64_iff : forall z, in_i64 z -> (trailing_zeroes z = 64 <-> z = 0).
Proof. exact StdlibInt.trailing_zeroes_64_iff. Qed.
Theorem leading_zeroes_sign : forall z, in_i64 z -> (leading_zeroes z = 0 <-> z < 0).
Proof. exact StdlibInt.leading_zeroes_sign. Qed.

Theorem swap_bytes_involutive : forall z, in_i64 z -> swap_bytes (swap_bytes z) = z.
Proof. exact StdlibInt.swap_bytes_involutive. Qed.
Theorem reverse_bits_involutive : forall z, in_i64 z -> reverse_bits (reverse_bits z) = z.
Proof. exact StdlibInt.reverse_bits_involutive. Qed.
Theorem reverse_bits_spec : forall z i,
  0 <= i < 64 -> Z.testbit (u64 (reverse_bits z)) i = Z.testbit (u64 z) (63 - i).
Proof. exact StdlibInt.reverse_bits_spec. Qed.
Theorem swap_bytes_spec : forall z j k,
  0 <= j < 8 -> 0 <= k < 8 ->
  Z.testbit (u64 (swap_bytes z)) (8 * j + k) = Z.testbit (u64 z) (8 * (7 - j) + k).
Proof. exact StdlibInt.swap_bytes_spec. Qed.
Theorem reverse_bits_in_i64 : forall z, in_i64 (reverse_bits z).
Proof. exact StdlibInt.reverse_bits_in_i64. Qed.
Theorem swap_bytes_in_i64 : forall z, in_i64 (swap_bytes z).
Proof. exact StdlibInt.swap_bytes_in_i64. Qed.
Theorem leading_zeroes_reverse : forall z, leading_zeroes (reverse_bits z) = trailing_zeroes z.
Proof. exact StdlibInt.leading_zeroes_reverse. Qed.

(* "the logarithm of num with respect to an arbitrary base, rounded down; () if the number is
   negative or zero, or if the base is not at least 2" *)
Theorem ilog_spec : forall z b k,
  0 < z -> 2 <= b -> (ilog z b = Some k <-> b ^ k <= z < b ^ (k + 1)).
Proof. exact StdlibInt.ilog_spec. Qed.
Theorem ilog_none : forall z b, z <= 0 \/ b < 2 -> ilog z b = None.
Proof. exact StdlibInt.ilog_none. Qed.
Theorem ilog_some_iff : forall z b, (exists k, ilog z b = Some k) <-> (0 < z /\ 2 <= b).
Proof. exact StdlibInt.ilog_some_iff. Qed.
Theorem ilog2_spec : forall z k, 0 < z -> (ilog2 z = Some k <-> 2 ^ k <= z < 2 ^ (k + 1)).
Proof. exact StdlibInt.ilog2_spec. Qed.
Theorem ilog2_none : forall z, z <= 0 -> ilog2 z = None.
Proof. exact StdlibInt.ilog2_none. Qed.
Theorem ilog10_spec : forall z k, 0 < z -> (ilog10 z = Some k <-> 10 ^ k <= z < 10 ^ (k + 1)).
Proof. exact StdlibInt.ilog10_spec. Qed.
Theorem ilog10_none : forall z, z <= 0 -> ilog10 z = None.
Proof. exact StdlibInt.ilog10_none. Qed.
Theorem ilog2_is_ilog : forall z, ilog2 z = ilog z 2.
Proof. exact StdlibInt.ilog2_is_ilog. Qed.
Theorem ilog_range : forall z b k, in_i64 z -> ilog z b = Some k -> 0 <= k < 63.
Proof. exact StdlibInt.ilog_range. Qed.
(* Rust computes checked_ilog2 as 63 - leading_zeros *)
Theorem ilog2_leading_zeroes : forall z, in_i64 z -> 0 < z -> ilog2 z = Some (63 - leading_zeroes z).
Proof. exact StdlibInt.ilog2_leading_zeroes. Qed.

(* ================================================================= *)
(* 3. Strings                                                        *)
(* ================================================================= *)
Theorem len_chars : forall s, Z.of_nat (length (chars s)) = len_string s.
Proof. exact StdlibStr.len_chars. Qed.
Theorem chars_concat : forall s, List.concat (chars s) = s.
Proof. exact StdlibStr.chars_concat. Qed.
Theorem len_nonneg : forall v n, std_len v = Some n -> 0 <= n.
Proof. exact StdlibStr.len_nonneg. Qed.

Theorem starts_with_spec : forall s p, starts_with s p = true <-> exists post, s = p ++ post.
Proof. exact StdlibStr.starts_with_spec. Qed.
Theorem ends_with_spec : forall s p, ends_with s p = true <-> exists pre, s = pre ++ p.
Proof. exact StdlibStr.ends_with_spec. Qed.
Theorem contains_spec : forall s p, contains s p = true <-> exists pre post, s = pre ++ p ++ post.
Proof. exact StdlibStr.contains_spec. Qed.

(* the pieces, glued with the pattern, are the string (empty pattern included) *)
Theorem join_split : forall s sep, join sep (split s sep) = s.
Proof. exact StdlibStr.join_split. Qed.
Theorem split_empty_pattern : forall s, split s [] = [] :: chars s ++ [[]].
Proof. exact StdlibStr.split_empty_pattern. Qed.
Theorem split_no_match : forall s p, contains s p = false -> split s p = [s].
Proof. exact StdlibStr.split_no_match. Qed.
(* the first piece is the text before the LEFTMOST occurrence *)
Theorem split_first_piece : forall s p pre post,
  p <> [] -> s = pre ++ p ++ post ->
  (forall pre' post', s = pre' ++ p ++ post' -> (length pre <= length pre')%nat) ->
  exists rest, split s p = pre :: rest /\ join p rest = post.
Proof. exact StdlibStr.split_first_piece. Qed.
Theorem replace_same : forall s p, replace s p p = s.
Proof. exact StdlibStr.replace_same. Qed.
Theorem replace_no_match : forall s from to, contains s from = false -> replace s from to = s.
Proof. exact StdlibStr.replace_no_match. Qed.

(* bytes / str_from_utf8 round trip, for every string of valid scalar values *)
Theorem str_from_utf8_bytes : forall s,
  forallb is_scalar s = true -> str_from_utf8 (bytes s) = Some s.
Proof. exact StdlibStr.str_from_utf8_bytes. Qed.
Theorem str_from_utf8_lossy_bytes : forall s,
  forallb is_scalar s = true -> str_from_utf8_lossy (bytes s) = s.
Proof. exact StdlibStr.str_from_utf8_lossy_bytes. Qed.
Theorem str_from_utf8_lossy_agrees : forall ints s,
  str_from_utf8 ints = Some s -> str_from_utf8_lossy ints = s.
Proof. exact StdlibStr.str_from_utf8_lossy_agrees. Qed.
(* the `as u8` truncation of arbitrary ints, as coded *)
Theorem str_from_utf8_truncates : str_from_utf8 [321] = Some [65] /\ str_from_utf8 [-191] = Some [65].
Proof. exact StdlibStr.str_from_utf8_truncates. Qed.

Theorem trim_start_spec : forall s,
  exists ws, s = ws ++ trim_start s /\ forallb is_whitespace ws = true /\
             match trim_start s with [] => True | c :: _ => is_whitespace c = false end.
Proof. exact StdlibStr.trim_start_spec. Qed.
Theorem trim_end_spec : forall s,
  exists ws, s = trim_end s ++ ws /\ forallb is_whitespace ws = true /\
             match rev (trim_end s) with [] => True | c :: _ => is_whitespace c = false end.
Proof. exact StdlibStr.trim_end_spec. Qed.

Theorem parse_int_in_i64 : forall s z, parse_int s = Some z -> in_i64 z.
Proof. exact StdlibStr.parse_int_in_i64. Qed.
Theorem parse_print_int : forall z, in_i64 z -> parse_int (print_int z) = Some z.
Proof. exact StdlibStr.parse_print_int. Qed.
Theorem parse_int_examples :
  parse_int [] = None /\ parse_int [43] = None /\ parse_int [45] = None /\
  parse_int [43; 45; 49] = None /\ parse_int [32; 49] = None /\ parse_int [49; 95; 48] = None /\
  parse_int [43; 48; 48; 55] = Some 7 /\ parse_int [45; 48] = Some 0 /\
  parse_int [45; 57; 50; 50; 51; 51; 55; 50; 48; 51; 54; 56; 53; 52; 55; 55; 53; 56; 48; 56] = Some MIN_INT /\
  parse_int [57; 50; 50; 51; 51; 55; 50; 48; 51; 54; 56; 53; 52; 55; 55; 53; 56; 48; 55] = Some MAX_INT /\
  parse_int [57; 50; 50; 51; 51; 55; 50; 48; 51; 54; 56; 53; 52; 55; 55; 53; 56; 48; 56] = None /\
  parse_int [65297; 65298] = None.
Proof. exact StdlibStr.parse_int_examples. Qed.

(* ================================================================= *)
(* 4. Casts and float helpers                                        *)
(* ================================================================= *)

(* to_int on floats (Rust `as i64`): never outside i64 — it saturates *)
Theorem float_to_int_in_i64 : forall f, in_i64 (float_to_int f).
Proof. exact StdlibFloat.float_to_int_in_i64. Qed.

(* NaN -> 0; +-inf, +-2^63, 1e19, f64::MAX saturate at MIN/MAX; the fraction is dropped *)
Theorem float_to_int_boundaries :
  float_to_int CANON_NAN = 0 /\
  float_to_int 18444492273895866368 = 0 /\
  float_to_int 9218868437227405312 = MAX_INT /\
  float_to_int 18442240474082181120 = MIN_INT /\
  float_to_int 4890909195324358656 = MAX_INT /\
  float_to_int 4890909195324358655 = 9223372036854774784 /\
  float_to_int 4890909195324358657 = MAX_INT /\
  float_to_int 14114281232179134464 = MIN_INT /\
  float_to_int 14114281232179134463 = -9223372036854774784 /\
  float_to_int 14114281232179134465 = MIN_INT /\
  float_to_int 4891288408196988160 = MAX_INT /\
  float_to_int 14114660445051763968 = MIN_INT /\
  float_to_int 9218868437227405311 = MAX_INT /\
  float_to_int 0 = 0 /\ float_to_int 9223372036854775808 = 0 /\
  float_to_int 1 = 0 /\
  float_to_int 4612811918334230528 = 2 /\
  float_to_int 13836183955189006336 = -2 /\
  float_to_int 4607182418800017407 = 0 /\
  float_to_int 13830554455654793215 = 0.
Proof. exact StdlibFloat.float_to_int_boundaries. Qed.

(* for every finite float: the real value truncated toward zero, then clamped to i64 *)
Theorem float_to_int_real : forall f,
  is_finite 53 1024 (f_of_bits f) = true ->
  float_to_int f = clamp_i64 (Ztrunc (B2R 53 1024 (f_of_bits f))).
Proof. exact StdlibFloat.float_to_int_real. Qed.

(* monotone: a larger real value never casts to a smaller integer *)
Theorem float_to_int_mono : forall f g,
  is_finite 53 1024 (f_of_bits f) = true -> is_finite 53 1024 (f_of_bits g) = true ->
  (B2R 53 1024 (f_of_bits f) <= B2R 53 1024 (f_of_bits g))%R ->
  float_to_int f <= float_to_int g.
Proof. exact StdlibFloat.float_to_int_mono. Qed.

(* to_int (to_float z) = z for |z| <= 2^53 *)
Theorem to_int_to_float : forall z,
  - 9007199254740992 <= z <= 9007199254740992 -> float_to_int (int_to_float z) = z.
Proof. exact StdlibFloat.to_int_to_float. Qed.

(* to_float on ints (Rust `as f64`): the integer correctly rounded, nearest-even *)
Theorem int_to_float_real : forall z,
  in_i64 z ->
  let x := f_of_bits (int_to_float z) in
  is_finite 53 1024 x = true /\
  B2R 53 1024 x = round radix2 (FLT_exp (3 - 1024 - 53) 53) ZnearestE (IZR z).
Proof. exact StdlibFloat.int_to_float_real. Qed.

Theorem int_to_float_examples :
  int_to_float 0 = 0 /\ int_to_float 1 = F_ONE /\ int_to_float (-1) = 13830554455654793216 /\
  int_to_float MAX_INT = 4890909195324358656 /\
  int_to_float MIN_INT = 14114281232179134464 /\
  int_to_float 9007199254740993 = 4845873199050653696 /\
  int_to_float 9007199254740995 = 4845873199050653698.
Proof. exact StdlibFloat.int_to_float_examples. Qed.

(* floor / ceil / trunc / round / round_ties_even against the reals *)
Theorem std_floor_real : forall f,
  is_finite 53 1024 (f_of_bits f) = true ->
  B2R 53 1024 (f_of_bits (std_floor f)) = IZR (Zfloor (B2R 53 1024 (f_of_bits f))).
Proof. exact StdlibFloat.std_floor_real. Qed.
Theorem std_ceil_real : forall f,
  is_finite 53 1024 (f_of_bits f) = true ->
  B2R 53 1024 (f_of_bits (std_ceil f)) = IZR (Zceil (B2R 53 1024 (f_of_bits f))).
Proof. exact StdlibFloat.std_ceil_real. Qed.
Theorem std_trunc_real : forall f,
  is_finite 53 1024 (f_of_bits f) = true ->
  B2R 53 1024 (f_of_bits (std_trunc f)) = IZR (Ztrunc (B2R 53 1024 (f_of_bits f))).
Proof. exact StdlibFloat.std_trunc_real. Qed.
Theorem std_round_real : forall f,
  is_finite 53 1024 (f_of_bits f) = true ->
  B2R 53 1024 (f_of_bits (std_round f)) = IZR (ZnearestA (B2R 53 1024 (f_of_bits f))).
Proof. exact StdlibFloat.std_round_real. Qed.
Theorem std_round_ties_even_real : forall f,
  is_finite 53 1024 (f_of_bits f) = true ->
  B2R 53 1024 (f_of_bits (std_round_ties_even f)) = IZR (ZnearestE (B2R 53 1024 (f_of_bits f))).
Proof. exact StdlibFloat.std_round_ties_even_real. Qed.

Theorem rounding_specials :
  std_floor 9218868437227405312 = 9218868437227405312 /\
  std_ceil 18442240474082181120 = 18442240474082181120 /\
  std_trunc CANON_NAN = CANON_NAN /\ std_round CANON_NAN = CANON_NAN /\
  std_floor 9223372036854775808 = 9223372036854775808 /\
  std_ceil 13826050856027422720 = 9223372036854775808 /\
  std_round 4602678819172646912 = F_ONE /\
  std_round_ties_even 4602678819172646912 = 0 /\
  std_round 4612811918334230528 = 4613937818241073152 /\
  std_round_ties_even 4612811918334230528 = 4611686018427387904 /\
  std_fract 4612811918334230528 = 4602678819172646912.
Proof. exact StdlibFloat.rounding_specials. Qed.

(* classification: exactly one of nan / infinite / normal / subnormal / zero *)
Theorem classification_partition : forall f,
  let z := (f_exp_field f =? 0) && (f_mant_field f =? 0) in
  xorb (xorb (xorb (xorb (std_is_nan f) (std_is_infinite f)) (std_is_normal f)) (std_is_subnormal f)) z = true.
Proof. exact StdlibFloat.classification_partition. Qed.
Theorem is_finite_iff : forall f, std_is_finite f = negb (std_is_nan f || std_is_infinite f).
Proof. exact StdlibFloat.is_finite_iff. Qed.
Theorem to_bits_from_bits : forall z,
  in_i64 z -> f_is_nan (u64 z) = false -> std_to_bits (std_from_bits z) = z.
Proof. exact StdlibFloat.to_bits_from_bits. Qed.

(* C04b — constant folding and propagation are unobservable: WHOLE-PASS semantic
   preservation of [recreate] (Model/Recreate.v) against [exec] (Model/Exec.v).
   Companion of Props/C04.v (per-operator facts).  Statements only; every theorem is
   [exact lemma]; proofs in Lemmas/Recr*.v.

   Vocabulary
     recreate powf f [] e i = Ok (i', e')
                  the pass, run at parse time (empty creating scopes: every name is resolved
                  by the environment e), with fuel f, turns i into i' and e into e'.
     agree e sc   the run-time scopes sc agree with the pass's environment e: every name that
                  e binds to a constant ([LVariable v]) is bound to that very v in sc.  Names e
                  binds as non-constants ([LOther t], [LFunction ..]) may hold anything.
     wfi cl ln i  binder discipline of the INPUT (decidable, Lemmas/RecrDefs.v): `x := e`,
                  `(a, b) := e` and `f := (..){..}` occur only as LINES of a block or of a
                  function body (ln = true: i itself stands in a line position); cl = false
                  excludes closure creation; the prefix operator UFunctionCall (never built by
                  the checker; its body runs in the caller's scopes) is excluded.  Implied by
                  the typing judgement of C01b (Lemmas/RecrTyped.v).
     dok i'       arity discipline of the OUTPUT (decidable): a destructuring `(a, b) := x`
                  whose right-hand side is neither a constant nor a tuple literal has a
                  static type ([rt x]) that flattens to at least as many components as
                  there are names.  Implied by the typing judgement (Lemmas/RecrTyped.v), which
                  the pass preserves (C01b [recreate_preserves_typing]).
     okr r        the result r (store, scopes, signal) is neither SFuel (the model's own fuel
                  ran out) nor SPanic (a Rust panic — excluded for typed programs by C01b).
   Fuel.  [exec n] is fuel-indexed.  Folding only REMOVES evaluation steps, so the theorems
   have the form: for EVERY fuel n, if the un-folded instruction finishes with fuel n, the
   folded one finishes with the SAME fuel n and literally the same result — the same signal
   (value / error / break / continue / return), the same store (cells, closures, effect
   log) and the same scopes.  [exec_fuel_mono]: more fuel never changes a finished result.

   Coverage.  Every instruction form, including blocks, `if`, if-set, `match`, loops, cells,
   calls, closure CREATION (section "closures": the run-time pass over a closure body,
   composed with the parse-time pass, equals the run-time pass alone — [recreate_twice] —
   so the folded program allocates literally the same closures) and the iterator operators;
   only UFunctionCall is excluded.
   FINDING made by this proof (Lemmas/RecrFinding.v; repaired in /repo 8e9e772): at 0c25268
   preservation was FALSE for `$+`/`$*`: their run-time dispatch read the static type of the
   operand AS RECREATED, and the pass narrows that type when it substitutes a captured
   iterator by a constant (`it $+` gave 0 instead of 0.0 inside a closure capturing `it`).

   Converse (section "converse"): if the FOLDED instruction finishes with fuel n, the un-folded
   one finishes with every fuel m >= n + f (f = the fuel the pass ran with) and either panics
   (operands of a type the checker excludes, discarded by folding: `3 && x` folds to false) or
   gives literally the same result.  Together ([fold_equiv_*]): without panics, the two
   programs have exactly the same finished results.
   For TYPED programs (section "typed", with C01b/C01c) no side condition is left:
   [checked_fold_unobservable] — for every program Code::parse accepts (fragment of the
   bridge), running the checked and the recreated instruction lists gives the same results.

   The error clause (the "permitted difference"): [recreate_err_site] — every error the pass
   reports comes from an operation on constant operands that fails whenever it is evaluated
   ([fold_site]); [const_site_runtime], [early_site_runtime], [neg_len_runtime] — the
   un-folded operation fails with the same error once its operands are evaluated. *)
From Coq Require Import ZArith List Bool Lia.
Import ListNotations.
From SSL.Model Require Import Base Ty Float Value Ops Seq Syntax Rt Recreate Exec Check Top.
From SSL.Lemmas Require Import ExecLemmas FoldLemmas RecrUnfold RecrMono RecrDefs RecrMain RecrTop
  RecrComp1 RecrComp2 RecrClos RecrErr RecrBack1 RecrBack2 RecrEquiv RecrExamples RecrExamples2.
From SSL.Lemmas Require Import SoundDefs SoundTyping Sound1 SoundRec2 SoundRec3 CheckUnfold Bridge1 Bridge2
  RecrTyped RecrTyped2 RecrEnd RecrExamples3.
Local Open Scope Z_scope.

Section C04b.
Variable powf : fbits -> fbits -> fbits.
Variable pre : prelude.
Notation E := (exec powf pre).
Notation RC f := (recreate powf f []).

(* ------------------------------------------------------------ fuel *)
Theorem exec_fuel_mono : forall n m st sc i,
  (n <= m)%nat -> sig (E n st sc i) <> SFuel -> E m st sc i = E n st sc i.
Proof. exact (exec_fuel_mono powf pre). Qed.

(* ------------------------------------- the closure-free fragment *)

(* an instruction in expression position: the pass leaves its environment alone, and the
   folded instruction behaves like the original in all scopes that agree with it *)
Theorem recreate_expr_preserved : forall f e i i' e',
  RC f e i = Ok (i', e') -> wfi false false i = true -> dok i' = true ->
  e' = e /\
  forall sc, agree e sc -> forall n st, okr (E n st sc i) -> E n st sc i' = E n st sc i.
Proof. exact (sim_expr0 powf pre). Qed.

(* a line of a block: in addition, the scopes the line leaves agree with the environment
   the pass leaves (constants are propagated to the following lines) *)
Theorem recreate_line_preserved : forall f e i i' e',
  RC f e i = Ok (i', e') -> wfi false true i = true -> dok i' = true ->
  forall sc, agree e sc ->
    (forall n st, okr (E n st sc i) -> E n st sc i' = E n st sc i) /\
    (forall n st st1 sc1 v, E n st sc i = (st1, sc1, SVal v) -> agree e' sc1).
Proof. exact (sim_line0 powf pre). Qed.

(* the lines of a block / function body, the environment threaded as the pass threads it *)
Theorem recreate_lines_preserved : forall f l e l' e',
  rec_list_def (RC f) l e = Ok (l', e') ->
  forallb (wfi false true) l = true -> forallb dok l' = true ->
  forall sc, agree e sc -> forall n st,
    okl (ex_list_def (E n) l st sc) -> ex_list_def (E n) l' st sc = ex_list_def (E n) l st sc.
Proof. exact (sim_lines0 powf pre). Qed.

(* whole programs as Code::exec runs them *)
Theorem recreate_code_preserved : forall f l e l' e',
  rec_list_def (RC f) l e = Ok (l', e') ->
  forallb (wfi false true) l = true -> forallb dok l' = true ->
  forall sc, agree e sc -> forall n st last,
    okr (run_code powf pre n st sc l last) ->
    run_code powf pre n st sc l' last = run_code powf pre n st sc l last.
Proof. exact (sim_code0 powf pre). Qed.

(* Code::parse: [parse_both] is [parse_top] returning, next to the folded instructions is',
   the instructions is exactly as the checker built them (nothing folded) *)
Theorem parse_top_fold_unobservable : forall red fuel e l is is' e',
  parse_both powf red fuel [] e l = Ok (is, is', e') ->
  forallb (wfi false true) is = true -> forallb dok is' = true ->
  parse_top powf red fuel [] e l = Ok (is', e') /\
  forall sc, agree e sc -> forall n st last,
    okr (run_code powf pre n st sc is last) ->
    run_code powf pre n st sc is' last = run_code powf pre n st sc is last.
Proof. exact (parse_top_fold_unobservable0 powf pre). Qed.

(* ---------------------------------------------------------- closures *)

(* the pass applied twice.  Pass 1 (parse time, environment e1) turned the body l of a
   function literal into l1; when the closure is created, pass 2 runs over the body again, in
   the creating scopes sc and an environment e2 that holds the parameters only.  If e1 and
   (e2, sc) are related — [Rel sc e1 e2]: what pass 1 knows as a constant, pass 2 knows as the
   same constant or finds bound to it in sc — then pass 2 gives the same result on l1 as on l
   (instruction list, environment, error), for all sufficient fuels *)
Theorem recreate_twice : forall cl sc f l e1 l1 e1',
  rec_list_def (RC f) l e1 = Ok (l1, e1') ->
  forallb (wfi cl true) l = true -> forallb dok l1 = true ->
  forall e2, Rel sc e1 e2 -> forall g1 g, (list_isize l1 <= g1)%nat -> (list_isize l <= g)%nat ->
  rec_list_def (recreate powf g1 sc) l1 e2 = rec_list_def (recreate powf g sc) l e2.
Proof. exact (comp_lines powf). Qed.

Theorem recreate_expr_preserved_closures : forall f e i i' e',
  RC f e i = Ok (i', e') -> wfi true false i = true -> dok i' = true ->
  e' = e /\
  forall sc, agree e sc -> forall n st, okr (E n st sc i) -> E n st sc i' = E n st sc i.
Proof. exact (sim_expr1 powf pre). Qed.

Theorem recreate_line_preserved_closures : forall f e i i' e',
  RC f e i = Ok (i', e') -> wfi true true i = true -> dok i' = true ->
  forall sc, agree e sc ->
    (forall n st, okr (E n st sc i) -> E n st sc i' = E n st sc i) /\
    (forall n st st1 sc1 v, E n st sc i = (st1, sc1, SVal v) -> agree e' sc1).
Proof. exact (sim_line1 powf pre). Qed.

Theorem recreate_lines_preserved_closures : forall f l e l' e',
  rec_list_def (RC f) l e = Ok (l', e') ->
  forallb (wfi true true) l = true -> forallb dok l' = true ->
  forall sc, agree e sc -> forall n st,
    okl (ex_list_def (E n) l st sc) -> ex_list_def (E n) l' st sc = ex_list_def (E n) l st sc.
Proof. exact (sim_lines1 powf pre). Qed.

Theorem recreate_code_preserved_closures : forall f l e l' e',
  rec_list_def (RC f) l e = Ok (l', e') ->
  forallb (wfi true true) l = true -> forallb dok l' = true ->
  forall sc, agree e sc -> forall n st last,
    okr (run_code powf pre n st sc l last) ->
    run_code powf pre n st sc l' last = run_code powf pre n st sc l last.
Proof. exact (sim_code1 powf pre). Qed.

Theorem parse_top_fold_unobservable_closures : forall red fuel e l is is' e',
  parse_both powf red fuel [] e l = Ok (is, is', e') ->
  forallb (wfi true true) is = true -> forallb dok is' = true ->
  parse_top powf red fuel [] e l = Ok (is', e') /\
  forall sc, agree e sc -> forall n st last,
    okr (run_code powf pre n st sc is last) ->
    run_code powf pre n st sc is' last = run_code powf pre n st sc is last.
Proof. exact (parse_top_fold_unobservable1 powf pre). Qed.

(* --------------------------------------------------------- converse *)
Theorem recreate_expr_converse : forall f e i i' e',
  RC f e i = Ok (i', e') -> wfi true false i = true -> dok i' = true ->
  forall sc, agree e sc -> forall n m st, (n + f <= m)%nat ->
    sig (E n st sc i') <> SFuel -> sig (E m st sc i) = SPanic \/ E m st sc i = E n st sc i'.
Proof. exact (back_expr1 powf pre). Qed.

Theorem recreate_line_converse : forall f e i i' e',
  RC f e i = Ok (i', e') -> wfi true true i = true -> dok i' = true ->
  forall sc, agree e sc -> forall n m st, (n + f <= m)%nat ->
    sig (E n st sc i') <> SFuel -> sig (E m st sc i) = SPanic \/ E m st sc i = E n st sc i'.
Proof. exact (back_line1 powf pre). Qed.

Theorem recreate_code_converse : forall f l e l' e',
  rec_list_def (RC f) l e = Ok (l', e') ->
  forallb (wfi true true) l = true -> forallb dok l' = true ->
  forall sc, agree e sc -> forall n m st last, (n + f <= m)%nat ->
    sig (run_code powf pre n st sc l' last) <> SFuel ->
    sig (run_code powf pre m st sc l last) = SPanic \/
    run_code powf pre m st sc l last = run_code powf pre n st sc l' last.
Proof. exact (back_code1 powf pre). Qed.

(* both directions: r is a finished result of one program iff it is one of the other *)
Theorem fold_equiv_expr : forall f e i i' e',
  RC f e i = Ok (i', e') -> wfi true false i = true -> dok i' = true ->
  forall sc, agree e sc -> forall st,
  (forall m, sig (E m st sc i) <> SPanic) ->
  forall r, finishes (fun n => E n st sc i) r <-> finishes (fun n => E n st sc i') r.
Proof. exact (RecrEquiv.fold_equiv_expr powf pre). Qed.

Theorem fold_equiv_code : forall f l e l' e',
  rec_list_def (RC f) l e = Ok (l', e') ->
  forallb (wfi true true) l = true -> forallb dok l' = true ->
  forall sc, agree e sc -> forall st last,
  (forall m, sig (run_code powf pre m st sc l last) <> SPanic) ->
  forall r, finishes (fun n => run_code powf pre n st sc l last) r <->
            finishes (fun n => run_code powf pre n st sc l' last) r.
Proof. exact (RecrEquiv.fold_equiv_code powf pre). Qed.

Theorem parse_top_fold_equiv : forall red fuel e l is is' e',
  parse_both powf red fuel [] e l = Ok (is, is', e') ->
  forallb (wfi true true) is = true -> forallb dok is' = true ->
  parse_top powf red fuel [] e l = Ok (is', e') /\
  forall sc, agree e sc -> forall st last,
  (forall m, sig (run_code powf pre m st sc is last) <> SPanic) ->
  forall r, finishes (fun n => run_code powf pre n st sc is last) r <->
            finishes (fun n => run_code powf pre n st sc is' last) r.
Proof. exact (RecrEquiv.parse_top_fold_equiv powf pre). Qed.

(* ------------------------------------------------------------ typed *)
(* the hypotheses follow from the typing judgement (all_policy: closures allowed) *)
Theorem typed_line_wfi : forall W0 G K i T G',
  @typed_line all_policy W0 G K i T G' -> wfi true true i = true.
Proof. exact (@RecrTyped.typed_line_wfi all_policy true (fun _ _ _ _ _ _ _ _ => eq_refl)). Qed.

Theorem typed_line_dok : forall W0 G K i T G',
  @typed_line all_policy W0 G K i T G' -> dok i = true.
Proof. exact (@RecrTyped.typed_line_dok all_policy). Qed.

(* a typed line, typed store and scopes: no side condition but fuel *)
Theorem recreate_line_typed : forall W0 W G K i T G' e G2 f i' e',
  @typed_line all_policy W0 G K i T G' -> ext W0 W -> @renv W [] e G G2 ->
  RC f e i = Ok (i', e') ->
  forall st sc, @store_ok all_policy W st -> env_ok W sc G -> agree e sc ->
  forall n,
    (sig (E n st sc i) <> SFuel -> E n st sc i' = E n st sc i) /\
    (sig (E n st sc i') <> SFuel -> E (n + f) st sc i = E n st sc i').
Proof. exact (RecrTyped2.recreate_line_typed powf pre). Qed.

(* END TO END: whatever Code::parse accepts (fragment of the bridge) *)
Theorem checked_fold_unobservable : forall red W fuel l e G is is' e',
  tinv W [] e G -> forallb wf_sline l = true -> forallb blfrag l = true ->
  forallb top_ok l = true ->
  parse_both powf red fuel [] e l = Ok (is, is', e') ->
  parse_top powf red fuel [] e l = Ok (is', e') /\
  forall W1 st sc last, ext W W1 -> @store_ok all_policy W1 st -> env_ok W1 sc G -> agree e sc ->
  forall n,
    (sig (run_code powf pre n st sc is last) <> SFuel ->
     run_code powf pre n st sc is' last = run_code powf pre n st sc is last) /\
    (sig (run_code powf pre n st sc is' last) <> SFuel ->
     run_code powf pre (n + fuel) st sc is last = run_code powf pre n st sc is' last).
Proof. exact (RecrEnd.checked_fold_unobservable powf pre). Qed.

(* ------------------------------------------------ the error clause *)
Theorem recreate_err_site : forall sc f e i x,
  recreate powf f sc e i = Err x -> fold_site powf x.
Proof. exact (recreate_err_site powf). Qed.

Theorem const_site_runtime : forall op a b x ex m st sc,
  foldable op = true \/ op = At -> exec_bin powf op a b = Err x ->
  bin_dispatch powf pre ex m op a b st sc = (st, sc, SError x).
Proof. exact (const_site_runtime powf pre). Qed.

Theorem early_site_runtime : forall op l r x, early_error op l r x ->
  forall n st sc st1 sc1 lv st2 sc2 rv m,
    E n st sc l = (st1, sc1, SVal lv) -> E n st1 sc1 r = (st2, sc2, SVal rv) ->
    sig (bin_dispatch powf pre (E n) m op lv rv st2 sc2) = SError x \/
    sig (bin_dispatch powf pre (E n) m op lv rv st2 sc2) = SPanic.
Proof. exact (early_site_runtime powf pre). Qed.

Theorem neg_len_runtime : forall v n, n < 0 ->
  forall m st sc st1 sc1 x,
    E m st sc v = (st1, sc1, SVal x) ->
    E (S m) st sc (IArrayRepeat v (IVar (VInt n))) = (st1, sc1, SError E_NegativeLength) \/ m = 0%nat.
Proof. exact (neg_len_runtime powf pre). Qed.

End C04b.

(* ------------------------------------------------------- non-vacuity *)
(* RecrExamples.fold_prog:  k := 2 + 3; a := [10, 20, 30]; c := mut 0; i := mut 0;
   while *i < k { c += a[1] * k; i += 1; }; if k > 4 { c += 1; } else { c += 1000; };
   (p, q) := (k - 1, *c); t := (k == 5) && ( *c > 0); p + q *)
Example fold_prog_hyps :
  forallb (wfi false true) unfolded = true /\ forallb dok folded = true /\ agree e0 [[]].
Proof. exact RecrExamples.fold_prog_hyps. Qed.

Example fold_prog_preserved : forall n st last,
  okr (run_code pw0 pre0 n st [[]] unfolded last) ->
  run_code pw0 pre0 n st [[]] folded last = run_code pw0 pre0 n st [[]] unfolded last.
Proof. exact RecrExamples.fold_prog_preserved. Qed.

Example fold_prog_runs :
  run_code pw0 pre0 100 st0 [[]] unfolded VVoid = run_code pw0 pre0 100 st0 [[]] folded VVoid /\
  sig (run_code pw0 pre0 100 st0 [[]] folded VVoid) = SVal (VInt 505) /\
  s_cells (sto (run_code pw0 pre0 100 st0 [[]] folded VVoid)) = [VInt 501; VInt 5] /\
  length (s_log (sto (run_code pw0 pre0 100 st0 [[]] folded VVoid))) = 13%nat.
Proof. exact RecrExamples.fold_prog_runs. Qed.

(* RecrExamples2.clos_prog:  k := 2 + 3; c := mut 0;
   add := (x: int) -> int { return x * k + 1; };
   mk := (d: int) -> (int) -> int { return (u: int) -> int { return u + d * k; }; };
   h := mk(2); c += add(3); c += h(4); *c + k *)
Example clos_prog_hyps :
  forallb (wfi true true) unfolded2 = true /\ forallb dok folded2 = true /\ agree e0 [[]].
Proof. exact RecrExamples2.clos_prog_hyps. Qed.

Example clos_prog_preserved : forall n st last,
  okr (run_code pw0 pre0 n st [[]] unfolded2 last) ->
  run_code pw0 pre0 n st [[]] folded2 last = run_code pw0 pre0 n st [[]] unfolded2 last.
Proof. exact RecrExamples2.clos_prog_preserved. Qed.

Example clos_prog_runs :
  run_code pw0 pre0 100 st0 [[]] unfolded2 VVoid = run_code pw0 pre0 100 st0 [[]] folded2 VVoid /\
  sig (run_code pw0 pre0 100 st0 [[]] folded2 VVoid) = SVal (VInt 35) /\
  s_cells (sto (run_code pw0 pre0 100 st0 [[]] folded2 VVoid)) = [VInt 30].
Proof.
  destruct RecrExamples2.clos_prog_runs as [A [B [C _]]]. repeat split; assumption.
Qed.

(* the end-to-end theorem applied to clos_prog: only "in the fragment" and "parses" are used *)
Example clos_prog_end_to_end : forall n last,
  (sig (run_code pw0 pre0 n st0 [[]] unfolded2 last) <> SFuel ->
   run_code pw0 pre0 n st0 [[]] folded2 last = run_code pw0 pre0 n st0 [[]] unfolded2 last) /\
  (sig (run_code pw0 pre0 n st0 [[]] folded2 last) <> SFuel ->
   run_code pw0 pre0 (n + 100) st0 [[]] unfolded2 last = run_code pw0 pre0 n st0 [[]] folded2 last).
Proof. exact RecrExamples3.clos_prog_end_to_end. Qed.

#!/usr/bin/env python3
"""T8 — the SimpleSL helper programs embedded in the Rust sources (MAP, FILTER, ITER, the
prelude of stdlib/operators.rs) are kept here as surface ASTs (what the model's checker reads).
Each run re-extracts the embedded source texts from /repo and compares them TOKEN BY TOKEN
with the precedence-aware rendering of these ASTs; a difference means the code changed and the
model's helpers no longer correspond (the check reports a broken tie).  Output: the helpers as
S-expressions for the model driver (build/helpers.sx)."""
import os
import re
import sys

HERE = os.path.dirname(os.path.abspath(__file__))
sys.path.insert(0, os.path.dirname(HERE))
from lanes import sast  # noqa: E402
from lanes.sast import V, I, B, S  # noqa: E402

IT_INT = ["fun", [], ["tup", "bool", "int"]]


def it_of(t):
    return ["fun", [], ["tup", "bool", t]]


def fn(params, ret, lines):
    return ["fn", params, ret, lines]


def ret(e):
    return ["stm", ["return", ["expr", e]]]


def call(f, *args):
    return ["call", f] + list(args)


MAP = [["stm", ["expr", fn([["func", IT_INT], ["mapper", ["fun", ["int"], "int"]]], IT_INT, [
    ret(fn([], ["tup", "bool", "int"], [
        ["set", "res", ["expr", call(V("func"))]],
        ["destruct", ["con", "value"], ["expr", V("res")]],
        ["stm", ["if", ["pre", "not", V("con")], ["return", ["expr", V("res")]], None]],
        ret(["tuple", B(True), call(V("mapper"), V("value"))]),
    ]))])]]]

FILTER = [["stm", ["expr", fn([["func", IT_INT], ["predicate", ["fun", ["int"], "bool"]]], IT_INT, [
    ret(fn([], ["tup", "bool", "int"], [
        ["stm", ["loop", ["block",
                          ["set", "res", ["expr", call(V("func"))]],
                          ["destruct", ["con", "value"], ["expr", V("res")]],
                          ["stm", ["if", ["bin", "||", ["pre", "not", V("con")], call(V("predicate"), V("value"))],
                                   ["return", ["expr", V("res")]], None]]]]],
        ret(["tuple", B(False), I(0)]),
    ]))])]]]

ITER = [["stm", ["expr", fn([["array", ["arr", "int"]], ["default", "int"]], IT_INT, [
    ["set", "i", ["expr", ["mut", None, I(-1)]]],
    ["set", "len", ["expr", call(["facc", V("std"), "len"], V("array"))]],
    ret(fn([], ["tup", "bool", "int"], [
        ["stm", ["expr", ["bin", "+=", V("i"), I(1)]]],
        ["stm", ["if", ["bin", "<", ["pre", "deref", V("i")], V("len")],
                 ["block", ret(["tuple", B(True), ["at", V("array"), ["pre", "deref", V("i")]]])], None]],
        ret(["tuple", B(False), V("default")]),
    ]))])]]]


def reducer(elem, init, op):
    return [["stm", ["expr", fn([["iter", it_of(elem)]], elem, [
        ret(["reduce", V("iter"), init,
             fn([["acc", elem], ["curr", elem]], elem, [ret(["bin", op, V("acc"), V("curr")])])])])]]]


def bool_loop(stop_when, result_on_stop, result_at_end):
    cond = V("value") if stop_when else ["pre", "not", V("value")]
    return [["stm", ["expr", fn([["iter", it_of("bool")]], "bool", [
        ["stm", ["loop", ["block",
                          ["destruct", ["con", "value"], ["expr", call(V("iter"))]],
                          ["stm", ["if", ["pre", "not", V("con")], ["block", ["stm", "break"]], None]],
                          ["stm", ["if", cond, ["block", ret(B(result_on_stop))], None]]]]],
        ret(B(result_at_end))])]]]


F0 = ["c", ["f", 0]]
F1 = ["c", ["f", 4607182418800017408]]
HELPERS = {
    "MAP": MAP, "FILTER": FILTER, "ITER": ITER,
    "AND": reducer("int", ["pre", "not", I(0)], "&"),
    "OR": reducer("int", I(0), "|"),
    "ALL": bool_loop(False, False, True),
    "ANY": bool_loop(True, True, False),
    "INT_PRODUCT": reducer("int", I(1), "*"),
    "FLOAT_PRODUCT": reducer("float", F1, "*"),
    "INT_SUM": reducer("int", I(0), "+"),
    "FLOAT_SUM": reducer("float", F0, "+"),
    "STRING_SUM": reducer("string", S(""), "+"),
}

TOK = re.compile(r'"(?:[^"\\]|\\.)*"|[A-Za-z_][A-Za-z0-9_]*|\d+\.\d+|\d+|->|:=|=>|\*\*=|<<=|>>=|\|\||&&|==|!=|<=|>=|<<|>>|\+=|-=|\*=|/=|%=|&=|\|=|\^=|\*\*|\$\]|\$\+|\$\*|\$&&|\$\|\||\$&|\$\||\S')


def tokens(text):
    return [t for t in TOK.findall(text) if t != ";"]


def balanced(text, start):
    """text[start] is '(' of the parameter list: return the function literal up to its closing brace"""
    i = text.index("{", start)
    depth = 0
    while True:
        if text[i] == "{":
            depth += 1
        elif text[i] == "}":
            depth -= 1
            if depth == 0:
                return text[start:i + 1]
        i += 1


def rust_string_after(text, marker):
    i = text.index(marker)
    j = text.index('"', i)
    k = j + 1
    while text[k] != '"' or text[k - 1] == "\\":
        k += 1
    return text[j + 1:k]


def embedded_sources(repo):
    src = {}
    rd = lambda p: open(os.path.join(repo, p)).read()
    src["MAP"] = rust_string_after(rd("src/instruction/bin_op/map.rs"), "static ref MAP")
    src["FILTER"] = rust_string_after(rd("src/instruction/bin_op/filter.rs"), "static ref FILTER")
    src["ITER"] = rust_string_after(rd("src/instruction/unary_operation/iter.rs"), "static ref ITER")
    ops = rd("src/stdlib/operators.rs")
    for name in ("AND", "OR", "ALL", "ANY", "INT_PRODUCT", "FLOAT_PRODUCT", "INT_SUM", "FLOAT_SUM", "STRING_SUM"):
        m = re.search(r"\b" + name + r"\s*:=\s*\(", ops)
        if not m:
            raise SystemExit(f"helpers2coq: {name} not found in stdlib/operators.rs")
        src[name] = balanced(ops, m.end() - 1)
    return src


def main():
    repo, gen = sys.argv[1], sys.argv[2]
    emb = embedded_sources(repo)
    bad = []
    sast.MINIMAL[0] = True
    try:
        for name, ast in HELPERS.items():
            mine = sast.ex(ast[0][1][1])
            if tokens(mine) != tokens(emb[name]):
                bad.append((name, mine, emb[name]))
    finally:
        sast.MINIMAL[0] = False
    if bad:
        for name, mine, theirs in bad:
            print(f"helpers2coq: embedded source of {name} differs from the modelled helper")
            print("  modelled:", " ".join(tokens(mine)))
            print("  code:    ", " ".join(tokens(theirs)))
        sys.exit(1)
    out = os.path.join(os.path.dirname(os.path.dirname(os.path.abspath(gen))), "build", "helpers.sx")
    os.makedirs(os.path.dirname(out), exist_ok=True)
    text = "".join(f"(helper {name} {sast.sx(ast)})\n" for name, ast in HELPERS.items())
    if not os.path.exists(out) or open(out).read() != text:
        open(out, "w").write(text)
    print(f"helpers2coq: {len(HELPERS)} helper sources match the code")


if __name__ == "__main__":
    main()

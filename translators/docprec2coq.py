#!/usr/bin/env python3
"""T2 (C14) — the documented precedence table.

  docprec2coq.py <repo_dir> <gen_dir>      writes <gen_dir>/GenDocPrec.v

Reads the first table of docs/operators.md (section `## Precedence`) and emits exactly what it
says:

    doc_levels : list (N * option dassoc * list (list Z * N))
       one entry per documented level: (the number in the Precedence column,
                                        the Associativity cell of the level's first row — None when blank,
                                        the rows of the level: (operator spelling, op_id))

READING OF THE TABLE (also in docs/README_c14.md)
  * A row with a number in the first column opens a level; rows with an empty first column
    belong to the level opened above.
  * The Associativity cell is read only on the first row of a level (a value on any other row is
    unexpected and makes the translator fail).  A blank cell is emitted as None: how a blank is
    filled (from the nearest level above that has a value) is a definition on the Coq side
    (`PrattLemmas.doc_assoc_of`), not something the translator decides.
  * Markdown escapes are undone in the Operator cell (`\\|` is `|`, `\\\\` is `\\`).
  * Three rows of the current file are malformed markdown and are accepted in exactly this shape
    (and reported): `*=` and `**=` lack the closing cell, and the row of `|=` has an unescaped
    pipe, so that a markdown renderer shows its operator as empty; the translator reads the
    operator of a five-cell row whose second cell is empty and whose third cell is `=` as `|=`.
  * Each documented row is identified with a grammar rule through the explicit table DOC_ROWS
    below, keyed by (spelling, description); the translator CHECKS each entry against the grammar:
    for plain tokens the rule's body must be exactly the documented spelling as one literal; for
    the five structured entries the rule body must be exactly the recorded one.

Exits non-zero with a message on anything unexpected; rewrites the output only when it changed."""
import os
import re
import sys

HERE = os.path.dirname(os.path.abspath(__file__))
sys.path.insert(0, HERE)
import opmap2coq as om  # noqa: E402

# (spelling in the Operator column, Description column) -> grammar rule
DOC_ROWS = {
    ("[]", "Array/string indexing"): "at",
    ("? type", "Array filtering by type"): "type_filter",
    ("()", "Function call"): "function_call",
    ("!", "NOT"): "not",
    ("-", "Unary minus"): "unary_minus",
    ("*", "Indirection"): "indirection",
    ("@", "Map"): "map",
    ("?", "Array filtering"): "filter",
    ("\\", "Array partition"): "partition",
    ("$ expression", "Array reducing"): "reduce",
    ("$+", "Array sum"): "sum",
    ("$*", "Array product"): "product",
    ("$&&", "Logical and reduce(all)"): "all",
    ("$||", "Logical or reduce (any)"): "reduce_any",
    ("$&", "Bitwise and reduce"): "bitand_reduce",
    ("$|", "Bitwise or reduce"): "bitor_reduce",
    ("~", "Iterate"): "iter",
    ("**", "Exponentiation"): "pow",
    ("*", "Multiplication"): "multiply",
    ("/", "Division"): "divide",
    ("%", "Remainder"): "modulo",
    ("+", "Addition"): "add",
    ("-", "Subtraction"): "subtract",
    ("<<", "Bitwise left shift"): "lshift",
    (">>", "Bitwise right shift"): "rshift",
    ("&", "Bitwise AND"): "bitwise_and",
    ("^", "XOR"): "xor",
    ("|", "Bitwise OR"): "bitwise_or",
    ("==", "Equal"): "equal",
    ("!=", "Not equal"): "not_equal",
    ("<", "Less"): "lower",
    ("<=", "Less or equal"): "lower_equal",
    (">", "Greater"): "greater",
    (">=", "Greater or equal"): "greater_equal",
    ("&&", "Short-circuting logical AND"): "and",
    ("||", "Short-circuting logical OR"): "or",
    ("=", "Assignment"): "assign",
    ("+=", "Addition and assignment"): "assign_add",
    ("-=", "Subtraction and assign"): "assign_subtract",
    ("*=", "Multiplication and assignment"): "assing_multiply",
    ("/=", "Division and assignment"): "assign_divide",
    ("%=", "Remainder and assignment"): "assign_modulo",
    ("**=", "Exponentiation and assignment"): "assign_pow",
    ("&=", "Bitwise AND and assignment"): "assign_bitwise_and",
    ("|=", "Bitwise OR and assignment"): "assign_bitwise_or",
    ("^=", "Bitwise XOR and assignment"): "assign_xor",
    ("<<=", "Left shift and assignment"): "assign_lshift",
    (">>=", "Right shift and assignment"): "assign_rshift",
}

# documented spellings that are not the literal text of one token: the grammar body they stand for
STRUCTURED = {
    "[]": '"[" ~ expr ~ "]"',
    "? type": '"?" ~ type',
    "()": '"(" ~ expression_list? ~ ")"',
    "$ expression": '"$" ~ expr',
}

HEADER = ["Precedence", "Operator", "Description", "Associativity"]
ASSOC = {"Left-to-right": "LeftToRight", "Right-to-left": "RightToLeft"}


def split_cells(line):
    """cells of a markdown table row: split on unescaped pipes; returns (cells, closed)"""
    s = line.rstrip("\n")
    if not s.startswith("|"):
        raise om.Unexpected(f"docs/operators.md: table row does not start with '|': {s!r}")
    cells, cur = [], []
    i = 1
    while i < len(s):
        c = s[i]
        if c == "\\" and i + 1 < len(s):
            cur.append(s[i:i + 2])
            i += 2
            continue
        if c == "|":
            cells.append("".join(cur))
            cur = []
        else:
            cur.append(c)
        i += 1
    tail = "".join(cur)
    closed = tail.strip() == ""
    if not closed:
        cells.append(tail)
    return [c.strip() for c in cells], closed


def unescape_md(s):
    return re.sub(r"\\([\\|*_`$<>\[\]()#+\-.!~])", r"\1", s)


def parse_doc(repo, o=None):
    """-> (levels, irregular) ; levels = [{'level': n, 'assoc': 'LeftToRight'|'RightToLeft'|None,
                                            'rows': [(spelling, description, rule)]}]"""
    if o is None:
        o = om.load(repo)
    text = om.read(repo, "docs/operators.md")
    lines = text.split("\n")
    try:
        k = lines.index("## Precedence")
    except ValueError:
        raise om.Unexpected("docs/operators.md: section `## Precedence` not found")
    k += 1
    head, closed = split_cells(lines[k])
    if head != HEADER or not closed:
        raise om.Unexpected(f"docs/operators.md: table header is {head}, expected {HEADER}")
    sep, closed = split_cells(lines[k + 1])
    if len(sep) != 4 or any(not re.fullmatch(r"-+", c) for c in sep):
        raise om.Unexpected(f"docs/operators.md: header separator row is {sep}")
    k += 2
    levels, irregular, seen = [], [], set()
    while k < len(lines) and lines[k].startswith("|"):
        raw = lines[k]
        cells, closed = split_cells(raw)
        if len(cells) == 4 and closed:
            prec, op, desc, assoc = cells
        elif len(cells) == 3 and not closed:
            prec, op, desc = cells
            assoc = ""
            irregular.append(f"row without closing cell: {raw.strip()!r}")
        elif len(cells) == 5 and closed and cells[1] == "" and cells[2] == "=":
            prec, op, desc, assoc = cells[0], "|=", cells[3], cells[4]
            irregular.append(f"unescaped pipe in the operator cell, read as `|=`: {raw.strip()!r}")
        else:
            raise om.Unexpected(f"docs/operators.md: table row of unexpected shape ({len(cells)} cells): {raw!r}")
        op = unescape_md(op)
        desc = unescape_md(desc)
        if prec != "":
            if not re.fullmatch(r"\d+", prec):
                raise om.Unexpected(f"docs/operators.md: precedence cell {prec!r} is not a number")
            n = int(prec)
            if n != len(levels) + 1:
                raise om.Unexpected(f"docs/operators.md: level {n} follows level {len(levels)}")
            if assoc != "" and assoc not in ASSOC:
                raise om.Unexpected(f"docs/operators.md: associativity {assoc!r} not understood")
            levels.append({"level": n, "assoc": ASSOC.get(assoc), "rows": []})
        else:
            if not levels:
                raise om.Unexpected("docs/operators.md: first table row has no precedence number")
            if assoc != "":
                raise om.Unexpected(f"docs/operators.md: associativity {assoc!r} on a continuation row: {raw!r}")
        key = (op, desc)
        if key not in DOC_ROWS:
            raise om.Unexpected(f"docs/operators.md: row {key} is not in the spelling->rule table DOC_ROWS")
        if key in seen:
            raise om.Unexpected(f"docs/operators.md: row {key} appears twice")
        seen.add(key)
        levels[-1]["rows"].append((op, desc, DOC_ROWS[key]))
        k += 1
    missing = set(DOC_ROWS) - seen
    if missing:
        raise om.Unexpected(f"docs/operators.md: rows of DOC_ROWS no longer documented: {sorted(missing)}")
    # check the spelling->rule table against the grammar
    used = {}
    for (sp, desc), rule in DOC_ROWS.items():
        if rule not in o.shape:
            raise om.Unexpected(f"DOC_ROWS: rule {rule} is not an operator token rule of the grammar")
        if rule in used:
            raise om.Unexpected(f"DOC_ROWS: rule {rule} given to both {used[rule]} and {(sp, desc)}")
        used[rule] = (sp, desc)
        lit, simple, body = o.shape[rule]
        if sp in STRUCTURED:
            if body != STRUCTURED[sp]:
                raise om.Unexpected(f"grammar: rule {rule} is {{ {body} }}, the documented `{sp}` expects "
                                    f"{{ {STRUCTURED[sp]} }}")
        else:
            if not simple or lit != sp:
                raise om.Unexpected(f"grammar: rule {rule} is {{ {body} }}, expected the single literal {sp!r} "
                                    f"documented as {desc!r}")
    return levels, irregular


def generate(o, levels, irregular):
    t = om.header("docprec2coq.py", ["docs/operators.md"])
    t += "Inductive dassoc := LeftToRight | RightToLeft.\n\n"
    t += om.emit_names(o)
    if irregular:
        t += "(* malformed markdown rows accepted (see the translator's docstring):\n"
        for s in irregular:
            t += "     " + om.comment_safe(s) + "\n"
        t += "*)\n"
    t += "(* (documented level, Associativity cell of its first row, rows: (spelling, op_id)) — level 1 binds tightest *)\n"
    ents = []
    for lv in levels:
        rows = "; ".join(f"({om.coq_str(sp)}, {o.op_id[r]})" for sp, _, r in lv["rows"])
        a = "None" if lv["assoc"] is None else f"Some {lv['assoc']}"
        ents.append(f"({lv['level']}, {a}, [{rows}])")
    t += "Definition doc_levels : list (N * option dassoc * list (list Z * N)) := " + om.coq_list(ents) + ".\n\n"
    t += "(* the same, readable:\n"
    for lv in levels:
        t += f"   {lv['level']:2d} {str(lv['assoc']):12s} " + om.comment_safe("  ".join(f"{sp} ({r})" for sp, _, r in lv["rows"])) + "\n"
    t += "*)\n"
    return t


def main():
    if len(sys.argv) != 3:
        om.die("docprec2coq", "usage: docprec2coq.py <repo_dir> <gen_dir>")
    repo, gen = sys.argv[1], sys.argv[2]
    try:
        o = om.load(repo)
        levels, irregular = parse_doc(repo, o)
        text = generate(o, levels, irregular)
    except om.Unexpected as e:
        om.die("docprec2coq", str(e))
    ch = om.write_if_changed(os.path.join(gen, "GenDocPrec.v"), text)
    for s in irregular:
        print("docprec2coq: note:", s)
    print(f"docprec2coq: {len(levels)} documented levels, {sum(len(l['rows']) for l in levels)} operators; "
          f"{'rewritten' if ch else 'unchanged'}")


if __name__ == "__main__":
    main()

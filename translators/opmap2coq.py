#!/usr/bin/env python3
"""T3/T4 (C14) — operator dispatch maps and token spellings, regenerated from the sources.

  opmap2coq.py <repo_dir> <gen_dir>      writes <gen_dir>/GenOpMap.v

Reads
  parser/src/simplesl.pest                 the choice rules `bin_op`, `assigns`, `comp`, `prefix_op`,
                                           `postfix_op`, the shapes of `expr` and `atom`, and every
                                           operator token rule (its leading literal and whether the
                                           rule is exactly that literal),
  src/bin_operator.rs                      `impl From<Rule> for BinOperator`,
  src/instruction/bin_op.rs                the `if rule == Rule::X { return ..}` special cases that
                                           `create_infix` handles before `BinOperator::from`,
  src/instruction/unary_operation.rs       the `create_postfix` dispatch,
  src/instruction/prefix_op.rs             the `create_prefix` dispatch.

This module is also the shared loader of the three C14 translators (pratt2coq.py and
docprec2coq.py import it): `load(repo)` returns everything parsed plus the single numbering
`op_id` of operator rules used by GenPratt.v, GenDocPrec.v and GenOpMap.v:
    ids 0..   the flattened alternatives of `bin_op` in grammar order,
    then      the alternatives of `prefix_op`, then those of `postfix_op`,
    then      (sorted) any further rule named by the Pratt chain or a dispatch table
              (none today; a theorem of Props/C14.v fails if one appears).

Anything that does not have exactly the expected shape makes the translator exit non-zero
with a message; outputs are rewritten only when their text changes."""
import os
import re
import sys

# ----------------------------------------------------------------------------------------------
# small utilities


class Unexpected(Exception):
    pass


def die(tool, msg):
    sys.stderr.write(f"{tool}: {msg}\n")
    print(f"{tool}: {msg}")
    sys.exit(1)


def read(repo, rel):
    p = os.path.join(repo, rel)
    if not os.path.exists(p):
        raise Unexpected(f"source file missing: {rel}")
    with open(p, encoding="utf-8") as f:
        return f.read()


def write_if_changed(path, text):
    os.makedirs(os.path.dirname(path), exist_ok=True)
    if os.path.exists(path):
        with open(path, encoding="utf-8") as f:
            if f.read() == text:
                return False
    with open(path, "w", encoding="utf-8") as f:
        f.write(text)
    return True


def coq_str(s):
    """a string as a Coq `list Z` of code points"""
    return "[" + "; ".join(str(ord(c)) for c in s) + "]%Z"


def comment_safe(s):
    """text that can stand inside a Coq comment: no comment brackets, no string quotes"""
    return s.replace("(*", "( *").replace("*)", "* )").replace('"', "'")


def coq_list(items, per_line=1, indent="  "):
    if not items:
        return "[]"
    lines = []
    for i in range(0, len(items), per_line):
        lines.append(indent + "; ".join(items[i:i + per_line]))
    return "[\n" + ";\n".join(lines) + "\n" + indent[:-1] + "]"


# ----------------------------------------------------------------------------------------------
# the pest grammar

RULE_HEAD = re.compile(r"([A-Za-z_][A-Za-z0-9_]*)\s*=\s*([_@$!]?)\s*\{")


def strip_comments(text):
    """remove // comments that are outside string literals"""
    out = []
    i, n = 0, len(text)
    in_str = False
    while i < n:
        c = text[i]
        if in_str:
            out.append(c)
            if c == "\\":
                out.append(text[i + 1])
                i += 2
                continue
            if c == '"':
                in_str = False
            i += 1
            continue
        if c == '"':
            in_str = True
            out.append(c)
            i += 1
            continue
        if c == "/" and text[i:i + 2] == "//":
            while i < n and text[i] != "\n":
                i += 1
            continue
        out.append(c)
        i += 1
    return "".join(out)


def parse_grammar(text):
    """name -> (modifier, body) with the body's white space normalised"""
    text = strip_comments(text)
    rules = {}
    order = []
    i, n = 0, len(text)
    while True:
        while i < n and text[i].isspace():
            i += 1
        if i >= n:
            break
        m = RULE_HEAD.match(text, i)
        if not m:
            raise Unexpected(f"grammar: expected a rule definition at: {text[i:i + 40]!r}")
        name, mod = m.group(1), m.group(2)
        j = m.end()
        depth = 1
        in_str = False
        start = j
        while j < n and depth > 0:
            c = text[j]
            if in_str:
                if c == "\\":
                    j += 2
                    continue
                if c == '"':
                    in_str = False
            elif c == '"':
                in_str = True
            elif c == "'":            # character literal 'a'
                j += 2
                if text[j] != "'":
                    raise Unexpected(f"grammar: odd character literal in rule {name}")
            elif c == "{":
                depth += 1
            elif c == "}":
                depth -= 1
            j += 1
        if depth != 0:
            raise Unexpected(f"grammar: unbalanced braces in rule {name}")
        body = " ".join(text[start:j - 1].split())
        if name in rules:
            raise Unexpected(f"grammar: rule {name} defined twice")
        rules[name] = (mod, body)
        order.append(name)
        i = j
    return rules, order


def split_top(body, sep):
    """split on `sep` outside string literals and parentheses"""
    parts, cur = [], []
    depth, in_str = 0, False
    i = 0
    while i < len(body):
        c = body[i]
        if in_str:
            cur.append(c)
            if c == "\\":
                cur.append(body[i + 1])
                i += 2
                continue
            if c == '"':
                in_str = False
        elif c == '"':
            in_str = True
            cur.append(c)
        elif c in "([{":
            depth += 1
            cur.append(c)
        elif c in ")]}":
            depth -= 1
            cur.append(c)
        elif c == sep and depth == 0:
            parts.append("".join(cur).strip())
            cur = []
        else:
            cur.append(c)
        i += 1
    parts.append("".join(cur).strip())
    return parts


IDENT = re.compile(r"^[A-Za-z_][A-Za-z0-9_]*$")
STRLIT = re.compile(r'^"((?:[^"\\]|\\.)*)"$')


def unescape_pest(s):
    out = []
    i = 0
    while i < len(s):
        if s[i] == "\\":
            nxt = s[i + 1]
            if nxt in '"\\':
                out.append(nxt)
            elif nxt == "n":
                out.append("\n")
            elif nxt == "t":
                out.append("\t")
            else:
                raise Unexpected(f"grammar: unsupported escape \\{nxt} in an operator literal")
            i += 2
        else:
            out.append(s[i])
            i += 1
    return "".join(out)


def choice(rules, name, silent_expected=True):
    if name not in rules:
        raise Unexpected(f"grammar: rule {name} not found")
    mod, body = rules[name]
    if silent_expected and mod != "_":
        raise Unexpected(f"grammar: choice rule {name} is expected to be silent (_), found modifier {mod!r}")
    alts = split_top(body, "|")
    for a in alts:
        if not IDENT.match(a):
            raise Unexpected(f"grammar: alternative {a!r} of {name} is not a plain rule name")
    return alts


def flatten(rules, name, seen=()):
    """alternatives of a choice rule, silent choice sub-rules expanded in place"""
    out = []
    for a in choice(rules, name):
        if a in seen:
            raise Unexpected(f"grammar: recursive choice {a}")
        if a not in rules:
            raise Unexpected(f"grammar: rule {a} (alternative of {name}) not defined")
        mod, body = rules[a]
        if mod == "_" and all(IDENT.match(x) for x in split_top(body, "|")) and "~" not in body:
            out.extend(flatten(rules, a, seen + (name,)))
        else:
            out.append(a)
    return out


def token_shape(rules, name):
    """(leading literal, is the rule exactly this literal, normalised body)"""
    mod, body = rules[name]
    if mod != "":
        raise Unexpected(f"grammar: operator token rule {name} has modifier {mod!r}; expected a normal rule")
    if len(split_top(body, "|")) != 1:
        raise Unexpected(f"grammar: operator token rule {name} is a choice: {body}")
    seq = split_top(body, "~")
    m = STRLIT.match(seq[0])
    if not m:
        raise Unexpected(f"grammar: operator token rule {name} does not start with a literal: {body}")
    return unescape_pest(m.group(1)), len(seq) == 1, body


EXPECT_EXPR = "(atom ~ (bin_op ~ atom)*)"
EXPECT_ATOM = "prefix_op? ~ primary ~ postfix_op*"


# ----------------------------------------------------------------------------------------------
# Rust sources


def find_block(text, start, open_ch="{", close_ch="}"):
    """text[start] == open_ch; returns index just after the matching close (string/char aware enough
    for the files read here: they contain no braces inside literals at these places)"""
    assert text[start] == open_ch
    depth = 0
    i = start
    in_str = False
    while i < len(text):
        c = text[i]
        if in_str:
            if c == "\\":
                i += 2
                continue
            if c == '"':
                in_str = False
        elif c == '"':
            in_str = True
        elif c == open_ch:
            depth += 1
        elif c == close_ch:
            depth -= 1
            if depth == 0:
                return i + 1
        i += 1
    raise Unexpected("unbalanced block")


def split_arms(block):
    """split the inside of a `match {...}` on top-level commas"""
    arms, cur = [], []
    depth = 0
    for c in block:
        if c in "([{":
            depth += 1
        elif c in ")]}":
            depth -= 1
        if c == "," and depth == 0:
            arms.append("".join(cur).strip())
            cur = []
        else:
            cur.append(c)
        # a `{..}` arm body at depth 0 ends the arm even without a comma
        if c == "}" and depth == 0:
            arms.append("".join(cur).strip())
            cur = []
    last = "".join(cur).strip()
    if last:
        arms.append(last)
    return [a for a in arms if a]


def parse_from_rule(text):
    m = re.search(r"impl\s+From<Rule>\s+for\s+BinOperator\s*\{", text)
    if not m:
        raise Unexpected("bin_operator.rs: `impl From<Rule> for BinOperator` not found")
    end = find_block(text, m.end() - 1)
    impl = text[m.end():end - 1]
    mm = re.search(r"fn\s+from\s*\(\s*value\s*:\s*Rule\s*\)\s*->\s*Self\s*\{\s*match\s+value\s*\{", impl)
    if not mm:
        raise Unexpected("bin_operator.rs: `fn from(value: Rule) -> Self { match value {` not found")
    mend = find_block(impl, mm.end() - 1)
    arms = split_arms(impl[mm.end():mend - 1])
    out = []
    default = None
    for a in arms:
        am = re.fullmatch(r"Rule::([A-Za-z_0-9]+)\s*=>\s*Self::([A-Za-z_0-9]+)", a)
        if am:
            if default is not None:
                raise Unexpected("bin_operator.rs: arm after the default arm")
            out.append((am.group(1), am.group(2)))
            continue
        if re.fullmatch(r"_\s*=>\s*unreachable!\(\)", a):
            default = a
            continue
        raise Unexpected(f"bin_operator.rs: unexpected match arm {a!r}")
    if default is None:
        raise Unexpected("bin_operator.rs: the `_ => unreachable!()` arm is missing")
    return out


def parse_dispatch(text, fn_name, tool_file):
    m = re.search(r"pub\s+fn\s+" + fn_name + r"\s*\(", text)
    if not m:
        raise Unexpected(f"{tool_file}: fn {fn_name} not found")
    mm = re.compile(r"let\s+instruction\s*=\s*match\s+op\.as_rule\(\)\s*\{").search(text, m.end())
    if not mm:
        raise Unexpected(f"{tool_file}: `let instruction = match op.as_rule() {{` not found in {fn_name}")
    end = find_block(text, mm.end() - 1)
    arms = split_arms(text[mm.end():end - 1])
    out = []
    default = None
    for a in arms:
        am = re.fullmatch(r"Rule::([A-Za-z_0-9]+)\s*=>\s*(.+)", a, re.S)
        if am:
            if default is not None:
                raise Unexpected(f"{tool_file}: arm after the default arm in {fn_name}")
            rhs = " ".join(am.group(2).split())
            out.append((am.group(1), rhs))
            continue
        if re.fullmatch(r"rule\s*=>\s*unexpected!\(rule\)", a):
            default = a
            continue
        raise Unexpected(f"{tool_file}: unexpected match arm in {fn_name}: {a!r}")
    if default is None:
        raise Unexpected(f"{tool_file}: the `rule => unexpected!(rule)` arm of {fn_name} is missing")
    return out


def parse_infix_special(text):
    m = re.search(r"pub\s+fn\s+create_infix\s*\(", text)
    if not m:
        raise Unexpected("bin_op.rs: fn create_infix not found")
    b = text.index("{", text.index("->", m.end()))
    end = find_block(text, b)
    body = text[b:end]
    if not re.search(r"let\s+rule\s*=\s*op\.as_rule\(\)\s*;", body):
        raise Unexpected("bin_op.rs: `let rule = op.as_rule();` not found in create_infix")
    fm = re.search(r"let\s+op\s*=\s*BinOperator::from\(rule\)\s*;", body)
    if not fm:
        raise Unexpected("bin_op.rs: `let op = BinOperator::from(rule);` not found in create_infix")
    specials = []
    for sm in re.finditer(r"if\s+rule\s*==\s*Rule::([A-Za-z_0-9]+)\s*\{\s*return\b", body):
        if sm.start() > fm.start():
            raise Unexpected("bin_op.rs: a rule special case after BinOperator::from(rule)")
        specials.append(sm.group(1))
    if len(re.findall(r"\bRule::", body[:fm.start()])) != len(specials):
        raise Unexpected("bin_op.rs: create_infix mentions Rule:: in a form the translator does not know")
    return specials


PRATT_OP = re.compile(r"Op::(infix)\(\s*([A-Za-z_0-9]+)\s*,\s*(Left|Right)\s*\)|Op::(prefix|postfix)\(\s*([A-Za-z_0-9]+)\s*\)")


def parse_pratt_chain(text):
    if not re.search(r"use\s+pest::pratt_parser::\{\s*Assoc::\{\s*Left\s*,\s*Right\s*\}\s*,\s*Op\s*\}\s*;", text):
        raise Unexpected("parser/src/lib.rs: `use pest::pratt_parser::{Assoc::{Left, Right}, Op};` not found")
    if not re.search(r"use\s+Rule::\*\s*;", text):
        raise Unexpected("parser/src/lib.rs: `use Rule::*;` not found")
    m = re.search(r"PrattParser::new\(\)", text)
    if not m:
        raise Unexpected("parser/src/lib.rs: PrattParser::new() not found")
    if len(re.findall(r"PrattParser::new\(\)", text)) != 1:
        raise Unexpected("parser/src/lib.rs: more than one PrattParser::new()")
    i = m.end()
    levels = []
    while True:
        mm = re.compile(r"\s*\.op\(").match(text, i)
        if not mm:
            break
        close = find_block(text, mm.end() - 1, "(", ")")
        inner = text[mm.end():close - 1]
        ops = []
        for piece in split_top(" ".join(inner.split()), "|"):
            pm = PRATT_OP.fullmatch(piece)
            if not pm:
                raise Unexpected(f"parser/src/lib.rs: unexpected operand of .op(): {piece!r}")
            if pm.group(1):
                ops.append((pm.group(2), "InfixL" if pm.group(3) == "Left" else "InfixR"))
            else:
                ops.append((pm.group(5), "Prefix" if pm.group(4) == "prefix" else "Postfix"))
        levels.append(ops)
        i = close
    tail = text[i:].lstrip()
    if not tail.startswith("}"):
        raise Unexpected(f"parser/src/lib.rs: unexpected continuation of the PrattParser chain: {tail[:40]!r}")
    if not levels:
        raise Unexpected("parser/src/lib.rs: no .op() call found")
    return levels


def check_wiring(text):
    """src/instruction.rs must hand the four roles to the four create_* functions"""
    want = [r"PRATT_PARSER\s*\.map_primary\(\|pair\|\s*Self::create_primary\(pair,\s*local_variables\)\)",
            r"\.map_prefix\(\|op,\s*rhs\|\s*Self::create_prefix\(op,\s*rhs\?\)\)",
            r"\.map_infix\(\|lhs,\s*op,\s*rhs\|\s*Self::create_infix\(op,\s*lhs\?,\s*rhs\?,\s*local_variables\)\)",
            r"\.map_postfix\(\|lhs,\s*op\|\s*Self::create_postfix\(op,\s*lhs\?,\s*local_variables\)\)",
            r"\.parse\(pair\.into_inner\(\)\)"]
    pos = 0
    for w in want:
        m = re.compile(w).search(text, pos)
        if not m:
            raise Unexpected(f"src/instruction.rs: expected `{w}` in new_expression")
        pos = m.end()


# ----------------------------------------------------------------------------------------------
# everything together


class Ops:
    pass


def load(repo):
    o = Ops()
    rules, _ = parse_grammar(read(repo, "parser/src/simplesl.pest"))
    o.rules = rules
    if rules.get("expr", (None, None)) != ("", EXPECT_EXPR):
        raise Unexpected(f"grammar: rule expr is {rules.get('expr')}, expected {EXPECT_EXPR!r}")
    if rules.get("atom", (None, None)) != ("_", EXPECT_ATOM):
        raise Unexpected(f"grammar: rule atom is {rules.get('atom')}, expected _{{ {EXPECT_ATOM} }}")
    o.bin_alts = flatten(rules, "bin_op")
    o.prefix_alts = flatten(rules, "prefix_op")
    o.postfix_alts = flatten(rules, "postfix_op")
    o.assigns_alts = flatten(rules, "assigns")
    o.comp_alts = flatten(rules, "comp")
    for sub in ("assigns", "comp"):
        if sub not in choice(rules, "bin_op"):
            raise Unexpected(f"grammar: {sub} is no longer an alternative of bin_op")
    for lst, nm in ((o.bin_alts, "bin_op"), (o.prefix_alts, "prefix_op"), (o.postfix_alts, "postfix_op")):
        if len(set(lst)) != len(lst):
            raise Unexpected(f"grammar: {nm} lists an alternative twice")
    both = (set(o.bin_alts) & set(o.prefix_alts)) | (set(o.bin_alts) & set(o.postfix_alts)) | \
           (set(o.prefix_alts) & set(o.postfix_alts))
    if both:
        raise Unexpected(f"grammar: rules used in two operator positions: {sorted(both)}")
    o.shape = {r: token_shape(rules, r) for r in o.bin_alts + o.prefix_alts + o.postfix_alts}

    o.pratt = parse_pratt_chain(read(repo, "parser/src/lib.rs"))
    o.from_rule = parse_from_rule(read(repo, "src/bin_operator.rs"))
    o.infix_special = parse_infix_special(read(repo, "src/instruction/bin_op.rs"))
    o.postfix_map = parse_dispatch(read(repo, "src/instruction/unary_operation.rs"), "create_postfix",
                                   "unary_operation.rs")
    o.prefix_map = parse_dispatch(read(repo, "src/instruction/prefix_op.rs"), "create_prefix", "prefix_op.rs")
    check_wiring(read(repo, "src/instruction.rs"))

    names = list(o.bin_alts) + list(o.prefix_alts) + list(o.postfix_alts)
    extra = set()
    for lv in o.pratt:
        extra.update(r for r, _ in lv)
    extra.update(r for r, _ in o.from_rule)
    extra.update(o.infix_special)
    extra.update(r for r, _ in o.postfix_map)
    extra.update(r for r, _ in o.prefix_map)
    names += sorted(extra - set(names))
    o.names = names
    o.op_id = {n: i for i, n in enumerate(names)}
    return o


def header(tool, sources):
    return ("(* GENERATED by translators/%s from %s — do not edit; regenerated by every check run. *)\n"
            "From Coq Require Import List ZArith NArith.\nImport ListNotations.\nLocal Open Scope N_scope.\n\n"
            % (tool, ", ".join(sources)))


def emit_names(o):
    items = [f"({o.op_id[n]}, {coq_str(n)})" for n in o.names]
    return ("(* the shared numbering of operator rules (see opmap2coq.py) *)\n"
            "Definition op_names : list (N * list Z) := " + coq_list(items) + ".\n\n")


def idl(o, names, per_line=12):
    return coq_list([str(o.op_id[n]) for n in names], per_line)


def generate(o):
    t = header("opmap2coq.py", ["parser/src/simplesl.pest", "src/bin_operator.rs", "src/instruction/bin_op.rs",
                                "src/instruction/unary_operation.rs", "src/instruction/prefix_op.rs"])
    t += emit_names(o)
    for n in o.names:
        t += f"Definition r_{n} : N := {o.op_id[n]}.\n"
    t += "\n(* alternatives of the grammar's choice rules, flattened, in the order pest tries them *)\n"
    t += "Definition bin_alts : list N := " + idl(o, o.bin_alts) + ".\n"
    t += "Definition prefix_alts : list N := " + idl(o, o.prefix_alts) + ".\n"
    t += "Definition postfix_alts : list N := " + idl(o, o.postfix_alts) + ".\n"
    t += "(* the sub-choices `assigns` and `comp` of bin_op *)\n"
    t += "Definition assigns_alts : list N := " + idl(o, o.assigns_alts) + ".\n"
    t += "Definition comp_alts : list N := " + idl(o, o.comp_alts) + ".\n\n"
    t += ("(* expr = { %s } and atom = _{ %s } (checked by the translator): after an operand pest\n"
          "   first tries every postfix_op alternative, then every bin_op alternative; at the start of an\n"
          "   operand it tries the prefix_op alternatives. *)\n" % (comment_safe(EXPECT_EXPR), comment_safe(EXPECT_ATOM)))
    t += "Definition after_operand_alts : list N := postfix_alts ++ bin_alts.\n"
    t += "Definition operand_start_alts : list N := prefix_alts.\n\n"
    t += "(* each token rule: (rule, (leading literal, rule is exactly this literal)) *)\n"
    lits = [f"({o.op_id[r]}, ({coq_str(o.shape[r][0])}, {'true' if o.shape[r][1] else 'false'}))"
            for r in o.bin_alts + o.prefix_alts + o.postfix_alts]
    t += "Definition op_lit : list (N * (list Z * bool)) := " + coq_list(lits) + ".\n\n"
    t += "(* token rules that are more than one literal, with their grammar bodies:\n"
    for r in o.bin_alts + o.prefix_alts + o.postfix_alts:
        if not o.shape[r][1]:
            t += comment_safe(f"     {r} = {{ {o.shape[r][2]} }}") + "\n"
    t += "*)\n\n"
    t += "(* impl From<Rule> for BinOperator: (rule, constructor name) in source order *)\n"
    t += "Definition binop_map : list (N * list Z) := " + \
         coq_list([f"({o.op_id[r]}, {coq_str(c)})" for r, c in o.from_rule]) + ".\n\n"
    t += "(* rules create_infix handles itself before calling BinOperator::from *)\n"
    t += "Definition infix_special : list N := " + idl(o, o.infix_special) + ".\n\n"
    t += "(* create_postfix / create_prefix: (rule, the arm's expression text) in source order *)\n"
    t += "Definition postfix_map : list (N * list Z) := " + \
         coq_list([f"({o.op_id[r]}, {coq_str(c)})" for r, c in o.postfix_map]) + ".\n\n"
    t += "Definition prefix_map : list (N * list Z) := " + \
         coq_list([f"({o.op_id[r]}, {coq_str(c)})" for r, c in o.prefix_map]) + ".\n"
    return t


def main():
    if len(sys.argv) != 3:
        die("opmap2coq", "usage: opmap2coq.py <repo_dir> <gen_dir>")
    repo, gen = sys.argv[1], sys.argv[2]
    try:
        o = load(repo)
        text = generate(o)
    except Unexpected as e:
        die("opmap2coq", str(e))
    ch = write_if_changed(os.path.join(gen, "GenOpMap.v"), text)
    print(f"opmap2coq: {len(o.bin_alts)} binary, {len(o.prefix_alts)} prefix, {len(o.postfix_alts)} postfix token rules; "
          f"{len(o.from_rule)} From<Rule> arms, {len(o.infix_special)} special; "
          f"{'rewritten' if ch else 'unchanged'}")


if __name__ == "__main__":
    main()

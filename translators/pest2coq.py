#!/usr/bin/env python3
"""pest2coq.py <repo_dir> <gen_dir>

Translator T1: reads the WHOLE pest grammar <repo_dir>/parser/src/simplesl.pest and
writes <gen_dir>/GenGrammar.v — plain data for coq/Model/Peg.v:

    R_<name> : N                       one constant per rule (numbered by position)
    R_EOI    : N                       = number of rules (the token pest emits for EOI)
    grammar_rules : list (N * (modifier * peg))
    rule_names    : list (N * list Z)  names as code points (incl. EOI)
    grammar       : peg_grammar        rules + which rules are WHITESPACE / COMMENT

The data is the SOURCE grammar (sequence / choice are right-nested, which is what
pest_meta's `rotater` produces and is semantically neutral).  `e+` is kept as `PPlus e`;
its meaning (pest_meta unrolls it to `e ~ e*` when the `grammar-extras` feature is off,
which is the case for this build) lives in Peg.v.  `e{n}`, `e{n,}`, `e{,m}`, `e{n,m}` are
unrolled exactly as pest_meta's `unroller` does.

pest_meta optimizer passes that could change the meaning of a grammar are CHECKED, not
mirrored: if `skipper` (atomic rule containing `(!("a"|"b"|..) ~ ANY)*`) or `lister`
(`(a ~ b)* ~ a`) would fire, the script stops with an error, because the generated
parser would then not be the plain reading of the grammar.  `rotater`, `concatenator`
and `factorizer` preserve acceptance and tokens and are ignored.

Anything outside the supported subset (PUSH/PEEK/POP/DROP, unicode property built-ins,
node tags, undefined rules, duplicate rules, bad escapes) => exit status 1 and a message.
Python 3 standard library only.  Output is deterministic and rewritten only on change.
"""
import os
import sys

GRAMMAR_REL = os.path.join("parser", "src", "simplesl.pest")

BUILTINS = {
    "ANY": "B_ANY", "SOI": "B_SOI", "EOI": "B_EOI", "NEWLINE": "B_NEWLINE",
    "ASCII_DIGIT": "B_ASCII_DIGIT", "ASCII_NONZERO_DIGIT": "B_ASCII_NONZERO_DIGIT",
    "ASCII_BIN_DIGIT": "B_ASCII_BIN_DIGIT", "ASCII_OCT_DIGIT": "B_ASCII_OCT_DIGIT",
    "ASCII_HEX_DIGIT": "B_ASCII_HEX_DIGIT", "ASCII_ALPHA_LOWER": "B_ASCII_ALPHA_LOWER",
    "ASCII_ALPHA_UPPER": "B_ASCII_ALPHA_UPPER", "ASCII_ALPHA": "B_ASCII_ALPHA",
    "ASCII_ALPHANUMERIC": "B_ASCII_ALPHANUMERIC", "ASCII": "B_ASCII",
}
STACK_BUILTINS = {"PUSH", "PEEK", "PEEK_ALL", "POP", "POP_ALL", "DROP"}
MODIFIERS = {"": "Normal", "_": "Silent", "@": "Atomic", "$": "CompoundAtomic", "!": "NonAtomic"}


class Unsupported(Exception):
    pass


def die(msg):
    sys.stderr.write("pest2coq: " + msg + "\n")
    sys.exit(1)


# ----------------------------------------------------------------------------- lexer

def is_alpha(c):
    return ("a" <= c <= "z") or ("A" <= c <= "Z")


def is_alnum(c):
    return is_alpha(c) or ("0" <= c <= "9")


HEX = "0123456789abcdefABCDEF"


class Lexer:
    """Tokens: (kind, value, line).  kinds: ident, string, insens, char, num, punct, eof."""

    def __init__(self, src):
        self.s = src
        self.i = 0
        self.line = 1
        self.toks = []
        self.run()

    def err(self, msg):
        raise Unsupported(f"line {self.line}: {msg}")

    def skip_ws(self):
        s = self.s
        while self.i < len(s):
            c = s[self.i]
            if c == "\n":
                self.line += 1
                self.i += 1
            elif c in " \t\r":
                self.i += 1
            elif s.startswith("//", self.i):
                # line comments, and the doc comments `///` `//!` (no semantic content)
                while self.i < len(s) and s[self.i] != "\n":
                    self.i += 1
            elif s.startswith("/*", self.i):
                depth = 0
                while True:
                    if self.i >= len(s):
                        self.err("unterminated block comment")
                    if s.startswith("/*", self.i):
                        depth += 1
                        self.i += 2
                    elif s.startswith("*/", self.i):
                        depth -= 1
                        self.i += 2
                        if depth == 0:
                            break
                    else:
                        if s[self.i] == "\n":
                            self.line += 1
                        self.i += 1
            else:
                return

    def escape(self):
        """self.i is just after a backslash; returns one code point."""
        s = self.s
        if self.i >= len(s):
            self.err("dangling backslash")
        c = s[self.i]
        self.i += 1
        simple = {'"': 34, "\\": 92, "r": 13, "n": 10, "t": 9, "0": 0, "'": 39}
        if c in simple:
            return simple[c]
        if c == "x":
            h = s[self.i:self.i + 2]
            if len(h) != 2 or any(ch not in HEX for ch in h):
                self.err("bad \\x escape")
            self.i += 2
            return int(h, 16)
        if c == "u":
            if not s.startswith("{", self.i):
                self.err("bad \\u escape")
            j = s.find("}", self.i)
            h = s[self.i + 1:j] if j >= 0 else ""
            if not (2 <= len(h) <= 6) or any(ch not in HEX for ch in h):
                self.err("bad \\u escape")
            v = int(h, 16)
            if v > 0x10FFFF or 0xD800 <= v <= 0xDFFF:
                self.err("\\u escape is not a Unicode scalar value")
            self.i = j + 1
            return v
        self.err(f"unknown escape \\{c}")

    def string(self):
        """self.i at the opening quote; returns list of code points."""
        s = self.s
        assert s[self.i] == '"'
        self.i += 1
        out = []
        while True:
            if self.i >= len(s):
                self.err("unterminated string literal")
            c = s[self.i]
            if c == '"':
                self.i += 1
                return out
            if c == "\\":
                self.i += 1
                out.append(self.escape())
            else:
                if c == "\n":
                    self.line += 1
                out.append(ord(c))
                self.i += 1

    def run(self):
        s = self.s
        while True:
            self.skip_ws()
            if self.i >= len(s):
                self.toks.append(("eof", None, self.line))
                return
            c = s[self.i]
            ln = self.line
            if c == "_" or is_alpha(c):
                j = self.i
                while j < len(s) and (s[j] == "_" or is_alnum(s[j])):
                    j += 1
                word = s[self.i:j]
                # a lone "_" directly before "{" is the silent modifier, handled by the parser:
                # pest's own grammar reads `identifier` first, so "_" alone IS an identifier
                # there too, except in modifier position.
                self.toks.append(("ident", word, ln))
                self.i = j
            elif c == '"':
                self.toks.append(("string", self.string(), ln))
            elif c == "^":
                self.i += 1
                self.skip_ws()
                if self.i >= len(s) or s[self.i] != '"':
                    self.err('expected a string after "^"')
                self.toks.append(("insens", self.string(), ln))
            elif c == "'":
                self.i += 1
                if self.i >= len(s):
                    self.err("unterminated character literal")
                if s[self.i] == "\\":
                    self.i += 1
                    v = self.escape()
                else:
                    v = ord(s[self.i])
                    self.i += 1
                if self.i >= len(s) or s[self.i] != "'":
                    self.err("unterminated character literal")
                self.i += 1
                self.toks.append(("char", v, ln))
            elif "0" <= c <= "9":
                j = self.i
                while j < len(s) and "0" <= s[j] <= "9":
                    j += 1
                self.toks.append(("num", int(s[self.i:j]), ln))
                self.i = j
            elif s.startswith("..", self.i):
                self.toks.append(("punct", "..", ln))
                self.i += 2
            elif c in "={}()[]~|*+?!&@$,#-":
                self.toks.append(("punct", c, ln))
                self.i += 1
            else:
                self.err(f"unexpected character {c!r}")


# ----------------------------------------------------------------------------- parser
# AST: ("str", [cp]) ("insens", [cp]) ("range", lo, hi) ("ident", name)
#      ("seq", a, b) ("choice", a, b) ("opt", e) ("rep", e) ("plus", e)
#      ("rep_exact", e, n) ("rep_min", e, n) ("rep_max", e, n) ("rep_min_max", e, n, m)
#      ("not", e) ("and", e)

class Parser:
    def __init__(self, toks):
        self.t = toks
        self.i = 0

    def peek(self, k=0):
        return self.t[min(self.i + k, len(self.t) - 1)]

    def next(self):
        tok = self.t[self.i]
        if tok[0] != "eof":
            self.i += 1
        return tok

    def err(self, msg, tok=None):
        tok = tok or self.peek()
        raise Unsupported(f"line {tok[2]}: {msg} (at {tok[0]} {tok[1]!r})")

    def is_p(self, v, k=0):
        tok = self.peek(k)
        return tok[0] == "punct" and tok[1] == v

    def expect_p(self, v):
        if not self.is_p(v):
            self.err(f"expected {v!r}")
        return self.next()

    def grammar(self):
        rules = []
        while self.peek()[0] != "eof":
            rules.append(self.rule())
        return rules

    def rule(self):
        tok = self.next()
        if tok[0] != "ident":
            self.err("expected a rule name", tok)
        name = tok[1]
        self.expect_p("=")
        mod = ""
        if self.is_p("{"):
            pass
        elif self.peek()[0] == "ident" and self.peek()[1] == "_" and self.is_p("{", 1):
            mod = "_"
            self.next()
        elif self.peek()[0] == "punct" and self.peek()[1] in "@$!" and self.is_p("{", 1):
            mod = self.next()[1]
        else:
            self.err("expected a rule modifier or '{'")
        self.expect_p("{")
        e = self.expression()
        self.expect_p("}")
        return (name, mod, e, tok[2])

    def expression(self):
        # expression = choice_operator? term (infix term)*   ;  `~` binds tighter than `|`,
        # both left-associative in pest_meta; we build right-nested trees (= after `rotater`).
        if self.is_p("|"):
            self.next()
        alts = [self.sequence()]
        while self.is_p("|"):
            self.next()
            alts.append(self.sequence())
        return self.right_nest("choice", alts)

    def sequence(self):
        items = [self.term()]
        while self.is_p("~"):
            self.next()
            items.append(self.term())
        return self.right_nest("seq", items)

    @staticmethod
    def right_nest(kind, items):
        # flatten nested nodes of the same kind that sit in LEFT position after a
        # left-assoc parse + rotation; a parenthesised group on the left is flattened by
        # pest_meta's rotater as well, on the right it stays nested: both are the same
        # right-nested chain.
        flat = []
        for it in items:
            flat.append(it)
        e = flat[-1]
        for it in reversed(flat[:-1]):
            if it[0] == kind:
                # rotater: Seq(Seq(a,b),c) -> Seq(a,Seq(b,c))
                parts = []
                cur = it
                while cur[0] == kind:
                    parts.append(cur[1])
                    cur = cur[2]
                parts.append(cur)
                for p in reversed(parts):
                    e = (kind, p, e)
            else:
                e = (kind, it, e)
        return e

    def term(self):
        if self.is_p("#"):
            self.err("node tags (#tag = ...) are not supported")
        prefixes = []
        while self.is_p("!") or self.is_p("&"):
            prefixes.append(self.next()[1])
        e = self.node()
        while True:
            if self.is_p("?"):
                self.next()
                e = ("opt", e)
            elif self.is_p("*"):
                self.next()
                e = ("rep", e)
            elif self.is_p("+"):
                self.next()
                e = ("plus", e)
            elif self.is_p("{"):
                e = self.braces(e)
            else:
                break
        for p in reversed(prefixes):
            e = ("not", e) if p == "!" else ("and", e)
        return e

    def braces(self, e):
        self.expect_p("{")
        lo = hi = None
        if self.peek()[0] == "num":
            lo = self.next()[1]
        comma = False
        if self.is_p(","):
            self.next()
            comma = True
            if self.peek()[0] == "num":
                hi = self.next()[1]
        tok = self.expect_p("}")
        if lo is not None and not comma:
            if lo == 0:
                self.err("cannot repeat 0 times", tok)
            return ("rep_exact", e, lo)
        if lo is not None and hi is None:
            return ("rep_min", e, lo)
        if lo is None and hi is not None:
            if hi == 0:
                self.err("cannot repeat 0 times", tok)
            return ("rep_max", e, hi)
        if lo is not None and hi is not None:
            if hi == 0:
                self.err("cannot repeat 0 times", tok)
            return ("rep_min_max", e, lo, hi)
        self.err("bad repetition braces", tok)

    def node(self):
        tok = self.next()
        if tok[0] == "punct" and tok[1] == "(":
            e = self.expression()
            self.expect_p(")")
            return e
        if tok[0] == "string":
            return ("str", tok[1])
        if tok[0] == "insens":
            return ("insens", tok[1])
        if tok[0] == "char":
            self.expect_p("..")
            hi = self.next()
            if hi[0] != "char":
                self.err("expected a character after '..'", hi)
            return ("range", tok[1], hi[1])
        if tok[0] == "ident":
            if tok[1] in ("PUSH", "PEEK") and (self.is_p("(") or self.is_p("[")):
                self.err(f"{tok[1]} (the pest stack) is not supported", tok)
            return ("ident", tok[1])
        self.err("expected a term", tok)


# ----------------------------------------------------------------------------- passes

def map_bottom_up(e, f):
    k = e[0]
    if k in ("seq", "choice"):
        e = (k, map_bottom_up(e[1], f), map_bottom_up(e[2], f))
    elif k in ("opt", "rep", "plus", "not", "and"):
        e = (k, map_bottom_up(e[1], f))
    elif k in ("rep_exact", "rep_min", "rep_max", "rep_min_max"):
        e = (k, map_bottom_up(e[1], f)) + tuple(e[2:])
    return f(e)


def chain(items):
    e = items[-1]
    for it in reversed(items[:-1]):
        e = ("seq", it, e)
    return e


def unroll(e):
    """pest_meta::optimizer::unroller for the brace forms (RepOnce is kept: see Peg.v)."""
    def f(e):
        k = e[0]
        if k == "rep_exact":
            return chain([e[1]] * e[2])
        if k == "rep_min":
            return chain([e[1]] * e[2] + [("rep", e[1])])
        if k == "rep_max":
            return chain([("opt", e[1])] * e[2])
        if k == "rep_min_max":
            lo, hi = e[2], e[3]
            return chain([e[1] if i <= lo else ("opt", e[1]) for i in range(1, hi + 1)])
        return e
    return map_bottom_up(e, f)


def subterms(e):
    yield e
    k = e[0]
    if k in ("seq", "choice"):
        yield from subterms(e[1])
        yield from subterms(e[2])
    elif k in ("opt", "rep", "plus", "not", "and"):
        yield from subterms(e[1])


def skipper_would_fire(e, rules):
    """(!( "a" | "b" | rule-that-is-such-a-choice ) ~ ANY)* inside an atomic rule."""
    def only_strings(x, seen):
        if x[0] == "str":
            return True
        if x[0] == "choice":
            return only_strings(x[1], seen) and only_strings(x[2], seen)
        if x[0] == "ident" and x[1] in rules and x[1] not in seen:
            return only_strings(rules[x[1]][1], seen | {x[1]})
        return False
    for t in subterms(e):
        if t[0] == "rep" and t[1][0] == "seq" and t[1][1][0] == "not" and t[1][2] == ("ident", "ANY"):
            if only_strings(t[1][1][1], frozenset()):
                return True
    return False


def lister_would_fire(e):
    """Seq(Rep(Seq(l1, l2)), r) with l1 == r   (r is the whole right part of the chain)."""
    for t in subterms(e):
        if t[0] == "seq" and t[1][0] == "rep" and t[1][1][0] == "seq":
            l1 = t[1][1][1]
            # pest compares l1 with the whole right part; comparing with its first element as
            # well is a conservative superset (other passes may regroup the chain)
            if l1 == t[2] or (t[2][0] == "seq" and l1 == t[2][1]):
                return True
    return False


# ----------------------------------------------------------------------------- emit

def coq_codepoints(cps):
    return "[" + "; ".join(str(c) for c in cps) + "]"


def emit_expr(e, index):
    k = e[0]
    if k == "str":
        return f"PLit {coq_codepoints(e[1])}"
    if k == "insens":
        return f"PInsens {coq_codepoints(e[1])}"
    if k == "range":
        return f"PRange {e[1]} {e[2]}"
    if k == "ident":
        if e[1] in index:
            return f"PCall R_{e[1]}"
        return f"PBuiltin {BUILTINS[e[1]]}"
    if k in ("seq", "choice"):
        c = "PSeq" if k == "seq" else "PChoice"
        return f"{c} ({emit_expr(e[1], index)}) ({emit_expr(e[2], index)})"
    c = {"opt": "POpt", "rep": "PStar", "plus": "PPlus", "not": "PNot", "and": "PAnd"}[k]
    return f"{c} ({emit_expr(e[1], index)})"


def size(e):
    return sum(1 for _ in subterms(e))


def translate(src):
    rules_list = Parser(Lexer(src).toks).grammar()
    if not rules_list:
        raise Unsupported("the grammar defines no rule")
    rules = {}
    for name, mod, e, line in rules_list:
        if name in rules:
            raise Unsupported(f"line {line}: rule {name} is defined twice")
        if name in BUILTINS or name in STACK_BUILTINS:
            raise Unsupported(f"line {line}: rule {name} redefines a pest built-in")
        rules[name] = (mod, e, line)
    index = {name: i for i, (name, _, _, _) in enumerate(rules_list)}
    out_rules = []
    for name, mod, e, line in rules_list:
        e = unroll(e)
        for t in subterms(e):
            if t[0] == "ident" and t[1] not in index:
                if t[1] in STACK_BUILTINS:
                    raise Unsupported(f"rule {name}: {t[1]} (the pest stack) is not supported")
                if t[1] not in BUILTINS:
                    raise Unsupported(f"rule {name}: undefined rule or unsupported built-in {t[1]}")
            if t[0] == "range" and t[1] > t[2]:
                raise Unsupported(f"rule {name}: empty character range")
        if mod == "@" and skipper_would_fire(e, rules):
            raise Unsupported(f"rule {name}: pest_meta's `skipper` optimisation (skip_until) would "
                              "apply here; it is not modelled")
        if lister_would_fire(e):
            raise Unsupported(f"rule {name}: pest_meta's `lister` optimisation ((a ~ b)* ~ a => "
                              "a ~ (b ~ a)*) would apply here; it changes the meaning and is not modelled")
        out_rules.append((name, mod, e))

    n = len(out_rules)
    L = []
    L.append("(* GENERATED by translators/pest2coq.py from parser/src/simplesl.pest — DO NOT EDIT. *)")
    L.append("(* %d rules, %d expression nodes. *)" % (n, sum(size(e) for _, _, e in out_rules)))
    L.append("From Coq Require Import List ZArith.")
    L.append("From SSL.Model Require Import Peg.")
    L.append("Import ListNotations.")
    L.append("Local Open Scope Z_scope.")
    L.append("")
    for i, (name, _, _) in enumerate(out_rules):
        L.append(f"Definition R_{name} : N := {i}%N.")
    L.append(f"Definition R_EOI : N := {n}%N.")
    L.append("")
    L.append("Definition grammar_rules : list (N * (modifier * peg)) := [")
    rows = []
    for name, mod, e in out_rules:
        rows.append(f"  (R_{name}, ({MODIFIERS[mod]},\n    {emit_expr(e, index)}))")
    L.append(";\n".join(rows))
    L.append("].")
    L.append("")
    L.append("Definition rule_names : list (N * list Z) := [")
    rows = [f"  (R_{name}, {coq_codepoints([ord(c) for c in name])})" for name, _, _ in out_rules]
    rows.append(f"  (R_EOI, {coq_codepoints([ord(c) for c in 'EOI'])})")
    L.append(";\n".join(rows))
    L.append("].")
    L.append("")
    ws = "Some R_WHITESPACE" if "WHITESPACE" in index else "None"
    cm = "Some R_COMMENT" if "COMMENT" in index else "None"
    L.append("Definition grammar : peg_grammar :=")
    L.append(f"  mk_peg_grammar grammar_rules ({ws}) ({cm}) R_EOI.")
    L.append("")
    return "\n".join(L)


def main(argv):
    if len(argv) != 3:
        die("usage: pest2coq.py <repo_dir> <gen_dir>")
    path = os.path.join(argv[1], GRAMMAR_REL)
    try:
        with open(path, encoding="utf-8") as fh:
            src = fh.read()
    except OSError as ex:
        die(f"cannot read {path}: {ex}")
    try:
        text = translate(src)
    except Unsupported as ex:
        die(f"{path}: {ex}")
    os.makedirs(argv[2], exist_ok=True)
    out = os.path.join(argv[2], "GenGrammar.v")
    old = None
    if os.path.exists(out):
        with open(out, encoding="utf-8") as fh:
            old = fh.read()
    if old != text:
        tmp = out + ".tmp"
        with open(tmp, "w", encoding="utf-8") as fh:
            fh.write(text)
        os.replace(tmp, out)
        print(f"pest2coq: wrote {out}")
    else:
        print(f"pest2coq: {out} unchanged")


if __name__ == "__main__":
    main(sys.argv)

#!/usr/bin/env python3
"""T1 (C14) — the precedence table the parser is built with.

  pratt2coq.py <repo_dir> <gen_dir>      writes <gen_dir>/GenPratt.v

Reads parser/src/lib.rs: the chain `PrattParser::new().op(A | B | ..).op(..)...`, lowest
precedence first, every operand being `Op::infix(rule, Left|Right)`, `Op::prefix(rule)` or
`Op::postfix(rule)`.  Emits the chain as data:

    pratt_levels : list (list (N * affix))        (one inner list per .op() call, in order)
    op_names     : list (N * list Z)              (the numbering shared with GenDocPrec/GenOpMap)
    prec_step    : nat                            (pest's PREC_STEP)

It also checks that the pest crate the project is locked to is the one Model/Pratt.v was written
from: the version in Cargo.lock and the SHA-256 of its src/pratt_parser.rs (looked up in the cargo
registry; skipped with a note when the registry is not available) — a different file means the
hand-written algorithm model has to be re-audited, so the translator refuses to continue.

Exits non-zero with a message on anything unexpected; rewrites the output only when it changed."""
import glob
import hashlib
import os
import re
import sys

HERE = os.path.dirname(os.path.abspath(__file__))
sys.path.insert(0, HERE)
import opmap2coq as om  # noqa: E402

# the pest source Model/Pratt.v models (expr / nud / led / lbp, PREC_STEP, `prec - 1`)
AUDITED_PEST = {
    "2.7.14": "81840653126031e4f069fab09a6d0773c59defc4c9686f4c50a7d08dcb52251f",
}


def pest_source(repo):
    lock = om.read(repo, "Cargo.lock")
    m = re.search(r'\[\[package\]\]\s*name = "pest"\s*version = "([^"]+)"', lock)
    if not m:
        raise om.Unexpected("Cargo.lock: package pest not found")
    ver = m.group(1)
    home = os.environ.get("CARGO_HOME", os.path.expanduser("~/.cargo"))
    cands = sorted(glob.glob(os.path.join(home, "registry", "src", "*", f"pest-{ver}", "src", "pratt_parser.rs")))
    return ver, (cands[0] if cands else None)


def check_pest(repo):
    ver, path = pest_source(repo)
    if ver not in AUDITED_PEST:
        raise om.Unexpected(f"pest {ver} is not a version Model/Pratt.v was audited against "
                            f"({sorted(AUDITED_PEST)}); re-read its pratt_parser.rs and extend AUDITED_PEST")
    if path is None:
        return ver, None, 10, "pest source not found in the cargo registry: algorithm hash not checked"
    with open(path, "rb") as f:
        data = f.read()
    digest = hashlib.sha256(data).hexdigest()
    if digest != AUDITED_PEST[ver]:
        raise om.Unexpected(f"{path}: SHA-256 {digest} differs from the audited {AUDITED_PEST[ver]}; "
                            "the Pratt algorithm model (coq/Model/Pratt.v) must be re-audited")
    text = data.decode("utf-8")
    m = re.search(r"const\s+PREC_STEP\s*:\s*Prec\s*=\s*(\d+)\s*;", text)
    if not m:
        raise om.Unexpected(f"{path}: const PREC_STEP not found")
    return ver, digest, int(m.group(1)), None


def generate(o, ver, digest, step):
    t = om.header("pratt2coq.py", ["parser/src/lib.rs"])
    t += "From SSL.Model Require Import Pratt.   (* affix := Prefix | Postfix | InfixL | InfixR *)\n\n"
    t += om.emit_names(o)
    t += f"(* pest {ver}, src/pratt_parser.rs sha256 {digest or 'not checked'} *)\n"
    t += f"Definition prec_step : nat := {step}%nat.\n\n"
    t += "(* PrattParser::new().op(..).op(..)...: one list per .op() call, lowest precedence first *)\n"
    lvls = []
    for lv in o.pratt:
        lvls.append("[" + "; ".join(f"({o.op_id[r]}, {a})" for r, a in lv) + "]")
    t += "Definition pratt_levels : list (list (N * affix)) := " + om.coq_list(lvls) + ".\n\n"
    t += "(* the same, readable:\n"
    for k, lv in enumerate(o.pratt):
        t += f"   {k:2d}: " + " | ".join(f"{a} {r}" for r, a in lv) + "\n"
    t += "*)\n"
    return t


def main():
    if len(sys.argv) != 3:
        om.die("pratt2coq", "usage: pratt2coq.py <repo_dir> <gen_dir>")
    repo, gen = sys.argv[1], sys.argv[2]
    try:
        o = om.load(repo)
        ver, digest, step, note = check_pest(repo)
        text = generate(o, ver, digest, step)
    except om.Unexpected as e:
        om.die("pratt2coq", str(e))
    ch = om.write_if_changed(os.path.join(gen, "GenPratt.v"), text)
    if note:
        print("pratt2coq: note:", note)
    print(f"pratt2coq: {len(o.pratt)} precedence levels, {sum(len(l) for l in o.pratt)} operators, "
          f"pest {ver}; {'rewritten' if ch else 'unchanged'}")


if __name__ == "__main__":
    main()

#!/usr/bin/env python3
"""T9 — the type relation of /repo (src/variable/{type,function_type,struct_type,multi_type}.rs)
-> coq/Gen/GenTypeFns.v.

usage: typefns2coq.py <repo_dir> <gen_dir>

Reads (every run) `impl Type` (matches, concat, conjoin, the Option/bool queries), `BitOr for Type`,
FunctionType::{matches, concat, return_type, bitor}, StructType::matches, MultiType::{iter, from}, the two
lazy_static types, and writes one Coq function per Rust function over the model's `ty`
(Model/Ty.v), STRUCTURALLY following the Rust text: the arms of a `match` / `match_any!` in source
order (or-patterns expanded in order, a guard falls through to a fresh match over the later arms),
early `return`, `let .. else`, `?`, `for` loops as local fixpoints, the iterator combinators as the
list functions forallb / existsb / map / combine / rs_try_fold / rs_reduce.  Recursion is
open: a recursive function X becomes  gen_X_step (rec : ..)  +  Fixpoint gen_X_f (fuel)  +
gen_X := gen_X_f (sum of the sizes of the Type arguments)  (the discipline of Model/Ty.v); a
function that is recursive only through another one (FunctionType::matches, StructType::matches)
takes that function as a parameter (gen_X_open) and is closed afterwards (gen_X).
Lemmas/TypeTie.v proves the regenerated functions equal to Model/Ty.v (Props/C10c.v).

The declarations the reading rests on (variants and payloads of `enum Type`, the fields of
FunctionType / StructType / MultiType, the derived PartialEq/Eq, the #[from] conversions) are
compared with the expected ones; `BitOrAssign::bitor_assign` (no counterpart in the model, unused
in the crate, writes through `&mut self`) and the expansion function of `var_type!`
(macros/src/var_type.rs) are PINNED token by token.

Python 3 stdlib only; deterministic; the output is rewritten only when it changed; anything
outside the supported subset stops the run with a non-zero exit code and `file:line: what`.
"""
import os
import re
import sys

sys.path.insert(0, os.path.dirname(os.path.abspath(__file__)))
from scalar2coq import (Unsupported, die, Tok, tokenize, match_close, split_top, text_of,  # noqa: E402
                        is_p, is_id, N, OPEN, CLOSE)

# --------------------------------------------------------------------------------------
# 1. parser for the Rust subset (own copy: closures with patterns, `for`, `if let`, indexing)
# --------------------------------------------------------------------------------------
BIN_PREC = [  # loosest first
    ["||"], ["&&"], ["==", "!=", "<", ">", "<=", ">="], ["|"], ["^"], ["&"], ["<<", ">>"],
    ["+", "-"], ["*", "/", "%"],
]
ASSIGN_OPS = ["=", "+=", "-=", "*=", "/=", "%=", "^=", "&=", "|=", "<<=", ">>="]


class Parser:
    def __init__(self, toks, anchor):
        self.t = toks
        self.i = 0
        self.anchor = anchor

    def peek(self, k=0):
        return self.t[self.i + k] if self.i + k < len(self.t) else None

    def at_end(self):
        return self.i >= len(self.t)

    def cur(self):
        return self.peek() or self.anchor

    def is_p(self, s, k=0):
        t = self.peek(k)
        return t is not None and t.k == "p" and t.s == s

    def is_id(self, s=None, k=0):
        t = self.peek(k)
        return t is not None and t.k == "id" and (s is None or t.s == s)

    def eat_p(self, s):
        if not self.is_p(s):
            die(f"expected {s!r}, found {self.cur().s!r}", self.cur())
        self.i += 1

    def eat_id(self, s=None):
        if not self.is_id(s):
            die(f"expected {'identifier' if s is None else s!r}, found {self.cur().s!r}", self.cur())
        self.i += 1
        return self.t[self.i - 1]

    def group(self):
        c = match_close(self.t, self.i)
        inner = self.t[self.i + 1:c]
        self.i = c + 1
        return inner

    # --- patterns
    def pattern(self):
        if self.is_p("|"):
            self.i += 1
        first = self.pattern_no_or()
        if self.is_p("|"):
            alts = [first]
            while self.is_p("|"):
                self.i += 1
                alts.append(self.pattern_no_or())
            return N("por", first.tok, alts=alts)
        return first

    def pattern_no_or(self):
        t = self.cur()
        if self.is_p("&"):
            self.i += 1
            if self.is_id("mut"):
                self.i += 1
            return self.pattern_no_or()
        if self.is_p("("):
            inner = self.group()
            parts = [p for p in split_top(inner, ",") if p]
            pats = [Parser(p, t).whole_pattern() for p in parts]
            if len(pats) == 1 and not any(is_p(x, ",") for x in inner):
                return pats[0]
            return N("ptuple", t, pats=pats)
        if t.k == "int":
            self.i += 1
            return N("plit", t, value=int(t.s.split(":")[0], 0))
        if t.k == "id":
            if t.s == "_":
                self.i += 1
                return N("pwild", t)
            if t.s in ("true", "false"):
                self.i += 1
                return N("pbool", t, value=(t.s == "true"))
            if t.s in ("ref", "mut") and self.is_id(None, 1) and not self.is_p("::", 2):
                self.i += 1
                return self.pattern_no_or()
            path = self.path()
            if self.is_p("("):
                inner = self.group()
                parts = [p for p in split_top(inner, ",") if p]
                return N("pctor", t, path=path, pats=[Parser(p, t).whole_pattern() for p in parts])
            if self.is_p("{"):
                die("struct patterns are outside the supported subset", t)
            if len(path) == 1 and (path[0][0].islower() or path[0][0] == "_"):
                return N("pbind", t, name=path[0])
            return N("pctor", t, path=path, pats=None)
        die(f"unsupported pattern starting with {t.s!r}", t)

    def whole_pattern(self):
        p = self.pattern()
        if not self.at_end():
            die(f"unexpected {self.cur().s!r} in pattern", self.cur())
        return p

    def path(self):
        segs = [self.eat_id().s]
        while self.is_p("::") and self.is_id(None, 1):
            self.i += 1
            segs.append(self.eat_id().s)
        if self.is_p("::"):
            die("generic arguments in a path (turbofish) are outside the supported subset", self.cur())
        return segs

    # --- expressions
    def expr(self, ns=False):
        lhs = self.binary(0, ns)
        t = self.peek()
        if t is not None and t.k == "p" and t.s in ASSIGN_OPS:
            self.i += 1
            rhs = self.expr(ns)
            return N("assign", t, op=t.s, lhs=lhs, rhs=rhs)
        if t is not None and t.k == "p" and t.s in ("..", "..="):
            self.i += 1
            rhs = self.binary(0, ns)
            return N("range", t, lo=lhs, hi=rhs, incl=(t.s == "..="))
        return lhs

    def binary(self, level, ns):
        if level == len(BIN_PREC):
            return self.cast(ns)
        lhs = self.binary(level + 1, ns)
        while True:
            t = self.peek()
            if t is None or t.k != "p" or t.s not in BIN_PREC[level]:
                return lhs
            self.i += 1
            rhs = self.binary(level + 1, ns)
            if level == 2 and lhs.k == "binary" and lhs.op in BIN_PREC[2] and not getattr(lhs, "paren", False):
                die("chained comparison", t)
            lhs = N("binary", t, op=t.s, l=lhs, r=rhs)

    def cast(self, ns):
        e = self.unary(ns)
        while self.is_id("as"):
            t = self.peek()
            self.i += 1
            e = N("cast", t, e=e, ty="::".join(self.path()))
        return e

    def unary(self, ns):
        t = self.peek()
        if t is not None and t.k == "p" and t.s in ("-", "!", "&", "*"):
            self.i += 1
            is_mut = False
            if t.s == "&" and self.is_id("mut"):
                self.i += 1
                is_mut = True
            return N("unary", t, op=t.s, e=self.unary(ns), mut=is_mut)
        if t is not None and is_p(t, "&&"):
            self.i += 1
            return N("unary", t, op="&", e=N("unary", t, op="&", e=self.unary(ns), mut=False), mut=False)
        return self.postfix(ns)

    def args(self):
        t = self.cur()
        out, _ = Parser(self.group(), t).expr_list()
        return out

    def expr_list(self):
        out, comma = [], False
        while not self.at_end():
            out.append(self.expr())
            if self.at_end():
                break
            self.eat_p(",")
            comma = True
        return out, comma

    def postfix(self, ns):
        e = self.primary(ns)
        while True:
            t = self.peek()
            if t is None:
                return e
            if is_p(t, "?"):
                self.i += 1
                e = N("try", t, e=e)
            elif is_p(t, "("):
                e = N("call", t, f=e, args=self.args())
            elif is_p(t, "["):
                inner = self.group()
                e = N("index", t, recv=e, idx=Parser(inner, t).whole_expr())
            elif is_p(t, "."):
                self.i += 1
                name = self.peek()
                if name is None or name.k not in ("id", "int"):
                    die("expected a method or field name after '.'", t)
                self.i += 1
                turbofish = None
                if self.is_p("::") and self.is_p("<", 1):
                    self.i += 1
                    j = skip_generics(self.t, self.i)
                    turbofish = split_shr(self.t[self.i:j])[1:-1]
                    self.i = j
                    if not self.is_p("("):
                        die("generic arguments without a call", t)
                if self.is_p("("):
                    e = N("mcall", name, recv=e, name=name.s, args=self.args(), turbofish=turbofish)
                else:
                    e = N("field", name, recv=e, name=name.s)
            else:
                return e

    def primary(self, ns):
        t = self.cur()
        if self.at_end():
            die("unexpected end of expression", t)
        if t.k == "int":
            self.i += 1
            v, suffix = (t.s.split(":") + [""])[:2]
            return N("int", t, value=int(v, 0), suffix=suffix)
        if t.k == "float":
            self.i += 1
            return N("float", t, text=t.s)
        if t.k == "str":
            self.i += 1
            return N("str", t, value=t.s)
        if is_p(t, "("):
            es, comma = Parser(self.group(), t).expr_list()
            if len(es) == 1 and not comma:
                es[0].paren = True
                return es[0]
            return N("tuple", t, es=es)
        if is_p(t, "["):
            es, _ = Parser(self.group(), t).expr_list()
            return N("array", t, es=es)
        if is_p(t, "{"):
            return self.block()
        if is_p(t, "|") or is_p(t, "||"):
            return self.closure()
        if t.k == "id":
            if t.s == "match":
                self.i += 1
                scrut = self.expr(ns=True)
                if not self.is_p("{"):
                    die("expected '{' after match scrutinee", self.cur())
                arms = Parser(self.group(), t).match_arms()
                return N("match", t, scrut=scrut, arms=arms)
            if t.s == "if":
                return self.if_()
            if t.s == "for":
                self.i += 1
                pat = self.pattern()
                self.eat_id("in")
                it = self.expr(ns=True)
                body = self.block()
                return N("for", t, pat=pat, iter=it, body=body)
            if t.s in ("loop", "while", "unsafe", "async", "move", "break", "continue"):
                die(f"`{t.s}` is outside the supported subset", t)
            if t.s == "return":
                self.i += 1
                if self.at_end() or self.is_p(";"):
                    die("`return` without a value", t)
                return N("return", t, e=self.expr(ns))
            if t.s in ("true", "false"):
                self.i += 1
                return N("bool", t, value=(t.s == "true"))
            path = self.path()
            if self.is_p("!") and not self.is_p("=", 1) and (self.is_p("(", 1) or self.is_p("{", 1) or self.is_p("[", 1)):
                self.i += 1
                delim = self.cur().s
                inner = self.group()
                return N("macro", t, name=path[-1], delim=delim, toks=inner)
            if self.is_p("{") and not ns and path[-1][0].isupper():
                inner = self.group()
                fields = []
                for part in split_top(inner, ","):
                    if not part:
                        continue
                    if part[0].k != "id":
                        die("unsupported struct-literal field", part[0])
                    if len(part) == 1:
                        fields.append((part[0].s, N("path", part[0], segs=[part[0].s])))
                    elif is_p(part[1], ":"):
                        fields.append((part[0].s, Parser(part[2:], part[0]).whole_expr()))
                    else:
                        die("unsupported struct-literal field", part[0])
                return N("struct", t, path=path, fields=fields)
            return N("path", t, segs=path)
        die(f"unsupported expression starting with {t.s!r}", t)

    def closure(self):
        t = self.cur()
        params = []
        if self.is_p("||"):
            self.i += 1
        else:
            self.eat_p("|")
            while not self.is_p("|"):
                if self.at_end():
                    die("unterminated closure parameter list", t)
                params.append(self.pattern_no_or())
                if self.is_p(":"):          # the declared type of a parameter is not needed
                    depth = 0
                    while not self.at_end():
                        c = self.peek()
                        if c.k == "p" and c.s in ("<", "(", "["):
                            depth += 1
                        elif c.k == "p" and c.s in (">", ")", "]"):
                            depth -= 1
                        elif depth == 0 and c.k == "p" and c.s in (",", "|"):
                            break
                        self.i += 1
                if self.is_p(","):
                    self.i += 1
            self.eat_p("|")
        if self.is_p("->"):
            die("closures with a declared return type are outside the supported subset", self.cur())
        return N("closure", t, params=params, body=self.expr())

    def if_(self):
        t = self.eat_id("if")
        if self.is_id("let"):
            self.i += 1
            pat = self.pattern()
            self.eat_p("=")
            scrut = self.expr(ns=True)
            then = self.block()
            els = None
            if self.is_id("else"):
                self.i += 1
                els = self.if_() if self.is_id("if") else self.block()
            return N("iflet", t, pat=pat, scrut=scrut, then=then, els=els)
        cond = self.expr(ns=True)
        then = self.block()
        els = None
        if self.is_id("else"):
            self.i += 1
            els = self.if_() if self.is_id("if") else self.block()
        return N("if", t, cond=cond, then=then, els=els)

    def whole_expr(self):
        e = self.expr()
        if not self.at_end():
            die(f"unexpected {self.cur().s!r} after expression", self.cur())
        return e

    def match_arms(self):
        arms = []
        while not self.at_end():
            t = self.cur()
            pat = self.pattern()
            guard = None
            if self.is_id("if"):
                self.i += 1
                guard = self.expr(ns=True)
            self.eat_p("=>")
            body = self.block() if self.is_p("{") else self.expr()
            if self.is_p(","):
                self.i += 1
            elif not self.at_end() and body.k != "block":
                die("expected ',' between match arms", self.cur())
            arms.append(N("arm", t, pat=pat, guard=guard, body=body))
        return arms

    def block(self):
        t = self.cur()
        if not self.is_p("{"):
            die("expected a block", t)
        return Parser(self.group(), t).block_body(t)

    def block_body(self, t):
        stmts, tail = [], None
        while not self.at_end():
            s = self.cur()
            if self.is_p(";"):
                self.i += 1
                continue
            if self.is_id("let"):
                self.i += 1
                pat = self.pattern()
                ty = None
                if self.is_p(":"):
                    self.i += 1
                    start = self.i
                    depth = 0
                    while not self.at_end():
                        c = self.peek()
                        if c.k == "p" and c.s in ("<", "(", "["):
                            depth += 1
                        elif c.k == "p" and c.s in (">", ")", "]"):
                            depth -= 1
                        elif c.k == "p" and c.s == ">>":
                            depth -= 2
                        elif depth == 0 and c.k == "p" and c.s in ("=", ";"):
                            break
                        self.i += 1
                    ty = split_shr(self.t[start:self.i])
                init = els = None
                if self.is_p("="):
                    self.i += 1
                    init = self.expr()
                    if self.is_id("else"):
                        self.i += 1
                        els = self.block()
                else:
                    die("`let` without an initialiser is outside the supported subset", s)
                self.eat_p(";")
                stmts.append(N("let", s, pat=pat, init=init, els=els, ty=ty))
                continue
            if s.k == "id" and s.s in ("fn", "use", "struct", "enum", "impl", "mod", "const", "static"):
                die(f"nested item `{s.s}` is outside the supported subset", s)
            e = self.expr()
            if self.is_p(";"):
                self.i += 1
                stmts.append(N("semi", s, e=e))
            elif self.at_end():
                tail = e
            elif e.k in ("if", "iflet", "match", "for", "block"):
                stmts.append(N("semi", s, e=e))
            else:
                die(f"expected ';', found {self.cur().s!r}", self.cur())
        return N("block", t, stmts=stmts, tail=tail)


# --------------------------------------------------------------------------------------
# 2. items: impl blocks, functions, lazy_static!, enum / struct declarations
# --------------------------------------------------------------------------------------
class Fn:
    def __init__(self, name, selfty, trait, generics, assoc, sig, body, tok):
        self.name, self.selfty, self.trait = name, selfty, trait
        self.generics, self.assoc = generics, assoc      # generic name -> bound text; `type X = ..`
        self.sig, self.body, self.tok = sig, body, tok
        self.key = None


class Decl:
    def __init__(self, kind, name, attrs, body, tok, tuple_like):
        self.kind, self.name, self.attrs, self.body, self.tok = kind, name, attrs, body, tok
        self.tuple_like = tuple_like


class Items:
    def __init__(self):
        self.all = []        # every Fn found, in order
        self.fns = {}        # key -> Fn  (None: ambiguous)
        self.statics = {}    # name -> (type tokens, init tokens, tok)
        self.decls = {}      # name -> Decl


def skip_generics(toks, i):
    """toks[i] is '<': index one past the matching '>'"""
    depth, j = 0, i
    while j < len(toks):
        if is_p(toks[j], "<"):
            depth += 1
        elif is_p(toks[j], ">"):
            depth -= 1
        elif is_p(toks[j], ">>"):
            depth -= 2
        j += 1
        if depth <= 0:
            return j
    die("unbalanced '<'", toks[i])


def parse_impl_header(toks, anchor):
    """tokens between `impl` and `{` -> (self type text, trait text or None, generics)"""
    generics = {}
    i = 0
    toks = split_shr(toks)
    if toks and is_p(toks[0], "<"):
        j = skip_generics(toks, 0)
        for g in split_top(toks[1:j - 1], ","):
            if g and g[0].k == "id" and not is_id(g[0], "const"):
                generics[g[0].s] = ntext(g[2:]) if len(g) > 2 and is_p(g[1], ":") else ""
            elif g and is_id(g[0], "const") and len(g) > 1:
                generics[g[1].s] = "const"
        i = j
    rest = toks[i:]
    for k, t in enumerate(rest):
        if is_id(t, "where"):
            rest = rest[:k]
            break
    depth = 0
    for k, t in enumerate(rest):
        if is_p(t, "<"):
            depth += 1
        elif is_p(t, ">"):
            depth -= 1
        elif is_p(t, ">>"):
            depth -= 2
        elif is_id(t, "for") and depth == 0:
            return ntext(strip_refs(rest[k + 1:])), ntext(rest[:k]), generics
    return ntext(strip_refs(rest)), None, generics


def ntext(toks):
    """token text with `>>` split (generic brackets)"""
    return text_of(toks).replace(">>", "> >")


def split_shr(toks):
    out = []
    for t in toks:
        if is_p(t, ">>"):
            out += [Tok("p", ">", t.file, t.line), Tok("p", ">", t.file, t.line)]
        else:
            out.append(t)
    return out


def strip_refs(toks):
    toks = list(toks)
    while toks and (is_p(toks[0], "&") or is_id(toks[0], "mut") or toks[0].k == "lifetime"):
        toks = toks[1:]
    return toks


def walk(toks, items, impl=None, free=None):
    """free: prefix under which the top-level functions of the file are recorded (None: not at all)"""
    i, n = 0, len(toks)
    attrs = []
    while i < n:
        t = toks[i]
        if is_p(t, "#"):
            j = i + 1
            if j < n and is_p(toks[j], "!"):
                j += 1
            if j < n and is_p(toks[j], "["):
                c = match_close(toks, j)
                attrs.append(toks[j + 1:c])
                i = c + 1
                continue
            if i > 0 and is_id(toks[i - 1], "r"):     # raw identifier r#name
                i += 1
                continue
            die("stray '#'", t)
        if is_id(t, "pub"):
            i += 1
            if i < n and is_p(toks[i], "("):
                i = match_close(toks, i) + 1
            continue
        if is_id(t, "mod") and i + 2 < n and toks[i + 1].k == "id":
            if is_p(toks[i + 2], ";"):
                i += 3
                attrs = []
                continue
            if is_p(toks[i + 2], "{"):
                c = match_close(toks, i + 2)
                if not any(text_of(a) == "cfg ( test )" for a in attrs):
                    die("inline modules other than #[cfg(test)] are outside the supported subset", t)
                attrs = []
                i = c + 1
                continue
        if is_id(t, "impl") and impl is None:
            j = i + 1
            while j < n and not is_p(toks[j], "{"):
                if is_p(toks[j], "<"):
                    j = skip_generics(toks, j)
                else:
                    j += 1
            c = match_close(toks, j)
            selfty, trait, generics = parse_impl_header(toks[i + 1:j], t)
            body = toks[j + 1:c]
            assoc = {}
            for k in range(len(body) - 3):
                if is_id(body[k], "type") and body[k + 1].k == "id" and is_p(body[k + 2], "="):
                    e = k + 3
                    while e < len(body) and not is_p(body[e], ";"):
                        e += 1
                    assoc[body[k + 1].s] = body[k + 3:e]
            walk(body, items, (selfty, trait, generics, assoc))
            attrs = []
            i = c + 1
            continue
        if is_id(t, "fn") and i + 1 < n and toks[i + 1].k == "id":
            j = i + 2
            while j < n and not is_p(toks[j], "{") and not is_p(toks[j], ";"):
                if toks[j].k == "p" and toks[j].s in OPEN:
                    j = match_close(toks, j) + 1
                else:
                    j += 1
            if j < n and is_p(toks[j], "{"):
                c = match_close(toks, j)
                if impl is not None:
                    selfty, trait, generics, assoc = impl
                    f = Fn(toks[i + 1].s, selfty, trait, dict(generics), assoc, toks[i + 2:j], toks[j + 1:c],
                           toks[i + 1])
                    key = f"{selfty}::{f.name}"
                    f.key = key
                    items.fns[key] = None if key in items.fns else f
                    items.all.append(f)
                elif free is not None:
                    f = Fn(toks[i + 1].s, None, None, {}, {}, toks[i + 2:j], toks[j + 1:c], toks[i + 1])
                    f.key = f"{free}::{f.name}"
                    f.attrs = attrs
                    items.fns[f.key] = None if f.key in items.fns else f
                    items.all.append(f)
                i = c + 1
            else:
                i = j + 1
            attrs = []
            continue
        if is_id(t, "lazy_static") and i + 2 < n and is_p(toks[i + 1], "!") and is_p(toks[i + 2], "{"):
            c = match_close(toks, i + 2)
            inner = toks[i + 3:c]
            for part in split_top(inner, ";", angles=False):
                if not part:
                    continue
                while part and is_id(part[0], "pub"):
                    part = part[1:]
                if (len(part) < 6 or not is_id(part[0], "static") or not is_id(part[1], "ref")
                        or part[2].k != "id" or not is_p(part[3], ":")):
                    die("lazy_static!: expected `static ref NAME: T = expr;`", part[0])
                eq = next((k for k, x in enumerate(part) if is_p(x, "=")), None)
                if eq is None:
                    die("lazy_static!: missing '='", part[0])
                if part[2].s in items.statics:
                    die(f"static {part[2].s} defined twice", part[2])
                items.statics[part[2].s] = (part[4:eq], part[eq + 1:], part[2])
            attrs = []
            i = c + 1
            continue
        if t.k == "id" and t.s in ("enum", "struct") and i + 1 < n and toks[i + 1].k == "id" and impl is None:
            name = toks[i + 1]
            j = i + 2
            if j < n and is_p(toks[j], "<"):
                j = skip_generics(toks, j)
            if j < n and toks[j].k == "p" and toks[j].s in ("{", "("):
                c = match_close(toks, j)
                items.decls[name.s] = Decl(t.s, name.s, attrs, toks[j + 1:c], name, toks[j].s == "(")
                i = c + 1
            else:
                i = j + 1
            attrs = []
            continue
        attrs = []
        if t.k == "p" and t.s in OPEN:
            i = match_close(toks, i) + 1
        else:
            i += 1
    return items


# ---- the declarations the reading of the functions rests on --------------------------------
EXPECT_VARIANTS = {
    "Bool": None, "Int": None, "Float": None, "String": None, "Void": None, "Any": None, "Never": None,
    "Function": "Arc < FunctionType >", "Array": "Arc < Type >", "Tuple": "Arc < [ Type ] >",
    "Multi": "MultiType", "Mut": "Arc < Type >", "Struct": "StructType",
}
# variant -> (Coq constructor, payload type in the translator's vocabulary)
VARIANTS = {
    "Bool": ("TBool", None), "Int": ("TInt", None), "Float": ("TFloat", None), "String": ("TString", None),
    "Void": ("TVoid", None), "Any": ("TAny", None), "Never": ("TNever", None),
    "Function": ("TFun", "FnTy"), "Array": ("TArr", "Ty"), "Tuple": ("TTup", ("List", "Ty")),
    "Multi": ("TMulti", "Multi"), "Mut": ("TMut", "Ty"), "Struct": ("TStruct", "Struct"),
}
EXPECT_STRUCTS = {
    "FunctionType": "pub params : Arc < [ Type ] > , pub return_type : Type ,",
    "StructType": "pub Arc < HashMap < Arc < str > , Type > >",
    "MultiType": "pub ( crate ) Arc < HashSet < Type > >",
}


def derives(decl):
    out = set()
    for a in decl.attrs:
        if a and is_id(a[0], "derive") and len(a) > 1 and is_p(a[1], "("):
            for part in split_top(a[2:match_close(a, 1)], ","):
                if part:
                    out.add(part[-1].s)
    return out


def check_decls(items):
    """-> the set of #[from] conversions into Type: {'FunctionType': 'Function', 'StructType': 'Struct'}"""
    d = items.decls.get("Type")
    if d is None or d.kind != "enum":
        raise Unsupported("src/variable/type.rs: enum Type not found")
    for tr in ("PartialEq", "Eq", "Clone"):
        if tr not in derives(d):
            die(f"enum Type no longer derives {tr} (`==` on types is read as the derived structural equality)", d.tok)
    found, froms = {}, {}
    for part in split_top(d.body, ","):
        j = 0
        from_attr = None
        while j < len(part) and is_p(part[j], "#"):
            c = match_close(part, j + 1)
            attr = part[j + 2:c]
            if attr and is_id(attr[0], "from"):
                from_attr = [text_of(x) for x in split_top(attr[2:-1], ",") if x] if len(attr) > 1 else []
            j = c + 1
        if j >= len(part):
            continue
        if part[j].k != "id":
            die("unexpected token in enum Type", part[j])
        v = part[j].s
        payload = None
        if j + 1 < len(part):
            if not is_p(part[j + 1], "("):
                die(f"variant {v} of enum Type: only tuple variants are supported", part[j])
            payload = ntext(part[j + 2:match_close(part, j + 1)])
        found[v] = payload
        if from_attr is not None:
            for src in (from_attr or [payload]):
                froms[src] = v
    if found != EXPECT_VARIANTS:
        diff = sorted(set(found.items()) ^ set(EXPECT_VARIANTS.items()), key=str)
        die(f"enum Type: variants/payloads differ from the model's `ty` ({diff})", d.tok)
    for name, want in EXPECT_STRUCTS.items():
        s = items.decls.get(name)
        if s is None or s.kind != "struct":
            raise Unsupported(f"struct {name} not found")
        if ntext(s.body) != want:
            die(f"struct {name}: fields `{ntext(s.body)}` differ from the expected `{want}`", s.tok)
        for tr in ("PartialEq", "Eq"):
            if tr not in derives(s):
                die(f"struct {name} no longer derives {tr} (`==` is read as the derived equality: "
                    "HashSet / HashMap equality for unions / structs)", s.tok)
    return froms, d.tok


# --------------------------------------------------------------------------------------
# 3. the translator's types and Coq text helpers
#    'Ty' 'Bool' 'Nat' 'Str' 'FnTy' 'Struct' 'Multi' 'Set' ; ('List',T) ('Opt',T) ('Iter',T)
#    ('Map',T) ('Tup',(T,..)) ; None = not yet known
# --------------------------------------------------------------------------------------
def coq_ty(ty, tok=None):
    if ty == "Ty":
        return "ty"
    if ty == "Bool":
        return "bool"
    if ty == "Nat":
        return "nat"
    if ty == "Str":
        return "ident"
    if ty in ("Multi", "Set"):
        return "list ty"
    if ty == "Struct":
        return "list (ident * ty)"
    if isinstance(ty, tuple):
        if ty[0] in ("List", "Iter"):
            return "list " + par(coq_ty(ty[1], tok))
        if ty[0] == "Opt":
            return "option " + par(coq_ty(ty[1], tok))
        if ty[0] == "Map":
            return "list (ident * " + coq_ty(ty[1], tok) + ")"
        if ty[0] == "Tup":
            return "(" + " * ".join(par(coq_ty(x, tok)) for x in ty[1]) + ")"
    die(f"type {ty!r} has no Coq rendering here", tok)


def default_of(ty, tok):
    """what a function of this result type gives when the fuel runs out (the convention of
    Model/Ty.v: false / TNever / None) — also the placeholder under rs_panic"""
    if ty == "Bool":
        return "false"
    if ty == "Ty":
        return "TNever"
    if ty == "Nat":
        return "0"
    if isinstance(ty, tuple) and ty[0] == "Opt":
        return "None"
    if ty in ("Multi", "Set", "Struct") or (isinstance(ty, tuple) and ty[0] in ("List", "Iter", "Map")):
        return "[]"
    die(f"no default value for the type {ty!r}", tok)


def type_name(ty):
    names = {"Ty": "Type", "Bool": "bool", "Nat": "usize", "Str": "&str", "FnTy": "FunctionType",
             "Struct": "StructType", "Multi": "MultiType", "Set": "HashSet<Type>", None: "_"}
    if isinstance(ty, tuple):
        if ty[0] == "Tup":
            return "(" + ", ".join(type_name(x) for x in ty[1]) + ")"
        return {"List": "[{}]", "Opt": "Option<{}>", "Iter": "impl Iterator<Item={}>",
                "Map": "HashMap<Arc<str>,{}>"}.get(ty[0], ty[0] + "<{}>").format(type_name(ty[1]))
    return names.get(ty, str(ty))


def unify(a, b, tok, what="branches"):
    if a is None:
        return b
    if b is None:
        return a
    if a == b:
        return a
    if isinstance(a, tuple) and isinstance(b, tuple) and a[0] == b[0]:
        if a[0] == "Tup":
            if len(a[1]) == len(b[1]):
                return ("Tup", tuple(unify(x, y, tok, what) for x, y in zip(a[1], b[1])))
        else:
            return (a[0], unify(a[1], b[1], tok, what))
    die(f"{what} of different types: {type_name(a)} and {type_name(b)}", tok)


def match_paren_end(t):
    d = 0
    for i, c in enumerate(t):
        if c in "([":
            d += 1
        elif c in ")]":
            d -= 1
            if d == 0:
                return i
    return -1


def par(t):
    if re.fullmatch(r"[A-Za-z_][A-Za-z0-9_'.]*|[0-9]+", t):
        return t
    if t[0] in "([" and "\n" not in t and match_paren_end(t) == len(t) - 1:
        return t
    if "\n" in t:
        return "(" + ind(t, 1) + ")"
    return "(" + t + ")"


def app(f, *args):
    return " ".join([f] + [par(a) for a in args])


def ind(text, n=2):
    return text.replace("\n", "\n" + " " * n)


def coq_match(scrut, rows):
    out = [f"match {scrut} with"]
    for pat, body in rows:
        if "\n" in body or len(pat) + len(body) > 96:
            out.append(f"| {pat} =>\n    {ind(body, 4)}")
        else:
            out.append(f"| {pat} => {body}")
    out.append("end")
    return "\n".join(out)


def coq_if(c, a, b):
    if "\n" not in a and "\n" not in b and len(c) + len(a) + len(b) < 90:
        return f"if {c} then {a} else {b}"
    if "\n" not in a:
        return f"if {c} then {a}\nelse {ind(b, 0)}"
    return f"if {c} then\n  {ind(a)}\nelse\n  {ind(b)}"


def coq_list(items):
    return "[" + "; ".join(items) + "]"


COQ_RESERVED = set("""
as at cofix else end exists exists2 fix for forall fun if in let match mod return then using where with
Type Set Prop SProp IF by struct
ty ident size sizes option list bool nat true false negb andb orb None Some fst snd pair nil cons
map combine forallb existsb length nth nth_error fold_left filter app assoc ty_eqb mem_ty
fuel loop__ it__
TBool TInt TFloat TString TVoid TAny TNever TFun TArr TTup TMulti TMut TStruct
""".split())


def coq_ident(name):
    if (name in COQ_RESERVED or name.startswith("gen_") or name.startswith("rs_") or name.startswith("rec_")
            or name.startswith("x__") or name.endswith("_")):
        return name + "_"
    return name


class V:
    """a translated value: Coq term `t` (a pair (params, return_type) of terms for a FunctionType,
    ('fnref', key) for a path naming a function) and its type"""
    __slots__ = ("t", "ty")

    def __init__(self, t, ty):
        self.t, self.ty = t, ty


def flat(v):
    """the Coq arguments a value is passed as (a record = one argument per field)"""
    return list(v.t) if isinstance(v.t, tuple) and v.ty not in ("FnRef", "Ctor", "Closure") else [v.t]


SELF_TYPES = {"Type": "Ty", "FunctionType": "FnTy", "StructType": "Struct", "MultiType": "Multi"}


def rtype(toks, fn, anchor):
    """a Rust type of a signature -> the translator's type"""
    toks = strip_refs(split_shr(toks))
    if not toks:
        die("empty type", anchor)
    txt = ntext(toks)
    if len(toks) == 1 and toks[0].k == "id":
        s = toks[0].s
        if s == "Self":
            if fn.selfty not in SELF_TYPES:
                die(f"`Self` = {fn.selfty} is outside the supported subset", toks[0])
            return SELF_TYPES[fn.selfty]
        if s in SELF_TYPES:
            return SELF_TYPES[s]
        if s in fn.generics:
            if fn.generics[s] == "Into < Type >":
                return "Ty"      # read at the instance T = Type (every other instance composes with From)
            die(f"generic parameter {s}: only the bound `Into<Type>` is supported", toks[0])
        prim = {"bool": "Bool", "usize": "Nat", "str": "Str"}
        if s in prim:
            return prim[s]
        die(f"type `{s}` is outside the supported subset", toks[0])
    if txt.startswith("Self :: ") and len(toks) == 3 and toks[2].s in fn.assoc:
        return rtype(fn.assoc[toks[2].s], fn, anchor)
    if toks[0].k == "id" and len(toks) > 3 and is_p(toks[1], "<"):
        inner = toks[2:-1] if is_p(toks[-1], ">") else None
        if inner is None:
            die(f"type `{txt}` is outside the supported subset", toks[0])
        head = toks[0].s
        if head in ("Arc", "Box", "Rc"):
            return rtype(inner, fn, anchor)
        if head == "Option":
            return ("Opt", rtype(inner, fn, anchor))
        if head == "Vec":
            return ("List", rtype(inner, fn, anchor))
        if head == "HashSet" and ntext(inner) == "Type":
            return "Set"
        if head == "Iter" and ntext(inner) in ("'_ , Type", "'a , Type"):
            return ("Iter", "Ty")
    if is_p(toks[0], "[") and match_close(toks, 0) == len(toks) - 1:
        inner = split_top(toks[1:-1], ";")
        return ("List", rtype(inner[0], fn, anchor))
    die(f"type `{txt}` is outside the supported subset", toks[0])


def parse_signature(fn):
    """-> ([(name, type)], return type); a leading generic list is skipped (bounds come from the impl
    header or the list itself)"""
    toks = split_shr(fn.sig)
    i = 0
    if toks and is_p(toks[0], "<"):
        j = skip_generics(toks, 0)
        for g in split_top(toks[1:j - 1], ","):
            if g and g[0].k == "id":
                fn.generics[g[0].s] = ntext(g[2:]) if len(g) > 2 and is_p(g[1], ":") else ""
        i = j
    if i >= len(toks) or not is_p(toks[i], "("):
        die("malformed function signature", fn.tok)
    c = match_close(toks, i)
    params = []
    for p in split_top(toks[i + 1:c], ","):
        if not p:
            continue
        if any(is_id(x, "self") for x in p) and not any(is_p(x, ":") for x in p):
            if any(is_id(x, "mut") for x in p):
                die("`&mut self` / `mut self` is outside the supported subset", p[0])
            if fn.selfty not in SELF_TYPES:
                die(f"methods of {fn.selfty} are outside the supported subset", p[0])
            params.append(("self", SELF_TYPES[fn.selfty]))
            continue
        if is_id(p[0], "mut"):
            die("`mut` parameters are outside the supported subset", p[0])
        if len(p) < 3 or p[0].k != "id" or not is_p(p[1], ":"):
            die("unsupported parameter form", p[0] if p else fn.tok)
        if any(is_id(x, "mut") for x in p[2:]):
            die("`&mut` parameters are outside the supported subset", p[0])
        params.append((p[0].s, rtype(p[2:], fn, p[0])))
    rest = toks[c + 1:]
    if rest and any(is_id(t, "where") for t in rest):
        die("`where` clauses are outside the supported subset", rest[0])
    if not rest:
        die("functions without a result are outside the supported subset", fn.tok)
    if not is_p(rest[0], "->"):
        die("malformed return type", rest[0])
    return params, rtype(rest[1:], fn, rest[0])


# --------------------------------------------------------------------------------------
# 4. translation of one function (or static) to Coq text
# --------------------------------------------------------------------------------------
TYPE_OF_NAME = {"Ty": "Type", "FnTy": "FunctionType", "Struct": "StructType", "Multi": "MultiType"}


def count_var(node, name):
    """occurrences of the plain variable `name` in an AST"""
    if isinstance(node, N):
        if node.k == "path" and node.segs == [name]:
            return 1
        return sum(count_var(v, name) for a, v in node.__dict__.items() if a not in ("k", "tok"))
    if isinstance(node, (list, tuple)):
        return sum(count_var(x, name) for x in node)
    return 0


def is_ident(t):
    return isinstance(t, str) and re.fullmatch(r"[A-Za-z_][A-Za-z0-9_']*", t) is not None


class FT:
    def __init__(self, world, key, fn):
        self.w, self.key, self.fn = world, key, fn
        self.counter = 0
        self.loops = 0
        self.calls = []           # keys of the functions / statics referred to, in order
        self.rty = None           # result type of the function / closure being translated
        self.selfty = fn.selfty if fn is not None else "Type"

    def fresh(self):
        self.counter += 1
        return f"x__{self.counter}"

    # ---- binds: `?` and `iter.next().unwrap()` lifted out of an expression, in evaluation order
    def wrap(self, B, body, tok):
        for b in reversed(B):
            body = self.wrap_one(b, body, tok)
        return body

    def wrap_one(self, b, body, tok):
        if b[0] == "try":
            if self.rty is not None and not (isinstance(self.rty, tuple) and self.rty[0] == "Opt"):
                die("`?` in a function that does not return an Option", tok)
            return coq_match(b[2], [(f"Some {b[1]}", body), ("None", "None")])
        if b[0] == "uncons":
            return coq_match(b[3], [("[]", app("rs_panic", b[4])), (f"{b[1]} :: {b[2]}", body)])
        die(f"internal: unknown bind {b[0]}", tok)

    # hooks for translators built on this one (valuefns2coq.py)
    def ctype(self, ty, tok=None):
        return coq_ty(ty, tok)

    def cdefault(self, ty, tok):
        return default_of(ty, tok)

    def leaf(self, v, tok):
        """the text of a value that is the result of the function / closure"""
        return v.t, v.ty

    def let_type(self, s):
        if getattr(s, "ty", None):
            die("`let` with a declared type is outside the supported subset", s.tok)
        return None

    def unit_cont(self, cont, tok):
        if cont is None:
            die("this block must end in a value or a `return`", tok)
        return cont(V("tt", "Unit"))

    def no_binds(self, B, tok, what):
        if B:
            die(f"`?` / `next().unwrap()` inside {what} is outside the supported subset", tok)

    # ---- conversions (`.into()`, Type::from)
    def convert(self, v, target, tok):
        if target is None or v.ty == target:
            return v
        if v.ty is None:
            return V(v.t, target)
        if target == "Ty" and v.ty == "FnTy":
            if self.w.froms.get("FunctionType") != "Function":
                die("FunctionType -> Type is no longer the #[from] conversion into Type::Function", tok)
            return V(app("TFun", *v.t), "Ty")
        if target == "Ty" and v.ty == "Struct":
            if self.w.froms.get("StructType") != "Struct":
                die("StructType -> Type is no longer the #[from] conversion into Type::Struct", tok)
            return V(app("TStruct", v.t), "Ty")
        if isinstance(target, tuple) and isinstance(v.ty, tuple) and target[0] == v.ty[0]:
            return V(v.t, unify(v.ty, target, tok, "conversion"))
        if target == ("List", "Ty") and v.ty == ("Iter", "Ty"):
            die("an iterator where a slice is expected (missing collect())", tok)
        die(f"cannot convert {type_name(v.ty)} into {type_name(target)}", tok)

    def have(self, v, target, tok, what):
        """v must have type `target` (after filling unknowns)"""
        if target is None:
            return v
        return V(v.t, unify(v.ty, target, tok, what))

    # ---- expressions
    def expr(self, e, env, B, expect=None):
        k = e.k
        if k == "path":
            return self.path_expr(e, env)
        if k == "bool":
            return V("true" if e.value else "false", "Bool")
        if k == "int":
            if e.suffix not in ("", "usize"):
                die(f"integer suffix {e.suffix} is outside the supported subset", e.tok)
            return V(str(e.value), "Nat")
        if k == "unary":
            if e.op in ("&", "*"):
                if e.mut:
                    die("`&mut` is outside the supported subset here", e.tok)
                return self.expr(e.e, env, B, expect)
            v = self.expr(e.e, env, B)
            if e.op == "!" and v.ty == "Bool":
                return V(app("negb", v.t), "Bool")
            die(f"unary `{e.op}` on {type_name(v.ty)} is outside the supported subset", e.tok)
        if k == "binary":
            return self.binary(e, env, B)
        if k == "try":
            v = self.expr(e.e, env, B)
            if not (isinstance(v.ty, tuple) and v.ty[0] == "Opt"):
                die(f"`?` on {type_name(v.ty)} (only Option is supported)", e.tok)
            x = self.fresh()
            B.append(("try", x, v.t))
            return V(x, v.ty[1])
        if k == "mcall":
            return self.method(e, env, B, expect)
        if k == "call":
            return self.call(e, env, B, expect)
        if k == "field":
            return self.field(e, env, B)
        if k == "index":
            v = self.expr(e.recv, env, B)
            if not (isinstance(v.ty, tuple) and v.ty[0] == "List"):
                die(f"indexing into {type_name(v.ty)} is outside the supported subset", e.tok)
            if e.idx.k != "int":
                die("indexing is supported with a literal index only", e.tok)
            # slice[i] panics when out of bounds
            return V(app("nth", str(e.idx.value), v.t, app("rs_panic", self.cdefault(v.ty[1], e.tok))), v.ty[1])
        if k == "macro":
            if e.name == "var_type":
                return VarType(self, e.toks, env, e.tok).whole()
            die(f"macro `{e.name}!` is outside the supported subset here", e.tok)
        if k == "array":
            vs = [self.expr(x, env, B) for x in e.es]
            ty = None
            for v in vs:
                ty = unify(ty, v.ty, e.tok, "array elements")
            return V(coq_list([v.t for v in vs]), ("List", ty))
        if k == "block" and not e.stmts and e.tail is not None:
            return self.expr(e.tail, env, B, expect)
        if k == "closure":
            die("a closure is supported only as the argument of an iterator / Option combinator", e.tok)
        if k in ("if", "iflet", "match", "block", "for", "return"):
            die(f"`{k}` is supported in tail position only", e.tok)
        die(f"expression form `{k}` is outside the supported subset", e.tok)

    def resolve_type_name(self, seg, tok):
        if seg == "Self":
            return self.selfty
        return seg

    def path_expr(self, e, env):
        segs = e.segs
        if len(segs) == 1:
            name = segs[0]
            if name in env:
                return env[name]
            if name == "None":
                return V("None", ("Opt", None))
            if name in self.w.items.statics:
                return self.w.static_ref(self, name, e.tok)
            die(f"unknown name `{name}`", e.tok)
        if len(segs) == 2:
            tn = self.resolve_type_name(segs[0], e.tok)
            if tn == "Type" and segs[1] in VARIANTS:
                ctor, payload = VARIANTS[segs[1]]
                if payload is None:
                    return V(ctor, "Ty")
                return V(("ctor", segs[1]), "Ctor")
            key = f"{tn}::{segs[1]}"
            if key in self.w.items.fns:
                return V(("fnref", key), "FnRef")
        die(f"path `{'::'.join(segs)}` is outside the supported subset", e.tok)

    def binary(self, e, env, B):
        op = e.op
        l = self.expr(e.l, env, B)
        if op in ("&&", "||"):
            B2 = []
            r = self.expr(e.r, env, B2)
            self.no_binds(B2, e.tok, f"the right operand of `{op}` (evaluated conditionally)")
            if l.ty != "Bool" or r.ty != "Bool":
                die(f"`{op}` on {type_name(l.ty)} and {type_name(r.ty)}", e.tok)
            return V(f"{par(l.t)} {op} {par(r.t)}", "Bool")
        r = self.expr(e.r, env, B, l.ty if l.ty in ("Ty", "Nat") else None)
        if op in ("==", "!="):
            ty = unify(l.ty, r.ty, e.tok, f"operands of `{op}`")
            if ty == "Ty":
                t = app("ty_eqb", l.t, r.t)         # derived PartialEq (checked by check_decls)
            elif ty == "Nat":
                t = app("Nat.eqb", l.t, r.t)
            elif ty == "Bool":
                t = app("Bool.eqb", l.t, r.t)
            else:
                die(f"`{op}` on {type_name(ty)} is outside the supported subset", e.tok)
            return V(t if op == "==" else app("negb", t), "Bool")
        if op in ("<", "<=", ">", ">=") and l.ty == "Nat" and r.ty == "Nat":
            if op in ("<", "<="):
                return V(app("Nat.ltb" if op == "<" else "Nat.leb", l.t, r.t), "Bool")
            return V(app("Nat.ltb" if op == ">" else "Nat.leb", r.t, l.t), "Bool")
        if op == "|" and l.ty in ("Ty", "FnTy"):
            key = f"{TYPE_OF_NAME[l.ty]}::bitor"
            return self.user_call(key, [l, r], e.tok)
        die(f"`{op}` on {type_name(l.ty)} and {type_name(r.ty)} is outside the supported subset", e.tok)

    def field(self, e, env, B):
        v = self.expr(e.recv, env, B)
        if e.name == "0":
            if v.ty == "Multi":
                return V(v.t, "Set")
            if v.ty == "Struct":
                return V(v.t, ("Map", "Ty"))
        if v.ty == "FnTy":
            if e.name == "params":
                return V(v.t[0], ("List", "Ty"))
            if e.name == "return_type":
                return V(v.t[1], "Ty")
        die(f"field `{e.name}` of {type_name(v.ty)} is outside the supported subset", e.tok)

    def user_call(self, key, args, tok, env=None, B=None):
        """args: translated values (V) or AST nodes (translated with the parameter type expected)"""
        fn = self.w.items.fns.get(key)
        if fn is None:
            die(f"call of {key}, which is ambiguous or not defined in the translated files", tok)
        params, ret = self.w.sig(key)
        if len(params) != len(args):
            die(f"{key}: {len(args)} arguments for {len(params)} parameters", tok)
        terms = []
        for (pn, pty), a in zip(params, args):
            v = a if isinstance(a, V) else self.expr(a, env, B, pty)
            v = self.have(v, pty, tok, f"argument `{pn}` of {key}")
            terms += flat(v)
        return V(self.w.render_call(self, key, terms), ret)

    def call(self, e, env, B, expect):
        f = e.f
        if f.k != "path":
            die("only calls of named functions are supported", e.tok)
        segs = f.segs
        name = "::".join(segs)
        if len(segs) == 1 and segs[0] in env:
            die("calling a local closure is outside the supported subset", e.tok)
        if name == "Some":
            if len(e.args) != 1:
                die("Some takes one argument", e.tok)
            inner = expect[1] if isinstance(expect, tuple) and expect[0] == "Opt" else None
            v = self.expr(e.args[0], env, B, inner)
            if v.ty == "FnTy":
                die("Option<FunctionType> is outside the supported subset", e.tok)
            return V(app("Some", v.t), ("Opt", v.ty))
        if name == "zip":
            if len(e.args) != 2:
                die("zip takes two arguments", e.tok)
            a = self.as_iter(self.expr(e.args[0], env, B), e.tok)
            b = self.as_iter(self.expr(e.args[1], env, B), e.tok)
            return V(app("combine", a.t, b.t), ("Iter", ("Tup", (a.ty[1], b.ty[1]))))
        if name in ("Arc::new", "Box::new") and len(e.args) == 1:
            return self.expr(e.args[0], env, B, expect)
        if name == "HashSet::from" and len(e.args) == 1:
            v = self.have(self.expr(e.args[0], env, B), ("List", "Ty"), e.tok, "argument of HashSet::from")
            return V(app("rs_hashset_from", v.t), "Set")
        if name == "Self" and len(e.args) == 1 and self.selfty in ("MultiType", "StructType"):
            want, got = ("Set", "Multi") if self.selfty == "MultiType" else (("Map", "Ty"), "Struct")
            v = self.expr(e.args[0], env, B, want)
            return V(self.have(v, want, e.tok, "the field of the tuple struct").t, got)
        if len(segs) == 2:
            tn = self.resolve_type_name(segs[0], e.tok)
            if tn == "Type" and segs[1] in VARIANTS and VARIANTS[segs[1]][1] is not None:
                ctor, payload = VARIANTS[segs[1]]
                if len(e.args) != 1:
                    die(f"Type::{segs[1]} takes one argument", e.tok)
                v = self.have(self.expr(e.args[0], env, B, payload), payload, e.tok, f"payload of Type::{segs[1]}")
                return V(app(ctor, *flat(v)), "Ty")
            if tn == "Type" and segs[1] == "from" and len(e.args) == 1:
                return self.convert(self.expr(e.args[0], env, B), "Ty", e.tok)
            key = f"{tn}::{segs[1]}"
            if key in self.w.items.fns:
                return self.user_call(key, e.args, e.tok, env, B)
        die(f"call of `{name}` is outside the supported subset", e.tok)

    def as_iter(self, v, tok):
        if isinstance(v.ty, tuple) and v.ty[0] in ("Iter", "List"):
            return V(v.t, ("Iter", v.ty[1]))
        die(f"{type_name(v.ty)} where an iterator is expected", tok)

    def method(self, e, env, B, expect):
        name, nargs = e.name, len(e.args)
        if getattr(e, "turbofish", None):
            die("generic arguments on a method call (turbofish) are outside the supported subset", e.tok)
        if name in ("clone", "as_ref") and nargs == 0:
            return self.expr(e.recv, env, B, expect)
        if name == "into" and nargs == 0:
            v = self.expr(e.recv, env, B)
            return self.convert(v, expect, e.tok)
        r = e.recv
        if (name == "unwrap" and nargs == 0 and r.k == "mcall" and r.name == "next" and not r.args
                and r.recv.k == "path" and len(r.recv.segs) == 1):
            # `it.next().unwrap()` on a local iterator: the head; `it` is the rest from here on
            var = r.recv.segs[0]
            it = env.get(var)
            if it is None or not (isinstance(it.ty, tuple) and it.ty[0] == "Iter") or not is_ident(it.t):
                die(f"`{var}.next()`: `{var}` is not a local iterator variable", e.tok)
            if self.rty is None:
                die("`next().unwrap()` inside a closure is outside the supported subset", e.tok)
            h = self.fresh()
            B.append(("uncons", h, it.t, it.t, self.cdefault(self.rty, e.tok)))
            return V(h, it.ty[1])
        if name == "next":
            die("`next()` is supported only as `<local iterator>.next().unwrap()`", e.tok)
        v = self.expr(r, env, B)
        ty = v.ty
        if ty in TYPE_OF_NAME:
            key = f"{TYPE_OF_NAME[ty]}::{name}"
            if key in self.w.items.fns:
                return self.user_call(key, [v] + e.args, e.tok, env, B)
            die(f"method `{name}` of {TYPE_OF_NAME[ty]} is not defined in the translated files", e.tok)
        kind = ty[0] if isinstance(ty, tuple) else ty
        if name == "iter" and nargs == 0:
            if kind == "List":
                return V(v.t, ("Iter", ty[1]))
            if kind == "Map":
                return V(v.t, ("Iter", ("Tup", ("Str", ty[1]))))     # HashMap order: the list's order
            if kind == "Set":
                return V(v.t, ("Iter", "Ty"))                        # HashSet order: the list's order
        if name == "cloned" and nargs == 0 and kind in ("Iter", "Opt"):
            return v
        if kind == "List":
            if name == "len" and nargs == 0:
                return V(app("length", v.t), "Nat")
            if name == "is_empty" and nargs == 0:
                return V(app("rs_is_empty", v.t), "Bool")
            if name == "get" and nargs == 1:
                i = self.have(self.expr(e.args[0], env, B, "Nat"), "Nat", e.tok, "index")
                return V(app("nth_error", v.t, i.t), ("Opt", ty[1]))
        if kind == "Map":
            if name in ("get", "contains_key") and nargs == 1:
                key = self.have(self.expr(e.args[0], env, B, "Str"), "Str", e.tok, "key")
                if name == "get":
                    return V(app("assoc", key.t, v.t), ("Opt", ty[1]))
                return V(app("rs_contains_key", key.t, v.t), "Bool")
        if kind == "Iter":
            el = ty[1]
            if name in ("all", "any") and nargs == 1:
                f, fty = self.fn_value(e.args[0], [el], env)
                if fty != "Bool":
                    die(f"`{name}`: the predicate returns {type_name(fty)}", e.tok)
                return V(app("forallb" if name == "all" else "existsb", f, v.t), "Bool")
            if name == "map" and nargs == 1:
                f, fty = self.fn_value(e.args[0], [el], env)
                return V(app("map", f, v.t), ("Iter", fty))
            if name == "collect" and nargs == 0:
                want = expect if isinstance(expect, tuple) and expect[0] == "List" else ("List", None)
                return V(v.t, unify(("List", el), want, e.tok, "collect()"))
            if name == "reduce" and nargs == 1:
                f, fty = self.fn_value(e.args[0], [el, el], env)
                unify(fty, el, e.tok, "reduce")
                return V(app("rs_reduce", f, v.t), ("Opt", el))
            if name == "try_fold" and nargs == 2:
                init = self.expr(e.args[0], env, B)
                f, fty = self.fn_value(e.args[1], [init.ty, el], env)
                rty = unify(fty, ("Opt", init.ty), e.tok, "try_fold")
                return V(app("rs_try_fold", f, init.t, v.t), rty)
        if kind == "Opt":
            if name == "unwrap_or" and nargs == 1:
                d = self.expr(e.args[0], env, B, ty[1])
                return V(app("rs_unwrap_or", v.t, d.t), unify(ty[1], d.ty, e.tok, "unwrap_or"))
            if name == "map" and nargs == 1:
                f, fty = self.fn_value(e.args[0], [ty[1]], env)
                return V(app("option_map", f, v.t), ("Opt", fty))
            if name == "and_then" and nargs == 1:
                f, fty = self.fn_value(e.args[0], [ty[1]], env)
                if not (isinstance(fty, tuple) and fty[0] == "Opt"):
                    die("and_then: the function does not return an Option", e.tok)
                return V(app("rs_and_then", v.t, f), fty)
            if name in ("unwrap", "expect"):
                die(f"`{name}()` on an Option (a possible panic) is supported only after `next()`", e.tok)
        die(f"method `{name}` on {type_name(ty)} is outside the supported subset", e.tok)

    def fn_value(self, a, argtys, env):
        """a closure or a function path used as a function of the given argument types
        -> (Coq function text, result type)"""
        if a.k == "closure":
            if len(a.params) != len(argtys):
                die(f"closure with {len(a.params)} parameters where {len(argtys)} are passed", a.tok)
            env2 = dict(env)
            binders = []
            for p, ty in zip(a.params, argtys):
                alts = self.pat_alts(p, ty)
                if len(alts) != 1 or not alts[0][2]:
                    die("refutable closure parameter", p.tok)
                txt, binds, _ = alts[0]
                env2.update(binds)
                binders.append(txt if is_ident(txt) or txt == "_" else "'" + txt)
            saved = self.rty
            self.rty = None
            try:
                body, ty = self.tail(a.body, env2, None)
            finally:
                self.rty = saved
            if "\n" in body:
                return f"fun {' '.join(binders)} =>\n  {ind(body)}", ty
            return f"fun {' '.join(binders)} => {body}", ty
        if a.k == "path":
            v = self.path_expr(a, env)
            if v.ty == "FnRef":
                key = v.t[1]
                params, ret = self.w.sig(key)
                if len(params) != len(argtys):
                    die(f"{key} takes {len(params)} arguments, {len(argtys)} are passed", a.tok)
                for (pn, pty), aty in zip(params, argtys):
                    if pty == "FnTy":
                        die("a function over FunctionType cannot be passed as a value here", a.tok)
                    unify(pty, aty, a.tok, f"argument `{pn}` of {key}")
                return self.w.render_call(self, key, []), ret
        die("expected a closure or the path of a function", a.tok)

    # ---- patterns: -> [(Coq pattern, {rust name: V}, irrefutable)] one entry per or-alternative
    def pat_alts(self, p, ty):
        k = p.k
        if k == "pwild":
            if ty == "FnTy":
                return [("_ _", {}, True)]
            return [("_", {}, True)]
        if k == "pbind":
            cn = coq_ident(p.name)
            if ty == "FnTy":
                a, b = cn + "_params", cn + "_return_type"
                return [(f"{a} {b}", {p.name: V((a, b), "FnTy")}, True)]
            if ty is None:
                die(f"the type of `{p.name}` is not known here", p.tok)
            return [(cn, {p.name: V(cn, ty)}, True)]
        if k == "por":
            out = []
            for a in p.alts:
                out += self.pat_alts(a, ty)
            return out
        if k == "plit" and ty == "Nat":
            return [(str(p.value), {}, False)]
        if k == "pbool" and ty == "Bool":
            return [("true" if p.value else "false", {}, False)]
        if k == "ptuple":
            if not (isinstance(ty, tuple) and ty[0] == "Tup" and len(ty[1]) == len(p.pats)):
                die(f"tuple pattern against {type_name(ty)}", p.tok)
            return [("(" + t + ")", b, i) for t, b, i in self.product(p.pats, ty[1], ", ")]
        if k == "pctor":
            path = p.path
            if path == ["Some"] and p.pats is not None and len(p.pats) == 1:
                if not (isinstance(ty, tuple) and ty[0] == "Opt"):
                    die(f"`Some(..)` pattern against {type_name(ty)}", p.tok)
                return [(f"Some {par(t)}", b, False) for t, b, _ in self.pat_alts(p.pats[0], ty[1])]
            if path == ["None"] and p.pats is None:
                if not (isinstance(ty, tuple) and ty[0] == "Opt"):
                    die(f"`None` pattern against {type_name(ty)}", p.tok)
                return [("None", {}, False)]
            if len(path) == 2 and self.resolve_type_name(path[0], p.tok) == "Type" and path[1] in VARIANTS:
                if ty != "Ty":
                    die(f"`Type::{path[1]}` pattern against {type_name(ty)}", p.tok)
                ctor, payload = VARIANTS[path[1]]
                if payload is None:
                    if p.pats is not None:
                        die(f"Type::{path[1]} has no payload", p.tok)
                    return [(ctor, {}, False)]
                if p.pats is None or len(p.pats) != 1:
                    die(f"Type::{path[1]} has one payload", p.tok)
                sub = p.pats[0]
                if payload == "FnTy" and sub.k not in ("pbind", "pwild"):
                    die("the payload of Type::Function can only be bound or ignored", sub.tok)
                return [(f"{ctor} {t if payload == 'FnTy' else par(t)}", b, False)
                        for t, b, _ in self.pat_alts(sub, payload)]
        die(f"pattern outside the supported subset (against {type_name(ty)})", p.tok)

    def product(self, pats, tys, sep):
        out = [("", {}, True)]
        for idx, (q, qty) in enumerate(zip(pats, tys)):
            nxt = []
            for t0, b0, i0 in out:
                for t, b, i in self.pat_alts(q, qty):
                    nb = dict(b0)
                    nb.update(b)
                    nxt.append((t0 + (sep if idx else "") + t, nb, i0 and i))
            out = nxt
        return out

    def arm_alts(self, p, vals):
        tys = [v.ty for v in vals]
        if len(vals) == 1:
            return self.pat_alts(p, tys[0])
        if p.k == "por":
            out = []
            for a in p.alts:
                out += self.arm_alts(a, vals)
            return out
        if p.k == "pwild":
            return [(", ".join("_" for _ in vals), {}, True)]
        if p.k == "ptuple" and len(p.pats) == len(vals):
            return self.product(p.pats, tys, ", ")
        die("pattern does not fit the scrutinee tuple", p.tok)

    # ---- tail position: -> (Coq text, type).
    #      cont = None: the value is the result of the function / closure;
    #      cont = f: the value v continues as f(v) -> (text, type)  (a block without a value
    #      continues with the unit value: the rest of a loop body, a join point after `let x = if ..`)
    def finish(self, v, B, cont, tok):
        if cont is None:
            if v.ty in ("FnTy", "FnRef", "Ctor"):
                die(f"a value of type {type_name(v.ty)} in result position", tok)
            text, ty = self.leaf(v, tok)
        else:
            text, ty = cont(v)
        return self.wrap(B, text, tok), ty

    def tail(self, e, env, cont):
        kind = e.k
        if kind == "block":
            return self.block(e, env, cont)
        if kind == "return":
            return self.tail(e.e, env, None)
        if kind == "if":
            B = []
            c = self.expr(e.cond, env, B)
            if c.ty != "Bool":
                die("condition that is not a bool", e.tok)
            a, aty = self.block(e.then, env, cont)
            if e.els is None:
                b, bty = self.unit_cont(cont, e.tok)
            else:
                b, bty = self.tail(e.els, env, cont)
            return self.wrap(B, coq_if(c.t, a, b), e.tok), unify(aty, bty, e.tok)
        if kind == "iflet":
            B = []
            v = self.expr(e.scrut, env, B)
            alts = self.pat_alts(e.pat, v.ty)
            if len(alts) != 1:
                die("or-pattern in `if let`", e.tok)
            txt, binds, irref = alts[0]
            env2 = dict(env)
            env2.update(binds)
            a, aty = self.block(e.then, env2, cont)
            if e.els is None:
                b, bty = self.unit_cont(cont, e.tok)
            else:
                b, bty = self.tail(e.els, env, cont)
            rows = [(txt, a)] + ([] if irref else [("_", b)])
            return self.wrap(B, coq_match(v.t, rows), e.tok), unify(aty, bty, e.tok)
        if kind == "match":
            return self.match_tail(e.scrut, e.arms, env, cont, e.tok)
        if kind == "macro" and e.name == "match_any":
            cut = None
            depth = 0
            for i, t in enumerate(e.toks):
                if t.k == "p" and t.s in OPEN:
                    depth += 1
                elif t.k == "p" and t.s in CLOSE:
                    depth -= 1
                elif is_p(t, ",") and depth == 0:
                    cut = i
                    break
            if cut is None:
                die("match_any!: expected `scrutinee, arms`", e.tok)
            scrut = Parser(e.toks[:cut], e.tok).whole_expr()
            arms = Parser(e.toks[cut + 1:], e.tok).match_arms()
            return self.match_tail(scrut, arms, env, cont, e.tok)
        if kind == "for":
            die("`for` is supported as a statement only", e.tok)
        B = []
        v = self.expr(e, env, B, self.rty if cont is None else None)
        return self.finish(v, B, cont, e.tok)

    def match_tail(self, scrut, arms, env, cont, tok):
        B = []
        es = scrut.es if scrut.k == "tuple" else [scrut]
        vals = [self.expr(x, env, B) for x in es]
        for v in vals:
            if v.ty in ("FnTy", "FnRef", "Ctor") or isinstance(v.t, tuple):
                die(f"match on a {type_name(v.ty)}", tok)
        if not arms:
            die("match without arms", tok)
        text, ty = self.arms(vals, arms, 0, env, cont, tok)
        return self.wrap(B, text, tok), ty

    def arms(self, vals, arms, start, env, cont, tok):
        if start >= len(arms):
            die("the last arm of a match is guarded", tok)
        scr = ", ".join(v.t for v in vals)
        rows, ty = [], None
        for idx in range(start, len(arms)):
            arm = arms[idx]
            alts = self.arm_alts(arm.pat, vals)
            if arm.guard is None:
                if (not rows and len(alts) == 1 and alts[0][2] and len(vals) > 1 and arm.pat.k == "ptuple"
                        and all(is_ident(v.t) for v in vals)
                        and all(q.k in ("pbind", "pwild") for q in arm.pat.pats)):
                    env2 = dict(env)                # `(a, b) => ..` alone: the names ARE the scrutinee
                    for q, v in zip(arm.pat.pats, vals):
                        if q.k == "pbind":
                            env2[q.name] = v
                    return self.tail(arm.body, env2, cont)
                for txt, binds, _ in alts:          # or-patterns: one row per alternative, in order
                    env2 = dict(env)
                    env2.update(binds)
                    body, bty = self.tail(arm.body, env2, cont)
                    ty = unify(ty, bty, arm.tok)
                    if (len(vals) == 1 and is_ident(txt) and binds
                            and not re.search(r"(?<![\w.])" + re.escape(txt) + r"(?![\w'])", body)):
                        txt = "_"               # a catch-all binder that is not used
                    rows.append((txt, body))
                continue
            # a guarded arm: when the guard fails the LATER arms are tried on the same scrutinee
            if len(alts) != 1:
                die("a guard on an or-pattern is outside the supported subset", arm.tok)
            txt, binds, irref = alts[0]
            alias = (not rows and irref and all(is_ident(v.t) for v in vals)
                     and arm.pat.k == "ptuple" and all(q.k in ("pbind", "pwild") for q in arm.pat.pats))
            env2 = dict(env)
            if alias:      # `(first, second) if ..` as the first arm: the names ARE the scrutinee
                for q, v in zip(arm.pat.pats, vals):
                    if q.k == "pbind":
                        env2[q.name] = v
            else:
                env2.update(binds)
            Bg = []
            g = self.expr(arm.guard, env2, Bg)
            if Bg and all(b[0] == "letp" for b in Bg):       # pure destructuring lets stay in the guard
                g = V("(" + ind(self.wrap(Bg, g.t, arm.tok), 1) + ")", g.ty)
                Bg = []
            self.no_binds(Bg, arm.tok, "a match guard")
            if g.ty != "Bool":
                die("guard that is not a bool", arm.tok)
            body, bty = self.tail(arm.body, env2, cont)
            rest, rty = self.arms(vals, arms, idx + 1, env, cont, tok)
            ty = unify(unify(ty, bty, arm.tok), rty, arm.tok)
            if alias:
                return coq_if(g.t, body, rest), ty
            rows.append((txt, coq_if(g.t, body, rest)))
            if not irref:
                rows.append((", ".join("_" for _ in vals), rest))
            return coq_match(scr, rows), ty
        return coq_match(scr, rows), ty

    def block(self, e, env, cont):
        return self.stmts(e.stmts, 0, e.tail, dict(env), cont, e.tok)

    def mutation(self, x, env, B):
        """`Arc::make_mut(&mut v.0).extend(..)` / `.insert(..)` on a local MultiType -> (v, new value)"""
        if not (x.k == "mcall" and x.name in ("extend", "insert") and len(x.args) == 1 and x.recv.k == "call"
                and x.recv.f.k == "path" and x.recv.f.segs == ["Arc", "make_mut"] and len(x.recv.args) == 1):
            return None
        a = x.recv.args[0]
        if not (a.k == "unary" and a.op == "&" and a.mut and a.e.k == "field" and a.e.name == "0"
                and a.e.recv.k == "path" and len(a.e.recv.segs) == 1):
            return None
        var = a.e.recv.segs[0]
        v = env.get(var)
        if v is None or v.ty != "Multi" or not is_ident(v.t):
            die(f"`{var}` is not a local MultiType", x.tok)
        if x.name == "extend":
            arg = self.as_iter(self.expr(x.args[0], env, B), x.tok)
            unify(arg.ty, ("Iter", "Ty"), x.tok, "extend")
            return var, app("rs_hashset_extend", v.t, arg.t)
        arg = self.have(self.expr(x.args[0], env, B, "Ty"), "Ty", x.tok, "insert")
        return var, app("rs_hashset_insert", v.t, arg.t)

    def bind_let(self, s, v, B, env, rest):
        """`let <pattern> = v;` followed by rest(env') -> (text, type)"""
        env2 = dict(env)
        if s.pat.k == "pbind":
            cn = coq_ident(s.pat.name)
            if B and is_ident(v.t) and B[-1][1] == v.t and v.t.startswith("x__"):
                b = B[-1]                              # `let x = e?;` -> the match binds x itself
                B[-1] = (b[0], cn) + b[2:]
                env2[s.pat.name] = V(cn, v.ty)
                body, ty = rest(env2)
                return self.wrap(B, body, s.tok), ty
            if isinstance(v.t, tuple):
                if v.ty in ("FnRef", "Ctor"):
                    die("binding a function is outside the supported subset", s.tok)
                if not all(is_ident(x) for x in v.t):
                    die(f"binding a {type_name(v.ty)} that is not a variable is outside the supported subset", s.tok)
                env2[s.pat.name] = v                   # a record of variables: the name is an alias
                body, ty = rest(env2)
                return self.wrap(B, body, s.tok), ty
            env2[s.pat.name] = V(cn, v.ty)
            body, ty = rest(env2)
            return self.wrap(B, f"let {cn} := {v.t} in\n{body}", s.tok), ty
        if s.pat.k == "pwild":
            body, ty = rest(env2)
            return self.wrap(B, body, s.tok), ty
        alts = self.pat_alts(s.pat, v.ty)
        if len(alts) != 1 or not alts[0][2]:
            die("refutable pattern in `let` without `else`", s.tok)
        txt, binds, _ = alts[0]
        env2.update(binds)
        body, ty = rest(env2)
        return self.wrap(B, f"let '{txt} := {v.t} in\n{body}", s.tok), ty

    def stmts(self, ss, i, tail, env, cont, tok):
        if i == len(ss):
            if tail is not None:
                return self.tail(tail, env, cont)
            return self.unit_cont(cont, tok)
        s = ss[i]

        def rest(env2):
            return self.stmts(ss, i + 1, tail, env2, cont, tok)

        if s.k == "let":
            B = []
            expect = self.let_type(s)
            for name in list(env):
                v = env[name]
                if isinstance(v.ty, tuple) and v.ty[0] == "Iter" and count_var(s.init, name) > 1 and \
                        self.has_next(s.init, name):
                    die(f"`{name}` is used again in the statement that advances it", s.tok)
            if s.els is not None:
                v = self.expr(s.init, env, B, expect)
                alts = self.pat_alts(s.pat, v.ty)
                if len(alts) != 1:
                    die("or-pattern in `let .. else`", s.tok)
                txt, binds, irref = alts[0]
                other, _ = self.block(s.els, env, None)
                env2 = dict(env)
                env2.update(binds)
                body, ty = rest(env2)
                rows = [(txt, body)] + ([] if irref else [("_", other)])
                return self.wrap(B, coq_match(v.t, rows), s.tok), ty
            init = s.init
            if init.k in ("if", "iflet", "match") or (init.k == "block" and init.stmts):
                # `let x = if c { a } else { ..; return e; b };` : the rest is a join point
                if s.pat.k != "pbind":
                    die("`let <pattern> = if/match ..` is supported for a plain name only", s.tok)
                self.joins = getattr(self, "joins", 0) + 1
                kname = f"k__{self.joins}"
                seen = []

                def join(v):
                    if isinstance(v.t, tuple):
                        die(f"a {type_name(v.ty)} out of an `if`/`match` is outside the supported subset", s.tok)
                    seen.append(v.ty)
                    return app(kname, v.t), None
                head, _ = self.tail(init, env, join)
                xty = expect
                for t in seen:
                    xty = unify(xty, t, s.tok)
                if xty is None:
                    die("the type of this `let` is not known", s.tok)
                cn = coq_ident(s.pat.name)
                env2 = dict(env)
                env2[s.pat.name] = V(cn, xty)
                body, ty = rest(env2)
                return (f"let {kname} := fun ({cn} : {self.ctype(xty, s.tok)}) =>\n  {ind(body)} in\n{head}"), ty
            v = self.expr(init, env, B, expect)
            if expect is not None:
                v = self.convert(v, expect, s.tok)
            return self.bind_let(s, v, B, env, rest)
        x = s.e
        if x.k == "return":
            if i + 1 < len(ss) or tail is not None:
                die("code after `return`", x.tok)
            return self.tail(x, env, None)
        if x.k == "if" and x.els is None:
            B = []
            c = self.expr(x.cond, env, B)
            if c.ty != "Bool":
                die("condition that is not a bool", x.tok)
            a, aty = self.block(x.then, env, None)      # must leave through `return`
            b, bty = rest(env)
            return self.wrap(B, coq_if(c.t, a, b), x.tok), unify(aty, bty, x.tok)
        if x.k == "iflet" and x.els is None:
            B = []
            v = self.expr(x.scrut, env, B)
            alts = self.pat_alts(x.pat, v.ty)
            if len(alts) != 1:
                die("or-pattern in `if let`", x.tok)
            txt, binds, irref = alts[0]
            env2 = dict(env)
            env2.update(binds)
            a, aty = self.block(x.then, env2, None)     # must leave through `return`
            b, bty = rest(env)
            rows = [(txt, a)] + ([] if irref else [("_", b)])
            return self.wrap(B, coq_match(v.t, rows), x.tok), unify(aty, bty, x.tok)
        if x.k == "for":
            B = []
            it = self.as_iter(self.expr(x.iter, env, B), x.tok)
            alts = self.pat_alts(x.pat, it.ty[1])
            if len(alts) != 1 or not alts[0][2]:
                die("refutable pattern in `for`", x.tok)
            if self.rty is None:
                die("`for` inside a closure is outside the supported subset", x.tok)
            txt, binds, _ = alts[0]
            after, aty = rest(env)                       # what follows the loop = the empty case
            self.loops += 1
            loop = "loop__" if self.loops == 1 else f"loop__{self.loops}"
            env2 = dict(env)
            env2.update(binds)
            body, bty = self.block(x.body, env2, lambda v: (app(loop, "it__"), None))
            ty = unify(aty, bty, x.tok)
            m = coq_match("it__", [("[]", after), (f"{txt} :: it__", body)])
            text = (f"(fix {loop} (it__ : {self.ctype(it.ty, x.tok)}) : {self.ctype(self.rty, x.tok)} :=\n"
                    f"   {ind(m, 3)}) {par(it.t)}")
            return self.wrap(B, text, x.tok), ty
        B = []
        mut = self.mutation(x, env, B)
        if mut is not None:
            var, new = mut
            cn = env[var].t
            body, ty = rest(env)
            return self.wrap(B, f"let {cn} := {new} in\n{body}", x.tok), ty
        die(f"statement form `{x.k}` is outside the supported subset", x.tok)

    def has_next(self, node, name):
        if isinstance(node, N):
            if node.k == "mcall" and node.name == "next" and node.recv.k == "path" and node.recv.segs == [name]:
                return True
            return any(self.has_next(v, name) for a, v in node.__dict__.items() if a not in ("k", "tok"))
        if isinstance(node, (list, tuple)):
            return any(self.has_next(x, name) for x in node)
        return False


# ---- the type literals of var_type!( .. )  (grammar: type_ident of parser/src/simplesl.pest; the
#      expansion, macros/src/var_type.rs::type_token_from_pair, is pinned) -------------------------
class VarType:
    def __init__(self, tr, toks, env, anchor):
        self.tr, self.t, self.env, self.anchor = tr, toks, env, anchor
        self.i = 0

    def cur(self):
        return self.t[self.i] if self.i < len(self.t) else None

    def isp(self, s, k=0):
        return self.i + k < len(self.t) and is_p(self.t[self.i + k], s)

    def whole(self):
        v = self.type_()
        if self.cur() is not None:
            die(f"var_type!: unexpected `{self.cur().s}`", self.cur())
        return v

    def sub(self, toks, anchor):
        return VarType(self.tr, toks, self.env, anchor).whole()

    def type_(self):
        acc = self.std()
        while self.isp("|"):
            tok = self.cur()
            self.i += 1
            nxt = self.std()
            acc = self.tr.user_call("Type::bitor", [acc, nxt], tok)      # quote!(#acc | #curr)
        return acc

    def ty_of(self, v, tok):
        if v.ty != "Ty":
            die(f"var_type!: a {type_name(v.ty)} where a type is expected", tok)
        return v

    def group(self):
        c = match_close(self.t, self.i)
        inner = self.t[self.i + 1:c]
        self.i = c + 1
        return inner

    def ret(self):
        t = self.cur()
        if t is not None and is_p(t, "("):
            c = match_close(self.t, self.i)
            inner = self.t[self.i + 1:c]
            arrow = c + 1 < len(self.t) and is_p(self.t[c + 1], "->")
            if inner and not arrow and len(split_top(inner, ",")) == 1:
                self.i = c + 1
                return self.ty_of(self.sub(inner, t), t)            # "(" multi_ident ")"
        return self.std()

    def std(self):
        t = self.cur()
        if t is None:
            die("var_type!: unexpected end", self.anchor)
        if is_p(t, "("):
            inner = self.group()
            parts = [p for p in split_top(inner, ",") if p] if inner else []
            if self.isp("->"):
                self.i += 1
                ps = [self.ty_of(self.sub(p, t), t).t for p in parts]
                r = self.ty_of(self.ret(), t)
                return V(app("TFun", coq_list(ps), r.t), "Ty")
            if not inner:
                return V("TVoid", "Ty")
            if len(parts) < 2:
                die("var_type!: a parenthesised type is valid only as a result type", t)
            return V(app("TTup", coq_list([self.ty_of(self.sub(p, t), t).t for p in parts])), "Ty")
        if is_p(t, "["):
            inner = self.group()
            if not inner:
                return V("TArr TNever", "Ty")
            return V(app("TArr", self.ty_of(self.sub(inner, t), t).t), "Ty")
        if is_p(t, "!"):
            self.i += 1
            return V("TNever", "Ty")
        if t.k == "id":
            self.i += 1
            prim = {"bool": "TBool", "int": "TInt", "float": "TFloat", "string": "TString", "any": "TAny"}
            if t.s in prim:
                return V(prim[t.s], "Ty")
            if t.s == "mut":
                return V(app("TMut", self.ty_of(self.ret(), t).t), "Ty")
            if t.s == "struct":
                if not self.isp("{"):
                    die("var_type!: expected `{` after struct", t)
                if self.group():
                    die("var_type!: struct types with fields are outside the supported subset", t)
                return V("TStruct []", "Ty")
            v = self.env.get(t.s)
            if v is None:
                die(f"var_type!: unknown name `{t.s}`", t)
            if self.isp("->"):
                self.i += 1
                if v.ty != ("List", "Ty"):
                    die(f"var_type!: `{t.s}` is used as a parameter list but is a {type_name(v.ty)}", t)
                r = self.ty_of(self.ret(), t)
                return V(app("TFun", v.t, r.t), "Ty")
            return self.ty_of(v, t)
        die(f"var_type!: unexpected `{t.s}`", t)


# --------------------------------------------------------------------------------------
# 5. the call graph, open recursion, output
# --------------------------------------------------------------------------------------
SOURCES = ["src/variable/type.rs", "src/variable/function_type.rs", "src/variable/struct_type.rs",
           "src/variable/multi_type.rs"]
MACRO_SOURCE = "macros/src/var_type.rs"

# the functions Lemmas/TypeTie.v has a lemma for (a missing one stops the run)
WANTED = [
    "Type::matches", "Type::concat", "Type::conjoin", "Type::flatten_tuple", "Type::index_result",
    "Type::params", "Type::return_type", "Type::element_type", "Type::mut_element_type",
    "Type::is_function", "Type::is_tuple", "Type::is_mut", "Type::is_iterator", "Type::is_struct",
    "Type::tuple_len", "Type::min_tuple_len", "Type::iter_element", "Type::tuple_element_at",
    "Type::can_be_indexed", "Type::field_type", "Type::has_field", "Type::bitor",
    "FunctionType::matches", "FunctionType::concat", "FunctionType::return_type", "FunctionType::bitor",
    "StructType::matches", "MultiType::iter", "MultiType::from",
]

PINNED = {
    # impl BitOrAssign for Type: no counterpart in Model/Ty.v, no use in the crate; writes through `&mut self`
    "Type::bitor_assign":
        "( & mut self , rhs : Self ) { match ( self , rhs ) { "
        "( first , second ) if second . matches ( first ) => ( ) , "
        "( first , second ) if first . matches ( & second ) => * first = second , "
        "( Type :: Multi ( typeset ) , Type :: Multi ( typeset2 ) ) => { "
        "Arc :: make_mut ( & mut typeset . 0 ) . extend ( typeset2 . iter ( ) . cloned ( ) ) } "
        "( Type :: Multi ( typeset ) , second ) => { Arc :: make_mut ( & mut typeset . 0 ) . insert ( second ) ; } "
        "( first , second ) => * first = first . clone ( ) | second , } }",
    # the expansion of var_type!( .. ): unions through `|`, arrays / tuples / functions by constructor
    "type_token_from_pair":
        "( pair : Pair < Rule > ) -> TokenStream2 { match pair . as_rule ( ) { "
        "Rule :: bool_type => quote ! ( simplesl :: variable :: Type :: Bool ) , "
        "Rule :: int_type => quote ! ( simplesl :: variable :: Type :: Int ) , "
        "Rule :: float_type => quote ! ( simplesl :: variable :: Type :: Float ) , "
        "Rule :: string_type => quote ! ( simplesl :: variable :: Type :: String ) , "
        "Rule :: void => quote ! ( simplesl :: variable :: Type :: Void ) , "
        "Rule :: any => quote ! ( simplesl :: variable :: Type :: Any ) , "
        "Rule :: never => quote ! ( simplesl :: variable :: Type :: Never ) , "
        "Rule :: multi_ident => pair . into_inner ( ) . map ( | pair | type_token_from_pair ( pair ) ) "
        ". reduce ( | acc , curr | quote ! ( # acc | # curr ) ) . unwrap ( ) , "
        "Rule :: array_type_ident => { let element_type = pair . into_inner ( ) . next ( ) . map_or_else ( "
        "|| quote ! ( simplesl :: variable :: Type :: Never ) , type_token_from_pair , ) ; "
        "quote ! ( simplesl :: variable :: Type :: Array ( ( # element_type ) . into ( ) ) ) } "
        "Rule :: tuple_type_ident => { let elements = pair . into_inner ( ) . map ( type_token_from_pair ) "
        ". reduce ( | acc , curr | quote ! ( # acc , # curr ) ) ; "
        "quote ! ( simplesl :: variable :: Type :: Tuple ( [ # elements ] . into ( ) ) ) } "
        "Rule :: function_type_ident => { let mut pairs = pair . into_inner ( ) ; "
        "let params = type_token_from_pair ( pairs . next ( ) . unwrap ( ) ) ; "
        "let return_type = pairs . next ( ) . map ( type_token_from_pair ) . unwrap ( ) ; "
        "quote ! ( simplesl :: variable :: Type :: Function ( simplesl :: variable :: FunctionType { "
        "params : # params , return_type : # return_type } . into ( ) ) ) } "
        "Rule :: ident => { let ident = format_ident ! ( \"{}\" , pair . as_str ( ) ) ; quote ! ( # ident ) } "
        "Rule :: function_type_params_ident => { let elements = pair . into_inner ( ) "
        ". map ( type_token_from_pair ) . reduce ( | acc , curr | quote ! ( # acc , # curr ) ) ; "
        "quote ! ( [ # elements ] . into ( ) ) } "
        "Rule :: mut_type_ident => { let return_type = pair . into_inner ( ) . next ( ) "
        ". map ( type_token_from_pair ) . unwrap ( ) ; "
        "quote ! ( simplesl :: variable :: Type :: Mut ( # return_type . into ( ) ) ) } "
        "Rule :: struct_type_ident => { let fields = pair . into_inner ( ) . tuples ( ) . map ( | ( ident , var_type ) | { "
        "let ident = ident . as_str ( ) ; let var_type = type_token_from_pair ( var_type ) ; "
        "quote ! ( ( # ident . into ( ) , # var_type ) ) } ) . reduce ( | acc , curr | quote ! ( # acc , # curr ) ) ; "
        "quote ! ( simplesl :: variable :: Type :: Struct ( simplesl :: variable :: StructType :: from ( [ # fields ] ) ) ) } "
        "rule => unexpected ! ( rule ) , } }",
}

PRELUDE = """\
(* ---- fixed vocabulary (the same text on every run): Rust's std functions on the model's lists ---- *)
(* a place the Rust code panics at (`unwrap` on None, slice index out of bounds); the argument only
   makes the function total: Model/Ty.v gives the same value there (see its header) *)
Definition rs_panic {A : Type} (placeholder : A) : A := placeholder.
Definition rs_is_empty {A : Type} (l : list A) : bool := match l with [] => true | _ :: _ => false end.
Definition rs_contains_key {V : Type} (k : ident) (m : list (ident * V)) : bool :=
  match assoc k m with Some _ => true | None => false end.
Definition rs_unwrap_or {A : Type} (o : option A) (d : A) : A := match o with Some a => a | None => d end.
Definition rs_and_then {A B : Type} (o : option A) (f : A -> option B) : option B :=
  match o with Some a => f a | None => None end.
(* Iterator::reduce *)
Definition rs_reduce {A : Type} (f : A -> A -> A) (l : list A) : option A :=
  match l with [] => None | x :: rest => Some (fold_left f rest x) end.
(* Iterator::try_fold with an Option-returning step: stops at the first None *)
Fixpoint rs_try_fold {A B : Type} (f : A -> B -> option A) (acc : A) (l : list B) : option A :=
  match l with
  | [] => Some acc
  | x :: rest => match f acc x with Some acc' => rs_try_fold f acc' rest | None => None end
  end.
(* HashSet<Type> as the list of its members (Model/Ty.v): insert, from an array, extend with the
   members of another SET (its members are pairwise different: those not yet present are added) *)
Definition rs_hashset_insert (m : list ty) (t : ty) : list ty := if mem_ty t m then m else m ++ [t].
Definition rs_hashset_from (l : list ty) : list ty := fold_left rs_hashset_insert l [].
Definition rs_hashset_extend (m1 m2 : list ty) : list ty :=
  m1 ++ filter (fun x => negb (mem_ty x m1)) m2.
"""


def mangle(key):
    return key.replace("::", "_")


def static_key(name):
    return "static " + name


class World:
    def __init__(self, repo):
        self.items = Items()
        for rel in SOURCES:
            path = os.path.join(repo, rel)
            if not os.path.exists(path):
                raise Unsupported(f"{rel}: file not found")
            walk(tokenize(open(path, encoding="utf-8").read(), rel), self.items)
        self.macro_items = Items()
        path = os.path.join(repo, MACRO_SOURCE)
        if not os.path.exists(path):
            raise Unsupported(f"{MACRO_SOURCE}: file not found")
        walk_free(tokenize(open(path, encoding="utf-8").read(), MACRO_SOURCE), self.macro_items)
        self.froms, self.enum_tok = check_decls(self.items)
        self.sigs = {}
        self.roles = None        # pass 2: key -> root of its recursive component (or None)
        self.static_ty = {}

    def sig(self, key):
        if key not in self.sigs:
            self.sigs[key] = parse_signature(self.items.fns[key])
        return self.sigs[key]

    def static_ref(self, caller, name, tok):
        ty_toks = self.items.statics[name][0]
        fake = Fn(name, "Type", None, {}, {}, [], [], tok)
        ty = rtype(ty_toks, fake, tok)
        caller.calls.append(static_key(name))
        return V("gen_" + name, ty)

    def render_call(self, caller, key, terms):
        caller.calls.append(key)
        base = "gen_" + mangle(key)
        if self.roles is None:
            return app(base, *terms)
        root = self.roles.get(key)
        if root is not None and self.roles.get(caller.key) == root:
            rec = "rec_" + mangle(root)
            if key == root:
                return app(rec, *terms)
            return app(base + "_open", rec, *terms)
        return app(base, *terms)


def walk_free(toks, items):
    """top-level `fn`s of a file (the macro crate)"""
    i, n = 0, len(toks)
    while i < n:
        t = toks[i]
        if is_id(t, "fn") and i + 1 < n and toks[i + 1].k == "id":
            j = i + 2
            while j < n and not is_p(toks[j], "{") and not is_p(toks[j], ";"):
                if toks[j].k == "p" and toks[j].s in OPEN:
                    j = match_close(toks, j) + 1
                else:
                    j += 1
            if j < n and is_p(toks[j], "{"):
                c = match_close(toks, j)
                items.fns[toks[i + 1].s] = Fn(toks[i + 1].s, None, None, {}, {}, toks[i + 2:j], toks[j + 1:c],
                                              toks[i + 1])
                i = c + 1
                continue
        if t.k == "p" and t.s in OPEN:
            i = match_close(toks, i) + 1
        else:
            i += 1


def binders(params):
    out, args, tys = [], [], []
    for name, ty in params:
        cn = coq_ident(name)
        if ty == "FnTy":
            out.append(f"({cn}_params : list ty) ({cn}_return_type : ty)")
            args += [cn + "_params", cn + "_return_type"]
            tys += ["list ty", "ty"]
        else:
            out.append(f"({cn} : {coq_ty(ty)})")
            args.append(cn)
            tys.append(coq_ty(ty))
    return " ".join(out), args, tys


def initial_env(params):
    env = {}
    for name, ty in params:
        cn = coq_ident(name)
        env[name] = V((cn + "_params", cn + "_return_type"), "FnTy") if ty == "FnTy" else V(cn, ty)
    return env


def translate_body(w, key):
    """-> (Coq text of the body, the translator with its recorded calls)"""
    if key.startswith("static "):
        name = key[len("static "):]
        ty_toks, init, tok = w.items.statics[name]
        tr = FT(w, key, None)
        fake = Fn(name, "Type", None, {}, {}, [], [], tok)
        tr.rty = rtype(ty_toks, fake, tok)
        e = Parser(init, tok).whole_expr()
        text, ty = tr.tail(e, {}, None)
        unify(ty, tr.rty, tok, f"static {name}")
        return text, tr
    fn = w.items.fns[key]
    params, ret = w.sig(key)
    tr = FT(w, key, fn)
    tr.rty = ret
    body = Parser(fn.body, fn.tok).block_body(fn.tok)
    text, ty = tr.stmts(body.stmts, 0, body.tail, initial_env(params), None, fn.tok)
    unify(ty, ret, fn.tok, f"result of {key}")
    return text, tr


def sccs(graph):
    """Tarjan; -> list of components (each a list of keys), callees first"""
    index, low, on, stack, out = {}, {}, set(), [], []
    counter = [0]

    def visit(v):
        index[v] = low[v] = counter[0]
        counter[0] += 1
        stack.append(v)
        on.add(v)
        for u in graph[v]:
            if u not in index:
                visit(u)
                low[v] = min(low[v], low[u])
            elif u in on:
                low[v] = min(low[v], index[u])
        if low[v] == index[v]:
            comp = []
            while True:
                u = stack.pop()
                on.discard(u)
                comp.append(u)
                if u == v:
                    break
            out.append(comp)

    for v in graph:
        if v not in index:
            visit(v)
    return out


def acyclic_order(nodes, graph):
    """topological order (callees first) of `nodes` under graph restricted to them; None if cyclic"""
    state, out = {}, []

    def visit(v):
        if state.get(v) == 1:
            return False
        if state.get(v) == 2:
            return True
        state[v] = 1
        for u in graph[v]:
            if u in nodes and not visit(u):
                return False
        state[v] = 2
        out.append(v)
        return True

    for v in nodes:
        if not visit(v):
            return None
    return out


def coq_string(s):
    return '"' + s.replace('"', '""') + '"'


def generate(repo):
    w = World(repo)
    # ---- pinned texts
    pinned_out = []
    for key, expected in PINNED.items():
        fn = (w.macro_items if "::" not in key else w.items).fns.get(key)
        if fn is None:
            raise Unsupported(f"{key} not found (pinned function)")
        got = ntext(fn.sig) + " { " + ntext(fn.body) + " }"
        if got != expected:
            die(f"{key} changed (its text is pinned; Model/Ty.v has no reading of it to compare with):\n"
                f"  expected: {expected}\n  found:    {got}", fn.tok)
        pinned_out.append((key, fn, got))
    for key in WANTED:
        if w.items.fns.get(key) is None:
            raise Unsupported(f"function {key} not found in {', '.join(SOURCES)}")
    # ---- pass 1: translate everything reachable, record the call graph
    graph, order = {}, []
    todo = list(WANTED)
    while todo:
        key = todo.pop(0)
        if key in graph:
            continue
        _, tr = translate_body(w, key)
        graph[key] = list(dict.fromkeys(tr.calls))
        order.append(key)
        todo = [c for c in graph[key] if c not in graph] + todo
    comps = sccs(graph)
    roles, comp_of = {}, {}
    for comp in comps:
        recursive = len(comp) > 1 or comp[0] in graph[comp[0]]
        root = None
        if recursive:
            if any(k.startswith("static ") for k in comp):
                die("a static that refers to itself", w.enum_tok)
            cands = sorted(comp, key=lambda k: (not k.startswith("Type::"), order.index(k)))
            for c in cands:
                if acyclic_order([k for k in comp if k != c], graph) is not None:
                    root = c
                    break
            if root is None:
                die("mutual recursion that does not pass through one function: " + ", ".join(sorted(comp)),
                    w.items.fns[comp[0]].tok)
        for k in comp:
            roles[k] = root
            comp_of[k] = comp
    # ---- pass 2: translate with the roles known, emit callees first
    w.roles = roles
    defs, done, names = [], set(), []

    def header(key):
        if key.startswith("static "):
            tok = w.items.statics[key[7:]][2]
            return f"(* {tok.file}:{tok.line}  lazy_static {key[7:]} *)\n"
        fn = w.items.fns[key]
        tr = f"  (impl {fn.trait} for {fn.selfty})" if fn.trait else ""
        return f"(* {fn.tok.file}:{fn.tok.line}  fn {key}{tr} *)\n"

    def emit(key):
        if key in done:
            return
        comp = comp_of[key]
        root = roles[key]
        for k in comp:
            done.add(k)
        for k in comp:
            for c in graph[k]:
                if c not in comp:
                    emit(c)
        if root is None:
            text, _ = translate_body(w, key)
            if key.startswith("static "):
                name = key[7:]
                ty_toks, _, tok = w.items.statics[name]
                ty = rtype(ty_toks, Fn(name, "Type", None, {}, {}, [], [], tok), tok)
                defs.append(header(key) + f"Definition gen_{name} : {coq_ty(ty)} :=\n  {ind(text)}.\n")
                names.append((key, "gen_" + name, "static"))
                return
            params, ret = w.sig(key)
            b, _, _ = binders(params)
            defs.append(header(key) + f"Definition gen_{mangle(key)} {b} : {coq_ty(ret)} :=\n  {ind(text)}.\n")
            names.append((key, "gen_" + mangle(key), "plain"))
            return
        rparams, rret = w.sig(root)
        _, rargs, rtys = binders(rparams)
        rec_ty = " -> ".join(rtys + [coq_ty(rret)])
        rec = f"(rec_{mangle(root)} : {rec_ty})"
        others = acyclic_order([k for k in comp if k != root], graph)
        for k in others:
            text, _ = translate_body(w, k)
            params, ret = w.sig(k)
            b, _, _ = binders(params)
            defs.append(header(k) + f"Definition gen_{mangle(k)}_open {rec} {b} : {coq_ty(ret)} :=\n  {ind(text)}.\n")
        text, _ = translate_body(w, root)
        b, args, _ = binders(rparams)
        base = "gen_" + mangle(root)
        sizes = [f"size {coq_ident(n)}" for n, t in rparams if t == "Ty"]
        if not sizes:
            die(f"{root} is recursive but has no Type argument to take the fuel from", w.items.fns[root].tok)
        a = " ".join(args)
        defs.append(
            header(root)
            + f"Definition {base}_step {rec} {b} : {coq_ty(rret)} :=\n  {ind(text)}.\n\n"
            + f"Fixpoint {base}_f (fuel : nat) {b} {{struct fuel}} : {coq_ty(rret)} :=\n"
            + f"  match fuel with\n  | O => {default_of(rret, w.items.fns[root].tok)}\n"
            + f"  | S fuel => {base}_step ({base}_f fuel) {a}\n  end.\n\n"
            + f"Definition {base} {b} : {coq_ty(rret)} := {base}_f ({' + '.join(sizes)}) {a}.\n")
        names.append((root, base, "recursive"))
        for k in others:
            params, ret = w.sig(k)
            b, args, _ = binders(params)
            defs.append(f"(* {k}, closed *)\nDefinition gen_{mangle(k)} {b} : {coq_ty(ret)} :=\n"
                        f"  gen_{mangle(k)}_open {base} {' '.join(args)}.\n")
            names.append((k, "gen_" + mangle(k), "through " + root))

    for key in order:
        emit(key)

    out = []
    out.append("(* GENERATED by translators/typefns2coq.py from src/variable/{type,function_type,struct_type,"
               "multi_type}.rs of /repo — do not edit.\n"
               "   One Coq function per Rust function, arm for arm; unions (HashSet) and structs (HashMap) are\n"
               "   the lists of Model/Ty.v, `iter()` over them is the list (order-insensitivity: C05).\n"
               "   Recursive functions: gen_X_step (one unfolding, recursive calls through `rec_X`),\n"
               "   gen_X_f (fuel), gen_X (fuel = the sizes of the Type arguments).\n"
               "   Tied to Model/Ty.v by Lemmas/TypeTie.v (Props/C10c.v). *)")
    out.append("From SSL.Model Require Import Base Ty.\nFrom Coq Require String.\n")
    out.append(PRELUDE)
    out.extend(defs)
    out.append("(* ---- what was read ---- *)")
    out.append("Module GenTypeFnsTable.\nImport Coq.Strings.String.\nLocal Open Scope string_scope.")
    out.append("(* Rust function, how it was translated *)")
    rows = [f"({coq_string(k)}, {coq_string(how)})" for k, _, how in names]
    out.append("Definition gen_translated : list (string * string) :=\n  [ " + ";\n    ".join(rows) + " ].")
    out.append("(* functions whose text is pinned instead (normalised tokens) *)")
    rows = [f"({coq_string(k)},\n     {coq_string(txt)})" for k, _, txt in pinned_out]
    out.append("Definition gen_pinned : list (string * string) :=\n  [ " + ";\n    ".join(rows) + " ].")
    out.append("End GenTypeFnsTable.\n")
    return "\n".join(out), names, pinned_out


def main():
    if len(sys.argv) != 3:
        sys.exit("usage: typefns2coq.py <repo_dir> <gen_dir>")
    repo, gen = sys.argv[1], sys.argv[2]
    sys.setrecursionlimit(10000)
    try:
        text, names, pinned = generate(repo)
    except Unsupported as e:
        sys.exit(f"typefns2coq: {e}")
    except (RecursionError, KeyError, IndexError, AttributeError, TypeError, ValueError) as e:
        # not a precise location, but still a refusal rather than a wrong Gen file
        sys.exit(f"typefns2coq: {SOURCES[0]}:0: source outside the supported subset "
                 f"(internal {type(e).__name__}: {e})")
    path = os.path.join(gen, "GenTypeFns.v")
    if not os.path.exists(path) or open(path, encoding="utf-8").read() != text:
        with open(path, "w", encoding="utf-8") as f:
            f.write(text)
    nfun = sum(1 for _, _, how in names if how != "static")
    print(f"typefns2coq: {nfun} functions and {len(names) - nfun} statics translated, {len(pinned)} pinned, "
          f"declarations of Type / FunctionType / StructType / MultiType checked")


if __name__ == "__main__":
    main()
